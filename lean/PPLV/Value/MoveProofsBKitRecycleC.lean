import PPLV.Value.MoveProofsBKitRecycle
set_option linter.unusedSimpArgs false

/-!
# C13 moving mechanics — agent B toolkit (part 3): refinement of `Poly.addRecycledConstraints`
-/
namespace PPLV.Value.Move.PolyKit
open PPLV.Value.Move

macro "permB" : tactic =>
  `(tactic| (rw [List.perm_iff_count]; intro a; simp only [List.count_append, List.count_cons, List.count_nil]; omega))

/-- the moving core of `add_recycled_constraints`: adjust the argument, then `insert(cs, Recycle_Input)` -/
theorem recycleC_moved (h : Heap) (x : Poly) (cs : LinSys) (frame : List Nat)
    (hO : Owns h (x.owned ++ cs.owned ++ frame)) (hne : cs.hasNoRows = false) :
    let a := adjustTopologyAndSpaceDimension h cs x.nnc x.spaceDim
    let out := x.conSys.insertSys constraintClass a.1 a.2
    Owns out.1 ((out.2.1.owned ++ x.genSys.owned) ++ out.2.2.owned ++ frame)
    ∧ FrameEq h out.1 frame
    ∧ out.2.1.value out.1 = insertSysV constraintClass (x.conSys.value h) (adjustV x.nnc x.spaceDim (cs.value h))
    ∧ x.genSys.value out.1 = x.genSys.value h
    ∧ out.2.2.value out.1 = ⟨[], 0, x.nnc, 0, true⟩ ∧ out.2.2.owned = [] := by
  have hO1 : Owns h (cs.owned ++ (x.conSys.owned ++ x.genSys.owned ++ frame)) :=
    Owns.perm (by simp only [Poly.owned]; permB) hO
  have A := adjust_refines h cs x.nnc x.spaceDim _ hO1
  dsimp only at A ⊢
  generalize adjustTopologyAndSpaceDimension h cs x.nnc x.spaceDim = a at A ⊢
  obtain ⟨a1, a2, a3, a4⟩ := A
  have hO2 : Owns a.1 (x.conSys.owned ++ a.2.owned ++ (x.genSys.owned ++ frame)) :=
    Owns.perm (by permB) a1
  have B := insertSys_refines constraintClass a.1 x.conSys a.2 _ hO2
  dsimp only at B ⊢
  generalize x.conSys.insertSys constraintClass a.1 a.2 = out at B ⊢
  obtain ⟨b1, b2, b3, _, b5, b6⟩ := B
  have hne' : a.2.hasNoRows = false := by rw [hasNoRows_of_owned_eq a2]; exact hne
  have hxc : x.conSys.value a.1 = x.conSys.value h :=
    LinSys.value_frame _ a4 (fun b hb => by simp [hb])
  have hxg1 : x.genSys.value a.1 = x.genSys.value h :=
    LinSys.value_frame _ a4 (fun b hb => by simp [hb])
  have hxg2 : x.genSys.value out.1 = x.genSys.value a.1 :=
    LinSys.value_frame _ b6 (fun b hb => by simp [hb])
  refine ⟨Owns.perm (by permB) b1, ?_, ?_, hxg2.trans hxg1, ?_, b5 hne'⟩
  · exact FrameEq.trans (FrameEq.right a4) (FrameEq.right b6)
  · rw [b2, hxc, a3]
  · rw [b3, a3]
    have : (adjustV x.nnc x.spaceDim (cs.value h)).rows.isEmpty = false := by
      have := adjustV_rows_length x.nnc x.spaceDim (cs.value h)
      have h2 := value_rows_isEmpty h cs
      rw [hne] at h2
      cases hr : (adjustV x.nnc x.spaceDim (cs.value h)).rows with
      | nil => rw [hr] at this; cases hc : (cs.value h).rows with
        | nil => simp [hc] at h2
        | cons _ _ => simp [hc] at this
      | cons _ _ => rfl
    simp [insertSysArgV, this, clearV, adjustV_nnc]

/-- the same with `insert_pending(cs, Recycle_Input)` -/
theorem recycleC_movedPending (h : Heap) (x : Poly) (cs : LinSys) (frame : List Nat)
    (hO : Owns h (x.owned ++ cs.owned ++ frame)) :
    let a := adjustTopologyAndSpaceDimension h cs x.nnc x.spaceDim
    let out := x.conSys.insertPendingSys constraintClass a.1 a.2
    Owns out.1 ((out.2.1.owned ++ x.genSys.owned) ++ out.2.2.owned ++ frame)
    ∧ FrameEq h out.1 frame
    ∧ out.2.1.value out.1 = insertPendingSysV (x.conSys.value h) (adjustV x.nnc x.spaceDim (cs.value h))
    ∧ x.genSys.value out.1 = x.genSys.value h
    ∧ out.2.2.value out.1 = ⟨[], 0, x.nnc, 0, true⟩ ∧ out.2.2.owned = [] := by
  have hO1 : Owns h (cs.owned ++ (x.conSys.owned ++ x.genSys.owned ++ frame)) :=
    Owns.perm (by simp only [Poly.owned]; permB) hO
  have A := adjust_refines h cs x.nnc x.spaceDim _ hO1
  dsimp only at A ⊢
  generalize adjustTopologyAndSpaceDimension h cs x.nnc x.spaceDim = a at A ⊢
  obtain ⟨a1, a2, a3, a4⟩ := A
  have hO2 : Owns a.1 (x.conSys.owned ++ a.2.owned ++ (x.genSys.owned ++ frame)) :=
    Owns.perm (by permB) a1
  have B := insertPendingSys_refines constraintClass a.1 x.conSys a.2 _ hO2
  dsimp only at B ⊢
  generalize x.conSys.insertPendingSys constraintClass a.1 a.2 = out at B ⊢
  obtain ⟨b1, b2, b3, b5, b6⟩ := B
  have hxc : x.conSys.value a.1 = x.conSys.value h :=
    LinSys.value_frame _ a4 (fun b hb => by simp [hb])
  have hxg1 : x.genSys.value a.1 = x.genSys.value h :=
    LinSys.value_frame _ a4 (fun b hb => by simp [hb])
  have hxg2 : x.genSys.value out.1 = x.genSys.value a.1 :=
    LinSys.value_frame _ b6 (fun b hb => by simp [hb])
  refine ⟨?_, ?_, ?_, hxg2.trans hxg1, ?_, b5⟩
  · rw [b5]; exact Owns.perm (by simp only [List.append_nil]; permB) b1
  · exact FrameEq.trans (FrameEq.right a4) (FrameEq.right b6)
  · rw [b2, hxc, a3]
  · rw [b3, a3]; simp [clearV, adjustV_nnc]

theorem pv_nnc (h : Heap) (x : Poly) : (Poly.value h x).conSys.nnc = x.nnc := rfl
theorem pv_conSys (h : Heap) (x : Poly) : (Poly.value h x).conSys = x.conSys.value h := rfl
theorem pv_genSys (h : Heap) (x : Poly) : (Poly.value h x).genSys = x.genSys.value h := rfl
theorem pv_spaceDim (h : Heap) (x : Poly) : (Poly.value h x).spaceDim = x.spaceDim := rfl
theorem pv_status (h : Heap) (x : Poly) : (Poly.value h x).status = x.status := rfl
theorem pv_satC (h : Heap) (x : Poly) : (Poly.value h x).satC = x.satC := rfl
theorem pv_satG (h : Heap) (x : Poly) : (Poly.value h x).satG = x.satG := rfl
theorem lv_nnc (h : Heap) (s : LinSys) : (LinSys.value h s).nnc = s.nnc := rfl
theorem lv_spaceDim (h : Heap) (s : LinSys) : (LinSys.value h s).spaceDim = s.spaceDim := rfl
theorem canPend_eq (x : Poly) : x.canHaveSomethingPending = canPendV x.status := rfl
theorem markedEmpty_eq (x : Poly) : x.markedEmpty = testAny x.status EMPTY := rfl

/-- **refinement of `add_recycled_constraints`**: ownership, frame, the receiver's value and the exit are
    the value-level function of the input values; the argument is emptied or untouched. -/
theorem addRecycledConstraints_refines (h : Heap) (x : Poly) (cs : LinSys) (frame : List Nat)
    (hO : Owns h (x.owned ++ cs.owned ++ frame)) :
    let out := x.addRecycledConstraints h cs
    Owns out.1 (out.2.1.owned ++ out.2.2.1.owned ++ frame)
    ∧ FrameEq h out.1 frame
    ∧ (out.2.1.value out.1, out.2.2.2) = addRecycledConstraintsV (x.value h) (cs.value h)
    ∧ ((out.2.2.2 = .moved ∨ out.2.2.2 = .movedPending) →
        out.2.2.1.value out.1 = ⟨[], 0, x.nnc, 0, true⟩ ∧ out.2.2.1.owned = [])
    ∧ (out.2.2.2 ≠ .moved → out.2.2.2 ≠ .movedPending → out.2.2.1 = cs ∧ out.1 = h) := by
  dsimp only
  -- trivial exits: nothing moves
  have triv : ∀ (x' : Poly) (e : Exit), x.addRecycledConstraints h cs = (h, x', cs, e) → x'.owned = x.owned →
      e ≠ .moved → e ≠ .movedPending →
      (x'.value h, e) = addRecycledConstraintsV (x.value h) (cs.value h) →
      Owns (x.addRecycledConstraints h cs).1
        ((x.addRecycledConstraints h cs).2.1.owned ++ (x.addRecycledConstraints h cs).2.2.1.owned ++ frame)
      ∧ FrameEq h (x.addRecycledConstraints h cs).1 frame
      ∧ ((x.addRecycledConstraints h cs).2.1.value (x.addRecycledConstraints h cs).1, (x.addRecycledConstraints h cs).2.2.2)
          = addRecycledConstraintsV (x.value h) (cs.value h)
      ∧ (((x.addRecycledConstraints h cs).2.2.2 = .moved ∨ (x.addRecycledConstraints h cs).2.2.2 = .movedPending) →
          (x.addRecycledConstraints h cs).2.2.1.value (x.addRecycledConstraints h cs).1 = ⟨[], 0, x.nnc, 0, true⟩
          ∧ (x.addRecycledConstraints h cs).2.2.1.owned = [])
      ∧ ((x.addRecycledConstraints h cs).2.2.2 ≠ .moved → (x.addRecycledConstraints h cs).2.2.2 ≠ .movedPending →
          (x.addRecycledConstraints h cs).2.2.1 = cs ∧ (x.addRecycledConstraints h cs).1 = h) := by
    intro x' e ho hx' he1 he2 hv
    rw [ho]
    refine ⟨by simpa [hx'] using hO, FrameEq.refl _ _, hv, ?_, fun _ _ => ⟨rfl, rfl⟩⟩
    rintro (h1 | h1)
    · exact absurd h1 he1
    · exact absurd h1 he2
  have hisE : (cs.value h).rows.isEmpty = cs.hasNoRows := value_rows_isEmpty h cs
  by_cases c1 : (!x.nnc && cs.nnc) = true
  · refine triv x .notModelled ?_ rfl (by decide) (by decide) ?_
    · simp only [Poly.addRecycledConstraints, c1, if_true, Bool.false_eq_true]
    · simp only [addRecycledConstraintsV, pv_nnc, pv_spaceDim, pv_status, lv_nnc, lv_spaceDim, hisE, c1, if_true, Bool.false_eq_true]
  by_cases c2 : x.spaceDim < cs.spaceDim
  · refine triv x .threw ?_ rfl (by decide) (by decide) ?_
    · simp only [Poly.addRecycledConstraints, c1, c2, if_true, if_false, Bool.false_eq_true]
    · simp only [addRecycledConstraintsV, pv_nnc, pv_spaceDim, pv_status, lv_nnc, lv_spaceDim, hisE, c1, c2, if_true, if_false, Bool.false_eq_true]
  by_cases c3 : cs.hasNoRows = true
  · refine triv x .noRows ?_ rfl (by decide) (by decide) ?_
    · simp only [Poly.addRecycledConstraints, c1, c2, c3, if_true, if_false, Bool.false_eq_true]
    · simp only [addRecycledConstraintsV, pv_nnc, pv_spaceDim, pv_status, lv_nnc, lv_spaceDim, hisE, c1, c2, c3, if_true, if_false, Bool.false_eq_true]
  have c3' : cs.hasNoRows = false := by simpa using c3
  by_cases c4 : (x.spaceDim == 0) = true
  · have hz : cs.rows.impl.all (zeroDimTautology h) = (cs.value h).rows.all zeroDimTautologyV :=
      zeroDim_all_eq hO cs.rows.impl (fun a ha => by simp [LinSys.owned, ha])
    refine triv (if cs.rows.impl.all (zeroDimTautology h) then x else { x with status := EMPTY }) .zeroDim
      ?_ (by split <;> rfl) (by decide) (by decide) ?_
    · simp only [Poly.addRecycledConstraints, c1, c2, c3, c4, if_true, if_false, Bool.false_eq_true]
    · simp only [addRecycledConstraintsV, pv_nnc, pv_spaceDim, pv_status, lv_nnc, lv_spaceDim, hisE, c1, c2, c3, c4, if_true, if_false, hz]
      split <;> rfl
  by_cases c5 : testAny x.status EMPTY = true
  · refine triv x .markedEmpty ?_ rfl (by decide) (by decide) ?_
    · simp only [Poly.addRecycledConstraints, markedEmpty_eq, c1, c2, c3, c4, c5, if_true, if_false, Bool.false_eq_true]
    · simp only [addRecycledConstraintsV, pv_nnc, pv_spaceDim, pv_status, lv_nnc, lv_spaceDim, hisE, c1, c2, c3, c4, c5, if_true, if_false, Bool.false_eq_true]
  by_cases c6 : (testAny x.status GS_PENDING || !testAny x.status C_UP) = true
  · refine triv x .notModelled ?_ rfl (by decide) (by decide) ?_
    · simp only [Poly.addRecycledConstraints, markedEmpty_eq, c1, c2, c3, c4, c5, c6, if_true, if_false, Bool.false_eq_true]
    · simp only [addRecycledConstraintsV, pv_nnc, pv_spaceDim, pv_status, lv_nnc, lv_spaceDim, hisE, c1, c2, c3, c4, c5, c6, if_true, if_false, Bool.false_eq_true]
  by_cases c7 : canPendV x.status = true
  · have hV : addRecycledConstraintsV (x.value h) (cs.value h) =
        (⟨insertPendingSysV (x.conSys.value h) (adjustV x.nnc x.spaceDim (cs.value h)), x.genSys.value h,
            x.satC, x.satG, setF x.status CS_PENDING, x.spaceDim⟩, Exit.movedPending) := by
      simp only [addRecycledConstraintsV, pv_nnc, pv_spaceDim, pv_status, lv_nnc, lv_spaceDim, hisE,
        c1, c2, c3, c4, c5, c6, c7, if_true, if_false, Bool.false_eq_true]
      rfl
    have ho : x.addRecycledConstraints h cs =
        ((x.conSys.insertPendingSys constraintClass (adjustTopologyAndSpaceDimension h cs x.nnc x.spaceDim).1
            (adjustTopologyAndSpaceDimension h cs x.nnc x.spaceDim).2).1,
         { x with
            conSys := (x.conSys.insertPendingSys constraintClass (adjustTopologyAndSpaceDimension h cs x.nnc x.spaceDim).1
              (adjustTopologyAndSpaceDimension h cs x.nnc x.spaceDim).2).2.1,
            status := setF x.status CS_PENDING },
         (x.conSys.insertPendingSys constraintClass (adjustTopologyAndSpaceDimension h cs x.nnc x.spaceDim).1
            (adjustTopologyAndSpaceDimension h cs x.nnc x.spaceDim).2).2.2, .movedPending) := by
      simp only [Poly.addRecycledConstraints, markedEmpty_eq, canPend_eq, c1, c2, c3, c4, c5, c6, c7, if_true, if_false, Bool.false_eq_true]
    obtain ⟨m1, m2, m3, m4, m5, m6⟩ := recycleC_movedPending h x cs frame hO
    rw [ho, hV]
    refine ⟨m1, m2, ?_, fun _ => ⟨m5, m6⟩, fun _ hh => absurd rfl hh⟩
    simp only [Poly.value, m3, m4]
  · have hV : addRecycledConstraintsV (x.value h) (cs.value h) =
        (⟨insertSysV constraintClass (x.conSys.value h) (adjustV x.nnc x.spaceDim (cs.value h)), x.genSys.value h,
            x.satC, x.satG, clearGeneratorsUpToDate (resetF x.status C_MIN), x.spaceDim⟩, Exit.moved) := by
      simp only [addRecycledConstraintsV, pv_nnc, pv_spaceDim, pv_status, lv_nnc, lv_spaceDim, hisE,
        c1, c2, c3, c4, c5, c6, c7, if_true, if_false, Bool.false_eq_true]
      rfl
    have ho : x.addRecycledConstraints h cs =
        ((x.conSys.insertSys constraintClass (adjustTopologyAndSpaceDimension h cs x.nnc x.spaceDim).1
            (adjustTopologyAndSpaceDimension h cs x.nnc x.spaceDim).2).1,
         { x with
            conSys := (x.conSys.insertSys constraintClass (adjustTopologyAndSpaceDimension h cs x.nnc x.spaceDim).1
              (adjustTopologyAndSpaceDimension h cs x.nnc x.spaceDim).2).2.1,
            status := clearGeneratorsUpToDate (resetF x.status C_MIN) },
         (x.conSys.insertSys constraintClass (adjustTopologyAndSpaceDimension h cs x.nnc x.spaceDim).1
            (adjustTopologyAndSpaceDimension h cs x.nnc x.spaceDim).2).2.2, .moved) := by
      simp only [Poly.addRecycledConstraints, markedEmpty_eq, canPend_eq, c1, c2, c3, c4, c5, c6, c7, if_true, if_false, Bool.false_eq_true]
    obtain ⟨m1, m2, m3, m4, m5, m6⟩ := recycleC_moved h x cs frame hO c3'
    rw [ho, hV]
    refine ⟨m1, m2, ?_, fun _ => ⟨m5, m6⟩, fun hh _ => absurd rfl hh⟩
    simp only [Poly.value, m3, m4]

end PPLV.Value.Move.PolyKit
