import PPLV.Value.MoveProofsCopy
/-!
# C13 stage 2 — proofs [C], part 3: `merge_rows_assign`
-/
namespace PPLV.Value.Move
namespace CopyKit

/-- the rows `y[…]` reads: the argument's, or the receiver's own current rows -/
def yrowsOf (ys : Option (List Row)) (xs : List Row) : List Row := match ys with | some l => l | none => xs

/-- the comparison made by the loop -/
def compOf (K : RowClass) (h : Heap) (xr yr : Row) : Int :=
  match xr.value h, yr.value h with
  | some u, some v => K.cmp u v
  | _, _ => 0

theorem mergeLoop_zero (K : RowClass) (sd : Nat) (ys : Option (List Row)) (xi yi : Nat) (h : Heap) (xs : List Row) (tmp : SVec) :
    mergeLoop K sd ys 0 xi yi h xs tmp = (h, xs, tmp) := rfl

theorem mergeLoop_steal (K : RowClass) (sd : Nat) (ys : Option (List Row)) (fuel xi yi : Nat) (h : Heap) (xs : List Row)
    (tmp : SVec) (xr yr : Row) (hx : xs[xi]? = some xr) (hy : (yrowsOf ys xs)[yi]? = some yr)
    (hc : compOf K h xr yr ≤ 0) :
    mergeLoop K sd ys (fuel + 1) xi yi h xs tmp
      = mergeLoop K sd ys fuel (xi + 1) (if compOf K h xr yr = 0 then yi + 1 else yi) (pushSwap K h tmp xr).1
          (xs.set xi (pushSwap K h tmp xr).2.2) (pushSwap K h tmp xr).2.1 := by
  have hxl : xi < xs.length := (List.getElem?_eq_some_iff.mp hx).1
  have hyl := (List.getElem?_eq_some_iff.mp hy).1
  cases ys with
  | none =>
    simp only [yrowsOf] at hy hyl
    rw [mergeLoop]
    simp only [hxl, hyl, and_self, if_true, hx, hy]
    change (if compOf K h xr yr ≤ 0 then _ else _) = _
    rw [if_pos hc]
    rfl
  | some l =>
    simp only [yrowsOf] at hy hyl
    rw [mergeLoop]
    simp only [hxl, hyl, and_self, if_true, hx, hy]
    change (if compOf K h xr yr ≤ 0 then _ else _) = _
    rw [if_pos hc]
    rfl

theorem mergeLoop_copy (K : RowClass) (sd : Nat) (ys : Option (List Row)) (fuel xi yi : Nat) (h : Heap) (xs : List Row)
    (tmp : SVec) (xr yr : Row) (hx : xs[xi]? = some xr) (hy : (yrowsOf ys xs)[yi]? = some yr)
    (hc : ¬ compOf K h xr yr ≤ 0) :
    mergeLoop K sd ys (fuel + 1) xi yi h xs tmp
      = mergeLoop K sd ys fuel xi (yi + 1)
          (Row.destroy (pushSwap K (Row.copyDim h yr sd).1 tmp (Row.copyDim h yr sd).2).1
            (pushSwap K (Row.copyDim h yr sd).1 tmp (Row.copyDim h yr sd).2).2.2)
          xs (pushSwap K (Row.copyDim h yr sd).1 tmp (Row.copyDim h yr sd).2).2.1 := by
  have hxl : xi < xs.length := (List.getElem?_eq_some_iff.mp hx).1
  have hyl := (List.getElem?_eq_some_iff.mp hy).1
  cases ys with
  | none =>
    simp only [yrowsOf] at hy hyl
    rw [mergeLoop]
    simp only [hxl, hyl, and_self, if_true, hx, hy]
    change (if compOf K h xr yr ≤ 0 then _ else _) = _
    rw [if_neg hc]
  | some l =>
    simp only [yrowsOf] at hy hyl
    rw [mergeLoop]
    simp only [hxl, hyl, and_self, if_true, hx, hy]
    change (if compOf K h xr yr ≤ 0 then _ else _) = _
    rw [if_neg hc]

theorem mergeLoop_steal_tail (K : RowClass) (sd : Nat) (ys : Option (List Row)) (fuel xi yi : Nat) (h : Heap) (xs : List Row)
    (tmp : SVec) (xr : Row) (hx : xs[xi]? = some xr) (hy : ¬ yi < (yrowsOf ys xs).length) :
    mergeLoop K sd ys (fuel + 1) xi yi h xs tmp
      = mergeLoop K sd ys fuel (xi + 1) yi (pushSwap K h tmp xr).1
          (xs.set xi (pushSwap K h tmp xr).2.2) (pushSwap K h tmp xr).2.1 := by
  have hxl : xi < xs.length := (List.getElem?_eq_some_iff.mp hx).1
  cases ys with
  | none =>
    simp only [yrowsOf] at hy
    rw [mergeLoop]
    simp only [hxl, hy, and_false, if_false, if_true, hx]
  | some l =>
    simp only [yrowsOf] at hy
    rw [mergeLoop]
    simp only [hxl, hy, and_false, if_false, if_true, hx]

theorem mergeLoop_copy_tail (K : RowClass) (sd : Nat) (ys : Option (List Row)) (fuel xi yi : Nat) (h : Heap) (xs : List Row)
    (tmp : SVec) (yr : Row) (hx : ¬ xi < xs.length) (hy : (yrowsOf ys xs)[yi]? = some yr) :
    mergeLoop K sd ys (fuel + 1) xi yi h xs tmp
      = mergeLoop K sd ys fuel xi (yi + 1)
          (Row.destroy (pushSwap K (Row.copyDim h yr sd).1 tmp (Row.copyDim h yr sd).2).1
            (pushSwap K (Row.copyDim h yr sd).1 tmp (Row.copyDim h yr sd).2).2.2)
          xs (pushSwap K (Row.copyDim h yr sd).1 tmp (Row.copyDim h yr sd).2).2.1 := by
  have hyl := (List.getElem?_eq_some_iff.mp hy).1
  cases ys with
  | none =>
    simp only [yrowsOf] at hy hyl
    rw [mergeLoop]
    simp only [hx, hyl, false_and, if_false, if_true, hy]
  | some l =>
    simp only [yrowsOf] at hy hyl
    rw [mergeLoop]
    simp only [hx, hyl, false_and, if_false, if_true, hy]

theorem mergeLoop_done (K : RowClass) (sd : Nat) (ys : Option (List Row)) (fuel xi yi : Nat) (h : Heap) (xs : List Row)
    (tmp : SVec) (hx : ¬ xi < xs.length) (hy : ¬ yi < (yrowsOf ys xs).length) :
    mergeLoop K sd ys (fuel + 1) xi yi h xs tmp = (h, xs, tmp) := by
  cases ys with
  | none =>
    simp only [yrowsOf] at hy
    rw [mergeLoop]
    simp only [hx, hy, and_self, if_false]
  | some l =>
    simp only [yrowsOf] at hy
    rw [mergeLoop]
    simp only [hx, hy, and_self, if_false]

/-! ### the two transitions of the loop -/

theorem swapBack_concat (l : List Row) (d r : Row) : swapBack (l ++ [d]) r = (l ++ [r], d) := by
  simp [swapBack]

/-- `tmp.resize(tmp.size() + 1); swap(tmp.back(), r);` -/
theorem pushSwap_spec (K : RowClass) (h : Heap) (tmp : SVec) (r : Row) (frame : List Nat)
    (hO : Owns h (owned tmp.impl ++ r.impl :: frame)) :
    (pushSwap K h tmp r).2.1.impl = tmp.impl ++ [r]
    ∧ Owns (pushSwap K h tmp r).1 (owned (tmp.impl ++ [r]) ++ (pushSwap K h tmp r).2.2.impl :: frame)
    ∧ (∀ a ∈ owned tmp.impl ++ r.impl :: frame, (pushSwap K h tmp r).1.cells a = h.cells a) := by
  obtain ⟨g1, g2, _, g4, g5⟩ := resize_grow_refines K h tmp (tmp.size + 1) (r.impl :: frame) hO (Nat.le_succ _)
  have e : pushSwap K h tmp r = ((tmp.resize K h (tmp.size + 1)).1,
      ⟨(swapBack (tmp.resize K h (tmp.size + 1)).2.impl r).1, (tmp.resize K h (tmp.size + 1)).2.cap⟩,
      (swapBack (tmp.resize K h (tmp.size + 1)).2.impl r).2) := rfl
  rw [e]
  generalize tmp.resize K h (tmp.size + 1) = R at g1 g2 g4 g5
  have hd : ∃ d, R.2.impl = tmp.impl ++ [d] := by
    have hl : (R.2.impl.drop tmp.size).length = 1 := by
      have : R.2.impl.length = tmp.size + 1 := g2
      simp [this]
    match hdd : R.2.impl.drop tmp.size, hl with
    | [d], _ => exact ⟨d, by rw [← g1, ← hdd, List.take_append_drop]⟩
  obtain ⟨d, hd⟩ := hd
  rw [hd, swapBack_concat]
  refine ⟨rfl, ?_, g5⟩
  rw [hd] at g4
  refine owns_perm g4 ?_
  simp only [owned_append, owned_cons, owned_nil]
  perm_tac

/-- stealing `xs[xi]` into `tmp` -/
theorem steal_trans (K : RowClass) (h : Heap) (xs : List Row) (tmp : SVec) (F : List Nat) (xi : Nat) (xr : Row)
    (hx : xs[xi]? = some xr) (hO : Owns h (owned xs ++ owned tmp.impl ++ F)) :
    (pushSwap K h tmp xr).2.1.impl = tmp.impl ++ [xr]
    ∧ Owns (pushSwap K h tmp xr).1
        (owned (xs.set xi (pushSwap K h tmp xr).2.2) ++ owned (pushSwap K h tmp xr).2.1.impl ++ F)
    ∧ (∀ a ∈ owned xs ++ owned tmp.impl ++ F, (pushSwap K h tmp xr).1.cells a = h.cells a) := by
  have hxo : (owned xs)[xi]? = some xr.impl := by simp [owned, hx]
  have hmem : xr.impl ∈ owned xs := mem_owned_of_getElem? hx
  have p1 : (owned xs).Perm (xr.impl :: (owned xs).erase xr.impl) := List.perm_cons_erase hmem
  obtain ⟨s1, s2, s3⟩ := pushSwap_spec K h tmp xr ((owned xs).erase xr.impl ++ F)
    (owns_perm hO (by
      refine ((p1.append_right (owned tmp.impl)).append_right F).trans ?_
      perm_tac))
  refine ⟨s1, ?_, ?_⟩
  · generalize pushSwap K h tmp xr = P at s1 s2 s3
    rw [s1]
    refine owns_perm s2 ?_
    rw [owned_set]
    have p2 := perm_set (owned xs) xi xr.impl P.2.2.impl hxo
    -- `set ~ d :: erase`
    have p3 : ((owned xs).set xi P.2.2.impl).Perm (P.2.2.impl :: (owned xs).erase xr.impl) := by
      have : (xr.impl :: (owned xs).set xi P.2.2.impl).Perm (xr.impl :: P.2.2.impl :: (owned xs).erase xr.impl) :=
        p2.symm.trans (((p1.cons P.2.2.impl)).trans (List.Perm.swap _ _ _))
      exact this.cons_inv
    refine List.Perm.trans ?_ ((p3.append_right (owned (tmp.impl ++ [xr]))).append_right F).symm
    perm_tac
  · intro a ha
    apply s3
    have := ((p1.append_right (owned tmp.impl)).append_right F).mem_iff.mp ha
    simp only [List.mem_append, List.mem_cons] at this ⊢
    grind

/-- copying `yr` (resized) into `tmp`; the default row that comes back is destroyed -/
theorem copy_trans (K : RowClass) (sd : Nat) (h : Heap) (xs : List Row) (tmp : SVec) (F : List Nat) (yr : Row)
    (hy : yr.impl ∈ owned xs ++ owned tmp.impl ++ F) (hO : Owns h (owned xs ++ owned tmp.impl ++ F)) :
    Owns (Row.destroy (pushSwap K (Row.copyDim h yr sd).1 tmp (Row.copyDim h yr sd).2).1
            (pushSwap K (Row.copyDim h yr sd).1 tmp (Row.copyDim h yr sd).2).2.2)
        (owned xs ++ owned (pushSwap K (Row.copyDim h yr sd).1 tmp (Row.copyDim h yr sd).2).2.1.impl ++ F)
    ∧ (∀ a ∈ owned xs ++ owned tmp.impl ++ F,
        (Row.destroy (pushSwap K (Row.copyDim h yr sd).1 tmp (Row.copyDim h yr sd).2).1
            (pushSwap K (Row.copyDim h yr sd).1 tmp (Row.copyDim h yr sd).2).2.2).cells a = h.cells a) := by
  obtain ⟨c1, _, c3, _, _⟩ := rowCopy_spec hO hy
  have e : Row.copyDim h yr sd = ((Row.copy h yr).2.setSpaceDimNoOk (Row.copy h yr).1 sd, (Row.copy h yr).2) := rfl
  rw [e]
  generalize Row.copy h yr = C at c1 c3
  obtain ⟨m1, m2, _⟩ := owns_modify c1 List.mem_cons_self (setSpaceDimCoeffs C.2.nnc sd)
  have hcn : C.2.impl ∉ owned xs ++ owned tmp.impl ++ F := (List.nodup_cons.mp (owns_nodup c1)).1
  dsimp only [Row.setSpaceDimNoOk]
  generalize C.1.modify C.2.impl (setSpaceDimCoeffs C.2.nnc sd) = H at m1 m2
  obtain ⟨s1, s2, s3⟩ := pushSwap_spec K H tmp C.2 (owned xs ++ F) (owns_perm m1 (by perm_tac))
  generalize pushSwap K H tmp C.2 = P at s1 s2 s3
  have hO2 : Owns P.1 (P.2.2.impl :: (owned xs ++ owned P.2.1.impl ++ F)) := by
    rw [s1]; exact owns_perm s2 (by perm_tac)
  obtain ⟨f1, f2⟩ := owns_free hO2
  refine ⟨f1, ?_⟩
  intro a ha
  have hne : a ≠ C.2.impl := fun e => hcn (e ▸ ha)
  have ha2 : a ∈ owned xs ++ owned P.2.1.impl ++ F := by
    rw [s1, owned_append]; simp only [List.mem_append] at ha ⊢; grind
  have ha3 : a ∈ owned tmp.impl ++ C.2.impl :: (owned xs ++ F) := by
    simp only [List.mem_append, List.mem_cons] at ha ⊢; grind
  show (P.1.free P.2.2.impl).cells a = h.cells a
  rw [f2 a ha2, s3 a ha3, m2 a hne, c3 a ha]

/-! ### ownership of the loop for another system (any fuel, any comparison results) -/

theorem mergeLoop_other_owns (K : RowClass) (sd : Nat) (l : List Row) (F : List Nat) (hl : ∀ r ∈ l, r.impl ∈ F) :
    ∀ (fuel xi yi : Nat) (h : Heap) (xs : List Row) (tmp : SVec), Owns h (owned xs ++ owned tmp.impl ++ F) →
    Owns (mergeLoop K sd (some l) fuel xi yi h xs tmp).1
      (owned (mergeLoop K sd (some l) fuel xi yi h xs tmp).2.1
        ++ owned (mergeLoop K sd (some l) fuel xi yi h xs tmp).2.2.impl ++ F)
    ∧ (∀ a ∈ F, (mergeLoop K sd (some l) fuel xi yi h xs tmp).1.cells a = h.cells a) := by
  intro fuel
  induction fuel with
  | zero => intro xi yi h xs tmp hO; rw [mergeLoop_zero]; exact ⟨hO, fun _ _ => rfl⟩
  | succ fuel ih =>
    intro xi yi h xs tmp hO
    have steal : ∀ (xr : Row) (yi' : Nat), xs[xi]? = some xr →
        Owns (mergeLoop K sd (some l) fuel (xi + 1) yi' (pushSwap K h tmp xr).1
            (xs.set xi (pushSwap K h tmp xr).2.2) (pushSwap K h tmp xr).2.1).1
          (owned (mergeLoop K sd (some l) fuel (xi + 1) yi' (pushSwap K h tmp xr).1
            (xs.set xi (pushSwap K h tmp xr).2.2) (pushSwap K h tmp xr).2.1).2.1
            ++ owned (mergeLoop K sd (some l) fuel (xi + 1) yi' (pushSwap K h tmp xr).1
            (xs.set xi (pushSwap K h tmp xr).2.2) (pushSwap K h tmp xr).2.1).2.2.impl ++ F)
        ∧ (∀ a ∈ F, (mergeLoop K sd (some l) fuel (xi + 1) yi' (pushSwap K h tmp xr).1
            (xs.set xi (pushSwap K h tmp xr).2.2) (pushSwap K h tmp xr).2.1).1.cells a = h.cells a) := by
      intro xr yi' hx
      obtain ⟨_, t2, t3⟩ := steal_trans K h xs tmp F xi xr hx hO
      obtain ⟨i1, i2⟩ := ih (xi + 1) yi' _ _ _ t2
      exact ⟨i1, fun a ha => by rw [i2 a ha, t3 a (List.mem_append_right _ ha)]⟩
    have copy : ∀ (yr : Row), l[yi]? = some yr →
        Owns (mergeLoop K sd (some l) fuel xi (yi + 1)
          (Row.destroy (pushSwap K (Row.copyDim h yr sd).1 tmp (Row.copyDim h yr sd).2).1
            (pushSwap K (Row.copyDim h yr sd).1 tmp (Row.copyDim h yr sd).2).2.2)
          xs (pushSwap K (Row.copyDim h yr sd).1 tmp (Row.copyDim h yr sd).2).2.1).1
          (owned (mergeLoop K sd (some l) fuel xi (yi + 1)
          (Row.destroy (pushSwap K (Row.copyDim h yr sd).1 tmp (Row.copyDim h yr sd).2).1
            (pushSwap K (Row.copyDim h yr sd).1 tmp (Row.copyDim h yr sd).2).2.2)
          xs (pushSwap K (Row.copyDim h yr sd).1 tmp (Row.copyDim h yr sd).2).2.1).2.1
            ++ owned (mergeLoop K sd (some l) fuel xi (yi + 1)
          (Row.destroy (pushSwap K (Row.copyDim h yr sd).1 tmp (Row.copyDim h yr sd).2).1
            (pushSwap K (Row.copyDim h yr sd).1 tmp (Row.copyDim h yr sd).2).2.2)
          xs (pushSwap K (Row.copyDim h yr sd).1 tmp (Row.copyDim h yr sd).2).2.1).2.2.impl ++ F)
        ∧ (∀ a ∈ F, (mergeLoop K sd (some l) fuel xi (yi + 1)
          (Row.destroy (pushSwap K (Row.copyDim h yr sd).1 tmp (Row.copyDim h yr sd).2).1
            (pushSwap K (Row.copyDim h yr sd).1 tmp (Row.copyDim h yr sd).2).2.2)
          xs (pushSwap K (Row.copyDim h yr sd).1 tmp (Row.copyDim h yr sd).2).2.1).1.cells a = h.cells a) := by
      intro yr hy
      have hyF : yr.impl ∈ F := hl yr (List.mem_of_getElem? hy)
      obtain ⟨t2, t3⟩ := copy_trans K sd h xs tmp F yr (List.mem_append_right _ hyF) hO
      obtain ⟨i1, i2⟩ := ih xi (yi + 1) _ _ _ t2
      exact ⟨i1, fun a ha => by rw [i2 a ha, t3 a (List.mem_append_right _ ha)]⟩
    by_cases hx : xi < xs.length
    · have hx' : xs[xi]? = some xs[xi] := List.getElem?_eq_getElem hx
      by_cases hy : yi < l.length
      · have hy' : (yrowsOf (some l) xs)[yi]? = some l[yi] := List.getElem?_eq_getElem hy
        by_cases hc : compOf K h xs[xi] l[yi] ≤ 0
        · rw [mergeLoop_steal K sd (some l) fuel xi yi h xs tmp _ _ hx' hy' hc]
          exact steal _ _ hx'
        · rw [mergeLoop_copy K sd (some l) fuel xi yi h xs tmp _ _ hx' hy' hc]
          exact copy _ hy'
      · rw [mergeLoop_steal_tail K sd (some l) fuel xi yi h xs tmp _ hx' hy]
        exact steal _ _ hx'
    · by_cases hy : yi < l.length
      · have hy' : (yrowsOf (some l) xs)[yi]? = some l[yi] := List.getElem?_eq_getElem hy
        rw [mergeLoop_copy_tail K sd (some l) fuel xi yi h xs tmp _ hx hy']
        exact copy _ hy'
      · rw [mergeLoop_done K sd (some l) fuel xi yi h xs tmp hx hy]
        exact ⟨hO, fun _ _ => rfl⟩


/-! ### the loop in lock step: `y`'s rows have the same values as the receiver's -/

theorem owns_row_value {h : Heap} {as : List Nat} (hO : Owns h as) {r : Row} (hr : r.impl ∈ as) :
    r.value h = some (r.val h) := by
  obtain ⟨c, hc⟩ := owns_isSome hO hr
  simp [Row.value, Row.val, Heap.read, hc]

theorem compOf_owned (K : RowClass) {h : Heap} {as : List Nat} (hO : Owns h as) {xr yr : Row}
    (hx : xr.impl ∈ as) (hy : yr.impl ∈ as) : compOf K h xr yr = K.cmp (xr.val h) (yr.val h) := by
  unfold compOf
  rw [owns_row_value hO hx, owns_row_value hO hy]

theorem mergeLoop_lockstep (K : RowClass) (hK : ∀ v, K.cmp v v = 0) (sd : Nat) (ys : Option (List Row)) (F : List Nat)
    (n : Nat) (hys : ∀ l, ys = some l → l.length = n ∧ ∀ r ∈ l, r.impl ∈ F) :
    ∀ (fuel xi : Nat) (h : Heap) (xs : List Row) (tmp : SVec), n - xi ≤ fuel → xs.length = n →
    Owns h (owned xs ++ owned tmp.impl ++ F) →
    (∀ i yr xr, xi ≤ i → (yrowsOf ys xs)[i]? = some yr → xs[i]? = some xr → yr.val h = xr.val h) →
    Owns (mergeLoop K sd ys fuel xi xi h xs tmp).1
      (owned (mergeLoop K sd ys fuel xi xi h xs tmp).2.1 ++ owned (mergeLoop K sd ys fuel xi xi h xs tmp).2.2.impl ++ F)
    ∧ (∀ a ∈ F, (mergeLoop K sd ys fuel xi xi h xs tmp).1.cells a = h.cells a)
    ∧ rowValues (mergeLoop K sd ys fuel xi xi h xs tmp).1 (mergeLoop K sd ys fuel xi xi h xs tmp).2.2.impl
        = rowValues h tmp.impl ++ rowValues h (xs.drop xi) := by
  intro fuel
  induction fuel with
  | zero =>
    intro xi h xs tmp hf hn hO _
    rw [mergeLoop_zero]
    refine ⟨hO, fun _ _ => rfl, ?_⟩
    rw [List.drop_eq_nil_of_le (by omega)]
    simp [rowValues]
  | succ fuel ih =>
    intro xi h xs tmp hf hn hO hv
    have hyl : (yrowsOf ys xs).length = xs.length := by
      cases ys with
      | none => rfl
      | some l => simp only [yrowsOf]; rw [(hys l rfl).1, hn]
    by_cases hx : xi < xs.length
    · have hx' : xs[xi]? = some xs[xi] := List.getElem?_eq_getElem hx
      have hy' : (yrowsOf ys xs)[xi]? = some (yrowsOf ys xs)[xi] := List.getElem?_eq_getElem (by omega)
      have hdrop : xs.drop xi = xs[xi] :: xs.drop (xi + 1) := List.drop_eq_getElem_cons hx
      generalize xs[xi] = xr at hx' hdrop
      generalize (yrowsOf ys xs)[xi] = yr at hy'
      have hxo : xr.impl ∈ owned xs ++ owned tmp.impl ++ F :=
        List.mem_append_left _ (List.mem_append_left _ (mem_owned_of_getElem? hx'))
      have hyo : yr.impl ∈ owned xs ++ owned tmp.impl ++ F := by
        cases ys with
        | none => exact List.mem_append_left _ (List.mem_append_left _ (mem_owned_of_getElem? hy'))
        | some l => exact List.mem_append_right _ ((hys l rfl).2 yr (List.mem_of_getElem? hy'))
      have hc0 : compOf K h xr yr = 0 := by
        rw [compOf_owned K hO hxo hyo, hv xi yr xr (Nat.le_refl _) hy' hx', hK]
      rw [mergeLoop_steal K sd ys fuel xi xi h xs tmp xr yr hx' hy' (by omega)]
      simp only [hc0, if_true]
      obtain ⟨t1, t2, t3⟩ := steal_trans K h xs tmp F xi xr hx' hO
      generalize pushSwap K h tmp xr = P at t1 t2 t3
      have hv' : ∀ i yr' xr', xi + 1 ≤ i → (yrowsOf ys (xs.set xi P.2.2))[i]? = some yr' →
          (xs.set xi P.2.2)[i]? = some xr' → yr'.val P.1 = xr'.val P.1 := by
        intro i yr' xr' hi hyr hxr
        cases ys with
        | none =>
          simp only [yrowsOf] at hyr
          rw [hyr] at hxr
          rw [Option.some.inj hxr]
        | some l =>
          simp only [yrowsOf] at hyr
          have hxr0 : xs[i]? = some xr' := by
            rw [List.getElem?_set] at hxr
            have : ¬ xi = i := by omega
            simpa [this] using hxr
          have e1 : yr'.val P.1 = yr'.val h :=
            val_congr (t3 _ (List.mem_append_right _ ((hys l rfl).2 yr' (List.mem_of_getElem? hyr))))
          have e2 : xr'.val P.1 = xr'.val h :=
            val_congr (t3 _ (List.mem_append_left _ (List.mem_append_left _ (mem_owned_of_getElem? hxr0))))
          rw [e1, e2]
          exact hv i yr' xr' (by omega) hyr hxr0
      obtain ⟨i1, i2, i3⟩ := ih (xi + 1) P.1 (xs.set xi P.2.2) P.2.1 (by omega) (by simp [hn]) t2 hv'
      refine ⟨i1, fun a ha => by rw [i2 a ha, t3 a (List.mem_append_right _ ha)], ?_⟩
      rw [i3, t1, List.drop_set_of_lt (by omega), hdrop]
      have c1 : rowValues P.1 (tmp.impl ++ [xr]) = rowValues h (tmp.impl ++ [xr]) := by
        apply rowValues_congr
        intro a ha
        apply t3
        rw [owned_append] at ha
        simp only [List.mem_append, owned_cons, owned_nil, List.mem_cons, List.not_mem_nil, or_false] at ha ⊢
        rcases ha with ha | ha
        · exact Or.inl (Or.inr ha)
        · subst ha
          exact Or.inl (Or.inl (mem_owned_of_getElem? hx'))
      have c2 : rowValues P.1 (xs.drop (xi + 1)) = rowValues h (xs.drop (xi + 1)) := by
        apply rowValues_congr
        intro a ha
        apply t3
        obtain ⟨r, hr, rfl⟩ := List.mem_map.mp ha
        exact List.mem_append_left _ (List.mem_append_left _ (mem_owned_of_mem (List.mem_of_mem_drop hr)))
      rw [c1, c2]
      simp [rowValues]
    · have hy : ¬ xi < (yrowsOf ys xs).length := by omega
      rw [mergeLoop_done K sd ys fuel xi xi h xs tmp hx hy]
      refine ⟨hO, fun _ _ => rfl, ?_⟩
      rw [List.drop_eq_nil_of_le (by omega)]
      simp [rowValues]

theorem merge_lock_core (K : RowClass) (hK : ∀ v, K.cmp v v = 0) (sd : Nat) (ys : Option (List Row)) (F : List Nat)
    (xs0 : List Row) (hys : ∀ l, ys = some l → l.length = xs0.length ∧ ∀ r ∈ l, r.impl ∈ F)
    (fuel : Nat) (hfuel : xs0.length ≤ fuel) (h0 : Heap) (tmp0 : SVec) (htmp : tmp0.impl = [])
    (hO : Owns h0 (owned xs0 ++ F))
    (hv : ∀ (i : Nat) (yr xr : Row), (yrowsOf ys xs0)[i]? = some yr → xs0[i]? = some xr → yr.val h0 = xr.val h0) :
    Owns (destroyRows (mergeLoop K sd ys fuel 0 0 h0 xs0 tmp0).1 (mergeLoop K sd ys fuel 0 0 h0 xs0 tmp0).2.1)
      (owned (mergeLoop K sd ys fuel 0 0 h0 xs0 tmp0).2.2.impl ++ F)
    ∧ (∀ a ∈ F, (destroyRows (mergeLoop K sd ys fuel 0 0 h0 xs0 tmp0).1
        (mergeLoop K sd ys fuel 0 0 h0 xs0 tmp0).2.1).cells a = h0.cells a)
    ∧ rowValues (destroyRows (mergeLoop K sd ys fuel 0 0 h0 xs0 tmp0).1 (mergeLoop K sd ys fuel 0 0 h0 xs0 tmp0).2.1)
        (mergeLoop K sd ys fuel 0 0 h0 xs0 tmp0).2.2.impl = rowValues h0 xs0 := by
  obtain ⟨m1, m2, m3⟩ := mergeLoop_lockstep K hK sd ys F xs0.length hys fuel 0 h0 xs0 tmp0 (by omega) rfl
    (by rw [htmp]; simpa [owned] using hO) (fun i yr xr _ => hv i yr xr)
  generalize mergeLoop K sd ys fuel 0 0 h0 xs0 tmp0 = M at m1 m2 m3
  obtain ⟨d1, d2⟩ := destroyRows_refines M.1 M.2.1 (owned M.2.2.impl ++ F) (by simpa [List.append_assoc] using m1)
  refine ⟨d1, fun a ha => by rw [d2 a (List.mem_append_right _ ha), m2 a ha], ?_⟩
  rw [rowValues_congr (fun a ha => d2 a (List.mem_append_left _ ha)), m3, htmp]
  simp [rowValues]

theorem mergeRowsAssign_other_eq (K : RowClass) (h : Heap) (x y : LinSys) :
    x.mergeRowsAssign K h (.other y)
      = (destroyRows (mergeLoop K x.spaceDim (some y.rows.impl) (x.numRows + y.numRows + 1) 0 0
            (SVec.nil.reserve K h (computeCapacity (x.numRows + y.numRows) maxNumRows)).1 x.rows.impl
            (SVec.nil.reserve K h (computeCapacity (x.numRows + y.numRows) maxNumRows)).2).1
          (mergeLoop K x.spaceDim (some y.rows.impl) (x.numRows + y.numRows + 1) 0 0
            (SVec.nil.reserve K h (computeCapacity (x.numRows + y.numRows) maxNumRows)).1 x.rows.impl
            (SVec.nil.reserve K h (computeCapacity (x.numRows + y.numRows) maxNumRows)).2).2.1,
         LinSys.unsetPendingRows { x with rows := (mergeLoop K x.spaceDim (some y.rows.impl) (x.numRows + y.numRows + 1) 0 0
            (SVec.nil.reserve K h (computeCapacity (x.numRows + y.numRows) maxNumRows)).1 x.rows.impl
            (SVec.nil.reserve K h (computeCapacity (x.numRows + y.numRows) maxNumRows)).2).2.2 }) := by
  unfold LinSys.mergeRowsAssign
  dsimp only

theorem mergeRowsAssign_self_eq (K : RowClass) (h : Heap) (x : LinSys) :
    x.mergeRowsAssign K h .self
      = (destroyRows (mergeLoop K x.spaceDim none (x.numRows + x.numRows + 1) 0 0
            (SVec.nil.reserve K h (computeCapacity (x.numRows + x.numRows) maxNumRows)).1 x.rows.impl
            (SVec.nil.reserve K h (computeCapacity (x.numRows + x.numRows) maxNumRows)).2).1
          (mergeLoop K x.spaceDim none (x.numRows + x.numRows + 1) 0 0
            (SVec.nil.reserve K h (computeCapacity (x.numRows + x.numRows) maxNumRows)).1 x.rows.impl
            (SVec.nil.reserve K h (computeCapacity (x.numRows + x.numRows) maxNumRows)).2).2.1,
         LinSys.unsetPendingRows { x with rows := (mergeLoop K x.spaceDim none (x.numRows + x.numRows + 1) 0 0
            (SVec.nil.reserve K h (computeCapacity (x.numRows + x.numRows) maxNumRows)).1 x.rows.impl
            (SVec.nil.reserve K h (computeCapacity (x.numRows + x.numRows) maxNumRows)).2).2.2 }) := by
  unfold LinSys.mergeRowsAssign
  dsimp only

end CopyKit
open CopyKit

/-- ownership / frame of `merge_rows_assign` for another system -/
theorem LinSys.mergeRowsAssign_other_owns (K : RowClass) (h : Heap) (x y : LinSys) (frame : List Nat)
    (hO : Owns h (x.owned ++ y.owned ++ frame)) :
    let out := x.mergeRowsAssign K h (.other y)
    Owns out.1 (out.2.owned ++ y.owned ++ frame) ∧ FrameEq h out.1 (y.owned ++ frame) := by
  intro out
  obtain ⟨r1, r2, r3⟩ := reserve_refines K h SVec.nil (computeCapacity (x.numRows + y.numRows) maxNumRows)
    (x.owned ++ y.owned ++ frame) (by simpa [SVec.nil, Move.owned] using hO)
  have eo : out = _ := mergeRowsAssign_other_eq K h x y
  rw [eo]
  generalize SVec.nil.reserve K h (computeCapacity (x.numRows + y.numRows) maxNumRows) = R at r1 r2 r3 ⊢
  have r1' : R.2.impl = [] := r1
  have hO1 : Owns R.1 (Move.owned x.rows.impl ++ Move.owned R.2.impl ++ (y.owned ++ frame)) := by
    rw [r1']
    refine owns_perm r2 ?_
    simp only [SVec.nil, Move.owned, LinSys.owned, List.map_nil, List.nil_append, List.append_nil, List.append_assoc]
    exact List.Perm.refl _
  obtain ⟨m1, m2⟩ := mergeLoop_other_owns K x.spaceDim y.rows.impl (y.owned ++ frame)
    (fun r hr => List.mem_append_left _ (mem_owned_of_mem hr)) (x.numRows + y.numRows + 1) 0 0 R.1 x.rows.impl R.2 hO1
  generalize mergeLoop K x.spaceDim (some y.rows.impl) (x.numRows + y.numRows + 1) 0 0 R.1 x.rows.impl R.2 = M at m1 m2
  obtain ⟨d1, d2⟩ := destroyRows_refines M.1 M.2.1 (Move.owned M.2.2.impl ++ (y.owned ++ frame))
    (by simpa [List.append_assoc] using m1)
  refine ⟨?_, ?_⟩
  · show Owns (destroyRows M.1 M.2.1) (Move.owned M.2.2.impl ++ y.owned ++ frame)
    simpa [List.append_assoc] using d1
  · intro a ha
    show (destroyRows M.1 M.2.1).cells a = h.cells a
    rw [d2 a (List.mem_append_right _ ha), m2 a ha]
    exact r3 a (by simp only [SVec.nil, Move.owned, List.map_nil, List.nil_append, List.mem_append] at ha ⊢; grind)
/-- ownership / frame / value of `x.merge_rows_assign(x)` -/
theorem LinSys.mergeRowsAssign_self_owns (K : RowClass) (hK : ∀ v, K.cmp v v = 0) (h : Heap) (x : LinSys) (frame : List Nat)
    (hO : Owns h (x.owned ++ frame)) :
    let out := x.mergeRowsAssign K h .self
    Owns out.1 (out.2.owned ++ frame) ∧ FrameEq h out.1 frame
    ∧ out.2.value out.1 = { x.value h with firstPending := x.numRows } := by
  intro out
  have eo : out = _ := mergeRowsAssign_self_eq K h x
  rw [eo]
  obtain ⟨r1, r2, r3⟩ := reserve_refines K h SVec.nil (computeCapacity (x.numRows + x.numRows) maxNumRows)
    (x.owned ++ frame) (by simpa [SVec.nil, Move.owned] using hO)
  generalize SVec.nil.reserve K h (computeCapacity (x.numRows + x.numRows) maxNumRows) = R at r1 r2 r3 ⊢
  have r1' : R.2.impl = [] := r1
  have r3' : ∀ a ∈ x.owned ++ frame, R.1.cells a = h.cells a := by
    intro a ha; exact r3 a (by simpa [SVec.nil, Move.owned] using ha)
  obtain ⟨c1, c2, c3⟩ := merge_lock_core K hK x.spaceDim none frame x.rows.impl (fun l hl => by cases hl)
    (x.numRows + x.numRows + 1) (by simp only [LinSys.numRows, SVec.size]; omega) R.1 R.2 r1'
    (by simpa [SVec.nil, Move.owned, LinSys.owned] using r2)
    (fun i yr xr hy hx => by
      simp only [yrowsOf] at hy; rw [hy] at hx; rw [Option.some.inj hx])
  generalize mergeLoop K x.spaceDim none (x.numRows + x.numRows + 1) 0 0 R.1 x.rows.impl R.2 = M at c1 c2 c3
  have hvals : rowValues (destroyRows M.1 M.2.1) M.2.2.impl = rowValues h x.rows.impl := by
    rw [c3]; exact rowValues_congr (fun a ha => r3' a (List.mem_append_left _ ha))
  refine ⟨c1, fun a ha => by rw [c2 a ha, r3' a (List.mem_append_right _ ha)], ?_⟩
  have hlen : M.2.2.impl.length = x.rows.impl.length := by
    have := congrArg List.length hvals
    simpa [rowValues] using this
  show LinSysV.mk (rowValues (destroyRows M.1 M.2.1) M.2.2.impl) x.spaceDim x.nnc M.2.2.impl.length x.sorted
    = LinSysV.mk (rowValues h x.rows.impl) x.spaceDim x.nnc x.rows.impl.length x.sorted
  rw [hvals, hlen]

/-- merging with any system whose rows have the same values as the receiver's (in particular a copy of the
    receiver, in whatever heap): the receiver keeps its rows; only `index_first_pending` moves -/
theorem LinSys.mergeRowsAssign_other_sameval (K : RowClass) (hK : ∀ v, K.cmp v v = 0) (h : Heap) (x y : LinSys)
    (frame : List Nat) (hO : Owns h (x.owned ++ y.owned ++ frame))
    (hv : rowValues h y.rows.impl = rowValues h x.rows.impl) :
    let out := x.mergeRowsAssign K h (.other y)
    out.2.value out.1 = { x.value h with firstPending := x.numRows } := by
  intro out
  have eo : out = _ := mergeRowsAssign_other_eq K h x y
  rw [eo]
  obtain ⟨r1, r2, r3⟩ := reserve_refines K h SVec.nil (computeCapacity (x.numRows + y.numRows) maxNumRows)
    (x.owned ++ y.owned ++ frame) (by simpa [SVec.nil, Move.owned] using hO)
  generalize SVec.nil.reserve K h (computeCapacity (x.numRows + y.numRows) maxNumRows) = R at r1 r2 r3 ⊢
  have r1' : R.2.impl = [] := r1
  have r3' : ∀ a ∈ x.owned ++ y.owned ++ frame, R.1.cells a = h.cells a := by
    intro a ha; exact r3 a (by simpa [SVec.nil, Move.owned] using ha)
  have hlen0 : y.rows.impl.length = x.rows.impl.length := by
    have := congrArg List.length hv
    simpa [rowValues] using this
  obtain ⟨_, _, c3⟩ := merge_lock_core K hK x.spaceDim (some y.rows.impl) (y.owned ++ frame) x.rows.impl
    (fun l hl => by
      cases hl
      exact ⟨hlen0, fun r hr => List.mem_append_left _ (mem_owned_of_mem hr)⟩)
    (x.numRows + y.numRows + 1) (by simp only [LinSys.numRows, SVec.size]; omega) R.1 R.2 r1'
    (by simpa [SVec.nil, Move.owned, LinSys.owned, List.append_assoc] using r2)
    (fun i yr xr hy hx => by
      simp only [yrowsOf] at hy
      have e1 : yr.val R.1 = yr.val h :=
        val_congr (r3' _ (List.mem_append_left _ (List.mem_append_right _ (mem_owned_of_getElem? hy))))
      have e2 : xr.val R.1 = xr.val h :=
        val_congr (r3' _ (List.mem_append_left _ (List.mem_append_left _ (mem_owned_of_getElem? hx))))
      rw [e1, e2]
      have := congrArg (fun l => l[i]?) hv
      simp only [rowValues, List.getElem?_map, hy, hx, Option.map_some] at this
      exact Option.some.inj this)
  generalize mergeLoop K x.spaceDim (some y.rows.impl) (x.numRows + y.numRows + 1) 0 0 R.1 x.rows.impl R.2 = M at c3
  have hvals : rowValues (destroyRows M.1 M.2.1) M.2.2.impl = rowValues h x.rows.impl := by
    rw [c3]
    exact rowValues_congr (fun a ha => r3' a (List.mem_append_left _ (List.mem_append_left _ ha)))
  have hlen : M.2.2.impl.length = x.rows.impl.length := by
    have := congrArg List.length hvals
    simpa [rowValues] using this
  show LinSysV.mk (rowValues (destroyRows M.1 M.2.1) M.2.2.impl) x.spaceDim x.nnc M.2.2.impl.length x.sorted
    = LinSysV.mk (rowValues h x.rows.impl) x.spaceDim x.nnc x.rows.impl.length x.sorted
  rw [hvals, hlen]

end PPLV.Value.Move

namespace C13Proofs
open PPLV.Value PPLV.Value.Move PPLV.Value.Move.CopyKit

/-- merge path: `x.con_sys.merge_rows_assign(x.con_sys)` gives the same value as merging with a copy -/
theorem alias_invariance_merge (K : RowClass) (hK : ∀ v, K.cmp v v = 0) (h : Heap) (x : LinSys) (frame : List Nat)
    (hO : Owns h (x.owned ++ frame)) :
    let a := x.mergeRowsAssign K h .self
    let c := LinSys.copyWithPending h x
    let b := x.mergeRowsAssign K c.1 (.other c.2)
    a.2.value a.1 = b.2.value b.1 ∧ a.2.value a.1 = { x.value h with firstPending := x.numRows } := by
  intro a c b
  have ha : a.2.value a.1 = { x.value h with firstPending := x.numRows } :=
    (LinSys.mergeRowsAssign_self_owns K hK h x frame hO).2.2
  obtain ⟨c1, c2, c3⟩ := LinSys.copyWithPending_refines h x frame hO
  have c1' : Owns c.1 (c.2.owned ++ x.owned ++ frame) := c1
  have c2' : c.2.value c.1 = x.value h := c2
  have c3' : FrameEq h c.1 (x.owned ++ frame) := c3
  have hxv : x.value c.1 = x.value h :=
    value_congr' _ _ _ (frameEq_mono c3' (fun a ha => List.mem_append_left _ ha))
  have hv : rowValues c.1 c.2.rows.impl = rowValues c.1 x.rows.impl := by
    have e1 : rowValues c.1 c.2.rows.impl = (c.2.value c.1).rows := rfl
    have e2 : rowValues c.1 x.rows.impl = (x.value c.1).rows := rfl
    rw [e1, e2, c2', hxv]
  have hb : b.2.value b.1 = { x.value c.1 with firstPending := x.numRows } :=
    LinSys.mergeRowsAssign_other_sameval K hK c.1 x c.2 frame (owns_perm c1' (by perm_tac)) hv
  rw [hxv] at hb
  exact ⟨ha.trans hb.symm, ha⟩

end C13Proofs
