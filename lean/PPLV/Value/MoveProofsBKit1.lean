import PPLV.Value.MoveProofsSys
import PPLV.Value.MoveProofsCopy
import PPLV.Value.MoveProofsCopy2

/-!
# C13 moving mechanics — agent B toolkit (part 1): ownership / frame bookkeeping
-/
namespace PPLV.Value.Move.PolyKit
open PPLV.Value.Move

theorem Owns.perm {h : Heap} {as bs : List Nat} (hp : as.Perm bs) (hO : Owns h as) : Owns h bs := by
  obtain ⟨h1, h2, h3, h4⟩ := hO
  refine ⟨h1, hp.nodup_iff.mp h2, fun a => ?_, h4⟩
  rw [h3 a]; exact hp.mem_iff

theorem Owns.nodup {h : Heap} {as : List Nat} (hO : Owns h as) : as.Nodup := hO.2.1

theorem Owns.read_some {h : Heap} {as : List Nat} (hO : Owns h as) {a : Nat} (ha : a ∈ as) :
    ∃ c, h.cells a = some c := by
  have := (hO.2.2.1 a).mpr ha
  cases hc : h.cells a with
  | none => simp [hc] at this
  | some c => exact ⟨c, rfl⟩

theorem FrameEq.refl (h : Heap) (F : List Nat) : FrameEq h h F := fun _ _ => rfl

theorem FrameEq.mono {h h' : Heap} {F G : List Nat} (hf : FrameEq h h' F) (hs : ∀ a ∈ G, a ∈ F) :
    FrameEq h h' G := fun a ha => hf a (hs a ha)

theorem FrameEq.trans {h h' h'' : Heap} {F : List Nat} (h1 : FrameEq h h' F) (h2 : FrameEq h' h'' F) :
    FrameEq h h'' F := fun a ha => (h2 a ha).trans (h1 a ha)

theorem FrameEq.perm {h h' : Heap} {F G : List Nat} (hp : F.Perm G) (hf : FrameEq h h' F) : FrameEq h h' G :=
  FrameEq.mono hf (fun _ ha => hp.mem_iff.mpr ha)

theorem FrameEq.left {h h' : Heap} {F G : List Nat} (hf : FrameEq h h' (F ++ G)) : FrameEq h h' F :=
  FrameEq.mono hf (fun _ ha => List.mem_append_left _ ha)

theorem FrameEq.right {h h' : Heap} {F G : List Nat} (hf : FrameEq h h' (F ++ G)) : FrameEq h h' G :=
  FrameEq.mono hf (fun _ ha => List.mem_append_right _ ha)

theorem FrameEq.append {h h' : Heap} {F G : List Nat} (h1 : FrameEq h h' F) (h2 : FrameEq h h' G) :
    FrameEq h h' (F ++ G) := by
  intro a ha
  rcases List.mem_append.mp ha with ha | ha
  · exact h1 a ha
  · exact h2 a ha

/-- a system's value is unchanged when the cells it owns are -/
theorem LinSys.value_frame {h h' : Heap} {F : List Nat} (s : LinSys) (hf : FrameEq h h' F)
    (hs : ∀ a ∈ s.owned, a ∈ F) : s.value h' = s.value h :=
  CopyKit.value_congr' h h' s (FrameEq.mono hf hs)

theorem Poly.value_frame {h h' : Heap} {F : List Nat} (p : Poly) (hf : FrameEq h h' F)
    (hs : ∀ a ∈ p.owned, a ∈ F) : p.value h' = p.value h := by
  have h1 : p.conSys.value h' = p.conSys.value h :=
    LinSys.value_frame _ hf (fun a ha => hs a (by simp [Poly.owned, ha]))
  have h2 : p.genSys.value h' = p.genSys.value h :=
    LinSys.value_frame _ hf (fun a ha => hs a (by simp [Poly.owned, ha]))
  simp [Poly.value, h1, h2]

theorem Poly.value_congr (h h' : Heap) (p : Poly) (hf : FrameEq h h' p.owned) : p.value h' = p.value h :=
  Poly.value_frame p hf (fun _ ha => ha)

/-- `Heap.modify` at an owned address keeps the invariant and touches no other cell -/
theorem Owns.modify {h : Heap} {as : List Nat} (hO : Owns h as) {a : Nat} (ha : a ∈ as) (f : List Int → List Int) :
    Owns (h.modify a f) as ∧ (∀ b, b ≠ a → (h.modify a f).cells b = h.cells b)
    ∧ (h.modify a f).cells a = (h.cells a).map f := by
  obtain ⟨c, hc⟩ := Owns.read_some hO ha
  obtain ⟨h1, h2, h3, h4⟩ := hO
  have hm : h.modify a f = { h with cells := fun x => if x = a then some (f c) else h.cells x } := by
    simp [Heap.modify, hc]
  rw [hm]
  refine ⟨⟨h1, h2, fun b => ?_, fun b hb => ?_⟩, fun b hb => by simp [hb], by simp [hc]⟩
  · by_cases hba : b = a
    · subst hba; simp [ha]
    · simp [hba, h3 b]
  · have : b ≠ a := by
      intro hba; subst hba
      have := h4 b hb; simp [hc] at this
    simp [this, h4 b hb]

/-- turn an interface lemma stated for `x.owned ++ y.owned ++ rest` into one stated for `x.owned ++ F`
    with `y.owned` somewhere inside `F` -/
theorem lift_other {h h' : Heap} {xo xo' yo F rest : List Nat} (hp : F.Perm (yo ++ rest))
    (hO : Owns h (xo ++ F))
    (H : Owns h (xo ++ yo ++ rest) → Owns h' (xo' ++ yo ++ rest) ∧ FrameEq h h' (yo ++ rest)) :
    Owns h' (xo' ++ F) ∧ FrameEq h h' F := by
  have h1 : Owns h (xo ++ yo ++ rest) := by
    rw [List.append_assoc]; exact Owns.perm (List.Perm.append_left xo hp) hO
  obtain ⟨h2, h3⟩ := H h1
  refine ⟨?_, FrameEq.perm hp.symm h3⟩
  rw [List.append_assoc] at h2
  exact Owns.perm (List.Perm.append_left xo' hp.symm) h2

/-- the receiver's part changes, the rest is a frame: re-associate `(c ++ g) ++ F` -/
theorem owns_assoc {h : Heap} {a b c : List Nat} : Owns h (a ++ b ++ c) ↔ Owns h (a ++ (b ++ c)) := by
  rw [List.append_assoc]

theorem owns_swap12 {h : Heap} {a b c : List Nat} (hO : Owns h (a ++ b ++ c)) : Owns h (b ++ a ++ c) :=
  Owns.perm (List.Perm.append_right c List.perm_append_comm) hO

theorem perm_swap12 (a b c : List Nat) : (a ++ b ++ c).Perm (b ++ a ++ c) :=
  List.Perm.append_right c List.perm_append_comm

theorem perm_rot (a b c : List Nat) : (a ++ (b ++ c)).Perm (b ++ (a ++ c)) := by
  rw [← List.append_assoc, ← List.append_assoc]; exact perm_swap12 a b c

@[simp] theorem owned_nil : Move.owned [] = [] := rfl
@[simp] theorem owned_cons (r : Row) (rs : List Row) : Move.owned (r :: rs) = r.impl :: Move.owned rs := rfl
@[simp] theorem owned_append (a b : List Row) : Move.owned (a ++ b) = Move.owned a ++ Move.owned b := by
  simp [Move.owned]
theorem owned_length (a : List Row) : (Move.owned a).length = a.length := by simp [Move.owned]

/-- reading a row's value through a heap that agrees on its cell -/
theorem Row.val_frame {h h' : Heap} (r : Row) (hc : h'.cells r.impl = h.cells r.impl) : r.val h' = r.val h := by
  simp [Row.val, Heap.read, hc]

theorem rowValues_frame {h h' : Heap} {F : List Nat} (rows : List Row) (hf : FrameEq h h' F)
    (hs : ∀ a ∈ Move.owned rows, a ∈ F) : rowValues h' rows = rowValues h rows := by
  simp only [rowValues]
  apply List.map_congr_left
  intro r hr
  exact Row.val_frame r (hf _ (hs _ (by simp only [Move.owned]; exact List.mem_map_of_mem hr)))

end PPLV.Value.Move.PolyKit
