import PPLV.Value.MoveProofsOwn

/-!
# C13 stage 2 — concrete instances for the non-vacuity examples of `Props/C13Move.lean`

A heap built by allocating a list of cells satisfies the ownership invariant for the addresses
`0 … n-1`; demo systems and polyhedra over such a heap.
-/
namespace PPLV.Value.Move
open OwnsKit

/-- allocate the cells in order: cell `i` of the list gets address `i` -/
def Heap.ofCells (cs : List (List Int)) : Heap := cs.foldl (fun h c => (h.alloc c).1) Heap.empty

theorem owns_empty : Owns Heap.empty [] :=
  ⟨rfl, List.nodup_nil, fun a => by simp [Heap.empty], fun a _ => rfl⟩

theorem owns_foldl_alloc (cs : List (List Int)) : ∀ (h : Heap) (as : List Nat), Owns h as →
    ∃ bs, Owns (cs.foldl (fun h c => (h.alloc c).1) h) bs ∧ bs.Perm (as ++ (List.range cs.length).map (· + h.next)) := by
  induction cs with
  | nil => intro h as hO; exact ⟨as, hO, by simp⟩
  | cons c cs ih =>
    intro h as hO
    obtain ⟨bs, hb, hp⟩ := ih (h.alloc c).1 (h.next :: as) (owns_alloc hO c)
    refine ⟨bs, hb, hp.trans ?_⟩
    have hn : (h.alloc c).1.next = h.next + 1 := rfl
    rw [hn]
    simp only [List.length_cons, List.range_succ_eq_map, List.map_cons, List.map_map]
    have e : (List.range cs.length).map (fun x => x + (h.next + 1)) = (List.range cs.length).map ((· + h.next) ∘ Nat.succ) := by
      apply List.map_congr_left; intro a _; simp; omega
    rw [e]
    simp only [Nat.zero_add]
    exact (List.perm_middle (l₁ := as) (a := h.next)).symm

/-- the heap holding the cells `cs` at the addresses `0 … cs.length-1`: each is live and listed once -/
theorem owns_ofCells (cs : List (List Int)) : Owns (Heap.ofCells cs) (List.range cs.length) := by
  obtain ⟨bs, hb, hp⟩ := owns_foldl_alloc cs Heap.empty [] owns_empty
  have : bs.Perm (List.range cs.length) := by
    refine hp.trans ?_
    simp [Heap.empty]
  exact owns_perm hb this

/-! ## demo objects: constraint systems over two variables -/

/-- cells 0,1: `x.con_sys` (`A = 0`, `A + B + 1 >= 0`), cells 2,3: `x.gen_sys`, cells 4,5,6: an argument system -/
def demoHeap : Heap := Heap.ofCells [[0, 1, 0], [1, 1, 1], [1, 0, 0], [0, 0, 1], [2, 0, 1], [5, -1, 0], [3, 1, 1]]

def demoCon : LinSys := ⟨⟨[⟨0, 0, false⟩, ⟨1, 1, false⟩], 2⟩, 2, false, 2, true⟩
def demoGen : LinSys := ⟨⟨[⟨2, 1, false⟩, ⟨3, 0, false⟩], 2⟩, 2, false, 2, false⟩
/-- an unsorted argument with one pending row -/
def demoArg : LinSys := ⟨⟨[⟨4, 1, false⟩, ⟨5, 1, false⟩, ⟨6, 1, false⟩], 3⟩, 2, false, 2, false⟩
/-- constraints up to date, not minimized: rows are inserted as ordinary rows -/
def demoPoly : Poly := ⟨demoCon, demoGen, BitMatrix.empty, BitMatrix.empty, C_UP, 2⟩
/-- both descriptions minimized with `sat_c`: rows are inserted as pending rows -/
def demoPolyMin : Poly := ⟨demoCon, demoGen, ⟨[[0], [1]], 2⟩, BitMatrix.empty, 2 + 4 + 8 + 16 + 32, 2⟩

theorem demo_owns : Owns demoHeap (demoPoly.owned ++ demoArg.owned ++ []) := by
  have := owns_ofCells [[0, 1, 0], [1, 1, 1], [1, 0, 0], [0, 0, 1], [2, 0, 1], [5, -1, 0], [3, 1, 1]]
  exact this

theorem demo_owns_sys : Owns demoHeap (demoCon.owned ++ demoArg.owned ++ demoGen.owned) := by
  have := owns_ofCells [[0, 1, 0], [1, 1, 1], [1, 0, 0], [0, 0, 1], [2, 0, 1], [5, -1, 0], [3, 1, 1]]
  refine owns_perm this ?_
  decide

end PPLV.Value.Move
