import PPLV.Value.MoveProofsAlias6

/-! C13 aliasing, part 7: `Linear_System::set_topology` on values -/
namespace PPLV.Value.Move.AliasKit
open PPLV.Value PPLV.Value.Move

macro "alias_perm_tac" : tactic =>
  `(tactic| (rw [List.perm_iff_count]; intro a;
             simp only [List.count_append, List.count_cons, List.count_nil, Poly.owned, LinSys.owned,
               PolyKit.owned_append, PolyKit.owned_cons, PolyKit.owned_nil]; omega))

theorem rowValues_append (h : Heap) (a b : List Row) :
    rowValues h (a ++ b) = rowValues h a ++ rowValues h b := by simp [rowValues]

/-- modifying one owned cell leaves every other listed cell alone -/
theorem frame_of_ne {h h' : Heap} {a : Nat} {G : List Nat} (hne : ∀ b, b ≠ a → h'.cells b = h.cells b)
    (ha : a ∉ G) : FrameEq h h' G := by
  intro b hb
  exact hne b (fun e => ha (e ▸ hb))

theorem snoc_induction {P : List Row → Prop} (h0 : P []) (hs : ∀ l r, P l → P (l ++ [r])) :
    ∀ l, P l := by
  intro l
  generalize hn : l.length = n
  induction n generalizing l with
  | zero => rw [List.length_eq_zero_iff.mp hn]; exact h0
  | succ n ih =>
    have hne : l ≠ [] := by intro e; simp [e] at hn
    rw [← List.dropLast_concat_getLast hne]
    exact hs _ _ (ih _ (by simp [hn]))

theorem setTopologyRows_refines (nnc : Bool) (frame : List Nat) (pre : List Row) :
    ∀ (post : List Row) (h : Heap), Owns h (owned pre ++ (owned post ++ frame)) →
    ∃ pre', (setTopologyRows nnc pre.length h (pre ++ post)).2 = pre' ++ post
      ∧ owned pre' = owned pre
      ∧ rowValues (setTopologyRows nnc pre.length h (pre ++ post)).1 pre' = (rowValues h pre).map (setTopologyV nnc)
      ∧ rowValues (setTopologyRows nnc pre.length h (pre ++ post)).1 post = rowValues h post
      ∧ Owns (setTopologyRows nnc pre.length h (pre ++ post)).1 (owned pre ++ (owned post ++ frame))
      ∧ FrameEq h (setTopologyRows nnc pre.length h (pre ++ post)).1 frame := by
  induction pre using snoc_induction with
  | h0 =>
    intro post h hO
    exact ⟨[], rfl, rfl, rfl, rfl, hO, PolyKit.FrameEq.refl _ _⟩
  | hs l r ih =>
    intro post h hO
    have hlen : (l ++ [r]).length = l.length + 1 := by simp
    have hget : (l ++ [r] ++ post)[l.length]? = some r := by simp
    have hset : (l ++ [r] ++ post).set l.length (r.setTopology h nnc).2
        = l ++ (r.setTopology h nnc).2 :: post := by simp
    have hO' : Owns h (r.impl :: (owned l ++ (owned post ++ frame))) :=
      PolyKit.Owns.perm (by alias_perm_tac) hO
    have hnd : r.impl ∉ owned l ++ (owned post ++ frame) := (List.nodup_cons.mp hO'.2.1).1
    obtain ⟨s1, s2, s3, s4⟩ := Row.setTopology_refines hO' r (List.mem_cons_self) nnc
    have hfr : FrameEq h (r.setTopology h nnc).1 (owned l ++ (owned post ++ frame)) := frame_of_ne s4 hnd
    have hO1 : Owns (r.setTopology h nnc).1 (owned l ++ (owned ((r.setTopology h nnc).2 :: post) ++ frame)) := by
      refine PolyKit.Owns.perm ?_ s1
      rw [PolyKit.owned_cons, s2]
      alias_perm_tac
    obtain ⟨l', e1, e2, e3, e4, e5, e6⟩ := ih ((r.setTopology h nnc).2 :: post) (r.setTopology h nnc).1 hO1
    have hstep : setTopologyRows nnc (l ++ [r]).length h (l ++ [r] ++ post)
        = setTopologyRows nnc l.length (r.setTopology h nnc).1 (l ++ (r.setTopology h nnc).2 :: post) := by
      rw [hlen]
      conv => lhs; unfold setTopologyRows
      simp only [hget, hset]
    rw [hstep]
    refine ⟨l' ++ [(r.setTopology h nnc).2], ?_, ?_, ?_, ?_, ?_, ?_⟩
    · rw [e1]; simp
    · simp [e2, s2]
    · have hl : rowValues (r.setTopology h nnc).1 l = rowValues h l :=
        PolyKit.rowValues_frame l hfr (fun a ha => List.mem_append_left _ ha)
      have e4' := e4
      simp only [rowValues, List.map_cons, List.cons.injEq] at e4'
      rw [rowValues_append, e3, hl, rowValues_append, List.map_append]
      congr 1
      simp only [rowValues, List.map_cons, List.map_nil, List.cons.injEq, and_true]
      rw [e4'.1, s3]
    · have e4' := e4
      simp only [rowValues, List.map_cons, List.cons.injEq] at e4'
      have hp : rowValues (r.setTopology h nnc).1 post = rowValues h post :=
        PolyKit.rowValues_frame post hfr (fun a ha => by simp [ha])
      simp only [rowValues] at hp ⊢
      rw [e4'.2, hp]
    · refine PolyKit.Owns.perm ?_ e5
      rw [PolyKit.owned_cons, s2]
      alias_perm_tac
    · exact PolyKit.FrameEq.trans (PolyKit.FrameEq.mono hfr (fun a ha => by simp [ha])) e6

end PPLV.Value.Move.AliasKit
