import PPLV.Value.MoveProofsAlias3

/-! C13 aliasing at the data level, part 4: intersection (insert paths) -/
namespace PPLV.Value.Move.AliasKit
open PPLV.Value PPLV.Value.Move

theorem inter_core (h h' : Heap) (x y : Poly) (F F' : List Nat)
    (hO : Owns h (x.owned ++ F)) (hO' : Owns h' (x.owned ++ y.owned ++ F'))
    (hfr : FrameEq h h' x.owned)
    (hst : y.status = x.status) (hsd : y.spaceDim = x.spaceDim) (hnnc : y.conSys.nnc = x.conSys.nnc)
    (hval : testAny x.status C_UP = true → y.conSys.value h' = x.conSys.value h)
    (hmerge : ¬ (x.canHaveSomethingPending = false ∧ x.conSys.sorted = true ∧ testAny x.status CS_PENDING = false)) :
    (x.intersectionAssign h .self).2.1.value (x.intersectionAssign h .self).1
      = (x.intersectionAssign h' (.other y)).2.1.value (x.intersectionAssign h' (.other y)).1
    ∧ (x.intersectionAssign h .self).2.2 = (x.intersectionAssign h' (.other y)).2.2 := by
  have hxv : x.value h' = x.value h := PolyKit.Poly.value_congr h h' x hfr
  have hO1 : Owns h (x.conSys.owned ++ (x.genSys.owned ++ F)) := by
    rw [← List.append_assoc]; exact hO
  have hO2 : Owns h' (x.conSys.owned ++ y.conSys.owned ++ (x.genSys.owned ++ y.genSys.owned ++ F')) := by
    refine PolyKit.Owns.perm ?_ hO'
    apply perm_of_count; intro a; simp only [Poly.owned, List.count_append]; omega
  have hgv : x.genSys.value h' = x.genSys.value h :=
    PolyKit.LinSys.value_frame x.genSys hfr (fun a ha => by simp [Poly.owned, ha])
  unfold Poly.intersectionAssign
  simp only [Arg.get, Poly.markedEmpty, Poly.nnc, hst, hsd, hnnc, bne_self_eq_false, Bool.or_self,
    Bool.false_eq_true, if_false]
  by_cases hE : testAny x.status EMPTY = true
  · simp only [hE, ↓reduceIte]; exact ⟨hxv.symm, by trivial⟩
  simp only [hE, Bool.false_eq_true, ↓reduceIte]
  by_cases hZ : (x.spaceDim == 0) = true
  · simp only [hZ, ↓reduceIte]; exact ⟨hxv.symm, by trivial⟩
  simp only [hZ, Bool.false_eq_true, ↓reduceIte]
  by_cases hN : (testAny x.status GS_PENDING || !testAny x.status C_UP
          || testAny x.status GS_PENDING || !testAny x.status C_UP) = true
  · simp only [hN, ↓reduceIte]; exact ⟨hxv.symm, by trivial⟩
  simp only [hN, Bool.false_eq_true, ↓reduceIte]
  have hC : testAny x.status C_UP = true := by
    cases hc : testAny x.status C_UP <;> simp [hc] at hN ⊢
  have hyv := hval hC
  by_cases hP : x.canHaveSomethingPending = true
  · simp only [hP, ↓reduceIte]
    obtain ⟨_, va, fa⟩ := LinSys.insertPendingConst_self_refines constraintClass h x.conSys _ hO1
    obtain ⟨_, vb, fb⟩ := LinSys.insertPendingConst_other_refines constraintClass h' x.conSys y.conSys _ hO2
    have g1 := PolyKit.LinSys.value_frame x.genSys fa (fun a ha => by simp [ha])
    have g2 := PolyKit.LinSys.value_frame x.genSys fb (fun a ha => by simp [ha])
    have hcv : x.conSys.value h' = x.conSys.value h :=
      PolyKit.LinSys.value_frame x.conSys hfr (fun a ha => by simp [Poly.owned, ha])
    refine ⟨?_, by trivial⟩
    simp only [Poly.value] at *
    rw [va, vb, g1, g2, hgv, hyv, hcv]
  · simp only [hP, Bool.false_eq_true, ↓reduceIte]
    have hsrt : y.conSys.sorted = x.conSys.sorted := congrArg LinSysV.sorted hyv
    have hcond : (x.conSys.sorted && x.conSys.sorted && !testAny x.status CS_PENDING) = false := by
      cases h1 : x.conSys.sorted <;> cases h2 : testAny x.status CS_PENDING <;> simp
      exact hmerge ⟨by simpa using hP, h1, h2⟩
    simp only [hsrt, hcond, Bool.false_eq_true, ↓reduceIte]
    obtain ⟨_, va, fa⟩ := LinSys.insertConst_self_refines constraintClass h x.conSys _ hO1
    obtain ⟨_, vb, fb⟩ := LinSys.insertConst_other_refines constraintClass h' x.conSys y.conSys _ hO2
    have g1 := PolyKit.LinSys.value_frame x.genSys fa (fun a ha => by simp [ha])
    have g2 := PolyKit.LinSys.value_frame x.genSys fb (fun a ha => by simp [ha])
    have hcv : x.conSys.value h' = x.conSys.value h :=
      PolyKit.LinSys.value_frame x.conSys hfr (fun a ha => by simp [Poly.owned, ha])
    refine ⟨?_, by trivial⟩
    simp only [Poly.value] at *
    rw [va, vb, g1, g2, hgv, hyv, hcv]

end PPLV.Value.Move.AliasKit

namespace C13Proofs
open PPLV.Value PPLV.Value.Move

theorem alias_invariance_intersection_partial (h : Heap) (x : Poly) (frame : List Nat)
    (hO : Owns h (x.owned ++ frame))
    (hmerge : ¬ (x.canHaveSomethingPending = false ∧ x.conSys.sorted = true ∧ testAny x.status CS_PENDING = false)) :
    let a := x.intersectionAssign h .self
    let c := Poly.copy h x
    let b := x.intersectionAssign c.1 (.other c.2)
    a.2.1.value a.1 = b.2.1.value b.1 ∧ a.2.2 = b.2.2 := by
  intro a c b
  obtain ⟨o, f, hs, hd, hn, vc, _⟩ := AliasKit.Poly.copy_facts h x frame hO
  exact AliasKit.inter_core h c.1 x c.2 frame frame hO o (PolyKit.FrameEq.left f) hs hd hn vc hmerge

end C13Proofs
