import PPLV.Value.MoveProofsAlias2

/-! C13 aliasing at the data level, part 3: Poly.copy facts, intersection / hull (insert paths) -/
namespace PPLV.Value.Move.AliasKit
open PPLV.Value PPLV.Value.Move

theorem assignWithPending_mk0 (h : Heap) (n : Bool) (s : LinSys) :
    LinSys.assignWithPending h (LinSys.mk0 n) (.other s) = LinSys.copyWithPending h s := rfl

/-- the conditional member copy of `Polyhedron(const Polyhedron&)` -/
def optCopy (b : Bool) (n : Bool) (h : Heap) (s : LinSys) : Heap × LinSys :=
  if b then LinSys.assignWithPending h (LinSys.mk0 n) (.other s) else (h, LinSys.mk0 n)

theorem optCopy_refines (b n : Bool) (h : Heap) (s : LinSys) (frame : List Nat)
    (hO : Owns h (s.owned ++ frame)) :
    Owns (optCopy b n h s).1 ((optCopy b n h s).2.owned ++ s.owned ++ frame)
    ∧ FrameEq h (optCopy b n h s).1 (s.owned ++ frame)
    ∧ (optCopy b n h s).2.nnc = (if b then s.nnc else n)
    ∧ (b = true → (optCopy b n h s).2.value (optCopy b n h s).1 = s.value h) := by
  cases b with
  | false =>
    refine ⟨?_, PolyKit.FrameEq.refl _ _, rfl, by simp⟩
    simpa [optCopy, LinSys.mk0, LinSys.owned, SVec.nil, Move.owned] using hO
  | true =>
    obtain ⟨h1, h2, h3⟩ := LinSys.copyWithPending_refines h s frame hO
    exact ⟨h1, h3, rfl, fun _ => h2⟩

theorem Poly.copy_eq (h : Heap) (x : Poly) :
    Poly.copy h x =
      ((optCopy (testAny x.status G_UP) x.nnc (optCopy (testAny x.status C_UP) x.nnc h x.conSys).1 x.genSys).1,
       ⟨(optCopy (testAny x.status C_UP) x.nnc h x.conSys).2,
        (optCopy (testAny x.status G_UP) x.nnc (optCopy (testAny x.status C_UP) x.nnc h x.conSys).1 x.genSys).2,
        if testAny x.status SAT_C_UP then x.satC else BitMatrix.empty,
        if testAny x.status SAT_G_UP then x.satG else BitMatrix.empty, x.status, x.spaceDim⟩) := rfl

/-- everything the aliasing lemmas need to know about `Polyhedron(const Polyhedron&)` -/
theorem Poly.copy_facts (h : Heap) (x : Poly) (frame : List Nat) (hO : Owns h (x.owned ++ frame)) :
    Owns (Poly.copy h x).1 (x.owned ++ (Poly.copy h x).2.owned ++ frame)
    ∧ FrameEq h (Poly.copy h x).1 (x.owned ++ frame)
    ∧ (Poly.copy h x).2.status = x.status ∧ (Poly.copy h x).2.spaceDim = x.spaceDim
    ∧ (Poly.copy h x).2.conSys.nnc = x.conSys.nnc
    ∧ (testAny x.status C_UP = true → (Poly.copy h x).2.conSys.value (Poly.copy h x).1 = x.conSys.value h)
    ∧ (testAny x.status G_UP = true → (Poly.copy h x).2.genSys.value (Poly.copy h x).1 = x.genSys.value h) := by
  rw [Poly.copy_eq]
  generalize hb1 : testAny x.status C_UP = b1
  generalize hb2 : testAny x.status G_UP = b2
  have hO1 : Owns h (x.conSys.owned ++ (x.genSys.owned ++ frame)) := by
    rw [← List.append_assoc]; exact hO
  obtain ⟨o1, f1, n1, v1⟩ := optCopy_refines b1 x.nnc h x.conSys _ hO1
  generalize optCopy b1 x.nnc h x.conSys = c1 at *
  have hO2 : Owns c1.1 (x.genSys.owned ++ (c1.2.owned ++ x.conSys.owned ++ frame)) := by
    refine PolyKit.Owns.perm ?_ o1
    apply perm_of_count; intro a; simp only [List.count_append]; omega
  obtain ⟨o2, f2, n2, v2⟩ := optCopy_refines b2 x.nnc c1.1 x.genSys _ hO2
  generalize optCopy b2 x.nnc c1.1 x.genSys = c2 at *
  have fG : FrameEq h c1.1 x.genSys.owned := PolyKit.FrameEq.left (PolyKit.FrameEq.right f1)
  refine ⟨?_, ?_, rfl, rfl, ?_, ?_, ?_⟩
  · refine PolyKit.Owns.perm ?_ o2
    apply perm_of_count; intro a; simp only [Poly.owned, List.count_append]; omega
  · intro a ha
    have ha' : a ∈ x.conSys.owned ++ (x.genSys.owned ++ frame) := by
      simpa [Poly.owned, List.append_assoc] using ha
    rw [f2 a (by simp only [List.mem_append] at ha' ⊢; rcases ha' with h | h | h <;> simp [h]), f1 a ha']
  · show c1.2.nnc = x.conSys.nnc
    rw [n1]; cases b1 <;> rfl
  · intro hb
    show c1.2.value c2.1 = _
    rw [← v1 hb]
    exact PolyKit.LinSys.value_frame c1.2 f2 (fun a ha => by simp only [List.mem_append]; simp [ha])
  · intro hb
    show c2.2.value c2.1 = _
    rw [v2 hb]
    exact PolyKit.LinSys.value_frame x.genSys fG (fun a ha => ha)

end PPLV.Value.Move.AliasKit
