import PPLV.Value.ProofsCow

/-! # C13 — `Determinate`: copy on write is invisible; the machine refines the value specification -/
namespace PPLV.Value.Cow
variable {P : Type}

theorem prep_setPrep_self (σ : State P) (h : Nat) (v : Option Nat) (hh : h < σ.handles.length) :
    (σ.setPrep h v).prep h = v := by
  simp [State.prep, hh]

theorem prep_setPrep_other (σ : State P) (h k : Nat) (v : Option Nat) (hk : k ≠ h) :
    (σ.setPrep h v).prep k = σ.prep k := by
  have : ¬ h = k := fun e => hk e.symm
  simp [State.prep, this]

/-- What `mutate()` achieves: afterwards the handle owns its representation exclusively, no other
handle moved, and no point set changed. -/
theorem mutateAt_spec {σ : State P} (I : Inv σ) {h a : Nat} (hp : σ.prep h = some a) :
    ∃ a' r', (mutateAt σ h a).prep h = some a' ∧ (mutateAt σ h a).heap a' = some r' ∧ r'.refs = 1 ∧
      (∀ k, k ≠ h → (mutateAt σ h a).prep k = σ.prep k) ∧
      (∀ x, σ.heap x ≠ none → readPset (mutateAt σ h a) x = readPset σ x) ∧
      readPset (mutateAt σ h a) a' = readPset σ a := by
  obtain ⟨r, hr, hrc, hpos⟩ := I.cell hp
  by_cases h1 : 1 < r.refs
  · rw [mutateAt_shared I hr h1]
    have hlt := I.lt_next hr
    refine ⟨σ.next, ⟨1, r.pset⟩, ?_, by simp, rfl, ?_, ?_, ?_⟩
    · have := prep_setPrep_self σ h (some σ.next) (lt_of_prep hp)
      simpa [State.prep, State.setPrep] using this
    · intro k hk
      have := prep_setPrep_other σ h k (some σ.next) hk
      simpa [State.prep, State.setPrep] using this
    · intro x hx
      have hxn : x ≠ σ.next := fun e => hx (e ▸ I.fresh _ (Nat.le_refl _))
      by_cases e : x = a
      · subst e; simp [readPset, hxn, hr]
      · simp [readPset, hxn, e]
    · simp [readPset, hr]
  · rw [mutateAt_unshared hr h1]
    exact ⟨a, r, hp, hr, by omega, fun _ _ => rfl, fun _ _ => rfl, rfl⟩

/-- **`mutate()` is invisible**: no handle sees a different value after it -/
theorem value_mutateAt {σ : State P} (I : Inv σ) {h a : Nat} (hp : σ.prep h = some a) (k : Nat) :
    value (mutateAt σ h a) k = value σ k := by
  obtain ⟨a', r', hp', _, _, hk, hx, ha'⟩ := mutateAt_spec I hp
  by_cases e : k = h
  · subst e; simp only [value, hp', hp, ha']
  · simp only [value, hk k e]
    cases hb : σ.prep k with
    | none => rfl
    | some b =>
      obtain ⟨rb, hrb, _, _⟩ := I.cell hb
      exact hx b (by simp [hrb])

/-- in a state satisfying the invariant, a representation with counter 1 has exactly one holder -/
theorem Inv.unique_holder {σ : State P} (I : Inv σ) {a h k : Nat} {r : Rep P} (hr : σ.heap a = some r)
    (h1 : r.refs = 1) (hh : σ.prep h = some a) (hk : σ.prep k = some a) : k = h := by
  rcases Nat.lt_or_ge k h with hlt | hge
  · have := two_le_count σ.handles k h (some a) (by omega) (handles_get_of_prep hk) (handles_get_of_prep hh)
    have := (I.live a r hr).1
    simp only [holders] at this
    omega
  · rcases Nat.lt_or_ge h k with hlt | hge'
    · have := two_le_count σ.handles h k (some a) (by omega) (handles_get_of_prep hh) (handles_get_of_prep hk)
      have := (I.live a r hr).1
      simp only [holders] at this
      omega
    · omega

theorem prep_writePset (σ : State P) (a : Nat) (f : P → P) (hl : σ.heap a ≠ none) (k : Nat) :
    (writePset σ a f).prep k = σ.prep k := by
  cases hr : σ.heap a with
  | none => exact absurd hr hl
  | some r => simp [writePset, hr, State.prep]

theorem readPset_writePset (σ : State P) (a : Nat) (f : P → P) (r : Rep P) (hr : σ.heap a = some r) (x : Nat) :
    readPset (writePset σ a f) x = if x = a then some (f r.pset) else readPset σ x := by
  by_cases e : x = a <;> simp [writePset, hr, readPset, e]

/-- writing through an exclusively owned representation changes exactly one handle's value -/
theorem value_writePset {σ : State P} (I : Inv σ) {h a : Nat} {r : Rep P} (hp : σ.prep h = some a)
    (hr : σ.heap a = some r) (h1 : r.refs = 1) (f : P → P) (k : Nat) :
    value (writePset σ a f) k = if k = h then some (f r.pset) else value σ k := by
  have hl : σ.heap a ≠ none := by simp [hr]
  simp only [value, prep_writePset σ a f hl]
  by_cases e : k = h
  · subst e; simp [hp, readPset_writePset σ a f r hr]
  · simp only [e, if_false]
    cases hb : σ.prep k with
    | none => rfl
    | some b =>
      have : b ≠ a := fun eb => e (I.unique_holder hr h1 hp (eb ▸ hb))
      simp [readPset_writePset σ a f r hr, this]

theorem Inv.step_mutate {σ : State P} (I : Inv σ) (h : Nat) (f : P → P) : Inv (step σ (.mutate h f)) := by
  cases hh : σ.prep h with
  | none => simp only [step, hh]; exact I
  | some a =>
    obtain ⟨a', r', hp', hr', _, _, _, _⟩ := mutateAt_spec I hh
    simp only [step, hh, hp']
    exact (I.mutateAt hh).writePset a' f (by simp [hr'])

theorem Inv.step_binop {σ : State P} (I : Inv σ) (h y : Nat) (g : P → P → P) :
    Inv (step σ (.binop h y g)) := by
  cases hh : σ.prep h with
  | none => simp only [step, hh]; exact I
  | some a =>
    cases hy : σ.prep y with
    | none => simp only [step, hh, hy]; exact I
    | some ay =>
      obtain ⟨a', r', hp', hr', _, hk, _, _⟩ := mutateAt_spec I hh
      have I' := I.mutateAt hh
      have hy' : ∃ b, (Cow.mutateAt σ h a).prep y = some b := by
        by_cases e : y = h
        · subst e; exact ⟨a', hp'⟩
        · exact ⟨ay, by rw [hk y e, hy]⟩
      obtain ⟨b, hb⟩ := hy'
      obtain ⟨rb, hrb, _, _⟩ := I'.cell hb
      simp only [step, hh, hy, hp', hb, readPset, hrb, Option.map_some]
      exact I'.writePset a' _ (by simp [hr'])

/-- every operation preserves the invariant -/
theorem Inv.step {σ : State P} (I : Inv σ) (op : Op P) : Inv (Cow.step σ op) := by
  cases op with
  | construct h p => exact I.step_construct h p
  | copyCtor h y => exact I.step_copyCtor h y
  | assign h y => exact I.step_assign h y
  | destroy h => exact I.step_destroy h
  | swap h y => exact I.step_swap h y
  | mutate h f => exact I.step_mutate h f
  | binop h y g => exact I.step_binop h y g

theorem Inv.init (n : Nat) : Inv (State.init P n) := by
  refine ⟨rfl, fun _ _ => rfl, fun a r h => by simp [State.init] at h, fun a _ => ?_⟩
  simp [holders, State.init, List.count_replicate]

theorem Inv.run {σ : State P} (I : Inv σ) (ops : List (Op P)) : Inv (Cow.run σ ops) := by
  induction ops generalizing σ with
  | nil => exact I
  | cons op ops ih => exact ih (I.step op)


/-! ### the value-level meaning of the operations, written out -/

open Spec in
/-- the operations on a pool of optional values (`none` = no object in the slot) -/
def vstep (n : Nat) (p : Pool (Option P)) : Op P → Pool (Option P)
  | .construct h v => match p h with
    | none => if h < n then upd p h (some v) else p
    | some _ => p
  | .copyCtor h y => match p h, p y with
    | none, some v => if h < n then upd p h (some v) else p
    | _, _ => p
  | .assign h y => match p h, p y with
    | some _, some v => upd p h (some v)
    | _, _ => p
  | .destroy h => upd p h none
  | .swap h y => match p h, p y with
    | some u, some v => upd (upd p h (some v)) y (some u)
    | _, _ => p
  | .mutate h f => match p h with
    | some v => upd p h (some (f v))
    | none => p
  | .binop h y g => match p h, p y with
    | some u, some v => upd p h (some (g u v))
    | _, _ => p

/-- `toSpec` says the same as `vstep`: the value-level operations are steps of the pool specification -/
theorem spec_step_toSpec (n : Nat) (p : Spec.Pool (Option P)) (op : Op P) :
    Spec.step p (toSpec n op) = vstep n p op := by
  cases op with
  | construct h v =>
    simp only [Spec.step, toSpec, vstep, Spec.applyWrites, List.map_cons, List.map_nil, List.getElem?_cons_zero]
    by_cases hn : h < n <;> cases p h <;> simp [hn]
  | copyCtor h y =>
    simp only [Spec.step, toSpec, vstep, Spec.applyWrites, List.map_cons, List.map_nil,
      List.getElem?_cons_zero, List.getElem?_cons_succ]
    by_cases hn : h < n <;> cases p h <;> cases p y <;> simp [hn]
  | assign h y =>
    simp only [Spec.step, toSpec, vstep, Spec.applyWrites, List.map_cons, List.map_nil,
      List.getElem?_cons_zero, List.getElem?_cons_succ]
    cases p h <;> cases p y <;> simp
  | destroy h => simp [Spec.step, toSpec, vstep, Spec.applyWrites]
  | swap h y =>
    simp only [Spec.step, toSpec, vstep, Spec.applyWrites, List.map_cons, List.map_nil,
      List.getElem?_cons_zero, List.getElem?_cons_succ]
    cases p h <;> cases p y <;> simp
  | mutate h f =>
    simp only [Spec.step, toSpec, vstep, Spec.applyWrites, List.map_cons, List.map_nil, List.getElem?_cons_zero]
    cases p h <;> simp
  | binop h y g =>
    simp only [Spec.step, toSpec, vstep, Spec.applyWrites, List.map_cons, List.map_nil,
      List.getElem?_cons_zero, List.getElem?_cons_succ]
    cases p h <;> cases p y <;> simp


/-! ### the machine computes `vstep` -/

theorem value_of_prep_none {σ : State P} {k : Nat} (h : σ.prep k = none) : value σ k = none := by
  simp [value, h]

theorem Inv.value_of_prep {σ : State P} (I : Inv σ) {k a : Nat} (h : σ.prep k = some a) :
    ∃ r, σ.heap a = some r ∧ value σ k = some r.pset := by
  obtain ⟨r, hr, _, _⟩ := I.cell h
  exact ⟨r, hr, by simp [value, h, readPset, hr]⟩

theorem prep_none_of_ge {σ : State P} {k : Nat} (h : σ.handles.length ≤ k) : σ.prep k = none := by
  simp [State.prep, List.getElem?_eq_none h]

/-- a live handle never points at or beyond `next` -/
theorem Inv.prep_ne_next {σ : State P} (I : Inv σ) {k b : Nat} (h : σ.prep k = some b) : b ≠ σ.next := by
  obtain ⟨r, hr, _, _⟩ := I.cell h
  have := I.lt_next hr
  omega

theorem abs_construct {σ : State P} (I : Inv σ) (h : Nat) (v : P) :
    abs (step σ (.construct h v)) = vstep σ.handles.length (abs σ) (.construct h v) := by
  funext k
  by_cases hc : h < σ.handles.length ∧ σ.prep h = none
  · have hv : value σ h = none := value_of_prep_none hc.2
    simp only [abs, vstep, hv, hc.1, if_true, step, hc, and_self, alloc, newRef, State.setCell, Spec.upd]
    by_cases e : k = h
    · subst e
      simp [value, State.prep, State.setPrep, hc.1, readPset]
    · have e' : ¬ h = k := fun x => e x.symm
      simp only [e, if_false, value, State.prep, State.setPrep, List.getElem?_set, e']
      cases hb : σ.handles[k]?.join with
      | none => rfl
      | some b =>
        have : b ≠ σ.next := I.prep_ne_next (k := k) hb
        simp [readPset, this]
  · simp only [step, hc, if_false]
    by_cases hl : h < σ.handles.length
    · have hs : σ.prep h ≠ none := fun x => hc ⟨hl, x⟩
      cases hp : σ.prep h with
      | none => exact absurd hp hs
      | some a =>
        obtain ⟨r, _, hr⟩ := I.value_of_prep hp
        simp [abs, vstep, hr]
    · have hv : value σ h = none := value_of_prep_none (prep_none_of_ge (by omega))
      simp [abs, vstep, hv, hl]


theorem abs_copyCtor {σ : State P} (I : Inv σ) (h y : Nat) :
    abs (step σ (.copyCtor h y)) = vstep σ.handles.length (abs σ) (.copyCtor h y) := by
  funext k
  cases hy : σ.prep y with
  | none =>
    have hv : value σ y = none := value_of_prep_none hy
    simp only [abs, vstep, step, hy, hv]
    cases value σ h <;> rfl
  | some ay =>
    obtain ⟨ry, hry, hvy⟩ := I.value_of_prep hy
    by_cases hc : h < σ.handles.length ∧ σ.prep h = none
    · have hv : value σ h = none := value_of_prep_none hc.2
      simp only [abs, vstep, hv, hvy, hc.1, if_true, step, hy, hc, and_self, newRef_eq hry, Spec.upd]
      by_cases e : k = h
      · subst e
        simp [value, State.prep, State.setPrep, hc.1, readPset]
      · have e' : ¬ h = k := fun x => e x.symm
        simp only [e, if_false, value, State.prep, State.setPrep, List.getElem?_set, e', setCell_handles]
        cases hb : σ.handles[k]?.join with
        | none => rfl
        | some b => by_cases eb : b = ay <;> simp [readPset, eb, hry]
    · simp only [step, hy, hc, if_false]
      by_cases hl : h < σ.handles.length
      · have hs : σ.prep h ≠ none := fun x => hc ⟨hl, x⟩
        cases hp : σ.prep h with
        | none => exact absurd hp hs
        | some a =>
          obtain ⟨r, _, hr⟩ := I.value_of_prep hp
          simp [abs, vstep, hr]
      · have hv : value σ h = none := value_of_prep_none (prep_none_of_ge (by omega))
        simp [abs, vstep, hv, hvy, hl]

theorem abs_assign {σ : State P} (I : Inv σ) (h y : Nat) :
    abs (step σ (.assign h y)) = vstep σ.handles.length (abs σ) (.assign h y) := by
  funext k
  cases hh : σ.prep h with
  | none =>
    have hv : value σ h = none := value_of_prep_none hh
    simp [abs, vstep, step, hh, hv]
  | some ah =>
    obtain ⟨rh, hrh, hvh⟩ := I.value_of_prep hh
    cases hy : σ.prep y with
    | none =>
      have hv : value σ y = none := value_of_prep_none hy
      simp [abs, vstep, step, hh, hy, hv, hvh]
    | some ay =>
      obtain ⟨ry, hry, hvy⟩ := I.value_of_prep hy
      by_cases hne : ah = ay
      · subst hne
        rw [step_assign_same I hh hy]
        have : ry = rh := by rw [hrh] at hry; exact (Option.some.inj hry).symm
        subst this
        simp only [abs, vstep, hvh, hvy, Spec.upd]
        by_cases e : k = h
        · subst e; simp [hvh]
        · simp [e]
      · rw [step_assign_diff I hh hy hne hrh hry]
        simp only [abs, vstep, hvh, hvy, Spec.upd]
        have hlen := lt_of_prep hh
        by_cases e : k = h
        · subst e
          have n : ay ≠ ah := fun x => hne x.symm
          simp [value, State.prep, hlen, readPset, n]
        · have e' : ¬ h = k := fun x => e x.symm
          simp only [e, if_false, value, State.prep, List.getElem?_set, e']
          cases hb : σ.handles[k]?.join with
          | none => rfl
          | some b =>
            by_cases e1 : b = ah
            · subst e1
              -- `k ≠ h` also holds `ah`, so its counter is at least 2: it is not freed
              have hk : σ.prep k = some b := hb
              have h2 := two_le_count σ.handles k h (some b) e (handles_get_of_prep hk) (handles_get_of_prep hh)
              have hc := (I.live b rh hrh).1
              simp only [holders] at hc
              have : rh.refs ≠ 1 := by omega
              simp [readPset, this, hrh]
            · by_cases e2 : b = ay
              · subst e2; simp [readPset, e1, hry]
              · simp [readPset, e1, e2]

theorem abs_destroy {σ : State P} (I : Inv σ) (h : Nat) :
    abs (step σ (.destroy h)) = vstep σ.handles.length (abs σ) (.destroy h) := by
  funext k
  cases hh : σ.prep h with
  | none =>
    have hv : value σ h = none := value_of_prep_none hh
    simp only [abs, vstep, step, hh, Spec.upd]
    by_cases e : k = h
    · subst e; simp [hv]
    · simp [e]
  | some a =>
    obtain ⟨r, hr, hrc, hrp⟩ := I.cell hh
    have hlen := lt_of_prep hh
    simp only [abs, vstep, step, hh, release_eq hr hrp, Spec.upd]
    by_cases e : k = h
    · subst e
      by_cases h1 : r.refs = 1 <;> simp [h1, value, State.prep, hlen]
    · have e' : ¬ h = k := fun x => e x.symm
      simp only [e, if_false, value, State.prep]
      by_cases h1 : r.refs = 1
      · simp only [h1, if_true, setPrep_handles, setCell_handles, List.getElem?_set, e', if_false]
        cases hb : σ.handles[k]?.join with
        | none => rfl
        | some b =>
          have hk : σ.prep k = some b := hb
          have : b ≠ a := by
            intro eb; subst eb
            have h2 := two_le_count σ.handles k h (some b) e (handles_get_of_prep hk) (handles_get_of_prep hh)
            simp only [holders] at hrc
            omega
          simp [readPset, this]
      · simp only [h1, if_false, setPrep_handles, setCell_handles, List.getElem?_set, e']
        cases hb : σ.handles[k]?.join with
        | none => rfl
        | some b => by_cases eb : b = a <;> simp [readPset, eb, hr]


theorem abs_swap {σ : State P} (I : Inv σ) (h y : Nat) :
    abs (step σ (.swap h y)) = vstep σ.handles.length (abs σ) (.swap h y) := by
  funext k
  cases hh : σ.prep h with
  | none =>
    have hv : value σ h = none := value_of_prep_none hh
    simp [abs, vstep, step, hh, hv]
  | some ah =>
    obtain ⟨rh, hrh, hvh⟩ := I.value_of_prep hh
    cases hy : σ.prep y with
    | none =>
      have hv : value σ y = none := value_of_prep_none hy
      simp [abs, vstep, step, hh, hy, hv, hvh]
    | some ay =>
      obtain ⟨ry, hry, hvy⟩ := I.value_of_prep hy
      have hlh := lt_of_prep hh
      have hly := lt_of_prep hy
      simp only [abs, vstep, step, hh, hy, hvh, hvy, Spec.upd]
      by_cases e2 : k = y
      · subst e2
        simp [value, State.prep, hly, readPset, hrh]
      · have e2' : ¬ y = k := fun x => e2 x.symm
        by_cases e1 : k = h
        · subst e1
          simp [value, State.prep, hlh, e2', readPset, hry, e2]
        · have e1' : ¬ h = k := fun x => e1 x.symm
          simp [value, State.prep, e1, e2, e1', e2', readPset]

theorem abs_mutate {σ : State P} (I : Inv σ) (h : Nat) (f : P → P) :
    abs (step σ (.mutate h f)) = vstep σ.handles.length (abs σ) (.mutate h f) := by
  funext k
  cases hh : σ.prep h with
  | none =>
    have hv : value σ h = none := value_of_prep_none hh
    simp [abs, vstep, step, hh, hv]
  | some a =>
    obtain ⟨r, hr, hvh⟩ := I.value_of_prep hh
    obtain ⟨a', r', hp', hr', h1, _, _, hps⟩ := mutateAt_spec I hh
    have I' := I.mutateAt hh
    have hpset : r'.pset = r.pset := by
      simp only [readPset, hr', hr, Option.map_some, Option.some.injEq] at hps; exact hps
    simp only [abs, vstep, step, hh, hp', hvh, Spec.upd]
    rw [value_writePset I' hp' hr' h1 f k, hpset]
    by_cases e : k = h
    · simp [e]
    · simp only [e, if_false]; exact value_mutateAt I hh k

theorem abs_binop {σ : State P} (I : Inv σ) (h y : Nat) (g : P → P → P) :
    abs (step σ (.binop h y g)) = vstep σ.handles.length (abs σ) (.binop h y g) := by
  funext k
  cases hh : σ.prep h with
  | none =>
    have hv : value σ h = none := value_of_prep_none hh
    simp [abs, vstep, step, hh, hv]
  | some a =>
    obtain ⟨r, hr, hvh⟩ := I.value_of_prep hh
    cases hy : σ.prep y with
    | none =>
      have hv : value σ y = none := value_of_prep_none hy
      simp [abs, vstep, step, hh, hy, hv, hvh]
    | some ay =>
      obtain ⟨ry, hry, hvy⟩ := I.value_of_prep hy
      obtain ⟨a', r', hp', hr', h1, hk, _, hps⟩ := mutateAt_spec I hh
      have I' := I.mutateAt hh
      have hpset : r'.pset = r.pset := by
        simp only [readPset, hr', hr, Option.map_some, Option.some.injEq] at hps; exact hps
      -- the argument is read after the receiver's `mutate()`: it still shows the same value
      have hvy' : value (mutateAt σ h a) y = some ry.pset := by rw [value_mutateAt I hh y]; exact hvy
      obtain ⟨b, hb⟩ : ∃ b, (mutateAt σ h a).prep y = some b := by
        by_cases e : y = h
        · subst e; exact ⟨a', hp'⟩
        · exact ⟨ay, by rw [hk y e, hy]⟩
      have hrb : readPset (mutateAt σ h a) b = some ry.pset := by
        simpa [value, hb] using hvy'
      simp only [abs, vstep, step, hh, hy, hp', hb, hrb, hvh, hvy, Spec.upd]
      rw [value_writePset I' hp' hr' h1 _ k, hpset]
      by_cases e : k = h
      · simp [e]
      · simp only [e, if_false]; exact value_mutateAt I hh k

/-- **refinement, one step**: the abstraction (handles ↦ values) commutes with every operation -/
theorem abs_step {σ : State P} (I : Inv σ) (op : Op P) :
    abs (step σ op) = Spec.step (abs σ) (toSpec σ.handles.length op) := by
  rw [spec_step_toSpec]
  cases op with
  | construct h p => exact abs_construct I h p
  | copyCtor h y => exact abs_copyCtor I h y
  | assign h y => exact abs_assign I h y
  | destroy h => exact abs_destroy I h
  | swap h y => exact abs_swap I h y
  | mutate h f => exact abs_mutate I h f
  | binop h y g => exact abs_binop I h y g

/-- no operation changes the number of object slots -/
theorem length_step (σ : State P) (op : Op P) (I : Inv σ) : (step σ op).handles.length = σ.handles.length := by
  have hm : ∀ h a, σ.prep h = some a → (mutateAt σ h a).handles.length = σ.handles.length := by
    intro h a hp
    obtain ⟨r, hr, _, _⟩ := I.cell hp
    by_cases h1 : 1 < r.refs
    · rw [mutateAt_shared I hr h1]; simp
    · rw [mutateAt_unshared hr h1]
  have hw : ∀ (τ : State P) a f, (writePset τ a f).handles.length = τ.handles.length := by
    intro τ a f; simp only [writePset]; split <;> simp [State.bad]
  cases op with
  | construct h p => simp only [step]; split <;> simp [alloc, newRef, State.setCell, State.setPrep]
  | copyCtor h y =>
    simp only [step]; split
    · split
      · simp only [newRef]; split <;> simp [State.bad]
      · rfl
    · rfl
  | assign h y =>
    cases hh : σ.prep h with
    | none => simp [step, hh]
    | some ah =>
      cases hy : σ.prep y with
      | none => simp [step, hh, hy]
      | some ay =>
        by_cases e : ah = ay
        · subst e; rw [step_assign_same I hh hy]
        · obtain ⟨rh, hrh, _, _⟩ := I.cell hh
          obtain ⟨ry, hry, _, _⟩ := I.cell hy
          rw [step_assign_diff I hh hy e hrh hry]; simp
  | destroy h =>
    cases hh : σ.prep h with
    | none => simp [step, hh]
    | some a =>
      obtain ⟨r, hr, _, hrp⟩ := I.cell hh
      simp only [step, hh, release_eq hr hrp]
      split <;> simp
  | swap h y => simp only [step]; split <;> simp
  | mutate h f =>
    cases hh : σ.prep h with
    | none => simp [step, hh]
    | some a =>
      simp only [step, hh]
      split
      · rw [hw, hm h a hh]
      · simp [State.bad, hm h a hh]
  | binop h y g =>
    cases hh : σ.prep h with
    | none => simp [step, hh]
    | some a =>
      cases hy : σ.prep y with
      | none => simp [step, hh, hy]
      | some ay =>
        simp only [step, hh, hy]
        split
        · split
          · rw [hw, hm h a hh]
          · simp [State.bad, hm h a hh]
        · simp [State.bad, hm h a hh]

end PPLV.Value.Cow
