import PPLV.Alloc.ProofsTree

/-! # C14 — Dense_Row, Swapping_Vector and MIP_Problem machines -/

namespace PPLV.Alloc

theorem freeAll_append (h : Heap) (a b : List Nat) : (h.freeAll a).freeAll b = h.freeAll (a ++ b) := by
  simp [Heap.freeAll, List.foldl_append]

theorem freeOpt_some_eq (h : Heap) (b : Nat) : h.freeOpt (some b) = h.freeAll [b] := rfl
theorem free_eq (h : Heap) (b : Nat) : h.free b = h.freeAll [b] := rfl

/-- Releasing the distinct owned blocks `fs` out of `Y = fs ∪ X`. -/
theorem Tracks.release {base L X Y h} (fs : List Nat) (t : Tracks base L Y h) (nd : fs.Nodup)
    (hY : ∀ b, b ∈ Y ↔ (b ∈ fs ∨ b ∈ X)) (dis : ∀ b ∈ fs, b ∉ X) :
    Tracks base L X (h.freeAll fs) := by
  refine (Tracks.freeAll fs Y t nd (fun b hb => (hY b).mpr (Or.inl hb))).congr ?_
  intro c
  simp only [List.mem_filter, Bool.not_eq_true', List.contains_eq_mem, decide_eq_false_iff_not, hY]
  constructor
  · rintro ⟨h1 | h1, h2⟩
    · exact absurd h1 h2
    · exact h1
  · intro h1; exact ⟨Or.inr h1, fun hm => dis c hm h1⟩

/-! ## Dense_Row -/

theorem growLoop_spec {base L} : ∀ (n : Nat) (r : DRow) (X : List Nat) (h : Heap) (thr r' h'),
    Tracks base L X h → growLoop n r h = (thr, r', h') →
    ∃ new, r' = { r with elems := r.elems ++ new } ∧ Tracks base L (new ++ X) h' ∧ new.Nodup
      ∧ (∀ b ∈ new, b ∉ X) ∧ (thr = false → new.length = n) := by
  intro n
  induction n with
  | zero =>
    intro r X h thr r' h' t e
    simp [growLoop] at e
    obtain ⟨e1, e2, e3⟩ := e
    subst e1 e2 e3
    exact ⟨[], by simp, by simpa using t, List.nodup_nil, by simp, by simp⟩
  | succ n ih =>
    intro r X h thr r' h' t e
    unfold growLoop at e
    split at e
    · rename_i h1 ha
      simp at e
      obtain ⟨e1, e2, e3⟩ := e
      subst e1 e2 e3
      exact ⟨[], by simp, by simpa using t.alloc_none ha, List.nodup_nil, by simp, by simp⟩
    · rename_i b h1 ha
      obtain ⟨t1, hb, _⟩ := t.alloc_some ha
      obtain ⟨new, e1, t2, nd, dis, len⟩ := ih _ (b :: X) h1 thr r' h' t1 e
      refine ⟨b :: new, by simp [e1], t2.congr ?_, ?_, ?_, ?_⟩
      · intro c; simp only [List.mem_append, List.mem_cons]
        constructor
        · rintro (h2 | h2 | h2)
          · exact Or.inl (Or.inr h2)
          · exact Or.inl (Or.inl h2)
          · exact Or.inr h2
        · rintro ((h2 | h2) | h2)
          · exact Or.inr (Or.inl h2)
          · exact Or.inl h2
          · exact Or.inr (Or.inr h2)
      · refine List.nodup_cons.mpr ⟨?_, nd⟩
        intro hm; exact dis b hm (List.mem_cons_self ..)
      · intro c hc
        rcases List.mem_cons.mp hc with h2 | h2
        · subst h2; exact hb
        · intro hx; exact dis c h2 (List.mem_cons_of_mem _ hx)
      · intro ht; simp [len ht]

/-- `~Impl()` releases a row that owns `es` and (optionally) its vector. -/
theorem drowDestroy_some {base L X h es v cap} (t : Tracks base L (es ++ v :: X) h) (nd : es.Nodup)
    (hes : ∀ b ∈ es, b ≠ v ∧ b ∉ X) (hv : v ∉ X) :
    Tracks base L X (drowDestroy { vec := some v, cap := cap, elems := es } h) := by
  unfold drowDestroy
  simp only [freeOpt_some_eq, freeAll_append]
  apply Tracks.release _ t
  · rw [List.nodup_append]
    refine ⟨(List.reverse_perm es).nodup_iff.mpr nd, by simp, ?_⟩
    intro a ha b hb
    simp at hb; subst hb
    exact (hes a (List.mem_reverse.mp ha)).1
  · intro b; simp only [List.mem_append, List.mem_cons, List.mem_reverse, List.not_mem_nil, or_false]
    constructor
    · rintro (h1 | h1 | h1)
      · exact Or.inl (Or.inl h1)
      · exact Or.inl (Or.inr h1)
      · exact Or.inr h1
    · rintro ((h1 | h1) | h1)
      · exact Or.inl h1
      · exact Or.inr (Or.inl h1)
      · exact Or.inr (Or.inr h1)
  · intro b hb
    simp only [List.mem_append, List.mem_reverse, List.mem_singleton] at hb
    rcases hb with h1 | h1
    · exact (hes b h1).2
    · subst h1; exact hv

theorem drowDestroy_none {base L X h cap} (t : Tracks base L X h) :
    Tracks base L X (drowDestroy { vec := none, cap := cap, elems := [] } h) := by
  simpa [drowDestroy, Heap.freeAll, Heap.freeOpt] using t

/-- `Dense_Row(const Dense_Row&, capacity)`: `~Impl()` cleans up after a throwing body. -/
theorem denseCopy_clean {base L h} (m cap : Nat) (t : Tracks base L [] h) :
    Clean L (denseCopy m cap h) := by
  unfold denseCopy
  split
  · rename_i h1 ha
    exact Clean.of (drowDestroy_none (t.alloc_none ha)) _ _
  · rename_i v h1 ha
    obtain ⟨t1, hv, _⟩ := t.alloc_some ha
    have key : ∀ thr r h2, growLoop m { vec := some v, cap := cap, elems := [] } h1 = (thr, r, h2) →
        Tracks base L [] (drowDestroy r h2) := by
      intro thr r h2 hl
      obtain ⟨new, e1, t2, nd, dis, _⟩ := growLoop_spec m _ _ h1 thr r h2 t1 hl
      subst e1
      simp only [List.nil_append]
      apply drowDestroy_some t2 nd _ hv
      intro b hb
      have := dis b hb
      simp only [List.mem_cons, not_or] at this
      exact ⟨this.1, by simp⟩
    split
    · rename_i r h2 hl; exact Clean.of (key _ _ _ hl) _ _
    · rename_i r h2 hl; exact Clean.of (key _ _ _ hl) _ _

/-- Validity of a row after the growth loop: as many coefficients as were constructed. -/
theorem DRow.ok_of_le {v cap es} (hle : List.length es ≤ cap) :
    DRow.ok { vec := some v, cap := cap, elems := es } = true := by
  simp [DRow.ok, hle]

end PPLV.Alloc

namespace PPLV.Alloc

/-- What `buildRow`/`buildVec`/`buildSeq` leave: nothing, or a buffer plus distinct elements. -/
theorem buildParts_spec {base L h} (m cap : Nat) (t : Tracks base L [] h) (_hc : cap ≠ 0) :
    ∃ v es, h.take.1 = v ∧ (takeN (min m cap) [] h.take.2).1 = es ∧
      Tracks base L (es ++ [v]) (takeN (min m cap) [] h.take.2).2 ∧ es.Nodup ∧ (∀ b ∈ es, b ≠ v) ∧
      es.length = min m cap := by
  obtain ⟨t1, _⟩ := t.take
  obtain ⟨new, e1, t2, nd, dis, len⟩ := takeN_spec (min m cap) [] _ _ t1
  simp at e1
  refine ⟨_, _, rfl, rfl, ?_, ?_, ?_, ?_⟩
  · rw [e1]; exact t2
  · rw [e1]; exact nd
  · rw [e1]; intro b hb; have := dis b hb; simpa using this
  · rw [e1]; exact len

theorem finishGrow_clean {base L h1} (es : List Nat) (v c n : Nat) (nd : es.Nodup) (hne : ∀ b ∈ es, b ≠ v)
    (t2 : Tracks base L (es ++ [v]) h1) :
    Clean L (finishGrow (growLoop n { vec := some v, cap := c, elems := es } h1)) := by
  obtain ⟨new, e1, t3, nd2, dis, _⟩ := growLoop_spec n _ _ h1 _ _ _ t2 rfl
  unfold finishGrow
  rw [e1]
  have t4 : Tracks base L ((es ++ new) ++ [v]) (growLoop n { vec := some v, cap := c, elems := es } h1).2.2 := t3.congr (by
    intro b; simp only [List.mem_append, List.mem_singleton]
    constructor
    · rintro (h1 | h1 | h1)
      · exact Or.inl (Or.inr h1)
      · exact Or.inl (Or.inl h1)
      · exact Or.inr h1
    · rintro ((h1 | h1) | h1)
      · exact Or.inr (Or.inl h1)
      · exact Or.inl h1
      · exact Or.inr (Or.inr h1))
  refine Clean.of (drowDestroy_some t4 ?_ ?_ (by simp)) _ _
  · rw [List.nodup_append]
    refine ⟨nd, nd2, ?_⟩
    intro a ha b hb e; subst e
    exact dis a hb (List.mem_append_left _ ha)
  · intro b hb
    rcases List.mem_append.mp hb with h1 | h1
    · exact ⟨hne b h1, by simp⟩
    · have := dis b h1; simp only [List.mem_append, List.mem_singleton, not_or] at this
      exact ⟨this.2, by simp⟩

/-- `Dense_Row::resize(new_size)` on a live row: no leak, no bad free, whatever fails. -/
theorem denseResize_clean {base L h} (m cap newSize : Nat) (t : Tracks base L [] h) :
    Clean L (denseResize (buildRow m cap h).1 newSize (buildRow m cap h).2) := by
  by_cases hc : cap = 0
  · -- no storage yet
    have e : buildRow m cap h = (DRow.empty, h) := by simp [buildRow, hc]
    rw [e]
    unfold denseResize
    simp only [DRow.empty, List.length_nil]
    by_cases hn : newSize ≤ 0
    · simp only [hn, if_true, List.take_nil, List.drop_nil, List.reverse_nil]
      exact Clean.of (drowDestroy_none (by simpa [Heap.freeAll] using t)) _ _
    · have hpos : newSize > 0 := by omega
      simp only [hn, hpos, if_false, if_true]
      split
      · rename_i h1 ha
        exact Clean.of (drowDestroy_none (t.alloc_none ha)) _ _
      · rename_i nv h1 ha
        obtain ⟨t1, _, _⟩ := t.alloc_some ha
        exact finishGrow_clean [] nv newSize _ List.nodup_nil (by simp) (by simpa [Heap.freeOpt] using t1)
  · obtain ⟨v, es, ev, ees, t1, nd, hne, len⟩ := buildParts_spec m cap t hc
    have e : buildRow m cap h = ({ vec := some v, cap := cap, elems := es }, (takeN (min m cap) [] h.take.2).2) := by
      simp [buildRow, hc, ev, ees]
    rw [e]
    generalize (takeN (min m cap) [] h.take.2).2 = h0 at t1
    unfold denseResize
    simp only
    split
    · -- shrink
      have hsplit : es = es.take newSize ++ es.drop newSize := (List.take_append_drop _ _).symm
      have ndt : (es.take newSize).Nodup := List.Nodup.sublist (List.take_sublist _ _) nd
      have ndd : (es.drop newSize).Nodup := List.Nodup.sublist (List.drop_sublist _ _) nd
      have hdis : ∀ b ∈ es.drop newSize, b ∉ es.take newSize := by
        intro b hb ht
        rw [hsplit, List.nodup_append] at nd
        exact nd.2.2 b ht b hb rfl
      have t2 : Tracks base L (es.take newSize ++ [v]) (h0.freeAll (es.drop newSize).reverse) := by
        apply Tracks.release _ t1 ((List.reverse_perm _).nodup_iff.mpr ndd)
        · intro b
          simp only [List.mem_append, List.mem_reverse, List.mem_singleton]
          constructor
          · rintro (h1 | h1)
            · rw [hsplit] at h1
              rcases List.mem_append.mp h1 with h2 | h2
              · exact Or.inr (Or.inl h2)
              · exact Or.inl h2
            · exact Or.inr (Or.inr h1)
          · rintro (h1 | h1 | h1)
            · exact Or.inl (List.mem_of_mem_drop h1)
            · exact Or.inl (List.mem_of_mem_take h1)
            · exact Or.inr h1
        · intro b hb
          have hb' := List.mem_reverse.mp hb
          simp only [List.mem_append, List.mem_singleton, not_or]
          exact ⟨hdis b hb', hne b (List.mem_of_mem_drop hb')⟩
      refine Clean.of (drowDestroy_some t2 ndt ?_ (by simp)) _ _
      intro b hb; exact ⟨hne b (List.mem_of_mem_take hb), by simp⟩
    · split
      · split
        · rename_i h1 ha
          refine Clean.of (drowDestroy_some (t1.alloc_none ha) nd ?_ (by simp)) _ _
          intro b hb; exact ⟨hne b hb, by simp⟩
        · rename_i nv h1 ha
          obtain ⟨t2, hnv, _⟩ := t1.alloc_some ha
          -- the old vector is released, the new one is owned
          have t3 : Tracks base L (es ++ [nv]) (h1.freeOpt (some v)) := by
            rw [freeOpt_some_eq]
            apply Tracks.release [v] t2 (by simp)
            · intro b; simp only [List.mem_cons, List.mem_append, List.not_mem_nil, or_false]
              constructor
              · rintro (h1 | h1 | h1)
                · exact Or.inr (Or.inr h1)
                · exact Or.inr (Or.inl h1)
                · exact Or.inl h1
              · rintro (h1 | h1 | h1)
                · exact Or.inr (Or.inr h1)
                · exact Or.inr (Or.inl h1)
                · exact Or.inl h1
            · intro b hb; simp at hb; subst hb
              simp only [List.mem_append, List.mem_singleton, not_or]
              refine ⟨fun hm => (hne b hm) rfl, ?_⟩
              intro e; apply hnv; rw [← e]; simp
          have hne2 : ∀ b ∈ es, b ≠ nv := by
            intro b hb e; apply hnv; rw [← e]; exact List.mem_append_left _ hb
          exact finishGrow_clean es nv newSize _ nd hne2 t3
      · exact finishGrow_clean es v cap _ nd hne t1

end PPLV.Alloc

namespace PPLV.Alloc

/-- `Dense_Row::operator=(const Sparse_Row&)` with reallocation is clean when the allocation of `init` succeeds. -/
theorem denseAssignSparseAsWritten_clean_of_alloc {base L h} (m0 cap m : Nat) (t : Tracks base L [] h) (hc : cap ≠ 0)
    (hal : ∀ h1 : Heap, h1.cd = h.cd → h1.armed = h.armed → (h1.alloc).1 ≠ none) :
    Clean L (denseAssignSparseAsWritten (buildRow m0 cap h).1 m (buildRow m0 cap h).2) := by
  obtain ⟨v, es, ev, ees, t1, nd, hne, _⟩ := buildParts_spec m0 cap t hc
  have e : buildRow m0 cap h = ({ vec := some v, cap := cap, elems := es }, (takeN (min m0 cap) [] h.take.2).2) := by
    simp [buildRow, hc, ev, ees]
  rw [e]
  have hcd : ∀ n acc (g : Heap), (takeN n acc g).2.cd = g.cd ∧ (takeN n acc g).2.armed = g.armed := by
    intro n; induction n with
    | zero => intro acc g; simp [takeN]
    | succ n ih => intro acc g; simp only [takeN]; have := ih (acc ++ [g.take.1]) g.take.2; simpa [Heap.take] using this
  have hfa : ∀ (fs : List Nat) (g : Heap), (g.freeAll fs).cd = g.cd ∧ (g.freeAll fs).armed = g.armed := by
    intro fs; induction fs with
    | nil => intro g; simp [Heap.freeAll]
    | cons f fs ih => intro g; have := ih (g.free f); simpa [Heap.freeAll, Heap.free] using this
  generalize hh0 : (takeN (min m0 cap) [] h.take.2).2 = h0 at t1
  have h0cd : h0.cd = h.cd ∧ h0.armed = h.armed := by
    rw [← hh0]; have := hcd (min m0 cap) [] h.take.2; simpa [Heap.take] using this
  unfold denseAssignSparseAsWritten
  simp only
  -- after destroy() nothing is owned
  have t2 : Tracks base L [] ((h0.freeAll es.reverse).freeOpt (some v)) := by
    have := drowDestroy_some (cap := cap) t1 nd (fun b hb => ⟨hne b hb, by simp⟩) (by simp)
    simpa [drowDestroy] using this
  have hcd2 : ((h0.freeAll es.reverse).freeOpt (some v)).cd = h.cd ∧ ((h0.freeAll es.reverse).freeOpt (some v)).armed = h.armed := by
    have := hfa es.reverse h0
    simp only [Heap.freeOpt, Heap.free]
    exact ⟨this.1.trans h0cd.1, this.2.trans h0cd.2⟩
  split
  · rename_i h2 ha
    exact absurd (by rw [ha]) (hal _ hcd2.1 hcd2.2)
  · rename_i nv h2 ha
    obtain ⟨t3, _, _⟩ := t2.alloc_some ha
    exact finishGrow_clean [] nv m _ List.nodup_nil (by simp) (by simpa using t3)

end PPLV.Alloc

namespace PPLV.Alloc

/-- Repaired `Dense_Row::operator=(const Sparse_Row&)` (copy aside, then swap): clean for every
fault position and every shape of the two rows. -/
theorem denseAssignSparse_clean {base L h} (m0 cap m : Nat) (t : Tracks base L [] h) :
    Clean L (denseAssignSparse (buildRow m0 cap h).1 m (buildRow m0 cap h).2) := by
  -- the receiver: nothing, or a vector plus distinct coefficients; destroying it releases exactly its blocks `X`
  have hr : ∃ (r : DRow) (X : List Nat) (h0 : Heap), buildRow m0 cap h = (r, h0) ∧ Tracks base L X h0 ∧
      (∀ (Y : List Nat) (g : Heap), (∀ b ∈ X, b ∉ Y) → Tracks base L (X ++ Y) g → Tracks base L Y (drowDestroy r g)) := by
    by_cases hc : cap = 0
    · refine ⟨DRow.empty, [], h, by simp [buildRow, hc], t, ?_⟩
      intro Y g _ tg; simpa [drowDestroy, DRow.empty, Heap.freeAll, Heap.freeOpt] using tg
    · obtain ⟨v, es, ev, ees, t1, nd, hne, _⟩ := buildParts_spec m0 cap t hc
      refine ⟨{ vec := some v, cap := cap, elems := es }, es ++ [v], _, by simp [buildRow, hc, ev, ees], t1, ?_⟩
      intro Y g hdis tg
      refine drowDestroy_some (X := Y) (tg.congr (by intro b; simp [List.append_assoc])) nd ?_ ?_
      · intro b hb; exact ⟨hne b hb, hdis b (by simp [hb])⟩
      · exact hdis v (by simp)
  obtain ⟨r, X, h0, e, t1, hdestroy⟩ := hr
  rw [e]
  unfold denseAssignSparse
  simp only
  split
  · rename_i h1 ha
    exact Clean.of (hdestroy [] _ (by simp) (by simpa using t1.alloc_none ha)) _ _
  · rename_i v h1 ha
    obtain ⟨t2, hv, _⟩ := t1.alloc_some ha
    split
    · rename_i tmp h2 hl
      obtain ⟨new, e1, t3, nd, dis, _⟩ := growLoop_spec m _ _ h1 true tmp h2 t2 hl
      subst e1
      simp only [List.nil_append]
      have t4 : Tracks base L X (drowDestroy { vec := some v, cap := m, elems := new } h2) := by
        apply drowDestroy_some t3 nd _ hv
        intro b hb
        have := dis b hb
        simp only [List.mem_cons, not_or] at this
        exact ⟨this.1, this.2⟩
      exact Clean.of (hdestroy [] _ (by simp) (by simpa using t4)) _ _
    · rename_i tmp h2 hl
      obtain ⟨new, e1, t3, nd, dis, _⟩ := growLoop_spec m _ _ h1 false tmp h2 t2 hl
      subst e1
      simp only [List.nil_append]
      -- the old contents go first (the local that received them in the swap), the new row later
      have t4 : Tracks base L (new ++ [v]) (drowDestroy r h2) := by
        apply hdestroy (new ++ [v]) h2
        · intro b hb hm
          rcases List.mem_append.mp hm with h3 | h3
          · exact (dis b h3) (List.mem_cons_of_mem _ hb)
          · simp at h3; subst h3; exact hv hb
        · refine t3.congr ?_
          intro b; simp only [List.mem_append, List.mem_cons, List.not_mem_nil, or_false]
          constructor
          · rintro (h3 | h3 | h3)
            · exact Or.inr (Or.inl h3)
            · exact Or.inr (Or.inr h3)
            · exact Or.inl h3
          · rintro (h3 | h3 | h3)
            · exact Or.inr (Or.inr h3)
            · exact Or.inl h3
            · exact Or.inr (Or.inl h3)
      refine Clean.of (drowDestroy_some (X := []) t4 nd ?_ (by simp)) _ _
      intro b hb
      have := dis b hb
      simp only [List.mem_cons, not_or] at this
      exact ⟨this.1, by simp⟩

end PPLV.Alloc
