import PPLV.Alloc.ProofsPip

/-! # C14 — which event fails: exact characterisation of the leaking protocols -/

namespace PPLV.Alloc

theorem alloc_fail {h : Heap} (ha : h.armed = true) (hc : h.cd = 0) :
    h.alloc = (none, { h with armed := false, events := h.events + 1 }) := by
  simp [Heap.alloc, ha, hc]

theorem alloc_ok {h : Heap} (hc : h.armed = false ∨ h.cd ≠ 0) :
    h.alloc = (some h.next, { h with next := h.next + 1, live := h.next :: h.live, cd := h.cd - 1,
                                      events := h.events + 1 }) := by
  unfold Heap.alloc
  rcases hc with hc | hc
  · simp [hc]
  · simp [hc]

/-- With at least `n` successful events left the fill loop completes. -/
theorem fillLoop_no_throw : ∀ (n : Nat) (acc : List Nat) (h : Heap), (h.armed = false ∨ n ≤ h.cd) →
    (fillLoop n acc h).1 = false := by
  intro n
  induction n with
  | zero => intro acc h _; simp [fillLoop]
  | succ n ih =>
    intro acc h hc
    unfold fillLoop
    rw [alloc_ok (by rcases hc with hc | hc; exact Or.inl hc; exact Or.inr (by omega))]
    simp only
    apply ih
    rcases hc with hc | hc
    · exact Or.inl hc
    · exact Or.inr (by simp; omega)

/-- With fewer than `n` successful events left the fill loop throws, and exactly `cd` more blocks
are live at that point. -/
theorem fillLoop_throws : ∀ (n : Nat) (acc : List Nat) (h : Heap), h.armed = true → h.cd < n →
    (fillLoop n acc h).1 = true ∧ (fillLoop n acc h).2.2.live.length = h.live.length + h.cd
      ∧ (fillLoop n acc h).2.2.bad = h.bad := by
  intro n
  induction n with
  | zero => intro acc h _ hlt; omega
  | succ n ih =>
    intro acc h ha hlt
    unfold fillLoop
    by_cases hc : h.cd = 0
    · rw [alloc_fail ha hc]; simp [hc]
    · rw [alloc_ok (Or.inr hc)]
      simp only
      obtain ⟨h1, h2, h3⟩ := ih (acc ++ [h.next])
        { h with next := h.next + 1, live := h.next :: h.live, cd := h.cd - 1, events := h.events + 1 } ha (by simp; omega)
      refine ⟨h1, ?_, h3⟩
      rw [h2]; simp; omega

theorem start_live_length (pre k : Nat) : (Heap.start pre k).live.length = pre := by
  simp [Heap.start]

/-- **The leak of the iterator constructor, exactly**: if the fault hits one of the `n` element
copies (events `2 … n+1`), the two arrays and the `k - 2` elements already built stay allocated. -/
theorem cotreeIterAsWritten_leaks (n pre k : Nat) (h2 : 2 ≤ k) (hk : k < n + 2) :
    (Run.cotreeIterAsWritten n pre k).thrown = true ∧ (Run.cotreeIterAsWritten n pre k).live.length = pre + k
      ∧ (Run.cotreeIterAsWritten n pre k).bad = 0 := by
  have hn : n ≠ 0 := by omega
  unfold Run.cotreeIterAsWritten cotreeIterAsWritten cotInit
  simp only [hn, if_false]
  rw [alloc_ok (by right; simp [Heap.start]; omega)]
  simp only
  rw [alloc_ok (by right; simp [Heap.start]; omega)]
  simp only
  obtain ⟨e1, e2, e3⟩ := fillLoop_throws n []
    { next := (Heap.start pre k).next + 1 + 1,
      live := ((Heap.start pre k).next + 1) :: (Heap.start pre k).next :: (Heap.start pre k).live,
      bad := (Heap.start pre k).bad, cd := (Heap.start pre k).cd - 1 - 1,
      armed := (Heap.start pre k).armed, events := (Heap.start pre k).events + 1 + 1 }
    (by simp [Heap.start]) (by simp [Heap.start]; omega)
  generalize hfl : fillLoop n [] _ = r at e1 e2 e3 ⊢
  obtain ⟨thr, es, h'⟩ := r
  simp only at e1 e2 e3
  subst e1
  simp only [Outcome.ofHeap]
  refine ⟨trivial, ?_, ?_⟩
  · rw [e2]; simp [Heap.start]; omega
  · rw [e3]; simp [Heap.start]

/-- The first two events belong to `init`, which cleans up after itself. -/
theorem cotInit_throws_lt2 (n pre k : Nat) (hn : n ≠ 0) (hk : k < 2) :
    (cotInit none n (Heap.start pre k)).1 = true := by
  unfold cotInit
  simp only [hn, if_false]
  by_cases h0 : k = 0
  · subst h0
    rw [alloc_fail (by simp [Heap.start]) (by simp [Heap.start])]
  · have h1 : k = 1 := by omega
    subst h1
    rw [alloc_ok (by right; simp [Heap.start])]
    simp only
    rw [alloc_fail (by simp [Heap.start]) (by simp [Heap.start])]

/-- After the last event nothing can fail. -/
theorem cotreeIterAsWritten_not_thrown (n pre k : Nat) (hk : n + 2 ≤ k) :
    (Run.cotreeIterAsWritten n pre k).thrown = false := by
  unfold Run.cotreeIterAsWritten cotreeIterAsWritten cotInit
  by_cases hn : n = 0
  · simp [hn, Outcome.ofHeap]
  · simp only [hn, if_false]
    rw [alloc_ok (by right; simp [Heap.start]; omega)]
    simp only
    rw [alloc_ok (by right; simp [Heap.start]; omega)]
    simp only
    have := fillLoop_no_throw n []
      { next := (Heap.start pre k).next + 1 + 1,
        live := ((Heap.start pre k).next + 1) :: (Heap.start pre k).next :: (Heap.start pre k).live,
        bad := (Heap.start pre k).bad, cd := (Heap.start pre k).cd - 1 - 1,
        armed := (Heap.start pre k).armed, events := (Heap.start pre k).events + 1 + 1 }
      (by right; simp [Heap.start]; omega)
    generalize hfl : fillLoop n [] _ = r at this ⊢
    obtain ⟨thr, es, h'⟩ := r
    simp only at this
    subst this
    simp [Outcome.ofHeap]

end PPLV.Alloc
