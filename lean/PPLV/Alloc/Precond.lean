/-!
# C14 — the documented preconditions of the `Polyhedron` interface, as a table (no Mathlib)

`precond op a pool` says whether the call is accepted, and otherwise which standard exception the
documentation (`Polyhedron_defs.hh`, `C_Polyhedron_defs.hh`, `NNC_Polyhedron_defs.hh`) promises.
`step` is the model of a call: it consults `precond` first and touches the pool only when the
call is accepted — `rejected_unchanged` (in `Props/C14.lean`) is what the harness tests the code
against: exception class = `precond`'s, every object involved unchanged.

Only what the precondition needs is modelled of an object: topology, space dimension, emptiness.
-/

namespace PPLV.Alloc

inductive ErrClass where
  | invalidArgument | domainError | lengthError
deriving Repr, DecidableEq

def ErrClass.name : ErrClass → String
  | .invalidArgument => "invalid_argument"
  | .domainError => "domain_error"
  | .lengthError => "length_error"

inductive Topol where | c | nnc
deriving Repr, DecidableEq

structure Obj where
  topol : Topol
  dim : Nat
  empty : Bool
deriving Repr, DecidableEq

abbrev Pool := List Obj

inductive Rel where | lt | le | eq | ge | gt | ne
deriving Repr, DecidableEq

def Rel.strict : Rel → Bool
  | .lt | .gt => true
  | _ => false

inductive Op where
  | ctorDim              -- C_Polyhedron(num_dimensions, kind)
  | ctorCs               -- Polyhedron(const Constraint_System&)
  | ctorGs               -- Polyhedron(const Generator_System&)
  | ctorFromNNC          -- C_Polyhedron(const NNC_Polyhedron&)
  | addConstraint | addConstraints | refineWithConstraint
  | addGenerator | addGenerators
  | addCongruence
  | binary               -- intersection / poly_hull / poly_difference / time_elapse / contains / is_disjoint_from / widenings
  | limitedExtrapolation -- limited_H79_extrapolation_assign(y, cs)
  | concatenate
  | affineImage          -- affine_image / affine_preimage (var, expr, denominator)
  | genAffineImageVar    -- generalized_affine_(pre)image(var, relsym, expr, denominator)
  | genAffineImageLhs    -- generalized_affine_(pre)image(lhs, relsym, rhs)
  | boundedAffineImage   -- bounded_affine_(pre)image(var, lb, ub, denominator)
  | unconstrain          -- unconstrain(var) / unconstrain(vars) / constrains(var)
  | exprQuery            -- maximize / minimize / bounds_from_above / relation_with(Constraint|Generator|Congruence)
  | addSpaceDims         -- add_space_dimensions_and_embed / _and_project
  | removeSpaceDims      -- remove_space_dimensions(vars)
  | removeHigher         -- remove_higher_space_dimensions(new_dimension)
  | expand               -- expand_space_dimension(var, m)
  | fold                 -- fold_space_dimensions(vars, dest)
  | swap                 -- m_swap
deriving Repr, DecidableEq

/-- The abstract arguments of a call (fields an operation does not use are ignored). -/
structure Args where
  recv : Nat                  -- index of the receiver in the pool
  arg : Nat := 0              -- index of the polyhedron argument (binary operations)
  atopol : Topol := .c        -- topology asked of a constructor
  adim : Nat := 0             -- space dimension of the constraint / generator / expression / system argument
  adim2 : Nat := 0            -- second expression (lhs, ub) or the constraint system of a limited extrapolation
  strict : Bool := false      -- the argument contains a strict inequality
  closurePoint : Bool := false -- the argument contains a closure point
  hasPoint : Bool := true     -- the generator (system) argument has / is a point
  emptyGs : Bool := false     -- the generator system argument is empty
  notClosed : Bool := false   -- the NNC argument of C_Polyhedron(NNC) is not topologically closed
  denomZero : Bool := false
  vdim : Nat := 0             -- var.space_dimension()  (variable id + 1)
  rel : Rel := .le
  overflow : Bool := false    -- the requested dimension exceeds max_space_dimension()
  destInVars : Bool := false
  proper : Bool := false      -- the congruence is proper, neither tautology nor contradiction
deriving Repr, DecidableEq

def bad (c : Bool) (e : ErrClass) : Except ErrClass Unit := if c then .error e else .ok ()

/-- The documented preconditions, checked in the documented order. -/
def precond (op : Op) (a : Args) (pool : Pool) : Except ErrClass Unit :=
  let r := pool.getD a.recv ⟨.c, 0, false⟩
  let y := pool.getD a.arg ⟨.c, 0, false⟩
  match op with
  | .ctorDim => bad a.overflow .lengthError
  | .ctorCs => bad (a.atopol == .c && a.strict) .invalidArgument
  | .ctorGs => do
      bad (a.atopol == .c && a.closurePoint) .invalidArgument
      bad (!a.emptyGs && !a.hasPoint) .invalidArgument
  | .ctorFromNNC => .ok ()          -- C_Polyhedron(const NNC_Polyhedron&) builds the topological closure
  | .addConstraint | .addConstraints => do
      bad (r.topol == .c && a.strict) .invalidArgument
      bad (r.dim < a.adim) .invalidArgument
  | .refineWithConstraint => bad (r.dim < a.adim) .invalidArgument
  | .addGenerator => do
      bad (r.topol == .c && a.closurePoint) .invalidArgument
      bad (r.dim < a.adim) .invalidArgument
      bad (r.empty && !a.hasPoint) .invalidArgument
  | .addGenerators => do
      bad (r.topol == .c && a.closurePoint) .invalidArgument
      bad (r.dim < a.adim) .invalidArgument
      bad (r.empty && !a.emptyGs && !a.hasPoint) .invalidArgument
  | .addCongruence => do
      bad (r.dim < a.adim) .invalidArgument
      bad a.proper .invalidArgument
  | .binary => do
      bad (r.topol != y.topol) .invalidArgument
      bad (r.dim != y.dim) .invalidArgument
  | .limitedExtrapolation => do
      bad (r.topol != y.topol) .invalidArgument
      bad (r.topol == .c && a.strict) .invalidArgument
      bad (r.dim != y.dim) .invalidArgument
      bad (r.dim < a.adim2) .invalidArgument
  | .concatenate => do
      bad (r.topol != y.topol) .invalidArgument
      bad a.overflow .lengthError
  | .affineImage => do
      bad a.denomZero .invalidArgument
      bad (r.dim < a.adim) .invalidArgument
      bad (r.dim < a.vdim) .invalidArgument
  | .genAffineImageVar => do
      bad a.denomZero .invalidArgument
      bad (r.dim < a.adim) .invalidArgument
      bad (r.dim < a.vdim) .invalidArgument
      bad (r.topol == .c && a.rel.strict) .invalidArgument
      bad (a.rel == .ne) .invalidArgument
  | .genAffineImageLhs => do
      bad (r.dim < a.adim2) .invalidArgument
      bad (r.dim < a.adim) .invalidArgument
      bad (r.topol == .c && a.rel.strict) .invalidArgument
      bad (a.rel == .ne) .invalidArgument
  | .boundedAffineImage => do
      bad a.denomZero .invalidArgument
      bad (r.dim < a.vdim) .invalidArgument
      bad (r.dim < a.adim) .invalidArgument
      bad (r.dim < a.adim2) .invalidArgument
  | .unconstrain => bad (r.dim < a.vdim) .invalidArgument
  | .exprQuery => bad (r.dim < a.adim) .invalidArgument
  | .addSpaceDims => bad a.overflow .lengthError
  | .removeSpaceDims => bad (r.dim < a.vdim) .invalidArgument
  | .removeHigher => bad (r.dim < a.adim) .invalidArgument
  | .expand => do
      bad (r.dim < a.vdim) .invalidArgument
      bad a.overflow .lengthError
  | .fold => do
      bad (r.dim < a.vdim) .invalidArgument
      bad (r.dim < a.adim) .invalidArgument
      bad a.destInVars .invalidArgument
  | .swap => bad (r.topol != y.topol) .invalidArgument

/-- What an accepted call does to the modelled part of the pool (dimension changes only; the
value is the business of C01/C02). -/
def apply (op : Op) (a : Args) (pool : Pool) : Pool :=
  let r := pool.getD a.recv ⟨.c, 0, false⟩
  let y := pool.getD a.arg ⟨.c, 0, false⟩
  match op with
  | .ctorDim | .ctorCs | .ctorGs | .ctorFromNNC => pool ++ [⟨a.atopol, a.adim, false⟩]
  | .concatenate => pool.set a.recv { r with dim := r.dim + y.dim }
  | .addSpaceDims => pool.set a.recv { r with dim := r.dim + a.adim }
  | .removeHigher => pool.set a.recv { r with dim := a.adim }
  | .expand => pool.set a.recv { r with dim := r.dim + a.adim }
  | .swap => (pool.set a.recv y).set a.arg r
  | _ => pool

/-- One call against the model pool: (outcome, pool afterwards). -/
def step (op : Op) (a : Args) (pool : Pool) : Except ErrClass Unit × Pool :=
  match precond op a pool with
  | .error e => (.error e, pool)
  | .ok () => (.ok (), apply op a pool)

/-! ## system-valued arguments

`add_constraints(cs)`, `add_generators(gs)`, `add_congruences(cgs)`, … of every domain: the call is
ill-formed as soon as ONE element of the system is, **whatever its position**, and a rejected call
leaves the receiver unchanged — in particular the elements that precede the offender must not have
been applied. -/

/-- What the precondition of a system overload looks at in one element. -/
inductive ElemKind where
  | ok            -- accepted by the operation
  | strict        -- a strict inequality
  | proper        -- a proper congruence (neither tautology nor contradiction)
  | closurePoint  -- a closure point
  | unsupported   -- a constraint outside the class of the domain (not a bounded difference, …)
  | inequality    -- a non-trivial inequality (grids accept equalities only)
  | dimIncompatible -- an element whose space dimension exceeds the receiver's (the system is then dimension-incompatible)
deriving Repr, DecidableEq

inductive DomKind where
  | polyC | polyNNC | bds | oct | box | grid | mip | pip | powersetC | productCGrid
deriving Repr, DecidableEq

inductive SysOp where
  | addConstraints | addGenerators | addCongruences | refine   -- (the `recycled` overloads share the precondition)
deriving Repr, DecidableEq

/-- Is this element ill-formed for this operation of this domain (documented `std::invalid_argument`)? -/
def elemBad (d : DomKind) (op : SysOp) (k : ElemKind) : Bool :=
  match op, k with
  | _, .dimIncompatible => true                       -- every overload of every domain, `refine_with_*` included
  | .refine, _ => false                               -- refine_with_* ignores what it cannot use
  | _, .ok => false
  | .addConstraints, .strict =>
      -- (PIP_Problem accepts strict inequalities: over the integers `e > 0` is `e ≥ 1`)
      d == .polyC || d == .bds || d == .oct || d == .mip || d == .powersetC || d == .productCGrid
  | .addConstraints, .unsupported => d == .bds || d == .oct || d == .box
  | .addConstraints, .inequality => d == .grid || d == .productCGrid
  | .addGenerators, .closurePoint => d == .polyC || d == .powersetC
  | .addCongruences, .proper => d != .grid
  | _, _ => false

/-- The precondition of a system overload: no element is ill-formed. -/
def precondSystem (d : DomKind) (op : SysOp) (es : List ElemKind) : Except ErrClass Unit :=
  bad (es.any (elemBad d op)) .invalidArgument

/-- One system call against a model receiver `σ` (`applyAll` = what the accepted elements do to it). -/
def stepSystem {σ : Type} (applyAll : List ElemKind → σ → σ) (d : DomKind) (op : SysOp) (es : List ElemKind) (r : σ) :
    Except ErrClass Unit × σ :=
  match precondSystem d op es with
  | .error e => (.error e, r)
  | .ok () => (.ok (), applyAll es r)

/-- The repaired overloads validate the whole system first and then apply the elements one by one. -/
def applyEach {σ : Type} (apply1 : ElemKind → σ → σ) (es : List ElemKind) (r : σ) : σ := es.foldl (fun acc e => apply1 e acc) r

/-- Historical witness — the overloads of BD shapes, octagons, boxes and grids (and still those of the
products) as they were found: each element is checked when it is met, after the preceding ones have
been applied. -/
def stepSystemAsWritten {σ : Type} (apply1 : ElemKind → σ → σ) (d : DomKind) (op : SysOp) :
    List ElemKind → σ → Except ErrClass Unit × σ
  | [], r => (.ok (), r)
  | e :: es, r => if elemBad d op e then (.error .invalidArgument, r) else stepSystemAsWritten apply1 d op es (apply1 e r)

def ElemKind.ofString : String → ElemKind
  | "strict" => .strict | "proper" => .proper | "closure_point" => .closurePoint
  | "unsupported" => .unsupported | "inequality" => .inequality | "dim" => .dimIncompatible | _ => .ok

def DomKind.ofString? : String → Option DomKind
  | "polyC" => some .polyC | "polyNNC" => some .polyNNC | "bds" => some .bds | "oct" => some .oct | "box" => some .box
  | "grid" => some .grid | "mip" => some .mip | "pip" => some .pip | "powersetC" => some .powersetC
  | "productCGrid" => some .productCGrid | _ => none

def SysOp.ofString? : String → Option SysOp
  | "add_constraints" | "add_recycled_constraints" => some .addConstraints
  | "add_generators" | "add_recycled_generators" => some .addGenerators
  | "add_congruences" | "add_recycled_congruences" => some .addCongruences
  | "refine_with_constraints" | "refine_with_congruences" => some .refine
  | _ => none

/-- Expected exception class of a journalled system call (`dk=… sop=… elems=k1,k2,…`). -/
def expectedSystem (toks : List String) : Option String :=
  let kv := toks.filterMap fun t => match t.splitOn "=" with
    | [k, v] => some (k, v)
    | _ => none
  match (kv.lookup "dk").bind DomKind.ofString?, (kv.lookup "sop").bind SysOp.ofString? with
  | some d, some op =>
    let es := (((kv.lookup "elems").getD "").splitOn ",").filter (· ≠ "") |>.map ElemKind.ofString
    match precondSystem d op es with
    | .error e => some e.name
    | .ok () => some "none"
  | _, _ => none

/-! ## journal interface (used by `Driver/C14.lean`) -/

def Op.ofString? : String → Option Op
  | "ctor_dim" => some .ctorDim | "ctor_cs" => some .ctorCs | "ctor_gs" => some .ctorGs
  | "ctor_from_nnc" => some .ctorFromNNC
  | "add_constraint" => some .addConstraint | "add_constraints" => some .addConstraints
  | "refine_with_constraint" => some .refineWithConstraint
  | "add_generator" => some .addGenerator | "add_generators" => some .addGenerators
  | "add_congruence" => some .addCongruence
  | "binary" => some .binary | "limited_extrapolation" => some .limitedExtrapolation
  | "concatenate" => some .concatenate
  | "affine_image" => some .affineImage | "gen_affine_image_var" => some .genAffineImageVar
  | "gen_affine_image_lhs" => some .genAffineImageLhs | "bounded_affine_image" => some .boundedAffineImage
  | "unconstrain" => some .unconstrain | "expr_query" => some .exprQuery
  | "add_space_dims" => some .addSpaceDims | "remove_space_dims" => some .removeSpaceDims
  | "remove_higher" => some .removeHigher | "expand" => some .expand | "fold" => some .fold
  | "swap" => some .swap
  | _ => none

def Rel.ofString : String → Rel
  | "lt" => .lt | "le" => .le | "eq" => .eq | "ge" => .ge | "gt" => .gt | _ => .ne

def topolOf (s : String) : Topol := if s == "NNC" then .nnc else .c

/-- `key=value` tokens → arguments and a two-object pool (receiver at 0, argument at 1). -/
def parseCall (toks : List String) : Args × Pool :=
  let kv := toks.filterMap fun t => match t.splitOn "=" with
    | [k, v] => some (k, v)
    | _ => none
  let get (k : String) : String := (kv.lookup k).getD "0"
  let nat (k : String) : Nat := (get k).toNat?.getD 0
  let flag (k : String) : Bool := get k == "1"
  let a : Args := {
    recv := 0, arg := 1, atopol := topolOf (get "at"), adim := nat "adim", adim2 := nat "adim2",
    strict := flag "strict", closurePoint := flag "cp", hasPoint := flag "haspoint", emptyGs := flag "emptygs",
    notClosed := flag "notclosed", denomZero := flag "denom0", vdim := nat "vdim", rel := Rel.ofString (get "rel"),
    overflow := flag "overflow", destInVars := flag "destin", proper := flag "proper" }
  let pool : Pool := [⟨topolOf (get "rt"), nat "rdim", flag "rempty"⟩, ⟨topolOf (get "yt"), nat "ydim", flag "yempty"⟩]
  (a, pool)

/-- The exception class the model expects for a journalled call (`"none"` = accepted). -/
def expected (op : Op) (toks : List String) : String :=
  let (a, pool) := parseCall toks
  match precond op a pool with
  | .error e => e.name
  | .ok () => "none"

end PPLV.Alloc
