import PPLV.Alloc.ProofsRows

/-! # C14 — MIP_Problem::add_constraint_helper, constructors; Swapping_Vector growth -/

namespace PPLV.Alloc

/-- Ownership of a constraint sequence: its buffer (if any) and the pointees. -/
def CSeq.blocks (s : CSeq) : List Nat := s.ptrs ++ s.buf.toList

structure SeqInv (s : CSeq) : Prop where
  nd : s.blocks.Nodup

theorem mipReserve_spec {base L h s thr0 s0 h0} (t : Tracks base L s.blocks h) (inv : SeqInv s)
    (e0 : mipReserve s h = (thr0, s0, h0)) :
    Tracks base L s0.blocks h0 ∧ SeqInv s0 ∧ s0.ptrs = s.ptrs := by
  unfold mipReserve at e0
  split at e0
  · split at e0
    · rename_i h1' ha
      cases e0
      exact ⟨t.alloc_none ha, inv, rfl⟩
    · rename_i nb h1' ha
      cases e0
      obtain ⟨t1, hnb, _⟩ := t.alloc_some ha
      cases hb : s.buf with
      | none =>
        simp only [CSeq.blocks, hb, Option.toList, Heap.freeOpt, List.append_nil] at t1 hnb ⊢
        refine ⟨t1.congr (by intro c; simp [or_comm]), ⟨?_⟩, trivial⟩
        simp only [CSeq.blocks, Option.toList]
        have := inv.nd
        simp only [CSeq.blocks, hb, Option.toList, List.append_nil] at this
        rw [List.nodup_append]
        refine ⟨this, by simp, ?_⟩
        intro a ha' b hb'; simp at hb'; subst hb'
        intro e; subst e; exact hnb ha'
      | some ob =>
        simp only [CSeq.blocks, hb, Option.toList] at t1 hnb ⊢
        have ndb := inv.nd
        simp only [CSeq.blocks, hb, Option.toList] at ndb
        rw [List.nodup_append] at ndb
        refine ⟨?_, ⟨?_⟩, trivial⟩
        · rw [freeOpt_some_eq]
          apply Tracks.release [ob] t1 (by simp)
          · intro c; simp only [List.mem_cons, List.mem_append, List.not_mem_nil, or_false]
            constructor
            · rintro (h2 | h2 | h2)
              · exact Or.inr (Or.inr h2)
              · exact Or.inr (Or.inl h2)
              · exact Or.inl h2
            · rintro (h2 | h2 | h2)
              · exact Or.inr (Or.inr h2)
              · exact Or.inr (Or.inl h2)
              · exact Or.inl h2
          · intro c hc; simp at hc; subst hc
            simp only [List.mem_append, List.mem_singleton, not_or]
            refine ⟨fun hm => ndb.2.2 c hm c (by simp) rfl, ?_⟩
            intro e; apply hnb; rw [← e]; simp
        · simp only [CSeq.blocks, Option.toList]
          rw [List.nodup_append]
          refine ⟨ndb.1, by simp, ?_⟩
          intro a ha' b hb'; simp at hb'; subst hb'
          intro e; subst e; exact hnb (List.mem_append_left _ ha')
  · cases e0; exact ⟨t, inv, rfl⟩

theorem mipHelper_spec {base L h s thr s1 h1} (t : Tracks base L s.blocks h) (inv : SeqInv s)
    (e : mipHelper s h = (thr, s1, h1)) :
    Tracks base L s1.blocks h1 ∧ SeqInv s1 ∧ (thr = true → s1.ptrs = s.ptrs) := by
  unfold mipHelper at e
  split at e
  · rename_i s0 h0 hr
    cases e
    obtain ⟨t1, inv1, hp⟩ := mipReserve_spec t inv hr
    exact ⟨t1, inv1, fun _ => hp⟩
  · rename_i s0 h0 hr
    obtain ⟨t1, inv1, hp⟩ := mipReserve_spec t inv hr
    split at e
    · rename_i h2 ha
      cases e
      exact ⟨t1.alloc_none ha, inv1, fun _ => hp⟩
    · rename_i p h2 ha
      cases e
      obtain ⟨t2, hp2, _⟩ := t1.alloc_some ha
      refine ⟨t2.congr ?_, ⟨?_⟩, fun hf => by cases hf⟩
      · intro c; simp only [CSeq.blocks, List.mem_cons, List.mem_append, List.not_mem_nil, or_false]
        constructor
        · rintro (h3 | h3 | h3)
          · exact Or.inl (Or.inr h3)
          · exact Or.inl (Or.inl h3)
          · exact Or.inr h3
        · rintro ((h3 | h3) | h3)
          · exact Or.inr (Or.inl h3)
          · exact Or.inl h3
          · exact Or.inr (Or.inr h3)
      · have nd0 := inv1.nd
        simp only [CSeq.blocks] at nd0 hp2 ⊢
        rw [List.nodup_append] at nd0 ⊢
        refine ⟨?_, nd0.2.1, ?_⟩
        · rw [List.nodup_append]
          refine ⟨nd0.1, by simp, ?_⟩
          intro a ha' b hb'; simp at hb'; subst hb'
          intro e; subst e; exact hp2 (List.mem_append_left _ ha')
        · intro a ha' b hb'
          rcases List.mem_append.mp ha' with h3 | h3
          · exact nd0.2.2 a h3 b hb'
          · simp at h3; subst h3
            intro e; subst e; exact hp2 (List.mem_append_right _ hb')

/-- `~MIP_Problem()` releases everything the sequence owns. -/
theorem mipDestroy_spec {base L h s} (t : Tracks base L s.blocks h) (inv : SeqInv s) :
    Tracks base L [] (mipDestroy s h) := by
  unfold mipDestroy
  cases hb : s.buf with
  | none =>
    simp only [Heap.freeOpt]
    have nd := inv.nd
    simp only [CSeq.blocks, hb, Option.toList, List.append_nil] at t nd
    exact Tracks.release _ t nd (by intro b; simp) (by simp)
  | some ob =>
    rw [freeOpt_some_eq, freeAll_append]
    have nd := inv.nd
    simp only [CSeq.blocks, hb, Option.toList] at t nd
    exact Tracks.release _ t nd (by intro b; simp) (by simp)

theorem helperLoop_spec {base L} : ∀ (n : Nat) (s : CSeq) (h : Heap) (thr s1 h1),
    Tracks base L s.blocks h → SeqInv s → helperLoop n s h = (thr, s1, h1) →
    Tracks base L s1.blocks h1 ∧ SeqInv s1 := by
  intro n
  induction n with
  | zero => intro s h thr s1 h1 t inv e; simp [helperLoop] at e; obtain ⟨_, e2, e3⟩ := e; subst e2 e3; exact ⟨t, inv⟩
  | succ n ih =>
    intro s h thr s1 h1 t inv e
    unfold helperLoop at e
    split at e
    · rename_i s' h' hh
      cases e
      obtain ⟨t1, inv1, _⟩ := mipHelper_spec t inv hh
      exact ⟨t1, inv1⟩
    · rename_i s' h' hh
      obtain ⟨t1, inv1, _⟩ := mipHelper_spec t inv hh
      exact ih _ _ _ _ _ t1 inv1 e

theorem emptySeq_inv : SeqInv { buf := none, cap := 0, ptrs := [] } := ⟨by simp [CSeq.blocks]⟩

/-- `add_constraint` on a live problem: clean for every fault position. -/
theorem mipAdd_clean {base L h} (m cap : Nat) (t : Tracks base L [] h) :
    Clean L (mipAdd (buildSeq m cap h).1 (buildSeq m cap h).2) := by
  have hb : Tracks base L (buildSeq m cap h).1.blocks (buildSeq m cap h).2 ∧ SeqInv (buildSeq m cap h).1 := by
    by_cases hc : cap = 0
    · simp only [buildSeq, hc, if_true]; exact ⟨by simpa [CSeq.blocks] using t, emptySeq_inv⟩
    · obtain ⟨v, es, ev, ees, t1, nd, hne, _⟩ := buildParts_spec m cap t hc
      simp only [buildSeq, hc, if_false, ev, ees, CSeq.blocks, Option.toList]
      refine ⟨t1, ⟨?_⟩⟩
      simp only [CSeq.blocks, Option.toList]
      rw [List.nodup_append]
      exact ⟨nd, by simp, by intro a ha b hb; simp at hb; subst hb; exact hne a ha⟩
  unfold mipAdd
  split
  rename_i thr s1 h1 hh
  obtain ⟨t1, inv1, _⟩ := mipHelper_spec hb.1 hb.2 hh
  exact Clean.of (mipDestroy_spec t1 inv1) _ _

/-- The constructor with a destructor-like handler is clean for every `n` and `k`. -/
theorem mipCtor_clean {base L h} (n : Nat) (t : Tracks base L [] h) : Clean L (mipCtor n h) := by
  unfold mipCtor
  have key : ∀ thr s h1, helperLoop n { buf := none, cap := 0, ptrs := [] } h = (thr, s, h1) →
      Tracks base L [] (mipDestroy s h1) := by
    intro thr s h1 hl
    obtain ⟨t1, inv1⟩ := helperLoop_spec n _ h thr s h1 (by simpa [CSeq.blocks] using t) emptySeq_inv hl
    exact mipDestroy_spec t1 inv1
  split
  · rename_i s h1 hl; exact Clean.of (key _ _ _ hl) _ _
  · rename_i s h1 hl; exact Clean.of (key _ _ _ hl) _ _

/-- The constructor as written is clean when it does not throw. -/
theorem mipCtorAsWritten_clean_of_not_thrown {base L h} (n : Nat) (t : Tracks base L [] h)
    (hnt : (mipCtorAsWritten n h).thrown = false) : Clean L (mipCtorAsWritten n h) := by
  unfold mipCtorAsWritten at hnt ⊢
  split
  · rename_i s h1 hl
    simp only [hl, Outcome.ofHeap] at hnt; cases hnt
  · rename_i s h1 hl
    obtain ⟨t1, inv1⟩ := helperLoop_spec n _ h false s h1 (by simpa [CSeq.blocks] using t) emptySeq_inv hl
    exact Clean.of (mipDestroy_spec t1 inv1) _ _

theorem mipCopyAsWritten_clean_of_not_thrown {base L h} (n : Nat) (t : Tracks base L [] h)
    (hnt : (mipCopyAsWritten n h).thrown = false) : Clean L (mipCopyAsWritten n h) := by
  unfold mipCopyAsWritten at hnt ⊢
  by_cases hn : n = 0
  · simp only [hn, if_true]; exact Clean.of t _ _
  · simp only [hn, if_false] at hnt ⊢
    split
    · rename_i h1 ha
      simp only [ha, Outcome.ofHeap] at hnt; cases hnt
    · rename_i b h1 ha
      simp only [ha] at hnt
      obtain ⟨t1, _, _⟩ := t.alloc_some ha
      have inv0 : SeqInv { buf := some b, cap := n, ptrs := [] } := ⟨by simp [CSeq.blocks]⟩
      split
      · rename_i s1 h2 hl
        simp only [hl, Outcome.ofHeap] at hnt; cases hnt
      · rename_i s1 h2 hl
        obtain ⟨t2, inv2⟩ := helperLoop_spec n _ h1 false s1 h2 (by simpa [CSeq.blocks] using t1) inv0 hl
        exact Clean.of (mipDestroy_spec t2 inv2) _ _

end PPLV.Alloc

namespace PPLV.Alloc

/-- Repaired copy constructor: clean for every `n` and `k`. -/
theorem mipCopy_clean {base L h} (n : Nat) (t : Tracks base L [] h) : Clean L (mipCopy n h) := by
  unfold mipCopy
  by_cases hn : n = 0
  · simp only [hn, if_true]; exact Clean.of t _ _
  · simp only [hn, if_false]
    split
    · rename_i h1 ha
      exact Clean.of (t.alloc_none ha) _ _
    · rename_i b h1 ha
      obtain ⟨t1, _, _⟩ := t.alloc_some ha
      have inv0 : SeqInv { buf := some b, cap := n, ptrs := [] } := ⟨by simp [CSeq.blocks]⟩
      have key : ∀ thr s h2, helperLoop n { buf := some b, cap := n, ptrs := [] } h1 = (thr, s, h2) →
          Tracks base L [] (mipDestroy s h2) := by
        intro thr s h2 hl
        obtain ⟨t2, inv2⟩ := helperLoop_spec n _ h1 thr s h2 (by simpa [CSeq.blocks] using t1) inv0 hl
        exact mipDestroy_spec t2 inv2
      split
      · rename_i s1 h2 hl; exact Clean.of (key _ _ _ hl) _ _
      · rename_i s1 h2 hl; exact Clean.of (key _ _ _ hl) _ _

end PPLV.Alloc
