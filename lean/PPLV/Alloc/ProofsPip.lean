import PPLV.Alloc.ProofsVec

/-! # C14 — the `Safe_Ptr` guard in the copy constructor of `PIP_Decision_Node` -/

namespace PPLV.Alloc

def PBlocks.blocks : PBlocks → List Nat
  | .null => []
  | .sol s c => [c, s]
  | .dec s c f t => f.blocks ++ t.blocks ++ [c, s]

theorem pDelete_spec {base L} : ∀ (b : PBlocks) (X : List Nat) (h : Heap),
    Tracks base L (b.blocks ++ X) h → b.blocks.Nodup → (∀ x ∈ b.blocks, x ∉ X) →
    Tracks base L X (pDelete b h) := by
  intro b
  induction b with
  | null => intro X h t _ _; simpa [pDelete, PBlocks.blocks] using t
  | sol s c =>
    intro X h t nd dis
    simp only [pDelete, free_eq, freeAll_append]
    exact Tracks.release _ t (by simpa [PBlocks.blocks] using nd) (by intro b; simp [PBlocks.blocks, or_assoc]) (by simpa [PBlocks.blocks] using dis)
  | dec s c f t ihf iht =>
    intro X h tr nd dis
    simp only [PBlocks.blocks] at tr nd dis
    rw [List.nodup_append, List.nodup_append] at nd
    obtain ⟨⟨ndf, ndt, dft⟩, ndcs, dcs⟩ := nd
    simp only [pDelete, free_eq, freeAll_append]
    -- delete the false child: everything else stays owned
    have t1 := ihf (t.blocks ++ [c, s] ++ X) h (tr.congr (by intro b; simp [List.append_assoc])) ndf (by
      intro x hx
      simp only [List.mem_append, not_or]
      refine ⟨⟨fun hm => dft x hx x hm rfl, fun hm => dcs x (List.mem_append_left _ hx) x hm rfl⟩, dis x (by simp [hx])⟩)
    have t2 := iht ([c, s] ++ X) _ (t1.congr (by intro b; simp [List.append_assoc])) ndt (by
      intro x hx
      simp only [List.mem_append, not_or]
      exact ⟨fun hm => dcs x (List.mem_append_right _ hx) x hm rfl, dis x (by simp [hx])⟩)
    exact Tracks.release _ t2 ndcs (by intro b; simp [or_assoc]) (by intro x hx; exact dis x (by simp at hx ⊢; rcases hx with h1 | h1 <;> simp [h1]))

/-- With the guard, a clone either throws and owns nothing, or returns a subtree whose blocks are
distinct, fresh and owned. -/
theorem pClone_spec {base L} : ∀ (n : PNode) (X : List Nat) (h : Heap) (r : Option PBlocks) (h' : Heap),
    Tracks base L X h → pClone true n h = (r, h') →
    match r with
    | none => Tracks base L X h'
    | some b => Tracks base L (b.blocks ++ X) h' ∧ b.blocks.Nodup ∧ (∀ x ∈ b.blocks, x ∉ X) := by
  intro n
  induction n with
  | null =>
    intro X h r h' t e
    simp [pClone] at e; obtain ⟨e1, e2⟩ := e; subst e1 e2
    exact ⟨by simpa [PBlocks.blocks] using t, by simp [PBlocks.blocks], by simp [PBlocks.blocks]⟩
  | sol =>
    intro X h r h' t e
    unfold pClone at e
    split at e
    · rename_i h1 ha; cases e; exact t.alloc_none ha
    · rename_i s h1 ha
      obtain ⟨t1, hs, _⟩ := t.alloc_some ha
      split at e
      · rename_i h2 hb; cases e
        rw [free_eq]
        exact Tracks.release [s] (t1.alloc_none hb) (by simp) (by intro b; simp) (by intro b hb'; simp at hb'; subst hb'; exact hs)
      · rename_i c h2 hb; cases e
        obtain ⟨t2, hc, _⟩ := t1.alloc_some hb
        simp only [List.mem_cons, not_or] at hc
        refine ⟨by simpa [PBlocks.blocks] using t2, ?_, ?_⟩
        · simp [PBlocks.blocks, hc.1]
        · intro x hx; simp [PBlocks.blocks] at hx
          rcases hx with h3 | h3
          · subst h3; exact hc.2
          · subst h3; exact hs
  | dec f t ihf iht =>
    intro X h r h' tr e
    unfold pClone at e
    split at e
    · rename_i h1 ha; cases e; exact tr.alloc_none ha
    · rename_i s h1 ha
      obtain ⟨t1, hs, _⟩ := tr.alloc_some ha
      split at e
      · rename_i h2 hb; cases e
        rw [free_eq]
        exact Tracks.release [s] (t1.alloc_none hb) (by simp) (by intro b; simp) (by intro b hb'; simp at hb'; subst hb'; exact hs)
      · rename_i c h2 hb
        obtain ⟨t2, hc, _⟩ := t1.alloc_some hb
        simp only [List.mem_cons, not_or] at hc
        have relcs : ∀ {h5 : Heap}, Tracks base L (c :: s :: X) h5 → Tracks base L X ((h5.free c).free s) := by
          intro h5 t5
          simp only [free_eq, freeAll_append]
          exact Tracks.release [c, s] t5 (by simp [hc.1]) (by intro b; simp [or_assoc]) (by
            intro b hb'; simp at hb'; rcases hb' with h3 | h3
            · subst h3; exact hc.2
            · subst h3; exact hs)
        split at e
        · rename_i h3 hf; cases e
          exact relcs (ihf _ _ _ _ t2 hf)
        · rename_i fb h3 hf
          obtain ⟨t3, ndf, disf⟩ := ihf _ _ _ _ t2 hf
          split at e
          · rename_i h4 ht; cases e
            have t4 := iht _ _ _ _ t3 ht
            simp only [if_true]
            exact relcs (pDelete_spec fb _ _ t4 ndf disf)
          · rename_i tb h4 ht; cases e
            obtain ⟨t4, ndt, dist⟩ := iht _ _ _ _ t3 ht
            refine ⟨t4.congr ?_, ?_, ?_⟩
            · intro b; simp only [PBlocks.blocks, List.mem_append, List.mem_cons, List.not_mem_nil, or_false]
              constructor
              · rintro (h5 | h5 | h5 | h5 | h5)
                · exact Or.inl (Or.inl (Or.inr h5))
                · exact Or.inl (Or.inl (Or.inl h5))
                · exact Or.inl (Or.inr (Or.inl h5))
                · exact Or.inl (Or.inr (Or.inr h5))
                · exact Or.inr h5
              · rintro (((h5 | h5) | h5 | h5) | h5)
                · exact Or.inr (Or.inl h5)
                · exact Or.inl h5
                · exact Or.inr (Or.inr (Or.inl h5))
                · exact Or.inr (Or.inr (Or.inr (Or.inl h5)))
                · exact Or.inr (Or.inr (Or.inr (Or.inr h5)))
            · simp only [PBlocks.blocks]
              rw [List.nodup_append, List.nodup_append]
              refine ⟨⟨ndf, ndt, ?_⟩, by simp [hc.1], ?_⟩
              · intro a ha' b hb' e'; subst e'
                exact dist a hb' (List.mem_append_left _ ha')
              · intro a ha' b hb' e'; subst e'
                simp at hb'
                rcases List.mem_append.mp ha' with h5 | h5
                · have := disf a h5; simp only [List.mem_cons, not_or] at this
                  rcases hb' with h6 | h6
                  · exact this.1 h6
                  · exact this.2.1 h6
                · have := dist a h5; simp only [List.mem_append, List.mem_cons, not_or] at this
                  rcases hb' with h6 | h6
                  · exact this.2.1 h6
                  · exact this.2.2.1 h6
            · intro x hx
              simp only [PBlocks.blocks, List.mem_append, List.mem_cons, List.not_mem_nil, or_false] at hx
              rcases hx with (h5 | h5) | h5 | h5
              · have := disf x h5; simp only [List.mem_cons, not_or] at this; exact this.2.2
              · have := dist x h5; simp only [List.mem_append, List.mem_cons, not_or] at this; exact this.2.2.2
              · subst h5; exact hc.2
              · subst h5; exact hs

/-- Cloning a solution tree with the guard never leaks, wherever the fault is. -/
theorem pipClone_clean {base L h} (n : PNode) (t : Tracks base L [] h) : Clean L (pipClone true n h) := by
  unfold pipClone
  split
  · rename_i h1 hc
    have := pClone_spec n [] h none h1 t hc
    exact Clean.of this _ _
  · rename_i b h1 hc
    obtain ⟨t1, nd, dis⟩ := pClone_spec n [] h (some b) h1 t hc
    exact Clean.of (pDelete_spec b [] h1 t1 nd dis) _ _

end PPLV.Alloc
