import PPLV.Alloc.ProofsSeq

/-! # C14 — Swapping_Vector growth -/

namespace PPLV.Alloc

def SVec.blocks (v : SVec) : List Nat := v.elems ++ v.buf.toList

theorem defaultN_spec {base L} : ∀ (n : Nat) (acc X : List Nat) (h : Heap) (thr fr h'),
    Tracks base L (acc ++ X) h → acc.Nodup → (∀ b ∈ acc, b ∉ X) → defaultN n acc h = (thr, fr, h') →
    (thr = true ∧ Tracks base L X h') ∨
    (thr = false ∧ Tracks base L (fr ++ X) h' ∧ fr.Nodup ∧ (∀ b ∈ fr, b ∉ X)) := by
  intro n
  induction n with
  | zero =>
    intro acc X h thr fr h' t nd dis e
    simp [defaultN] at e; obtain ⟨e1, e2, e3⟩ := e; subst e1 e2 e3
    exact Or.inr ⟨rfl, t, nd, dis⟩
  | succ n ih =>
    intro acc X h thr fr h' t nd dis e
    unfold defaultN at e
    split at e
    · rename_i h1 ha
      cases e
      exact Or.inl ⟨rfl, Tracks.release acc (t.alloc_none ha) nd (by intro b; simp) dis⟩
    · rename_i b h1 ha
      obtain ⟨t1, hb, _⟩ := t.alloc_some ha
      have hb' : b ∉ acc ∧ b ∉ X := by
        simp only [List.mem_append, not_or] at hb; exact hb
      apply ih (acc ++ [b]) X h1 thr fr h' (t1.congr ?_) ?_ ?_ e
      · intro c; simp only [List.mem_cons, List.mem_append, List.not_mem_nil, or_false]
        constructor
        · rintro (h2 | h2 | h2)
          · exact Or.inl (Or.inr h2)
          · exact Or.inl (Or.inl h2)
          · exact Or.inr h2
        · rintro ((h2 | h2) | h2)
          · exact Or.inr (Or.inl h2)
          · exact Or.inl h2
          · exact Or.inr (Or.inr h2)
      · rw [List.nodup_append]
        exact ⟨nd, by simp, by intro a ha' c hc; simp at hc; subst hc; intro e'; subst e'; exact hb'.1 ha'⟩
      · intro c hc
        rcases List.mem_append.mp hc with h2 | h2
        · exact dis c h2
        · simp at h2; subst h2; exact hb'.2

structure VecInv (v : SVec) : Prop where
  nd : v.blocks.Nodup

theorem svecReserve_spec {base L h v newCap thr v1 h1} (t : Tracks base L v.blocks h) (inv : VecInv v)
    (e : svecReserve v newCap h = (thr, v1, h1)) :
    Tracks base L v1.blocks h1 ∧ VecInv v1 := by
  unfold svecReserve at e
  split at e
  · cases e; exact ⟨t, inv⟩
  · split at e
    · rename_i h2 ha
      cases e; exact ⟨t.alloc_none ha, inv⟩
    · rename_i nb h2 ha
      obtain ⟨t1, hnb, _⟩ := t.alloc_some ha
      -- view the owned set as  [] ++ (nb :: v.blocks)
      have t1' : Tracks base L ([] ++ (nb :: v.blocks)) h2 := by simpa using t1
      split at e
      · rename_i fr h3 hd
        cases e
        rcases defaultN_spec _ [] _ h2 true fr h3 t1' List.nodup_nil (by simp) hd with ⟨_, t2⟩ | ⟨hf, _⟩
        · refine ⟨?_, inv⟩
          rw [free_eq]
          exact Tracks.release [nb] t2 (by simp) (by intro b; simp) (by intro b hb; simp at hb; subst hb; exact hnb)
        · cases hf
      · rename_i fr h3 hd
        cases e
        rcases defaultN_spec _ [] _ h2 false fr h3 t1' List.nodup_nil (by simp) hd with ⟨hf, _⟩ | ⟨_, t2, ndf, disf⟩
        · cases hf
        · have ndv := inv.nd
          cases hb : v.buf with
          | none =>
            simp only [SVec.blocks, hb, Option.toList, List.append_nil, Heap.freeOpt] at t2 disf ndv hnb ⊢
            refine ⟨Tracks.release fr t2 ndf ?_ ?_, ⟨?_⟩⟩
            · intro b; simp only [List.mem_append, List.mem_cons, List.not_mem_nil, or_false]
              constructor
              · rintro (h4 | h4 | h4)
                · exact Or.inl h4
                · exact Or.inr (Or.inr h4)
                · exact Or.inr (Or.inl h4)
              · rintro (h4 | h4 | h4)
                · exact Or.inl h4
                · exact Or.inr (Or.inr h4)
                · exact Or.inr (Or.inl h4)
            · intro b hb'; have := disf b hb'
              simp only [List.mem_cons, not_or] at this
              simp only [List.mem_append, List.mem_cons, List.not_mem_nil, or_false, not_or]
              exact ⟨this.2, this.1⟩
            · simp only [SVec.blocks, Option.toList]
              rw [List.nodup_append]
              exact ⟨ndv, by simp, by intro a ha' c hc; simp at hc; subst hc; intro e'; subst e'; exact hnb ha'⟩
          | some ob =>
            simp only [SVec.blocks, hb, Option.toList] at t2 disf ndv hnb ⊢
            rw [List.nodup_append] at ndv
            rw [freeOpt_some_eq, freeAll_append]
            have hob : ob ∉ fr := by
              intro hm; have := disf ob hm; simp at this
            refine ⟨Tracks.release (fr ++ [ob]) t2 ?_ ?_ ?_, ⟨?_⟩⟩
            · rw [List.nodup_append]
              exact ⟨ndf, by simp, by intro a ha' c hc; simp at hc; subst hc; intro e'; subst e'; exact hob ha'⟩
            · intro b; simp only [List.mem_append, List.mem_cons, List.not_mem_nil, or_false]
              constructor
              · rintro (h4 | h4 | h4 | h4)
                · exact Or.inl (Or.inl h4)
                · exact Or.inr (Or.inr h4)
                · exact Or.inr (Or.inl h4)
                · exact Or.inl (Or.inr h4)
              · rintro ((h4 | h4) | h4 | h4)
                · exact Or.inl h4
                · exact Or.inr (Or.inr (Or.inr h4))
                · exact Or.inr (Or.inr (Or.inl h4))
                · exact Or.inr (Or.inl h4)
            · intro b hb'
              simp only [List.mem_append, List.mem_cons, List.not_mem_nil, or_false, not_or]
              rcases List.mem_append.mp hb' with h4 | h4
              · have := disf b h4
                simp only [List.mem_cons, List.mem_append, List.not_mem_nil, or_false, not_or] at this
                exact ⟨this.2.1, this.1⟩
              · simp at h4; subst h4
                refine ⟨fun hm => ndv.2.2 b hm b (by simp) rfl, ?_⟩
                intro e'; apply hnb; rw [← e']; simp
            · simp only [SVec.blocks, Option.toList]
              rw [List.nodup_append]
              exact ⟨ndv.1, by simp, by intro a ha' c hc; simp at hc; subst hc; intro e'; subst e'; exact hnb (List.mem_append_left _ ha')⟩

theorem svecDestroy_spec {base L h v} (t : Tracks base L v.blocks h) (inv : VecInv v) :
    Tracks base L [] (svecDestroy v h) := by
  unfold svecDestroy
  cases hb : v.buf with
  | none =>
    simp only [Heap.freeOpt]
    have nd := inv.nd
    simp only [SVec.blocks, hb, Option.toList, List.append_nil] at t nd
    exact Tracks.release _ t nd (by intro b; simp) (by simp)
  | some ob =>
    rw [freeOpt_some_eq, freeAll_append]
    have nd := inv.nd
    simp only [SVec.blocks, hb, Option.toList] at t nd
    exact Tracks.release _ t nd (by intro b; simp) (by simp)

/-- `Swapping_Vector::push_back` on a live vector: clean for every fault position. -/
theorem svecPush_clean {base L h} (m cap : Nat) (t : Tracks base L [] h) :
    Clean L (svecPush (buildVec m cap h).1 (buildVec m cap h).2) := by
  have hb : Tracks base L (buildVec m cap h).1.blocks (buildVec m cap h).2 ∧ VecInv (buildVec m cap h).1 := by
    by_cases hc : cap = 0
    · simp only [buildVec, hc, if_true]; exact ⟨by simpa [SVec.blocks] using t, ⟨by simp [SVec.blocks]⟩⟩
    · obtain ⟨v, es, ev, ees, t1, nd, hne, _⟩ := buildParts_spec m cap t hc
      simp only [buildVec, hc, if_false, ev, ees, SVec.blocks, Option.toList]
      refine ⟨t1, ⟨?_⟩⟩
      simp only [SVec.blocks, Option.toList]
      rw [List.nodup_append]
      exact ⟨nd, by simp, by intro a ha b hb; simp at hb; subst hb; exact hne a ha⟩
  unfold svecPush
  simp only
  split
  · rename_i v1 h1 hr
    obtain ⟨t1, inv1⟩ := svecReserve_spec hb.1 hb.2 hr
    exact Clean.of (svecDestroy_spec t1 inv1) _ _
  · rename_i v1 h1 hr
    obtain ⟨t1, inv1⟩ := svecReserve_spec hb.1 hb.2 hr
    split
    · rename_i h2 ha
      exact Clean.of (svecDestroy_spec (t1.alloc_none ha) inv1) _ _
    · rename_i b h2 ha
      obtain ⟨t2, hb2, _⟩ := t1.alloc_some ha
      refine Clean.of (svecDestroy_spec (v := { v1 with elems := v1.elems ++ [b] }) (t2.congr ?_) ⟨?_⟩) _ _
      · intro c; simp only [SVec.blocks, List.mem_cons, List.mem_append, List.not_mem_nil, or_false]
        constructor
        · rintro (h3 | h3 | h3)
          · exact Or.inl (Or.inr h3)
          · exact Or.inl (Or.inl h3)
          · exact Or.inr h3
        · rintro ((h3 | h3) | h3)
          · exact Or.inr (Or.inl h3)
          · exact Or.inl h3
          · exact Or.inr (Or.inr h3)
      · have nd0 := inv1.nd
        simp only [SVec.blocks] at nd0 hb2 ⊢
        rw [List.nodup_append] at nd0 ⊢
        refine ⟨?_, nd0.2.1, ?_⟩
        · rw [List.nodup_append]
          refine ⟨nd0.1, by simp, ?_⟩
          intro a ha' c hc; simp at hc; subst hc
          intro e; subst e; exact hb2 (List.mem_append_left _ ha')
        · intro a ha' c hc
          rcases List.mem_append.mp ha' with h3 | h3
          · exact nd0.2.2 a h3 c hc
          · simp at h3; subst h3
            intro e; subst e; exact hb2 (List.mem_append_right _ hc)

end PPLV.Alloc
