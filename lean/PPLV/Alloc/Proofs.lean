import PPLV.Alloc.Model

/-!
# C14 — lemmas about the heap and ownership tracking

`Tracks base L X h`: relative to a starting heap whose blocks are all `< base` and whose live list
was `L`, the heap `h` still has exactly the old blocks `L` (in order), and the blocks `≥ base` that
are live are exactly those of the list `X` (the blocks the running protocol owns); no free of a
dead block has happened.  Allocation adds to `X`, a free of an owned block removes from `X`, and
when `X` is empty again the live list is `L`.
-/

namespace PPLV.Alloc

def Heap.WF (h : Heap) : Prop := ∀ b ∈ h.live, b < h.next

structure Tracks (base : Nat) (L X : List Nat) (h : Heap) : Prop where
  old : h.live.filter (fun b => decide (b < base)) = L
  new : ∀ b, base ≤ b → (b ∈ h.live ↔ b ∈ X)
  fresh : ∀ b ∈ X, base ≤ b ∧ b < h.next
  le : base ≤ h.next
  bad : h.bad = 0

theorem Tracks.start {h : Heap} (wf : h.WF) (hb : h.bad = 0) : Tracks h.next h.live [] h := by
  refine ⟨?_, ?_, ?_, Nat.le_refl _, hb⟩
  · apply List.filter_eq_self.mpr
    intro b hb'; simpa using wf b hb'
  · intro b hle; constructor
    · intro hm; have := wf b hm; omega
    · intro hm; cases hm
  · intro b hm; cases hm

theorem Tracks.done {base L h} (t : Tracks base L [] h) : h.live = L := by
  rw [← t.old]; symm
  apply List.filter_eq_self.mpr
  intro b hb
  by_cases hlt : b < base
  · simpa using hlt
  · have := (t.new b (by omega)).mp hb; cases this

theorem Tracks.congr {base L X Y h} (t : Tracks base L X h) (e : ∀ b, b ∈ X ↔ b ∈ Y) :
    Tracks base L Y h :=
  ⟨t.old, fun b hb => (t.new b hb).trans (e b), fun b hb => t.fresh b ((e b).mpr hb), t.le, t.bad⟩

theorem alloc_none_eq {h h' : Heap} (e : h.alloc = (none, h')) :
    h'.live = h.live ∧ h'.next = h.next ∧ h'.bad = h.bad := by
  unfold Heap.alloc at e
  split at e
  · cases e; exact ⟨rfl, rfl, rfl⟩
  · cases e

theorem alloc_some_eq {h h' : Heap} {b : Nat} (e : h.alloc = (some b, h')) :
    b = h.next ∧ h'.live = b :: h.live ∧ h'.next = h.next + 1 ∧ h'.bad = h.bad := by
  unfold Heap.alloc at e
  split at e
  · cases e
  · cases e; exact ⟨rfl, rfl, rfl, rfl⟩

theorem Tracks.alloc_none {base L X h h'} (t : Tracks base L X h) (e : h.alloc = (none, h')) :
    Tracks base L X h' := by
  obtain ⟨hl, hn, hb⟩ := alloc_none_eq e
  exact ⟨by rw [hl]; exact t.old, by intro b hb'; rw [hl]; exact t.new b hb',
         by intro b hb'; rw [hn]; exact t.fresh b hb', by rw [hn]; exact t.le, by rw [hb]; exact t.bad⟩

theorem Tracks.alloc_some {base L X h h' b} (t : Tracks base L X h) (e : h.alloc = (some b, h')) :
    Tracks base L (b :: X) h' ∧ b ∉ X ∧ base ≤ b := by
  obtain ⟨hb, hl, hn, hbad⟩ := alloc_some_eq e
  have hle : base ≤ b := by rw [hb]; exact t.le
  have hnotin : b ∉ X := by
    intro hm; have := (t.fresh b hm).2; omega
  refine ⟨⟨?_, ?_, ?_, ?_, ?_⟩, hnotin, hle⟩
  · rw [hl, List.filter_cons]
    have : ¬ b < base := by omega
    simp [this, t.old]
  · intro c hc; rw [hl]; simp only [List.mem_cons]
    constructor
    · rintro (h1 | h1)
      · exact Or.inl h1
      · exact Or.inr ((t.new c hc).mp h1)
    · rintro (h1 | h1)
      · exact Or.inl h1
      · exact Or.inr ((t.new c hc).mpr h1)
  · intro c hc; rw [hn]
    rcases List.mem_cons.mp hc with h1 | h1
    · subst h1; omega
    · have := t.fresh c h1; omega
  · rw [hn]; have := t.le; omega
  · rw [hbad]; exact t.bad

theorem Tracks.free {base L X h b} (t : Tracks base L X h) (hm : b ∈ X) :
    Tracks base L (X.filter (· != b)) (h.free b) := by
  have hb := t.fresh b hm
  have hlive : b ∈ h.live := (t.new b hb.1).mpr hm
  refine ⟨?_, ?_, ?_, t.le, ?_⟩
  · show (h.live.filter (· != b)).filter _ = L
    rw [List.filter_filter, ← t.old]
    apply List.filter_congr
    intro c _
    by_cases hc : c < base
    · have : c ≠ b := by omega
      simp [hc, this]
    · simp [hc]
  · intro c hc
    show c ∈ h.live.filter (· != b) ↔ c ∈ X.filter (· != b)
    simp only [List.mem_filter]
    rw [t.new c hc]
  · intro c hc
    exact t.fresh c (List.mem_filter.mp hc).1
  · show (if h.live.contains b then h.bad else h.bad + 1) = 0
    have : h.live.contains b = true := by simpa using hlive
    rw [this]; exact t.bad

/-- Freeing a list of distinct owned blocks. -/
theorem Tracks.freeAll {base L h} : ∀ (fs X : List Nat), Tracks base L X h → fs.Nodup → (∀ b ∈ fs, b ∈ X) →
    Tracks base L (X.filter (fun b => !fs.contains b)) (h.freeAll fs) := by
  intro fs
  induction fs generalizing h with
  | nil => intro X t _ _; exact t.congr (by intro b; simp)
  | cons f fs ih =>
    intro X t nd sub
    have hf : f ∈ X := sub f (List.mem_cons_self ..)
    have t1 := t.free hf
    have nd' := (List.nodup_cons.mp nd)
    have := ih (h := h.free f) (X.filter (· != f)) t1 nd'.2 (by
      intro b hb
      refine List.mem_filter.mpr ⟨sub b (List.mem_cons_of_mem _ hb), ?_⟩
      have : b ≠ f := by intro e; subst e; exact nd'.1 hb
      simpa using this)
    have e : Heap.freeAll h (f :: fs) = Heap.freeAll (h.free f) fs := by simp [Heap.freeAll]
    rw [e]
    refine this.congr ?_
    intro b
    simp only [List.mem_filter, List.contains_cons, Bool.not_or, Bool.and_eq_true, bne_iff_ne, ne_eq,
      Bool.not_eq_true', beq_eq_false_iff_ne]
    constructor
    · rintro ⟨⟨h1, h2⟩, h3⟩; exact ⟨h1, h2, h3⟩
    · rintro ⟨h1, h2, h3⟩; exact ⟨⟨h1, h2⟩, h3⟩

theorem Tracks.freeOpt_some {base L X h b} (t : Tracks base L X h) (hm : b ∈ X) :
    Tracks base L (X.filter (· != b)) (h.freeOpt (some b)) := t.free hm

theorem Tracks.freeOpt_none {base L X h} (t : Tracks base L X h) : Tracks base L X (h.freeOpt none) := t

theorem start_WF (pre k : Nat) : (Heap.start pre k).WF := by
  intro b hb
  simp [Heap.start] at hb ⊢
  exact hb

theorem Tracks.ofStart (pre k : Nat) :
    Tracks pre (List.range pre).reverse [] (Heap.start pre k) :=
  Tracks.start (start_WF pre k) rfl

end PPLV.Alloc
