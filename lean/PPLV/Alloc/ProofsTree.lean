import PPLV.Alloc.Proofs

/-! # C14 — CO_Tree machines: `init`, `copy_data_from`, copy constructor, `operator=`, iterator constructor -/

namespace PPLV.Alloc

/-- What a sequential construction loop guarantees: the result list extends `acc` by fresh,
pairwise distinct blocks that are now owned. -/
structure LoopPost (base : Nat) (L X acc es : List Nat) (h' : Heap) : Prop where
  ex : ∃ new, es = acc ++ new ∧ Tracks base L (new ++ X) h' ∧ new.Nodup ∧ (∀ b ∈ new, b ∉ X)

theorem fillLoop_spec {base L} : ∀ (n : Nat) (acc X : List Nat) (h : Heap) (thr es h'),
    Tracks base L X h → fillLoop n acc h = (thr, es, h') →
    ∃ new, es = acc ++ new ∧ Tracks base L (new ++ X) h' ∧ new.Nodup ∧ (∀ b ∈ new, b ∉ X)
      ∧ (thr = false → new.length = n) := by
  intro n
  induction n with
  | zero =>
    intro acc X h thr es h' t e
    simp [fillLoop] at e
    obtain ⟨e1, e2, e3⟩ := e
    subst e1 e2 e3
    exact ⟨[], by simp, by simpa using t, List.nodup_nil, by simp, by simp⟩
  | succ n ih =>
    intro acc X h thr es h' t e
    unfold fillLoop at e
    split at e
    · rename_i h1 ha
      simp at e
      obtain ⟨e1, e2, e3⟩ := e
      subst e1 e2 e3
      exact ⟨[], by simp, by simpa using t.alloc_none ha, List.nodup_nil, by simp, by simp⟩
    · rename_i b h1 ha
      obtain ⟨t1, hb, _⟩ := t.alloc_some ha
      obtain ⟨new, e1, t2, nd, dis, len⟩ := ih (acc ++ [b]) (b :: X) h1 thr es h' t1 e
      refine ⟨b :: new, by simp [e1], t2.congr ?_, ?_, ?_, ?_⟩
      · intro c; simp only [List.mem_append, List.mem_cons]
        constructor
        · rintro (h2 | h2 | h2)
          · exact Or.inl (Or.inr h2)
          · exact Or.inl (Or.inl h2)
          · exact Or.inr h2
        · rintro ((h2 | h2) | h2)
          · exact Or.inr (Or.inl h2)
          · exact Or.inl h2
          · exact Or.inr (Or.inr h2)
      · refine List.nodup_cons.mpr ⟨?_, nd⟩
        intro hm; exact dis b hm (List.mem_cons_self ..)
      · intro c hc
        rcases List.mem_cons.mp hc with h2 | h2
        · subst h2; exact hb
        · intro hx; exact dis c h2 (List.mem_cons_of_mem _ hx)
      · intro ht; simp [len ht]

theorem copyLoop_spec {base L} : ∀ (xs : List Bool) (acc X : List Nat) (h : Heap) (thr es h'),
    Tracks base L X h → copyLoop xs acc h = (thr, es, h') →
    ∃ new, es = acc ++ new ∧ Tracks base L (new ++ X) h' ∧ new.Nodup ∧ (∀ b ∈ new, b ∉ X) := by
  intro xs
  induction xs with
  | nil =>
    intro acc X h thr es h' t e
    simp [copyLoop] at e
    obtain ⟨e1, e2, e3⟩ := e
    subst e1 e2 e3
    exact ⟨[], by simp, by simpa using t, List.nodup_nil, by simp⟩
  | cons u xs ih =>
    intro acc X h thr es h' t e
    cases u with
    | false => simp only [copyLoop] at e; exact ih acc X h thr es h' t e
    | true =>
      unfold copyLoop at e
      split at e
      · rename_i h1 ha
        simp at e
        obtain ⟨e1, e2, e3⟩ := e
        subst e1 e2 e3
        exact ⟨[], by simp, by simpa using t.alloc_none ha, List.nodup_nil, by simp⟩
      · rename_i b h1 ha
        obtain ⟨t1, hb, _⟩ := t.alloc_some ha
        obtain ⟨new, e1, t2, nd, dis⟩ := ih (acc ++ [b]) (b :: X) h1 thr es h' t1 e
        refine ⟨b :: new, by simp [e1], t2.congr ?_, ?_, ?_⟩
        · intro c; simp only [List.mem_append, List.mem_cons]
          constructor
          · rintro (h2 | h2 | h2)
            · exact Or.inl (Or.inr h2)
            · exact Or.inl (Or.inl h2)
            · exact Or.inr h2
          · rintro ((h2 | h2) | h2)
            · exact Or.inr (Or.inl h2)
            · exact Or.inl h2
            · exact Or.inr (Or.inr h2)
        · refine List.nodup_cons.mpr ⟨?_, nd⟩
          intro hm; exact dis b hm (List.mem_cons_self ..)
        · intro c hc
          rcases List.mem_cons.mp hc with h2 | h2
          · subst h2; exact hb
          · intro hx; exact dis c h2 (List.mem_cons_of_mem _ hx)

/-- `CO_Tree::init`: either it throws, owns nothing new and leaves the empty tree (with the cached
iterators untouched), or it returns a tree owning two fresh arrays. -/
theorem cotInit_spec {base L X h prev n thr tr h'} (t : Tracks base L X h)
    (e : cotInit prev n h = (thr, tr, h')) :
    (thr = true ∧ Tracks base L X h' ∧ tr = { Tree.empty with cached := prev }) ∨
    (thr = false ∧ n = 0 ∧ tr = Tree.empty ∧ h' = h) ∨
    (thr = false ∧ n ≠ 0 ∧ ∃ bi bd, tr = Tree.mk (some bi) (some bd) (reservedOf n) [] 0 (some bi) ∧ Tracks base L (bd :: bi :: X) h' ∧ bi ∉ X ∧ bd ∉ X ∧ bi ≠ bd) := by
  unfold cotInit at e
  split at e
  · rename_i hn
    simp at e; obtain ⟨e1, e2, e3⟩ := e; subst e1 e2 e3
    exact Or.inr (Or.inl ⟨rfl, hn, rfl, rfl⟩)
  · rename_i hn
    split at e
    · rename_i h1 ha
      simp at e; obtain ⟨e1, e2, e3⟩ := e; subst e1 e2 e3
      exact Or.inl ⟨rfl, t.alloc_none ha, rfl⟩
    · rename_i bi h1 ha
      obtain ⟨t1, hbi, _⟩ := t.alloc_some ha
      split at e
      · rename_i h2 hb
        simp at e; obtain ⟨e1, e2, e3⟩ := e; subst e1 e2 e3
        have t2 := (t1.alloc_none hb).free (List.mem_cons_self ..)
        refine Or.inl ⟨rfl, t2.congr ?_, rfl⟩
        intro c; simp only [List.mem_filter, List.mem_cons, bne_iff_ne, ne_eq]
        constructor
        · rintro ⟨h3 | h3, h4⟩
          · exact absurd h3 h4
          · exact h3
        · intro h3; exact ⟨Or.inr h3, by intro e; subst e; exact hbi h3⟩
      · rename_i bd h2 hb
        obtain ⟨t2, hbd, _⟩ := t1.alloc_some hb
        simp at e; obtain ⟨e1, e2, e3⟩ := e; subst e1 e2 e3
        refine Or.inr (Or.inr ⟨rfl, hn, bi, bd, rfl, t2, hbi, ?_, ?_⟩)
        · intro hx; exact hbd (List.mem_cons_of_mem _ hx)
        · intro e; subst e; exact hbd (List.mem_cons_self ..)

/-- Releasing everything a tree owns. -/
theorem release_tree {base L h} {es : List Nat} {bi bd : Nat} {X : List Nat}
    (t : Tracks base L (es ++ bd :: bi :: X) h) (nd : es.Nodup)
    (hes : ∀ b ∈ es, b ≠ bi ∧ b ≠ bd ∧ b ∉ X) (hbi : bi ∉ X) (hbd : bd ∉ X) (hne : bi ≠ bd) :
    Tracks base L X (((h.freeAll es).freeOpt (some bi)).freeOpt (some bd)) := by
  have t1 := Tracks.freeAll es _ t nd (by intro b hb; exact List.mem_append_left _ hb)
  have t2 := t1.freeOpt_some (b := bi) (by
    refine List.mem_filter.mpr ⟨by simp, ?_⟩
    have : bi ∉ es := fun hm => (hes bi hm).1 rfl
    simpa using this)
  have t3 := t2.freeOpt_some (b := bd) (by
    refine List.mem_filter.mpr ⟨List.mem_filter.mpr ⟨by simp, ?_⟩, by simpa using Ne.symm hne⟩
    have : bd ∉ es := fun hm => (hes bd hm).2.1 rfl
    simpa using this)
  refine t3.congr ?_
  intro c
  simp only [List.mem_filter, List.mem_append, List.mem_cons, bne_iff_ne, ne_eq, Bool.not_eq_true',
    List.contains_eq_mem, decide_eq_false_iff_not]
  constructor
  · rintro ⟨⟨⟨h1 | h1 | h1 | h1, h2⟩, h3⟩, h4⟩
    · exact absurd h1 h2
    · exact absurd h1 h4
    · exact absurd h1 h3
    · exact h1
  · intro h1
    refine ⟨⟨⟨Or.inr (Or.inr (Or.inr h1)), fun hm => (hes c hm).2.2 h1⟩, ?_⟩, ?_⟩
    · intro e; subst e; exact hbi h1
    · intro e; subst e; exact hbd h1

end PPLV.Alloc

namespace PPLV.Alloc

/-- General form of "no leak" for an outcome computed from a tracked heap. -/
structure Clean (L : List Nat) (o : Outcome) : Prop where
  live : o.live = L
  bad : o.bad = 0

theorem Clean.of {base L h} (t : Tracks base L [] h) (thr v : Bool) : Clean L (Outcome.ofHeap thr v h) :=
  ⟨t.done, t.bad⟩

/-- `copy_data_from` on a freshly sized tree: on a throw everything the tree owned is released and
the tree is the (valid) empty tree; otherwise the tree owns the arrays and the copied elements. -/
theorem copyDataFrom_spec {base L X h bi bd r x thr tr h'}
    (t : Tracks base L (bd :: bi :: X) h) (hbi : bi ∉ X) (hbd : bd ∉ X) (hne : bi ≠ bd)
    (e : copyDataFrom (Tree.mk (some bi) (some bd) r [] 0 (some bi)) x h = (thr, tr, h')) :
    (thr = true ∧ tr = Tree.empty ∧ Tracks base L X h') ∨
    (thr = false ∧ ∃ es, tr = Tree.mk (some bi) (some bd) r es es.length (some bi) ∧
        Tracks base L (es ++ bd :: bi :: X) h' ∧ es.Nodup ∧ (∀ b ∈ es, b ≠ bi ∧ b ≠ bd ∧ b ∉ X)) := by
  unfold copyDataFrom at e
  split at e
  · simp at e; obtain ⟨e1, e2, e3⟩ := e; subst e1 e2 e3
    exact Or.inr ⟨rfl, [], rfl, by simpa using t, List.nodup_nil, by simp⟩
  · split at e
    · rename_i es h1 hl
      obtain ⟨new, e1, t1, nd, dis⟩ := copyLoop_spec x [] _ h false es h1 t hl
      simp at e1; subst e1
      simp at e; obtain ⟨e1, e2, e3⟩ := e; subst e1 e2 e3
      refine Or.inr ⟨rfl, es, rfl, t1, nd, ?_⟩
      intro b hb
      have := dis b hb
      simp only [List.mem_cons, not_or] at this
      exact ⟨this.2.1, this.1, this.2.2⟩
    · rename_i es h1 hl
      obtain ⟨new, e1, t1, nd, dis⟩ := copyLoop_spec x [] _ h true es h1 t hl
      simp at e1; subst e1
      simp at e; obtain ⟨e1, e2, e3⟩ := e; subst e1 e2 e3
      refine Or.inl ⟨rfl, rfl, ?_⟩
      apply release_tree t1 nd _ hbi hbd hne
      intro b hb
      have := dis b hb
      simp only [List.mem_cons, not_or] at this
      exact ⟨this.2.1, this.1, this.2.2⟩

theorem cotDestroy_full {base L X h bi bd r es sz c}
    (t : Tracks base L (es ++ bd :: bi :: X) h) (nd : es.Nodup)
    (hes : ∀ b ∈ es, b ≠ bi ∧ b ≠ bd ∧ b ∉ X) (hbi : bi ∉ X) (hbd : bd ∉ X) (hne : bi ≠ bd)
    (hr : r ≠ 0) :
    Tracks base L X (cotDestroy (Tree.mk (some bi) (some bd) r es sz c) h) := by
  unfold cotDestroy
  simp only [hr, if_false]
  exact release_tree t nd hes hbi hbd hne

theorem reservedOf_ne_zero (n : Nat) : reservedOf n ≠ 0 := by
  unfold reservedOf
  have : 2 ^ (Nat.log2 n + 1) ≥ 2 := by
    have h1 : 2 ^ (Nat.log2 n + 1) = 2 * 2 ^ Nat.log2 n := by rw [Nat.pow_succ]; omega
    have h2 : 2 ^ Nat.log2 n ≥ 1 := Nat.one_le_two_pow
    omega
  omega

/-- Copy constructor of `CO_Tree` from any tracked heap. -/
theorem cotreeCopy_clean {base L h} (x : List Bool) (t : Tracks base L [] h) :
    Clean L (cotreeCopy x h) ∧ (cotreeCopy x h).valid = true := by
  unfold cotreeCopy
  split
  · rename_i tr h1 hi
    rcases cotInit_spec t hi with ⟨_, t1, _⟩ | ⟨hf, _⟩ | ⟨hf, _⟩
    · exact ⟨Clean.of t1 _ _, rfl⟩
    · cases hf
    · cases hf
  · rename_i tr h1 hi
    rcases cotInit_spec t hi with ⟨hf, _⟩ | ⟨_, hn, htr, hh⟩ | ⟨_, hn, bi, bd, htr, t1, hbi, hbd, hne⟩
    · cases hf
    · subst htr hh
      have hx : x = [] := List.length_eq_zero_iff.mp hn
      subst hx
      simp [copyDataFrom, cotDestroy, Tree.empty, Tree.ok, Outcome.ofHeap]
      exact ⟨t.done, t.bad⟩
    · subst htr
      split
      · rename_i tr2 h2 hc
        rcases copyDataFrom_spec t1 hbi hbd hne hc with ⟨_, _, t2⟩ | ⟨hf, _⟩
        · exact ⟨Clean.of t2 _ _, rfl⟩
        · cases hf
      · rename_i tr2 h2 hc
        rcases copyDataFrom_spec t1 hbi hbd hne hc with ⟨hf, _⟩ | ⟨_, es, htr2, t2, nd, hes⟩
        · cases hf
        · subst htr2
          have t3 := cotDestroy_full (r := reservedOf x.length) (sz := es.length) (c := some bi) t2 nd hes hbi hbd hne (reservedOf_ne_zero _)
          refine ⟨Clean.of t3 _ _, ?_⟩
          simp [Outcome.ofHeap, Tree.ok, reservedOf_ne_zero]

end PPLV.Alloc

namespace PPLV.Alloc

theorem Tracks.take {base L X h} (t : Tracks base L X h) :
    Tracks base L (h.take.1 :: X) h.take.2 ∧ h.take.1 ∉ X := by
  have hle : base ≤ h.next := t.le
  have hnotin : h.next ∉ X := by intro hm; have := (t.fresh _ hm).2; omega
  refine ⟨⟨?_, ?_, ?_, ?_, t.bad⟩, hnotin⟩
  · show (h.next :: h.live).filter _ = L
    rw [List.filter_cons]
    have : ¬ h.next < base := by omega
    simp [this, t.old]
  · intro c hc
    show c ∈ h.next :: h.live ↔ c ∈ h.next :: X
    simp only [List.mem_cons]; rw [t.new c hc]
  · intro c hc
    show base ≤ c ∧ c < h.next + 1
    rcases List.mem_cons.mp hc with h1 | h1
    · have : c = h.next := h1
      omega
    · have := t.fresh c h1; omega
  · show base ≤ h.next + 1; omega

theorem takeN_spec {base L} : ∀ (n : Nat) (acc X : List Nat) (h : Heap),
    Tracks base L X h →
    ∃ new, (takeN n acc h).1 = acc ++ new ∧ Tracks base L (new ++ X) (takeN n acc h).2 ∧ new.Nodup
      ∧ (∀ b ∈ new, b ∉ X) ∧ new.length = n := by
  intro n
  induction n with
  | zero => intro acc X h t; exact ⟨[], by simp [takeN], by simpa [takeN] using t, List.nodup_nil, by simp, rfl⟩
  | succ n ih =>
    intro acc X h t
    obtain ⟨t1, hb⟩ := t.take
    obtain ⟨new, e1, t2, nd, dis, len⟩ := ih (acc ++ [h.take.1]) (h.take.1 :: X) h.take.2 t1
    refine ⟨h.take.1 :: new, by simp [takeN, e1], ?_, ?_, ?_, by simp [len]⟩
    · simp only [takeN]
      refine t2.congr ?_
      intro c; simp only [List.mem_append, List.mem_cons]
      constructor
      · rintro (h2 | h2 | h2)
        · exact Or.inl (Or.inr h2)
        · exact Or.inl (Or.inl h2)
        · exact Or.inr h2
      · rintro ((h2 | h2) | h2)
        · exact Or.inr (Or.inl h2)
        · exact Or.inl h2
        · exact Or.inr (Or.inr h2)
    · refine List.nodup_cons.mpr ⟨?_, nd⟩
      intro hm; exact dis _ hm (List.mem_cons_self ..)
    · intro c hc
      rcases List.mem_cons.mp hc with h2 | h2
      · subst h2; exact hb
      · intro hx; exact dis c h2 (List.mem_cons_of_mem _ hx)

/-- What `buildTree` leaves: the empty tree, or a tree that owns its two arrays and `m` elements. -/
theorem buildTree_spec {base L h} (m : Nat) (t : Tracks base L [] h) :
    (m = 0 ∧ buildTree m h = (Tree.empty, h)) ∨
    (m ≠ 0 ∧ ∃ bi bd es, (buildTree m h).1 = Tree.mk (some bi) (some bd) (reservedOf m) es m (some bi) ∧
      Tracks base L (es ++ [bd, bi]) (buildTree m h).2 ∧ es.Nodup ∧ (∀ b ∈ es, b ≠ bi ∧ b ≠ bd ∧ b ∉ ([] : List Nat)) ∧ bi ≠ bd) := by
  by_cases hm : m = 0
  · left; exact ⟨hm, by simp [buildTree, hm]⟩
  · right
    refine ⟨hm, ?_⟩
    obtain ⟨t1, _⟩ := t.take
    obtain ⟨t2, hbd⟩ := t1.take
    obtain ⟨new, e1, t3, nd, dis, _⟩ := takeN_spec m [] _ _ t2
    simp at e1
    refine ⟨h.take.1, h.take.2.take.1, (takeN m [] h.take.2.take.2).1, ?_, ?_, ?_, ?_, ?_⟩
    · simp [buildTree, hm]
    · simp only [buildTree, hm, if_false]; rw [e1]; exact t3
    · rw [e1]; exact nd
    · intro b hb; rw [e1] at hb
      have := dis b hb
      simp only [List.mem_cons, not_or] at this
      exact ⟨this.2.1, this.1, by simp⟩
    · intro e; apply hbd; rw [← e]; exact List.mem_cons_self ..

/-- `operator=` never leaks and never frees a dead block, whatever the receiver held. -/
theorem cotreeAssignAsWritten_clean {base L h} (m : Nat) (x : List Bool) (t : Tracks base L [] h) :
    Clean L (cotreeAssignAsWritten (buildTree m h).1 x (buildTree m h).2) := by
  -- first: after destroy() of the receiver nothing is owned
  have t0 : Tracks base L [] (cotDestroy (buildTree m h).1 (buildTree m h).2) := by
    rcases buildTree_spec m t with ⟨_, e⟩ | ⟨_, bi, bd, es, e1, t1, nd, hes, hne⟩
    · rw [e]; simpa [cotDestroy, Tree.empty] using t
    · rw [e1]
      exact cotDestroy_full t1 nd hes (by simp) (by simp) hne (reservedOf_ne_zero _)
  unfold cotreeAssignAsWritten
  simp only
  generalize cotDestroy (buildTree m h).1 (buildTree m h).2 = h0 at t0
  generalize (buildTree m h).1.cached = prev
  split
  · rename_i tr h1 hi
    rcases cotInit_spec t0 hi with ⟨_, t1, htr⟩ | ⟨hf, _⟩ | ⟨hf, _⟩
    · subst htr
      have : cotDestroy { Tree.empty with cached := prev } h1 = h1 := by simp [cotDestroy, Tree.empty]
      rw [this]; exact Clean.of t1 _ _
    · cases hf
    · cases hf
  · rename_i tr h1 hi
    rcases cotInit_spec t0 hi with ⟨hf, _⟩ | ⟨_, hn, htr, hh⟩ | ⟨_, hn, bi, bd, htr, t1, hbi, hbd, hne⟩
    · cases hf
    · subst htr hh
      have hx : x = [] := List.length_eq_zero_iff.mp hn
      subst hx
      simp [copyDataFrom, cotDestroy, Tree.empty, Outcome.ofHeap]
      exact ⟨t0.done, t0.bad⟩
    · subst htr
      split
      · rename_i tr2 h2 hc
        rcases copyDataFrom_spec t1 hbi hbd hne hc with ⟨_, htr2, t2⟩ | ⟨hf, _⟩
        · subst htr2
          have : cotDestroy Tree.empty h2 = h2 := by simp [cotDestroy, Tree.empty]
          rw [this]; exact Clean.of t2 _ _
        · cases hf
      · rename_i tr2 h2 hc
        rcases copyDataFrom_spec t1 hbi hbd hne hc with ⟨hf, _⟩ | ⟨_, es, htr2, t2, nd, hes⟩
        · cases hf
        · subst htr2
          exact Clean.of (cotDestroy_full (r := reservedOf x.length) t2 nd hes hbi hbd hne (reservedOf_ne_zero _)) _ _

/-- The iterator constructor with the handler added does not leak. -/
theorem cotreeIter_clean {base L h} (n : Nat) (t : Tracks base L [] h) :
    Clean L (cotreeIter n h) := by
  unfold cotreeIter
  split
  · exact Clean.of t _ _
  · rename_i hn
    split
    · rename_i tr h1 hi
      rcases cotInit_spec t hi with ⟨_, t1, _⟩ | ⟨hf, _⟩ | ⟨hf, _⟩
      · exact Clean.of t1 _ _
      · cases hf
      · cases hf
    · rename_i tr h1 hi
      rcases cotInit_spec t hi with ⟨hf, _⟩ | ⟨_, hn0, _⟩ | ⟨_, _, bi, bd, htr, t1, hbi, hbd, hne⟩
      · cases hf
      · exact absurd hn0 hn
      · subst htr
        have key : ∀ thr es h2, fillLoop n [] h1 = (thr, es, h2) →
            Tracks base L [] (((h2.freeAll es).freeOpt (some bi)).freeOpt (some bd)) := by
          intro thr es h2 hl
          obtain ⟨new, e1, t2, nd, dis, _⟩ := fillLoop_spec n [] _ h1 thr es h2 t1 hl
          simp at e1; subst e1
          apply release_tree t2 nd _ hbi hbd hne
          intro b hb
          have := dis b hb
          simp only [List.mem_cons, not_or] at this
          exact ⟨this.2.1, this.1, this.2.2⟩
        split
        · rename_i es h2 hl
          exact Clean.of (key _ _ _ hl) _ _
        · rename_i es h2 hl
          have := key _ _ _ hl
          have e : cotDestroy { indexes := some bi, data := some bd, reserved := reservedOf n, elems := es, size := n, cached := some bi } h2
              = ((h2.freeAll es).freeOpt (some bi)).freeOpt (some bd) := by
            simp [cotDestroy, reservedOf_ne_zero]
          simp only [e]
          exact Clean.of this _ _

/-- The iterator constructor as written is clean whenever the fill loop does not throw. -/
theorem cotreeIterAsWritten_clean_of_not_thrown {base L h} (n : Nat) (t : Tracks base L [] h)
    (hnt : (cotreeIterAsWritten n h).thrown = false) : Clean L (cotreeIterAsWritten n h) := by
  unfold cotreeIterAsWritten at hnt ⊢
  split
  · exact Clean.of t _ _
  · rename_i hn
    split
    · rename_i tr h1 hi
      rcases cotInit_spec t hi with ⟨_, t1, _⟩ | ⟨hf, _⟩ | ⟨hf, _⟩
      · exact Clean.of t1 _ _
      · cases hf
      · cases hf
    · rename_i tr h1 hi
      rw [if_neg hn, hi] at hnt
      rcases cotInit_spec t hi with ⟨hf, _⟩ | ⟨_, hn0, _⟩ | ⟨_, _, bi, bd, htr, t1, hbi, hbd, hne⟩
      · cases hf
      · exact absurd hn0 hn
      · subst htr
        split
        · rename_i es h2 hl
          simp only [hl, Outcome.ofHeap] at hnt
          cases hnt
        · rename_i es h2 hl
          obtain ⟨new, e1, t2, nd, dis, _⟩ := fillLoop_spec n [] _ h1 false es h2 t1 hl
          simp at e1; subst e1
          have e : cotDestroy { indexes := some bi, data := some bd, reserved := reservedOf n, elems := es, size := n, cached := some bi } h2
              = ((h2.freeAll es).freeOpt (some bi)).freeOpt (some bd) := by
            simp [cotDestroy, reservedOf_ne_zero]
          simp only [e]
          refine Clean.of (release_tree t2 nd ?_ hbi hbd hne) _ _
          intro b hb
          have := dis b hb
          simp only [List.mem_cons, not_or] at this
          exact ⟨this.2.1, this.1, this.2.2⟩

/-- A fault in one of the two allocations of `init` is handled by `init` itself. -/
theorem cotreeIterAsWritten_clean_of_init_throws {base L h} (n : Nat) (t : Tracks base L [] h)
    (hi : (cotInit none n h).1 = true) : Clean L (cotreeIterAsWritten n h) := by
  unfold cotreeIterAsWritten
  split
  · exact Clean.of t _ _
  · split
    · rename_i tr h1 hi'
      rcases cotInit_spec t hi' with ⟨_, t1, _⟩ | ⟨hf, _⟩ | ⟨hf, _⟩
      · exact Clean.of t1 _ _
      · cases hf
      · cases hf
    · rename_i tr h1 hi'
      rw [hi'] at hi; cases hi

end PPLV.Alloc

namespace PPLV.Alloc

/-- Shape of the tree `init` leaves when the cached iterators were null before the call. -/
theorem cotInit_cases {n h thr tr h1} (e : cotInit none n h = (thr, tr, h1)) :
    (thr = true ∧ tr = Tree.empty) ∨ (thr = false ∧ n = 0 ∧ tr = Tree.empty ∧ h1 = h) ∨
    (thr = false ∧ ∃ bi bd, tr = Tree.mk (some bi) (some bd) (reservedOf n) [] 0 (some bi)) := by
  unfold cotInit at e
  split at e
  · rename_i hn; cases e; exact Or.inr (Or.inl ⟨rfl, hn, rfl, rfl⟩)
  · split at e
    · cases e; exact Or.inl ⟨rfl, rfl⟩
    · split at e
      · cases e; exact Or.inl ⟨rfl, rfl⟩
      · cases e; exact Or.inr (Or.inr ⟨rfl, _, _, rfl⟩)

theorem copyDataFrom_cases {bi bd r x h thr tr h'}
    (e : copyDataFrom (Tree.mk (some bi) (some bd) r [] 0 (some bi)) x h = (thr, tr, h')) :
    tr = Tree.empty ∨ ∃ es, tr = Tree.mk (some bi) (some bd) r es es.length (some bi) := by
  unfold copyDataFrom at e
  split at e
  · cases e; exact Or.inr ⟨[], rfl⟩
  · split at e
    · cases e; exact Or.inr ⟨_, rfl⟩
    · cases e; exact Or.inl rfl

theorem Tree.ok_empty : Tree.empty.ok = true := by simp [Tree.ok, Tree.empty]
theorem Tree.ok_full (bi bd r : Nat) (es : List Nat) (hr : r ≠ 0) :
    (Tree.mk (some bi) (some bd) r es es.length (some bi)).ok = true := by simp [Tree.ok, hr]

/-- `operator=` on a receiver that was the empty tree leaves a valid tree on every path. -/
theorem cotreeAssignAsWritten_valid_of_empty (x : List Bool) (h : Heap) :
    (cotreeAssignAsWritten Tree.empty x h).valid = true := by
  unfold cotreeAssignAsWritten
  have hd : cotDestroy Tree.empty h = h := by simp [cotDestroy, Tree.empty]
  simp only [hd]
  have hc : Tree.empty.cached = none := rfl
  rw [hc]
  rcases hci : cotInit none x.length h with ⟨thr, tr, h1⟩
  rcases cotInit_cases hci with ⟨e1, e2⟩ | ⟨e1, hn, e2, e3⟩ | ⟨e1, bi, bd, e2⟩
  · subst e1 e2; simp [Outcome.ofHeap, Tree.ok_empty]
  · subst e1 e2 e3
    have hx : x = [] := List.length_eq_zero_iff.mp hn
    subst hx
    simp [copyDataFrom, Outcome.ofHeap, Tree.ok_empty]
  · subst e1 e2
    simp only
    rcases hcd : copyDataFrom _ x h1 with ⟨thr2, tr2, h2⟩
    rcases copyDataFrom_cases hcd with e3 | ⟨es, e3⟩
    · subst e3; cases thr2 <;> simp [Outcome.ofHeap, Tree.ok_empty]
    · subst e3; cases thr2 <;> simp [Outcome.ofHeap, Tree.ok_full _ _ _ _ (reservedOf_ne_zero _)]

end PPLV.Alloc

namespace PPLV.Alloc

/-- Repaired `operator=`: no leak, no bad free, for every receiver. -/
theorem cotreeAssign_clean {base L h} (m : Nat) (x : List Bool) (t : Tracks base L [] h) :
    Clean L (cotreeAssign (buildTree m h).1 x (buildTree m h).2) := by
  have t0 : Tracks base L [] (cotDestroy (buildTree m h).1 (buildTree m h).2) := by
    rcases buildTree_spec m t with ⟨_, e⟩ | ⟨_, bi, bd, es, e1, t1, nd, hes, hne⟩
    · rw [e]; simpa [cotDestroy, Tree.empty] using t
    · rw [e1]
      exact cotDestroy_full t1 nd hes (by simp) (by simp) hne (reservedOf_ne_zero _)
  unfold cotreeAssign
  simp only
  generalize cotDestroy (buildTree m h).1 (buildTree m h).2 = h0 at t0
  split
  · rename_i tr h1 hi
    rcases cotInit_spec t0 hi with ⟨_, t1, htr⟩ | ⟨hf, _⟩ | ⟨hf, _⟩
    · subst htr
      have : cotDestroy { Tree.empty with cached := none } h1 = h1 := by simp [cotDestroy, Tree.empty]
      rw [this]; exact Clean.of t1 _ _
    · cases hf
    · cases hf
  · rename_i tr h1 hi
    rcases cotInit_spec t0 hi with ⟨hf, _⟩ | ⟨_, hn, htr, hh⟩ | ⟨_, hn, bi, bd, htr, t1, hbi, hbd, hne⟩
    · cases hf
    · subst htr hh
      have hx : x = [] := List.length_eq_zero_iff.mp hn
      subst hx
      simp [copyDataFrom, cotDestroy, Tree.empty, Outcome.ofHeap]
      exact ⟨t0.done, t0.bad⟩
    · subst htr
      split
      · rename_i tr2 h2 hc
        rcases copyDataFrom_spec t1 hbi hbd hne hc with ⟨_, htr2, t2⟩ | ⟨hf, _⟩
        · subst htr2
          have : cotDestroy Tree.empty h2 = h2 := by simp [cotDestroy, Tree.empty]
          rw [this]; exact Clean.of t2 _ _
        · cases hf
      · rename_i tr2 h2 hc
        rcases copyDataFrom_spec t1 hbi hbd hne hc with ⟨hf, _⟩ | ⟨_, es, htr2, t2, nd, hes⟩
        · cases hf
        · subst htr2
          exact Clean.of (cotDestroy_full (r := reservedOf x.length) t2 nd hes hbi hbd hne (reservedOf_ne_zero _)) _ _

/-- Repaired `operator=`: the receiver is a valid tree on every path, whatever it held before. -/
theorem cotreeAssign_valid (t0 : Tree) (x : List Bool) (h : Heap) :
    (cotreeAssign t0 x h).valid = true := by
  unfold cotreeAssign
  simp only
  generalize cotDestroy t0 h = h0
  rcases hci : cotInit none x.length h0 with ⟨thr, tr, h1⟩
  rcases cotInit_cases hci with ⟨e1, e2⟩ | ⟨e1, hn, e2, e3⟩ | ⟨e1, bi, bd, e2⟩
  · subst e1 e2; simp [Outcome.ofHeap, Tree.ok_empty]
  · subst e1 e2 e3
    have hx : x = [] := List.length_eq_zero_iff.mp hn
    subst hx
    simp [copyDataFrom, Outcome.ofHeap, Tree.ok_empty]
  · subst e1 e2
    simp only
    rcases hcd : copyDataFrom _ x h1 with ⟨thr2, tr2, h2⟩
    rcases copyDataFrom_cases hcd with e3 | ⟨es, e3⟩
    · subst e3; cases thr2 <;> simp [Outcome.ofHeap, Tree.ok_empty]
    · subst e3; cases thr2 <;> simp [Outcome.ofHeap, Tree.ok_full _ _ _ _ (reservedOf_ne_zero _)]

end PPLV.Alloc

namespace PPLV.Alloc

/-- Repaired insertion: no leak, no bad free, and the receiver is a valid tree after a failed copy. -/
theorem cotreeInsert_clean {base L h} (m : Nat) (hm : m ≠ 0) (t : Tracks base L [] h) :
    Clean L (cotreeInsert (buildTree m h).1 (buildTree m h).2) ∧
    (cotreeInsert (buildTree m h).1 (buildTree m h).2).valid = true := by
  rcases buildTree_spec m t with ⟨h0, _⟩ | ⟨_, bi, bd, es, e1, t1, nd, hes, hne⟩
  · exact absurd h0 hm
  · -- the number of elements of the built tree
    have hlen : es.length = m := by
      have := takeN_spec (base := base) (L := L) m [] [h.take.2.take.1, h.take.1] h.take.2.take.2
        ((t.take.1.take).1)
      obtain ⟨new, e2, _, _, _, len⟩ := this
      have : (buildTree m h).1.elems = (takeN m [] h.take.2.take.2).1 := by simp [buildTree, hm]
      rw [e1] at this; simp at this e2; rw [this, e2]; exact len
    rw [e1]
    generalize (buildTree m h).2 = g at t1
    unfold cotreeInsert
    split
    · rename_i h1 ha
      refine ⟨Clean.of (cotDestroy_full (t1.alloc_none ha) nd hes (by simp) (by simp) hne (reservedOf_ne_zero _)) _ _, ?_⟩
      simp [Outcome.ofHeap, Tree.ok, reservedOf_ne_zero, hlen]
    · rename_i b h1 ha
      obtain ⟨t2, hb, _⟩ := t1.alloc_some ha
      simp only [List.mem_append, List.mem_cons, List.not_mem_nil, or_false, not_or] at hb
      refine ⟨Clean.of (cotDestroy_full (es := es ++ [b]) (sz := m + 1) (c := some bi) (t2.congr ?_) ?_ ?_ (by simp) (by simp) hne (reservedOf_ne_zero _)) _ _, ?_⟩
      · intro c; simp only [List.mem_append, List.mem_cons, List.not_mem_nil, or_false]
        constructor
        · rintro (h3 | h3 | h3 | h3)
          · exact Or.inl (Or.inr h3)
          · exact Or.inl (Or.inl h3)
          · exact Or.inr (Or.inl h3)
          · exact Or.inr (Or.inr h3)
        · rintro ((h3 | h3) | h3 | h3)
          · exact Or.inr (Or.inl h3)
          · exact Or.inl h3
          · exact Or.inr (Or.inr (Or.inl h3))
          · exact Or.inr (Or.inr (Or.inr h3))
      · rw [List.nodup_append]
        exact ⟨nd, by simp, by intro a ha' c hc; simp at hc; subst hc; intro e'; subst e'; exact hb.1 ha'⟩
      · intro c hc
        rcases List.mem_append.mp hc with h3 | h3
        · exact hes c h3
        · simp at h3; subst h3; exact ⟨hb.2.2, hb.2.1, by simp⟩
      · simp [Outcome.ofHeap, Tree.ok, reservedOf_ne_zero, hlen]

end PPLV.Alloc
