import PPLV.Alloc.Proofs

/-! # C14 — CO_Tree machines: `init`, `copy_data_from`, copy constructor, `operator=`, iterator constructor -/

namespace PPLV.Alloc

/-- What a sequential construction loop guarantees: the result list extends `acc` by fresh,
pairwise distinct blocks that are now owned. -/
structure LoopPost (base : Nat) (L X acc es : List Nat) (h' : Heap) : Prop where
  ex : ∃ new, es = acc ++ new ∧ Tracks base L (new ++ X) h' ∧ new.Nodup ∧ (∀ b ∈ new, b ∉ X)

theorem fillLoop_spec {base L} : ∀ (n : Nat) (acc X : List Nat) (h : Heap) (thr es h'),
    Tracks base L X h → fillLoop n acc h = (thr, es, h') →
    ∃ new, es = acc ++ new ∧ Tracks base L (new ++ X) h' ∧ new.Nodup ∧ (∀ b ∈ new, b ∉ X)
      ∧ (thr = false → new.length = n) := by
  intro n
  induction n with
  | zero =>
    intro acc X h thr es h' t e
    simp [fillLoop] at e
    obtain ⟨e1, e2, e3⟩ := e
    subst e1 e2 e3
    exact ⟨[], by simp, by simpa using t, List.nodup_nil, by simp, by simp⟩
  | succ n ih =>
    intro acc X h thr es h' t e
    unfold fillLoop at e
    split at e
    · rename_i h1 ha
      simp at e
      obtain ⟨e1, e2, e3⟩ := e
      subst e1 e2 e3
      exact ⟨[], by simp, by simpa using t.alloc_none ha, List.nodup_nil, by simp, by simp⟩
    · rename_i b h1 ha
      obtain ⟨t1, hb, _⟩ := t.alloc_some ha
      obtain ⟨new, e1, t2, nd, dis, len⟩ := ih (acc ++ [b]) (b :: X) h1 thr es h' t1 e
      refine ⟨b :: new, by simp [e1], t2.congr ?_, ?_, ?_, ?_⟩
      · intro c; simp only [List.mem_append, List.mem_cons]
        constructor
        · rintro (h2 | h2 | h2)
          · exact Or.inl (Or.inr h2)
          · exact Or.inl (Or.inl h2)
          · exact Or.inr h2
        · rintro ((h2 | h2) | h2)
          · exact Or.inr (Or.inl h2)
          · exact Or.inl h2
          · exact Or.inr (Or.inr h2)
      · refine List.nodup_cons.mpr ⟨?_, nd⟩
        intro hm; exact dis b hm (List.mem_cons_self ..)
      · intro c hc
        rcases List.mem_cons.mp hc with h2 | h2
        · subst h2; exact hb
        · intro hx; exact dis c h2 (List.mem_cons_of_mem _ hx)
      · intro ht; simp [len ht]

theorem copyLoop_spec {base L} : ∀ (xs : List Bool) (acc X : List Nat) (h : Heap) (thr es h'),
    Tracks base L X h → copyLoop xs acc h = (thr, es, h') →
    ∃ new, es = acc ++ new ∧ Tracks base L (new ++ X) h' ∧ new.Nodup ∧ (∀ b ∈ new, b ∉ X) := by
  intro xs
  induction xs with
  | nil =>
    intro acc X h thr es h' t e
    simp [copyLoop] at e
    obtain ⟨e1, e2, e3⟩ := e
    subst e1 e2 e3
    exact ⟨[], by simp, by simpa using t, List.nodup_nil, by simp⟩
  | cons u xs ih =>
    intro acc X h thr es h' t e
    cases u with
    | false => simp only [copyLoop] at e; exact ih acc X h thr es h' t e
    | true =>
      unfold copyLoop at e
      split at e
      · rename_i h1 ha
        simp at e
        obtain ⟨e1, e2, e3⟩ := e
        subst e1 e2 e3
        exact ⟨[], by simp, by simpa using t.alloc_none ha, List.nodup_nil, by simp⟩
      · rename_i b h1 ha
        obtain ⟨t1, hb, _⟩ := t.alloc_some ha
        obtain ⟨new, e1, t2, nd, dis⟩ := ih (acc ++ [b]) (b :: X) h1 thr es h' t1 e
        refine ⟨b :: new, by simp [e1], t2.congr ?_, ?_, ?_⟩
        · intro c; simp only [List.mem_append, List.mem_cons]
          constructor
          · rintro (h2 | h2 | h2)
            · exact Or.inl (Or.inr h2)
            · exact Or.inl (Or.inl h2)
            · exact Or.inr h2
          · rintro ((h2 | h2) | h2)
            · exact Or.inr (Or.inl h2)
            · exact Or.inl h2
            · exact Or.inr (Or.inr h2)
        · refine List.nodup_cons.mpr ⟨?_, nd⟩
          intro hm; exact dis b hm (List.mem_cons_self ..)
        · intro c hc
          rcases List.mem_cons.mp hc with h2 | h2
          · subst h2; exact hb
          · intro hx; exact dis c h2 (List.mem_cons_of_mem _ hx)

/-- `CO_Tree::init`: either it throws, owns nothing new and leaves the empty tree (with the cached
iterators untouched), or it returns a tree owning two fresh arrays. -/
theorem cotInit_spec {base L X h prev n thr tr h'} (t : Tracks base L X h)
    (e : cotInit prev n h = (thr, tr, h')) :
    (thr = true ∧ Tracks base L X h' ∧ tr = { Tree.empty with cached := prev }) ∨
    (thr = false ∧ n = 0 ∧ tr = Tree.empty ∧ h' = h) ∨
    (thr = false ∧ n ≠ 0 ∧ ∃ bi bd, tr = Tree.mk (some bi) (some bd) (reservedOf n) [] 0 (some bi) ∧ Tracks base L (bd :: bi :: X) h' ∧ bi ∉ X ∧ bd ∉ X ∧ bi ≠ bd) := by
  unfold cotInit at e
  split at e
  · rename_i hn
    simp at e; obtain ⟨e1, e2, e3⟩ := e; subst e1 e2 e3
    exact Or.inr (Or.inl ⟨rfl, hn, rfl, rfl⟩)
  · rename_i hn
    split at e
    · rename_i h1 ha
      simp at e; obtain ⟨e1, e2, e3⟩ := e; subst e1 e2 e3
      exact Or.inl ⟨rfl, t.alloc_none ha, rfl⟩
    · rename_i bi h1 ha
      obtain ⟨t1, hbi, _⟩ := t.alloc_some ha
      split at e
      · rename_i h2 hb
        simp at e; obtain ⟨e1, e2, e3⟩ := e; subst e1 e2 e3
        have t2 := (t1.alloc_none hb).free (List.mem_cons_self ..)
        refine Or.inl ⟨rfl, t2.congr ?_, rfl⟩
        intro c; simp only [List.mem_filter, List.mem_cons, bne_iff_ne, ne_eq]
        constructor
        · rintro ⟨h3 | h3, h4⟩
          · exact absurd h3 h4
          · exact h3
        · intro h3; exact ⟨Or.inr h3, by intro e; subst e; exact hbi h3⟩
      · rename_i bd h2 hb
        obtain ⟨t2, hbd, _⟩ := t1.alloc_some hb
        simp at e; obtain ⟨e1, e2, e3⟩ := e; subst e1 e2 e3
        refine Or.inr (Or.inr ⟨rfl, hn, bi, bd, rfl, t2, hbi, ?_, ?_⟩)
        · intro hx; exact hbd (List.mem_cons_of_mem _ hx)
        · intro e; subst e; exact hbd (List.mem_cons_self ..)

/-- Releasing everything a tree owns. -/
theorem release_tree {base L h} {es : List Nat} {bi bd : Nat} {X : List Nat}
    (t : Tracks base L (es ++ bd :: bi :: X) h) (nd : es.Nodup)
    (hes : ∀ b ∈ es, b ≠ bi ∧ b ≠ bd ∧ b ∉ X) (hbi : bi ∉ X) (hbd : bd ∉ X) (hne : bi ≠ bd) :
    Tracks base L X (((h.freeAll es).freeOpt (some bi)).freeOpt (some bd)) := by
  have t1 := Tracks.freeAll es _ t nd (by intro b hb; exact List.mem_append_left _ hb)
  have t2 := t1.freeOpt_some (b := bi) (by
    refine List.mem_filter.mpr ⟨by simp, ?_⟩
    have : bi ∉ es := fun hm => (hes bi hm).1 rfl
    simpa using this)
  have t3 := t2.freeOpt_some (b := bd) (by
    refine List.mem_filter.mpr ⟨List.mem_filter.mpr ⟨by simp, ?_⟩, by simpa using Ne.symm hne⟩
    have : bd ∉ es := fun hm => (hes bd hm).2.1 rfl
    simpa using this)
  refine t3.congr ?_
  intro c
  simp only [List.mem_filter, List.mem_append, List.mem_cons, bne_iff_ne, ne_eq, Bool.not_eq_true',
    List.contains_eq_mem, decide_eq_false_iff_not]
  constructor
  · rintro ⟨⟨⟨h1 | h1 | h1 | h1, h2⟩, h3⟩, h4⟩
    · exact absurd h1 h2
    · exact absurd h1 h4
    · exact absurd h1 h3
    · exact h1
  · intro h1
    refine ⟨⟨⟨Or.inr (Or.inr (Or.inr h1)), fun hm => (hes c hm).2.2 h1⟩, ?_⟩, ?_⟩
    · intro e; subst e; exact hbi h1
    · intro e; subst e; exact hbd h1

end PPLV.Alloc
