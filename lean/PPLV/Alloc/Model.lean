/-!
# C14 — allocation machines for the RAII protocols of PPL (no Mathlib)

A *heap* records the live blocks of one call.  Every allocation and every element construction is
one *event*; the `k`-th event of a run may fail (`std::bad_alloc`).  A machine transliterates what
the C++ code does on success **and** on the exceptional path: the catch blocks, the explicit
clean-up loops, and the destructors C++ runs by itself (members / bases that were fully
constructed, locals) — and nothing else.  In particular the destructor of an object whose
constructor body throws is **not** run.

Naming: a machine without suffix follows the code **with the repair of `/verif/fixes/fix_c14_*.diff`**
(what the harness measures once the patch is in the tree); `…AsWritten` is the historical
witness: the code as it was found, kept to state exactly what went wrong.

`runWithFaultAt input k` = run the protocol with the `k`-th event failing, unwind, then destroy
every object that still exists; the result carries the live set, the number of frees of blocks
that were not live (double free / unknown block), and the validity of the object right after the
exception.  The theorems (`PPLV/Alloc/Proofs.lean`, `PPLV/Props/C14.lean`) say
`(runWithFaultAt input k).live = initialLive input` — or exhibit the leak.

Sources: `CO_Tree.cc` (`init`, `destroy`, `copy_data_from`), `CO_Tree_inlines.hh` (copy
constructor, `operator=`), `CO_Tree_templates.hh` (`CO_Tree(Iterator, n)`), `Dense_Row.cc`,
`Dense_Row_inlines.hh`, `Swapping_Vector_inlines.hh`, `PIP_Tree.cc` (`Safe_Ptr`,
`PIP_Decision_Node` copy constructor), `MIP_Problem_inlines.hh` (`add_constraint_helper`,
copy constructor), `MIP_Problem.cc` (constructor from a constraint system).
-/

namespace PPLV.Alloc

/-! ## the heap -/

structure Heap where
  next : Nat            -- identity of the next block
  live : List Nat       -- live blocks, newest first
  bad : Nat             -- frees of blocks that are not live
  cd : Nat              -- allocation events that still succeed before the fault
  armed : Bool          -- the fault has not fired yet
  events : Nat          -- allocation events attempted so far
deriving Repr, DecidableEq

/-- One allocation event: `none` = `std::bad_alloc` is thrown (nothing allocated). -/
def Heap.alloc (h : Heap) : Option Nat × Heap :=
  if h.armed && h.cd == 0 then
    (none, { h with armed := false, events := h.events + 1 })
  else
    (some h.next, { h with next := h.next + 1, live := h.next :: h.live, cd := h.cd - 1,
                           events := h.events + 1 })

/-- `delete` / `deallocate` / destructor of an element owning block `b`. -/
def Heap.free (h : Heap) (b : Nat) : Heap :=
  { h with live := h.live.filter (· != b),
           bad := if h.live.contains b then h.bad else h.bad + 1 }

def Heap.freeAll (h : Heap) (bs : List Nat) : Heap := bs.foldl Heap.free h

/-- `delete p` where `p` may be null. -/
def Heap.freeOpt (h : Heap) : Option Nat → Heap
  | none => h
  | some b => h.free b

/-- The heap a call starts with: `pre` older live blocks (operands, the receiver), the `k`-th
allocation event fails. -/
def Heap.start (pre k : Nat) : Heap :=
  { next := pre, live := (List.range pre).reverse, bad := 0, cd := k, armed := true, events := 0 }

/-- What is observed after a run (see the file header). -/
structure Outcome where
  thrown : Bool
  valid : Bool
  live : List Nat
  bad : Nat
  events : Nat
deriving Repr, DecidableEq

def Outcome.ofHeap (thrown valid : Bool) (h : Heap) : Outcome :=
  { thrown := thrown, valid := valid, live := h.live, bad := h.bad, events := h.events }

/-! ## CO_Tree -/

/-- The representation of a `CO_Tree`: the two arrays, and the blocks owned by the constructed
elements (slots whose index is not `unused_index`). -/
structure Tree where
  indexes : Option Nat
  data : Option Nat
  reserved : Nat
  elems : List Nat
  size : Nat
  /-- the `indexes` array the cached end iterators (`cached_end`, `cached_const_end`) point into;
  `refresh_cached_iterators()` sets it to the current array -/
  cached : Option Nat
deriving Repr, DecidableEq

def Tree.empty : Tree :=
  { indexes := none, data := none, reserved := 0, elems := [], size := 0, cached := none }

/-- `CO_Tree::structure_OK()` restricted to what the allocation protocol can break. -/
def Tree.ok (t : Tree) : Bool :=
  (if t.reserved == 0 then t.indexes.isNone && t.data.isNone && t.elems.isEmpty && t.size == 0
   else t.indexes.isSome && t.data.isSome && t.size == t.elems.length)
  && t.cached == t.indexes

/-- `reserved_size` computed by `init(n)`: `2^(log2 n + 1) - 1`. -/
def reservedOf (n : Nat) : Nat := 2 ^ (Nat.log2 n + 1) - 1

/-- `CO_Tree::init(n)`.  Returns (thrown, *this, heap).  `prev` = what the cached end iterators
pointed into before the call: `refresh_cached_iterators()` is the last statement of `init`, so it
is **not** reached when an allocation throws.
```
indexes = new dimension_type[...];                 // "If this throws, *this will be the empty tree."
try { data = data_allocator.allocate(...); }
catch (...) { delete[] indexes; indexes = nullptr; throw; }
``` -/
def cotInit (prev : Option Nat) (n : Nat) (h : Heap) : Bool × Tree × Heap :=
  if n = 0 then (false, Tree.empty, h) else
  match h.alloc with
  | (none, h1) => (true, { Tree.empty with cached := prev }, h1)
  | (some bi, h1) =>
    match h1.alloc with
    | (none, h2) => (true, { Tree.empty with cached := prev }, h2.free bi)
    | (some bd, h2) =>
      (false, { indexes := some bi, data := some bd, reserved := reservedOf n, elems := [], size := 0,
                cached := some bi }, h2)

/-- `CO_Tree::destroy()`. -/
def cotDestroy (t : Tree) (h : Heap) : Heap :=
  if t.reserved = 0 then h else ((h.freeAll t.elems).freeOpt t.indexes).freeOpt t.data

/-- The `for` loop of `copy_data_from`: `x` = used flags of the source slots in visiting order;
`acc` = elements constructed so far.  Returns (thrown, constructed, heap). -/
def copyLoop : List Bool → List Nat → Heap → Bool × List Nat × Heap
  | [], acc, h => (false, acc, h)
  | false :: xs, acc, h => copyLoop xs acc h
  | true :: xs, acc, h =>
    match h.alloc with
    | (none, h1) => (true, acc, h1)
    | (some b, h1) => copyLoop xs (acc ++ [b]) h1

/-- `CO_Tree::copy_data_from(x)` on a tree that `init` has just sized.  The catch block destroys
the constructed elements, deletes both arrays, calls `init(0)` and rethrows. -/
def copyDataFrom (t : Tree) (x : List Bool) (h : Heap) : Bool × Tree × Heap :=
  if x.all (fun u => !u) then (false, t, h) else
  match copyLoop x [] h with
  | (false, es, h1) => (false, { t with elems := es, size := es.length }, h1)
  | (true, es, h1) => (true, Tree.empty, ((h1.freeAll es).freeOpt t.indexes).freeOpt t.data)

/-- Input of the tree machines: the used flags of the source tree, `pre` older blocks. -/
structure TreeInput where
  used : List Bool
  pre : Nat
deriving Repr, DecidableEq

/-- `CO_Tree::CO_Tree(const CO_Tree& y)`: `init(y.reserved_size); copy_data_from(y);` — a
constructor: when it throws no destructor runs. -/
def cotreeCopy (x : List Bool) (h : Heap) : Outcome :=
  match cotInit none x.length h with
  | (true, _, h1) => Outcome.ofHeap true true h1
  | (false, t, h1) =>
    match copyDataFrom t x h1 with
    | (true, _, h2) => Outcome.ofHeap true true h2
    | (false, t', h2) => Outcome.ofHeap false t'.ok (cotDestroy t' h2)

/-- `CO_Tree::operator=(const CO_Tree& y)` on a live tree `t0`:
`destroy(); init(y.reserved_size); copy_data_from(y);` — the object survives an exception and is
destroyed later. -/
def cotreeAssignAsWritten (t0 : Tree) (x : List Bool) (h : Heap) : Outcome :=
  let h0 := cotDestroy t0 h
  match cotInit t0.cached x.length h0 with
  | (true, t, h1) => Outcome.ofHeap true t.ok (cotDestroy t h1)
  | (false, t, h1) =>
    match copyDataFrom t x h1 with
    | (true, t', h2) => Outcome.ofHeap true t'.ok (cotDestroy t' h2)
    | (false, t', h2) => Outcome.ofHeap false t'.ok (cotDestroy t' h2)

/-- `CO_Tree::operator=` with the repaired `init` (fix_c14_cotree_init_cached_iterators): `init`
refreshes the cached iterators right after it has emptied the tree, so a throwing allocation
leaves the valid empty tree. -/
def cotreeAssign (t0 : Tree) (x : List Bool) (h : Heap) : Outcome :=
  let h0 := cotDestroy t0 h
  match cotInit none x.length h0 with
  | (true, t, h1) => Outcome.ofHeap true t.ok (cotDestroy t h1)
  | (false, t, h1) =>
    match copyDataFrom t x h1 with
    | (true, t', h2) => Outcome.ofHeap true t'.ok (cotDestroy t' h2)
    | (false, t', h2) => Outcome.ofHeap false t'.ok (cotDestroy t' h2)

/-- `CO_Tree::insert_precise_aux`, leaf case, after fix_c14_cotree_insert_atomic: the element is
built first; index and `size_` are updated only when the construction has succeeded (the
rebalancing case builds the element aside before it moves anything, which is the same event
order). -/
def cotreeInsert (t : Tree) (h : Heap) : Outcome :=
  match h.alloc with
  | (none, h1) => Outcome.ofHeap true t.ok (cotDestroy t h1)
  | (some b, h1) =>
    let t' := { t with elems := t.elems ++ [b], size := t.size + 1 }
    Outcome.ofHeap false t'.ok (cotDestroy t' h1)

/-- Historical witness: `++size_` came before the construction, so a throwing copy left a tree
whose size counts an element that does not exist (`compact`/`rebuild` then walk one element too
far: the double frees and crashes observed under `Grid`, `Polyhedron`, `MIP_Problem`). -/
def cotreeInsertAsWritten (t : Tree) (h : Heap) : Outcome :=
  let t1 := { t with size := t.size + 1 }
  match h.alloc with
  | (none, h1) => Outcome.ofHeap true t1.ok (cotDestroy t1 h1)
  | (some b, h1) =>
    let t' := { t1 with elems := t.elems ++ [b] }
    Outcome.ofHeap false t'.ok (cotDestroy t' h1)

/-- The fill loop of `CO_Tree::CO_Tree(Iterator i, dimension_type n)`: `n` element constructions
`new(&(*root)) data_type(*i)`; there is no try block around it. -/
def fillLoop : Nat → List Nat → Heap → Bool × List Nat × Heap
  | 0, acc, h => (false, acc, h)
  | n + 1, acc, h =>
    match h.alloc with
    | (none, h1) => (true, acc, h1)
    | (some b, h1) => fillLoop n (acc ++ [b]) h1

/-- `CO_Tree::CO_Tree(Iterator i, dimension_type n)`: `init(reserved_size)` then the fill loop.
A constructor body: if an element copy throws, `~CO_Tree()` is not run and the function has no
handler — the arrays and the elements built so far stay allocated. -/
def cotreeIterAsWritten (n : Nat) (h : Heap) : Outcome :=
  if n = 0 then Outcome.ofHeap false true h else
  match cotInit none n h with
  | (true, _, h1) => Outcome.ofHeap true true h1
  | (false, t, h1) =>
    match fillLoop n [] h1 with
    | (true, _, h2) => Outcome.ofHeap true true h2          -- nothing is released
    | (false, es, h2) =>
      let t' := { t with elems := es, size := n }
      Outcome.ofHeap false (t'.ok) (cotDestroy t' h2)

/-- The constructor with the handler of fix_c14_cotree_iterator_ctor_leak: `catch (...) { destroy();
init(0); throw; }` around the fill loop (and the index of a slot is set only after its element
has been built, so `destroy()` sees exactly the constructed elements). -/
def cotreeIter (n : Nat) (h : Heap) : Outcome :=
  if n = 0 then Outcome.ofHeap false true h else
  match cotInit none n h with
  | (true, _, h1) => Outcome.ofHeap true true h1
  | (false, t, h1) =>
    match fillLoop n [] h1 with
    | (true, es, h2) => Outcome.ofHeap true true (((h2.freeAll es).freeOpt t.indexes).freeOpt t.data)
    | (false, es, h2) =>
      let t' := { t with elems := es, size := n }
      Outcome.ofHeap false (t'.ok) (cotDestroy t' h2)

/-! ## Dense_Row -/

/-- `Dense_Row::Impl`: `vec`, `capacity`, and the constructed coefficients (`size` of them). -/
structure DRow where
  vec : Option Nat
  cap : Nat
  elems : List Nat
deriving Repr, DecidableEq

def DRow.empty : DRow := { vec := none, cap := 0, elems := [] }

def DRow.ok (r : DRow) : Bool := r.elems.length ≤ r.cap && (r.vec.isSome || r.elems.isEmpty)

/-- `Dense_Row::Impl::~Impl()`: destroy `size` coefficients backwards, deallocate `vec`. -/
def drowDestroy (r : DRow) (h : Heap) : Heap := (h.freeAll r.elems.reverse).freeOpt r.vec

/-- `while (impl.size != new_size) { new (&impl.vec[impl.size]) Coefficient(..); ++impl.size; }`:
the row is consistent after every step. Returns (thrown, row, heap). -/
def growLoop : Nat → DRow → Heap → Bool × DRow × Heap
  | 0, r, h => (false, r, h)
  | n + 1, r, h =>
    match h.alloc with
    | (none, h1) => (true, r, h1)
    | (some b, h1) => growLoop n { r with elems := r.elems ++ [b] } h1

/-- The row after the construction loop (thrown or not), then destroyed. -/
def finishGrow (x : Bool × DRow × Heap) : Outcome := Outcome.ofHeap x.1 x.2.1.ok (drowDestroy x.2.1 x.2.2)

/-- `Dense_Row::resize(new_size)` on a live row, growing case with reallocation:
allocate `new_vec` (may throw: nothing changed), `memcpy`, deallocate the old `vec`, then the
construction loop. -/
def denseResize (r : DRow) (newSize : Nat) (h : Heap) : Outcome :=
  if newSize ≤ r.elems.length then
    -- shrink(): destroys the tail, cannot throw
    let keep := r.elems.take newSize
    let h1 := h.freeAll (r.elems.drop newSize).reverse
    let r' := { r with elems := keep }
    Outcome.ofHeap false r'.ok (drowDestroy r' h1)
  else
    if newSize > r.cap then
      match h.alloc with
      | (none, h1) => Outcome.ofHeap true r.ok (drowDestroy r h1)
      | (some nv, h1) =>
        finishGrow (growLoop (newSize - r.elems.length) { r with vec := some nv, cap := newSize } (h1.freeOpt r.vec))
    else finishGrow (growLoop (newSize - r.elems.length) r h)

/-- `Dense_Row::Dense_Row(const Dense_Row& y, dimension_type capacity)`: a constructor whose
member `impl` is fully constructed before the body runs, so `~Impl()` runs if the body throws.
`m` = number of coefficients of `y`. -/
def denseCopy (m cap : Nat) (h : Heap) : Outcome :=
  match h.alloc with
  | (none, h1) =>
    -- impl.capacity was already set, impl.vec is still null: ~Impl() deallocates a null pointer
    Outcome.ofHeap true true (drowDestroy { vec := none, cap := cap, elems := [] } h1)
  | (some v, h1) =>
    match growLoop m { vec := some v, cap := cap, elems := [] } h1 with
    | (true, r, h2) => Outcome.ofHeap true true (drowDestroy r h2)
    | (false, r, h2) => Outcome.ofHeap false (r.ok || cap < m) (drowDestroy r h2)

/-- `Dense_Row::operator=(const Sparse_Row&)`, reallocation branch (`capacity() < row.size()`):
`destroy(); init(row);`.  `destroy()` deallocates `impl.vec` **without resetting the pointer**, and
`init` assigns `impl.vec` only after its allocation succeeded: if that allocation throws, the row
still holds the released pointer and `~Impl()` deallocates it a second time. -/
def denseAssignSparseAsWritten (r : DRow) (m : Nat) (h : Heap) : Outcome :=
  let h1 := (h.freeAll r.elems.reverse).freeOpt r.vec          -- destroy()
  match h1.alloc with                                           -- init(row): impl.vec = allocate(row.size())
  | (none, h2) => Outcome.ofHeap true (DRow.ok { vec := r.vec, cap := m, elems := [] }) (drowDestroy { vec := r.vec, cap := m, elems := [] } h2)
  | (some v, h2) => finishGrow (growLoop m { vec := some v, cap := m, elems := [] } h2)

/-- The reallocation branch after fix_c14_dense_row_assign_sparse_double_free:
`Dense_Row tmp(row); m_swap(tmp);` — nothing of the receiver is released before the new row is
complete; `tmp` (a local) is destroyed on every path. -/
def denseAssignSparse (r : DRow) (m : Nat) (h : Heap) : Outcome :=
  match h.alloc with                                           -- tmp: impl.vec = allocate(row.size())
  | (none, h1) => Outcome.ofHeap true r.ok (drowDestroy r h1)
  | (some v, h1) =>
    match growLoop m { vec := some v, cap := m, elems := [] } h1 with
    | (true, tmp, h2) => Outcome.ofHeap true r.ok (drowDestroy r (drowDestroy tmp h2))
    | (false, tmp, h2) => Outcome.ofHeap false tmp.ok (drowDestroy tmp (drowDestroy r h2))   -- after the swap

/-! ## Swapping_Vector -/

/-- A `std::vector<T>` of elements each owning one block. -/
structure SVec where
  buf : Option Nat
  cap : Nat
  elems : List Nat
deriving Repr, DecidableEq

def SVec.ok (v : SVec) : Bool := v.elems.length ≤ v.cap && (v.buf.isSome || v.cap == 0)

def svecDestroy (v : SVec) (h : Heap) : Heap := (h.freeAll v.elems).freeOpt v.buf

/-- `new_impl.resize(n)`: default-construct `n` elements; libstdc++ destroys the ones already
built when one constructor throws (`__uninitialized_default_n`). Returns (thrown, built, heap). -/
def defaultN : Nat → List Nat → Heap → Bool × List Nat × Heap
  | 0, acc, h => (false, acc, h)
  | n + 1, acc, h =>
    match h.alloc with
    | (none, h1) => (true, [], h1.freeAll acc)
    | (some b, h1) => defaultN n (acc ++ [b]) h1

/-- `Swapping_Vector<T>::reserve(new_capacity)` on a live vector:
```
std::vector<T> new_impl;  new_impl.reserve(c);  new_impl.resize(impl.size());
for (i...) swap(new_impl[i], impl[i]);  swap(impl, new_impl);
```
`new_impl` is a local: its destructor runs on every path. Returns (thrown, vector, heap). -/
def svecReserve (v : SVec) (newCap : Nat) (h : Heap) : Bool × SVec × Heap :=
  if newCap ≤ v.cap then (false, v, h) else
  match h.alloc with                                   -- new_impl.reserve
  | (none, h1) => (true, v, h1)
  | (some nb, h1) =>
    match defaultN v.elems.length [] h1 with            -- new_impl.resize(impl.size())
    | (true, _, h2) => (true, v, h2.free nb)            -- ~new_impl: buffer only
    | (false, fresh, h2) =>
      -- the swaps move the old elements into the new buffer; new_impl now owns the old buffer
      -- and the default-constructed elements, and is destroyed at the end of the block
      let h3 := (h2.freeAll fresh).freeOpt v.buf
      (false, { buf := some nb, cap := newCap, elems := v.elems }, h3)

/-- `Swapping_Vector<T>::push_back(x)`: `reserve(size() + 1); impl.push_back(x);` — the copy
construction of `x` in place may throw; the vector is unchanged then. -/
def svecPush (v : SVec) (h : Heap) : Outcome :=
  let want := if v.elems.length + 1 ≤ v.cap then v.cap else 2 * (v.elems.length + 1 + 1)
  match svecReserve v want h with
  | (true, v1, h1) => Outcome.ofHeap true v1.ok (svecDestroy v1 h1)
  | (false, v1, h1) =>
    match h1.alloc with
    | (none, h2) => Outcome.ofHeap true v1.ok (svecDestroy v1 h2)
    | (some b, h2) =>
      let v2 := { v1 with elems := v1.elems ++ [b] }
      Outcome.ofHeap false v2.ok (svecDestroy v2 h2)

/-! ## PIP tree: `Safe_Ptr` guard in the copy constructor of `PIP_Decision_Node` -/

/-- A solution tree; `null` is an absent child (`false_child == nullptr`). -/
inductive PNode where
  | null : PNode
  | sol : PNode
  | dec : PNode → PNode → PNode
deriving Repr

/-- Blocks of a cloned subtree. -/
inductive PBlocks where
  | null : PBlocks
  | sol (storage content : Nat) : PBlocks
  | dec (storage content : Nat) (f t : PBlocks) : PBlocks
deriving Repr

/-- `delete node` (virtual destructor: children first for a decision node, then the base). -/
def pDelete : PBlocks → Heap → Heap
  | .null, h => h
  | .sol s c, h => (h.free c).free s
  | .dec s c f t, h => ((pDelete t (pDelete f h)).free c).free s

/-- `node->clone()` = `new T(*this)`: storage, then the copy constructor; the new-expression
frees the storage if the constructor throws.  `guard = true` is the code as written
(`Safe_Node safe_node(false_child)` protects the first clone while the second is made);
`none` = the clone threw. -/
def pClone (guard : Bool) : PNode → Heap → Option PBlocks × Heap
  | .null, h => (some .null, h)
  | .sol, h =>
    match h.alloc with
    | (none, h1) => (none, h1)
    | (some s, h1) =>
      match h1.alloc with                     -- tableau, basis, ... of the solution node
      | (none, h2) => (none, h2.free s)
      | (some c, h2) => (some (.sol s c), h2)
  | .dec f t, h =>
    match h.alloc with
    | (none, h1) => (none, h1)
    | (some s, h1) =>
      match h1.alloc with                     -- base PIP_Tree_Node(y): constraints_, parameters
      | (none, h2) => (none, h2.free s)
      | (some c, h2) =>
        match pClone guard f h2 with
        | (none, h3) => (none, (h3.free c).free s)          -- ~PIP_Tree_Node, then the storage
        | (some fb, h3) =>
          match pClone guard t h3 with
          | (none, h4) =>
            let h5 := if guard then pDelete fb h4 else h4   -- ~Safe_Ptr deletes false_child
            (none, (h5.free c).free s)
          | (some tb, h4) => (some (.dec s c fb tb), h4)

/-- Clone a solution tree (copy of a solved `PIP_Problem`), then delete the clone. -/
def pipClone (guard : Bool) (t : PNode) (h : Heap) : Outcome :=
  match pClone guard t h with
  | (none, h1) => Outcome.ofHeap true true h1
  | (some b, h1) => Outcome.ofHeap false true (pDelete b h1)

/-! ## MIP_Problem: `add_constraint_helper` -/

/-- `input_cs`: a `std::vector<Constraint*>`; the pointees are owned by the problem. -/
structure CSeq where
  buf : Option Nat
  cap : Nat
  ptrs : List Nat
deriving Repr, DecidableEq

def CSeq.ok (s : CSeq) : Bool := s.ptrs.length ≤ s.cap && (s.buf.isSome || s.cap == 0)

/-- `~MIP_Problem()`: delete the owned constraints, then `~vector` releases the buffer. -/
def mipDestroy (s : CSeq) (h : Heap) : Heap := (h.freeAll s.ptrs).freeOpt s.buf

/-- Member destruction only (what C++ runs when a *constructor body* throws): the vector of raw
pointers releases its buffer, the pointees are not deleted. -/
def mipMembersOnly (s : CSeq) (h : Heap) : Heap := h.freeOpt s.buf

/-- The reservation step of `add_constraint_helper` (`std::vector::reserve`: allocate the new
buffer, move the pointers, release the old buffer). -/
def mipReserve (s : CSeq) (h : Heap) : Bool × CSeq × Heap :=
  if s.ptrs.length = s.cap then
    match h.alloc with
    | (none, h1) => (true, s, h1)
    | (some nb, h1) => (false, { s with buf := some nb, cap := 2 * (s.ptrs.length + 1 + 1) }, h1.freeOpt s.buf)
  else (false, s, h)

/-- `MIP_Problem::add_constraint_helper(c)`:
```
if (size == capacity) input_cs.reserve(compute_capacity(size + 1, max_size));
input_cs.push_back(new Constraint(c));     // push_back cannot throw: space is reserved
```
Returns (thrown, sequence, heap). -/
def mipHelper (s : CSeq) (h : Heap) : Bool × CSeq × Heap :=
  match mipReserve s h with
  | (true, s1, h1) => (true, s1, h1)
  | (false, s1, h1) =>
    match h1.alloc with                                  -- new Constraint(c)
    | (none, h2) => (true, s1, h2)
    | (some p, h2) => (false, { s1 with ptrs := s1.ptrs ++ [p] }, h2)

/-- `MIP_Problem::add_constraint(c)` on a live problem. -/
def mipAdd (s : CSeq) (h : Heap) : Outcome :=
  match mipHelper s h with
  | (t, s1, h1) => Outcome.ofHeap t s1.ok (mipDestroy s1 h1)

def helperLoop : Nat → CSeq → Heap → Bool × CSeq × Heap
  | 0, s, h => (false, s, h)
  | n + 1, s, h =>
    match mipHelper s h with
    | (true, s1, h1) => (true, s1, h1)
    | (false, s1, h1) => helperLoop n s1 h1

/-- `MIP_Problem::MIP_Problem(dim, cs, obj, mode)`: the constructor body calls
`add_constraint_helper` for each of the `n` constraints.  If one of them throws, the members are
destroyed (`input_cs` releases its buffer) but `~MIP_Problem()` — which deletes the constraints —
is not run. -/
def mipCtorAsWritten (n : Nat) (h : Heap) : Outcome :=
  match helperLoop n { buf := none, cap := 0, ptrs := [] } h with
  | (true, s, h1) => Outcome.ofHeap true true (mipMembersOnly s h1)
  | (false, s, h1) => Outcome.ofHeap false s.ok (mipDestroy s h1)

/-- `MIP_Problem::MIP_Problem(const MIP_Problem& y)`: `input_cs.reserve(y.input_cs.size())` and
then the same loop. -/
def mipCopyAsWritten (n : Nat) (h : Heap) : Outcome :=
  if n = 0 then Outcome.ofHeap false true h else
  match h.alloc with                                   -- input_cs.reserve(y.input_cs.size())
  | (none, h1) => Outcome.ofHeap true true h1
  | (some b, h1) =>
    match helperLoop n { buf := some b, cap := n, ptrs := [] } h1 with
    | (true, s1, h2) => Outcome.ofHeap true true (mipMembersOnly s1 h2)
    | (false, s1, h2) => Outcome.ofHeap false s1.ok (mipDestroy s1 h2)

/-- The copy constructor after fix_c14_mip_ctor_constraint_leak: reservation and copies inside a
`try`, the handler deletes the copies made so far. -/
def mipCopy (n : Nat) (h : Heap) : Outcome :=
  if n = 0 then Outcome.ofHeap false true h else
  match h.alloc with
  | (none, h1) => Outcome.ofHeap true true h1
  | (some b, h1) =>
    match helperLoop n { buf := some b, cap := n, ptrs := [] } h1 with
    | (true, s1, h2) => Outcome.ofHeap true true (mipDestroy s1 h2)
    | (false, s1, h2) => Outcome.ofHeap false s1.ok (mipDestroy s1 h2)

/-- The constructor with the clean-up a destructor would do (what a `try`/`catch` in the body, or
a vector of owning pointers, would give). -/
def mipCtor (n : Nat) (h : Heap) : Outcome :=
  match helperLoop n { buf := none, cap := 0, ptrs := [] } h with
  | (true, s, h1) => Outcome.ofHeap true true (mipDestroy s h1)
  | (false, s, h1) => Outcome.ofHeap false s.ok (mipDestroy s h1)

/-! ## receivers that exist before the call, and the runs `runWithFaultAt` -/

/-- An allocation made while the receiver was built (before the call under test: cannot fail). -/
def Heap.take (h : Heap) : Nat × Heap :=
  (h.next, { h with next := h.next + 1, live := h.next :: h.live })

def takeN : Nat → List Nat → Heap → List Nat × Heap
  | 0, acc, h => (acc, h)
  | n + 1, acc, h => let (b, h1) := h.take; takeN n (acc ++ [b]) h1

/-- A live `CO_Tree` with `m` elements (`m = 0`: the empty tree). -/
def buildTree (m : Nat) (h : Heap) : Tree × Heap :=
  if m = 0 then (Tree.empty, h) else
  let (bi, h1) := h.take
  let (bd, h2) := h1.take
  let (es, h3) := takeN m [] h2
  (Tree.mk (some bi) (some bd) (reservedOf m) es m (some bi), h3)

/-- A live `Dense_Row` with `m` coefficients and capacity `cap ≥ m` (`cap = 0`: no storage). -/
def buildRow (m cap : Nat) (h : Heap) : DRow × Heap :=
  if cap = 0 then (DRow.empty, h) else
  let (v, h1) := h.take
  let (es, h2) := takeN (min m cap) [] h1
  ({ vec := some v, cap := cap, elems := es }, h2)

/-- A live vector with `m` elements and capacity `cap ≥ m`. -/
def buildVec (m cap : Nat) (h : Heap) : SVec × Heap :=
  if cap = 0 then ({ buf := none, cap := 0, elems := [] }, h) else
  let (v, h1) := h.take
  let (es, h2) := takeN (min m cap) [] h1
  ({ buf := some v, cap := cap, elems := es }, h2)

def buildSeq (m cap : Nat) (h : Heap) : CSeq × Heap :=
  if cap = 0 then ({ buf := none, cap := 0, ptrs := [] }, h) else
  let (v, h1) := h.take
  let (es, h2) := takeN (min m cap) [] h1
  ({ buf := some v, cap := cap, ptrs := es }, h2)

/-- The live set every run must come back to: the `pre` older blocks. -/
def initialLive (pre : Nat) : List Nat := (List.range pre).reverse

namespace Run
def cotreeCopy (x : List Bool) (pre k : Nat) : Outcome := Alloc.cotreeCopy x (Heap.start pre k)
def cotreeIterAsWritten (n pre k : Nat) : Outcome := Alloc.cotreeIterAsWritten n (Heap.start pre k)
def cotreeIter (n pre k : Nat) : Outcome := Alloc.cotreeIter n (Heap.start pre k)
def cotreeAssignAsWritten (m : Nat) (x : List Bool) (pre k : Nat) : Outcome :=
  let (t0, h) := buildTree m (Heap.start pre k); Alloc.cotreeAssignAsWritten t0 x h
def denseCopy (m cap pre k : Nat) : Outcome := Alloc.denseCopy m cap (Heap.start pre k)
def denseResize (m cap newSize pre k : Nat) : Outcome :=
  let (r, h) := buildRow m cap (Heap.start pre k); Alloc.denseResize r newSize h
def svecPush (m cap pre k : Nat) : Outcome :=
  let (v, h) := buildVec m cap (Heap.start pre k); Alloc.svecPush v h
def denseAssignSparseAsWritten (m0 cap m pre k : Nat) : Outcome :=
  let (r, h) := buildRow m0 cap (Heap.start pre k); Alloc.denseAssignSparseAsWritten r m h
def pipClone (guard : Bool) (t : PNode) (pre k : Nat) : Outcome := Alloc.pipClone guard t (Heap.start pre k)
def mipAdd (m cap pre k : Nat) : Outcome :=
  let (s, h) := buildSeq m cap (Heap.start pre k); Alloc.mipAdd s h
def mipCtorAsWritten (n pre k : Nat) : Outcome := Alloc.mipCtorAsWritten n (Heap.start pre k)
def mipCopyAsWritten (n pre k : Nat) : Outcome := Alloc.mipCopyAsWritten n (Heap.start pre k)
def mipCopy (n pre k : Nat) : Outcome := Alloc.mipCopy n (Heap.start pre k)
def cotreeInsert (m pre k : Nat) : Outcome :=
  let (t0, h) := buildTree m (Heap.start pre k); Alloc.cotreeInsert t0 h
def cotreeInsertAsWritten (m pre k : Nat) : Outcome :=
  let (t0, h) := buildTree m (Heap.start pre k); Alloc.cotreeInsertAsWritten t0 h
def cotreeAssign (m : Nat) (x : List Bool) (pre k : Nat) : Outcome :=
  let (t0, h) := buildTree m (Heap.start pre k); Alloc.cotreeAssign t0 x h
def denseAssignSparse (m0 cap m pre k : Nat) : Outcome :=
  let (r, h) := buildRow m0 cap (Heap.start pre k); Alloc.denseAssignSparse r m h
def mipCtor (n pre k : Nat) : Outcome := Alloc.mipCtor n (Heap.start pre k)
end Run

end PPLV.Alloc
