import PPLV.PolyOps.ProofsGenKit

/-!
# C02 stage 2 — the constraint toolkit, part 1

The reading of a raw constraint row (`Row.Holds`: equality / strict / non-strict on the value
`Row.ev`), `conSem` as "every row holds", a general transfer lemma (`holds_of_ev`: same kind bit,
same sign class of the epsilon coefficient, value scaled by a positive factor) and from it
`KitC.normalize`, `KitC.strongNormalize`, `KitC.wf`.
-/
namespace PPLV.PolyOps
open PPLV.Lin

/-- value of the row at `w`: `cf · w + b` -/
def Row.ev (r : Row) (w : Val) : Rat := dot r.cf w + (r.b : Rat)

/-- what the row says as a constraint (`Constraint::type()`) -/
def Row.Holds (nnc : Bool) (r : Row) (w : Val) : Prop :=
  if r.eq = true then r.ev w = 0
  else if nnc = true ∧ r.eps < 0 then 0 < r.ev w else 0 ≤ r.ev w

theorem Sat_toCons (nnc : Bool) (r : Row) (w : Val) : Sat (r.toCons nnc) w ↔ r.Holds nnc w := by
  unfold Row.toCons Row.Holds Row.ev
  by_cases he : r.eq = true
  · rw [if_pos he, if_pos he, Sat_eqRows]
  · rw [if_neg he, if_neg he]
    by_cases hs : nnc = true ∧ r.eps < 0
    · have : (nnc && decide (r.eps < 0)) = true := by simp [hs.1, hs.2]
      rw [if_pos this, if_pos hs, Sat_singleton]
      simp [gtRow, Con.sat, Con.eval]
    · have : ¬ (nnc && decide (r.eps < 0)) = true := by
        simpa [Bool.and_eq_true, decide_eq_true_eq] using hs
      rw [if_neg this, if_neg hs, Sat_singleton]
      simp [geRow, Con.sat, Con.eval]

theorem mem_conSem (nnc : Bool) (rows : List Row) (w : Val) :
    w ∈ conSem nnc rows ↔ ∀ r ∈ rows, r.Holds nnc w := by
  unfold conSem consOf
  show Sat _ w ↔ _
  rw [Sat_flatMap]
  exact forall_congr' fun r => imp_congr_right fun _ => Sat_toCons nnc r w

theorem conSem_map (nnc : Bool) (rows : List Row) (f : Row → Row) (w : Val) :
    w ∈ conSem nnc (rows.map f) ↔ ∀ r ∈ rows, (f r).Holds nnc w := by
  rw [mem_conSem]
  simp only [List.mem_map]
  constructor
  · intro h r hr; exact h _ ⟨r, hr, rfl⟩
  · rintro h _ ⟨r, hr, rfl⟩; exact h r hr

/-- transfer of the reading: same kind bit, same sign class of epsilon, value scaled by `t > 0` -/
theorem holds_of_ev (nnc : Bool) (r r' : Row) (w w' : Val) (t : Rat) (ht : 0 < t)
    (heq : r'.eq = r.eq) (heps : r'.eps < 0 ↔ r.eps < 0) (hev : r'.ev w' = t * r.ev w) :
    r'.Holds nnc w' ↔ r.Holds nnc w := by
  unfold Row.Holds
  rw [heq, hev]
  simp only [heps]
  split
  · constructor
    · intro h
      rcases mul_eq_zero.mp h with h | h
      · exact absurd h (ne_of_gt ht)
      · exact h
    · intro h; rw [h, mul_zero]
  · split
    · exact mul_pos_iff_of_pos_left ht
    · exact mul_nonneg_iff_of_pos_left ht

/-! ### `divBy`, `scale` -/

theorem ev_divBy (r : Row) (g : Int) (hg : 0 < g) (hb : g ∣ r.b) (hc : ∀ a ∈ r.cf, g ∣ a)
    (w : Val) : (r.divBy g).ev w = (1 / (g : Rat)) * r.ev w := by
  have hgq : (0 : Rat) < (g : Rat) := by exact_mod_cast hg
  have h1 := dot_map_div g r.cf hc w
  obtain ⟨q, hq⟩ := hb
  have hgne : g ≠ 0 := ne_of_gt hg
  have hb' : r.b / g = q := by rw [hq, Int.mul_ediv_cancel_left _ hgne]
  unfold Row.ev Row.divBy
  simp only
  rw [hb', ← h1, hq]
  push_cast
  field_simp

theorem eps_divBy (r : Row) (g : Int) (hg : 0 < g) (he : g ∣ r.eps) :
    (r.divBy g).eps < 0 ↔ r.eps < 0 := by
  obtain ⟨q, hq⟩ := he
  have hgne : g ≠ 0 := ne_of_gt hg
  have : (r.divBy g).eps = q := by
    unfold Row.divBy; simp only; rw [hq, Int.mul_ediv_cancel_left _ hgne]
  rw [this, hq]
  constructor
  · intro h; nlinarith
  · intro h; by_contra hn
    have : 0 ≤ q := by omega
    nlinarith

theorem holds_divBy (nnc : Bool) (r : Row) (g : Int) (hg : 0 < g) (hb : g ∣ r.b) (he : g ∣ r.eps)
    (hc : ∀ a ∈ r.cf, g ∣ a) (w : Val) : (r.divBy g).Holds nnc w ↔ r.Holds nnc w := by
  have hgq : (0 : Rat) < (g : Rat) := by exact_mod_cast hg
  exact holds_of_ev nnc r (r.divBy g) w w (1 / (g : Rat)) (by positivity) rfl
    (eps_divBy r g hg he) (ev_divBy r g hg hb hc w)

theorem holds_normalize (nnc : Bool) (r : Row) (w : Val) : r.normalize.Holds nnc w ↔ r.Holds nnc w := by
  obtain ⟨g, hg, hb, he, hc, heq⟩ := normalize_eq r
  rw [heq]
  exact holds_divBy nnc r g hg hb he hc w

theorem ev_scale (k : Int) (r : Row) (w : Val) : (r.scale k).ev w = (k : Rat) * r.ev w := by
  unfold Row.ev Row.scale
  simp only
  rw [dot_map_mul]
  push_cast
  ring

theorem holds_signNormalize (nnc : Bool) (r : Row) (w : Val) :
    r.signNormalize.Holds nnc w ↔ r.Holds nnc w := by
  rcases signNormalize_eq r with heq | ⟨hl, heq⟩
  · rw [heq]
  · rw [heq]
    unfold Row.Holds
    have h1 : (r.scale (-1)).eq = true := hl
    rw [if_pos h1, if_pos hl, ev_scale]
    push_cast
    constructor <;> intro h <;> linarith

theorem holds_strongNormalize (nnc : Bool) (r : Row) (w : Val) :
    r.strongNormalize.Holds nnc w ↔ r.Holds nnc w := by
  unfold Row.strongNormalize
  rw [holds_signNormalize, holds_normalize]

/-- a row transformer that keeps the reading of every row keeps the point set -/
theorem conSem_map_congr (nnc : Bool) (rows : List Row) (f : Row → Row)
    (h : ∀ r ∈ rows, ∀ w, (f r).Holds nnc w ↔ r.Holds nnc w) :
    conSem nnc (rows.map f) = conSem nnc rows := by
  ext w
  rw [conSem_map, mem_conSem]
  exact forall_congr' fun r => forall_congr' fun hr => h r hr w

theorem kitC_normalize : KitC.normalize := by
  intro nnc rows
  exact conSem_map_congr nnc rows _ fun r _ w => holds_normalize nnc r w

theorem kitC_strongNormalize : KitC.strongNormalize := by
  intro nnc rows
  exact conSem_map_congr nnc rows _ fun r _ w => holds_strongNormalize nnc r w

/-! ### lengths -/

theorem toCons_len (nnc : Bool) (r : Row) (c : Con) (hc : c ∈ r.toCons nnc) :
    c.coeffs.length = r.cf.length := by
  unfold Row.toCons at hc
  split at hc
  · simp only [eqRows, List.mem_cons, List.not_mem_nil, or_false] at hc
    rcases hc with rfl | rfl <;> simp
  · split at hc <;> simp only [List.mem_singleton] at hc <;> subst hc <;> rfl

theorem kitC_wf : KitC.wf := by
  intro nnc n rows h c hc
  unfold consOf at hc
  obtain ⟨r, hr, hcr⟩ := List.mem_flatMap.mp hc
  rw [toCons_len nnc r c hcr, h r hr]

theorem divBy_cf_length (r : Row) (g : Int) : (r.divBy g).cf.length = r.cf.length := by
  simp [Row.divBy]

theorem normalize_cf_length (r : Row) : r.normalize.cf.length = r.cf.length := by
  obtain ⟨g, _, _, _, _, heq⟩ := normalize_eq r
  rw [heq, divBy_cf_length]

theorem signNormalize_cf_length (r : Row) : r.signNormalize.cf.length = r.cf.length := by
  rcases signNormalize_eq r with heq | ⟨_, heq⟩ <;> rw [heq]
  simp [Row.scale]

theorem strongNormalize_cf_length (r : Row) : r.strongNormalize.cf.length = r.cf.length := by
  unfold Row.strongNormalize
  rw [signNormalize_cf_length, normalize_cf_length]

end PPLV.PolyOps
