import PPLV.PolyOps.ProofsGenKit
import PPLV.Lin.OpSpecs2

/-!
# C02 stage 2 — generator systems without effective closure points generate closed sets

`genSem_closed_of_matched`: a well-formed generator system in which every closure point is matched
by a point with the same coordinates generates a set that is described by a constraint system
WITHOUT strict rows.  Route: Fourier–Motzkin elimination (`projectTo`) never produces a strict row
from non-strict rows (`NS_projectTo`); without closure points the only strict row of `liftedGens`
(some point has a positive multiplier) follows from the convexity row.
-/
namespace PPLV.PolyOps
open PPLV.Lin

/-- no strict row -/
def NS (cs : List Con) : Prop := ∀ c ∈ cs, c.strict = false

theorem NS_append (as bs : List Con) (ha : NS as) (hb : NS bs) : NS (as ++ bs) := by
  intro c hc
  rcases List.mem_append.mp hc with h | h
  · exact ha c h
  · exact hb c h

theorem NS_sub (as bs : List Con) (h : ∀ c ∈ as, c ∈ bs) (hb : NS bs) : NS as :=
  fun c hc => hb c (h c hc)

theorem combine_strict (i : Nat) (l u : Con) (hl : l.strict = false) (hu : u.strict = false) :
    (combine i l u).strict = false := by
  show (l.strict || u.strict) = false
  rw [hl, hu]; rfl

theorem NS_elimAt (i : Nat) (cs : List Con) (h : NS cs) : NS (elimAt i cs) := by
  have hpos : NS (cs.filter (fun c => decide (0 < c.at i))) :=
    NS_sub _ _ (fun c hc => (List.mem_filter.mp hc).1) h
  have hneg : NS (cs.filter (fun c => decide (c.at i < 0))) :=
    NS_sub _ _ (fun c hc => (List.mem_filter.mp hc).1) h
  have hzer : NS (cs.filter (fun c => decide (c.at i = 0))) :=
    NS_sub _ _ (fun c hc => (List.mem_filter.mp hc).1) h
  unfold elimAt
  simp only
  split
  · rename_i l u heq
    obtain ⟨_, _, hl, hu, _⟩ := findEqPair_some i _ _ l u heq
    apply NS_append
    · apply NS_append _ _ hzer
      intro c hc
      obtain ⟨p, hp, rfl⟩ := List.mem_map.mp hc
      exact combine_strict i p u (hpos p hp) hu
    · intro c hc
      obtain ⟨q, hq, rfl⟩ := List.mem_map.mp hc
      exact combine_strict i l q hl (hneg q hq)
  · apply NS_append _ _ hzer
    intro c hc
    obtain ⟨l, hl, hc⟩ := List.mem_flatMap.mp hc
    obtain ⟨u, hu, rfl⟩ := List.mem_map.mp hc
    exact combine_strict i l u (hpos l hl) (hneg u hu)

theorem NS_tidy0 (cs : List Con) (h : NS cs) : NS (tidy0 cs) := by
  unfold tidy0
  simp only
  split
  · intro c hc
    rw [List.mem_singleton.mp hc]; rfl
  · intro c hc
    rw [mem_dedup] at hc
    obtain ⟨c0, hc0, rfl⟩ := List.mem_map.mp (List.mem_filter.mp hc).1
    rw [normalize_strict]; exact h c0 hc0

theorem pruneRows_sub (n : Nat) : ∀ (rest kept : List Con) (c : Con),
    c ∈ pruneRows n kept rest → c ∈ kept ++ rest := by
  intro rest
  induction rest with
  | nil => intro kept c hc; simpa [pruneRows] using hc
  | cons r rest ih =>
    intro kept c hc
    unfold pruneRows at hc
    split at hc
    · have := ih kept c hc
      rcases List.mem_append.mp this with h | h
      · exact List.mem_append_left _ h
      · exact List.mem_append_right _ (List.mem_cons_of_mem _ h)
    · have := ih (kept ++ [r]) c hc
      simpa [List.mem_append, or_assoc] using this

theorem NS_tidy (cs : List Con) (h : NS cs) : NS (tidy cs) := by
  unfold tidy
  simp only
  split
  · exact NS_tidy0 cs h
  · exact NS_sub _ _ (fun c hc => by simpa using pruneRows_sub _ _ [] c hc) (NS_tidy0 cs h)

theorem NS_elimVars : ∀ (is : List Nat) (cs : List Con), NS cs → NS (elimVars is cs) := by
  intro is
  induction is with
  | nil => intro cs h; exact h
  | cons i is ih =>
    intro cs h
    exact ih _ (NS_tidy _ (NS_elimAt i cs h))

theorem NS_projectTo (n total : Nat) (cs : List Con) (h : NS cs) : NS (projectTo n total cs) := by
  intro c hc
  unfold projectTo at hc
  obtain ⟨c0, hc0, rfl⟩ := List.mem_map.mp hc
  exact NS_elimVars _ _ (NS_tidy cs h) c0 hc0

/-! ### the lifted system without its strict row -/

/-- `liftedGens` without the row "some point has a positive multiplier" -/
def liftedGens0 (n : Nat) (gs : List Gen) : List Con :=
  let m := gs.length
  let coordRows := (List.range n).flatMap fun i =>
    eqRows (unitRow i 1 ++ List.replicate (n - 1 - i) 0 ++ gs.map (fun g => - g.coords.getD i 0)) 0
  let signRows := (List.range m).filterMap fun j =>
    if (gs.getD j default).isLine then none else some (geRow (List.replicate (n + j) 0 ++ [1]) 0)
  let convex := eqRows (List.replicate n 0 ++ gs.map Gen.wt) (-1)
  coordRows ++ signRows ++ convex

theorem liftedGens_eq (n : Nat) (gs : List Gen) :
    liftedGens n gs = liftedGens0 n gs ++ [gtRow (List.replicate n 0 ++ gs.map Gen.pwt) 0] := rfl

theorem NS_eqRows (cf : List Int) (k : Int) : NS (eqRows cf k) := by
  intro c hc
  simp only [eqRows, List.mem_cons, List.not_mem_nil, or_false] at hc
  rcases hc with rfl | rfl <;> rfl

theorem NS_liftedGens0 (n : Nat) (gs : List Gen) : NS (liftedGens0 n gs) := by
  unfold liftedGens0
  simp only
  apply NS_append
  · apply NS_append
    · intro c hc
      obtain ⟨i, _, hc⟩ := List.mem_flatMap.mp hc
      exact NS_eqRows _ _ c hc
    · intro c hc
      obtain ⟨j, _, hc⟩ := List.mem_filterMap.mp hc
      split at hc
      · cases hc
      · cases hc; rfl
  · exact NS_eqRows _ _

/-- without closure points the strict row follows from the convexity row -/
theorem Sat_liftedGens0 (n : Nat) (gs : List Gen) (hnc : ∀ g ∈ gs, g.kind ≠ .cpoint) (w : Val) :
    Sat (liftedGens n gs) w ↔ Sat (liftedGens0 n gs) w := by
  rw [liftedGens_eq, Sat_append, Sat_singleton]
  refine ⟨fun h => h.1, fun h => ⟨h, ?_⟩⟩
  have hwp : gs.map Gen.wt = gs.map Gen.pwt := by
    apply List.map_congr_left
    intro g hg
    have := hnc g hg
    unfold Gen.wt Gen.pwt Gen.isPtOrCp Gen.isPt
    cases hk : g.kind <;> simp_all
  have hconv : Sat (eqRows (List.replicate n 0 ++ gs.map Gen.wt) (-1)) w := by
    intro c hc
    apply h c
    unfold liftedGens0
    simp only
    exact List.mem_append_right _ hc
  rw [Sat_eqRows, hwp] at hconv
  show Con.sat (gtRow _ 0) w
  unfold Con.sat gtRow Con.eval
  simp only [if_true]
  push_cast at hconv ⊢
  linarith

/-- a generator system without closure points generates a set with a non-strict description -/
theorem genSem_closed_of_no_cpoint (n : Nat) (gs : List Gen) (hw : gensWF n gs = true)
    (hnc : ∀ g ∈ gs, g.kind ≠ .cpoint) : ∃ ds : List Con, NS ds ∧ sem ds = GenSem n gs := by
  refine ⟨projectTo n (n + gs.length) (liftedGens0 n gs), NS_projectTo _ _ _ (NS_liftedGens0 n gs), ?_⟩
  rw [← sem_gensToCons n gs hw]
  have hwf0 : WF (n + gs.length) (liftedGens0 n gs) := by
    intro c hc
    apply liftedGens_wf n gs c
    rw [liftedGens_eq]
    exact List.mem_append_left _ hc
  ext w
  show Sat _ w ↔ Sat (projectTo n (n + gs.length) (liftedGens n gs)) w
  rw [projectTo_spec n _ _ hwf0 (by omega), projectTo_spec n _ _ (liftedGens_wf n gs) (by omega)]
  exact exists_congr fun w' => and_congr_right fun _ => (Sat_liftedGens0 n gs hnc w').symm

/-- every closure point is matched by a point with the same coordinates -/
def Matched (gs : List Gen) : Prop :=
  ∀ g ∈ gs, g.kind = .cpoint → ∃ g' ∈ gs, g'.kind = .point ∧ g'.vec = g.vec

/-- matched closure points are redundant -/
theorem genSem_drop_cpoints (n : Nat) (gs : List Gen) (hw : gensWF n gs = true) (hm : Matched gs) :
    GenSem n (gs.filter fun g => g.kind != .cpoint) = GenSem n gs := by
  have hsub : ∀ g, g ∈ gs.filter (fun g => g.kind != .cpoint) → g ∈ gs :=
    fun g hg => (List.mem_filter.mp hg).1
  have hw' : gensWF n (gs.filter fun g => g.kind != .cpoint) = true := by
    unfold gensWF at hw ⊢
    rw [List.all_eq_true] at hw ⊢
    exact fun g hg => hw g (hsub g hg)
  have hkeep : ∀ g ∈ gs, g.kind = .point → g ∈ gs.filter (fun g => g.kind != .cpoint) := by
    intro g hg hk
    exact List.mem_filter.mpr ⟨hg, by rw [hk]; rfl⟩
  apply genSem_congr_admits n _ _ hw' hw
  · constructor
    · rintro ⟨g, hg, hp⟩; exact ⟨g, hsub g hg, hp⟩
    · rintro ⟨g, hg, hp⟩
      refine ⟨g, hkeep g hg ?_, hp⟩
      unfold Gen.isPt at hp
      simpa using hp
  · intro c _
    constructor
    · intro h g hg
      by_cases hk : g.kind = .cpoint
      · obtain ⟨g', hg', hk', hv⟩ := hm g hg hk
        have := h g' (hkeep g' hg' hk')
        unfold rowAdmits at this ⊢
        rw [hk'] at this
        rw [hk]
        simp only at this ⊢
        rw [← hv]
        exact sat_nonneg c _ this
      · exact h g (List.mem_filter.mpr ⟨hg, by simpa using hk⟩)
    · intro h g hg
      exact h g (hsub g hg)

/-- **a matched generator system generates a topologically closed set** -/
theorem genSem_closed_of_matched (n : Nat) (gs : List Gen) (hw : gensWF n gs = true)
    (hm : Matched gs) : ∃ ds : List Con, NS ds ∧ sem ds = GenSem n gs := by
  have hw' : gensWF n (gs.filter fun g => g.kind != .cpoint) = true := by
    unfold gensWF at hw ⊢
    rw [List.all_eq_true] at hw ⊢
    exact fun g hg => hw g (List.mem_filter.mp hg).1
  obtain ⟨ds, hns, hsem⟩ := genSem_closed_of_no_cpoint n _ hw' (by
    intro g hg
    have := (List.mem_filter.mp hg).2
    simpa using this)
  exact ⟨ds, hns, by rw [hsem, genSem_drop_cpoints n gs hw hm]⟩

end PPLV.PolyOps
