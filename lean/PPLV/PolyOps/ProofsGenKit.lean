import PPLV.PolyOps.Sem

/-!
# C02 stage 2 — the generator toolkit, part 1

Reading raw rows as K1 generators (`Row.toGen`), the "same admitted rows ⇒ same generated set"
principle (`genSem_congr_admits`), and the toolkit facts `Kit.nonempty`, `Kit.memEquiv`,
`Kit.strongNormalizeWF`, `Kit.removeInvalid`.
-/
namespace PPLV.PolyOps
open PPLV.Lin

/-! ### `Row.toGen` -/

theorem toGen_coords (nnc : Bool) (r : Row) : (r.toGen nnc).coords = r.cf := by
  unfold Row.toGen
  split
  · rfl
  · split
    · rfl
    · split <;> rfl

theorem toGen_eq (nnc : Bool) (r : Row) (h : r.eq = true) : r.toGen nnc = ⟨.line, r.cf, 1⟩ := by
  unfold Row.toGen; rw [if_pos h]

theorem toGen_ray (nnc : Bool) (r : Row) (h : r.eq = false) (hb : r.b = 0) :
    r.toGen nnc = ⟨.ray, r.cf, 1⟩ := by
  unfold Row.toGen; simp [h, hb]

theorem toGen_cp (nnc : Bool) (r : Row) (h : r.eq = false) (hb : r.b ≠ 0) (hn : nnc = true)
    (he : r.eps = 0) : r.toGen nnc = ⟨.cpoint, r.cf, r.b⟩ := by
  unfold Row.toGen; simp [h, hb, hn, he]

theorem toGen_pt (nnc : Bool) (r : Row) (h : r.eq = false) (hb : r.b ≠ 0)
    (hn : ¬ (nnc = true ∧ r.eps = 0)) : r.toGen nnc = ⟨.point, r.cf, r.b⟩ := by
  unfold Row.toGen
  have : (nnc && r.eps == 0) = false := by
    cases nnc <;> simp_all
  simp [h, hb, this]

/-- the four shapes of a raw generator row -/
inductive RowShape (nnc : Bool) (r : Row) : Prop
  | line (h : r.eq = true) (hg : r.toGen nnc = ⟨.line, r.cf, 1⟩)
  | ray (h : r.eq = false) (hb : r.b = 0) (hg : r.toGen nnc = ⟨.ray, r.cf, 1⟩)
  | cp (h : r.eq = false) (hb : r.b ≠ 0) (hn : nnc = true) (he : r.eps = 0)
      (hg : r.toGen nnc = ⟨.cpoint, r.cf, r.b⟩)
  | pt (h : r.eq = false) (hb : r.b ≠ 0) (hn : ¬ (nnc = true ∧ r.eps = 0))
      (hg : r.toGen nnc = ⟨.point, r.cf, r.b⟩)

theorem rowShape (nnc : Bool) (r : Row) : RowShape nnc r := by
  by_cases h : r.eq = true
  · exact .line h (toGen_eq nnc r h)
  · have h' : r.eq = false := by simpa using h
    by_cases hb : r.b = 0
    · exact .ray h' hb (toGen_ray nnc r h' hb)
    · by_cases hn : nnc = true ∧ r.eps = 0
      · exact .cp h' hb hn.1 hn.2 (toGen_cp nnc r h' hb hn.1 hn.2)
      · exact .pt h' hb hn (toGen_pt nnc r h' hb hn)

theorem toGen_wf (nnc : Bool) (n : Nat) (r : Row) (h : r.genWF nnc n) :
    (r.toGen nnc).coords.length ≤ n ∧ 0 < (r.toGen nnc).d := by
  obtain ⟨h1, h2, -⟩ := h
  refine ⟨by rw [toGen_coords, h1], ?_⟩
  rcases rowShape nnc r with ⟨_, hg⟩ | ⟨_, _, hg⟩ | ⟨_, hb, _, _, hg⟩ | ⟨_, hb, _, hg⟩ <;> rw [hg] <;>
    simp [Gen.d, Gen.isPtOrCp] <;> omega

theorem gensWF_gensOf (nnc : Bool) (n : Nat) (rows : List Row) (h : ∀ r ∈ rows, r.genWF nnc n) :
    gensWF n (gensOf nnc rows) = true := by
  unfold gensWF gensOf
  simp only [List.all_eq_true, List.mem_map, Bool.and_eq_true, decide_eq_true_eq]
  rintro g ⟨r, hr, rfl⟩
  exact toGen_wf nnc n r (h r hr)

theorem toGen_isPt_iff (nnc : Bool) (n : Nat) (r : Row) (h : r.genWF nnc n) :
    (r.toGen nnc).isPt = true ↔ r.isPoint nnc := by
  obtain ⟨_, h2, h3, _, h5, _⟩ := h
  unfold Row.isPoint
  rcases rowShape nnc r with ⟨he, hg⟩ | ⟨he, hb, hg⟩ | ⟨he, hb, hn, hz, hg⟩ | ⟨he, hb, hn, hg⟩ <;>
    rw [hg] <;> simp [Gen.isPt, he]
  · intro hb'; omega
  · intro _; exact ⟨hn, by omega⟩
  · refine ⟨by omega, fun hn' => ?_⟩
    have : r.eps ≠ 0 := fun hz => hn ⟨hn', hz⟩
    omega

theorem gensOf_pt (nnc : Bool) (n : Nat) (rows : List Row) (h : ∀ r ∈ rows, r.genWF nnc n) :
    (∃ g ∈ gensOf nnc rows, g.isPt = true) ↔ ∃ r ∈ rows, r.isPoint nnc := by
  unfold gensOf
  simp only [List.mem_map]
  constructor
  · rintro ⟨g, ⟨r, hr, rfl⟩, hp⟩
    exact ⟨r, hr, (toGen_isPt_iff nnc n r (h r hr)).mp hp⟩
  · rintro ⟨r, hr, hp⟩
    exact ⟨_, ⟨r, hr, rfl⟩, (toGen_isPt_iff nnc n r (h r hr)).mpr hp⟩

/-! ### a system without a point generates nothing; same admitted rows ⇒ same set -/

theorem GenSem_no_point (n : Nat) (gs : List Gen) (h : ¬ ∃ g ∈ gs, g.isPt = true) :
    GenSem n gs = ∅ := by
  ext x
  simp only [Set.mem_empty_iff_false, iff_false]
  rintro ⟨lam, _, _, ⟨j, hj, hp, _⟩, _⟩
  exact h ⟨_, mem_getD gs j hj, hp⟩

theorem genSem_subset_of_admits (n : Nat) (A B : List Gen) (hB : gensWF n B = true)
    (hpB : ∃ g ∈ B, g.isPt = true)
    (hadm : ∀ c : Con, c.coeffs.length ≤ n → (∀ g ∈ B, rowAdmits c g) → ∀ g ∈ A, rowAdmits c g) :
    GenSem n A ⊆ GenSem n B := by
  rw [← sem_gensToCons n B hB, subset_sem_iff]
  intro c hc
  have hlen := gensToCons_wf n B c hc
  apply genSem_row_of_admits n A c hlen
  apply hadm c hlen
  apply (genSem_subset_row_iff n B hpB c hlen).mp
  rw [← sem_gensToCons n B hB]
  exact fun x hx => hx c hc

/-- two well-formed generator systems admitting the same rows generate the same set -/
theorem genSem_congr_admits (n : Nat) (A B : List Gen) (hA : gensWF n A = true)
    (hB : gensWF n B = true) (hpt : (∃ g ∈ A, g.isPt = true) ↔ ∃ g ∈ B, g.isPt = true)
    (hadm : ∀ c : Con, c.coeffs.length ≤ n → ((∀ g ∈ A, rowAdmits c g) ↔ ∀ g ∈ B, rowAdmits c g)) :
    GenSem n A = GenSem n B := by
  by_cases hpA : ∃ g ∈ A, g.isPt = true
  · have hpB := hpt.mp hpA
    exact Set.Subset.antisymm
      (genSem_subset_of_admits n A B hB hpB fun c hc => (hadm c hc).mpr)
      (genSem_subset_of_admits n B A hA hpA fun c hc => (hadm c hc).mp)
  · have hpB : ¬ ∃ g ∈ B, g.isPt = true := fun h => hpA (hpt.mpr h)
    rw [GenSem_no_point n A hpA, GenSem_no_point n B hpB]

/-- row-wise version: a row transformer that keeps well-formedness, pointness and the admitted
    rows of every single generator keeps the generated set -/
theorem genSem_map_congr (nnc : Bool) (n : Nat) (rows : List Row) (f : Row → Row)
    (hwf : ∀ r ∈ rows, r.genWF nnc n) (hwf' : ∀ r ∈ rows, (f r).genWF nnc n)
    (hpt : ∀ r ∈ rows, (f r).isPoint nnc ↔ r.isPoint nnc)
    (hadm : ∀ r ∈ rows, ∀ c : Con, rowAdmits c ((f r).toGen nnc) ↔ rowAdmits c (r.toGen nnc)) :
    genSem nnc n (rows.map f) = genSem nnc n rows := by
  have hwf'' : ∀ r ∈ rows.map f, r.genWF nnc n := by
    intro r hr
    obtain ⟨r0, hr0, rfl⟩ := List.mem_map.mp hr
    exact hwf' r0 hr0
  unfold genSem
  apply genSem_congr_admits n _ _ (gensWF_gensOf nnc n _ hwf'') (gensWF_gensOf nnc n _ hwf)
  · rw [gensOf_pt nnc n _ hwf'', gensOf_pt nnc n _ hwf]
    simp only [List.mem_map]
    constructor
    · rintro ⟨r, ⟨r0, hr0, rfl⟩, hp⟩; exact ⟨r0, hr0, (hpt r0 hr0).mp hp⟩
    · rintro ⟨r, hr, hp⟩; exact ⟨f r, ⟨r, hr, rfl⟩, (hpt r hr).mpr hp⟩
  · intro c _
    unfold gensOf
    simp only [List.mem_map]
    constructor
    · rintro h g ⟨r, hr, rfl⟩
      exact (hadm r hr c).mp (h _ ⟨f r, ⟨r, hr, rfl⟩, rfl⟩)
    · rintro h g ⟨r, ⟨r0, hr0, rfl⟩, rfl⟩
      exact (hadm r0 hr0 c).mpr (h _ ⟨r0, hr0, rfl⟩)

/-! ### `Kit.nonempty`, `Kit.memEquiv` -/

theorem kit_nonempty : Kit.nonempty := by
  intro nnc n rows hwf hpt
  obtain ⟨g, hg, hp⟩ := (gensOf_pt nnc n rows hwf).mpr hpt
  exact ⟨g.vec, genSem_point n _ g hg hp _ (fun _ _ => rfl)⟩

theorem kit_memEquiv : Kit.memEquiv := by
  intro n A B hA hAB
  have hB : gensWF n B = true := by
    unfold gensWF at hA ⊢
    rw [List.all_eq_true] at hA ⊢
    exact fun g hg => hA g ((hAB g).mpr hg)
  apply genSem_congr_admits n A B hA hB
  · exact ⟨fun ⟨g, hg, hp⟩ => ⟨g, (hAB g).mp hg, hp⟩, fun ⟨g, hg, hp⟩ => ⟨g, (hAB g).mpr hg, hp⟩⟩
  · intro c _
    exact ⟨fun h g hg => h g ((hAB g).mpr hg), fun h g hg => h g ((hAB g).mp hg)⟩

/-! ### normalisation: shape and well-formedness -/

theorem rowGcd_dvd_b (r : Row) : ((r.gcd : Nat) : Int) ∣ r.b :=
  Int.natCast_dvd.mpr (Nat.gcd_dvd_left _ _)

theorem rowGcd_dvd_eps (r : Row) : ((r.gcd : Nat) : Int) ∣ r.eps :=
  Int.natCast_dvd.mpr (dvd_trans (Nat.gcd_dvd_right _ _) (Nat.gcd_dvd_right _ _))

theorem rowGcd_dvd_cf (r : Row) (a : Int) (ha : a ∈ r.cf) : ((r.gcd : Nat) : Int) ∣ a :=
  dvd_trans (Int.natCast_dvd_natCast.mpr (dvd_trans (Nat.gcd_dvd_right _ _) (Nat.gcd_dvd_left _ _)))
    (gcdList_dvd _ a ha)

/-- the row divided by `g` -/
def Row.divBy (g : Int) (r : Row) : Row := ⟨r.eq, r.b / g, r.cf.map (· / g), r.eps / g⟩

/-- `normalize` divides by a positive common divisor of all columns -/
theorem normalize_eq (r : Row) : ∃ g : Int, 0 < g ∧ g ∣ r.b ∧ g ∣ r.eps ∧ (∀ a ∈ r.cf, g ∣ a) ∧
    r.normalize = r.divBy g := by
  unfold Row.normalize
  simp only
  split
  · refine ⟨1, Int.one_pos, one_dvd _, one_dvd _, fun _ _ => one_dvd _, ?_⟩
    cases r
    simp [Row.divBy]
  · rename_i hg
    refine ⟨(r.gcd : Int), by omega, rowGcd_dvd_b r, rowGcd_dvd_eps r, rowGcd_dvd_cf r, rfl⟩

theorem signNormalize_eq (r : Row) :
    r.signNormalize = r ∨ (r.eq = true ∧ r.signNormalize = r.scale (-1)) := by
  unfold Row.signNormalize
  split
  · rename_i h
    simp only [Bool.and_eq_true] at h
    exact Or.inr ⟨h.1, rfl⟩
  · exact Or.inl rfl

theorem divBy_genWF (nnc : Bool) (n : Nat) (r : Row) (g : Int) (hg : 0 < g) (hb : g ∣ r.b)
    (he : g ∣ r.eps) (h : r.genWF nnc n) :
    (r.divBy g).genWF nnc n ∧ (r.isPoint nnc → (r.divBy g).isPoint nnc) := by
  obtain ⟨h1, h2, h3, h4, h5, h6⟩ := h
  obtain ⟨qb, hqb⟩ := hb
  obtain ⟨qe, hqe⟩ := he
  have hgne : g ≠ 0 := ne_of_gt hg
  have eb : r.b / g = qb := by rw [hqb, Int.mul_ediv_cancel_left _ hgne]
  have ee : r.eps / g = qe := by rw [hqe, Int.mul_ediv_cancel_left _ hgne]
  have pos_iff : ∀ q : Int, (0 ≤ g * q ↔ 0 ≤ q) ∧ (0 < g * q ↔ 0 < q) ∧ (g * q = 0 ↔ q = 0) := by
    intro q
    refine ⟨⟨fun h => ?_, fun h => Int.mul_nonneg (le_of_lt hg) h⟩,
      ⟨fun h => ?_, fun h => Int.mul_pos hg h⟩, ⟨fun h => ?_, fun h => by rw [h, Int.mul_zero]⟩⟩
    · by_contra hn; have : q ≤ -1 := by omega
      nlinarith
    · by_contra hn; have : q ≤ 0 := by omega
      nlinarith
    · rcases Int.mul_eq_zero.mp h with h | h
      · exact absurd h hgne
      · exact h
  unfold Row.genWF Row.isPoint Row.divBy
  simp only [List.length_map, eb, ee]
  rw [hqb] at h2 h4 h5
  rw [hqe] at h3 h5 h6
  refine ⟨⟨h1, (pos_iff qb).1.mp h2, (pos_iff qe).1.mp h3, fun h => (pos_iff qb).2.2.mp (h4 h),
    fun h => (pos_iff qe).2.2.mp (h5 ((pos_iff qb).2.2.mpr h)),
    fun h => (pos_iff qe).2.2.mp (h6 h)⟩, ?_⟩
  rintro ⟨p1, p2, p3⟩
  rw [hqb] at p2
  rw [hqe] at p3
  exact ⟨p1, (pos_iff qb).2.1.mp p2, fun h => (pos_iff qe).2.1.mp (p3 h)⟩

theorem normalize_genWF (nnc : Bool) (n : Nat) (r : Row) (h : r.genWF nnc n) :
    r.normalize.genWF nnc n ∧ (r.isPoint nnc → r.normalize.isPoint nnc) := by
  obtain ⟨g, hg, hb, he, _, heq⟩ := normalize_eq r
  rw [heq]
  exact divBy_genWF nnc n r g hg hb he h

theorem signNormalize_genWF (nnc : Bool) (n : Nat) (r : Row) (h : r.genWF nnc n) :
    r.signNormalize.genWF nnc n ∧ (r.isPoint nnc → r.signNormalize.isPoint nnc) := by
  rcases signNormalize_eq r with heq | ⟨hl, heq⟩
  · rw [heq]; exact ⟨h, id⟩
  · rw [heq]
    obtain ⟨h1, h2, h3, h4, h5, h6⟩ := h
    have hb := h4 hl
    have he := h5 hb
    refine ⟨?_, fun hp => ?_⟩
    · unfold Row.genWF Row.scale
      simp [h1, hb, he]
    · have := hp.1; rw [hl] at this; cases this

theorem kit_strongNormalizeWF : Kit.strongNormalizeWF := by
  intro nnc n r h
  have hn := normalize_genWF nnc n r h
  have hs := signNormalize_genWF nnc n r.normalize hn.1
  exact ⟨hs.1, hn.1, fun hp => ⟨hs.2 (hn.2 hp), hn.2 hp⟩⟩

end PPLV.PolyOps
