import PPLV.PolyOps.ProofsAffine2

/-!
# C02 stage 2 — `Polyhedron::affine_preimage` at row level: correctness and well-formedness

Mirror image of `ProofsAffine2.lean`: in the invertible case the constraints are substituted
(`csSigned`) and the generators are mapped by the INVERSE map (`imgSet_inverse_eq_preSet`); in the
non-invertible case only the substituted constraints remain.
-/
namespace PPLV.PolyOps
open PPLV.Lin

/-! ### the shape of the result -/

theorem affine_preimage_empty (p q : Poly) (v : Nat) (e : LinExpr) (den : Int)
    (hem : p.st.empty = true) (h : p.affine_preimage v e den = some q) : q = p := by
  unfold Poly.affine_preimage at h
  rw [if_pos hem] at h
  exact (Option.some.inj h).symm

theorem affine_preimage_inv_shape (p q : Poly) (v : Nat) (e : LinExpr) (den : Int)
    (hem : p.st.empty = false) (hc : e.coeffs.getD v 0 ≠ 0)
    (h : p.affine_preimage v e den = some q) :
    q.st = p.st ∧ q.nnc = p.nnc ∧ q.dim = p.dim ∧
    q.cs = (if p.st.cUp = true then csSigned v e den p.cs else p.cs) ∧
    q.gs = (if p.st.gUp = true then
        gsAffineImage v (inverseMap p.dim v e den).1 (inverseMap p.dim v e den).2 p.gs
      else p.gs) := by
  unfold Poly.affine_preimage at h
  have hem' : ¬ (p.st.empty = true) := by simp [hem]
  rw [if_neg hem', if_pos (bne_iff_ne.mpr hc)] at h
  have hq := (Option.some.inj h).symm
  subst hq
  cases hg : p.st.gUp <;> cases hcu : p.st.cUp <;> simp [hg, csSigned]

theorem affine_preimage_noninv_shape (p q : Poly) (v : Nat) (e : LinExpr) (den : Int) (hp : p.WF)
    (hem : p.st.empty = false) (hc : e.coeffs.getD v 0 = 0)
    (h : p.affine_preimage v e den = some q) :
    p.st.cUp = true ∧ p.st.gPend = false ∧ q.nnc = p.nnc ∧ q.dim = p.dim ∧
    (∃ cs0 : Sys, cs0.rows = p.cs.rows ∧ q.cs = csSigned v e den cs0) ∧
    q.st.empty = false ∧ q.st.gUp = false ∧ q.st.cUp = true ∧ q.st.cPend = false ∧
    q.st.gPend = false := by
  unfold Poly.affine_preimage at h
  have hem' : ¬ (p.st.empty = true) := by simp [hem]
  have hc' : ¬ ((e.coeffs.getD v 0 != 0) = true) := by rw [hc]; decide
  rw [if_neg hem', if_neg hc'] at h
  simp only [Status.somethingPending] at h
  by_cases hcp : p.st.cPend = true
  · obtain ⟨hcu, _⟩ := hp.pend_c hcp
    have hgp : p.st.gPend = false := by
      cases hx : p.st.gPend
      · rfl
      · exact absurd ⟨hcp, hx⟩ hp.pend_one
    simp only [hcp, hgp, Bool.true_or, if_true, Option.map_some] at h
    have hq := (Option.some.inj h).symm
    subst hq
    refine ⟨hcu, hgp, rfl, rfl, ⟨{ p.cs.unsetPending with sorted := false }, rfl, rfl⟩,
      ?_, ?_, ?_, ?_, ?_⟩ <;> simp [Status.clearGUp, hem, hcu]
  · have hcp' : p.st.cPend = false := by simpa using hcp
    cases hgp : p.st.gPend
    · cases hcu : p.st.cUp
      · simp [hcp', hgp, hcu] at h
      · simp only [hcp', hgp, hcu, Bool.or_self, Bool.false_eq_true, if_false, Bool.not_true,
          Option.map_some] at h
        have hq := (Option.some.inj h).symm
        subst hq
        refine ⟨rfl, rfl, rfl, rfl, ⟨p.cs, rfl, rfl⟩, ?_, ?_, ?_, ?_, ?_⟩ <;>
          simp [Status.clearGUp, hem, hcu, hcp']
    · simp [hcp', hgp] at h

/-! ### correctness -/

/-- **`Polyhedron::affine_preimage` at row level computes the reference preimage.** -/
theorem affine_preimage_rows_correct (p q : Poly) (v : Nat) (e : LinExpr) (den : Int)
    (ref : RefPoly) (hn : ref.n = p.dim) (_hnnc : ref.nnc = p.nnc) (hwf : WF ref.n ref.cs)
    (hp : p.WF) (hv : v < p.dim) (he : e.coeffs.length = p.dim) (hden : den ≠ 0)
    (hD : p.Denotes (sem ref.cs)) (h : p.affine_preimage v e den = some q) :
    q.Denotes (sem (ref.affinePreimage v e den).cs) := by
  rw [sem_affinePreimage ref v e den hwf (by rw [hn]; exact hv) (by rw [hn]; exact le_of_eq he), hn]
  have hSdet : CoordDet p.dim (sem ref.cs) := by rw [← hn]; exact coordDet_sem _ _ hwf
  cases hem : p.st.empty
  · obtain ⟨hDc, hDg, _⟩ := hD.2 hem
    by_cases hc : e.coeffs.getD v 0 = 0
    · -- not invertible: only the constraints remain
      obtain ⟨hcu, hgp, hqn, hqd, ⟨cs0, hcs0, hqcs⟩, h1, h2, h3, _, _⟩ :=
        affine_preimage_noninv_shape p q v e den hp hem hc h
      have hcon := hDc hcu hgp
      have hfacts := csSigned_facts p.nnc p.dim v e den cs0
        (by rw [hcs0]; exact hp.cs_len hem hcu) hv he hden
      refine ⟨fun hq => (by rw [h1] at hq; cases hq), fun _ =>
        ⟨fun _ _ => ?_, fun hq => (by rw [h2] at hq; cases hq),
         fun hq => (by rw [h3] at hq; cases hq)⟩⟩
      rw [hqn, hqcs, hfacts.1, hcs0, hcon]
      exact preSet_eq_subst p.dim v e den hden _ hSdet
    · -- invertible: constraints substituted, generators mapped by the inverse
      obtain ⟨hst, hqn, hqd, hqcs, hqgs⟩ := affine_preimage_inv_shape p q v e den hem hc h
      unfold Poly.Denotes
      rw [hst, hqn, hqd, hqgs, hqcs]
      refine ⟨fun hq => (by rw [hem] at hq; cases hq), fun _ =>
        ⟨fun hcu hgp => ?_, fun hgu hcp => ?_, fun hcu hgu => ?_⟩⟩
      · rw [if_pos hcu]
        have hf := csSigned_facts p.nnc p.dim v e den p.cs (hp.cs_len hem hcu) hv he hden
        rw [hf.1, hDc hcu hgp]
        exact preSet_eq_subst p.dim v e den hden _ hSdet
      · rw [if_pos hgu]
        have hf := gsAffineImage_facts p.nnc p.dim v (inverseMap p.dim v e den).1
          (inverseMap p.dim v e den).2 p.gs (hp.gs_wf hem hgu) hv
          (le_of_eq (inverseMap_length _ _ _ _)) (inverseMap_den_pos _ _ _ _ hc)
        rw [hf.1, hDg hgu hcp]
        exact imgSet_inverse_eq_preSet p.dim v e den hv he hden hc _
      · exfalso
        rcases hp.some_up hem (by omega) with h' | h'
        · rw [hcu] at h'; cases h'
        · rw [hgu] at h'; cases h'
  · have hq := affine_preimage_empty p q v e den hem h
    subst hq
    rw [hD.1 hem, preSet_empty]
    exact ⟨fun _ => rfl, fun h' => by rw [hem] at h'; cases h'⟩

/-! ### well-formedness of the result

Note: the preimage of a non-empty set under a non-invertible map may be empty (e.g. the preimage of
`{x = 1}` under `x := 0`); the result then holds an infeasible constraint system without being
marked empty, as in the library.  `Poly.WF` asks nothing of a constraint-only description beyond
the row lengths, so well-formedness is unconditional. -/
theorem affine_preimage_rows_wf (p q : Poly) (v : Nat) (e : LinExpr) (den : Int) (hp : p.WF)
    (hv : v < p.dim) (he : e.coeffs.length = p.dim) (hden : den ≠ 0)
    (h : p.affine_preimage v e den = some q) : q.WF := by
  cases hem : p.st.empty
  · by_cases hc : e.coeffs.getD v 0 = 0
    · obtain ⟨hcu, _, hqn, hqd, ⟨cs0, hcs0, hqcs⟩, _, h2, h3, h4, h5⟩ :=
        affine_preimage_noninv_shape p q v e den hp hem hc h
      have hfacts := csSigned_facts p.nnc p.dim v e den cs0
        (by rw [hcs0]; exact hp.cs_len hem hcu) hv he hden
      refine ⟨fun _ _ => ?_, fun _ hq => (by rw [h2] at hq; cases hq),
        fun _ hq => (by rw [h2] at hq; cases hq),
        fun hq => (by rw [h4] at hq; cases hq), fun hq => (by rw [h5] at hq; cases hq),
        fun hq => (by rw [h4] at hq; cases hq.1), fun _ _ => Or.inl h3,
        fun hq => (by rw [hqd] at hq; omega)⟩
      rw [hqd, hqcs]; exact hfacts.2
    · obtain ⟨hst, hqn, hqd, hqcs, hqgs⟩ := affine_preimage_inv_shape p q v e den hem hc h
      have hgf := fun hgu => gsAffineImage_facts p.nnc p.dim v (inverseMap p.dim v e den).1
          (inverseMap p.dim v e den).2 p.gs (hp.gs_wf hem hgu) hv
          (le_of_eq (inverseMap_length _ _ _ _)) (inverseMap_den_pos _ _ _ _ hc)
      refine ⟨?_, ?_, ?_, ?_, ?_, ?_, ?_, ?_⟩
      · rw [hst, hqd, hqcs]
        intro _ hcu
        rw [if_pos hcu]
        exact (csSigned_facts p.nnc p.dim v e den p.cs (hp.cs_len hem hcu) hv he hden).2
      · rw [hst, hqn, hqd, hqgs]
        intro _ hgu
        rw [if_pos hgu]
        exact (hgf hgu).2.1
      · rw [hst, hqn, hqgs]
        intro _ hgu
        rw [if_pos hgu]
        exact (hgf hgu).2.2 (hp.gs_pt hem hgu)
      · rw [hst]; exact hp.pend_c
      · rw [hst]; exact hp.pend_g
      · rw [hst]; exact hp.pend_one
      · rw [hst, hqd]; exact hp.some_up
      · rw [hst, hqd]; exact hp.zero_dim
  · have hq := affine_preimage_empty p q v e den hem h
    subst hq
    exact hp

end PPLV.PolyOps
