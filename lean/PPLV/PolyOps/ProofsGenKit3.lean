import PPLV.PolyOps.ProofsGenKit2

/-!
# C02 stage 2 — the generator toolkit, part 3

`Kit.affineImageWF`, `Kit.affineImage`, `Kit.selectCoords`, `Kit.addLines`: these work with the
definition of `GenSem` directly (multiplier vectors).
-/
namespace PPLV.PolyOps
open PPLV.Lin

/-! ### lists and weighted sums -/

theorem getD_map_lt {α β : Type} [Inhabited α] [Inhabited β] (l : List α) (f : α → β) (j : Nat)
    (hj : j < l.length) : (l.map f).getD j default = f (l.getD j default) := by
  simp [List.getD_eq_getElem?_getD, hj]

theorem getD_mem_rows {α : Type} [Inhabited α] (l : List α) (j : Nat) (hj : j < l.length) :
    l.getD j default ∈ l := by
  have : l.getD j default = l[j] := by simp [List.getD_eq_getElem?_getD, hj]
  rw [this]; exact List.getElem_mem hj

theorem gensOf_length (nnc : Bool) (rows : List Row) : (gensOf nnc rows).length = rows.length := by
  simp [gensOf]

theorem gensOf_getD (nnc : Bool) (rows : List Row) (j : Nat) (hj : j < rows.length) :
    (gensOf nnc rows).getD j default = (rows.getD j default).toGen nnc :=
  getD_map_lt rows _ j hj

theorem wsum_congr2 (f f' : Gen → Rat) (A B : List Gen) (hlen : A.length = B.length)
    (lam lam' : Val)
    (h : ∀ j < A.length, lam j * f (A.getD j default) = lam' j * f' (B.getD j default)) :
    wsum f A lam = wsum f' B lam' := by
  induction A generalizing B lam lam' with
  | nil =>
    cases B with
    | nil => rfl
    | cons b B => simp at hlen
  | cons a A ih =>
    cases B with
    | nil => simp at hlen
    | cons b B =>
      simp only [wsum]
      have h0 := h 0 (by simp)
      simp only [List.getD_cons_zero] at h0
      rw [h0, ih B (by simpa using hlen) lam.tail lam'.tail]
      intro j hj
      have := h (j+1) (by simp; omega)
      simpa [Val.tail] using this

theorem wsum_mul_fn (f : Gen → Rat) (a : Rat) (gs : List Gen) (lam : Val) :
    wsum (fun g => a * f g) gs lam = a * wsum f gs lam := by
  induction gs generalizing lam with
  | nil => simp [wsum]
  | cons g gs ih => simp only [wsum, ih]; ring

theorem wsum_add_fn (f1 f2 : Gen → Rat) (gs : List Gen) (lam : Val) :
    wsum (fun g => f1 g + f2 g) gs lam = wsum f1 gs lam + wsum f2 gs lam := by
  induction gs generalizing lam with
  | nil => simp [wsum]
  | cons g gs ih => simp only [wsum, ih]; ring

theorem wsum_append (f : Gen → Rat) (A B : List Gen) (lam : Val) :
    wsum f (A ++ B) lam = wsum f A lam + wsum f B (fun j => lam (j + A.length)) := by
  induction A generalizing lam with
  | nil => simp [wsum]
  | cons a A ih =>
    simp only [List.cons_append, wsum, ih, List.length_cons]
    have : (fun j => lam.tail (j + A.length)) = fun j => lam (j + (A.length + 1)) := rfl
    rw [this]; ring

/-- moving between two generator lists of the same length and the same kinds, the multipliers of
    rays and lines rescaled by positive factors: the side conditions of `GenSem` correspond -/
theorem genSem_transfer (A A' : List Gen) (hlen : A'.length = A.length) (s : Nat → Rat)
    (hs : ∀ j < A.length, 0 < s j)
    (hk : ∀ j < A.length, (A'.getD j default).kind = (A.getD j default).kind)
    (hs1 : ∀ j < A.length, (A.getD j default).isPtOrCp = true → s j = 1)
    (lam lam' : Val) (hrel : ∀ j < A.length, lam j = s j * lam' j) :
    ((∀ j < A.length, (A.getD j default).isLine = false → 0 ≤ lam j) ∧
      wsum pcf A lam = 1 ∧ (∃ j < A.length, (A.getD j default).isPt = true ∧ 0 < lam j)) ↔
    ((∀ j < A'.length, (A'.getD j default).isLine = false → 0 ≤ lam' j) ∧
      wsum pcf A' lam' = 1 ∧ (∃ j < A'.length, (A'.getD j default).isPt = true ∧ 0 < lam' j)) := by
  rw [hlen]
  have kl : ∀ j < A.length, (A'.getD j default).isLine = (A.getD j default).isLine :=
    fun j hj => by unfold Gen.isLine; rw [hk j hj]
  have kp : ∀ j < A.length, (A'.getD j default).isPt = (A.getD j default).isPt :=
    fun j hj => by unfold Gen.isPt; rw [hk j hj]
  have kc : ∀ j < A.length, (A'.getD j default).isPtOrCp = (A.getD j default).isPtOrCp :=
    fun j hj => by unfold Gen.isPtOrCp; rw [hk j hj]
  have hsum : wsum pcf A lam = wsum pcf A' lam' := by
    apply wsum_congr2 _ _ _ _ hlen.symm
    intro j hj
    show lam j * (if (A.getD j default).isPtOrCp then (1 : Rat) else 0)
      = lam' j * (if (A'.getD j default).isPtOrCp then (1 : Rat) else 0)
    rw [kc j hj]
    by_cases hp : (A.getD j default).isPtOrCp = true
    · rw [if_pos hp, hrel j hj, hs1 j hj hp]; ring
    · rw [if_neg hp]; ring
  rw [hsum]
  refine and_congr ?_ (and_congr Iff.rfl ?_)
  · refine forall_congr' fun j => ?_
    refine imp_congr_right fun hj => ?_
    rw [kl j hj, hrel j hj]
    exact imp_congr_right fun _ => mul_nonneg_iff_of_pos_left (hs j hj)
  · refine exists_congr fun j => ?_
    refine and_congr_right fun hj => ?_
    rw [kp j hj, hrel j hj]
    exact and_congr_right fun _ => mul_pos_iff_of_pos_left (hs j hj)

/-! ### columns -/

theorem getD_map_mul (cf : List Int) (k : Int) (i : Nat) :
    (cf.map (k * ·)).getD i 0 = k * cf.getD i 0 := by
  induction cf generalizing i with
  | nil => simp
  | cons a as ih =>
    cases i with
    | zero => simp
    | succ i => simpa using ih i

theorem getD_set_ne (l : List Int) (v i : Nat) (a : Int) (h : i ≠ v) :
    (l.set v a).getD i 0 = l.getD i 0 := by
  simp [List.getD_eq_getElem?_getD, List.getElem?_set_ne (Ne.symm h)]

theorem getD_set_self (l : List Int) (v : Nat) (a : Int) (h : v < l.length) :
    (l.set v a).getD v 0 = a := by
  simp [List.getD_eq_getElem?_getD, h]

theorem idot_cast (as cf : List Int) :
    ((idot as cf : Int) : Rat) = dot as (fun i => ((cf.getD i 0 : Int) : Rat)) := by
  induction as generalizing cf with
  | nil => simp [idot]
  | cons a as ih =>
    cases cf with
    | nil =>
      have : (fun i => (((([] : List Int).getD i 0 : Int)) : Rat)) = Val.zero := by
        funext i; simp [Val.zero]
      rw [this, dot_zero]; simp [idot]
    | cons c cs =>
      simp only [idot, dot_cons, List.getD_cons_zero]
      have : Val.tail (fun i => ((((c :: cs).getD i 0 : Int)) : Rat))
          = fun i => ((cs.getD i 0 : Int) : Rat) := by
        funext i; simp [Val.tail]
      rw [this, ← ih cs]; push_cast; ring

theorem dot_div (as : List Int) (u : Val) (b : Rat) :
    dot as (fun i => u i / b) = dot as u / b := by
  rw [dot_lin as (1 / b) 0 u u _ (fun i _ => by ring)]; ring

theorem coord_pt (cf : List Int) (b : Int) (i : Nat) :
    Gen.coord ⟨.point, cf, b⟩ i = ((cf.getD i 0 : Int) : Rat) / (b : Rat) := rfl
theorem coord_cp (cf : List Int) (b : Int) (i : Nat) :
    Gen.coord ⟨.cpoint, cf, b⟩ i = ((cf.getD i 0 : Int) : Rat) / (b : Rat) := rfl
theorem coord_ray (cf : List Int) (b : Int) (i : Nat) :
    Gen.coord ⟨.ray, cf, b⟩ i = ((cf.getD i 0 : Int) : Rat) := vec_ray cf b i
theorem coord_line (cf : List Int) (b : Int) (i : Nat) :
    Gen.coord ⟨.line, cf, b⟩ i = ((cf.getD i 0 : Int) : Rat) := vec_line cf b i

/-! ### the affine image of one row -/

theorem genRowAffineImage_eq (v : Nat) (e : LinExpr) (den : Int) (r : Row) :
    genRowAffineImage v e den r =
      ⟨r.eq, den * r.b, (r.cf.map (den * ·)).set v (e.k * r.b + idot e.coeffs r.cf), den * r.eps⟩ := by
  unfold genRowAffineImage
  by_cases h : den = 1
  · subst h; cases r; simp
  · simp [h, Row.scale]

theorem kit_affineImageWF : Kit.affineImageWF := by
  intro nnc n v e den r hwf _ hden
  rw [genRowAffineImage_eq]
  obtain ⟨h1, h2, h3, h4, h5, h6⟩ := hwf
  have hdne : den ≠ 0 := ne_of_gt hden
  refine ⟨⟨by simp [h1], Int.mul_nonneg (le_of_lt hden) h2, Int.mul_nonneg (le_of_lt hden) h3,
    fun h => by rw [h4 h, Int.mul_zero], fun h => ?_, fun h => by rw [h6 h, Int.mul_zero]⟩, ?_⟩
  · have hb : r.b = 0 := by
      rcases Int.mul_eq_zero.mp h with h | h
      · exact absurd h hdne
      · exact h
    show den * r.eps = 0
    rw [h5 hb, Int.mul_zero]
  · rintro ⟨p1, p2, p3⟩
    exact ⟨p1, Int.mul_pos hden p2, fun h => Int.mul_pos hden (p3 h)⟩

/-- what the loop body does to one generator: same kind; off `v` the vector is kept (points) or
    scaled by `den` (rays, lines); at `v` it is the value of the expression -/
theorem affRow_facts (nnc : Bool) (n v : Nat) (e : LinExpr) (den : Int) (r : Row)
    (hwf : r.genWF nnc n) (hv : v < n) (hden : 0 < den) :
    ((genRowAffineImage v e den r).toGen nnc).kind = (r.toGen nnc).kind ∧
    (∀ i, i ≠ v → ((genRowAffineImage v e den r).toGen nnc).coord i
      = (if (r.toGen nnc).isPtOrCp then 1 else (den : Rat)) * (r.toGen nnc).coord i) ∧
    (den : Rat) * ((genRowAffineImage v e den r).toGen nnc).coord v
      = (if (r.toGen nnc).isPtOrCp then 1 else (den : Rat)) *
        (dot e.coeffs (r.toGen nnc).vec + (e.k : Rat) * pcf (r.toGen nnc)) := by
  rw [genRowAffineImage_eq]
  set r' : Row := ⟨r.eq, den * r.b, (r.cf.map (den * ·)).set v (e.k * r.b + idot e.coeffs r.cf),
    den * r.eps⟩ with hr'
  have hdne : den ≠ 0 := ne_of_gt hden
  have hdq : (den : Rat) ≠ 0 := by exact_mod_cast hdne
  have hvlen : v < (r.cf.map (den * ·)).length := by simp [hwf.1, hv]
  have hoff : ∀ i, i ≠ v → ((r'.cf.getD i 0 : Int) : Rat) = (den : Rat) * ((r.cf.getD i 0 : Int) : Rat) := by
    intro i hi
    show ((((r.cf.map (den * ·)).set v _).getD i 0 : Int) : Rat) = _
    rw [getD_set_ne _ _ _ _ hi, getD_map_mul]; push_cast; ring
  have hat : ((r'.cf.getD v 0 : Int) : Rat)
      = (e.k : Rat) * (r.b : Rat) + dot e.coeffs (fun i => ((r.cf.getD i 0 : Int) : Rat)) := by
    show ((((r.cf.map (den * ·)).set v _).getD v 0 : Int) : Rat) = _
    rw [getD_set_self _ _ _ hvlen]; push_cast; rw [idot_cast]
  have hmul0 : ∀ a : Int, den * a = 0 ↔ a = 0 := by
    intro a
    constructor
    · intro h; rcases Int.mul_eq_zero.mp h with h | h
      · exact absurd h hdne
      · exact h
    · intro h; rw [h, Int.mul_zero]
  have hbq : (((den * r.b : Int)) : Rat) = (den : Rat) * (r.b : Rat) := by push_cast; ring
  rcases rowShape nnc r with ⟨hl, hg⟩ | ⟨hl, hz, hg⟩ | ⟨hl, hz, hn, hez, hg⟩ | ⟨hl, hz, hn, hg⟩
  · -- line
    have hg' : r'.toGen nnc = ⟨.line, r'.cf, 1⟩ := toGen_eq nnc r' hl
    rw [hg, hg']
    have hvec : (Gen.vec ⟨.line, r.cf, 1⟩) = fun i => ((r.cf.getD i 0 : Int) : Rat) := by
      funext i; exact vec_line _ _ i
    have hb : r.b = 0 := hwf.2.2.2.1 hl
    refine ⟨rfl, fun i hi => ?_, ?_⟩
    · rw [coord_line, coord_line, hoff i hi]; simp [Gen.isPtOrCp]
    · rw [coord_line, hat, hvec, hb]; simp [Gen.isPtOrCp]
  · -- ray
    have hg' : r'.toGen nnc = ⟨.ray, r'.cf, 1⟩ := toGen_ray nnc r' hl ((hmul0 _).mpr hz)
    rw [hg, hg']
    have hvec : (Gen.vec ⟨.ray, r.cf, 1⟩) = fun i => ((r.cf.getD i 0 : Int) : Rat) := by
      funext i; exact vec_ray _ _ i
    refine ⟨rfl, fun i hi => ?_, ?_⟩
    · rw [coord_ray, coord_ray, hoff i hi]; simp [Gen.isPtOrCp]
    · rw [coord_ray, hat, hvec, hz]; simp [Gen.isPtOrCp]
  · -- closure point
    have hg' : r'.toGen nnc = ⟨.cpoint, r'.cf, r'.b⟩ :=
      toGen_cp nnc r' hl (fun h => hz ((hmul0 _).mp h)) hn ((hmul0 _).mpr hez)
    rw [hg, hg']
    have hbne : (r.b : Rat) ≠ 0 := by exact_mod_cast hz
    have hvec : (Gen.vec ⟨.cpoint, r.cf, r.b⟩)
        = fun i => ((r.cf.getD i 0 : Int) : Rat) / (r.b : Rat) := rfl
    refine ⟨rfl, fun i hi => ?_, ?_⟩
    · rw [coord_cp, coord_cp, hoff i hi]
      show _ / (((den * r.b : Int)) : Rat) = _
      rw [hbq]; simp only [Gen.isPtOrCp]; simp; field_simp
    · rw [coord_cp, hat, hvec, dot_div]
      show _ * (_ / (((den * r.b : Int)) : Rat)) = _
      rw [hbq]; simp only [Gen.isPtOrCp, pcf]; simp; field_simp; ring
  · -- point
    have hg' : r'.toGen nnc = ⟨.point, r'.cf, r'.b⟩ :=
      toGen_pt nnc r' hl (fun h => hz ((hmul0 _).mp h)) (fun h => hn ⟨h.1, (hmul0 _).mp h.2⟩)
    rw [hg, hg']
    have hbne : (r.b : Rat) ≠ 0 := by exact_mod_cast hz
    have hvec : (Gen.vec ⟨.point, r.cf, r.b⟩)
        = fun i => ((r.cf.getD i 0 : Int) : Rat) / (r.b : Rat) := rfl
    refine ⟨rfl, fun i hi => ?_, ?_⟩
    · rw [coord_pt, coord_pt, hoff i hi]
      show _ / (((den * r.b : Int)) : Rat) = _
      rw [hbq]; simp only [Gen.isPtOrCp]; simp; field_simp
    · rw [coord_pt, hat, hvec, dot_div]
      show _ * (_ / (((den * r.b : Int)) : Rat)) = _
      rw [hbq]; simp only [Gen.isPtOrCp, pcf]; simp; field_simp; ring

/-! ### `Kit.affineImage` -/

theorem kit_affineImage : Kit.affineImage := by
  intro nnc n v e den rows hwf hv he hden
  obtain ⟨F, hF⟩ : ∃ F, F = genRowAffineImage v e den := ⟨_, rfl⟩
  obtain ⟨A, hA⟩ : ∃ A, A = gensOf nnc rows := ⟨_, rfl⟩
  obtain ⟨A', hA'⟩ : ∃ A', A' = gensOf nnc (rows.map F) := ⟨_, rfl⟩
  have hlenA : A.length = rows.length := by rw [hA]; exact gensOf_length nnc rows
  have hlen : A'.length = A.length := by rw [hlenA, hA', gensOf_length]; simp
  have hdq : (0 : Rat) < (den : Rat) := by exact_mod_cast hden
  obtain ⟨s, hsdef⟩ : ∃ s : Nat → Rat,
      s = fun j => if (A.getD j default).isPtOrCp then 1 else (den : Rat) := ⟨_, rfl⟩
  have hs : ∀ j < A.length, 0 < s j := by
    intro j _; rw [hsdef]; show 0 < (if (A.getD j default).isPtOrCp then (1 : Rat) else (den : Rat))
    split
    · exact one_pos
    · exact hdq
  have hs1 : ∀ j < A.length, (A.getD j default).isPtOrCp = true → s j = 1 := by
    intro j _ h; rw [hsdef]; exact if_pos h
  have hfacts : ∀ j < A.length, (A'.getD j default).kind = (A.getD j default).kind ∧
      (∀ i, i ≠ v → (A'.getD j default).coord i = s j * (A.getD j default).coord i) ∧
      (den : Rat) * (A'.getD j default).coord v
        = s j * (dot e.coeffs (A.getD j default).vec + (e.k : Rat) * pcf (A.getD j default)) := by
    intro j hj
    have hj' : j < rows.length := hlenA ▸ hj
    have e1 : A.getD j default = (rows.getD j default).toGen nnc := by
      rw [hA]; exact gensOf_getD nnc rows j hj'
    have e2 : A'.getD j default = (F (rows.getD j default)).toGen nnc := by
      rw [hA', gensOf_getD nnc _ j (by simpa using hj'), getD_map_lt rows F j hj']
    rw [hsdef]
    show _ ∧ (∀ i, i ≠ v → _ = (if (A.getD j default).isPtOrCp then 1 else (den : Rat)) * _) ∧
      _ = (if (A.getD j default).isPtOrCp then 1 else (den : Rat)) * _
    rw [e1, e2, hF]
    exact affRow_facts nnc n v e den _ (hwf _ (getD_mem_rows rows j hj')) hv hden
  have hoff : ∀ lam lam' : Val, (∀ j < A.length, lam j = s j * lam' j) → ∀ i, i ≠ v →
      wsum (fun g => g.coord i) A lam = wsum (fun g => g.coord i) A' lam' := by
    intro lam lam' hrel i hi
    apply wsum_congr2 _ _ _ _ hlen.symm
    intro j hj
    rw [(hfacts j hj).2.1 i hi, hrel j hj]; ring
  have hat : ∀ lam lam' : Val, (∀ j < A.length, lam j = s j * lam' j) →
      (den : Rat) * wsum (fun g => g.coord v) A' lam'
        = wsum (fun g => dot e.coeffs g.vec + (e.k : Rat) * pcf g) A lam := by
    intro lam lam' hrel
    rw [← wsum_mul_fn]
    apply wsum_congr2 _ _ _ _ hlen
    intro j hj
    have hj2 : j < A.length := hlen ▸ hj
    show lam' j * ((den : Rat) * (A'.getD j default).coord v) = lam j * _
    rw [(hfacts j hj2).2.2, hrel j hj2]; ring
  have hval : ∀ (lam x : Val), wsum pcf A lam = 1 →
      (∀ i < n, x i = wsum (fun g => g.coord i) A lam) →
      wsum (fun g => dot e.coeffs g.vec + (e.k : Rat) * pcf g) A lam = e.val x := by
    intro lam x h2 h4
    rw [wsum_add_fn, wsum_mul_fn, h2, ← dot_wsum e.coeffs A lam x (fun i hi => h4 i (by omega))]
    unfold LinExpr.val; ring
  unfold genSem
  rw [← hF, ← hA, ← hA']
  ext w
  constructor
  · rintro ⟨lam', h1, h2, h3, h4⟩
    obtain ⟨lam, hlam⟩ : ∃ lam : Val, lam = fun j => s j * lam' j := ⟨_, rfl⟩
    have hrel : ∀ j < A.length, lam j = s j * lam' j := fun _ _ => by rw [hlam]
    have htr := (genSem_transfer A A' hlen s hs (fun j hj => (hfacts j hj).1) hs1 lam lam' hrel).mpr
      ⟨h1, h2, h3⟩
    refine ⟨fun i => wsum (fun g => g.coord i) A lam,
      ⟨lam, htr.1, htr.2.1, htr.2.2, fun _ _ => rfl⟩, ?_, ?_⟩
    · rw [h4 v hv, hat lam lam' hrel, hval lam _ htr.2.1 (fun _ _ => rfl)]
    · intro j hj hjv
      rw [h4 j hj]; exact (hoff lam lam' hrel j hjv).symm
  · rintro ⟨x, ⟨lam, h1, h2, h3, h4⟩, hwv, hwj⟩
    obtain ⟨lam', hlam'⟩ : ∃ lam' : Val, lam' = fun j => lam j / s j := ⟨_, rfl⟩
    have hrel : ∀ j < A.length, lam j = s j * lam' j := by
      intro j hj
      have := hs j hj
      rw [hlam']; show lam j = s j * (lam j / s j)
      field_simp
    have htr := (genSem_transfer A A' hlen s hs (fun j hj => (hfacts j hj).1) hs1 lam lam' hrel).mp
      ⟨h1, h2, h3⟩
    refine ⟨lam', htr.1, htr.2.1, htr.2.2, fun i hi => ?_⟩
    by_cases hiv : i = v
    · rw [hiv]
      have : (den : Rat) * w v = (den : Rat) * wsum (fun g => g.coord v) A' lam' := by
        rw [hwv, hat lam lam' hrel, hval lam x h2 h4]
      exact mul_left_cancel₀ (ne_of_gt hdq) this
    · rw [hwj i hi hiv, h4 i hi]; exact hoff lam lam' hrel i hiv

/-! ### `Kit.selectCoords` -/

theorem toGen_withCf (nnc : Bool) (r : Row) (cf' : List Int) :
    Row.toGen nnc { r with cf := cf' } = { r.toGen nnc with coords := cf' } := by
  unfold Row.toGen
  simp only
  split
  · rfl
  · split
    · rfl
    · split <;> rfl

theorem sel_getD (φ : Option Nat → Int) (hφ : φ none = 0) (src : List (Option Nat)) (k : Nat) :
    (src.map φ).getD k 0 = φ (src.getD k none) := by
  induction src generalizing k with
  | nil => simp [hφ]
  | cons a as ih =>
    cases k with
    | zero => simp
    | succ k => simpa using ih k

theorem coord_withCoords (g : Gen) (cf' : List Int) (k : Nat) :
    Gen.coord { g with coords := cf' } k = ((cf'.getD k 0 : Int) : Rat) / (g.d : Rat) := rfl

theorem selectCoords_aux (nnc : Bool) (n n' : Nat) (src : List (Option Nat)) (rows : List Row)
    (F : Row → Row)
    (hF : ∀ r, F r =
      { r with cf := src.map fun o => match o with | some j => r.cf.getD j 0 | none => 0 })
    (hsrc : ∀ k j, src.getD k none = some j → j < n) :
    GenSem n' (gensOf nnc (rows.map F)) =
      {w | ∃ x ∈ GenSem n (gensOf nnc rows), ∀ k < n',
        w k = match src.getD k none with | some j => x j | none => 0} := by
  obtain ⟨A, hA⟩ : ∃ A, A = gensOf nnc rows := ⟨_, rfl⟩
  obtain ⟨A', hA'⟩ : ∃ A', A' = gensOf nnc (rows.map F) := ⟨_, rfl⟩
  have hlenA : A.length = rows.length := by rw [hA]; exact gensOf_length nnc rows
  have hlen' : A'.length = A.length := by rw [hlenA, hA', gensOf_length]; simp
  have hfacts : ∀ j < A.length, (A'.getD j default).kind = (A.getD j default).kind ∧
      ∀ k, (A'.getD j default).coord k =
        match src.getD k none with
        | some i => (A.getD j default).coord i
        | none => 0 := by
    intro j hj
    have hj' : j < rows.length := hlenA ▸ hj
    have e1 : A.getD j default = (rows.getD j default).toGen nnc := by
      rw [hA]; exact gensOf_getD nnc rows j hj'
    have e2 : A'.getD j default = (F (rows.getD j default)).toGen nnc := by
      rw [hA', gensOf_getD nnc _ j (by simpa using hj'), getD_map_lt rows F j hj']
    rw [e1, e2, hF, toGen_withCf]
    refine ⟨rfl, fun k => ?_⟩
    rw [coord_withCoords, sel_getD _ rfl]
    cases src.getD k none with
    | none => simp
    | some i =>
      show _ = Gen.coord _ i
      unfold Gen.coord; rw [toGen_coords]
  have hsum : ∀ (lam : Val) (k : Nat), wsum (fun g => g.coord k) A' lam =
      match src.getD k none with
      | some i => wsum (fun g => g.coord i) A lam
      | none => 0 := by
    intro lam k
    cases h : src.getD k none with
    | none =>
      show _ = (0 : Rat)
      rw [← wsum_fn_zero A lam]
      apply wsum_congr2 _ _ _ _ hlen'
      intro j hj
      rw [((hfacts j (hlen' ▸ hj)).2 k), h]
    | some i =>
      show _ = wsum (fun g => g.coord i) A lam
      apply wsum_congr2 _ _ _ _ hlen'
      intro j hj
      rw [((hfacts j (hlen' ▸ hj)).2 k), h]
  have htr : ∀ lam : Val,
      ((∀ j < A.length, (A.getD j default).isLine = false → 0 ≤ lam j) ∧
        wsum pcf A lam = 1 ∧ (∃ j < A.length, (A.getD j default).isPt = true ∧ 0 < lam j)) ↔
      ((∀ j < A'.length, (A'.getD j default).isLine = false → 0 ≤ lam j) ∧
        wsum pcf A' lam = 1 ∧ (∃ j < A'.length, (A'.getD j default).isPt = true ∧ 0 < lam j)) :=
    fun lam => genSem_transfer A A' hlen' (fun _ => 1) (fun _ _ => one_pos)
      (fun j hj => (hfacts j hj).1) (fun _ _ _ => rfl) lam lam (fun _ _ => (one_mul _).symm)
  rw [← hA, ← hA']
  ext w
  constructor
  · rintro ⟨lam, h1, h2, h3, h4⟩
    have ht := (htr lam).mpr ⟨h1, h2, h3⟩
    refine ⟨fun i => wsum (fun g => g.coord i) A lam,
      ⟨lam, ht.1, ht.2.1, ht.2.2, fun _ _ => rfl⟩, fun k hk => ?_⟩
    rw [h4 k hk, hsum lam k]
  · rintro ⟨x, ⟨lam, h1, h2, h3, h4⟩, hw⟩
    have ht := (htr lam).mp ⟨h1, h2, h3⟩
    refine ⟨lam, ht.1, ht.2.1, ht.2.2, fun k hk => ?_⟩
    rw [hw k hk, hsum lam k]
    cases h : src.getD k none with
    | none => rfl
    | some i => exact h4 i (hsrc k i h)

theorem kit_selectCoords : Kit.selectCoords := by
  intro nnc n n' src rows _ _ hsrc
  exact selectCoords_aux nnc n n' src rows _ (fun _ => rfl) hsrc

/-! ### `Kit.addLines` -/

theorem getD_unit (v m i : Nat) :
    (List.replicate v (0 : Int) ++ [1] ++ List.replicate m 0).getD i 0 = if i = v then 1 else 0 := by
  induction v generalizing i with
  | zero =>
    cases i with
    | zero => simp
    | succ i =>
      simp [List.getD_eq_getElem?_getD, List.getElem?_replicate]
      split <;> rfl
  | succ v ih =>
    cases i with
    | zero => simp [List.replicate_succ]
    | succ i =>
      have := ih i
      simp only [List.replicate_succ, List.cons_append, List.getD_cons_succ]
      rw [this]; simp

theorem unitEqRow_toGen (nnc : Bool) (n v : Nat) :
    (unitEqRow n v).toGen nnc =
      ⟨.line, List.replicate v 0 ++ [1] ++ List.replicate (n - v - 1) 0, 1⟩ := rfl

theorem unitEqRow_coord (nnc : Bool) (n v i : Nat) :
    ((unitEqRow n v).toGen nnc).coord i = if i = v then 1 else 0 := by
  rw [unitEqRow_toGen, coord_line, getD_unit]
  split <;> simp

theorem getD_append_lt (A B : List Gen) (j : Nat) (hj : j < A.length) :
    (A ++ B).getD j default = A.getD j default := by
  simp [List.getD_eq_getElem?_getD, List.getElem?_append_left hj]

theorem getD_append_len (A : List Gen) (l : Gen) :
    (A ++ [l]).getD A.length default = l := by
  simp [List.getD_eq_getElem?_getD]

/-- one more line along coordinate `v`: coordinate `v` becomes arbitrary -/
theorem genSem_add_line (n : Nat) (A : List Gen) (l : Gen) (v : Nat) (hl : l.kind = .line)
    (hc : ∀ i, l.coord i = if i = v then 1 else 0) (_hv : v < n) :
    GenSem n (A ++ [l]) = {w | ∃ x ∈ GenSem n A, ∀ j < n, j ≠ v → w j = x j} := by
  have hline : l.isLine = true := by unfold Gen.isLine; rw [hl]; rfl
  have hnpt : l.isPt = false := by unfold Gen.isPt; rw [hl]; rfl
  have hpc : pcf l = 0 := by
    show (if l.isPtOrCp then (1 : Rat) else 0) = 0
    unfold Gen.isPtOrCp; rw [hl]; rfl
  have hsplit : ∀ (f : Gen → Rat) (lam : Val),
      wsum f (A ++ [l]) lam = wsum f A lam + lam A.length * f l := by
    intro f lam
    rw [wsum_append]; simp [wsum]
  have hlen : (A ++ [l]).length = A.length + 1 := by simp
  ext w
  constructor
  · rintro ⟨lam, h1, h2, ⟨j0, hj0, hp0, hl0⟩, h4⟩
    refine ⟨fun i => wsum (fun g => g.coord i) A lam, ⟨lam, ?_, ?_, ?_, fun _ _ => rfl⟩, ?_⟩
    · intro j hj hnl
      have := h1 j (by rw [hlen]; omega)
      rw [getD_append_lt A _ j hj] at this
      exact this hnl
    · have := h2
      rw [hsplit] at this
      change wsum pcf A lam + lam A.length * pcf l = 1 at this
      rw [hpc] at this
      linarith
    · by_cases hj : j0 < A.length
      · rw [getD_append_lt A _ j0 hj] at hp0
        exact ⟨j0, hj, hp0, hl0⟩
      · have : j0 = A.length := by rw [hlen] at hj0; omega
        rw [this, getD_append_len, hnpt] at hp0
        cases hp0
    · intro j hj hjv
      rw [h4 j hj, hsplit, hc j, if_neg hjv]; ring
  · rintro ⟨x, ⟨lam, h1, h2, ⟨j0, hj0, hp0, hl0⟩, h4⟩, hw⟩
    obtain ⟨lam', hlam'⟩ : ∃ lam' : Val,
      lam' = fun j => if j < A.length then lam j else w v - x v := ⟨_, rfl⟩
    have hin : ∀ j < A.length, lam' j = lam j := by
      intro j hj; rw [hlam']; exact if_pos hj
    have hout : lam' A.length = w v - x v := by
      rw [hlam']; exact if_neg (lt_irrefl _)
    have hws : ∀ f : Gen → Rat, wsum f A lam' = wsum f A lam := by
      intro f
      apply wsum_congr
      intro j hj
      rw [hin j hj]
    refine ⟨lam', ?_, ?_, ?_, ?_⟩
    · intro j hj hnl
      by_cases hjA : j < A.length
      · rw [getD_append_lt A _ j hjA] at hnl
        rw [hin j hjA]; exact h1 j hjA hnl
      · have : j = A.length := by rw [hlen] at hj; omega
        rw [this, getD_append_len, hline] at hnl
        cases hnl
    · rw [hsplit, hws]
      change wsum pcf A lam + lam' A.length * pcf l = 1
      rw [hpc, h2]; ring
    · refine ⟨j0, by rw [hlen]; omega, ?_, ?_⟩
      · rw [getD_append_lt A _ j0 hj0]; exact hp0
      · rw [hin j0 hj0]; exact hl0
    · intro i hi
      rw [hsplit, hws, hout, hc i, ← h4 i hi]
      by_cases hiv : i = v
      · rw [if_pos hiv, hiv]; ring
      · rw [if_neg hiv, hw i hi hiv]; ring

theorem addLines_aux (nnc : Bool) (n : Nat) (vars : List Nat) (hvars : ∀ v ∈ vars, v < n) :
    ∀ rows : List Row, genSem nnc n (rows ++ vars.map (unitEqRow n)) =
      {w | ∃ x ∈ genSem nnc n rows, ∀ j < n, j ∉ vars → w j = x j} := by
  induction vars with
  | nil =>
    intro rows
    simp only [List.map_nil, List.append_nil, List.not_mem_nil, not_false_eq_true, forall_const]
    ext w
    constructor
    · intro hw; exact ⟨w, hw, fun _ _ => rfl⟩
    · rintro ⟨x, hx, h⟩
      exact GenSem_cylinder n _ w x hx (fun i hi => (h i hi).symm)
  | cons v vs ih =>
    intro rows
    have hv : v < n := hvars v (by simp)
    have ih' := ih (fun u hu => hvars u (by simp [hu])) (rows ++ [unitEqRow n v])
    have e1 : rows ++ (v :: vs).map (unitEqRow n) = (rows ++ [unitEqRow n v]) ++ vs.map (unitEqRow n) := by
      simp
    have e2 : genSem nnc n (rows ++ [unitEqRow n v]) =
        {w | ∃ x ∈ genSem nnc n rows, ∀ j < n, j ≠ v → w j = x j} := by
      unfold genSem gensOf
      rw [List.map_append]
      exact genSem_add_line n _ _ v rfl (unitEqRow_coord nnc n v) hv
    rw [e1, ih', e2]
    ext w
    constructor
    · rintro ⟨x', ⟨x, hx, hxx'⟩, hwx'⟩
      refine ⟨x, hx, fun j hj hjn => ?_⟩
      have h1 : j ≠ v := fun h => hjn (by simp [h])
      have h2 : j ∉ vs := fun h => hjn (by simp [h])
      rw [hwx' j hj h2, hxx' j hj h1]
    · rintro ⟨x, hx, hwx⟩
      refine ⟨fun j => if j = v then w v else x j, ⟨x, hx, fun j _ hjv => if_neg hjv⟩,
        fun j hj hjn => ?_⟩
      by_cases hjv : j = v
      · show w j = if j = v then w v else x j
        rw [if_pos hjv, hjv]
      · show w j = if j = v then w v else x j
        rw [if_neg hjv]
        exact hwx j hj (by simp [hjv, hjn])

theorem kit_addLines : Kit.addLines := by
  intro nnc n rows vars _ hvars
  exact addLines_aux nnc n vars hvars rows

end PPLV.PolyOps
