import PPLV.PolyOps.ProofsDims4

/-!
# C02 stage 2 — `remove_higher_space_dimensions` at row level
-/
namespace PPLV.PolyOps
open PPLV.Lin

set_option linter.unusedSimpArgs false
set_option linter.unusedVariables false

theorem filter_lt_range (n nd : Nat) (h : nd ≤ n) :
    (List.range n).filter (fun j => decide (j < nd)) = List.range nd := by
  induction n with
  | zero =>
    have : nd = 0 := by omega
    subst this; rfl
  | succ n ih =>
    by_cases hle : nd ≤ n
    · rw [List.range_succ, List.filter_append, ih hle]
      have : ([n].filter fun j => decide (j < nd)) = [] := by
        simp; omega
      rw [this, List.append_nil]
    · have : nd = n + 1 := by omega
      subst this
      apply List.filter_eq_self.mpr
      intro a ha
      simpa using ha

/-- the variables kept by `removeHigherDims nd` are `0 .. nd-1` -/
theorem otherVars_higher (n nd : Nat) (h : nd ≤ n) :
    otherVars n ((List.range n).filter (fun j => decide (nd ≤ j))) = List.range nd := by
  rw [← filter_lt_range n nd h]
  unfold otherVars
  apply List.filter_congr
  intro x hx
  have hx' : x < n := by simpa using hx
  by_cases hlt : x < nd
  · simp [hlt, hx']
  · simp [hlt, hx']
    omega

theorem take_eq_sel (nd : Nat) (l : List Int) (h : nd ≤ l.length) :
    l.take nd = (List.range nd).map (fun j => l.getD j 0) := by
  apply List.ext_getElem
  · simp; omega
  · intro i h1 h2
    have hi : i < nd := by simpa using h2
    simp [List.getD_eq_getElem?_getD, show i < l.length by omega]

theorem gsTruncate_rows (nd : Nat) (s : Sys) :
    (gsTruncate nd s).rows =
      (s.rows.map fun r => ({ r with cf := r.cf.take nd } : Row).strongNormalize).filter
        (fun r => !(r.b == 0 && r.allHomZero)) := rfl

theorem gsTruncate_facts (nnc : Bool) (n nd : Nat) (s : Sys) (hnd : nd ≤ n)
    (hwf : ∀ r ∈ s.rows, r.genWF nnc n) :
    genSem nnc nd (gsTruncate nd s).rows = selSet (List.range nd) (genSem nnc n s.rows) ∧
    (∀ r ∈ (gsTruncate nd s).rows, r.genWF nnc nd) ∧
    ((∃ r ∈ s.rows, r.isPoint nnc) → ∃ r ∈ (gsTruncate nd s).rows, r.isPoint nnc) := by
  have hrows : (gsTruncate nd s).rows =
      ((s.rows.map (Row.sel (List.range nd))).map Row.strongNormalize).filter
        (fun r => !(r.b == 0 && r.allHomZero)) := by
    rw [gsTruncate_rows, List.map_map]
    congr 1
    apply List.map_congr_left
    intro r hr
    show _ = (Row.sel _ r).strongNormalize
    unfold Row.sel
    rw [take_eq_sel nd r.cf (by rw [(hwf r hr).1]; exact hnd)]
  have hwf1 : ∀ r ∈ s.rows.map (Row.sel (List.range nd)), r.genWF nnc nd := by
    intro r hr
    obtain ⟨r0, hr0, rfl⟩ := List.mem_map.mp hr
    have := (sel_genWF nnc n (List.range nd) r0 (hwf r0 hr0)).1
    rwa [List.length_range] at this
  have hwf2 : ∀ r ∈ (s.rows.map (Row.sel (List.range nd))).map Row.strongNormalize,
      r.genWF nnc nd := by
    intro r hr
    obtain ⟨r0, hr0, rfl⟩ := List.mem_map.mp hr
    exact (kit_strongNormalizeWF nnc nd r0 (hwf1 r0 hr0)).1
  rw [hrows]
  refine ⟨?_, fun r hr => hwf2 r (List.mem_filter.mp hr).1, ?_⟩
  · rw [kit_removeInvalid nnc nd _ hwf2, kit_strongNormalize nnc nd _ hwf1]
    have := genSem_sel nnc n (List.range nd) s.rows hwf (fun j hj => by
      have := List.mem_range.mp hj; omega)
    rwa [List.length_range] at this
  · rintro ⟨r, hr, hpt⟩
    have hpt1 := (sel_genWF nnc n (List.range nd) r (hwf r hr)).2 hpt
    have hm1 : r.sel (List.range nd) ∈ s.rows.map (Row.sel (List.range nd)) :=
      List.mem_map.mpr ⟨r, hr, rfl⟩
    have hpt2 := ((kit_strongNormalizeWF nnc nd _ (hwf1 _ hm1)).2.2 hpt1).1
    refine ⟨_, List.mem_filter.mpr ⟨List.mem_map.mpr ⟨_, hm1, rfl⟩, ?_⟩, hpt2⟩
    have hb : (r.sel (List.range nd)).strongNormalize.b ≠ 0 := ne_of_gt hpt2.2.1
    simp [hb]

theorem remove_higher_shape (p q : Poly) (nd : Nat) (hne : nd ≠ p.dim)
    (hem : p.st.empty = false) (h : p.remove_higher_space_dimensions nd = some q) :
    ∃ p', p.obtainGeneratorsNoConv = some p' ∧
      q = (if (nd == 0) = true then p'.setZeroDimUniv
        else { p' with gs := gsTruncate nd p'.gs,
                       st := { p'.st.clearCUp with gMin := false }, dim := nd }) := by
  unfold Poly.remove_higher_space_dimensions at h
  have hne' : (nd == p.dim) = false := by simpa using hne
  rw [hne'] at h
  simp only [Bool.false_eq_true, if_false, hem] at h
  obtain ⟨p', hp', hq⟩ := Option.map_eq_some_iff.mp h
  exact ⟨p', hp', hq.symm⟩

theorem remove_higher_empty_shape (p q : Poly) (nd : Nat) (hne : nd ≠ p.dim)
    (hem : p.st.empty = true) (h : p.remove_higher_space_dimensions nd = some q) :
    q = { p with cs := Sys.clear, dim := nd } := by
  unfold Poly.remove_higher_space_dimensions at h
  have hne' : (nd == p.dim) = false := by simpa using hne
  rw [hne'] at h
  simpa [hem] using h.symm

theorem sem_removeHigherDims (ref : RefPoly) (nd : Nat) (hwf : WF ref.n ref.cs) (h : nd ≤ ref.n) :
    sem (ref.removeHigherDims nd).cs = selSet (List.range nd) (sem ref.cs) := by
  unfold RefPoly.removeHigherDims
  rw [sem_removeDims ref _ hwf, otherVars_higher ref.n nd h]

/-- **`Polyhedron::remove_higher_space_dimensions` at row level.** -/
theorem remove_higher_space_dimensions_rows_correct (p q : Poly) (nd : Nat) (ref : RefPoly)
    (hn : ref.n = p.dim) (_hnnc : ref.nnc = p.nnc) (hwf : WF ref.n ref.cs) (hp : p.WF)
    (hnd : nd ≤ p.dim)
    (hD : p.Denotes (sem ref.cs)) (h : p.remove_higher_space_dimensions nd = some q) :
    q.Denotes (sem (ref.removeHigherDims nd).cs) := by
  rw [sem_removeHigherDims ref nd hwf (by rw [hn]; exact hnd)]
  have hSdet : CoordDet p.dim (sem ref.cs) := by rw [← hn]; exact coordDet_sem _ _ hwf
  by_cases hne : nd = p.dim
  · have hq : q = p := by
      unfold Poly.remove_higher_space_dimensions at h
      simpa [hne] using h.symm
    rw [hq, hne, selSet_range p.dim _ hSdet]
    exact hD
  cases hem : p.st.empty
  · obtain ⟨p', hp', hq⟩ := remove_higher_shape p q nd hne hem h
    obtain ⟨hgu, hcp, hn', hd', hrows, hem', hgu', hcp', hgp', _, _⟩ := obtainGens_shape p p' hp hp'
    have hgen := (hD.2 hem).2.1 hgu hcp
    by_cases h0 : nd = 0
    · have h0' : (nd == 0) = true := by simpa using h0
      rw [h0', if_pos rfl] at hq
      have hne' : (sem ref.cs).Nonempty := by
        rw [← hgen]
        exact kit_nonempty p.nnc p.dim _ (hp.gs_wf hem hgu) (hp.gs_pt hem hgu)
      rw [hq, h0, List.range_zero, selSet_nil _ hne']
      exact ⟨fun h => (by cases h), fun _ => ⟨fun h => (by cases h), fun h => (by cases h),
        fun _ _ => rfl⟩⟩
    · have h0' : (nd == 0) = false := by simpa using h0
      rw [h0'] at hq
      simp only [Bool.false_eq_true, if_false] at hq
      have hfacts := gsTruncate_facts p.nnc p.dim nd p.gs hnd (hp.gs_wf hem hgu)
      have hr : (gsTruncate nd p'.gs).rows = (gsTruncate nd p.gs).rows := by
        rw [gsTruncate_rows, gsTruncate_rows, hrows]
      rw [hq]
      refine ⟨fun h => (by simp [Status.clearCUp, hem', hem] at h), fun _ =>
        ⟨fun h => (by simp [Status.clearCUp] at h), fun _ _ => ?_,
         fun _ h => (by simp [Status.clearCUp, hgu'] at h)⟩⟩
      show genSem p'.nnc nd (gsTruncate nd p'.gs).rows = _
      rw [hn', hr, ← hgen]
      exact hfacts.1
  · rw [remove_higher_empty_shape p q nd hne hem h, hD.1 hem, selSet_empty]
    exact ⟨fun _ => rfl, fun h => (by simp [hem] at h)⟩

/-- well-formedness of the result (`hes` as in `remove_space_dimensions_rows_wf`) -/
theorem remove_higher_space_dimensions_rows_wf (p q : Poly) (nd : Nat) (hp : p.WF)
    (hnd : nd ≤ p.dim)
    (hes : p.st.empty = true → p.st.cUp = false ∧ p.st.gUp = false)
    (h : p.remove_higher_space_dimensions nd = some q) : q.WF := by
  by_cases hne : nd = p.dim
  · have hq : q = p := by
      unfold Poly.remove_higher_space_dimensions at h
      simpa [hne] using h.symm
    rw [hq]
    exact hp
  cases hem : p.st.empty
  · obtain ⟨p', hp', hq⟩ := remove_higher_shape p q nd hne hem h
    obtain ⟨hgu, hcp, hn', hd', hrows, hem', hgu', hcp', hgp', _, _⟩ := obtainGens_shape p p' hp hp'
    by_cases h0 : nd = 0
    · have h0' : (nd == 0) = true := by simpa using h0
      rw [h0', if_pos rfl] at hq
      rw [hq]
      refine ⟨fun _ h => (by cases h), fun _ h => (by cases h), fun _ h => (by cases h),
        fun h => (by cases h), fun h => (by cases h), fun h => (by cases h.1),
        fun _ h => absurd h (by simp [Poly.setZeroDimUniv]), fun _ => ⟨rfl, rfl⟩⟩
    · have h0' : (nd == 0) = false := by simpa using h0
      rw [h0'] at hq
      simp only [Bool.false_eq_true, if_false] at hq
      have hfacts := gsTruncate_facts p.nnc p.dim nd p.gs hnd (hp.gs_wf hem hgu)
      have hr : (gsTruncate nd p'.gs).rows = (gsTruncate nd p.gs).rows := by
        rw [gsTruncate_rows, gsTruncate_rows, hrows]
      rw [hq]
      refine ⟨fun _ h => (by simp [Status.clearCUp] at h), fun _ _ => ?_, fun _ _ => ?_,
        fun h => (by simp [Status.clearCUp] at h), fun h => (by simp [Status.clearCUp, hgp'] at h),
        fun h => (by simp [Status.clearCUp, hgp'] at h),
        fun _ _ => Or.inr (by simp [Status.clearCUp, hgu']), fun h => absurd h h0⟩
      · show ∀ r ∈ (gsTruncate nd p'.gs).rows, r.genWF p'.nnc nd
        rw [hr, hn']
        exact hfacts.2.1
      · show ∃ r ∈ (gsTruncate nd p'.gs).rows, r.isPoint p'.nnc
        rw [hr, hn']
        exact hfacts.2.2 (hp.gs_pt hem hgu)
  · rw [remove_higher_empty_shape p q nd hne hem h]
    obtain ⟨h1, h2⟩ := hes hem
    exact ⟨fun h => (by simp [hem] at h), fun h => (by simp [hem] at h),
      fun h => (by simp [hem] at h), hp.pend_c, hp.pend_g, hp.pend_one,
      fun h => (by simp [hem] at h), fun _ => ⟨h1, h2⟩⟩

end PPLV.PolyOps
