import PPLV.PolyOps.ProofsGenKit

/-!
# C02 stage 2 — the generator toolkit, part 2

`Kit.normalize`, `Kit.strongNormalize`, `Kit.removeInvalid`: per generator, scaling by a positive
rational (lines: by any non-zero one) keeps the admitted rows; the zero ray / line admits every row.
-/
namespace PPLV.PolyOps
open PPLV.Lin

/-! ### vectors of explicit generators -/

theorem vec_pt (cf : List Int) (b : Int) (i : Nat) :
    Gen.vec ⟨.point, cf, b⟩ i = ((cf.getD i 0 : Int) : Rat) / (b : Rat) := rfl
theorem vec_cp (cf : List Int) (b : Int) (i : Nat) :
    Gen.vec ⟨.cpoint, cf, b⟩ i = ((cf.getD i 0 : Int) : Rat) / (b : Rat) := rfl
theorem vec_ray (cf : List Int) (b : Int) (i : Nat) :
    Gen.vec ⟨.ray, cf, b⟩ i = ((cf.getD i 0 : Int) : Rat) := by
  show ((cf.getD i 0 : Int) : Rat) / ((1 : Int) : Rat) = _
  simp
theorem vec_line (cf : List Int) (b : Int) (i : Nat) :
    Gen.vec ⟨.line, cf, b⟩ i = ((cf.getD i 0 : Int) : Rat) := by
  show ((cf.getD i 0 : Int) : Rat) / ((1 : Int) : Rat) = _
  simp

/-- same kind, vector scaled by `t` (`t = 1` for points and closure points, `t > 0` for rays,
    `t ≠ 0` for lines): the same rows are admitted -/
theorem rowAdmits_scaled (c : Con) (g g' : Gen) (t : Rat) (hk : g'.kind = g.kind)
    (ht0 : t ≠ 0) (htpos : g.isLine = false → 0 < t) (ht1 : g.isPtOrCp = true → t = 1)
    (hv : ∀ i, g'.vec i = t * g.vec i) : rowAdmits c g' ↔ rowAdmits c g := by
  have hdot : dot c.coeffs g'.vec = t * dot c.coeffs g.vec := by
    rw [dot_lin c.coeffs t 0 g.vec g.vec g'.vec (fun i _ => by rw [hv i]; ring)]; ring
  unfold rowAdmits
  rw [hk]
  unfold Gen.isLine at htpos
  unfold Gen.isPtOrCp at ht1
  rcases hkk : g.kind <;> simp only [hkk] at htpos ht1 ⊢
  · rw [hdot]; simp [ht0]
  · rw [hdot]; exact mul_nonneg_iff_of_pos_left (htpos (by decide))
  · have h1 := ht1 (by decide)
    have : g'.vec = g.vec := by funext i; rw [hv i, h1, one_mul]
    rw [this]
  · have h1 := ht1 (by decide)
    have : g'.vec = g.vec := by funext i; rw [hv i, h1, one_mul]
    rw [this]

/-! ### division of the columns -/

theorem getD_map_div (cf : List Int) (g : Int) (i : Nat) :
    (cf.map (· / g)).getD i 0 = cf.getD i 0 / g := by
  induction cf generalizing i with
  | nil => simp
  | cons a as ih =>
    cases i with
    | zero => simp
    | succ i => simpa using ih i

theorem getD_dvd (cf : List Int) (g : Int) (h : ∀ a ∈ cf, g ∣ a) (i : Nat) : g ∣ cf.getD i 0 := by
  by_cases hi : i < cf.length
  · have : cf.getD i 0 = cf[i] := by simp [List.getD_eq_getElem?_getD, hi]
    rw [this]; exact h _ (List.getElem_mem hi)
  · have : cf.getD i 0 = 0 := by simp [List.getD_eq_getElem?_getD, not_lt.mp hi]
    rw [this]; exact dvd_zero _

theorem cast_div_of_dvd (a g : Int) (hg : g ≠ 0) (h : g ∣ a) :
    ((a / g : Int) : Rat) = (a : Rat) / (g : Rat) := by
  obtain ⟨q, rfl⟩ := h
  rw [Int.mul_ediv_cancel_left _ hg]
  have : (g : Rat) ≠ 0 := by exact_mod_cast hg
  push_cast
  field_simp

theorem divBy_admits (nnc : Bool) (n : Nat) (r : Row) (g : Int) (hg : 0 < g) (hb : g ∣ r.b)
    (he : g ∣ r.eps) (hcf : ∀ a ∈ r.cf, g ∣ a) (_h : r.genWF nnc n) (c : Con) :
    rowAdmits c ((r.divBy g).toGen nnc) ↔ rowAdmits c (r.toGen nnc) := by
  have hgne : g ≠ 0 := ne_of_gt hg
  have hgq : (0 : Rat) < (g : Rat) := by exact_mod_cast hg
  have hb0 : r.b / g = 0 ↔ r.b = 0 := by
    obtain ⟨q, hq⟩ := hb
    rw [hq, Int.mul_ediv_cancel_left _ hgne]
    constructor
    · intro h; rw [h, Int.mul_zero]
    · intro h; rcases Int.mul_eq_zero.mp h with h | h
      · exact absurd h hgne
      · exact h
  have he0 : r.eps / g = 0 ↔ r.eps = 0 := by
    obtain ⟨q, hq⟩ := he
    rw [hq, Int.mul_ediv_cancel_left _ hgne]
    constructor
    · intro h; rw [h, Int.mul_zero]
    · intro h; rcases Int.mul_eq_zero.mp h with h | h
      · exact absurd h hgne
      · exact h
  have hcoord : ∀ i, (((r.cf.map (· / g)).getD i 0 : Int) : Rat)
      = ((r.cf.getD i 0 : Int) : Rat) / (g : Rat) := by
    intro i
    rw [getD_map_div, cast_div_of_dvd _ _ hgne (getD_dvd _ _ hcf i)]
  have hbq : ((r.b / g : Int) : Rat) = (r.b : Rat) / (g : Rat) := cast_div_of_dvd _ _ hgne hb
  have hrl : ∀ i, ((r.cf.getD i 0 : Int) : Rat) / (g : Rat)
      = (1 / (g : Rat)) * ((r.cf.getD i 0 : Int) : Rat) := fun i => by ring
  have hinv : (1 / (g : Rat)) ≠ 0 := by positivity
  have hinvpos : 0 < (1 / (g : Rat)) := by positivity
  rcases rowShape nnc r with ⟨hl, hgen⟩ | ⟨hl, hz, hgen⟩ | ⟨hl, hz, hn, hez, hgen⟩ | ⟨hl, hz, hn, hgen⟩
  · rw [hgen, toGen_eq nnc (r.divBy g) hl]
    refine rowAdmits_scaled c _ _ (1 / (g : Rat)) rfl hinv (fun _ => hinvpos)
      (fun h => by simp [Gen.isPtOrCp] at h) ?_
    intro i
    rw [vec_line, vec_line]
    show (((r.cf.map (· / g)).getD i 0 : Int) : Rat) = _
    rw [hcoord, hrl]
  · rw [hgen, toGen_ray nnc (r.divBy g) hl (hb0.mpr hz)]
    refine rowAdmits_scaled c _ _ (1 / (g : Rat)) rfl hinv (fun _ => hinvpos)
      (fun h => by simp [Gen.isPtOrCp] at h) ?_
    intro i
    rw [vec_ray, vec_ray]
    show (((r.cf.map (· / g)).getD i 0 : Int) : Rat) = _
    rw [hcoord, hrl]
  · rw [hgen, toGen_cp nnc (r.divBy g) hl (fun h => hz (hb0.mp h)) hn (he0.mpr hez)]
    refine rowAdmits_scaled c _ _ 1 rfl one_ne_zero (fun _ => one_pos) (fun _ => rfl) ?_
    intro i
    rw [vec_cp, vec_cp]
    show (((r.cf.map (· / g)).getD i 0 : Int) : Rat) / ((r.b / g : Int) : Rat) = _
    have hbne : (r.b : Rat) ≠ 0 := by exact_mod_cast hz
    rw [hcoord, hbq]
    field_simp
  · rw [hgen, toGen_pt nnc (r.divBy g) hl (fun h => hz (hb0.mp h))
      (fun h => hn ⟨h.1, he0.mp h.2⟩)]
    refine rowAdmits_scaled c _ _ 1 rfl one_ne_zero (fun _ => one_pos) (fun _ => rfl) ?_
    intro i
    rw [vec_pt, vec_pt]
    show (((r.cf.map (· / g)).getD i 0 : Int) : Rat) / ((r.b / g : Int) : Rat) = _
    have hbne : (r.b : Rat) ≠ 0 := by exact_mod_cast hz
    rw [hcoord, hbq]
    field_simp

theorem normalize_admits (nnc : Bool) (n : Nat) (r : Row) (h : r.genWF nnc n) (c : Con) :
    rowAdmits c (r.normalize.toGen nnc) ↔ rowAdmits c (r.toGen nnc) := by
  obtain ⟨g, hg, hb, he, hcf, heq⟩ := normalize_eq r
  rw [heq]
  exact divBy_admits nnc n r g hg hb he hcf h c

theorem getD_map_neg (cf : List Int) (i : Nat) :
    (cf.map (fun a => -1 * a)).getD i 0 = - cf.getD i 0 := by
  induction cf generalizing i with
  | nil => simp
  | cons a as ih =>
    cases i with
    | zero => simp
    | succ i => simpa using ih i

theorem signNormalize_admits (nnc : Bool) (r : Row) (c : Con) :
    rowAdmits c (r.signNormalize.toGen nnc) ↔ rowAdmits c (r.toGen nnc) := by
  rcases signNormalize_eq r with heq | ⟨hl, heq⟩
  · rw [heq]
  · rw [heq, toGen_eq nnc r hl, toGen_eq nnc (r.scale (-1)) hl]
    refine rowAdmits_scaled c _ _ (-1) rfl (by norm_num) (fun h => by simp [Gen.isLine] at h)
      (fun h => by simp [Gen.isPtOrCp] at h) ?_
    intro i
    rw [vec_line, vec_line]
    show (((r.cf.map (fun a => -1 * a)).getD i 0 : Int) : Rat) = _
    rw [getD_map_neg]; push_cast; ring

theorem divBy_isPoint_iff (nnc : Bool) (r : Row) (g : Int) (hg : 0 < g) (hb : g ∣ r.b)
    (he : g ∣ r.eps) : (r.divBy g).isPoint nnc ↔ r.isPoint nnc := by
  obtain ⟨qb, hqb⟩ := hb
  obtain ⟨qe, hqe⟩ := he
  have hgne : g ≠ 0 := ne_of_gt hg
  have eb : r.b / g = qb := by rw [hqb, Int.mul_ediv_cancel_left _ hgne]
  have ee : r.eps / g = qe := by rw [hqe, Int.mul_ediv_cancel_left _ hgne]
  unfold Row.isPoint Row.divBy
  simp only [eb, ee]
  rw [hqb, hqe, mul_pos_iff_of_pos_left hg, mul_pos_iff_of_pos_left hg]

theorem normalize_isPoint_iff (nnc : Bool) (r : Row) : r.normalize.isPoint nnc ↔ r.isPoint nnc := by
  obtain ⟨g, hg, hb, he, _, heq⟩ := normalize_eq r
  rw [heq]
  exact divBy_isPoint_iff nnc r g hg hb he

theorem signNormalize_isPoint_iff (nnc : Bool) (r : Row) :
    r.signNormalize.isPoint nnc ↔ r.isPoint nnc := by
  rcases signNormalize_eq r with heq | ⟨hl, heq⟩
  · rw [heq]
  · rw [heq]
    unfold Row.isPoint
    have : (r.scale (-1)).eq = true := hl
    rw [this, hl]
    simp

theorem kit_normalize : Kit.normalize := by
  intro nnc n rows hwf
  apply genSem_map_congr nnc n rows Row.normalize hwf
  · exact fun r hr => (normalize_genWF nnc n r (hwf r hr)).1
  · exact fun r _ => normalize_isPoint_iff nnc r
  · exact fun r hr c => normalize_admits nnc n r (hwf r hr) c

theorem kit_strongNormalize : Kit.strongNormalize := by
  intro nnc n rows hwf
  apply genSem_map_congr nnc n rows Row.strongNormalize hwf
  · exact fun r hr => (kit_strongNormalizeWF nnc n r (hwf r hr)).1
  · intro r _
    unfold Row.strongNormalize
    rw [signNormalize_isPoint_iff, normalize_isPoint_iff]
  · intro r hr c
    unfold Row.strongNormalize
    rw [signNormalize_admits, normalize_admits nnc n r (hwf r hr)]

/-! ### `Kit.removeInvalid` -/

theorem vec_allZero (g : Gen) (h : g.coords.all (· == 0) = true) (i : Nat) : g.vec i = 0 := by
  show ((g.coords.getD i 0 : Int) : Rat) / _ = 0
  rw [getD_allZero _ h]; simp

theorem rowAdmits_zero (c : Con) (g : Gen) (hk : g.isPtOrCp = false)
    (h : g.coords.all (· == 0) = true) : rowAdmits c g := by
  have hd : dot c.coeffs g.vec = 0 := by
    rw [dot_agree c.coeffs g.vec Val.zero (fun i _ => vec_allZero g h i), dot_zero]
  unfold rowAdmits
  unfold Gen.isPtOrCp at hk
  rcases hkk : g.kind <;> simp only [hkk] at hk ⊢
  · exact hd
  · rw [hd]
  · simp at hk
  · simp at hk

theorem kit_removeInvalid : Kit.removeInvalid := by
  intro nnc n rows hwf
  have hsub : ∀ r ∈ rows.filter (fun r => !(r.b == 0 && r.allHomZero)), r ∈ rows :=
    fun r hr => (List.mem_filter.mp hr).1
  have hwf' : ∀ r ∈ rows.filter (fun r => !(r.b == 0 && r.allHomZero)), r.genWF nnc n :=
    fun r hr => hwf r (hsub r hr)
  -- a removed row is a zero ray or line
  have hbad : ∀ r ∈ rows, (r.b == 0 && r.allHomZero) = true →
      (r.toGen nnc).isPtOrCp = false ∧ (r.toGen nnc).coords.all (· == 0) = true ∧
        ¬ r.isPoint nnc := by
    intro r _ hb
    simp only [Bool.and_eq_true, beq_iff_eq, Row.allHomZero] at hb
    obtain ⟨hb0, hz, _⟩ := hb
    refine ⟨?_, by rw [toGen_coords]; exact hz, fun hp => by have := hp.2.1; omega⟩
    rcases rowShape nnc r with ⟨_, hg⟩ | ⟨_, _, hg⟩ | ⟨_, hb', _, _, _⟩ | ⟨_, hb', _, _⟩
    · rw [hg]; rfl
    · rw [hg]; rfl
    · exact absurd hb0 hb'
    · exact absurd hb0 hb'
  unfold genSem
  apply genSem_congr_admits n _ _ (gensWF_gensOf nnc n _ hwf') (gensWF_gensOf nnc n _ hwf)
  · rw [gensOf_pt nnc n _ hwf', gensOf_pt nnc n _ hwf]
    constructor
    · rintro ⟨r, hr, hp⟩; exact ⟨r, hsub r hr, hp⟩
    · rintro ⟨r, hr, hp⟩
      refine ⟨r, List.mem_filter.mpr ⟨hr, ?_⟩, hp⟩
      by_contra hb
      simp only [Bool.not_eq_true', Bool.not_eq_false] at hb
      exact (hbad r hr hb).2.2 hp
  · intro c _
    unfold gensOf
    simp only [List.mem_map]
    constructor
    · rintro h g ⟨r, hr, rfl⟩
      by_cases hb : (r.b == 0 && r.allHomZero) = true
      · exact rowAdmits_zero c _ (hbad r hr hb).1 (hbad r hr hb).2.1
      · exact h _ ⟨r, List.mem_filter.mpr ⟨hr, by rw [Bool.not_eq_true] at hb; rw [hb]; rfl⟩, rfl⟩
    · rintro h g ⟨r, hr, rfl⟩
      exact h _ ⟨r, hsub r hr, rfl⟩

end PPLV.PolyOps
