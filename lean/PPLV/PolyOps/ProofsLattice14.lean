import PPLV.PolyOps.ProofsLattice8
import PPLV.PolyOps.ProofsLattice10

/-!
# C02 stage 2 — `generalized_affine_image` at row level: well-formedness; `PendOK` is kept

`Poly.PendOK` (ProofsLattice10): the two invariants of `Polyhedron::OK()` about pending rows that
`Poly.WF` does not record.  `affine_image`, `poly_hull_assign` and `generalized_affine_image` keep
them, so that the well-formedness theorems can be chained.
-/
namespace PPLV.PolyOps
open PPLV.Lin

theorem affine_image_pendOK (p q : Poly) (v : Nat) (e : LinExpr) (den : Int) (hp : p.WF)
    (hpo : p.PendOK) (h : p.affine_image v e den = some q) : q.PendOK := by
  cases hem : p.st.empty
  · by_cases hc : e.coeffs.getD v 0 = 0
    · unfold Poly.affine_image at h
      have hem' : ¬ (p.st.empty = true) := by simp [hem]
      have hc' : ¬ ((e.coeffs.getD v 0 != 0) = true) := by rw [hc]; decide
      rw [if_neg hem', if_neg hc'] at h
      simp only [Status.somethingPending] at h
      by_cases hgp : p.st.gPend = true
      · have hcp : p.st.cPend = false := by
          cases hx : p.st.cPend
          · rfl
          · exact absurd ⟨hx, hgp⟩ hp.pend_one
        simp only [hgp, hcp, Bool.or_true, if_true, Option.map_some] at h
        rw [← Option.some.inj h]
        constructor <;> intro h' <;> simp [Status.clearCUp, Status.canPend] at h'
      · have hgp' : p.st.gPend = false := by simpa using hgp
        cases hcp : p.st.cPend
        · cases hgu : p.st.gUp
          · simp [hgp', hcp, hgu] at h
          · simp only [hgp', hcp, hgu, Bool.or_self, Bool.false_eq_true, if_false, Bool.not_true,
              Option.map_some] at h
            rw [← Option.some.inj h]
            constructor <;> intro h' <;> simp [Status.clearCUp, Status.canPend, hgp'] at h'
        · simp [hgp', hcp] at h
    · obtain ⟨hst, _⟩ := affine_image_inv_shape p q v e den hem hc h
      unfold Poly.PendOK
      rw [hst]; exact hpo
  · rw [affine_image_empty p q v e den hem h]; exact hpo

theorem poly_hull_assign_pendOK (x y q : Poly) (hxo : x.PendOK) (hyo : y.PendOK)
    (h : x.poly_hull_assign y = some q) : q.PendOK := by
  cases hey : y.st.empty
  · cases hex : x.st.empty
    · by_cases hd : x.dim = 0
      · have hq : q = x := by
          unfold Poly.poly_hull_assign at h
          rw [if_neg (by simp [hey]), if_neg (by simp [hex]), if_pos (by simp [hd])] at h
          exact (Option.some.inj h).symm
        rw [hq]; exact hxo
      · obtain ⟨_, _, _, _, gs', _, hq⟩ := poly_hull_assign_main x y q hex hey hd h
        rcases hq with ⟨hc, rfl⟩ | ⟨hc, rfl⟩
        · exact pendOK_pendForm x gs' hxo hc
        · exact pendOK_dropForm x gs' hxo hc
    · have hq : q = y := by
        unfold Poly.poly_hull_assign at h
        rw [if_neg (by simp [hey]), if_pos hex] at h
        exact (Option.some.inj h).symm
      rw [hq]; exact hyo
  · have hq : q = x := by
      unfold Poly.poly_hull_assign at h
      rw [if_pos hey] at h
      exact (Option.some.inj h).symm
    rw [hq]; exact hxo

theorem addGeneratorRay_wf (p : Poly) (g : Row) (hp : p.WF) (hpo : p.PendOK)
    (he : p.st.empty = false) (hgu : p.st.gUp = true) (hcp : p.st.cPend = false)
    (hg : g.genWF p.nnc p.dim) : (p.addGeneratorRay g).WF ∧ (p.addGeneratorRay g).PendOK := by
  have hwf' : ∀ r ∈ p.gs.rows ++ [g], r.genWF p.nnc p.dim := by
    intro r hr
    rcases List.mem_append.mp hr with hr | hr
    · exact hp.gs_wf he hgu r hr
    · rw [List.mem_singleton.mp hr]; exact hg
  have hpt' : ∃ r ∈ p.gs.rows ++ [g], r.isPoint p.nnc := by
    obtain ⟨r, hr, hpr⟩ := hp.gs_pt he hgu
    exact ⟨r, List.mem_append_left _ hr, hpr⟩
  unfold Poly.addGeneratorRay
  by_cases hc : p.st.canPend = true
  · rw [if_pos hc]
    exact ⟨wf_pendForm p _ hp he hgu hcp (hpo.1 hc) hwf' hpt', pendOK_pendForm p _ hpo hc⟩
  · rw [if_neg hc]
    have hc' : p.st.canPend = false := by simpa using hc
    have hgp : p.st.gPend = false := by
      cases hg' : p.st.gPend
      · rfl
      · rw [hpo.2 hg'] at hc'; cases hc'
    exact ⟨wf_dropForm p _ hp hgu hgp hwf' hpt', pendOK_dropForm p _ hpo hc'⟩

theorem generalized_affine_image_rows_wf (p q : Poly) (v : Nat) (r : Rel) (e : LinExpr)
    (den : Int) (hp : p.WF) (hpo : p.PendOK)
    (hv : v < p.dim) (he : e.coeffs.length = p.dim) (hden : den ≠ 0)
    (h : p.generalized_affine_image v r e den = some q) : q.WF ∧ q.PendOK := by
  unfold Poly.generalized_affine_image at h
  cases h1 : p.affine_image v e den with
  | none => rw [h1] at h; cases h
  | some p1 =>
    rw [h1] at h
    simp only [Option.bind_some] at h
    have hW1 := affine_image_rows_wf p p1 v e den hp hv he hden h1
    have hO1 := affine_image_pendOK p p1 v e den hp hpo h1
    obtain ⟨hdim1, _⟩ := affine_image_dim_nnc p p1 v e den hp h1
    have hineq : ∀ s : Int,
        (if p1.st.empty = true then some p1
          else if (p1.st.cPend || !p1.st.gUp) = true then none
          else some (p1.addGeneratorRay (rayRow p1.dim v s))) = some q → q.WF ∧ q.PendOK := by
      intro s h
      by_cases he1 : p1.st.empty = true
      · rw [if_pos he1] at h
        rw [← Option.some.inj h]; exact ⟨hW1, hO1⟩
      · rw [if_neg he1] at h
        by_cases hc1 : (p1.st.cPend || !p1.st.gUp) = true
        · rw [if_pos hc1] at h; cases h
        · rw [if_neg hc1] at h
          have hcp : p1.st.cPend = false := by
            cases hh : p1.st.cPend
            · rfl
            · simp [hh] at hc1
          have hgu : p1.st.gUp = true := by
            cases hh : p1.st.gUp
            · simp [hh] at hc1
            · rfl
          rw [← Option.some.inj h]
          exact addGeneratorRay_wf p1 _ hW1 hO1 (by simpa using he1) hgu hcp
            (rayRow_genWF _ _ _ _ (by rw [hdim1]; exact hv))
    cases r with
    | eq =>
      simp only at h
      rw [← Option.some.inj h]; exact ⟨hW1, hO1⟩
    | lt =>
      simp only at h
      by_cases he1 : p1.st.empty = true
      · rw [if_pos he1] at h
        rw [← Option.some.inj h]; exact ⟨hW1, hO1⟩
      · rw [if_neg he1] at h; cases h
    | gt =>
      simp only at h
      by_cases he1 : p1.st.empty = true
      · rw [if_pos he1] at h
        rw [← Option.some.inj h]; exact ⟨hW1, hO1⟩
      · rw [if_neg he1] at h; cases h
    | le => exact hineq (-1) (by simpa using h)
    | ge => exact hineq 1 (by simpa using h)

end PPLV.PolyOps
