import PPLV.PolyOps.ProofsDims2

/-!
# C02 stage 2 — selecting coordinates: `Generator::remove_space_dimensions`,
`Generator_System::set_space_dimension`
-/
namespace PPLV.PolyOps
open PPLV.Lin

set_option linter.unusedSimpArgs false
set_option linter.unusedVariables false

/-- the image of `S` under "new coordinate `idx` is old coordinate `kept[idx]`" -/
def selSet (kept : List Nat) (S : Set Val) : Set Val :=
  {w | ∃ x ∈ S, ∀ (idx : Nat) (h : idx < kept.length), w idx = x kept[idx]}

theorem sem_removeDims (ref : RefPoly) (vs : List Nat) (hwf : WF ref.n ref.cs) :
    sem (ref.removeDims vs).cs = selSet (otherVars ref.n vs) (sem ref.cs) := by
  ext w
  exact removeDims_spec ref vs hwf w

theorem selSet_empty (kept : List Nat) : selSet kept ∅ = ∅ := by
  ext w; simp [selSet]

theorem selSet_nil (S : Set Val) (h : S.Nonempty) : selSet [] S = Set.univ := by
  obtain ⟨x, hx⟩ := h
  ext w
  simp only [selSet, Set.mem_ofPred_eq, Set.mem_univ, iff_true]
  exact ⟨x, hx, fun idx h => absurd h (by simp)⟩

theorem selSet_range (n : Nat) (S : Set Val) (hS : CoordDet n S) : selSet (List.range n) S = S := by
  ext w
  simp only [selSet, Set.mem_ofPred_eq]
  constructor
  · rintro ⟨x, hx, hw⟩
    refine (hS w x fun j hj => ?_).mpr hx
    have := hw j (by simpa using hj)
    simpa using this
  · intro hw
    exact ⟨w, hw, fun idx h => by simp⟩

/-- the row with the coordinates `kept` selected -/
def Row.sel (kept : List Nat) (r : Row) : Row := { r with cf := kept.map fun j => r.cf.getD j 0 }

theorem sel_genWF (nnc : Bool) (n : Nat) (kept : List Nat) (r : Row) (h : r.genWF nnc n) :
    (r.sel kept).genWF nnc kept.length ∧ (r.isPoint nnc → (r.sel kept).isPoint nnc) := by
  obtain ⟨_, h2⟩ := h
  exact ⟨⟨by simp [Row.sel], h2⟩, id⟩

theorem getD_map_some (kept : List Nat) (k : Nat) (h : k < kept.length) :
    (kept.map some).getD k none = some kept[k] := by
  simp [List.getD_eq_getElem?_getD, h]

theorem getD_map_some_ge (kept : List Nat) (k : Nat) (h : kept.length ≤ k) :
    (kept.map some).getD k none = none := by
  simp [List.getD_eq_getElem?_getD, h]

theorem genSem_sel (nnc : Bool) (n : Nat) (kept : List Nat) (rows : List Row)
    (hwf : ∀ r ∈ rows, r.genWF nnc n) (hk : ∀ j ∈ kept, j < n) :
    genSem nnc kept.length (rows.map (Row.sel kept)) = selSet kept (genSem nnc n rows) := by
  have hsrc : ∀ k j, (kept.map some).getD k none = some j → j < n := by
    intro k j hkj
    by_cases hkl : k < kept.length
    · rw [getD_map_some kept k hkl] at hkj
      cases hkj
      exact hk _ (List.getElem_mem hkl)
    · rw [getD_map_some_ge kept k (by omega)] at hkj
      cases hkj
  refine Eq.trans ?_ (Eq.trans
    (kit_selectCoords nnc n kept.length (kept.map some) rows hwf (by simp) hsrc) ?_)
  · congr 1
    apply List.map_congr_left
    intro r _
    simp [Row.sel, List.map_map, Function.comp_def]
  · ext w
    simp only [selSet, Set.mem_ofPred_eq]
    refine exists_congr fun x => and_congr_right fun _ => ?_
    constructor
    · intro h idx hidx
      have := h idx hidx
      rw [getD_map_some kept idx hidx] at this
      exact this
    · intro h k hk'
      rw [getD_map_some kept k hk']
      exact h k hk'

/-! ### `dropCoords` is a selection -/

theorem zipIdx_filter_map (p : Nat → Bool) (l : List Int) (k : Nat) :
    ((l.zipIdx k).filter (fun x => p x.2)).map Prod.fst =
      ((List.range' k l.length).filter p).map (fun j => l.getD (j - k) 0) := by
  induction l generalizing k with
  | nil => simp
  | cons a t ih =>
    have htail : ((List.range' (k + 1) t.length).filter p).map (fun j => t.getD (j - (k + 1)) 0) =
        ((List.range' (k + 1) t.length).filter p).map (fun j => (a :: t).getD (j - k) 0) := by
      apply List.map_congr_left
      intro j hj
      have h1 := List.mem_range'_1.mp (List.mem_filter.mp hj).1
      have h2 : j - k = (j - (k + 1)) + 1 := by omega
      rw [h2, List.getD_cons_succ]
    simp only [List.zipIdx_cons, List.length_cons, List.range'_succ, List.filter_cons]
    by_cases hp : p k = true
    · simp only [hp, if_true, List.map_cons, Nat.sub_self, List.getD_cons_zero]
      rw [ih (k + 1), htail]
    · simp only [hp, Bool.false_eq_true, if_false]
      rw [ih (k + 1), htail]

theorem dropCoords_eq (vars : List Nat) (l : List Int) :
    dropCoords vars l = (otherVars l.length vars).map (fun j => l.getD j 0) := by
  have h := zipIdx_filter_map (fun i => !vars.contains i) l 0
  unfold dropCoords otherVars
  rw [List.range_eq_range']
  exact h

theorem otherVars_lt (n : Nat) (vs : List Nat) : ∀ j ∈ otherVars n vs, j < n :=
  fun j hj => ((mem_otherVars n vs j).mp hj).1

theorem otherVars_length (n : Nat) (vars : List Nat) (hnd : vars.Nodup) (hlt : ∀ v ∈ vars, v < n) :
    (otherVars n vars).length = n - vars.length := by
  have h1 := List.length_eq_countP_add_countP (fun j => vars.contains j) (l := List.range n)
  rw [List.countP_eq_length_filter, List.countP_eq_length_filter, List.length_range] at h1
  have h2 : ((List.range n).filter (fun j => vars.contains j)).Perm vars := by
    rw [List.perm_ext_iff_of_nodup (List.Nodup.sublist List.filter_sublist List.nodup_range) hnd]
    intro a
    simp only [List.mem_filter, List.mem_range, List.contains_iff_mem]
    exact ⟨fun h => h.2, fun h => ⟨hlt a h, h⟩⟩
  have h3 := h2.length_eq
  have h4 : (otherVars n vars).length =
      ((List.range n).filter (fun a => decide ¬(vars.contains a = true))).length := by
    unfold otherVars
    congr 1
    apply List.filter_congr
    intro x _
    cases hx : vars.contains x <;> simp
  omega

/-! ### `Linear_System<Generator>::remove_space_dimensions` -/

theorem filterMap_genRowRemoveDims (vars : List Nat) (rows : List Row) :
    rows.filterMap (genRowRemoveDims vars) =
      ((rows.map fun r => ({ r with cf := dropCoords vars r.cf } : Row)).filter
        (fun r => !(r.b == 0 && r.allHomZero))).map Row.strongNormalize := by
  induction rows with
  | nil => rfl
  | cons r rs ih =>
    rw [List.filterMap_cons, List.map_cons, List.filter_cons, ih]
    unfold genRowRemoveDims
    simp only
    cases h : ((({ r with cf := dropCoords vars r.cf } : Row).b == 0) &&
        ({ r with cf := dropCoords vars r.cf } : Row).allHomZero)
    · simp
    · simp

theorem gsRemoveDims_facts (nnc : Bool) (n : Nat) (vars : List Nat) (s : Sys)
    (hwf : ∀ r ∈ s.rows, r.genWF nnc n) :
    genSem nnc (otherVars n vars).length (gsRemoveDims vars s).rows =
        selSet (otherVars n vars) (genSem nnc n s.rows) ∧
    (∀ r ∈ (gsRemoveDims vars s).rows, r.genWF nnc (otherVars n vars).length) ∧
    ((∃ r ∈ s.rows, r.isPoint nnc) → ∃ r ∈ (gsRemoveDims vars s).rows, r.isPoint nnc) := by
  have hrows : (gsRemoveDims vars s).rows =
      ((s.rows.map (Row.sel (otherVars n vars))).filter
        (fun r => !(r.b == 0 && r.allHomZero))).map Row.strongNormalize := by
    show s.rows.filterMap (genRowRemoveDims vars) = _
    rw [filterMap_genRowRemoveDims]
    congr 2
    apply List.map_congr_left
    intro r hr
    show _ = Row.sel _ r
    unfold Row.sel
    rw [dropCoords_eq, (hwf r hr).1]
  have hwf1 : ∀ r ∈ s.rows.map (Row.sel (otherVars n vars)), r.genWF nnc (otherVars n vars).length := by
    intro r hr
    obtain ⟨r0, hr0, rfl⟩ := List.mem_map.mp hr
    exact (sel_genWF nnc n _ r0 (hwf r0 hr0)).1
  have hwf2 : ∀ r ∈ (s.rows.map (Row.sel (otherVars n vars))).filter
      (fun r => !(r.b == 0 && r.allHomZero)), r.genWF nnc (otherVars n vars).length :=
    fun r hr => hwf1 r (List.mem_filter.mp hr).1
  rw [hrows]
  refine ⟨?_, ?_, ?_⟩
  · rw [kit_strongNormalize nnc _ _ hwf2, kit_removeInvalid nnc _ _ hwf1,
      genSem_sel nnc n _ s.rows hwf (otherVars_lt n vars)]
  · intro r hr
    obtain ⟨r0, hr0, rfl⟩ := List.mem_map.mp hr
    exact (kit_strongNormalizeWF nnc _ r0 (hwf2 r0 hr0)).1
  · rintro ⟨r, hr, hpt⟩
    have hpt' := (sel_genWF nnc n (otherVars n vars) r (hwf r hr)).2 hpt
    have hmem : r.sel (otherVars n vars) ∈ (s.rows.map (Row.sel (otherVars n vars))).filter
        (fun r => !(r.b == 0 && r.allHomZero)) := by
      refine List.mem_filter.mpr ⟨List.mem_map.mpr ⟨r, hr, rfl⟩, ?_⟩
      have hb : (r.sel (otherVars n vars)).b ≠ 0 := ne_of_gt hpt'.2.1
      simp [hb]
    exact ⟨_, List.mem_map.mpr ⟨_, hmem, rfl⟩,
      ((kit_strongNormalizeWF nnc _ _ (hwf2 _ hmem)).2.2 hpt').1⟩

end PPLV.PolyOps
