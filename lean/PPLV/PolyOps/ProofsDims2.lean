import PPLV.PolyOps.ProofsDims

/-!
# C02 stage 2 — `add_space_dimensions_and_project` / `add_space_dimensions_and_embed` at row level
-/
namespace PPLV.PolyOps
open PPLV.Lin

set_option linter.unusedSimpArgs false

/-- a generator system of dimension `0` with a point generates everything -/
theorem genSem_zero_univ (nnc : Bool) (rows : List Row) (hwf : ∀ r ∈ rows, r.genWF nnc 0)
    (hpt : ∃ r ∈ rows, r.isPoint nnc) : genSem nnc 0 rows = Set.univ := by
  obtain ⟨x, hx⟩ := kit_nonempty nnc 0 rows hwf hpt
  ext w
  simp only [Set.mem_univ, iff_true]
  exact GenSem_cylinder 0 _ w x hx fun i hi => by omega

/-- the generators of the origin of `ℚ^m` built by `add_space_dimensions_and_project` from the
    zero-dimensional universe -/
theorem genSem_origin (nnc : Bool) (m : Nat) :
    genSem nnc m ((if nnc then [(⟨false, 1, List.replicate m 0, 0⟩ : Row)] else []) ++
        [(⟨false, 1, List.replicate m 0, if nnc then 1 else 0⟩ : Row)]) = projSet 0 m Set.univ := by
  have hrows : ((if nnc then [(⟨false, 1, List.replicate m 0, 0⟩ : Row)] else []) ++
        [(⟨false, 1, List.replicate m 0, if nnc then 1 else 0⟩ : Row)]) =
      ((if nnc then [(⟨false, 1, [], 0⟩ : Row)] else []) ++
        [(⟨false, 1, [], if nnc then 1 else 0⟩ : Row)]).map (Row.addZeroCols m) := by
    cases nnc <;> simp [Row.addZeroCols]
  have hwf0 : ∀ r ∈ ((if nnc then [(⟨false, 1, [], 0⟩ : Row)] else []) ++
        [(⟨false, 1, [], if nnc then 1 else 0⟩ : Row)]), r.genWF nnc 0 := by
    intro r hr
    cases nnc <;> simp at hr
    · subst hr; simp [Row.genWF]
    · rcases hr with rfl | rfl <;> simp [Row.genWF]
  have hpt0 : ∃ r ∈ ((if nnc then [(⟨false, 1, [], 0⟩ : Row)] else []) ++
        [(⟨false, 1, [], if nnc then 1 else 0⟩ : Row)]), r.isPoint nnc := by
    refine ⟨⟨false, 1, [], if nnc then 1 else 0⟩, by simp, ?_⟩
    cases nnc <;> simp [Row.isPoint]
  have h := genSem_addZeroCols nnc 0 m _ hwf0
  rw [Nat.zero_add] at h
  rw [hrows, h, genSem_zero_univ nnc _ hwf0 hpt0]

theorem not_cUp_gUp_false (p : Poly) (hp : p.WF) (hem : p.st.empty = false) (hd : p.dim ≠ 0)
    (hc : p.st.cUp = false) (hg : p.st.gUp = false) : False := by
  rcases hp.some_up hem (by omega) with h | h
  · rw [hc] at h; cases h
  · rw [hg] at h; cases h

/-- **`Polyhedron::add_space_dimensions_and_project` at row level.** -/
theorem add_space_dimensions_and_project_rows_correct (p : Poly) (m : Nat) (ref : RefPoly)
    (hn : ref.n = p.dim) (_hnnc : ref.nnc = p.nnc) (_hwf : WF ref.n ref.cs) (hp : p.WF)
    (hD : p.Denotes (sem ref.cs)) :
    (p.add_space_dimensions_and_project m).Denotes (sem (ref.addDimsProject m).cs) := by
  rw [sem_addDimsProject, hn]
  by_cases hm : m = 0
  · subst hm
    rw [projSet_zero]
    exact hD
  have hm0 : (m == 0) = false := by simpa using hm
  have hmpos : 0 < m := by omega
  unfold Poly.add_space_dimensions_and_project
  rw [hm0]
  simp only [Bool.false_eq_true, if_false]
  cases hem : p.st.empty
  · simp only [Bool.false_eq_true, if_false]
    obtain ⟨hDc, hDg, hDu⟩ := hD.2 hem
    by_cases hd : p.dim = 0
    · -- the zero-dimensional universe: the origin of `ℚ^m`
      have hd0 : (p.dim == 0) = true := by simpa using hd
      rw [hd0]
      simp only [if_true]
      obtain ⟨hc0, hg0⟩ := hp.zero_dim hd
      have hS := hDu hc0 hg0
      refine ⟨fun h => (by simp [hem] at h), fun _ => ⟨fun hc => ?_, fun _ _ => ?_, fun _ hg => ?_⟩⟩
      · exact absurd (hc0 ▸ hc) (by simp)
      · show genSem p.nnc m _ = _
        rw [genSem_origin, hS, hd]
      · cases hg
    · have hd0 : (p.dim == 0) = false := by simpa using hd
      rw [hd0]
      simp only [Bool.false_eq_true, if_false]
      cases hcu : p.st.cUp
      · -- only generators
        simp only [Bool.false_eq_true, if_false]
        cases hgu : p.st.gUp
        · exact absurd (not_cUp_gUp_false p hp hem hd hcu hgu) id
        · refine ⟨fun h => (by simp [hem] at h), fun _ =>
            ⟨fun hc => (by simp [hcu] at hc), fun _ hcp => ?_,
             fun _ hg => by simp [hgu] at hg⟩⟩
          show genSem p.nnc (p.dim + m) (p.gs.rows.map (Row.addZeroCols m)) = _
          rw [genSem_addZeroCols p.nnc p.dim m _ (hp.gs_wf hem hgu), hDg hgu hcp]
      · simp only [if_true]
        cases hgu : p.st.gUp
        · simp only [Bool.false_eq_true, if_false]
          refine ⟨fun h => (by simp [hem] at h), fun _ =>
            ⟨fun _ hgp => ?_, fun hg => (by simp [hgu] at hg),
             fun hc => by simp [hcu] at hc⟩⟩
          show conSem p.nnc (p.cs.addUniverseRows p.nnc p.dim m).rows = _
          rw [conSem_addUniverseRows p.nnc p.dim m p.cs hmpos, hDc hcu hgp]
        · simp only [if_true]
          refine ⟨fun h => (by simp [hem] at h), fun _ =>
            ⟨fun _ hgp => ?_, fun _ hcp => ?_, fun hc => by simp [hcu] at hc⟩⟩
          · show conSem p.nnc (p.cs.addUniverseRows p.nnc p.dim m).rows = _
            rw [conSem_addUniverseRows p.nnc p.dim m p.cs hmpos, hDc hcu hgp]
          · show genSem p.nnc (p.dim + m) (p.gs.rows.map (Row.addZeroCols m)) = _
            rw [genSem_addZeroCols p.nnc p.dim m _ (hp.gs_wf hem hgu), hDg hgu hcp]
  · -- marked empty
    simp only [if_true]
    rw [hD.1 hem, projSet_empty]
    exact ⟨fun _ => rfl, fun h => by rw [hem] at h; cases h⟩

/-- the low-level constraints of the universe hold everywhere -/
theorem conSem_lowLevelCons (nnc : Bool) (m : Nat) : conSem nnc (lowLevelCons nnc m) = Set.univ := by
  ext w
  simp only [Set.mem_univ, iff_true]
  rw [mem_conSem]
  intro r hr
  cases nnc
  · simp only [lowLevelCons, Bool.false_eq_true, if_false, List.mem_cons, List.not_mem_nil,
      or_false] at hr
    subst hr
    unfold Row.Holds Row.ev
    simp [dot_replicate_zero]
  · simp only [lowLevelCons, if_true, List.mem_cons, List.not_mem_nil, or_false] at hr
    rcases hr with rfl | rfl <;> unfold Row.Holds Row.ev <;> simp [dot_replicate_zero]

/-- **`Polyhedron::add_space_dimensions_and_embed` at row level**: the same set of valuations
    (`sem (ref.addDimsEmbed m).cs = sem ref.cs`), now of dimension `p.dim + m`. -/
theorem add_space_dimensions_and_embed_rows_correct (p : Poly) (m : Nat) (ref : RefPoly)
    (_hn : ref.n = p.dim) (_hnnc : ref.nnc = p.nnc) (_hwf : WF ref.n ref.cs) (hp : p.WF)
    (hD : p.Denotes (sem ref.cs)) :
    (p.add_space_dimensions_and_embed m).Denotes (sem (ref.addDimsEmbed m).cs) := by
  show (p.add_space_dimensions_and_embed m).Denotes (sem ref.cs)
  by_cases hm : m = 0
  · subst hm
    exact hD
  have hm0 : (m == 0) = false := by simpa using hm
  have hmpos : 0 < m := by omega
  unfold Poly.add_space_dimensions_and_embed
  rw [hm0]
  simp only [Bool.false_eq_true, if_false]
  cases hem : p.st.empty
  · simp only [Bool.false_eq_true, if_false]
    obtain ⟨hDc, hDg, hDu⟩ := hD.2 hem
    by_cases hd : p.dim = 0
    · have hd0 : (p.dim == 0) = true := by simpa using hd
      rw [hd0]
      simp only [if_true]
      obtain ⟨hc0, hg0⟩ := hp.zero_dim hd
      have hS := hDu hc0 hg0
      refine ⟨fun h => (by cases h), fun _ => ⟨fun _ _ => ?_, fun hg => (by cases hg), fun hc => (by cases hc)⟩⟩
      show conSem p.nnc (lowLevelCons p.nnc m) = _
      rw [conSem_lowLevelCons, hS]
    · have hd0 : (p.dim == 0) = false := by simpa using hd
      rw [hd0]
      simp only [Bool.false_eq_true, if_false]
      cases hcu : p.st.cUp
      · simp only [Bool.false_eq_true, if_false]
        cases hgu : p.st.gUp
        · exact absurd (not_cUp_gUp_false p hp hem hd hcu hgu) id
        · refine ⟨fun h => (by simp [hem] at h), fun _ =>
            ⟨fun hc => (by simp [hcu] at hc), fun _ hcp => ?_,
             fun _ hg => by simp [hgu] at hg⟩⟩
          show genSem p.nnc (p.dim + m) (p.gs.addUniverseRows p.nnc p.dim m).rows = _
          rw [genSem_addUniverseRows p.nnc p.dim m p.gs hmpos (hp.gs_wf hem hgu), hDg hgu hcp]
      · simp only [if_true]
        cases hgu : p.st.gUp
        · simp only [Bool.false_eq_true, if_false]
          refine ⟨fun h => (by simp [hem] at h), fun _ =>
            ⟨fun _ hgp => ?_, fun hg => (by simp [hgu] at hg),
             fun hc => by simp [hcu] at hc⟩⟩
          show conSem p.nnc (p.cs.rows.map (Row.addZeroCols m)) = _
          rw [conSem_addZeroCols, hDc hcu hgp]
        · simp only [if_true]
          refine ⟨fun h => (by simp [hem] at h), fun _ =>
            ⟨fun _ hgp => ?_, fun _ hcp => ?_, fun hc => by simp [hcu] at hc⟩⟩
          · show conSem p.nnc (p.cs.rows.map (Row.addZeroCols m)) = _
            rw [conSem_addZeroCols, hDc hcu hgp]
          · show genSem p.nnc (p.dim + m) (p.gs.addUniverseRows p.nnc p.dim m).rows = _
            rw [genSem_addUniverseRows p.nnc p.dim m p.gs hmpos (hp.gs_wf hem hgu), hDg hgu hcp]
  · simp only [if_true]
    rw [hD.1 hem]
    exact ⟨fun _ => rfl, fun h => by rw [hem] at h; cases h⟩

end PPLV.PolyOps
