import PPLV.PolyOps.ProofsLattice5

/-!
# C02 stage 2 — lattice operators at row level, part 6: `topological_closure_assign`, the rows

* `closure_unique`: the closure computed by `relax` depends only on the (non-empty) set.
* `conSem_closeRows`: relaxing the non-tautological strict rows of an NNC constraint list (the loop
  of `topological_closure_assign`) gives the list read with the closed topology, i.e. `relax`.
* `genSem_addCorrespondingPoints_sandwich`: the generator path — the result lies between the set
  and its closure.
-/
namespace PPLV.PolyOps
open PPLV.Lin

theorem relax_nonstrict (cs : List Con) : ∀ c ∈ relax cs, c.strict = false := by
  intro c hc
  obtain ⟨c0, _, rfl⟩ := (O2.mem_relax cs c).mp hc
  rfl

/-- the closure of a non-empty set does not depend on the constraint system describing it -/
theorem closure_unique (cs cs' : List Con) (h : sem cs = sem cs') (hne : ∃ x, x ∈ sem cs) :
    sem (relax cs) = sem (relax cs') := by
  have hne' : ∃ x, x ∈ sem cs' := by rw [← h]; exact hne
  apply Set.Subset.antisymm
  · exact (closure_least cs hne).2 (relax cs') (relax_nonstrict cs') (by rw [h]; exact sem_subset_relax cs')
  · exact (closure_least cs' hne').2 (relax cs) (relax_nonstrict cs) (by rw [← h]; exact sem_subset_relax cs)

theorem sem_closure_nonempty (ref : RefPoly) (hwf : WF ref.n ref.cs) (hne : ∃ x, x ∈ sem ref.cs) :
    sem ref.closure.cs = sem (relax ref.cs) := by
  rw [(closure_cs ref hwf).2 hne]

/-- a closed set is its own closure -/
theorem sem_closure_of_closed (ref : RefPoly) (hwf : WF ref.n ref.cs)
    (hcl : sem (relax ref.cs) ⊆ sem ref.cs) : sem ref.closure.cs = sem ref.cs := by
  by_cases hne : ∃ x, x ∈ sem ref.cs
  · rw [sem_closure_nonempty ref hwf hne]
    exact Set.Subset.antisymm hcl (sem_subset_relax _)
  · have he : sem ref.cs = ∅ := Set.eq_empty_iff_forall_notMem.mpr fun x hx => hne ⟨x, hx⟩
    rw [(closure_cs ref hwf).1 he]

/-- a reference without strict rows is closed -/
theorem closed_of_nonstrict (cs : List Con) (h : ∀ c ∈ cs, c.strict = false) :
    sem (relax cs) ⊆ sem cs := by
  have : relax cs = cs := by
    unfold relax
    conv_rhs => rw [← List.map_id cs]
    apply List.map_congr_left
    intro c hc
    have := h c hc
    cases c
    simp_all
  rw [this]

/-! ### the constraint rows -/

/-- the body of the loop over the constraints -/
def closeRow (c : Row) : Row :=
  if decide (c.eps < 0) && !c.isTautological then ({ c with eps := 0 } : Row).normalize else c

/-- `relax` of the NNC reading of a row list is its reading with the closed topology -/
theorem relax_consOf (rows : List Row) : relax (consOf true rows) = consOf false rows := by
  unfold consOf relax
  induction rows with
  | nil => rfl
  | cons r rs ih =>
    rw [List.flatMap_cons, List.flatMap_cons, List.map_append, ih]
    congr 1
    unfold Row.toCons
    by_cases he : r.eq = true
    · rw [if_pos he, if_pos he]; rfl
    · rw [if_neg he, if_neg he]
      simp only [Bool.true_and, Bool.false_and, Bool.false_eq_true, if_false]
      split <;> rfl

theorem closeRow_holds (r : Row) (w : Val) : (closeRow r).Holds true w ↔ r.Holds false w := by
  unfold closeRow
  by_cases hc : (decide (r.eps < 0) && !r.isTautological) = true
  · rw [if_pos hc, holds_normalize]
    unfold Row.Holds
    simp [Row.ev]
  · rw [if_neg hc]
    by_cases hs : r.eps < 0
    · -- a tautological strict row: `b > 0` without variables
      have ht : r.isTautological = true := by simpa [hs] using hc
      unfold Row.isTautological at ht
      by_cases hz : r.cf.all (· == 0) = true
      · rw [if_pos hz] at ht
        have hne : r.eps ≠ 0 := by omega
        by_cases heq : r.eq = true
        · simp [heq, hne] at ht
        · have hb : 0 < r.b := by simpa [heq, hne, hs] using ht
          have hbq : (0 : Rat) < (r.b : Rat) := by exact_mod_cast hb
          unfold Row.Holds Row.ev
          rw [dot_allZero r.cf hz w]
          simp [heq, hs]
          constructor
          · intro _; omega
          · intro _; exact hb
      · rw [if_neg hz] at ht; cases ht
    · unfold Row.Holds
      simp [hs]

/-- the relaxed rows describe `relax` of the original system -/
theorem conSem_closeRows (rows : List Row) :
    conSem true (rows.map closeRow) = sem (relax (consOf true rows)) := by
  rw [relax_consOf]
  ext w
  rw [conSem_map]
  show _ ↔ w ∈ conSem false rows
  rw [mem_conSem]
  exact forall_congr' fun r => imp_congr_right fun _ => closeRow_holds r w

/-- the row `ε ≤ 1` that is inserted reads as the true constraint `1 > 0` -/
theorem conSem_epsRow (n : Nat) : conSem true [⟨false, 1, List.replicate n 0, -1⟩] = Set.univ := by
  ext w
  rw [mem_conSem]
  simp only [List.mem_singleton, forall_eq, Set.mem_univ, iff_true]
  unfold Row.Holds Row.ev
  rw [dot_replicate_zero]
  simp

/-- no row was changed: the loop is the identity -/
theorem closeRows_unchanged (rows : List Row)
    (h : (rows.any fun c => decide (c.eps < 0) && !c.isTautological) = false) :
    rows.map closeRow = rows := by
  conv_rhs => rw [← List.map_id rows]
  apply List.map_congr_left
  intro r hr
  unfold closeRow
  have := List.any_eq_false.mp h r hr
  rw [if_neg this]; rfl

/-! ### the generator rows -/

/-- the point rows that `add_corresponding_points` appends -/
def corrPoints (rows : List Row) : List Row :=
  (rows.filter (fun g => !(g.b == 0) && g.eps == 0)).map fun g => { g with eps := g.b }

theorem addCorrespondingPoints_eq (rows : List Row) :
    addCorrespondingPoints rows = rows ++ corrPoints rows := rfl

theorem corrPoints_facts (n : Nat) (rows : List Row) (hwf : ∀ r ∈ rows, r.genWF true n)
    (r' : Row) (hr' : r' ∈ corrPoints rows) :
    r'.genWF true n ∧ ∃ r ∈ rows, r.toGen true = ⟨.cpoint, r.cf, r.b⟩ ∧
      r'.toGen true = ⟨.point, r.cf, r.b⟩ := by
  unfold corrPoints at hr'
  obtain ⟨r, hr, rfl⟩ := List.mem_map.mp hr'
  obtain ⟨hr, hcond⟩ := List.mem_filter.mp hr
  have hb : r.b ≠ 0 := by
    intro hb; simp [hb] at hcond
  have he : r.eps = 0 := by simpa [hb] using hcond
  obtain ⟨h1, h2, h3, h4, h5, h6⟩ := hwf r hr
  have hl : r.eq = false := by
    cases hq : r.eq
    · rfl
    · exact absurd (h4 hq) hb
  refine ⟨⟨h1, h2, h2, h4, fun hh => absurd hh hb, fun hh => by cases hh⟩, r, hr,
    toGen_cp true r hl hb rfl he, ?_⟩
  exact toGen_pt true ({ r with eps := r.b } : Row) hl hb (fun hh => hb hh.2)

/-- the generator path: the result lies between the set and its closure -/
theorem genSem_addCorrespondingPoints_sandwich (n : Nat) (rows : List Row) (cs : List Con)
    (hwf : ∀ r ∈ rows, r.genWF true n) (hpt : ∃ r ∈ rows, r.isPoint true) (hcs : WF n cs)
    (hS : genSem true n rows = sem cs) :
    (∀ r ∈ addCorrespondingPoints rows, r.genWF true n) ∧
    sem cs ⊆ genSem true n (addCorrespondingPoints rows) ∧
    genSem true n (addCorrespondingPoints rows) ⊆ sem (relax cs) := by
  have hwfE : ∀ r ∈ corrPoints rows, r.genWF true n :=
    fun r hr => (corrPoints_facts n rows hwf r hr).1
  have hwfA : ∀ r ∈ addCorrespondingPoints rows, r.genWF true n := by
    intro r hr
    rw [addCorrespondingPoints_eq] at hr
    rcases List.mem_append.mp hr with hr | hr
    · exact hwf r hr
    · exact hwfE r hr
  have hG := gensWF_gensOf true n rows hwf
  have hE := gensWF_gensOf true n _ hwfE
  have hp := (gensOf_pt true n rows hwf).mpr hpt
  refine ⟨hwfA, ?_, ?_⟩
  · rw [← hS, addCorrespondingPoints_eq]
    unfold genSem
    rw [gensOf_append]
    exact genSem_subset_append_left n _ _ (gensWF_append n _ _ hG hE) hp
  · rw [addCorrespondingPoints_eq]
    unfold genSem at hS ⊢
    rw [gensOf_append]
    have hwr : WF n (relax cs) := by
      intro c hc
      obtain ⟨c0, hc0, rfl⟩ := (O2.mem_relax cs c).mp hc
      exact hcs c0 hc0
    rw [addGens_subset_iff n _ _ hp (relax cs) hwr]
    refine ⟨by rw [hS]; exact sem_subset_relax cs, ?_⟩
    intro c hc g hg
    obtain ⟨c0, hc0, rfl⟩ := (O2.mem_relax cs c).mp hc
    unfold gensOf at hg
    obtain ⟨r', hr', rfl⟩ := List.mem_map.mp hg
    obtain ⟨_, r, hr, hcp, hpt'⟩ := corrPoints_facts n rows hwf r' hr'
    have hadm : rowAdmits c0 (r.toGen true) := by
      refine (genSem_subset_row_iff n _ hp c0 (hcs c0 hc0)).mp ?_ _ (List.mem_map.mpr ⟨r, hr, rfl⟩)
      rw [hS]
      exact fun x hx => hx c0 hc0
    rw [hcp] at hadm
    rw [hpt']
    have h0 : 0 ≤ c0.eval (Gen.vec ⟨.cpoint, r.cf, r.b⟩) := hadm
    show Con.sat { c0 with strict := false } (Gen.vec ⟨.point, r.cf, r.b⟩)
    have hv : Gen.vec ⟨.point, r.cf, r.b⟩ = Gen.vec ⟨.cpoint, r.cf, r.b⟩ := rfl
    rw [hv]
    simpa [Con.sat, Con.eval] using h0

end PPLV.PolyOps
