import PPLV.PolyOps.ProofsDims8
import Mathlib.Algebra.BigOperators.Ring.Finset

/-!
# C02 stage 2 — `map_space_dimensions`: renaming the coefficients of a constraint row

`dot (mapCoords f N l) w = dot l (pull f w)`: evaluating the renamed row at `w` is evaluating the
row at the valuation pulled back along `f` (sums exchanged through `Finset.sum_comm`).
-/
namespace PPLV.PolyOps
open PPLV.Lin

set_option linter.unusedSimpArgs false
set_option linter.unusedVariables false

theorem dot_eq_sum (l : List Int) (w : Val) :
    dot l w = ∑ i ∈ Finset.range l.length, ((l.getD i 0 : Int) : Rat) * w i := by
  induction l generalizing w with
  | nil => simp
  | cons a t ih =>
    rw [dot_cons, ih, List.length_cons, Finset.sum_range_succ']
    simp only [List.getD_cons_succ, List.getD_cons_zero, Val.tail]
    ring

/-- the valuation of the old variables read off the valuation `w` of the new ones -/
def pull (f : List (Option Nat)) (w : Val) : Val := fun j => (f.getD j none).elim 0 w

theorem pull_some (f : List (Option Nat)) (w : Val) (j k : Nat) (h : f.getD j none = some k) :
    pull f w j = w k := by
  unfold pull; rw [h]; rfl

theorem pull_none (f : List (Option Nat)) (w : Val) (j : Nat) (h : f.getD j none = none) :
    pull f w j = 0 := by
  unfold pull; rw [h]; rfl

theorem mapCoords_getD (f : List (Option Nat)) (N : Nat) (l : List Int) (k : Nat) (hk : k < N) :
    (mapCoords f N l).getD k 0 = (invIdx f k).elim 0 (fun j => l.getD j 0) := by
  unfold mapCoords
  rw [List.getD_eq_getElem?_getD, List.getElem?_map, List.getElem?_range hk]
  show (match invIdx f k with | some j => l.getD j 0 | none => 0) = _
  cases invIdx f k <;> rfl

theorem dot_mapCoords (f : List (Option Nat)) (n N : Nat) (l : List Int) (w : Val)
    (hlen : f.length = n) (hl : l.length = n)
    (hinj : ∀ j j' k, f.getD j none = some k → f.getD j' none = some k → j = j')
    (hcod : ∀ j k, f.getD j none = some k → k < N) :
    dot (mapCoords f N l) w = dot l (pull f w) := by
  have hL : ∀ k ∈ Finset.range N, (((mapCoords f N l).getD k 0 : Int) : Rat) * w k =
      ∑ j ∈ Finset.range n, if f.getD j none = some k then ((l.getD j 0 : Int) : Rat) * w k else 0 := by
    intro k hk
    rw [mapCoords_getD f N l k (Finset.mem_range.mp hk)]
    cases hi : invIdx f k with
    | none =>
      rw [Finset.sum_eq_zero]
      · simp
      · intro j hj
        have := List.find?_eq_none.mp hi j (List.mem_range.mpr (by rw [hlen]; exact Finset.mem_range.mp hj))
        rw [if_neg (by simpa using this)]
    | some j0 =>
      have hj0 := invIdx_some f k j0 hi
      rw [Finset.sum_eq_single j0]
      · rw [if_pos hj0]; rfl
      · intro j _ hne
        rw [if_neg (fun hjk => hne (hinj j j0 k hjk hj0))]
      · intro hnot
        exact absurd (Finset.mem_range.mpr (by rw [← hlen]; exact getD_some_lt f j0 k hj0)) hnot
  have hR : ∀ j ∈ Finset.range n, ((l.getD j 0 : Int) : Rat) * pull f w j =
      ∑ k ∈ Finset.range N, if f.getD j none = some k then ((l.getD j 0 : Int) : Rat) * w k else 0 := by
    intro j _
    cases hfj : f.getD j none with
    | none =>
      rw [pull_none f w j hfj, Finset.sum_eq_zero]
      · ring
      · intro k _; rw [if_neg (by simp)]
    | some k0 =>
      rw [pull_some f w j k0 hfj, Finset.sum_eq_single k0]
      · rw [if_pos rfl]
      · intro k _ hne
        rw [if_neg (fun h => hne (Option.some.inj h).symm)]
      · intro hnot
        exact absurd (Finset.mem_range.mpr (hcod j k0 hfj)) hnot
  rw [dot_eq_sum, mapCoords_length, Finset.sum_congr rfl hL, Finset.sum_comm,
    ← Finset.sum_congr rfl hR, dot_eq_sum, hl]

/-! ### totality of a bijection -/

theorem total_of_bij (f : List (Option Nat)) (n : Nat) (hlen : f.length = n)
    (hinj : ∀ j j' k, f.getD j none = some k → f.getD j' none = some k → j = j')
    (hsurj : ∀ k < n, ∃ j, f.getD j none = some k) :
    ∀ j < n, ∃ k, f.getD j none = some k := by
  classical
  have hg : ∀ k < n, f.getD ((invIdx f k).getD 0) none = some k := by
    intro k hk
    obtain ⟨j, hj⟩ := hsurj k hk
    rw [invIdx_of f k j hinj hj]
    exact hj
  have hsub : (Finset.range n).image (fun k => (invIdx f k).getD 0) ⊆ Finset.range n := by
    intro j hj
    obtain ⟨k, hk, rfl⟩ := Finset.mem_image.mp hj
    rw [Finset.mem_range, ← hlen]
    exact getD_some_lt f _ k (hg k (Finset.mem_range.mp hk))
  have hinjOn : Set.InjOn (fun k => (invIdx f k).getD 0) (Finset.range n : Set Nat) := by
    intro k hk k' hk' heq
    have h1 := hg k (Finset.mem_range.mp hk)
    have h2 := hg k' (Finset.mem_range.mp hk')
    simp only at heq
    rw [heq, h2] at h1
    exact (Option.some.inj h1).symm
  have heq := Finset.eq_of_subset_of_card_le hsub (by rw [Finset.card_image_of_injOn hinjOn])
  intro j hj
  have : j ∈ (Finset.range n).image (fun k => (invIdx f k).getD 0) := by
    rw [heq]; exact Finset.mem_range.mpr hj
  obtain ⟨k, hk, rfl⟩ := Finset.mem_image.mp this
  exact ⟨k, hg k (Finset.mem_range.mp hk)⟩

/-- for a bijection, the image is the preimage under the pull-back -/
theorem mapSet_eq_pull (f : List (Option Nat)) (n : Nat) (S : Set Val) (hS : CoordDet n S)
    (htot : ∀ j < n, ∃ k, f.getD j none = some k) :
    mapSet f S = {w | pull f w ∈ S} := by
  ext w
  simp only [mapSet, Set.mem_ofPred_eq]
  constructor
  · rintro ⟨x, hx, hw⟩
    refine (hS (pull f w) x fun j hj => ?_).mpr hx
    obtain ⟨k, hk⟩ := htot j hj
    rw [pull_some f w j k hk]
    exact hw j k hk
  · intro hw
    exact ⟨pull f w, hw, fun j k hjk => (pull_some f w j k hjk).symm⟩

/-! ### `permute_space_dimensions` on rows -/

theorem permute_eq (f : List (Option Nat)) (n : Nat) (r : Row) (h : r.cf.length = n) :
    Row.permute f r = (r.mapC f n).signNormalize := by
  unfold Row.permute Row.mapC
  rw [h]

theorem holds_permute (nnc : Bool) (f : List (Option Nat)) (n : Nat) (r : Row) (w : Val)
    (hlen : f.length = n) (hr : r.cf.length = n)
    (hinj : ∀ j j' k, f.getD j none = some k → f.getD j' none = some k → j = j')
    (hcod : ∀ j k, f.getD j none = some k → k < n) :
    (Row.permute f r).Holds nnc w ↔ r.Holds nnc (pull f w) := by
  rw [permute_eq f n r hr, holds_signNormalize]
  refine holds_of_ev nnc r (r.mapC f n) (pull f w) w 1 (by norm_num) rfl Iff.rfl ?_
  unfold Row.ev Row.mapC
  simp only
  rw [dot_mapCoords f n n r.cf w hlen hr hinj hcod]; ring

theorem conSem_permute (nnc : Bool) (f : List (Option Nat)) (n : Nat) (rows : List Row)
    (hlen : f.length = n) (hrows : ∀ r ∈ rows, r.cf.length = n)
    (hinj : ∀ j j' k, f.getD j none = some k → f.getD j' none = some k → j = j')
    (hcod : ∀ j k, f.getD j none = some k → k < n) :
    conSem nnc (rows.map (Row.permute f)) = {w | pull f w ∈ conSem nnc rows} := by
  ext w
  rw [conSem_map]
  simp only [Set.mem_ofPred_eq, mem_conSem]
  exact forall_congr' fun r => forall_congr' fun hr => holds_permute nnc f n r w hlen (hrows r hr) hinj hcod

theorem genSem_signNormalize (nnc : Bool) (n : Nat) (rows : List Row)
    (hwf : ∀ r ∈ rows, r.genWF nnc n) :
    genSem nnc n (rows.map Row.signNormalize) = genSem nnc n rows :=
  genSem_map_congr nnc n rows Row.signNormalize hwf
    (fun r hr => (signNormalize_genWF nnc n r (hwf r hr)).1)
    (fun r _ => signNormalize_isPoint_iff nnc r)
    (fun r _ c => signNormalize_admits nnc r c)

theorem genSem_permute (nnc : Bool) (f : List (Option Nat)) (n : Nat) (rows : List Row)
    (hwf : ∀ r ∈ rows, r.genWF nnc n) (hlen : f.length = n)
    (hinj : ∀ j j' k, f.getD j none = some k → f.getD j' none = some k → j = j')
    (hcod : ∀ j k, f.getD j none = some k → k < n)
    (hsurj : ∀ k < n, ∃ j, f.getD j none = some k) :
    genSem nnc n (rows.map (Row.permute f)) = mapSet f (genSem nnc n rows) := by
  have hmap : rows.map (Row.permute f) = (rows.map (Row.mapC f n)).map Row.signNormalize := by
    rw [List.map_map]
    exact List.map_congr_left fun r hr => permute_eq f n r (hwf r hr).1
  have hwf1 : ∀ r ∈ rows.map (Row.mapC f n), r.genWF nnc n := by
    intro r hr
    obtain ⟨r0, hr0, rfl⟩ := List.mem_map.mp hr
    exact (mapC_genWF nnc n n f r0 (hwf r0 hr0)).1
  rw [hmap, genSem_signNormalize nnc n _ hwf1, genSem_mapC nnc n n f rows hwf hlen hinj hcod hsurj]

end PPLV.PolyOps
