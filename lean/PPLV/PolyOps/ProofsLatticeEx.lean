import PPLV.PolyOps.ProofsLattice7
import PPLV.PolyOps.ProofsLattice8
import PPLV.PolyOps.ProofsLattice10
import PPLV.PolyOps.ProofsLattice12
import PPLV.PolyOps.ProofsAffineEx

/-!
# C02 stage 2 — lattice operators: the hypotheses of the row-level theorems are satisfiable

Concrete instances: the segment `0 ≤ x ≤ 1` (`exP`: both descriptions, not minimised; `exPm`: both
minimised, so that insertions are PENDING), the half-open NNC segment `0 < x ≤ 1` (`exN`), and the
theorems of `ProofsLattice*.lean` applied to them.
-/
namespace PPLV.PolyOps
open PPLV.Lin

/-- the generators of the segment -/
def exG : List Gen := [⟨.point, [0], 1⟩, ⟨.point, [1], 1⟩]

theorem exG_sem : GenSem 1 exG = sem exRef.cs := (exP_denotes.2 rfl).2.1 rfl rfl

theorem exP_denotesG : exP.Denotes (GenSem 1 exG) := by rw [exG_sem]; exact exP_denotes

/-- the segment, both descriptions minimised with a saturation matrix: insertions are pending -/
def exPm : Poly := { exP with st := ⟨false, true, true, true, true, true, false, false, false⟩ }

theorem exPm_wf : exPm.WF := by
  refine ⟨fun _ _ => exP_wf.cs_len rfl rfl, fun _ _ => exP_wf.gs_wf rfl rfl,
    fun _ _ => exP_wf.gs_pt rfl rfl, ?_, ?_, ?_, fun _ _ => Or.inl rfl, ?_⟩
  · intro h; simp [exPm] at h
  · intro h; simp [exPm] at h
  · intro h; simp [exPm] at h
  · intro h; simp [exPm, exP] at h

theorem exPm_denotes : exPm.Denotes (sem exRef.cs) :=
  ⟨fun h => by simp [exPm] at h, fun _ => ⟨fun _ _ => (exP_denotes.2 rfl).1 rfl rfl,
    fun _ _ => (exP_denotes.2 rfl).2.1 rfl rfl, fun h => by simp [exPm] at h⟩⟩

theorem exPm_denotesG : exPm.Denotes (GenSem 1 exG) := by rw [exG_sem]; exact exPm_denotes

/-! ### `intersection_assign` -/

/-- not minimised: `insertSys` -/
example : ∃ q, exP.intersection_assign exP = some q ∧ q.Denotes (sem (exRef.meet exRef).cs) := by
  have h : (exP.intersection_assign exP).isSome = true := rfl
  obtain ⟨q, hq⟩ := Option.isSome_iff_exists.mp h
  exact ⟨q, hq, intersection_assign_rows_correct exP exP q exRef exRef rfl rfl exP_wf exP_wf
    exP_denotes exP_denotes hq⟩

/-- minimised: the rows of `y` become pending constraints -/
example : ∃ q, exPm.intersection_assign exP = some q ∧ q.st.cPend = true ∧
    q.Denotes (sem (exRef.meet exRef).cs) := by
  have h : (exPm.intersection_assign exP).isSome = true := rfl
  obtain ⟨q, hq⟩ := Option.isSome_iff_exists.mp h
  refine ⟨q, hq, ?_, intersection_assign_rows_correct exPm exP q exRef exRef rfl rfl exPm_wf exP_wf
    exPm_denotes exP_denotes hq⟩
  have : exPm.intersection_assign exP = some { exPm with
      cs := exPm.cs.insertPendingSys exP.cs.rows, st := { exPm.st with cPend := true } } := rfl
  rw [this] at hq
  rw [← Option.some.inj hq]

/-- with an argument marked empty -/
example : ∃ q, exP.intersection_assign exP.setEmpty = some q ∧
    q.Denotes (sem (exRef.meet (emptyP false 1)).cs) := by
  have h : (exP.intersection_assign exP.setEmpty).isSome = true := rfl
  obtain ⟨q, hq⟩ := Option.isSome_iff_exists.mp h
  refine ⟨q, hq, intersection_assign_rows_correct exP exP.setEmpty q exRef (emptyP false 1) rfl rfl
    exP_wf ?_ exP_denotes ?_ hq⟩
  · exact ⟨fun h => (by cases h), fun h => (by cases h), fun h => (by cases h), fun h => (by cases h),
      fun h => (by cases h), fun h => (by cases h.1), fun h => (by cases h), fun h => (by cases h)⟩
  · apply denotes_setEmpty
    ext x
    simp only [Set.mem_empty_iff_false, iff_false]
    intro hx
    have := hx falseRow (by simp [emptyP])
    simp [falseRow, Con.sat, Con.eval] at this
    linarith

/-! ### `unconstrain` -/

example : ∃ q, exP.unconstrain [0] = some q ∧ q.Denotes (sem (exRef.unconstrain [0]).cs) ∧ q.WF := by
  have h : (exP.unconstrain [0]).isSome = true := rfl
  obtain ⟨q, hq⟩ := Option.isSome_iff_exists.mp h
  exact ⟨q, hq,
    unconstrain_rows_correct exP q [0] exRef rfl exRef_wf exP_wf (by decide) exP_denotes hq,
    unconstrain_rows_wf exP q [0] exP_wf (by decide) (fun _ => rfl) (fun h => by cases h) hq⟩

/-- the line is inserted as a pending generator -/
example : ∃ q, exPm.unconstrain [0] = some q ∧ q.Denotes (sem (exRef.unconstrain [0]).cs) ∧ q.WF := by
  have h : (exPm.unconstrain [0]).isSome = true := rfl
  obtain ⟨q, hq⟩ := Option.isSome_iff_exists.mp h
  exact ⟨q, hq,
    unconstrain_rows_correct exPm q [0] exRef rfl exRef_wf exPm_wf (by decide) exPm_denotes hq,
    unconstrain_rows_wf exPm q [0] exPm_wf (by decide) (fun _ => rfl) (fun h => by cases h) hq⟩

/-! ### `poly_hull_assign` -/

example : ∃ q, exP.poly_hull_assign exPm = some q ∧ q.Denotes (GenSem 1 (hullGens [exG, exG])) ∧
    q.WF := by
  have h : (exP.poly_hull_assign exPm).isSome = true := rfl
  obtain ⟨q, hq⟩ := Option.isSome_iff_exists.mp h
  exact ⟨q, hq,
    poly_hull_assign_rows_correct exP exPm q 1 exG exG rfl rfl rfl exP_wf exPm_wf (by decide)
      (by decide) (Or.inr ⟨⟨.point, [0], 1⟩, by simp [exG], rfl⟩) (Or.inr ⟨⟨.point, [0], 1⟩, by simp [exG], rfl⟩)
      exP_denotesG exPm_denotesG hq,
    poly_hull_assign_rows_wf exP exPm q rfl rfl exP_wf exPm_wf (fun _ => rfl) (fun h => by cases h) hq⟩

/-- pending insertion -/
example : ∃ q, exPm.poly_hull_assign exP = some q ∧ q.Denotes (GenSem 1 (hullGens [exG, exG])) ∧
    q.WF := by
  have h : (exPm.poly_hull_assign exP).isSome = true := rfl
  obtain ⟨q, hq⟩ := Option.isSome_iff_exists.mp h
  exact ⟨q, hq,
    poly_hull_assign_rows_correct exPm exP q 1 exG exG rfl rfl rfl exPm_wf exP_wf (by decide)
      (by decide) (Or.inr ⟨⟨.point, [0], 1⟩, by simp [exG], rfl⟩) (Or.inr ⟨⟨.point, [0], 1⟩, by simp [exG], rfl⟩)
      exPm_denotesG exP_denotesG hq,
    poly_hull_assign_rows_wf exPm exP q rfl rfl exPm_wf exP_wf (fun _ => rfl) (fun h => by cases h) hq⟩

/-! ### `time_elapse_assign` -/

example : ∃ q, exP.time_elapse_assign exPm = some q ∧
    q.Denotes (GenSem 1 (timeElapseGens exG exG)) := by
  have h : (exP.time_elapse_assign exPm).isSome = true := rfl
  obtain ⟨q, hq⟩ := Option.isSome_iff_exists.mp h
  exact ⟨q, hq,
    time_elapse_assign_rows_correct exP exPm q 1 exG exG rfl rfl rfl rfl exP_wf exPm_wf (by decide)
      (by decide) ⟨⟨.point, [0], 1⟩, by simp [exG], rfl⟩ ⟨⟨.point, [0], 1⟩, by simp [exG], rfl⟩ exP_denotesG exPm_denotesG hq⟩

/-- the rows: the point `1` of `y` became the ray `1`; the origin was dropped -/
example : (exP.time_elapse_assign exPm).map (fun q => q.gs.rows) =
    some [⟨false, 1, [0], 0⟩, ⟨false, 1, [1], 0⟩, ⟨false, 0, [1], 0⟩] := by decide

example : ∃ q, exP.time_elapse_assign exP.setEmpty = some q ∧ q.Denotes ∅ := by
  have h : (exP.time_elapse_assign exP.setEmpty).isSome = true := rfl
  obtain ⟨q, hq⟩ := Option.isSome_iff_exists.mp h
  exact ⟨q, hq, time_elapse_assign_rows_empty exP exP.setEmpty q (Or.inr rfl) hq⟩

/-! ### `generalized_affine_image` -/

/-- `x' ≤ -2x + 1` -/
example : ∃ q, exP.generalized_affine_image 0 .le exE 1 = some q ∧
    q.Denotes (sem (exRef.genAffineImage 0 .le exE 1).cs) := by
  have h : (exP.generalized_affine_image 0 .le exE 1).isSome = true := rfl
  obtain ⟨q, hq⟩ := Option.isSome_iff_exists.mp h
  exact ⟨q, hq, generalized_affine_image_rows_correct exP q 0 .le exE 1 exRef rfl rfl exRef_wf exP_wf
    (by decide) rfl (by decide) exP_denotes hq⟩

/-- `x' ≥ (-2x + 1)/(-1)`, the ray is a pending generator -/
example : ∃ q, exPm.generalized_affine_image 0 .ge exE (-1) = some q ∧
    q.Denotes (sem (exRef.genAffineImage 0 .ge exE (-1)).cs) := by
  have h : (exPm.generalized_affine_image 0 .ge exE (-1)).isSome = true := rfl
  obtain ⟨q, hq⟩ := Option.isSome_iff_exists.mp h
  exact ⟨q, hq, generalized_affine_image_rows_correct exPm q 0 .ge exE (-1) exRef rfl rfl exRef_wf
    exPm_wf (by decide) rfl (by decide) exPm_denotes hq⟩

/-- the rows for `x' ≤ -2x + 1`: the points `1`, `-1` and the ray `-1` -/
example : (exP.generalized_affine_image 0 .le exE 1).map (fun q => q.gs.rows) =
    some [⟨false, 1, [1], 0⟩, ⟨false, 1, [-1], 0⟩, ⟨false, 0, [-1], 0⟩] := by decide

/-! ### `topological_closure_assign` -/

/-- closed topology: nothing to do -/
example : ∃ q, exP.topological_closure_assign = some q ∧ q.Denotes (sem exRef.closure.cs) := by
  have h : exP.topological_closure_assign.isSome = true := rfl
  obtain ⟨q, hq⟩ := Option.isSome_iff_exists.mp h
  exact ⟨q, hq, topological_closure_assign_rows_correct exP q exRef rfl exRef_wf exP_wf
    (Or.inr ⟨rfl, rfl⟩) exP_denotes hq⟩

/-- the NNC half-open segment `0 < x ≤ 1`: constraints `x > 0` (epsilon coefficient `-1`),
    `1 - x ≥ 0`; generators: the point `1`, the closure point `0` -/
def exN : Poly :=
  { nnc := true, dim := 1,
    st := ⟨false, true, true, false, false, false, false, false, false⟩,
    cs := ⟨[⟨false, 0, [1], -1⟩, ⟨false, 1, [-1], 0⟩], 2, false⟩,
    gs := ⟨[⟨false, 1, [1], 1⟩, ⟨false, 1, [0], 0⟩], 2, false⟩ }

def exNRef : RefPoly := ⟨true, 1, [gtRow [1] 0, geRow [-1] 1]⟩

theorem exNRef_wf : WF exNRef.n exNRef.cs := by
  intro c hc
  simp only [exNRef, List.mem_cons, List.not_mem_nil, or_false] at hc
  rcases hc with rfl | rfl <;> simp [geRow, gtRow, exNRef]

theorem exN_wf : exN.WF := by
  refine ⟨?_, ?_, ?_, ?_, ?_, ?_, ?_, ?_⟩
  · intro _ _ r hr
    simp only [exN, List.mem_cons, List.not_mem_nil, or_false] at hr
    rcases hr with rfl | rfl <;> rfl
  · intro _ _ r hr
    simp only [exN, List.mem_cons, List.not_mem_nil, or_false] at hr
    rcases hr with rfl | rfl <;> simp [Row.genWF, exN]
  · intro _ _
    exact ⟨⟨false, 1, [1], 1⟩, by simp [exN], by simp [Row.isPoint]⟩
  · intro h; simp [exN] at h
  · intro h; simp [exN] at h
  · intro h; simp [exN] at h
  · intro _ _; exact Or.inl rfl
  · intro h; simp [exN] at h

theorem hseg_mem (x : Val) :
    x ∈ GenSem 1 [⟨.point, [1], 1⟩, ⟨.cpoint, [0], 1⟩] ↔ 0 < x 0 ∧ x 0 ≤ 1 := by
  constructor
  · rintro ⟨lam, h1, h2, ⟨j, hj, hp, hl⟩, h4⟩
    have a := h1 0 (by simp) rfl
    have b := h1 1 (by simp) rfl
    have hx := h4 0 (by omega)
    have hj0 : j = 0 := by
      have : j < 2 := hj
      rcases (by omega : j = 0 ∨ j = 1) with rfl | rfl
      · rfl
      · simp [Gen.isPt] at hp
    subst hj0
    simp [wsum, Val.tail, Gen.coord, Gen.isPtOrCp, Gen.d] at h2 hx
    constructor <;> linarith
  · rintro ⟨h0, h1⟩
    refine ⟨fun j => if j = 0 then x 0 else 1 - x 0, ?_, ?_, ?_, ?_⟩
    · intro j _ _
      show 0 ≤ (if j = 0 then x 0 else 1 - x 0)
      split <;> linarith
    · simp [wsum, Val.tail, Gen.isPtOrCp]
    · exact ⟨0, by simp, rfl, by simpa using h0⟩
    · intro i hi
      have : i = 0 := by omega
      subst this
      simp [wsum, Val.tail, Gen.coord, Gen.d, Gen.isPtOrCp]

theorem exN_denotes : exN.Denotes (sem exNRef.cs) := by
  refine ⟨fun h => by simp [exN] at h, fun _ => ⟨fun _ _ => rfl, fun _ _ => ?_,
    fun h => by simp [exN] at h⟩⟩
  ext x
  show x ∈ GenSem 1 [⟨.point, [1], 1⟩, ⟨.cpoint, [0], 1⟩] ↔ Sat [gtRow [1] 0, geRow [-1] 1] x
  rw [hseg_mem]
  simp only [Sat, List.mem_cons, List.not_mem_nil, or_false, forall_eq_or_imp, forall_eq, geRow, gtRow,
    Con.sat, Con.eval, dot_cons, dot_nil]
  norm_num

/-- the constraint path: the strict row is relaxed, `ε ≤ 1` is inserted -/
example : ∃ q, exN.topological_closure_assign = some q ∧ q.Denotes (sem exNRef.closure.cs) := by
  have h : exN.topological_closure_assign.isSome = true := rfl
  obtain ⟨q, hq⟩ := Option.isSome_iff_exists.mp h
  exact ⟨q, hq, topological_closure_assign_rows_correct exN q exNRef rfl exNRef_wf exN_wf
    (Or.inr ⟨rfl, rfl⟩) exN_denotes hq⟩

example : exN.topological_closure_assign.map (fun q => q.cs.rows) =
    some [⟨false, 0, [1], 0⟩, ⟨false, 1, [-1], 0⟩, ⟨false, 1, [0], -1⟩] := by decide

/-- the same set held by its generators only: the generator path -/
def exNg : Poly := { exN with st := ⟨false, false, true, false, false, false, false, false, false⟩ }

theorem exNg_wf : exNg.WF := by
  refine ⟨fun _ h => (by cases h), fun _ _ => exN_wf.gs_wf rfl rfl, fun _ _ => exN_wf.gs_pt rfl rfl,
    ?_, ?_, ?_, fun _ _ => Or.inr rfl, ?_⟩
  · intro h; simp [exNg] at h
  · intro h; simp [exNg] at h
  · intro h; simp [exNg] at h
  · intro h; simp [exNg, exN] at h

theorem exNg_denotes : exNg.Denotes (sem exNRef.cs) :=
  ⟨fun h => by simp [exNg] at h, fun _ => ⟨fun h => by simp [exNg] at h,
    fun _ _ => (exN_denotes.2 rfl).2.1 rfl rfl, fun _ h => by simp [exNg] at h⟩⟩

example : ∃ q, exNg.topological_closure_assign = some q ∧
    ∃ R : Set Val, q.Denotes R ∧ sem exNRef.cs ⊆ R ∧ R ⊆ sem exNRef.closure.cs := by
  have h : exNg.topological_closure_assign.isSome = true := rfl
  obtain ⟨q, hq⟩ := Option.isSome_iff_exists.mp h
  exact ⟨q, hq, topological_closure_assign_rows_sandwich exNg q exNRef rfl exNRef_wf exNg_wf rfl rfl
    (by decide) (Or.inr rfl) exNg_denotes hq⟩

/-- the generator path at full strength -/
example : ∃ q, exNg.topological_closure_assign = some q ∧ q.Denotes (sem exNRef.closure.cs) := by
  have h : exNg.topological_closure_assign.isSome = true := rfl
  obtain ⟨q, hq⟩ := Option.isSome_iff_exists.mp h
  exact ⟨q, hq, topological_closure_assign_rows_correct_full exNg q exNRef rfl exNRef_wf exNg_wf
    exNg_denotes hq⟩

/-- the rows of the generator path: the point `0` matching the closure point `0` is added -/
example : exNg.topological_closure_assign.map (fun q => q.gs.rows) =
    some [⟨false, 1, [1], 1⟩, ⟨false, 1, [0], 0⟩, ⟨false, 1, [0], 1⟩] := by decide

/-- the NNC invariant used by `time_elapse_assign_rows_correct_nnc_partial` holds after
    `add_corresponding_points`, e.g. on these rows -/
example : NNCInv [⟨false, 1, [1], 1⟩, ⟨false, 1, [1], 0⟩, ⟨false, 1, [0], 0⟩] := by
  intro r hr hp
  simp only [List.mem_cons, List.not_mem_nil, or_false] at hr
  rcases hr with rfl | rfl | rfl
  · exact ⟨⟨false, 1, [1], 0⟩, by simp, rfl, by decide, rfl, fun _ => rfl⟩
  · exact absurd rfl hp.2.2.2
  · exact absurd rfl hp.2.2.2


/-! ### `fold_space_dimensions` -/

/-- the point `(1, 2)` of the plane, held by its generator -/
def ex2 : Poly :=
  { nnc := false, dim := 2,
    st := ⟨false, false, true, false, false, false, false, false, false⟩,
    cs := Sys.clear,
    gs := ⟨[⟨false, 1, [1, 2], 0⟩], 1, false⟩ }

def ex2G : List Gen := [⟨.point, [1, 2], 1⟩]

theorem ex2_wf : ex2.WF := by
  refine ⟨fun _ h => (by cases h), ?_, ?_, ?_, ?_, ?_, fun _ _ => Or.inr rfl, ?_⟩
  · intro _ _ r hr
    simp only [ex2, List.mem_cons, List.not_mem_nil, or_false] at hr
    subst hr; simp [Row.genWF, ex2]
  · intro _ _
    exact ⟨⟨false, 1, [1, 2], 0⟩, by simp [ex2], by simp [Row.isPoint, ex2]⟩
  · intro h; simp [ex2] at h
  · intro h; simp [ex2] at h
  · intro h; simp [ex2] at h
  · intro h; simp [ex2] at h

theorem ex2_denotes : ex2.Denotes (GenSem 2 ex2G) :=
  ⟨fun h => by simp [ex2] at h, fun _ => ⟨fun h => by simp [ex2] at h, fun _ _ => rfl,
    fun _ h => by simp [ex2] at h⟩⟩

/-- folding `y` into `x` on the point `(1, 2)` -/
example : ∃ q, ex2.fold_space_dimensions [1] 0 = some q ∧
    q.Denotes (sem (RefPoly.foldGens (univ false 2) [1] 0 ex2G).cs) := by
  have h : (ex2.fold_space_dimensions [1] 0).isSome = true := rfl
  obtain ⟨q, hq⟩ := Option.isSome_iff_exists.mp h
  exact ⟨q, hq, fold_space_dimensions_rows_correct ex2 q [1] 0 (univ false 2) ex2G rfl ex2_wf
    ⟨fun h => by simp [ex2, Status.canPend] at h, fun h => by simp [ex2] at h⟩ (by decide) (by decide)
    (by decide) (by decide) (by decide) (Or.inr ⟨⟨.point, [1, 2], 1⟩, by simp [ex2G], rfl⟩)
    ex2_denotes hq⟩

/-- the rows: the points `1` and `2` of the line -/
example : (ex2.fold_space_dimensions [1] 0).map (fun q => (q.dim, q.gs.rows)) =
    some (1, [⟨false, 1, [1], 0⟩, ⟨false, 1, [2], 0⟩]) := by decide

end PPLV.PolyOps
