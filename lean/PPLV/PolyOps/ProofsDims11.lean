import PPLV.PolyOps.ProofsDims9
import PPLV.PolyOps.ProofsDims10

/-!
# C02 stage 2 — `map_space_dimensions` at row level

`f[j] = pfunc(j)`; hypotheses on `f` (what `Partial_Function` guarantees): defined on the variables
of the polyhedron (`hlen`), injective (`hinj`), with codomain exactly `{0, …, N-1}` (`hcod`,
`hsurj`).  The reference operator is given the pairs `mapPairs f` and the new dimension `N`.
-/
namespace PPLV.PolyOps
open PPLV.Lin

set_option linter.unusedSimpArgs false
set_option linter.unusedVariables false

theorem all_none_iff (f : List (Option Nat)) :
    f.all (· == none) = true ↔ ∀ j k, f.getD j none ≠ some k := by
  rw [List.all_eq_true]
  constructor
  · intro h j k hjk
    have := h (some k) ((mem_some_iff f k).mpr ⟨j, hjk⟩)
    simp at this
  · intro h o ho
    cases o with
    | none => rfl
    | some k =>
      obtain ⟨j, hj⟩ := (mem_some_iff f k).mp ho
      exact absurd hj (h j k)

theorem isIdentity_iff (f : List (Option Nat)) :
    isIdentity f = true ↔ ∀ j < f.length, f.getD j none = some j := by
  unfold isIdentity
  rw [List.all_eq_true]
  simp only [List.mem_range, beq_iff_eq]

/-- **`Polyhedron::map_space_dimensions` at row level.** -/
theorem map_space_dimensions_rows_correct (p q : Poly) (f : List (Option Nat)) (N : Nat)
    (ref : RefPoly)
    (hn : ref.n = p.dim) (_hnnc : ref.nnc = p.nnc) (hwf : WF ref.n ref.cs) (hp : p.WF)
    (hlen : f.length = p.dim)
    (hinj : ∀ j j' k, f.getD j none = some k → f.getD j' none = some k → j = j')
    (hcod : ∀ j k, f.getD j none = some k → k < N)
    (hsurj : ∀ k < N, ∃ j, f.getD j none = some k)
    (hD : p.Denotes (sem ref.cs)) (h : p.map_space_dimensions f = some q) :
    q.Denotes (sem (ref.mapDims N (mapPairs f)).cs) := by
  rw [sem_mapDims ref f N hwf (by rw [hlen, hn]) hcod]
  have hSdet : CoordDet p.dim (sem ref.cs) := by rw [← hn]; exact coordDet_sem _ _ hwf
  unfold Poly.map_space_dimensions at h
  by_cases hd : p.dim = 0
  · -- zero-dimensional: nothing to rename
    have hd0 : (p.dim == 0) = true := by simpa using hd
    rw [hd0, if_pos rfl] at h
    have hq := (Option.some.inj h).symm
    have hnone : ∀ j k, f.getD j none ≠ some k := by
      intro j k hjk
      have := getD_some_lt f j k hjk
      omega
    rw [hq]
    cases hem : p.st.empty
    · obtain ⟨hc0, hg0⟩ := hp.zero_dim hd
      have hS := (hD.2 hem).2.2 hc0 hg0
      rw [hS] at hD ⊢
      rw [mapSet_none f _ hnone ⟨fun _ => 0, Set.mem_univ _⟩]
      exact hD
    · have hS := hD.1 hem
      rw [hS] at hD ⊢
      rw [mapSet_empty]
      exact hD
  have hd0 : (p.dim == 0) = false := by simpa using hd
  rw [hd0] at h
  simp only [Bool.false_eq_true, if_false] at h
  by_cases hall : f.all (· == none) = true
  · -- every variable projected away
    rw [hall, if_pos rfl] at h
    have hnone := (all_none_iff f).mp hall
    cases hem : p.st.empty
    · rw [hem] at h
      simp only [Bool.false_eq_true, if_false] at h
      cases hcp : p.st.cPend
      swap
      · simp [hcp] at h
      cases hgu : p.st.gUp
      · simp [hcp, hgu] at h
      simp only [hcp, hgu, Bool.false_eq_true, if_false, Bool.not_true] at h
      have hq := (Option.some.inj h).symm
      have hne : (sem ref.cs).Nonempty := by
        rw [← (hD.2 hem).2.1 hgu hcp]
        exact kit_nonempty p.nnc p.dim _ (hp.gs_wf hem hgu) (hp.gs_pt hem hgu)
      rw [hq, mapSet_none f _ hnone hne]
      exact ⟨fun h => (by cases h), fun _ => ⟨fun h => (by cases h), fun h => (by cases h),
        fun _ _ => rfl⟩⟩
    · rw [hem, if_pos rfl] at h
      have hq := (Option.some.inj h).symm
      rw [hq, hD.1 hem, mapSet_empty]
      exact ⟨fun _ => rfl, fun h => (by simp [hem] at h)⟩
  have hall0 : f.all (· == none) = false := by simpa using hall
  rw [hall0] at h
  simp only [Bool.false_eq_true, if_false] at h
  have hM : ∀ φ : Nat → Option Nat → Nat, (∀ m k, φ m (some k) = max m (k + 1)) →
      (∀ m, φ m none = m) → f.foldl φ 0 = N :=
    fun φ hs hn => foldl_newDim φ hs hn f N hcod hsurj
  rw [hM _ (fun _ _ => rfl) (fun _ => rfl)] at h
  by_cases hNd : N = p.dim
  · -- a permutation of the variables
    have hNd0 : (N == p.dim) = true := by simpa using hNd
    rw [hNd0, if_pos rfl] at h
    subst hNd
    by_cases hid : isIdentity f = true
    · rw [hid, if_pos rfl] at h
      have hq := (Option.some.inj h).symm
      rw [hq, mapSet_id f p.dim _ hSdet hlen (by rw [← hlen]; exact (isIdentity_iff f).mp hid)]
      exact hD
    · have hid0 : isIdentity f = false := by simpa using hid
      rw [hid0] at h
      simp only [Bool.false_eq_true, if_false] at h
      have hq := (Option.some.inj h).symm
      rw [hq]
      cases hem : p.st.empty
      · obtain ⟨hDc, hDg, _⟩ := hD.2 hem
        refine ⟨fun h => (by simp [hem] at h), fun _ => ⟨fun hcu hgp => ?_, fun hgu hcp => ?_,
          fun hcu hgu => ?_⟩⟩
        · have hcu' : p.st.cUp = true := hcu
          have hgp' : p.st.gPend = false := hgp
          show conSem p.nnc (if p.st.cUp = true then
            ({ p.cs.mapRows (Row.permute f) with sorted := false } : Sys) else p.cs).rows = _
          rw [if_pos hcu']
          show conSem p.nnc (p.cs.rows.map (Row.permute f)) = _
          rw [conSem_permute p.nnc f p.dim _ hlen (hp.cs_len hem hcu') hinj hcod, hDc hcu' hgp',
            mapSet_eq_pull f p.dim _ hSdet (total_of_bij f p.dim hlen hinj hsurj)]
        · have hgu' : p.st.gUp = true := hgu
          have hcp' : p.st.cPend = false := hcp
          show genSem p.nnc p.dim (if p.st.gUp = true then
            ({ p.gs.mapRows (Row.permute f) with sorted := false } : Sys) else p.gs).rows = _
          rw [if_pos hgu']
          show genSem p.nnc p.dim (p.gs.rows.map (Row.permute f)) = _
          rw [genSem_permute p.nnc f p.dim _ (hp.gs_wf hem hgu') hlen hinj hcod hsurj,
            hDg hgu' hcp']
        · exact absurd (not_cUp_gUp_false p hp hem hd hcu hgu) id
      · rw [hD.1 hem, mapSet_empty]
        exact ⟨fun _ => rfl, fun h => (by simp [hem] at h)⟩
  · -- the general case: the generator system is rebuilt
    have hNd0 : (N == p.dim) = false := by simpa using hNd
    rw [hNd0] at h
    simp only [Bool.false_eq_true, if_false] at h
    cases hem : p.st.empty
    · rw [hem] at h
      simp only [Bool.false_eq_true, if_false] at h
      cases hcp : p.st.cPend
      swap
      · simp [hcp] at h
      cases hgu : p.st.gUp
      · simp [hcp, hgu] at h
      simp only [hcp, hgu, Bool.not_true, Bool.or_self, Bool.false_eq_true, if_false] at h
      have hq := (Option.some.inj h).symm
      have hfacts := genRowMap_facts p.nnc p.dim N f p.gs.rows (hp.gs_wf hem hgu) hlen hinj hcod hsurj
      rw [hq]
      refine ⟨fun h => (by cases h), fun _ => ⟨fun h => (by cases h), fun _ _ => ?_,
        fun _ h => (by cases h)⟩⟩
      show genSem p.nnc N (if p.nnc = true then
        addCorrespondingClosurePoints (p.gs.rows.filterMap (genRowMap f N))
        else p.gs.rows.filterMap (genRowMap f N)) = _
      rw [← (hD.2 hem).2.1 hgu hcp, ← hfacts.1]
      cases hnn : p.nnc
      · rw [if_neg (by simp)]
      · rw [if_pos rfl]
        rw [hnn] at hfacts
        exact genSem_addCCP N _ hfacts.2
    · rw [hem, if_pos rfl] at h
      have hq := (Option.some.inj h).symm
      rw [hq, hD.1 hem, mapSet_empty]
      exact ⟨fun _ => rfl, fun h => (by cases h)⟩

end PPLV.PolyOps
