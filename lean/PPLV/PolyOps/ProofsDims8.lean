import PPLV.PolyOps.ProofsDims3

/-!
# C02 stage 2 — `map_space_dimensions`: the partial injective map, the generator side

`f[j] = some k`: old variable `j` becomes new variable `k`; `f[j] = none`: projected away.
`mapPairs f`: the pairs the reference operator `RefPoly.mapDims` is given.
-/
namespace PPLV.PolyOps
open PPLV.Lin

set_option linter.unusedSimpArgs false
set_option linter.unusedVariables false

def mapPairs (f : List (Option Nat)) : List (Nat × Nat) :=
  (List.range f.length).filterMap fun j => (f.getD j none).map fun k => (j, k)

theorem getD_some_lt (f : List (Option Nat)) (j k : Nat) (h : f.getD j none = some k) :
    j < f.length := by
  by_contra hlt
  rw [List.getD_eq_getElem?_getD, List.getElem?_eq_none (by omega)] at h
  cases h

theorem mem_mapPairs (f : List (Option Nat)) (j k : Nat) :
    (j, k) ∈ mapPairs f ↔ f.getD j none = some k := by
  unfold mapPairs
  simp only [List.mem_filterMap, List.mem_range, Option.map_eq_some_iff, Prod.mk.injEq]
  constructor
  · rintro ⟨a, _, k', hk', rfl, rfl⟩
    exact hk'
  · intro h
    exact ⟨j, getD_some_lt f j k h, k, h, rfl, rfl⟩

/-- the image of `S` under the partial injective renaming `f` (`mapDims_spec`) -/
def mapSet (f : List (Option Nat)) (S : Set Val) : Set Val :=
  {w | ∃ x ∈ S, ∀ j k, f.getD j none = some k → w k = x j}

theorem sem_mapDims (ref : RefPoly) (f : List (Option Nat)) (N : Nat) (hwf : WF ref.n ref.cs)
    (hlen : f.length = ref.n) (hcod : ∀ j k, f.getD j none = some k → k < N) :
    sem (ref.mapDims N (mapPairs f)).cs = mapSet f (sem ref.cs) := by
  ext w
  have hf : ∀ jf ∈ mapPairs f, jf.1 < ref.n ∧ jf.2 < N := by
    rintro ⟨j, k⟩ hjk
    have h := (mem_mapPairs f j k).mp hjk
    exact ⟨by rw [← hlen]; exact getD_some_lt f j k h, hcod j k h⟩
  show Sat _ w ↔ _
  rw [mapDims_spec ref N _ hwf hf]
  simp only [mapSet, Set.mem_ofPred_eq]
  refine exists_congr fun x => and_congr_right fun _ => ?_
  constructor
  · intro h j k hjk
    exact h (j, k) ((mem_mapPairs f j k).mpr hjk)
  · rintro h ⟨j, k⟩ hjk
    exact h j k ((mem_mapPairs f j k).mp hjk)

theorem mapSet_empty (f : List (Option Nat)) : mapSet f ∅ = ∅ := by
  ext w; simp [mapSet]

/-- nothing is kept: the image of a non-empty set is everything -/
theorem mapSet_none (f : List (Option Nat)) (S : Set Val) (hf : ∀ j k, f.getD j none ≠ some k)
    (h : S.Nonempty) : mapSet f S = Set.univ := by
  obtain ⟨x, hx⟩ := h
  ext w
  simp only [mapSet, Set.mem_ofPred_eq, Set.mem_univ, iff_true]
  exact ⟨x, hx, fun j k hjk => absurd hjk (hf j k)⟩

/-- the identity on `n` variables -/
theorem mapSet_id (f : List (Option Nat)) (n : Nat) (S : Set Val) (hS : CoordDet n S)
    (hlen : f.length = n) (hid : ∀ j < n, f.getD j none = some j) : mapSet f S = S := by
  ext w
  simp only [mapSet, Set.mem_ofPred_eq]
  constructor
  · rintro ⟨x, hx, hw⟩
    exact (hS w x fun j hj => hw j j (hid j hj)).mpr hx
  · intro hw
    refine ⟨w, hw, fun j k hjk => ?_⟩
    have hj : j < n := by rw [← hlen]; exact getD_some_lt f j k hjk
    rw [hid j hj] at hjk
    cases hjk; rfl

/-! ### the new dimension computed by the fold -/

theorem mem_some_iff (f : List (Option Nat)) (k : Nat) :
    some k ∈ f ↔ ∃ j, f.getD j none = some k := by
  constructor
  · intro h
    obtain ⟨j, hj, hjk⟩ := List.mem_iff_getElem.mp h
    exact ⟨j, by simp [List.getD_eq_getElem?_getD, hj, hjk]⟩
  · rintro ⟨j, hjk⟩
    have hj := getD_some_lt f j k hjk
    have : f[j] = some k := by
      simpa [List.getD_eq_getElem?_getD, hj] using hjk
    rw [← this]
    exact List.getElem_mem hj

theorem foldl_max_facts (φ : Nat → Option Nat → Nat) (hs : ∀ m k, φ m (some k) = max m (k + 1))
    (hn : ∀ m, φ m none = m) (f : List (Option Nat)) :
    ∀ a, a ≤ f.foldl φ a ∧ (∀ k, some k ∈ f → k + 1 ≤ f.foldl φ a) ∧
      (f.foldl φ a = a ∨ ∃ k, some k ∈ f ∧ f.foldl φ a = k + 1) := by
  induction f with
  | nil => intro a; exact ⟨le_refl _, fun k hk => absurd hk (by simp), Or.inl rfl⟩
  | cons o t ih =>
    intro a
    rw [List.foldl_cons]
    obtain ⟨h1, h2, h3⟩ := ih (φ a o)
    have ha : a ≤ φ a o := by
      cases o with
      | none => rw [hn]
      | some k => rw [hs]; exact le_max_left _ _
    refine ⟨le_trans ha h1, ?_, ?_⟩
    · intro k hk
      rcases List.mem_cons.mp hk with rfl | hk
      · have : k + 1 ≤ φ a (some k) := by rw [hs]; exact le_max_right _ _
        exact le_trans this h1
      · exact h2 k hk
    · rcases h3 with h3 | ⟨k, hk, h3⟩
      · cases o with
        | none => left; rw [h3, hn]
        | some k =>
          rcases le_total a (k + 1) with hle | hle
          · right; exact ⟨k, List.mem_cons_self, by rw [h3, hs, max_eq_right hle]⟩
          · left; rw [h3, hs, max_eq_left hle]
      · right; exact ⟨k, List.mem_cons_of_mem _ hk, h3⟩

theorem foldl_newDim (φ : Nat → Option Nat → Nat) (hs : ∀ m k, φ m (some k) = max m (k + 1))
    (hn : ∀ m, φ m none = m) (f : List (Option Nat)) (N : Nat)
    (hcod : ∀ j k, f.getD j none = some k → k < N)
    (hsurj : ∀ k < N, ∃ j, f.getD j none = some k) : f.foldl φ 0 = N := by
  obtain ⟨_, h2, h3⟩ := foldl_max_facts φ hs hn f 0
  apply le_antisymm
  · rcases h3 with h3 | ⟨k, hk, h3⟩
    · omega
    · obtain ⟨j, hj⟩ := (mem_some_iff f k).mp hk
      have := hcod j k hj
      omega
  · by_contra hlt
    have hN : N - 1 < N := by omega
    obtain ⟨j, hj⟩ := hsurj (N - 1) hN
    have := h2 (N - 1) ((mem_some_iff f _).mpr ⟨j, hj⟩)
    omega

/-! ### the inverse index used by `mapCoords` -/

def invIdx (f : List (Option Nat)) (k : Nat) : Option Nat :=
  (List.range f.length).find? (fun j => f.getD j none == some k)

theorem invIdx_some (f : List (Option Nat)) (k j : Nat) (h : invIdx f k = some j) :
    f.getD j none = some k := by
  have := List.find?_some h
  simpa using this

theorem invIdx_of (f : List (Option Nat)) (k j : Nat)
    (hinj : ∀ j j' k, f.getD j none = some k → f.getD j' none = some k → j = j')
    (h : f.getD j none = some k) : invIdx f k = some j := by
  cases hi : invIdx f k with
  | none =>
    have := List.find?_eq_none.mp hi j (List.mem_range.mpr (getD_some_lt f j k h))
    rw [h] at this
    simp at this
  | some j' =>
    rw [hinj j' j k (invIdx_some f k j' hi) h]

def selSrc (f : List (Option Nat)) (N : Nat) : List (Option Nat) := (List.range N).map (invIdx f)

theorem selSrc_getD (f : List (Option Nat)) (N k : Nat) (h : k < N) :
    (selSrc f N).getD k none = invIdx f k := by
  simp [selSrc, List.getD_eq_getElem?_getD, h]

theorem selSrc_getD_ge (f : List (Option Nat)) (N k : Nat) (h : N ≤ k) :
    (selSrc f N).getD k none = none := by
  simp [selSrc, List.getD_eq_getElem?_getD, h]

/-- the row with its coefficients renamed -/
def Row.mapC (f : List (Option Nat)) (N : Nat) (r : Row) : Row := { r with cf := mapCoords f N r.cf }

theorem mapCoords_length (f : List (Option Nat)) (N : Nat) (l : List Int) :
    (mapCoords f N l).length = N := by
  simp [mapCoords]

theorem mapC_genWF (nnc : Bool) (n N : Nat) (f : List (Option Nat)) (r : Row) (h : r.genWF nnc n) :
    (r.mapC f N).genWF nnc N ∧ (r.isPoint nnc → (r.mapC f N).isPoint nnc) := by
  obtain ⟨_, h2⟩ := h
  exact ⟨⟨mapCoords_length f N r.cf, h2⟩, id⟩

/-- generators: renaming the coefficients of every row computes the image -/
theorem genSem_mapC (nnc : Bool) (n N : Nat) (f : List (Option Nat)) (rows : List Row)
    (hwf : ∀ r ∈ rows, r.genWF nnc n) (hlen : f.length = n)
    (hinj : ∀ j j' k, f.getD j none = some k → f.getD j' none = some k → j = j')
    (hcod : ∀ j k, f.getD j none = some k → k < N)
    (hsurj : ∀ k < N, ∃ j, f.getD j none = some k) :
    genSem nnc N (rows.map (Row.mapC f N)) = mapSet f (genSem nnc n rows) := by
  have hsrc : ∀ k j, (selSrc f N).getD k none = some j → j < n := by
    intro k j hkj
    by_cases hk : k < N
    · rw [selSrc_getD f N k hk] at hkj
      rw [← hlen]
      exact getD_some_lt f j k (invIdx_some f k j hkj)
    · rw [selSrc_getD_ge f N k (by omega)] at hkj
      cases hkj
  refine Eq.trans ?_ (Eq.trans
    (kit_selectCoords nnc n N (selSrc f N) rows hwf (by simp [selSrc]) hsrc) ?_)
  · congr 1
    apply List.map_congr_left
    intro r _
    unfold Row.mapC mapCoords selSrc invIdx
    rw [List.map_map]
    rfl
  · ext w
    simp only [mapSet, Set.mem_ofPred_eq]
    refine exists_congr fun x => and_congr_right fun _ => ?_
    constructor
    · intro h j k hjk
      have hk := hcod j k hjk
      have := h k hk
      rw [selSrc_getD f N k hk, invIdx_of f k j hinj hjk] at this
      exact this
    · intro h k hk
      obtain ⟨j, hjk⟩ := hsurj k hk
      rw [selSrc_getD f N k hk, invIdx_of f k j hinj hjk]
      exact h j k hjk

end PPLV.PolyOps
