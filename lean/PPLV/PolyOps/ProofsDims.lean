import PPLV.PolyOps.ProofsGenKit3
import PPLV.PolyOps.ProofsCon
import PPLV.PolyOps.ProofsAffine

/-!
# C02 stage 2 — dimension-changing operators: common lemmas

`Sys.addZeroCols` / `Sys.addUniverseRows` on both kinds of systems:
* constraints: zero columns change nothing; the unit equalities say `w k = 0` on the new variables;
* generators: zero columns put the set into the hyperplane of the new variables (`projSet`); the unit
  lines free them again.
-/
namespace PPLV.PolyOps
open PPLV.Lin

/-- `S` with the coordinates `n ≤ j < n + m` forced to zero -/
def projSet (n m : Nat) (S : Set Val) : Set Val := {w | w ∈ S ∧ ∀ j, n ≤ j → j < n + m → w j = 0}

theorem sem_addDimsProject (ref : RefPoly) (m : Nat) :
    sem (ref.addDimsProject m).cs = projSet ref.n m (sem ref.cs) := by
  ext w
  exact addDimsProject_spec ref m w

theorem projSet_empty (n m : Nat) : projSet n m ∅ = ∅ := by
  ext w; simp [projSet]

theorem projSet_zero (n : Nat) (S : Set Val) : projSet n 0 S = S := by
  ext w
  simp only [projSet, Set.mem_ofPred_eq]
  exact ⟨fun h => h.1, fun h => ⟨h, fun j h1 h2 => by omega⟩⟩

/-! ### rows: evaluation -/

theorem ev_addZeroCols (m : Nat) (r : Row) (w : Val) : (r.addZeroCols m).ev w = r.ev w := by
  unfold Row.ev Row.addZeroCols
  simp only
  rw [dot_append, dot_replicate_zero]; ring

theorem holds_addZeroCols (nnc : Bool) (m : Nat) (r : Row) (w : Val) :
    (r.addZeroCols m).Holds nnc w ↔ r.Holds nnc w := by
  have := holds_of_ev nnc r (r.addZeroCols m) w w 1 (by norm_num) rfl Iff.rfl
    (by rw [ev_addZeroCols]; ring)
  exact this

theorem conSem_addZeroCols (nnc : Bool) (m : Nat) (rows : List Row) :
    conSem nnc (rows.map (Row.addZeroCols m)) = conSem nnc rows :=
  conSem_map_congr nnc rows _ fun r _ w => holds_addZeroCols nnc m r w

theorem ev_unitEqRow (total i : Nat) (w : Val) : (unitEqRow total i).ev w = w i := by
  unfold Row.ev unitEqRow
  simp only
  rw [dot_append]
  have : List.replicate i (0 : Int) ++ [1] = unitRow i 1 := rfl
  rw [this, dot_unitRow, dot_replicate_zero]
  push_cast; ring

theorem holds_unitEqRow (nnc : Bool) (total i : Nat) (w : Val) :
    (unitEqRow total i).Holds nnc w ↔ w i = 0 := by
  unfold Row.Holds
  rw [if_pos (by rfl), ev_unitEqRow]

theorem unitEqRow_genWF (nnc : Bool) (total i : Nat) (h : i < total) :
    (unitEqRow total i).genWF nnc total := by
  refine ⟨?_, le_refl _, le_refl _, fun _ => rfl, fun _ => rfl, fun _ => rfl⟩
  simp [unitEqRow]; omega

theorem unitEqRow_cf_length (total i : Nat) (h : i < total) : (unitEqRow total i).cf.length = total := by
  simp [unitEqRow]; omega

/-! ### the new rows of `add_universe_rows_and_space_dimensions` -/

theorem mem_addUniverseRows (nnc : Bool) (n m : Nat) (s : Sys) (hm : 0 < m) (r : Row) :
    r ∈ (s.addUniverseRows nnc n m).rows ↔
      (∃ i, n ≤ i ∧ i < n + m ∧ r = unitEqRow (n + m) i) ∨ r ∈ s.rows.map (Row.addZeroCols m) := by
  unfold Sys.addUniverseRows
  simp only [List.mem_append]
  refine or_congr ?_ Iff.rfl
  split
  · simp only [List.mem_cons, List.mem_map, List.mem_range]
    constructor
    · rintro (rfl | ⟨i, hi, rfl⟩)
      · exact ⟨n, le_refl _, by omega, rfl⟩
      · exact ⟨n + (m - 1 - i), by omega, by omega, rfl⟩
    · rintro ⟨i, h1, h2, rfl⟩
      by_cases hi : i = n
      · left; rw [hi]
      · right
        refine ⟨n + m - 1 - i, by omega, ?_⟩
        congr 1; omega
  · simp only [List.mem_map, List.mem_range]
    constructor
    · rintro ⟨i, hi, rfl⟩
      exact ⟨n + (m - 1 - i), by omega, by omega, rfl⟩
    · rintro ⟨i, h1, h2, rfl⟩
      refine ⟨n + m - 1 - i, by omega, ?_⟩
      congr 1; omega

/-- constraints: the unit equalities force the new variables to zero -/
theorem conSem_addUniverseRows (nnc : Bool) (n m : Nat) (s : Sys) (hm : 0 < m) :
    conSem nnc (s.addUniverseRows nnc n m).rows = projSet n m (conSem nnc s.rows) := by
  ext w
  rw [mem_conSem]
  simp only [projSet, Set.mem_ofPred_eq]
  rw [← conSem_addZeroCols nnc m s.rows, mem_conSem]
  constructor
  · intro h
    refine ⟨fun r hr => h r ((mem_addUniverseRows nnc n m s hm r).mpr (Or.inr hr)), fun j h1 h2 => ?_⟩
    exact (holds_unitEqRow nnc (n + m) j w).mp
      (h _ ((mem_addUniverseRows nnc n m s hm _).mpr (Or.inl ⟨j, h1, h2, rfl⟩)))
  · rintro ⟨h1, h2⟩ r hr
    rcases (mem_addUniverseRows nnc n m s hm r).mp hr with ⟨i, hi1, hi2, rfl⟩ | hr
    · exact (holds_unitEqRow nnc (n + m) i w).mpr (h2 i hi1 hi2)
    · exact h1 r hr

theorem addUniverseRows_cf_length (nnc : Bool) (n m : Nat) (s : Sys) (hm : 0 < m)
    (h : ∀ r ∈ s.rows, r.cf.length = n) : ∀ r ∈ (s.addUniverseRows nnc n m).rows, r.cf.length = n + m := by
  intro r hr
  rcases (mem_addUniverseRows nnc n m s hm r).mp hr with ⟨i, _, hi2, rfl⟩ | hr
  · exact unitEqRow_cf_length _ _ hi2
  · obtain ⟨r0, hr0, rfl⟩ := List.mem_map.mp hr
    simp [Row.addZeroCols, h r0 hr0]

/-! ### generators: zero columns -/

/-- the selection that pads with `m` zero columns -/
def embSrc (n m : Nat) : List (Option Nat) := (List.range n).map some ++ List.replicate m none

theorem embSrc_length (n m : Nat) : (embSrc n m).length = n + m := by simp [embSrc]

theorem embSrc_getD_lt (n m k : Nat) (h : k < n) : (embSrc n m).getD k none = some k := by
  simp [embSrc, List.getD_eq_getElem?_getD, List.getElem?_append_left, h]

theorem embSrc_getD_ge (n m k : Nat) (h : n ≤ k) : (embSrc n m).getD k none = none := by
  unfold embSrc
  rw [List.getD_eq_getElem?_getD, List.getElem?_append_right (by simpa using h)]
  simp only [List.length_map, List.length_range, List.getElem?_replicate]
  split <;> rfl

theorem range_map_getD (l : List Int) : (List.range l.length).map (fun j => l.getD j 0) = l := by
  apply List.ext_getElem
  · simp
  · intro i h1 h2
    simp [List.getD_eq_getElem?_getD, h2]

theorem addZeroCols_eq_sel (n m : Nat) (r : Row) (h : r.cf.length = n) :
    r.addZeroCols m = { r with cf := (embSrc n m).map fun o =>
      match o with | some j => r.cf.getD j 0 | none => 0 } := by
  unfold Row.addZeroCols embSrc
  congr 1
  rw [List.map_append, List.map_map, List.map_replicate]
  congr 1
  rw [← h]
  exact (range_map_getD r.cf).symm

theorem addZeroCols_genWF (nnc : Bool) (n m : Nat) (r : Row) (h : r.genWF nnc n) :
    (r.addZeroCols m).genWF nnc (n + m) ∧ (r.isPoint nnc → (r.addZeroCols m).isPoint nnc) := by
  obtain ⟨h1, h2⟩ := h
  exact ⟨⟨by simp [Row.addZeroCols, h1], h2⟩, id⟩

/-- generators: zero columns put the set into the hyperplane `w_k = 0` of the new variables -/
theorem genSem_addZeroCols (nnc : Bool) (n m : Nat) (rows : List Row)
    (hwf : ∀ r ∈ rows, r.genWF nnc n) :
    genSem nnc (n + m) (rows.map (Row.addZeroCols m)) = projSet n m (genSem nnc n rows) := by
  have hmap : rows.map (Row.addZeroCols m) = rows.map fun r =>
      { r with cf := (embSrc n m).map fun o => match o with | some j => r.cf.getD j 0 | none => 0 } :=
    List.map_congr_left fun r hr => addZeroCols_eq_sel n m r (hwf r hr).1
  have hsrc : ∀ k j, (embSrc n m).getD k none = some j → j < n := by
    intro k j hkj
    by_cases hkn : k < n
    · rw [embSrc_getD_lt n m k hkn] at hkj
      cases hkj; exact hkn
    · rw [embSrc_getD_ge n m k (by omega)] at hkj
      cases hkj
  rw [hmap]
  refine Eq.trans (kit_selectCoords nnc n (n + m) (embSrc n m) rows hwf (embSrc_length n m) hsrc) ?_
  · ext w
    simp only [projSet, Set.mem_ofPred_eq]
    constructor
    · rintro ⟨x, hx, hw⟩
      refine ⟨GenSem_cylinder n _ w x hx fun i hi => ?_, fun j h1 h2 => ?_⟩
      · have := hw i (by omega)
        rw [embSrc_getD_lt n m i hi] at this
        exact this.symm
      · have := hw j h2
        rw [embSrc_getD_ge n m j h1] at this
        exact this
    · rintro ⟨hw, h0⟩
      refine ⟨w, hw, fun k hk => ?_⟩
      by_cases hkn : k < n
      · rw [embSrc_getD_lt n m k hkn]
      · rw [embSrc_getD_ge n m k (by omega)]
        exact h0 k (by omega) hk

/-! ### generators: the set only depends on the set of rows -/

theorem genSem_rows_congr (nnc : Bool) (n : Nat) (R1 R2 : List Row)
    (hwf : ∀ r ∈ R1, r.genWF nnc n) (h : ∀ r, r ∈ R1 ↔ r ∈ R2) :
    genSem nnc n R1 = genSem nnc n R2 := by
  unfold genSem
  apply kit_memEquiv n _ _ (gensWF_gensOf nnc n R1 hwf)
  intro g
  unfold gensOf
  simp only [List.mem_map]
  constructor <;> rintro ⟨r, hr, rfl⟩
  · exact ⟨r, (h r).mp hr, rfl⟩
  · exact ⟨r, (h r).mpr hr, rfl⟩

theorem addUniverseRows_genWF (nnc : Bool) (n m : Nat) (s : Sys) (hm : 0 < m)
    (hwf : ∀ r ∈ s.rows, r.genWF nnc n) :
    ∀ r ∈ (s.addUniverseRows nnc n m).rows, r.genWF nnc (n + m) := by
  intro r hr
  rcases (mem_addUniverseRows nnc n m s hm r).mp hr with ⟨i, _, hi2, rfl⟩ | hr
  · exact unitEqRow_genWF nnc _ _ hi2
  · obtain ⟨r0, hr0, rfl⟩ := List.mem_map.mp hr
    exact (addZeroCols_genWF nnc n m r0 (hwf r0 hr0)).1

theorem addUniverseRows_pt (nnc : Bool) (n m : Nat) (s : Sys) (hm : 0 < m)
    (h : ∃ r ∈ s.rows, r.isPoint nnc) : ∃ r ∈ (s.addUniverseRows nnc n m).rows, r.isPoint nnc := by
  obtain ⟨r, hr, hp⟩ := h
  exact ⟨r.addZeroCols m, (mem_addUniverseRows nnc n m s hm _).mpr
    (Or.inr (List.mem_map.mpr ⟨r, hr, rfl⟩)), hp⟩

/-- generators: zero columns and the lines of the new variables — the same set of valuations
    (`S` only looks at the coordinates below `n`) -/
theorem genSem_addUniverseRows (nnc : Bool) (n m : Nat) (s : Sys) (hm : 0 < m)
    (hwf : ∀ r ∈ s.rows, r.genWF nnc n) :
    genSem nnc (n + m) (s.addUniverseRows nnc n m).rows = genSem nnc n s.rows := by
  have hwf' : ∀ r ∈ s.rows.map (Row.addZeroCols m), r.genWF nnc (n + m) := by
    intro r hr
    obtain ⟨r0, hr0, rfl⟩ := List.mem_map.mp hr
    exact (addZeroCols_genWF nnc n m r0 (hwf r0 hr0)).1
  rw [genSem_rows_congr nnc (n + m) _
    (s.rows.map (Row.addZeroCols m) ++ (List.range' n m).map (unitEqRow (n + m)))
    (addUniverseRows_genWF nnc n m s hm hwf)]
  · rw [kit_addLines nnc (n + m) _ (List.range' n m) hwf'
      (fun v hv => by have := List.mem_range'_1.mp hv; omega), genSem_addZeroCols nnc n m s.rows hwf]
    ext w
    simp only [projSet, Set.mem_ofPred_eq]
    constructor
    · rintro ⟨x, ⟨hx, _⟩, hw⟩
      refine GenSem_cylinder n _ w x hx fun i hi => (hw i (by omega) ?_).symm
      intro hmem
      have := List.mem_range'_1.mp hmem
      omega
    · intro hw
      refine ⟨fun j => if n ≤ j ∧ j < n + m then 0 else w j, ⟨?_, ?_⟩, ?_⟩
      · refine GenSem_cylinder n _ _ w hw fun i hi => ?_
        rw [if_neg (by omega)]
      · intro j h1 h2
        show (if n ≤ j ∧ j < n + m then (0 : Rat) else w j) = 0
        rw [if_pos ⟨h1, h2⟩]
      · intro j hj hmem
        show w j = (if n ≤ j ∧ j < n + m then (0 : Rat) else w j)
        rw [if_neg]
        intro hh
        exact hmem (List.mem_range'_1.mpr ⟨hh.1, by omega⟩)
  · intro r
    rw [mem_addUniverseRows nnc n m s hm r, List.mem_append, or_comm]
    refine or_congr Iff.rfl ?_
    simp only [List.mem_map, List.mem_range'_1]
    constructor
    · rintro ⟨i, h1, h2, rfl⟩; exact ⟨i, ⟨h1, by omega⟩, rfl⟩
    · rintro ⟨i, ⟨h1, h2⟩, rfl⟩; exact ⟨i, h1, by omega, rfl⟩

end PPLV.PolyOps
