import PPLV.PolyOps.ProofsAffine3

/-!
# C02 stage 2 — `affine_image` / `affine_preimage`: the hypotheses of the row-level theorems are
satisfiable

The segment `0 ≤ x ≤ 1` of dimension 1 held with BOTH descriptions (constraints `x ≥ 0`, `1 - x ≥ 0`;
generators: the points `0` and `1`), the reference polyhedron with the same constraints, and the maps
`x := -2x + 1` (invertible, negative coefficient), `x := (-2x + 1)/(-1)` (negative denominator) and
`x := 1` (not invertible).  Every hypothesis of `affine_image_rows_correct`,
`affine_image_rows_wf`, `affine_preimage_rows_correct`, `affine_preimage_rows_wf` is proved for
these terms and the theorems are applied.
-/
namespace PPLV.PolyOps
open PPLV.Lin

def exP : Poly :=
  { nnc := false, dim := 1,
    st := ⟨false, true, true, false, false, false, false, false, false⟩,
    cs := ⟨[⟨false, 0, [1], 0⟩, ⟨false, 1, [-1], 0⟩], 2, false⟩,
    gs := ⟨[⟨false, 1, [0], 0⟩, ⟨false, 1, [1], 0⟩], 2, false⟩ }

def exRef : RefPoly := ⟨false, 1, [geRow [1] 0, geRow [-1] 1]⟩

/-- `-2x + 1` -/
def exE : LinExpr := ⟨[-2], 1⟩
/-- the constant `1` -/
def exK : LinExpr := ⟨[0], 1⟩

theorem exRef_wf : WF exRef.n exRef.cs := by
  intro c hc
  simp only [exRef, List.mem_cons, List.not_mem_nil, or_false] at hc
  rcases hc with rfl | rfl <;> simp [geRow, exRef]

theorem exP_wf : exP.WF := by
  refine ⟨?_, ?_, ?_, ?_, ?_, ?_, ?_, ?_⟩
  · intro _ _ r hr
    simp only [exP, List.mem_cons, List.not_mem_nil, or_false] at hr
    rcases hr with rfl | rfl <;> rfl
  · intro _ _ r hr
    simp only [exP, List.mem_cons, List.not_mem_nil, or_false] at hr
    rcases hr with rfl | rfl <;> simp [Row.genWF, exP]
  · intro _ _
    exact ⟨⟨false, 1, [0], 0⟩, by simp [exP], by simp [Row.isPoint, exP]⟩
  · intro h; simp [exP] at h
  · intro h; simp [exP] at h
  · intro h; simp [exP] at h
  · intro _ _; exact Or.inl rfl
  · intro h; simp [exP] at h

theorem seg_mem (x : Val) :
    x ∈ GenSem 1 [⟨.point, [0], 1⟩, ⟨.point, [1], 1⟩] ↔ 0 ≤ x 0 ∧ x 0 ≤ 1 := by
  constructor
  · rintro ⟨lam, h1, h2, _, h4⟩
    have a := h1 0 (by simp) rfl
    have b := h1 1 (by simp) rfl
    have hx := h4 0 (by omega)
    simp [wsum, Val.tail, Gen.coord, Gen.isPtOrCp, Gen.d] at h2 hx
    constructor <;> linarith
  · rintro ⟨h0, h1⟩
    refine ⟨fun j => if j = 0 then 1 - x 0 else x 0, ?_, ?_, ?_, ?_⟩
    · intro j _ _
      show 0 ≤ (if j = 0 then 1 - x 0 else x 0)
      split <;> linarith
    · simp [wsum, Val.tail, Gen.isPtOrCp]
    · by_cases hx : 0 < x 0
      · exact ⟨1, by simp, rfl, by simpa using hx⟩
      · exact ⟨0, by simp, rfl, by simp; linarith⟩
    · intro i hi
      have : i = 0 := by omega
      subst this
      simp [wsum, Val.tail, Gen.coord, Gen.d, Gen.isPtOrCp]

theorem exP_denotes : exP.Denotes (sem exRef.cs) := by
  refine ⟨fun h => by simp [exP] at h, fun _ => ⟨fun _ _ => rfl, fun _ _ => ?_,
    fun h => by simp [exP] at h⟩⟩
  ext x
  show x ∈ GenSem 1 [⟨.point, [0], 1⟩, ⟨.point, [1], 1⟩] ↔ Sat [geRow [1] 0, geRow [-1] 1] x
  rw [seg_mem]
  simp only [Sat, List.mem_cons, List.not_mem_nil, or_false, forall_eq_or_imp, forall_eq, geRow,
    Con.sat, Con.eval, dot_cons, dot_nil]
  norm_num

/-- `affine_image_rows_correct` / `affine_image_rows_wf`, invertible map `x := -2x + 1` -/
example : ∃ q, exP.affine_image 0 exE 1 = some q ∧
    q.Denotes (sem (exRef.affineImage 0 exE 1).cs) ∧ q.WF := by
  have h : (exP.affine_image 0 exE 1).isSome = true := rfl
  obtain ⟨q, hq⟩ := Option.isSome_iff_exists.mp h
  exact ⟨q, hq,
    affine_image_rows_correct exP q 0 exE 1 exRef rfl rfl exRef_wf exP_wf (by decide) rfl
      (by decide) exP_denotes hq,
    affine_image_rows_wf exP q 0 exE 1 exP_wf (by decide) rfl (by decide) hq⟩

/-- the same with a negative denominator, `x := (-2x + 1)/(-1)` -/
example : ∃ q, exP.affine_image 0 exE (-1) = some q ∧
    q.Denotes (sem (exRef.affineImage 0 exE (-1)).cs) ∧ q.WF := by
  have h : (exP.affine_image 0 exE (-1)).isSome = true := rfl
  obtain ⟨q, hq⟩ := Option.isSome_iff_exists.mp h
  exact ⟨q, hq,
    affine_image_rows_correct exP q 0 exE (-1) exRef rfl rfl exRef_wf exP_wf (by decide) rfl
      (by decide) exP_denotes hq,
    affine_image_rows_wf exP q 0 exE (-1) exP_wf (by decide) rfl (by decide) hq⟩

/-- not invertible, `x := 1` -/
example : ∃ q, exP.affine_image 0 exK 1 = some q ∧
    q.Denotes (sem (exRef.affineImage 0 exK 1).cs) ∧ q.WF := by
  have h : (exP.affine_image 0 exK 1).isSome = true := rfl
  obtain ⟨q, hq⟩ := Option.isSome_iff_exists.mp h
  exact ⟨q, hq,
    affine_image_rows_correct exP q 0 exK 1 exRef rfl rfl exRef_wf exP_wf (by decide) rfl
      (by decide) exP_denotes hq,
    affine_image_rows_wf exP q 0 exK 1 exP_wf (by decide) rfl (by decide) hq⟩

/-- `affine_preimage_rows_correct` / `affine_preimage_rows_wf`, `x := -2x + 1` -/
example : ∃ q, exP.affine_preimage 0 exE 1 = some q ∧
    q.Denotes (sem (exRef.affinePreimage 0 exE 1).cs) ∧ q.WF := by
  have h : (exP.affine_preimage 0 exE 1).isSome = true := rfl
  obtain ⟨q, hq⟩ := Option.isSome_iff_exists.mp h
  exact ⟨q, hq,
    affine_preimage_rows_correct exP q 0 exE 1 exRef rfl rfl exRef_wf exP_wf (by decide) rfl
      (by decide) exP_denotes hq,
    affine_preimage_rows_wf exP q 0 exE 1 exP_wf (by decide) rfl (by decide) hq⟩

/-- not invertible, `x := 1` -/
example : ∃ q, exP.affine_preimage 0 exK 1 = some q ∧
    q.Denotes (sem (exRef.affinePreimage 0 exK 1).cs) ∧ q.WF := by
  have h : (exP.affine_preimage 0 exK 1).isSome = true := rfl
  obtain ⟨q, hq⟩ := Option.isSome_iff_exists.mp h
  exact ⟨q, hq,
    affine_preimage_rows_correct exP q 0 exK 1 exRef rfl rfl exRef_wf exP_wf (by decide) rfl
      (by decide) exP_denotes hq,
    affine_preimage_rows_wf exP q 0 exK 1 exP_wf (by decide) rfl (by decide) hq⟩

/-- the rows computed for `x := -2x + 1` on the segment: constraints `1 - x ≥ 0`, `1 + x ≥ 0`
    (the segment `[-1, 1]`), generators the points `1` and `-1` -/
example : (exP.affine_image 0 exE 1).map (fun q => (q.cs.rows, q.gs.rows)) =
    some ([⟨false, 1, [-1], 0⟩, ⟨false, 1, [1], 0⟩], [⟨false, 1, [1], 0⟩, ⟨false, 1, [-1], 0⟩]) := by
  decide

/-! ### with pending generators

The point `0` with its constraint `x = 0`, both minimized, and the point `1` added as a PENDING
generator: the constraint system describes only the non-pending part, the whole generator system
denotes the segment. -/

def exPg : Poly :=
  { nnc := false, dim := 1,
    st := ⟨false, true, true, true, true, true, false, false, true⟩,
    cs := ⟨[⟨true, 0, [1], 0⟩], 1, true⟩,
    gs := ⟨[⟨false, 1, [0], 0⟩, ⟨false, 1, [1], 0⟩], 1, false⟩ }

theorem exPg_wf : exPg.WF := by
  refine ⟨?_, ?_, ?_, ?_, ?_, ?_, ?_, ?_⟩
  · intro _ _ r hr
    simp only [exPg, List.mem_cons, List.not_mem_nil, or_false] at hr
    subst hr; rfl
  · intro _ _ r hr
    simp only [exPg, List.mem_cons, List.not_mem_nil, or_false] at hr
    rcases hr with rfl | rfl <;> simp [Row.genWF, exPg]
  · intro _ _
    exact ⟨⟨false, 1, [0], 0⟩, by simp [exPg], by simp [Row.isPoint, exPg]⟩
  · intro h; simp [exPg] at h
  · intro _; exact ⟨rfl, rfl⟩
  · intro h; simp [exPg] at h
  · intro _ _; exact Or.inl rfl
  · intro h; simp [exPg] at h

theorem exPg_denotes : exPg.Denotes (sem exRef.cs) := by
  refine ⟨fun h => by simp [exPg] at h, fun _ => ⟨fun _ h => by simp [exPg] at h,
    fun _ _ => exP_denotes.2 rfl |>.2.1 rfl rfl, fun h => by simp [exPg] at h⟩⟩

/-- not invertible (`x := 1`) with pending generators: `remove_pending_to_obtain_generators` path -/
example : ∃ q, exPg.affine_image 0 exK 1 = some q ∧
    q.Denotes (sem (exRef.affineImage 0 exK 1).cs) ∧ q.WF ∧ q.st.cUp = false := by
  have h : (exPg.affine_image 0 exK 1).isSome = true := rfl
  obtain ⟨q, hq⟩ := Option.isSome_iff_exists.mp h
  exact ⟨q, hq,
    affine_image_rows_correct exPg q 0 exK 1 exRef rfl rfl exRef_wf exPg_wf (by decide) rfl
      (by decide) exPg_denotes hq,
    affine_image_rows_wf exPg q 0 exK 1 exPg_wf (by decide) rfl (by decide) hq,
    (affine_image_noninv_shape exPg q 0 exK 1 exPg_wf rfl rfl hq).2.2.2.2.2.2.1⟩

/-- invertible (`x := -2x + 1`) with pending generators: pending rows are transformed too -/
example : ∃ q, exPg.affine_image 0 exE 1 = some q ∧
    q.Denotes (sem (exRef.affineImage 0 exE 1).cs) ∧ q.WF := by
  have h : (exPg.affine_image 0 exE 1).isSome = true := rfl
  obtain ⟨q, hq⟩ := Option.isSome_iff_exists.mp h
  exact ⟨q, hq,
    affine_image_rows_correct exPg q 0 exE 1 exRef rfl rfl exRef_wf exPg_wf (by decide) rfl
      (by decide) exPg_denotes hq,
    affine_image_rows_wf exPg q 0 exE 1 exPg_wf (by decide) rfl (by decide) hq⟩

/-- with pending generators a non-invertible PREIMAGE needs the conversion: the model answers `none` -/
example : exPg.affine_preimage 0 exK 1 = none := rfl

end PPLV.PolyOps
