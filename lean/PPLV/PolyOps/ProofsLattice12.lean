import PPLV.PolyOps.ProofsLattice7
import PPLV.PolyOps.ProofsLattice11

/-!
# C02 stage 2 — `topological_closure_assign` at row level, all branches at full strength

`topological_closure_assign_rows_correct_full`: the two hypotheses of
`topological_closure_assign_rows_correct_partial` are discharged with `genSem_closed_of_matched`
(ProofsLattice11): `add_corresponding_points` matches every closure point with a point, and a
closed-topology generator system has no closure points at all.
-/
namespace PPLV.PolyOps
open PPLV.Lin

/-- after `add_corresponding_points` every closure point is matched -/
theorem matched_addCorrespondingPoints (n : Nat) (rows : List Row)
    (hwf : ∀ r ∈ rows, r.genWF true n) : Matched (gensOf true (addCorrespondingPoints rows)) := by
  intro g hg hk
  unfold gensOf at hg
  obtain ⟨r, hr, rfl⟩ := List.mem_map.mp hg
  rw [addCorrespondingPoints_eq] at hr
  rcases List.mem_append.mp hr with hr | hr
  · rcases rowShape true r with ⟨_, hg⟩ | ⟨_, _, hg⟩ | ⟨hl, hz, _, hez, hg⟩ | ⟨_, _, _, hg⟩
    · rw [hg] at hk; cases hk
    · rw [hg] at hk; cases hk
    · have hmem : ({ r with eps := r.b } : Row) ∈ corrPoints rows := by
        unfold corrPoints
        exact List.mem_map.mpr ⟨r, List.mem_filter.mpr ⟨hr, by simp [hz, hez]⟩, rfl⟩
      refine ⟨Row.toGen true { r with eps := r.b }, ?_, ?_, ?_⟩
      · unfold gensOf
        rw [addCorrespondingPoints_eq]
        exact List.mem_map.mpr ⟨_, List.mem_append_right _ hmem, rfl⟩
      · rw [toGen_pt true ({ r with eps := r.b } : Row) hl hz (fun hh => hz hh.2)]
      · rw [toGen_pt true ({ r with eps := r.b } : Row) hl hz (fun hh => hz hh.2), hg]
        rfl
    · rw [hg] at hk; cases hk
  · obtain ⟨_, r0, _, _, hpt⟩ := corrPoints_facts n rows hwf r hr
    rw [hpt] at hk; cases hk

/-- closed topology: no closure points -/
theorem no_cpoint_closed (rows : List Row) : ∀ g ∈ gensOf false rows, g.kind ≠ .cpoint := by
  intro g hg
  unfold gensOf at hg
  obtain ⟨r, _, rfl⟩ := List.mem_map.mp hg
  rcases rowShape false r with ⟨_, hg⟩ | ⟨_, _, hg⟩ | ⟨_, _, hn, _, _⟩ | ⟨_, _, _, hg⟩
  · rw [hg]; intro h; cases h
  · rw [hg]; intro h; cases h
  · cases hn
  · rw [hg]; intro h; cases h

/-- generators are valid when the constraints are not (well-formed, not marked empty, dim > 0) -/
theorem gens_valid_of_not_cons (p : Poly) (hp : p.WF) (he : p.st.empty = false) (hd : p.dim ≠ 0)
    (hor : p.st.gPend = true ∨ p.st.cUp = false) : p.st.gUp = true ∧ p.st.cPend = false := by
  rcases hor with h | h
  · refine ⟨(hp.pend_g h).2, ?_⟩
    cases hc : p.st.cPend
    · rfl
    · exact absurd ⟨hc, h⟩ hp.pend_one
  · constructor
    · rcases hp.some_up he (by omega) with h' | h'
      · rw [h] at h'; cases h'
      · exact h'
    · cases hc : p.st.cPend
      · rfl
      · rw [(hp.pend_c hc).1] at h; cases h

/-- **`Polyhedron::topological_closure_assign` at row level: the reference closure**, whatever
    description the polyhedron holds (constraint path, generator path, closed topology). -/
theorem topological_closure_assign_rows_correct_full (p q : Poly) (ref : RefPoly)
    (hn : ref.n = p.dim) (hwf : WF ref.n ref.cs) (hp : p.WF)
    (hD : p.Denotes (sem ref.cs)) (h : p.topological_closure_assign = some q) :
    q.Denotes (sem ref.closure.cs) := by
  apply topological_closure_assign_rows_correct_partial p q ref hn hwf hp _ _ hD h
  · -- closed topology, only generators valid
    intro hnn he hor
    by_cases hd : p.dim = 0
    · rw [(hD.2 he).2.2 (hp.zero_dim hd).1 (hp.zero_dim hd).2]
      exact Set.subset_univ _
    · obtain ⟨hgu, hcp⟩ := gens_valid_of_not_cons p hp he hd (hor.symm)
      obtain ⟨hgS, hne⟩ := denotes_gen_nonempty p _ hp he hgu hcp hD
      have hwfg := hp.gs_wf he hgu
      rw [hnn] at hwfg hgS
      obtain ⟨ds, hns, hsem⟩ := genSem_closed_of_no_cpoint p.dim _
        (gensWF_gensOf false p.dim _ hwfg) (no_cpoint_closed p.gs.rows)
      have hS : sem ds = sem ref.cs := by rw [hsem]; exact hgS
      rw [← hS]
      exact (closure_least ref.cs hne).2 ds hns (by rw [hS])
  · -- generator path
    intro hnn he hd hor
    obtain ⟨hgu, _⟩ := gens_valid_of_not_cons p hp he hd hor
    have hwfg := hp.gs_wf he hgu
    rw [hnn] at hwfg
    have hwfA : ∀ r ∈ addCorrespondingPoints p.gs.rows, r.genWF true p.dim := by
      intro r hr
      rw [addCorrespondingPoints_eq] at hr
      rcases List.mem_append.mp hr with hr | hr
      · exact hwfg r hr
      · exact (corrPoints_facts p.dim p.gs.rows hwfg r hr).1
    exact genSem_closed_of_matched p.dim _ (gensWF_gensOf true p.dim _ hwfA)
      (matched_addCorrespondingPoints p.dim p.gs.rows hwfg)

end PPLV.PolyOps
