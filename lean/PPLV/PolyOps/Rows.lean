import PPLV.Lin.Ops2

/-!
# C02 stage 2 — raw rows of `Linear_System`, the pair (con_sys, gen_sys) and the status word

A `Row` is what `Linear_System<Row>::rows[i]` holds (`Constraint` / `Generator`): the kind bit
(`LINE_OR_EQUALITY` / `RAY_OR_POINT_OR_INEQUALITY`), the inhomogeneous term (`expr.get(0)`: the
constant of a constraint, the divisor of a generator), the coefficients of the `space_dim` variables
and — for the NNC topology — the epsilon coefficient (last column of the C++ row; `0` for C rows).
`Row.toCons` / `Row.toGen` read a raw row as K1 objects exactly as `Constraint::type()` /
`Generator::type()` do.  No Mathlib: linked into `pplv_polyops`.
-/
namespace PPLV.PolyOps
open PPLV.Lin

structure Row where
  eq : Bool          -- is_line_or_equality()
  b : Int            -- expr.inhomogeneous_term()
  cf : List Int      -- expr.coefficient(Variable(i)), i < space_dim
  eps : Int          -- epsilon_coefficient() (NNC), 0 for the closed topology
deriving Repr, DecidableEq, Inhabited, Hashable

/-- integer scalar product, the shorter list padded with zeros (`Scalar_Products::assign`) -/
def idot : List Int → List Int → Int
  | [], _ => 0
  | _, [] => 0
  | a :: as, c :: cs => a * c + idot as cs

/-- `expr *= k` on the whole row (`Linear_Expression::operator*=`): every column -/
def Row.scale (k : Int) (r : Row) : Row :=
  { r with b := k * r.b, cf := r.cf.map (k * ·), eps := k * r.eps }

def Row.gcd (r : Row) : Nat := Nat.gcd r.b.natAbs (Nat.gcd (gcdList r.cf) r.eps.natAbs)

/-- `Linear_Expression::normalize()`: divide every column by the gcd of all of them -/
def Row.normalize (r : Row) : Row :=
  let g := r.gcd
  if g ≤ 1 then r else
    { r with b := r.b / (g : Int), cf := r.cf.map (· / (g : Int)), eps := r.eps / (g : Int) }

def firstNonzero : List Int → Int
  | [] => 0
  | a :: as => if a != 0 then a else firstNonzero as

/-- `Linear_Expression::sign_normalize()` through `Constraint/Generator::sign_normalize()`: a line /
    equality whose first non-zero homogeneous coefficient (epsilon column last) is negative is negated -/
def Row.signNormalize (r : Row) : Row :=
  if r.eq && decide (firstNonzero (r.cf ++ [r.eps]) < 0) then r.scale (-1) else r

/-- `strong_normalize()` = `normalize(); sign_normalize();` -/
def Row.strongNormalize (r : Row) : Row := r.normalize.signNormalize

def Row.allHomZero (r : Row) : Bool := r.cf.all (· == 0) && r.eps == 0

/-! ### reading raw rows as K1 objects -/

/-- `Constraint::type()`: equality / strict inequality (NNC, epsilon coefficient `< 0`) / non-strict -/
def Row.toCons (nnc : Bool) (r : Row) : List Con :=
  if r.eq then eqRows r.cf r.b
  else if nnc && decide (r.eps < 0) then [gtRow r.cf r.b] else [geRow r.cf r.b]

def consOf (nnc : Bool) (rows : List Row) : List Con := rows.flatMap (Row.toCons nnc)

/-- `Generator::type()`: line / ray (divisor 0) / closure point (NNC, epsilon 0) / point -/
def Row.toGen (nnc : Bool) (r : Row) : Gen :=
  if r.eq then ⟨.line, r.cf, 1⟩
  else if r.b == 0 then ⟨.ray, r.cf, 1⟩
  else if nnc && r.eps == 0 then ⟨.cpoint, r.cf, r.b⟩ else ⟨.point, r.cf, r.b⟩

def gensOf (nnc : Bool) (rows : List Row) : List Gen := rows.map (Row.toGen nnc)

/-- a generator row that `Generator::OK()` accepts as far as the semantics needs it: lines and rays
    have divisor `0`, points a positive divisor; NNC: epsilon is `0` on lines/rays and in `[0, b]`… -/
def Row.genOK (r : Row) : Bool :=
  if r.eq then r.b == 0 else decide (0 ≤ r.b)

/-! ### systems, status, polyhedron -/

structure Sys where
  rows : List Row
  firstPending : Nat     -- index_first_pending
  sorted : Bool
deriving Repr, Inhabited

def Sys.clear : Sys := ⟨[], 0, true⟩
def Sys.unsetPending (s : Sys) : Sys := { s with firstPending := s.rows.length }
def Sys.mapRows (f : Row → Row) (s : Sys) : Sys := { s with rows := s.rows.map f }

/-- `Linear_System::insert_pending(y)`: every row of `y` appended as a pending row -/
def Sys.insertPendingSys (s : Sys) (ys : List Row) : Sys := { s with rows := s.rows ++ ys }
/-- `Linear_System::insert(y)`: appended, nothing pending afterwards (sortedness: not tracked) -/
def Sys.insertSys (s : Sys) (ys : List Row) : Sys :=
  { s with rows := s.rows ++ ys, firstPending := s.rows.length + ys.length, sorted := false }
/-- `Linear_System::merge_rows_assign(y)` (both sorted): the rows of `y` not already present are
    merged in.  Row ORDER is not modelled (the driver compares sorted row lists). -/
def Sys.mergeRowsAssign (s : Sys) (ys : List Row) : Sys :=
  let r := s.rows ++ ys.filter (fun y => !s.rows.contains y)
  { rows := r, firstPending := r.length, sorted := true }

/-- the status word of `Polyhedron::Status` (ZERO_DIM_UNIV = no flag set) -/
structure Status where
  empty : Bool
  cUp : Bool
  gUp : Bool
  cMin : Bool
  gMin : Bool
  satC : Bool
  satG : Bool
  cPend : Bool
  gPend : Bool
deriving Repr, DecidableEq, Inhabited

def Status.zeroDimUniv : Status := ⟨false, false, false, false, false, false, false, false, false⟩
def Status.setEmpty : Status := ⟨true, false, false, false, false, false, false, false, false⟩
/-- `clear_constraints_up_to_date()` (Polyhedron_inlines.hh:279) -/
def Status.clearCUp (s : Status) : Status :=
  { s with cPend := false, cMin := false, satC := false, satG := false, cUp := false }
/-- `clear_generators_up_to_date()` (Polyhedron_inlines.hh:289) -/
def Status.clearGUp (s : Status) : Status :=
  { s with gPend := false, gMin := false, satC := false, satG := false, gUp := false }
/-- `can_have_something_pending()` (Polyhedron_inlines.hh:180) -/
def Status.canPend (s : Status) : Bool := s.cMin && s.gMin && (s.satC || s.satG)
def Status.somethingPending (s : Status) : Bool := s.cPend || s.gPend

structure Poly where
  nnc : Bool
  dim : Nat
  st : Status
  cs : Sys
  gs : Sys
deriving Repr, Inhabited

/-- `set_empty()`: status EMPTY, both systems cleared -/
def Poly.setEmpty (p : Poly) : Poly := { p with st := Status.setEmpty, cs := Sys.clear, gs := Sys.clear }
/-- `set_zero_dim_univ()` -/
def Poly.setZeroDimUniv (p : Poly) : Poly :=
  { p with dim := 0, st := Status.zeroDimUniv, cs := Sys.clear, gs := Sys.clear }

/-! ### linear expressions -/

def exprNeg (e : LinExpr) : LinExpr := ⟨e.coeffs.map (- ·), -e.k⟩
/-- `e.set_coefficient(Variable(v), a)` on an expression padded to `n ≥ v+1` variables -/
def exprSet (n : Nat) (e : LinExpr) (v : Nat) (a : Int) : LinExpr := ⟨(padTo n e.coeffs).set v a, e.k⟩

/-- the low-level constraints of a universe polyhedron of dimension `n`
    (`Constraint_System::add_low_level_constraints`) -/
def lowLevelCons (nnc : Bool) (n : Nat) : List Row :=
  if nnc then [⟨false, 1, List.replicate n 0, -1⟩, ⟨false, 0, List.replicate n 0, 1⟩]
  else [⟨false, 1, List.replicate n 0, 0⟩]

end PPLV.PolyOps
