import PPLV.PolyOps.ProofsDims8

/-!
# C02 stage 2 — `map_space_dimensions`, general case: the rebuilt generator system

`genRowMap`: renamed coefficients, origin lines and rays dropped, rows (strongly) normalised, the
epsilon coefficient of a point rebuilt as its divisor;
`addCorrespondingClosurePoints` (NNC): the closure point of a point that is present adds nothing.
-/
namespace PPLV.PolyOps
open PPLV.Lin

set_option linter.unusedSimpArgs false
set_option linter.unusedVariables false

/-- what `genRowMap` does to a point or closure point: `point(expr, d)` / `closure_point(expr, d)`
    build a normalised generator without epsilon column; inserted into the system, a point gets
    `epsilon := divisor` -/
def normP (r : Row) : Row :=
  if r.eps > 0 then
    { ({ r with eps := 0 } : Row).normalize with eps := (({ r with eps := 0 } : Row).normalize).b }
  else ({ r with eps := 0 } : Row).normalize

/-- the normalisation `genRowMap` applies to a kept row -/
def normG (r : Row) : Row :=
  if (r.b == 0) = true then (if r.eq = true then r.strongNormalize else r.normalize) else normP r

theorem filterMap_genRowMap (f : List (Option Nat)) (N : Nat) (rows : List Row) :
    rows.filterMap (genRowMap f N) =
      ((rows.map (Row.mapC f N)).filter (fun r => !(r.b == 0 && r.cf.all (· == 0)))).map normG := by
  induction rows with
  | nil => rfl
  | cons r rs ih =>
    rw [List.filterMap_cons, List.map_cons, List.filter_cons, ih]
    unfold genRowMap normG normP Row.mapC
    simp only
    by_cases hb : r.b = 0 <;> cases hz : (mapCoords f N r.cf).all (· == 0) <;> cases he : r.eq <;>
      simp [hb, hz, he]

theorem eps_zero_eq (r : Row) (h : r.eps = 0) : ({ r with eps := 0 } : Row) = r := by
  cases r; simp only at h; subst h; rfl

/-- points and closure points: the kind, the coordinates over the divisor are kept -/
theorem normP_facts (nnc : Bool) (n : Nat) (r : Row) (h : r.genWF nnc n) (hb : r.b ≠ 0) :
    (normP r).genWF nnc n ∧ ((normP r).isPoint nnc ↔ r.isPoint nnc) ∧
      ∀ c : Con, rowAdmits c ((normP r).toGen nnc) ↔ rowAdmits c (r.toGen nnc) := by
  obtain ⟨h1, h2, h3, h4, h5, h6⟩ := h
  have hbpos : 0 < r.b := lt_of_le_of_ne h2 (Ne.symm hb)
  have heq : r.eq = false := by
    cases hq : r.eq
    · rfl
    · exact absurd (h4 hq) hb
  by_cases he : r.eps > 0
  · -- a point of an NNC system; the row without epsilon is read in the closed topology
    have hn : nnc = true := by
      cases hnn : nnc
      · have := h6 hnn; omega
      · rfl
    have hwf1 : ({ r with eps := 0 } : Row).genWF false n :=
      ⟨h1, h2, le_refl _, h4, fun _ => rfl, fun _ => rfl⟩
    have h0wf := (normalize_genWF false n _ hwf1).1
    have h0pt : (({ r with eps := 0 } : Row).normalize).isPoint false :=
      (normalize_isPoint_iff false _).mpr ⟨heq, hbpos, fun hh => by cases hh⟩
    have hadm0 := normalize_admits false n _ hwf1
    rw [toGen_pt false ({ r with eps := 0 } : Row) heq hb (by simp)] at hadm0
    unfold normP
    rw [if_pos he]
    generalize ({ r with eps := 0 } : Row).normalize = r0 at h0wf h0pt hadm0 ⊢
    obtain ⟨g1, g2, g3, g4, g5, g6⟩ := h0wf
    obtain ⟨p1, p2, _⟩ := h0pt
    rw [toGen_pt false r0 p1 (ne_of_gt p2) (by simp)] at hadm0
    refine ⟨⟨g1, g2, g2, g4, fun hh => absurd hh (ne_of_gt p2), fun hh => by rw [hn] at hh; cases hh⟩,
      ?_, fun c => ?_⟩
    · exact ⟨fun _ => ⟨heq, hbpos, fun _ => he⟩, fun _ => ⟨p1, p2, fun _ => p2⟩⟩
    · have hg : Row.toGen nnc ({ r0 with eps := r0.b } : Row) = ⟨.point, r0.cf, r0.b⟩ :=
        toGen_pt nnc ({ r0 with eps := r0.b } : Row) p1 (ne_of_gt p2) (by
          intro hh
          have h0 : r0.b = 0 := hh.2
          omega)
      rw [toGen_pt nnc r heq hb (by intro hh; omega)]
      exact hg ▸ hadm0 c
  · have he0 : r.eps = 0 := by omega
    have hr' : normP r = ({ r with eps := 0 } : Row).normalize := by
      unfold normP; rw [if_neg he]
    rw [hr', eps_zero_eq r he0]
    have hwf : r.genWF nnc n := ⟨h1, h2, h3, h4, h5, h6⟩
    exact ⟨(normalize_genWF nnc n r hwf).1, normalize_isPoint_iff nnc r,
      fun c => normalize_admits nnc n r hwf c⟩

theorem normG_facts (nnc : Bool) (n : Nat) (r : Row) (h : r.genWF nnc n) :
    (normG r).genWF nnc n ∧ ((normG r).isPoint nnc ↔ r.isPoint nnc) ∧
      ∀ c : Con, rowAdmits c ((normG r).toGen nnc) ↔ rowAdmits c (r.toGen nnc) := by
  unfold normG
  split
  · split
    · refine ⟨(kit_strongNormalizeWF nnc n r h).1, ?_, fun c => ?_⟩
      · unfold Row.strongNormalize
        rw [signNormalize_isPoint_iff, normalize_isPoint_iff]
      · unfold Row.strongNormalize
        rw [signNormalize_admits, normalize_admits nnc n r h c]
    · exact ⟨(kit_strongNormalizeWF nnc n r h).2.1, normalize_isPoint_iff nnc r,
        fun c => normalize_admits nnc n r h c⟩
  · rename_i hb
    exact normP_facts nnc n r h (by simpa using hb)

theorem genSem_normG (nnc : Bool) (n : Nat) (rows : List Row) (hwf : ∀ r ∈ rows, r.genWF nnc n) :
    genSem nnc n (rows.map normG) = genSem nnc n rows :=
  genSem_map_congr nnc n rows normG hwf
    (fun r hr => (normG_facts nnc n r (hwf r hr)).1)
    (fun r hr => (normG_facts nnc n r (hwf r hr)).2.1)
    (fun r hr => (normG_facts nnc n r (hwf r hr)).2.2)

/-- the rows `filterMap (genRowMap f N)` builds, and their facts -/
theorem genRowMap_facts (nnc : Bool) (n N : Nat) (f : List (Option Nat)) (rows : List Row)
    (hwf : ∀ r ∈ rows, r.genWF nnc n) (hlen : f.length = n)
    (hinj : ∀ j j' k, f.getD j none = some k → f.getD j' none = some k → j = j')
    (hcod : ∀ j k, f.getD j none = some k → k < N)
    (hsurj : ∀ k < N, ∃ j, f.getD j none = some k) :
    genSem nnc N (rows.filterMap (genRowMap f N)) = mapSet f (genSem nnc n rows) ∧
    (∀ r ∈ rows.filterMap (genRowMap f N), r.genWF nnc N) := by
  have hwf1 : ∀ r ∈ rows.map (Row.mapC f N), r.genWF nnc N := by
    intro r hr
    obtain ⟨r0, hr0, rfl⟩ := List.mem_map.mp hr
    exact (mapC_genWF nnc n N f r0 (hwf r0 hr0)).1
  have hfilt : (rows.map (Row.mapC f N)).filter (fun r => !(r.b == 0 && r.cf.all (· == 0))) =
      (rows.map (Row.mapC f N)).filter (fun r => !(r.b == 0 && r.allHomZero)) := by
    apply List.filter_congr
    intro r hr
    obtain ⟨_, _, _, _, h5, _⟩ := hwf1 r hr
    by_cases hb : r.b = 0
    · simp [hb, Row.allHomZero, h5 hb]
    · have hb' : (r.b == 0) = false := by simpa using hb
      rw [hb']; rfl
  have hwf2 : ∀ r ∈ (rows.map (Row.mapC f N)).filter (fun r => !(r.b == 0 && r.allHomZero)),
      r.genWF nnc N := fun r hr => hwf1 r (List.mem_filter.mp hr).1
  rw [filterMap_genRowMap, hfilt]
  refine ⟨?_, ?_⟩
  · rw [genSem_normG nnc N _ hwf2, kit_removeInvalid nnc N _ hwf1,
      genSem_mapC nnc n N f rows hwf hlen hinj hcod hsurj]
  · intro r hr
    obtain ⟨r0, hr0, rfl⟩ := List.mem_map.mp hr
    exact (normG_facts nnc N r0 (hwf2 r0 hr0)).1

/-! ### `add_corresponding_closure_points` -/

theorem genSem_addCCP (n : Nat) (rows : List Row) (hwf : ∀ r ∈ rows, r.genWF true n) :
    genSem true n (addCorrespondingClosurePoints rows) = genSem true n rows := by
  unfold addCorrespondingClosurePoints
  -- the facts about one added row
  have hextra : ∀ e ∈ (rows.reverse.filter (fun g => decide (g.eps > 0))).map
      (fun g => ({ g with eps := 0 } : Row).normalize),
      e.genWF true n ∧ ¬ e.isPoint true ∧
        ∀ c : Con, (∀ r ∈ rows, rowAdmits c (r.toGen true)) → rowAdmits c (e.toGen true) := by
    intro e he
    obtain ⟨g, hg, rfl⟩ := List.mem_map.mp he
    obtain ⟨hg1, hg2⟩ := List.mem_filter.mp hg
    have hgr : g ∈ rows := List.mem_reverse.mp hg1
    have heps : 0 < g.eps := by simpa using hg2
    obtain ⟨h1, h2, h3, h4, h5, h6⟩ := hwf g hgr
    have hb : g.b ≠ 0 := fun hb => by have := h5 hb; omega
    have heq : g.eq = false := by
      cases hq : g.eq
      · rfl
      · exact absurd (h4 hq) hb
    have hwf0 : ({ g with eps := 0 } : Row).genWF true n :=
      ⟨h1, h2, le_refl _, h4, fun _ => rfl, fun h => by cases h⟩
    refine ⟨(normalize_genWF true n _ hwf0).1, ?_, fun c hc => ?_⟩
    · rw [normalize_isPoint_iff]
      intro hp
      have := hp.2.2 rfl
      simp at this
    · rw [normalize_admits true n _ hwf0 c]
      have hpt := hc g hgr
      rw [toGen_pt true g heq hb (by intro h; omega)] at hpt
      rw [toGen_cp true ({ g with eps := 0 } : Row) heq hb rfl rfl]
      exact sat_nonneg c _ hpt
  have hwfA : ∀ r ∈ rows ++ (rows.reverse.filter (fun g => decide (g.eps > 0))).map
      (fun g => ({ g with eps := 0 } : Row).normalize), r.genWF true n := by
    intro r hr
    rcases List.mem_append.mp hr with hr | hr
    · exact hwf r hr
    · exact (hextra r hr).1
  unfold genSem
  apply genSem_congr_admits n _ _ (gensWF_gensOf true n _ hwfA) (gensWF_gensOf true n _ hwf)
  · rw [gensOf_pt true n _ hwfA, gensOf_pt true n _ hwf]
    constructor
    · rintro ⟨r, hr, hp⟩
      rcases List.mem_append.mp hr with hr | hr
      · exact ⟨r, hr, hp⟩
      · exact absurd hp (hextra r hr).2.1
    · rintro ⟨r, hr, hp⟩
      exact ⟨r, List.mem_append_left _ hr, hp⟩
  · intro c _
    unfold gensOf
    simp only [List.mem_map]
    constructor
    · rintro h g ⟨r, hr, rfl⟩
      exact h _ ⟨r, List.mem_append_left _ hr, rfl⟩
    · rintro h g ⟨r, hr, rfl⟩
      rcases List.mem_append.mp hr with hr | hr
      · exact h _ ⟨r, hr, rfl⟩
      · exact (hextra r hr).2.2 c (fun r0 hr0 => h _ ⟨r0, hr0, rfl⟩)

end PPLV.PolyOps
