import PPLV.PolyOps.ProofsDims3

/-!
# C02 stage 2 — `remove_space_dimensions` at row level
-/
namespace PPLV.PolyOps
open PPLV.Lin

set_option linter.unusedSimpArgs false
set_option linter.unusedVariables false

/-- "we need updated generators" without a conversion: generators were up to date and no
    constraints pending; the result holds the same generator rows, nothing pending -/
theorem obtainGens_shape (p p' : Poly) (hp : p.WF) (h : p.obtainGeneratorsNoConv = some p') :
    p.st.gUp = true ∧ p.st.cPend = false ∧ p'.nnc = p.nnc ∧ p'.dim = p.dim ∧
    p'.gs.rows = p.gs.rows ∧ p'.st.empty = p.st.empty ∧ p'.st.gUp = true ∧ p'.st.cPend = false ∧
    p'.st.gPend = false ∧ p'.cs = p.cs ∧
    (p'.st.cUp = true → p.st.cUp = true ∧ p.st.gPend = false) := by
  unfold Poly.obtainGeneratorsNoConv at h
  simp only [Status.somethingPending] at h
  by_cases hgp : p.st.gPend = true
  · obtain ⟨_, hgu⟩ := hp.pend_g hgp
    have hcp : p.st.cPend = false := by
      cases hx : p.st.cPend
      · rfl
      · exact absurd ⟨hx, hgp⟩ hp.pend_one
    simp only [hgp, hcp, Bool.or_true, if_true] at h
    have hq := (Option.some.inj h).symm
    subst hq
    refine ⟨hgu, hcp, rfl, rfl, rfl, ?_, ?_, ?_, ?_, rfl, ?_⟩ <;> simp [Status.clearCUp, hgu]
  · have hgp' : p.st.gPend = false := by simpa using hgp
    cases hcp : p.st.cPend
    · cases hgu : p.st.gUp
      · simp [hgp', hcp, hgu] at h
      · simp only [hgp', hcp, hgu, Bool.or_self, Bool.false_eq_true, if_false, Bool.not_true] at h
        have hq := (Option.some.inj h).symm
        subst hq
        exact ⟨rfl, rfl, rfl, rfl, rfl, rfl, hgu, hcp, hgp', rfl, fun hc => ⟨hc, hgp'⟩⟩
    · simp [hgp', hcp] at h

theorem otherVars_nil (n : Nat) : otherVars n [] = List.range n := by
  simp [otherVars]

/-- the three shapes of the result of `remove_space_dimensions` -/
theorem remove_space_dimensions_shape (p q : Poly) (vars : List Nat) (hv : vars ≠ [])
    (hem : p.st.empty = false) (h : p.remove_space_dimensions vars = some q) :
    ∃ p', p.obtainGeneratorsNoConv = some p' ∧
      q = (if (p.dim - vars.length == 0) = true then p'.setZeroDimUniv
        else { p' with gs := gsRemoveDims vars p'.gs,
                       st := { p'.st.clearCUp with gMin := false }, dim := p.dim - vars.length }) := by
  unfold Poly.remove_space_dimensions at h
  have hv' : vars.isEmpty = false := by
    cases vars with
    | nil => exact absurd rfl hv
    | cons a t => rfl
  rw [hv'] at h
  simp only [Bool.false_eq_true, if_false, hem] at h
  obtain ⟨p', hp', hq⟩ := Option.map_eq_some_iff.mp h
  exact ⟨p', hp', hq.symm⟩

/-- **`Polyhedron::remove_space_dimensions` at row level.**  `vars`: distinct variables of the
    polyhedron (the C++ passes a `Variables_Set`). -/
theorem remove_space_dimensions_rows_correct (p q : Poly) (vars : List Nat) (ref : RefPoly)
    (hn : ref.n = p.dim) (_hnnc : ref.nnc = p.nnc) (hwf : WF ref.n ref.cs) (hp : p.WF)
    (hnd : vars.Nodup) (hlt : ∀ v ∈ vars, v < p.dim)
    (hD : p.Denotes (sem ref.cs)) (h : p.remove_space_dimensions vars = some q) :
    q.Denotes (sem (ref.removeDims vars).cs) := by
  rw [sem_removeDims ref vars hwf, hn]
  have hSdet : CoordDet p.dim (sem ref.cs) := by rw [← hn]; exact coordDet_sem _ _ hwf
  have hlen := otherVars_length p.dim vars hnd hlt
  by_cases hv : vars = []
  · subst hv
    have hq : q = p := by
      unfold Poly.remove_space_dimensions at h
      simpa using h.symm
    rw [hq, otherVars_nil, selSet_range p.dim _ hSdet]
    exact hD
  cases hem : p.st.empty
  · obtain ⟨p', hp', hq⟩ := remove_space_dimensions_shape p q vars hv hem h
    obtain ⟨hgu, hcp, hn', hd', hrows, hem', hgu', hcp', hgp', _, _⟩ := obtainGens_shape p p' hp hp'
    have hgen := (hD.2 hem).2.1 hgu hcp
    by_cases h0 : p.dim - vars.length = 0
    · have h0' : (p.dim - vars.length == 0) = true := by simpa using h0
      rw [h0', if_pos rfl] at hq
      subst hq
      have hk : otherVars p.dim vars = [] := List.eq_nil_of_length_eq_zero (by omega)
      have hne : (sem ref.cs).Nonempty := by
        rw [← hgen]
        exact kit_nonempty p.nnc p.dim _ (hp.gs_wf hem hgu) (hp.gs_pt hem hgu)
      rw [hk, selSet_nil _ hne]
      exact ⟨fun h => (by cases h), fun _ => ⟨fun h => (by cases h), fun h => (by cases h),
        fun _ _ => rfl⟩⟩
    · have h0' : (p.dim - vars.length == 0) = false := by simpa using h0
      rw [h0'] at hq
      simp only [Bool.false_eq_true, if_false] at hq
      subst hq
      have hfacts := gsRemoveDims_facts p.nnc p.dim vars p.gs (hp.gs_wf hem hgu)
      refine ⟨fun h => (by simp [Status.clearCUp, hem', hem] at h), fun _ =>
        ⟨fun h => (by simp [Status.clearCUp] at h), fun _ _ => ?_,
         fun _ h => (by simp [Status.clearCUp, hgu'] at h)⟩⟩
      show genSem p'.nnc (p.dim - vars.length) (p'.gs.rows.filterMap (genRowRemoveDims vars)) = _
      rw [hn', hrows, ← hlen, ← hgen]
      exact hfacts.1
  · have hq : q = { p with cs := Sys.clear, dim := p.dim - vars.length } := by
      unfold Poly.remove_space_dimensions at h
      have hv' : vars.isEmpty = false := by
        cases vars with
        | nil => exact absurd rfl hv
        | cons a t => rfl
      rw [hv'] at h
      simpa [hem] using h.symm
    subst hq
    rw [hD.1 hem, selSet_empty]
    exact ⟨fun _ => rfl, fun h => (by simp [hem] at h)⟩

/-- the result of `remove_space_dimensions` is well formed.  `hes`: a polyhedron marked empty holds no
    description (`Status::OK()`: EMPTY excludes every other flag) — `Poly.WF` does not say so, and
    without it removing ALL dimensions of an empty polyhedron that claims up-to-date constraints
    would give a zero-dimensional polyhedron that claims a description. -/
theorem remove_space_dimensions_rows_wf (p q : Poly) (vars : List Nat) (hp : p.WF)
    (hnd : vars.Nodup) (hlt : ∀ v ∈ vars, v < p.dim)
    (hes : p.st.empty = true → p.st.cUp = false ∧ p.st.gUp = false)
    (h : p.remove_space_dimensions vars = some q) : q.WF := by
  have hlen := otherVars_length p.dim vars hnd hlt
  by_cases hv : vars = []
  · subst hv
    have hq : q = p := by
      unfold Poly.remove_space_dimensions at h
      simpa using h.symm
    rw [hq]
    exact hp
  cases hem : p.st.empty
  · obtain ⟨p', hp', hq⟩ := remove_space_dimensions_shape p q vars hv hem h
    obtain ⟨hgu, hcp, hn', hd', hrows, hem', hgu', hcp', hgp', _, _⟩ := obtainGens_shape p p' hp hp'
    by_cases h0 : p.dim - vars.length = 0
    · have h0' : (p.dim - vars.length == 0) = true := by simpa using h0
      rw [h0', if_pos rfl] at hq
      subst hq
      refine ⟨fun _ h => (by cases h), fun _ h => (by cases h), fun _ h => (by cases h),
        fun h => (by cases h), fun h => (by cases h), fun h => (by cases h.1),
        fun _ h => absurd h (by simp [Poly.setZeroDimUniv]), fun _ => ⟨rfl, rfl⟩⟩
    · have h0' : (p.dim - vars.length == 0) = false := by simpa using h0
      rw [h0'] at hq
      simp only [Bool.false_eq_true, if_false] at hq
      subst hq
      have hfacts := gsRemoveDims_facts p.nnc p.dim vars p.gs (hp.gs_wf hem hgu)
      have hr : (gsRemoveDims vars p'.gs).rows = (gsRemoveDims vars p.gs).rows := by
        show p'.gs.rows.filterMap _ = p.gs.rows.filterMap _
        rw [hrows]
      refine ⟨fun _ h => (by simp [Status.clearCUp] at h), fun _ _ => ?_, fun _ _ => ?_,
        fun h => (by simp [Status.clearCUp] at h), fun h => (by simp [Status.clearCUp, hgp'] at h),
        fun h => (by simp [Status.clearCUp, hgp'] at h), fun _ _ => Or.inr (by simp [Status.clearCUp, hgu']),
        fun h => absurd h h0⟩
      · show ∀ r ∈ (gsRemoveDims vars p'.gs).rows, r.genWF p'.nnc (p.dim - vars.length)
        rw [hr, hn', ← hlen]
        exact hfacts.2.1
      · show ∃ r ∈ (gsRemoveDims vars p'.gs).rows, r.isPoint p'.nnc
        rw [hr, hn']
        exact hfacts.2.2 (hp.gs_pt hem hgu)
  · have hq : q = { p with cs := Sys.clear, dim := p.dim - vars.length } := by
      unfold Poly.remove_space_dimensions at h
      have hv' : vars.isEmpty = false := by
        cases vars with
        | nil => exact absurd rfl hv
        | cons a t => rfl
      rw [hv'] at h
      simpa [hem] using h.symm
    subst hq
    obtain ⟨h1, h2⟩ := hes hem
    exact ⟨fun h => (by simp [hem] at h), fun h => (by simp [hem] at h),
      fun h => (by simp [hem] at h), hp.pend_c, hp.pend_g, hp.pend_one,
      fun h => (by simp [hem] at h), fun _ => ⟨h1, h2⟩⟩

end PPLV.PolyOps
