import PPLV.PolyOps.ProofsLattice
import PPLV.PolyOps.ProofsAffine

/-!
# C02 stage 2 — lattice operators at row level, part 2: generator insertion, `unconstrain`

The two ways the library adds generator rows to a polyhedron whose generators are up to date and
that has no pending constraints: as pending rows (`pendForm`: the status keeps everything and sets
`gPend`, so the constraints no longer describe the set) or directly (`dropForm`: the constraints
are declared out of date).  In both cases the only description the status word declares valid is
the generator list.
-/
namespace PPLV.PolyOps
open PPLV.Lin

def pendForm (p : Poly) (gs' : Sys) : Poly := { p with gs := gs', st := { p.st with gPend := true } }
def dropForm (p : Poly) (gs' : Sys) : Poly :=
  { p with gs := gs', st := ({ p.st with gMin := false }).clearCUp }

/-- only the generators are declared valid and they generate `S` -/
theorem denotes_gen_only (q : Poly) (S : Set Val) (he : q.st.empty = false) (hgu : q.st.gUp = true)
    (hc : q.st.cUp = true → q.st.gPend = true) (hg : genSem q.nnc q.dim q.gs.rows = S) :
    q.Denotes S :=
  ⟨fun h => (by rw [he] at h; cases h), fun _ =>
    ⟨fun hcu hgp => (by rw [hc hcu] at hgp; cases hgp), fun _ _ => hg,
     fun _ hgu' => (by rw [hgu] at hgu'; cases hgu')⟩⟩

theorem denotes_pendForm (p : Poly) (gs' : Sys) (S : Set Val) (he : p.st.empty = false)
    (hgu : p.st.gUp = true) (hg : genSem p.nnc p.dim gs'.rows = S) : (pendForm p gs').Denotes S :=
  denotes_gen_only _ S he hgu (fun _ => rfl) hg

theorem denotes_dropForm (p : Poly) (gs' : Sys) (S : Set Val) (he : p.st.empty = false)
    (hgu : p.st.gUp = true) (hg : genSem p.nnc p.dim gs'.rows = S) : (dropForm p gs').Denotes S := by
  apply denotes_gen_only _ S
  · simp [dropForm, Status.clearCUp, he]
  · simp [dropForm, Status.clearCUp, hgu]
  · intro h; simp [dropForm, Status.clearCUp] at h
  · exact hg

/-- well-formedness of the result of a generator insertion (the non-pending form) -/
theorem wf_dropForm (p : Poly) (gs' : Sys) (hp : p.WF)
    (hgu : p.st.gUp = true) (hgp : p.st.gPend = false) (hwf : ∀ r ∈ gs'.rows, r.genWF p.nnc p.dim)
    (hpt : ∃ r ∈ gs'.rows, r.isPoint p.nnc) : (dropForm p gs').WF := by
  refine ⟨fun _ h => ?_, fun _ _ => hwf, fun _ _ => hpt, fun h => ?_, fun h => ?_, fun h => ?_,
    fun _ _ => Or.inr ?_, fun hd => ?_⟩
  · simp [dropForm, Status.clearCUp] at h
  · simp [dropForm, Status.clearCUp] at h
  · simp [dropForm, Status.clearCUp, hgp] at h
  · simp [dropForm, Status.clearCUp] at h
  · simp [dropForm, Status.clearCUp, hgu]
  · have := (hp.zero_dim hd).2
    rw [hgu] at this; cases this

/-- well-formedness of the pending form; `WF` does not record that minimised constraints are up to
    date, so this is an explicit hypothesis (`Polyhedron::OK()` checks it) -/
theorem wf_pendForm (p : Poly) (gs' : Sys) (hp : p.WF) (_he : p.st.empty = false)
    (hgu : p.st.gUp = true) (hcp : p.st.cPend = false) (hcu : p.st.cUp = true)
    (hwf : ∀ r ∈ gs'.rows, r.genWF p.nnc p.dim)
    (hpt : ∃ r ∈ gs'.rows, r.isPoint p.nnc) : (pendForm p gs').WF := by
  refine ⟨fun h1 h2 => hp.cs_len h1 h2, fun _ _ => hwf, fun _ _ => hpt, fun h => ?_, fun _ => ⟨hcu, hgu⟩,
    fun h => ?_, fun _ _ => Or.inr hgu, fun hd => hp.zero_dim hd⟩
  · have : p.st.cPend = true := h
    rw [hcp] at this; cases this
  · have : p.st.cPend = true := h.1
    rw [hcp] at this; cases this

/-! ### `unconstrain` -/

/-- the cylinder over `S` along the variables `vars` -/
def cylSet (n : Nat) (vars : List Nat) (S : Set Val) : Set Val :=
  {w | ∃ x ∈ S, ∀ j < n, j ∉ vars → w j = x j}

theorem sem_unconstrain (ref : RefPoly) (vars : List Nat) (hwf : WF ref.n ref.cs) :
    sem (ref.unconstrain vars).cs = cylSet ref.n vars (sem ref.cs) := by
  ext w
  exact unconstrain_spec ref vars hwf w

theorem cylSet_empty (n : Nat) (vars : List Nat) : cylSet n vars ∅ = ∅ := by
  ext w; simp [cylSet]

theorem cylSet_nil (n : Nat) (S : Set Val) (hS : CoordDet n S) : cylSet n [] S = S := by
  ext w
  constructor
  · rintro ⟨x, hx, hw⟩
    exact (hS w x (fun j hj => hw j hj (by simp))).mpr hx
  · intro hw
    exact ⟨w, hw, fun _ _ _ => rfl⟩

theorem lineRow_genWF (nnc : Bool) (n v : Nat) (hv : v < n) : (lineRow n v).genWF nnc n := by
  refine ⟨?_, le_refl _, le_refl _, fun _ => rfl, fun _ => rfl, fun _ => rfl⟩
  show (List.replicate v (0 : Int) ++ [1] ++ List.replicate (n - v - 1) 0).length = n
  simp; omega

/-- the shape of the result of `unconstrain` in the main branch -/
theorem unconstrain_main (p q : Poly) (vars : List Nat) (hv : vars ≠ []) (he : p.st.empty = false)
    (h : p.unconstrain vars = some q) :
    p.st.cPend = false ∧ p.st.gUp = true ∧
    ((p.st.canPend = true ∧ q = pendForm p (p.gs.insertPendingSys (vars.map (lineRow p.dim)))) ∨
     (p.st.canPend = false ∧ q = dropForm p (p.gs.insertSys (vars.map (lineRow p.dim))))) := by
  unfold Poly.unconstrain at h
  have hv' : ¬ (vars.isEmpty = true) := by cases vars <;> simp at hv ⊢
  rw [if_neg hv', if_neg (by simp [he])] at h
  by_cases hcp : p.st.cPend = true
  · rw [if_pos hcp] at h; cases h
  · rw [if_neg hcp] at h
    by_cases hgu : (!p.st.gUp) = true
    · rw [if_pos hgu] at h; cases h
    · rw [if_neg hgu] at h
      refine ⟨by simpa using hcp, by simpa using hgu, ?_⟩
      by_cases hc : p.st.canPend = true
      · rw [if_pos hc] at h
        exact Or.inl ⟨hc, (Option.some.inj h).symm⟩
      · rw [if_neg hc] at h
        exact Or.inr ⟨by simpa using hc, (Option.some.inj h).symm⟩

/-- **`Polyhedron::unconstrain(vars)` at row level computes the cylindrification.** -/
theorem unconstrain_rows_correct (p q : Poly) (vars : List Nat) (ref : RefPoly)
    (hn : ref.n = p.dim) (hwf : WF ref.n ref.cs) (hp : p.WF) (hvars : ∀ v ∈ vars, v < p.dim)
    (hD : p.Denotes (sem ref.cs)) (h : p.unconstrain vars = some q) :
    q.Denotes (sem (ref.unconstrain vars).cs) := by
  rw [sem_unconstrain ref vars hwf, hn]
  by_cases hv : vars = []
  · subst hv
    have hq : q = p := by
      unfold Poly.unconstrain at h
      simp only [List.map_nil, List.isEmpty_nil, if_true] at h
      exact (Option.some.inj h).symm
    subst hq
    rw [cylSet_nil _ _ (by rw [← hn]; exact coordDet_sem _ _ hwf)]
    exact hD
  · cases he : p.st.empty
    · obtain ⟨hcp, hgu, hq⟩ := unconstrain_main p q vars hv he h
      have hgen : genSem p.nnc p.dim (p.gs.rows ++ vars.map (lineRow p.dim)) =
          cylSet p.dim vars (sem ref.cs) := by
        have := kit_addLines p.nnc p.dim p.gs.rows vars (hp.gs_wf he hgu) hvars
        rw [(hD.2 he).2.1 hgu hcp] at this
        exact this
      rcases hq with ⟨_, rfl⟩ | ⟨_, rfl⟩
      · exact denotes_pendForm p _ _ he hgu hgen
      · exact denotes_dropForm p _ _ he hgu hgen
    · have hq : q = p := by
        unfold Poly.unconstrain at h
        rw [he] at h
        cases hvv : vars.isEmpty <;> simp [hvv] at h <;> exact h.symm
      subst hq
      exact denotes_of_empty _ _ he (by rw [hD.1 he, cylSet_empty])

/-- the result of `unconstrain` is well formed when the lines are not inserted as pending rows, and
    when they are provided the constraints are up to date (which `Polyhedron::OK()` guarantees for
    a polyhedron that can have something pending) -/
theorem unconstrain_rows_wf (p q : Poly) (vars : List Nat) (hp : p.WF)
    (hvars : ∀ v ∈ vars, v < p.dim) (hcan : p.st.canPend = true → p.st.cUp = true)
    (hpend : p.st.gPend = true → p.st.canPend = true)
    (h : p.unconstrain vars = some q) : q.WF := by
  by_cases hv : vars = []
  · subst hv
    have hq : q = p := by
      unfold Poly.unconstrain at h
      simp only [List.map_nil, List.isEmpty_nil, if_true] at h
      exact (Option.some.inj h).symm
    subst hq; exact hp
  · cases he : p.st.empty
    · obtain ⟨hcp, hgu, hq⟩ := unconstrain_main p q vars hv he h
      have hwfr : ∀ r ∈ p.gs.rows ++ vars.map (lineRow p.dim), r.genWF p.nnc p.dim := by
        intro r hr
        rcases List.mem_append.mp hr with hr | hr
        · exact hp.gs_wf he hgu r hr
        · obtain ⟨v, hv, rfl⟩ := List.mem_map.mp hr
          exact lineRow_genWF _ _ _ (hvars v hv)
      have hptr : ∃ r ∈ p.gs.rows ++ vars.map (lineRow p.dim), r.isPoint p.nnc := by
        obtain ⟨r, hr, hpt⟩ := hp.gs_pt he hgu
        exact ⟨r, List.mem_append_left _ hr, hpt⟩
      rcases hq with ⟨hc, rfl⟩ | ⟨hc, rfl⟩
      · exact wf_pendForm p _ hp he hgu hcp (hcan hc) hwfr hptr
      · have hgp : p.st.gPend = false := by
          cases hg : p.st.gPend
          · rfl
          · rw [hpend hg] at hc; cases hc
        exact wf_dropForm p _ hp hgu hgp hwfr hptr
    · have hq : q = p := by
        unfold Poly.unconstrain at h
        rw [he] at h
        cases hvv : vars.isEmpty <;> simp [hvv] at h <;> exact h.symm
      subst hq; exact hp

end PPLV.PolyOps
