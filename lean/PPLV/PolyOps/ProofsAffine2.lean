import PPLV.PolyOps.ProofsAffine

/-!
# C02 stage 2 — `Polyhedron::affine_image` at row level: correctness and well-formedness

`affine_image_rows_correct`: whatever description(s) the status word of the input declares valid
(constraints, generators, both, pending rows of either kind, marked empty), every description the
status word of the result declares valid denotes the image computed by the reference operator.
-/
namespace PPLV.PolyOps
open PPLV.Lin

/-! ### the shape of the result -/

theorem affine_image_empty (p q : Poly) (v : Nat) (e : LinExpr) (den : Int)
    (hem : p.st.empty = true) (h : p.affine_image v e den = some q) : q = p := by
  unfold Poly.affine_image at h
  rw [if_pos hem] at h
  exact (Option.some.inj h).symm

/-- invertible case: the status word is kept; generators (if up to date) transformed by the signed
    call, constraints (if up to date) by the preimage under the inverse map -/
theorem affine_image_inv_shape (p q : Poly) (v : Nat) (e : LinExpr) (den : Int)
    (hem : p.st.empty = false) (hc : e.coeffs.getD v 0 ≠ 0) (h : p.affine_image v e den = some q) :
    q.st = p.st ∧ q.nnc = p.nnc ∧ q.dim = p.dim ∧
    q.gs = (if p.st.gUp = true then gsSigned v e den p.gs else p.gs) ∧
    q.cs = (if p.st.cUp = true then
        csAffinePreimage v (inverseMap p.dim v e den).1 (inverseMap p.dim v e den).2 p.cs
      else p.cs) := by
  unfold Poly.affine_image at h
  have hem' : ¬ (p.st.empty = true) := by simp [hem]
  rw [if_neg hem', if_pos (bne_iff_ne.mpr hc)] at h
  have hq := (Option.some.inj h).symm
  subst hq
  cases hg : p.st.gUp <;> cases hcu : p.st.cUp <;> simp [hcu, gsSigned]

/-- non-invertible case (with a result): generators were up to date and no constraints pending;
    the result holds only the transformed generators -/
theorem affine_image_noninv_shape (p q : Poly) (v : Nat) (e : LinExpr) (den : Int) (hp : p.WF)
    (hem : p.st.empty = false) (hc : e.coeffs.getD v 0 = 0) (h : p.affine_image v e den = some q) :
    p.st.gUp = true ∧ p.st.cPend = false ∧ q.nnc = p.nnc ∧ q.dim = p.dim ∧
    (∃ gs0 : Sys, gs0.rows = p.gs.rows ∧ q.gs = gsSigned v e den gs0) ∧
    q.st.empty = false ∧ q.st.cUp = false ∧ q.st.gUp = true ∧ q.st.cPend = false ∧
    q.st.gPend = false := by
  unfold Poly.affine_image at h
  have hem' : ¬ (p.st.empty = true) := by simp [hem]
  have hc' : ¬ ((e.coeffs.getD v 0 != 0) = true) := by rw [hc]; decide
  rw [if_neg hem', if_neg hc'] at h
  simp only [Status.somethingPending] at h
  by_cases hgp : p.st.gPend = true
  · obtain ⟨_, hgu⟩ := hp.pend_g hgp
    have hcp : p.st.cPend = false := by
      cases hx : p.st.cPend
      · rfl
      · exact absurd ⟨hx, hgp⟩ hp.pend_one
    simp only [hgp, hcp, Bool.or_true, if_true, Option.map_some] at h
    have hq := (Option.some.inj h).symm
    subst hq
    refine ⟨hgu, hcp, rfl, rfl, ⟨{ p.gs.unsetPending with sorted := false }, rfl, rfl⟩,
      ?_, ?_, ?_, ?_, ?_⟩ <;> simp [Status.clearCUp, hem, hgu]
  · have hgp' : p.st.gPend = false := by simpa using hgp
    cases hcp : p.st.cPend
    · cases hgu : p.st.gUp
      · simp [hgp', hcp, hgu] at h
      · simp only [hgp', hcp, hgu, Bool.or_self, Bool.false_eq_true, if_false, Bool.not_true,
          Option.map_some] at h
        have hq := (Option.some.inj h).symm
        subst hq
        refine ⟨rfl, rfl, rfl, rfl, ⟨p.gs, rfl, rfl⟩, ?_, ?_, ?_, ?_, ?_⟩ <;>
          simp [Status.clearCUp, hem, hgu, hgp']
    · simp [hgp', hcp] at h

/-! ### correctness -/

/-- **`Polyhedron::affine_image` at row level computes the reference image.** -/
theorem affine_image_rows_correct (p q : Poly) (v : Nat) (e : LinExpr) (den : Int) (ref : RefPoly)
    (hn : ref.n = p.dim) (_hnnc : ref.nnc = p.nnc) (hwf : WF ref.n ref.cs) (hp : p.WF)
    (hv : v < p.dim) (he : e.coeffs.length = p.dim) (hden : den ≠ 0)
    (hD : p.Denotes (sem ref.cs)) (h : p.affine_image v e den = some q) :
    q.Denotes (sem (ref.affineImage v e den).cs) := by
  rw [sem_affineImage ref v e den hwf (by rw [hn]; exact hv) (by rw [hn]; exact le_of_eq he), hn]
  have hSdet : CoordDet p.dim (sem ref.cs) := by rw [← hn]; exact coordDet_sem _ _ hwf
  cases hem : p.st.empty
  · obtain ⟨hDc, hDg, _⟩ := hD.2 hem
    by_cases hc : e.coeffs.getD v 0 = 0
    · -- not invertible: only the generators remain
      obtain ⟨hgu, hcp, hqn, hqd, ⟨gs0, hgs0, hqgs⟩, h1, h2, h3, _, _⟩ :=
        affine_image_noninv_shape p q v e den hp hem hc h
      have hgen := hDg hgu hcp
      have hfacts := gsSigned_facts p.nnc p.dim v e den gs0
        (by rw [hgs0]; exact hp.gs_wf hem hgu) hv (le_of_eq he) hden
      refine ⟨fun hq => (by rw [h1] at hq; cases hq), fun _ =>
        ⟨fun hq => (by rw [h2] at hq; cases hq), fun _ _ => ?_,
         fun _ hq => by rw [h3] at hq; cases hq⟩⟩
      rw [hqn, hqd, hqgs, hfacts.1, hgs0, hgen]
    · -- invertible: both descriptions are transformed
      obtain ⟨hst, hqn, hqd, hqgs, hqcs⟩ := affine_image_inv_shape p q v e den hem hc h
      unfold Poly.Denotes
      rw [hst, hqn, hqd, hqgs, hqcs]
      refine ⟨fun hq => (by rw [hem] at hq; cases hq), fun _ =>
        ⟨fun hcu hgp => ?_, fun hgu hcp => ?_, fun hcu hgu => ?_⟩⟩
      · rw [if_pos hcu]
        have hf := csAffinePreimage_facts p.nnc p.dim v (inverseMap p.dim v e den).1
          (inverseMap p.dim v e den).2 p.cs (hp.cs_len hem hcu) hv (inverseMap_length _ _ _ _)
          (inverseMap_den_pos _ _ _ _ hc)
        rw [hf.1, hDc hcu hgp]
        exact subst_inverse_eq_imgSet p.dim v e den hv he hden hc _ hSdet
      · rw [if_pos hgu]
        have hf := gsSigned_facts p.nnc p.dim v e den p.gs (hp.gs_wf hem hgu) hv (le_of_eq he) hden
        rw [hf.1, hDg hgu hcp]
      · exfalso
        rcases hp.some_up hem (by omega) with h' | h'
        · rw [hcu] at h'; cases h'
        · rw [hgu] at h'; cases h'
  · -- marked empty: the image of the empty set is empty
    have hq := affine_image_empty p q v e den hem h
    subst hq
    rw [hD.1 hem, imgSet_empty]
    exact ⟨fun _ => rfl, fun h' => by rw [hem] at h'; cases h'⟩

/-! ### well-formedness of the result -/

theorem affine_image_rows_wf (p q : Poly) (v : Nat) (e : LinExpr) (den : Int) (hp : p.WF)
    (hv : v < p.dim) (he : e.coeffs.length = p.dim) (hden : den ≠ 0)
    (h : p.affine_image v e den = some q) : q.WF := by
  cases hem : p.st.empty
  · by_cases hc : e.coeffs.getD v 0 = 0
    · obtain ⟨hgu, _, hqn, hqd, ⟨gs0, hgs0, hqgs⟩, _, h2, h3, h4, h5⟩ :=
        affine_image_noninv_shape p q v e den hp hem hc h
      have hfacts := gsSigned_facts p.nnc p.dim v e den gs0
        (by rw [hgs0]; exact hp.gs_wf hem hgu) hv (le_of_eq he) hden
      refine ⟨fun _ hq => (by rw [h2] at hq; cases hq), fun _ _ => ?_, fun _ _ => ?_,
        fun hq => (by rw [h4] at hq; cases hq), fun hq => (by rw [h5] at hq; cases hq),
        fun hq => (by rw [h4] at hq; cases hq.1), fun _ _ => Or.inr h3,
        fun hq => (by rw [hqd] at hq; omega)⟩
      · rw [hqn, hqd, hqgs]; exact hfacts.2.1
      · rw [hqn, hqgs]
        exact hfacts.2.2 (by rw [hgs0]; exact hp.gs_pt hem hgu)
    · obtain ⟨hst, hqn, hqd, hqgs, hqcs⟩ := affine_image_inv_shape p q v e den hem hc h
      refine ⟨?_, ?_, ?_, ?_, ?_, ?_, ?_, ?_⟩
      · rw [hst, hqd, hqcs]
        intro _ hcu
        rw [if_pos hcu]
        exact (csAffinePreimage_facts p.nnc p.dim v (inverseMap p.dim v e den).1
          (inverseMap p.dim v e den).2 p.cs (hp.cs_len hem hcu) hv (inverseMap_length _ _ _ _)
          (inverseMap_den_pos _ _ _ _ hc)).2
      · rw [hst, hqn, hqd, hqgs]
        intro _ hgu
        rw [if_pos hgu]
        exact (gsSigned_facts p.nnc p.dim v e den p.gs (hp.gs_wf hem hgu) hv (le_of_eq he) hden).2.1
      · rw [hst, hqn, hqgs]
        intro _ hgu
        rw [if_pos hgu]
        exact (gsSigned_facts p.nnc p.dim v e den p.gs (hp.gs_wf hem hgu) hv (le_of_eq he) hden).2.2
          (hp.gs_pt hem hgu)
      · rw [hst]; exact hp.pend_c
      · rw [hst]; exact hp.pend_g
      · rw [hst]; exact hp.pend_one
      · rw [hst, hqd]; exact hp.some_up
      · rw [hst, hqd]; exact hp.zero_dim
  · have hq := affine_image_empty p q v e den hem h
    subst hq
    exact hp

end PPLV.PolyOps
