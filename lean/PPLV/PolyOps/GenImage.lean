import PPLV.PolyOps.Lattice

/-!
# C02 stage 2 — `generalized_affine_image(var, relsym, expr, denominator)` at row level
(Polyhedron_public.cc:3123): `affine_image`, then for `<=` / `>=` the ray `-var` / `+var` is added
(`add_generator`, Polyhedron_public.cc add_generator: pending when the pair can have pending rows).
The strict relations call `minimize()` in the middle (conversion: not modelled here, result `none`);
`bounded_affine_image` calls `refine_no_check` right after the generator insertion, i.e. always
converts between its row-level steps: it is covered by its two halves (this function and the
constraint insertion of `intersection_assign`'s kind) and end to end by C02 stage 1.
-/
namespace PPLV.PolyOps
open PPLV.Lin

/-- `Generator::ray(±Variable(v))` adjusted to the system (epsilon 0) -/
def rayRow (n v : Nat) (s : Int) : Row :=
  ⟨false, 0, List.replicate v 0 ++ [s] ++ List.replicate (n - v - 1) 0, 0⟩

/-- `add_generator(g)` for a ray `g`, on a polyhedron of positive dimension that is not marked empty,
    has no pending constraints and has its generators up to date -/
def Poly.addGeneratorRay (p : Poly) (g : Row) : Poly :=
  if p.st.canPend then
    { p with gs := p.gs.insertPendingSys [g], st := { p.st with gPend := true } }
  else
    { p with gs := p.gs.insertSys [g], st := ({ p.st with gMin := false }).clearCUp }

/-- `Polyhedron::generalized_affine_image(var, relsym, expr, denominator)`, `relsym ∈ {<=, =, >=}`;
    `none`: a conversion runs (`is_empty()` has to minimize, or a strict relation symbol) -/
def Poly.generalized_affine_image (p : Poly) (v : Nat) (r : Rel) (e : LinExpr) (den : Int) : Option Poly :=
  (p.affine_image v e den).bind fun p1 =>
    match r with
    | .eq => some p1
    | .lt | .gt => if p1.st.empty then some p1 else none
    | .le | .ge =>
      -- is_empty()
      if p1.st.empty then some p1
      else if p1.st.cPend || !p1.st.gUp then none
      else some (p1.addGeneratorRay (rayRow p1.dim v (if r == .le then -1 else 1)))

end PPLV.PolyOps
