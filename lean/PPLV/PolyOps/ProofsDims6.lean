import PPLV.PolyOps.ProofsDims2

/-!
# C02 stage 2 — `expand_space_dimension` at row level
-/
namespace PPLV.PolyOps
open PPLV.Lin

set_option linter.unusedSimpArgs false
set_option linter.unusedVariables false

/-- the set computed by `expand_space_dimension(v, m)` (`expandDim_spec`) -/
def expSet (n v m : Nat) (S : Set Val) : Set Val :=
  {w | w ∈ S ∧ ∀ i < m, w.update v (w (n + i)) ∈ S}

theorem sem_expandDim (ref : RefPoly) (v m : Nat) (hwf : WF ref.n ref.cs) (hv : v < ref.n) :
    sem (ref.expandDim v m).cs = expSet ref.n v m (sem ref.cs) := by
  ext w
  exact expandDim_spec ref v m hwf hv w

theorem expSet_empty (n v m : Nat) : expSet n v m ∅ = ∅ := by
  ext w; simp [expSet]

theorem expSet_zero (n v : Nat) (S : Set Val) : expSet n v 0 S = S := by
  ext w
  simp only [expSet, Set.mem_ofPred_eq]
  exact ⟨fun h => h.1, fun h => ⟨h, fun i hi => absurd hi (by omega)⟩⟩

/-! ### one row -/

theorem getD_append_replicate_ge (l : List Int) (m k : Nat) (h : l.length ≤ k) :
    (l ++ List.replicate m 0).getD k 0 = 0 := by
  rw [List.getD_eq_getElem?_getD, List.getElem?_append_right h, List.getElem?_replicate]
  split <;> rfl

theorem ev_update (r : Row) (w : Val) (v : Nat) (t : Rat) :
    r.ev (w.update v t) = r.ev w + ((r.cf.getD v 0 : Int) : Rat) * (t - w v) := by
  unfold Row.ev
  rw [dot_update]; ring

theorem ev_expandRow (r : Row) (n m v j : Nat) (hl : r.cf.length = n + m)
    (hz : r.cf.getD (n + j) 0 = 0) (hv : v < n) (hj : j < m) (w : Val) :
    ({ r with cf := (r.cf.set v 0).set (n + j) (r.cf.getD v 0) } : Row).ev w =
      r.ev (w.update v (w (n + j))) := by
  rw [ev_update]
  unfold Row.ev
  simp only
  rw [dot_set _ _ _ _ (by rw [List.length_set]; omega), dot_set _ _ _ _ (by omega),
    getD_set_ne _ _ _ _ (by omega), hz]
  push_cast; ring

theorem holds_expandRow (nnc : Bool) (n m v : Nat) (r : Row) (hl : r.cf.length = n + m)
    (hz : ∀ j < m, r.cf.getD (n + j) 0 = 0) (hv : v < n) (w : Val) (hw : r.Holds nnc w) :
    (∀ r' ∈ expandRow v n m r, r'.Holds nnc w) ↔
      ∀ j < m, r.Holds nnc (w.update v (w (n + j))) := by
  unfold expandRow
  simp only
  by_cases hc : r.cf.getD v 0 = 0
  · rw [if_pos (by simpa using hc)]
    refine ⟨fun _ j _ => ?_, fun _ r' hr' => absurd hr' (by simp)⟩
    refine (holds_of_ev nnc r r w _ 1 (by norm_num) rfl Iff.rfl ?_).mpr hw
    rw [ev_update, hc]; push_cast; ring
  · rw [if_neg (by simpa using hc)]
    simp only [List.mem_map, List.mem_range]
    constructor
    · intro h j hj
      have h1 := h _ ⟨j, hj, rfl⟩
      refine (holds_of_ev nnc r ({ r with cf := (r.cf.set v 0).set (n + j) (r.cf.getD v 0) } : Row)
        (w.update v (w (n + j))) w 1 (by norm_num) rfl Iff.rfl ?_).mp h1
      rw [ev_expandRow r n m v j hl (hz j hj) hv hj w]; ring
    · rintro h r' ⟨j, hj, rfl⟩
      refine (holds_of_ev nnc r ({ r with cf := (r.cf.set v 0).set (n + j) (r.cf.getD v 0) } : Row)
        (w.update v (w (n + j))) w 1 (by norm_num) rfl Iff.rfl ?_).mpr (h j hj)
      rw [ev_expandRow r n m v j hl (hz j hj) hv hj w]; ring

/-- the constraint system after `expand_space_dimension` -/
theorem conSem_expand (nnc : Bool) (n m v : Nat) (rows : List Row)
    (hlen : ∀ r ∈ rows, r.cf.length = n) (hv : v < n) :
    conSem nnc (rows.map (Row.addZeroCols m) ++
        (rows.map (Row.addZeroCols m)).flatMap (expandRow v n m)) =
      expSet n v m (conSem nnc rows) := by
  ext w
  rw [mem_conSem]
  simp only [expSet, Set.mem_ofPred_eq]
  rw [← conSem_addZeroCols nnc m rows]
  simp only [mem_conSem, List.mem_append, List.mem_flatMap]
  have hrow : ∀ r ∈ rows.map (Row.addZeroCols m), r.cf.length = n + m ∧
      ∀ j < m, r.cf.getD (n + j) 0 = 0 := by
    intro r hr
    obtain ⟨r0, hr0, rfl⟩ := List.mem_map.mp hr
    refine ⟨by simp [Row.addZeroCols, hlen r0 hr0], fun j _ => ?_⟩
    exact getD_append_replicate_ge r0.cf m (n + j) (by rw [hlen r0 hr0]; omega)
  constructor
  · intro h
    have h1 : ∀ r ∈ rows.map (Row.addZeroCols m), r.Holds nnc w := fun r hr => h r (Or.inl hr)
    refine ⟨h1, fun i hi r hr => ?_⟩
    exact (holds_expandRow nnc n m v r (hrow r hr).1 (hrow r hr).2 hv w (h1 r hr)).mp
      (fun r' hr' => h r' (Or.inr ⟨r, hr, hr'⟩)) i hi
  · rintro ⟨h1, h2⟩ r' (hr' | ⟨r, hr, hr'⟩)
    · exact h1 r' hr'
    · exact (holds_expandRow nnc n m v r (hrow r hr).1 (hrow r hr).2 hv w (h1 r hr)).mpr
        (fun j hj => h2 j hj r hr) r' hr'

/-! ### `add_recycled_constraints` -/

theorem addRecycledConstraints_denotes (p1 : Poly) (rows : List Row) (S S' : Set Val)
    (hem : p1.st.empty = false) (hcu : p1.st.cUp = true) (hgp : p1.st.gPend = false)
    (hD : p1.Denotes S) (hS' : conSem p1.nnc (p1.cs.rows ++ rows) = S') :
    (p1.addRecycledConstraints rows).Denotes S' := by
  unfold Poly.addRecycledConstraints
  by_cases hr : rows = []
  · subst hr
    rw [List.append_nil, (hD.2 hem).1 hcu hgp] at hS'
    rw [← hS']
    simpa using hD
  · have hr' : rows.isEmpty = false := by
      cases rows with
      | nil => exact absurd rfl hr
      | cons a t => rfl
    rw [hr']
    simp only [Bool.false_eq_true, if_false, hem]
    cases hcp : p1.st.canPend
    · simp only [Bool.false_eq_true, if_false]
      refine ⟨fun h => (by simp [Status.clearGUp, hem] at h), fun _ =>
        ⟨fun _ _ => hS', fun h => (by simp [Status.clearGUp] at h),
         fun h => (by simp [Status.clearGUp, hcu] at h)⟩⟩
    · simp only [if_true]
      refine ⟨fun h => (by simp [hem] at h), fun _ =>
        ⟨fun _ _ => hS', fun _ h => (by simp at h), fun h => (by simp [hcu] at h)⟩⟩

/-! ### the polyhedron after `add_space_dimensions_and_embed` -/

theorem embed_facts (p : Poly) (m : Nat) (hm : m ≠ 0) (hd : p.dim ≠ 0) :
    (p.add_space_dimensions_and_embed m).nnc = p.nnc ∧
    (p.add_space_dimensions_and_embed m).st.empty = p.st.empty ∧
    (p.st.empty = false →
      (p.add_space_dimensions_and_embed m).st.cUp = p.st.cUp ∧
      (p.add_space_dimensions_and_embed m).st.gPend = p.st.gPend ∧
      (p.st.cUp = true →
        (p.add_space_dimensions_and_embed m).cs.rows = p.cs.rows.map (Row.addZeroCols m))) := by
  have hm0 : (m == 0) = false := by simpa using hm
  have hd0 : (p.dim == 0) = false := by simpa using hd
  unfold Poly.add_space_dimensions_and_embed
  rw [hm0, hd0]
  simp only [Bool.false_eq_true, if_false]
  cases hem : p.st.empty <;> cases hcu : p.st.cUp <;> cases hgu : p.st.gUp <;>
    simp [Sys.addZeroCols, Sys.mapRows, hem, hcu, hgu]

/-- **`Polyhedron::expand_space_dimension` at row level.** -/
theorem expand_space_dimension_rows_correct (p q : Poly) (v m : Nat) (ref : RefPoly)
    (hn : ref.n = p.dim) (hnnc : ref.nnc = p.nnc) (hwf : WF ref.n ref.cs) (hp : p.WF)
    (hv : v < p.dim)
    (hD : p.Denotes (sem ref.cs)) (h : p.expand_space_dimension v m = some q) :
    q.Denotes (sem (ref.expandDim v m).cs) := by
  rw [sem_expandDim ref v m hwf (by rw [hn]; exact hv), hn]
  unfold Poly.expand_space_dimension at h
  by_cases hm : m = 0
  · subst hm
    have hq : q = p := by simpa using h.symm
    rw [hq, expSet_zero]
    exact hD
  have hm0 : (m == 0) = false := by simpa using hm
  rw [hm0] at h
  simp only [Bool.false_eq_true, if_false] at h
  have hD1 := add_space_dimensions_and_embed_rows_correct p m ref hn hnnc hwf hp hD
  have hD1' : (p.add_space_dimensions_and_embed m).Denotes (sem ref.cs) := hD1
  obtain ⟨hf1, hf2, hf3⟩ := embed_facts p m hm (by omega)
  generalize p.add_space_dimensions_and_embed m = p1 at h hD1' hf1 hf2 hf3
  cases hem : p.st.empty
  · obtain ⟨g1, g2, g3⟩ := hf3 hem
    rw [hem] at hf2
    rw [hf2, g1, g2] at h
    simp only [Bool.false_eq_true, if_false] at h
    cases hcu : p.st.cUp
    · simp [hcu] at h
    · cases hgp : p.st.gPend
      · simp only [hcu, hgp, Bool.not_true, Bool.or_self, Bool.false_eq_true, if_false] at h
        have hq := (Option.some.inj h).symm
        rw [hq]
        apply addRecycledConstraints_denotes p1 _ (sem ref.cs) _ hf2 (by rw [g1, hcu])
          (by rw [g2, hgp]) hD1'
        rw [g3 hcu, hf1, conSem_expand p.nnc p.dim m v p.cs.rows (hp.cs_len hem hcu) hv,
          (hD.2 hem).1 hcu hgp]
      · simp [hcu, hgp] at h
  · rw [hem] at hf2
    rw [hf2] at h
    simp only [if_true] at h
    have hq := (Option.some.inj h).symm
    rw [hq, hD.1 hem, expSet_empty]
    exact ⟨fun _ => rfl, fun h => (by simp [hf2] at h)⟩

end PPLV.PolyOps
