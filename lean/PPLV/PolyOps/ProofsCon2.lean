import PPLV.PolyOps.ProofsCon

/-!
# C02 stage 2 — the constraint toolkit, part 2: `KitC.affinePreimage`

Per row: the row built by the loop body of `Constraint_System::affine_preimage` (before its
`strong_normalize()`) has, at `w`, `den` times the value of the input row at
`w[v := e(w)/den]`; kind bit kept, epsilon coefficient scaled by `den > 0`.
-/
namespace PPLV.PolyOps
open PPLV.Lin

theorem addMul_length (c : Int) (xs ys : List Int) : (addMul c xs ys).length = ys.length := by
  induction xs generalizing ys with
  | nil => cases ys <;> rfl
  | cons x xs ih =>
    cases ys with
    | nil => rfl
    | cons y ys => simp [addMul, ih]

theorem dot_addMul (c : Int) (xs ys : List Int) (h : xs.length ≤ ys.length) (w : Val) :
    dot (addMul c xs ys) w = dot ys w + (c : Rat) * dot xs w := by
  induction xs generalizing ys w with
  | nil => cases ys <;> simp [addMul]
  | cons x xs ih =>
    cases ys with
    | nil => simp at h
    | cons y ys =>
      simp only [addMul, dot_cons]
      rw [ih ys (by simpa using h)]
      push_cast; ring

theorem getD_addMul (c : Int) (xs ys : List Int) (h : xs.length ≤ ys.length) (i : Nat) :
    (addMul c xs ys).getD i 0 = ys.getD i 0 + c * xs.getD i 0 := by
  induction xs generalizing ys i with
  | nil => cases ys <;> simp [addMul]
  | cons x xs ih =>
    cases ys with
    | nil => simp at h
    | cons y ys =>
      cases i with
      | zero => simp [addMul]
      | succ i =>
        simp only [addMul, List.getD_cons_succ]
        exact ih ys (by simpa using h) i

theorem getD_map_mul' (cf : List Int) (k : Int) (i : Nat) :
    (cf.map (k * ·)).getD i 0 = k * cf.getD i 0 := by
  induction cf generalizing i with
  | nil => simp
  | cons a as ih =>
    cases i with
    | zero => simp
    | succ i => simpa using ih i

/-- the conditional scaling `if (denominator != 1) row *= denominator` -/
theorem scaleIf_facts (den : Int) (hden : 0 < den) (r : Row) (v : Nat) :
    let r1 := if den != 1 then r.scale den else r
    r1.eq = r.eq ∧ (∀ w, r1.ev w = (den : Rat) * r.ev w) ∧ (r1.eps < 0 ↔ r.eps < 0) ∧
      r1.cf.length = r.cf.length ∧ r1.cf.getD v 0 = den * r.cf.getD v 0 := by
  intro r1
  by_cases h : den = 1
  · have hr1 : r1 = r := by
      show (if den != 1 then r.scale den else r) = r
      simp [h]
    rw [hr1, h]
    refine ⟨rfl, fun w => by simp, Iff.rfl, rfl, by simp⟩
  · have hr1 : r1 = r.scale den := by
      show (if den != 1 then r.scale den else r) = r.scale den
      simp [h]
    rw [hr1]
    refine ⟨rfl, fun w => ev_scale den r w, ?_, by simp [Row.scale], ?_⟩
    · show den * r.eps < 0 ↔ r.eps < 0
      constructor
      · intro h1; by_contra hn
        have : 0 ≤ r.eps := by omega
        nlinarith
      · intro h1; nlinarith
    · show (r.cf.map (den * ·)).getD v 0 = _
      exact getD_map_mul' r.cf den v

/-- the per-row fact behind `Constraint_System::affine_preimage` -/
theorem holds_conRowAffinePreimage (nnc : Bool) (n v : Nat) (e : LinExpr) (den : Int) (r : Row)
    (hr : r.cf.length = n) (hv : v < n) (he : e.coeffs.length = n) (hden : 0 < den) (w : Val) :
    (conRowAffinePreimage v e den r).Holds nnc w ↔
      r.Holds nnc (w.update v (e.val w / (den : Rat))) := by
  have hdq : (0 : Rat) < (den : Rat) := by exact_mod_cast hden
  have hdne : (den : Rat) ≠ 0 := ne_of_gt hdq
  unfold conRowAffinePreimage
  simp only
  by_cases hc : r.cf.getD v 0 = 0
  · have : (r.cf.getD v 0 != 0) = false := by rw [hc]; rfl
    rw [this]
    simp only [Bool.false_eq_true, if_false]
    refine holds_of_ev nnc r r (w.update v (e.val w / (den : Rat))) w 1 one_pos rfl Iff.rfl ?_
    unfold Row.ev
    rw [dot_update, hc]
    push_cast; ring
  · have : (r.cf.getD v 0 != 0) = true := bne_iff_ne.mpr hc
    rw [this]
    simp only [if_true]
    rw [holds_strongNormalize]
    obtain ⟨h1, h2, h3, h4, h5⟩ := scaleIf_facts den hden r v
    generalize (if den != 1 then r.scale den else r) = r1 at h1 h2 h3 h4 h5
    have hX : (if (e.coeffs.getD v 0 == 0) = true then (0 : Int)
        else r.cf.getD v 0 * e.coeffs.getD v 0) = r.cf.getD v 0 * e.coeffs.getD v 0 := by
      split
      · rename_i hz
        have : e.coeffs.getD v 0 = 0 := by simpa using hz
        rw [this, Int.mul_zero]
      · rfl
    rw [hX]
    refine holds_of_ev nnc r _ _ w (den : Rat) hdq h1 h3 ?_
    have hle : e.coeffs.length ≤ r1.cf.length := by rw [h4, hr, he]
    have h2w := h2 w
    unfold Row.ev at h2w ⊢
    simp only
    rw [dot_set _ _ _ _ (by rw [addMul_length, h4, hr]; exact hv), dot_addMul _ _ _ hle,
      getD_addMul _ _ _ hle, h5, dot_update]
    unfold LinExpr.val
    push_cast
    have h2' : dot r1.cf w = (den : Rat) * (dot r.cf w + (r.b : Rat)) - (r1.b : Rat) := by
      linarith
    rw [h2']
    field_simp
    ring

theorem kitC_affinePreimage : KitC.affinePreimage := by
  intro nnc n v e den rows hrows hv he hden
  ext w
  rw [conSem_map]
  show _ ↔ w.update v (e.val w / (den : Rat)) ∈ conSem nnc rows
  rw [mem_conSem]
  exact forall_congr' fun r => forall_congr' fun hr =>
    holds_conRowAffinePreimage nnc n v e den r (hrows r hr) hv he hden w

/-- lengths are kept by the loop body -/
theorem conRowAffinePreimage_cf_length (v : Nat) (e : LinExpr) (den : Int) (r : Row) :
    (conRowAffinePreimage v e den r).cf.length = r.cf.length := by
  unfold conRowAffinePreimage
  simp only
  split
  · rw [strongNormalize_cf_length]
    simp only [List.length_set, addMul_length]
    split
    · simp [Row.scale]
    · rfl
  · rfl

end PPLV.PolyOps
