import PPLV.PolyOps.ProofsLattice3
import PPLV.PolyOps.ProofsAffine2
import PPLV.PolyOps.GenImage

/-!
# C02 stage 2 — `generalized_affine_image(var, relsym, expr, denominator)` at row level

`generalized_affine_image_rows_correct`: whenever the model returns a result (always for `=`, `<=`,
`>=` unless a conversion would run; for the strict symbols only when the image is marked empty) it
denotes the reference `RefPoly.genAffineImage` (`C02.generalized_affine_image_spec`).  Composition
of `affine_image_rows_correct` with `genSem_add_ray`: appending the ray `±e_v` to a generator list
lets coordinate `v` move in that direction.
-/
namespace PPLV.PolyOps
open PPLV.Lin

/-! ### one more ray along a coordinate -/

theorem getD_unit_s (v m i : Nat) (s : Int) :
    (List.replicate v (0 : Int) ++ [s] ++ List.replicate m 0).getD i 0 = if i = v then s else 0 := by
  induction v generalizing i with
  | zero =>
    cases i with
    | zero => simp
    | succ i =>
      simp [List.getD_eq_getElem?_getD, List.getElem?_replicate]
      split <;> rfl
  | succ v ih =>
    cases i with
    | zero => simp [List.replicate_succ]
    | succ i =>
      have := ih i
      simp only [List.replicate_succ, List.cons_append, List.getD_cons_succ]
      rw [this]; simp

/-- one more ray along coordinate `v` in direction `s = ±1`: coordinate `v` may move that way -/
theorem genSem_add_ray (n : Nat) (A : List Gen) (l : Gen) (v : Nat) (s : Rat) (hs : s * s = 1)
    (hl : l.kind = .ray) (hc : ∀ i, l.coord i = if i = v then s else 0) (hv : v < n) :
    GenSem n (A ++ [l]) =
      {w | ∃ x ∈ GenSem n A, 0 ≤ s * (w v - x v) ∧ ∀ j < n, j ≠ v → w j = x j} := by
  have hline : l.isLine = false := by unfold Gen.isLine; rw [hl]; rfl
  have hnpt : l.isPt = false := by unfold Gen.isPt; rw [hl]; rfl
  have hpc : pcf l = 0 := by
    show (if l.isPtOrCp then (1 : Rat) else 0) = 0
    unfold Gen.isPtOrCp; rw [hl]; rfl
  have hsplit : ∀ (f : Gen → Rat) (lam : Val),
      wsum f (A ++ [l]) lam = wsum f A lam + lam A.length * f l := by
    intro f lam
    rw [wsum_append]; simp [wsum]
  have hlen : (A ++ [l]).length = A.length + 1 := by simp
  ext w
  constructor
  · rintro ⟨lam, h1, h2, ⟨j0, hj0, hp0, hl0⟩, h4⟩
    have hlast : 0 ≤ lam A.length := by
      have := h1 A.length (by rw [hlen]; omega)
      rw [getD_append_len] at this
      exact this hline
    refine ⟨fun i => wsum (fun g => g.coord i) A lam, ⟨lam, ?_, ?_, ?_, fun _ _ => rfl⟩, ?_, ?_⟩
    · intro j hj hnl
      have := h1 j (by rw [hlen]; omega)
      rw [getD_append_lt A _ j hj] at this
      exact this hnl
    · have := h2
      rw [hsplit] at this
      change wsum pcf A lam + lam A.length * pcf l = 1 at this
      rw [hpc] at this
      linarith
    · by_cases hj : j0 < A.length
      · rw [getD_append_lt A _ j0 hj] at hp0
        exact ⟨j0, hj, hp0, hl0⟩
      · have : j0 = A.length := by rw [hlen] at hj0; omega
        rw [this, getD_append_len, hnpt] at hp0
        cases hp0
    · show 0 ≤ s * (w v - wsum (fun g => g.coord v) A lam)
      rw [h4 v hv, hsplit, hc v, if_pos rfl]
      have : s * (wsum (fun g => g.coord v) A lam + lam A.length * s - wsum (fun g => g.coord v) A lam)
          = lam A.length * (s * s) := by ring
      rw [this, hs, mul_one]; exact hlast
    · intro j hj hjv
      rw [h4 j hj, hsplit, hc j, if_neg hjv]; ring
  · rintro ⟨x, ⟨lam, h1, h2, ⟨j0, hj0, hp0, hl0⟩, h4⟩, hpos, hw⟩
    obtain ⟨lam', hlam'⟩ : ∃ lam' : Val,
      lam' = fun j => if j < A.length then lam j else s * (w v - x v) := ⟨_, rfl⟩
    have hin : ∀ j < A.length, lam' j = lam j := by
      intro j hj; rw [hlam']; exact if_pos hj
    have hout : lam' A.length = s * (w v - x v) := by
      rw [hlam']; exact if_neg (lt_irrefl _)
    have hws : ∀ f : Gen → Rat, wsum f A lam' = wsum f A lam := by
      intro f
      apply wsum_congr
      intro j hj
      rw [hin j hj]
    refine ⟨lam', ?_, ?_, ?_, ?_⟩
    · intro j hj hnl
      by_cases hjA : j < A.length
      · rw [getD_append_lt A _ j hjA] at hnl
        rw [hin j hjA]; exact h1 j hjA hnl
      · have : j = A.length := by rw [hlen] at hj; omega
        rw [this, hout]; exact hpos
    · rw [hsplit, hws]
      change wsum pcf A lam + lam' A.length * pcf l = 1
      rw [hpc, h2]; ring
    · refine ⟨j0, by rw [hlen]; omega, ?_, ?_⟩
      · rw [getD_append_lt A _ j0 hj0]; exact hp0
      · rw [hin j0 hj0]; exact hl0
    · intro i hi
      rw [hsplit, hws, hout, hc i, ← h4 i hi]
      by_cases hiv : i = v
      · rw [if_pos hiv, hiv]
        have : x v + s * (w v - x v) * s = x v + (s * s) * (w v - x v) := by ring
        rw [this, hs]; ring
      · rw [if_neg hiv, hw i hi hiv]; ring

/-! ### the ray row -/

theorem rayRow_genWF (nnc : Bool) (n v : Nat) (s : Int) (hv : v < n) : (rayRow n v s).genWF nnc n := by
  refine ⟨?_, le_refl _, le_refl _, fun _ => rfl, fun _ => rfl, fun _ => rfl⟩
  show (List.replicate v (0 : Int) ++ [s] ++ List.replicate (n - v - 1) 0).length = n
  simp; omega

theorem rayRow_toGen (nnc : Bool) (n v : Nat) (s : Int) :
    (rayRow n v s).toGen nnc = ⟨.ray, List.replicate v 0 ++ [s] ++ List.replicate (n - v - 1) 0, 1⟩ := rfl

theorem rayRow_coord (nnc : Bool) (n v : Nat) (s : Int) (i : Nat) :
    ((rayRow n v s).toGen nnc).coord i = if i = v then (s : Rat) else 0 := by
  rw [rayRow_toGen, coord_ray, getD_unit_s]
  split <;> simp

/-- appending the ray row `±e_v` to a generator list -/
theorem genSem_append_rayRow (nnc : Bool) (n v : Nat) (s : Int) (hs : s = 1 ∨ s = -1) (rows : List Row)
    (hv : v < n) :
    genSem nnc n (rows ++ [rayRow n v s]) =
      {w | ∃ x ∈ genSem nnc n rows, 0 ≤ (s : Rat) * (w v - x v) ∧ ∀ j < n, j ≠ v → w j = x j} := by
  unfold genSem
  rw [gensOf_append]
  show GenSem n (gensOf nnc rows ++ [(rayRow n v s).toGen nnc]) = _
  apply genSem_add_ray n _ _ v (s : Rat) _ rfl (rayRow_coord nnc n v s) hv
  rcases hs with rfl | rfl <;> norm_num

/-! ### the reference set -/

def genImgSet (n v : Nat) (r : Rel) (e : LinExpr) (den : Int) (S : Set Val) : Set Val :=
  {w | ∃ x ∈ S, Rel.holds r (w v) (e.val x / (den : Rat)) ∧ ∀ j < n, j ≠ v → w j = x j}

theorem sem_genAffineImage (ref : RefPoly) (v : Nat) (r : Rel) (e : LinExpr) (den : Int)
    (hwf : WF ref.n ref.cs) (hv : v < ref.n) (he : e.coeffs.length ≤ ref.n) (hden : den ≠ 0) :
    sem (ref.genAffineImage v r e den).cs = genImgSet ref.n v r e den (sem ref.cs) := by
  ext w
  exact genAffineImage_spec ref v r e den hwf hv he hden w

theorem genImgSet_empty (n v : Nat) (r : Rel) (e : LinExpr) (den : Int) :
    genImgSet n v r e den ∅ = ∅ := by
  ext w; simp [genImgSet]

theorem genImgSet_eq (n v : Nat) (e : LinExpr) (den : Int) (hden : den ≠ 0) (S : Set Val) :
    genImgSet n v .eq e den S = imgSet n v e den S := by
  have hd : (den : Rat) ≠ 0 := by exact_mod_cast hden
  ext w
  unfold genImgSet imgSet Rel.holds
  show (∃ x ∈ S, _) ↔ (∃ x ∈ S, _)
  refine exists_congr fun x => and_congr_right fun _ => and_congr ?_ Iff.rfl
  constructor
  · intro h; rw [h]; field_simp
  · intro h; rw [← h]; field_simp

/-- moving coordinate `v` of the affine image in direction `s` -/
theorem genImgSet_of_ray (n v : Nat) (r : Rel) (e : LinExpr) (den : Int) (hden : den ≠ 0)
    (S : Set Val) (s : Rat)
    (hrs : ∀ a b : Rat, 0 ≤ s * (a - b) ↔ Rel.holds r a b) :
    {w | ∃ x' ∈ imgSet n v e den S, 0 ≤ s * (w v - x' v) ∧ ∀ j < n, j ≠ v → w j = x' j} =
      genImgSet n v r e den S := by
  have hd : (den : Rat) ≠ 0 := by exact_mod_cast hden
  ext w
  constructor
  · rintro ⟨x', ⟨x, hx, hxv, hxj⟩, hpos, hw⟩
    refine ⟨x, hx, ?_, fun j hj hjv => by rw [hw j hj hjv, hxj j hj hjv]⟩
    have : x' v = e.val x / (den : Rat) := by rw [← hxv]; field_simp
    rw [← this]
    exact (hrs _ _).mp hpos
  · rintro ⟨x, hx, hrel, hw⟩
    refine ⟨fun j => if j = v then e.val x / (den : Rat) else w j, ⟨x, hx, ?_, ?_⟩, ?_, ?_⟩
    · show (den : Rat) * (if v = v then e.val x / (den : Rat) else w v) = _
      rw [if_pos rfl]; field_simp
    · intro j hj hjv
      show (if j = v then _ else w j) = x j
      rw [if_neg hjv]; exact hw j hj hjv
    · show 0 ≤ s * (w v - (if v = v then e.val x / (den : Rat) else w v))
      rw [if_pos rfl]
      exact (hrs _ _).mpr hrel
    · intro j _ hjv
      show w j = if j = v then _ else w j
      rw [if_neg hjv]

/-! ### the operator -/

theorem affine_image_dim_nnc (p q : Poly) (v : Nat) (e : LinExpr) (den : Int) (hp : p.WF)
    (h : p.affine_image v e den = some q) : q.dim = p.dim ∧ q.nnc = p.nnc := by
  cases hem : p.st.empty
  · by_cases hc : e.coeffs.getD v 0 = 0
    · obtain ⟨_, _, hqn, hqd, _⟩ := affine_image_noninv_shape p q v e den hp hem hc h
      exact ⟨hqd, hqn⟩
    · obtain ⟨_, hqn, hqd, _⟩ := affine_image_inv_shape p q v e den hem hc h
      exact ⟨hqd, hqn⟩
  · rw [affine_image_empty p q v e den hem h]; exact ⟨rfl, rfl⟩

theorem denotes_addGeneratorRay (p : Poly) (g : Row) (S : Set Val) (he : p.st.empty = false)
    (hgu : p.st.gUp = true) (hg : genSem p.nnc p.dim (p.gs.rows ++ [g]) = S) :
    (p.addGeneratorRay g).Denotes S := by
  unfold Poly.addGeneratorRay
  by_cases hc : p.st.canPend = true
  · rw [if_pos hc]; exact denotes_pendForm p _ S he hgu hg
  · rw [if_neg hc]; exact denotes_dropForm p _ S he hgu hg

/-- **`Polyhedron::generalized_affine_image(var, relsym, expr, denominator)` at row level.** -/
theorem generalized_affine_image_rows_correct (p q : Poly) (v : Nat) (r : Rel) (e : LinExpr)
    (den : Int) (ref : RefPoly)
    (hn : ref.n = p.dim) (hnnc : ref.nnc = p.nnc) (hwf : WF ref.n ref.cs) (hp : p.WF)
    (hv : v < p.dim) (he : e.coeffs.length = p.dim) (hden : den ≠ 0)
    (hD : p.Denotes (sem ref.cs)) (h : p.generalized_affine_image v r e den = some q) :
    q.Denotes (sem (ref.genAffineImage v r e den).cs) := by
  rw [sem_genAffineImage ref v r e den hwf (by rw [hn]; exact hv) (by rw [hn]; exact le_of_eq he) hden, hn]
  unfold Poly.generalized_affine_image at h
  cases h1 : p.affine_image v e den with
  | none => rw [h1] at h; cases h
  | some p1 =>
    rw [h1] at h
    simp only [Option.bind_some] at h
    have hD1 := affine_image_rows_correct p p1 v e den ref hn hnnc hwf hp hv he hden hD h1
    rw [sem_affineImage ref v e den hwf (by rw [hn]; exact hv) (by rw [hn]; exact le_of_eq he), hn] at hD1
    have hW1 := affine_image_rows_wf p p1 v e den hp hv he hden h1
    obtain ⟨hdim1, _⟩ := affine_image_dim_nnc p p1 v e den hp h1
    -- the image is marked empty: every relation gives the empty set
    have hempty : p1.st.empty = true → p1.Denotes (genImgSet p.dim v r e den (sem ref.cs)) := by
      intro he1
      apply denotes_of_empty _ _ he1
      have hT := hD1.1 he1
      ext w
      simp only [Set.mem_empty_iff_false, iff_false]
      rintro ⟨x, hx, _, hw⟩
      have : (fun j => if j = v then e.val x / (den : Rat) else x j) ∈ imgSet p.dim v e den (sem ref.cs) := by
        refine ⟨x, hx, ?_, fun j _ hjv => ?_⟩
        · show (den : Rat) * (if v = v then e.val x / (den : Rat) else x v) = _
          have hd : (den : Rat) ≠ 0 := by exact_mod_cast hden
          rw [if_pos rfl]; field_simp
        · show (if j = v then _ else x j) = x j
          rw [if_neg hjv]
      rw [hT] at this
      exact this
    -- the two non-strict inequalities
    have hineq : ∀ s : Int, (s = 1 ∨ s = -1) →
        (∀ a b : Rat, 0 ≤ (s : Rat) * (a - b) ↔ Rel.holds r a b) →
        (if p1.st.empty = true then some p1
          else if (p1.st.cPend || !p1.st.gUp) = true then none
          else some (p1.addGeneratorRay (rayRow p1.dim v s))) = some q →
        q.Denotes (genImgSet p.dim v r e den (sem ref.cs)) := by
      intro s hs hrs h
      by_cases he1 : p1.st.empty = true
      · rw [if_pos he1] at h
        rw [← Option.some.inj h]; exact hempty he1
      · rw [if_neg he1] at h
        by_cases hc1 : (p1.st.cPend || !p1.st.gUp) = true
        · rw [if_pos hc1] at h; cases h
        · rw [if_neg hc1] at h
          have he1' : p1.st.empty = false := by simpa using he1
          have hcp : p1.st.cPend = false := by
            cases hh : p1.st.cPend
            · rfl
            · simp [hh] at hc1
          have hgu : p1.st.gUp = true := by
            cases hh : p1.st.gUp
            · simp [hh] at hc1
            · rfl
          rw [← Option.some.inj h]
          apply denotes_addGeneratorRay p1 _ _ he1' hgu
          rw [genSem_append_rayRow p1.nnc p1.dim v s hs p1.gs.rows (by rw [hdim1]; exact hv),
            (hD1.2 he1').2.1 hgu hcp, hdim1]
          exact genImgSet_of_ray p.dim v r e den hden _ _ hrs
    cases r with
    | eq =>
      simp only at h
      rw [← Option.some.inj h, genImgSet_eq _ _ _ _ hden]
      exact hD1
    | lt =>
      simp only at h
      by_cases he1 : p1.st.empty = true
      · rw [if_pos he1] at h
        rw [← Option.some.inj h]; exact hempty he1
      · rw [if_neg he1] at h; cases h
    | gt =>
      simp only at h
      by_cases he1 : p1.st.empty = true
      · rw [if_pos he1] at h
        rw [← Option.some.inj h]; exact hempty he1
      · rw [if_neg he1] at h; cases h
    | le =>
      refine hineq (-1) (Or.inr rfl) (fun a b => ?_) (by simpa using h)
      show _ ↔ a ≤ b
      constructor
      · intro hh; push_cast at hh; linarith
      · intro hh; push_cast; linarith
    | ge =>
      refine hineq 1 (Or.inl rfl) (fun a b => ?_) (by simpa using h)
      show _ ↔ b ≤ a
      constructor
      · intro hh; push_cast at hh; linarith
      · intro hh; push_cast; linarith

end PPLV.PolyOps
