import PPLV.PolyOps.ProofsCon2
import PPLV.PolyOps.ProofsGenKit3

/-!
# C02 stage 2 — lattice operators at row level, part 1: helpers and `intersection_assign`

`intersection_assign_rows_correct`: for ANY two reference polyhedra denoting the sets of `x` and `y`,
every description the status word of the result declares valid denotes the intersection
(`RefPoly.meet`, `sem_append`).  All branches: either side marked empty, dimension 0, the pending
insertion (`insertPendingSys`, `cPend` set: the whole constraint list is `x`'s rows followed by
`y`'s rows, whatever was pending before on either side), `insertSys` and `mergeRowsAssign`.
-/
namespace PPLV.PolyOps
open PPLV.Lin

/-! ### lists of rows -/

theorem consOf_append (nnc : Bool) (A B : List Row) : consOf nnc (A ++ B) = consOf nnc A ++ consOf nnc B := by
  unfold consOf; rw [List.flatMap_append]

theorem gensOf_append (nnc : Bool) (A B : List Row) : gensOf nnc (A ++ B) = gensOf nnc A ++ gensOf nnc B := by
  unfold gensOf; rw [List.map_append]

theorem conSem_append (nnc : Bool) (A B : List Row) :
    conSem nnc (A ++ B) = conSem nnc A ∩ conSem nnc B := by
  unfold conSem; rw [consOf_append, sem_append]

/-- the set of a constraint list depends only on the SET of rows -/
theorem conSem_congr_mem (nnc : Bool) (A B : List Row) (h : ∀ r, r ∈ A ↔ r ∈ B) :
    conSem nnc A = conSem nnc B := by
  ext w
  rw [mem_conSem, mem_conSem]
  exact ⟨fun H r hr => H r ((h r).mpr hr), fun H r hr => H r ((h r).mp hr)⟩

/-- `merge_rows_assign`: the rows of the result are those of either argument -/
theorem mem_mergeRows (s : Sys) (ys : List Row) (r : Row) :
    r ∈ (s.mergeRowsAssign ys).rows ↔ r ∈ s.rows ++ ys := by
  unfold Sys.mergeRowsAssign
  simp only [List.mem_append, List.mem_filter]
  constructor
  · rintro (h | ⟨h, _⟩)
    · exact Or.inl h
    · exact Or.inr h
  · rintro (h | h)
    · exact Or.inl h
    · by_cases hc : r ∈ s.rows
      · exact Or.inl hc
      · exact Or.inr ⟨h, by simp [hc]⟩

theorem insertSys_rows (s : Sys) (ys : List Row) : (s.insertSys ys).rows = s.rows ++ ys := rfl
theorem insertPendingSys_rows (s : Sys) (ys : List Row) : (s.insertPendingSys ys).rows = s.rows ++ ys := rfl

theorem conSem_mergeRows (nnc : Bool) (s : Sys) (ys : List Row) :
    conSem nnc (s.mergeRowsAssign ys).rows = conSem nnc (s.rows ++ ys) :=
  conSem_congr_mem nnc _ _ (mem_mergeRows s ys)

/-- the generated set depends only on the SET of rows -/
theorem genSem_congr_mem (nnc : Bool) (n : Nat) (A B : List Row) (hA : ∀ r ∈ A, r.genWF nnc n)
    (h : ∀ r, r ∈ A ↔ r ∈ B) : genSem nnc n A = genSem nnc n B := by
  unfold genSem
  apply kit_memEquiv n _ _ (gensWF_gensOf nnc n A hA)
  intro g
  unfold gensOf
  simp only [List.mem_map]
  exact ⟨fun ⟨r, hr, e⟩ => ⟨r, (h r).mp hr, e⟩, fun ⟨r, hr, e⟩ => ⟨r, (h r).mpr hr, e⟩⟩

/-! ### the status tests -/

theorem obtainC_some (p p' : Poly) (h : p.obtainConstraintsNoConv = some p') :
    p' = p ∧ p.st.gPend = false ∧ p.st.cUp = true := by
  unfold Poly.obtainConstraintsNoConv at h
  cases hg : p.st.gPend <;> cases hc : p.st.cUp <;> simp [hg, hc] at h
  exact ⟨h.symm, rfl, rfl⟩

theorem obtainG_some (p p' : Poly) (h : p.obtainGeneratorsPendingNoConv = some p') :
    p' = p ∧ p.st.cPend = false ∧ p.st.gUp = true := by
  unfold Poly.obtainGeneratorsPendingNoConv at h
  cases hg : p.st.cPend <;> cases hc : p.st.gUp <;> simp [hg, hc] at h
  exact ⟨h.symm, rfl, rfl⟩

/-- a polyhedron that is marked empty denotes the empty set only -/
theorem denotes_of_empty (p : Poly) (S : Set Val) (he : p.st.empty = true) (hS : S = ∅) :
    p.Denotes S :=
  ⟨fun _ => hS, fun h' => by rw [he] at h'; cases h'⟩

theorem denotes_setEmpty (p : Poly) (S : Set Val) (hS : S = ∅) : p.setEmpty.Denotes S :=
  denotes_of_empty _ _ rfl hS

/-! ### `intersection_assign` -/

/-- the shape of the result in the main branch -/
theorem intersection_assign_main (x y q : Poly) (hex : x.st.empty = false) (hey : y.st.empty = false)
    (hd : x.dim ≠ 0) (h : x.intersection_assign y = some q) :
    x.st.gPend = false ∧ x.st.cUp = true ∧ y.st.gPend = false ∧ y.st.cUp = true ∧
    q.nnc = x.nnc ∧ q.dim = x.dim ∧ q.st.empty = false ∧ q.st.cUp = true ∧ q.st.gPend = false ∧
    (q.st.gUp = true → q.st.cPend = true) ∧
    (∀ r, r ∈ q.cs.rows ↔ r ∈ x.cs.rows ++ y.cs.rows) := by
  unfold Poly.intersection_assign at h
  have hd' : ¬ ((x.dim == 0) = true) := by simpa using hd
  rw [hex, hey] at h
  simp only [Bool.false_eq_true, if_false, hd'] at h
  cases hox : x.obtainConstraintsNoConv with
  | none => rw [hox] at h; simp at h
  | some x' =>
    cases hoy : y.obtainConstraintsNoConv with
    | none => rw [hox, hoy] at h; simp at h
    | some y' =>
      obtain ⟨rfl, hxg, hxc⟩ := obtainC_some x x' hox
      obtain ⟨rfl, hyg, hyc⟩ := obtainC_some y y' hoy
      rw [hox, hoy] at h
      simp only at h
      by_cases hcp : x'.st.canPend = true
      · rw [if_pos hcp] at h
        have hq := (Option.some.inj h).symm
        subst hq
        exact ⟨hxg, hxc, hyg, hyc, rfl, rfl, hex, hxc, hxg, fun _ => rfl, fun _ => Iff.rfl⟩
      · rw [if_neg hcp] at h
        have hq := (Option.some.inj h).symm
        subst hq
        refine ⟨hxg, hxc, hyg, hyc, rfl, rfl, ?_, ?_, ?_, ?_, ?_⟩
        · simp [Status.clearGUp, hex]
        · simp [Status.clearGUp, hxc]
        · simp [Status.clearGUp]
        · intro hg; simp [Status.clearGUp] at hg
        · intro r
          show r ∈ (if (x'.cs.sorted && y'.cs.sorted && !y'.st.cPend) = true then
            x'.cs.mergeRowsAssign y'.cs.rows else x'.cs.insertSys y'.cs.rows).rows ↔ _
          split
          · exact mem_mergeRows _ _ r
          · exact Iff.rfl

/-- **`Polyhedron::intersection_assign` at row level computes the intersection.** -/
theorem intersection_assign_rows_correct (x y q : Poly) (refx refy : RefPoly)
    (hdim : y.dim = x.dim) (hnnc : y.nnc = x.nnc) (hx : x.WF) (hy : y.WF)
    (hDx : x.Denotes (sem refx.cs)) (hDy : y.Denotes (sem refy.cs))
    (h : x.intersection_assign y = some q) :
    q.Denotes (sem (refx.meet refy).cs) := by
  have hS : sem (refx.meet refy).cs = sem refx.cs ∩ sem refy.cs := sem_append _ _
  rw [hS]
  cases hex : x.st.empty
  · cases hey : y.st.empty
    · by_cases hd : x.dim = 0
      · -- dimension 0, neither marked empty: both are the universe
        have hq : q = x := by
          unfold Poly.intersection_assign at h
          rw [hex, hey] at h
          simp only [Bool.false_eq_true, if_false, hd, beq_self_eq_true, if_true] at h
          exact (Option.some.inj h).symm
        subst hq
        have hux := (hDx.2 hex).2.2 (hx.zero_dim hd).1 (hx.zero_dim hd).2
        have huy := (hDy.2 hey).2.2 (hy.zero_dim (hdim.trans hd)).1 (hy.zero_dim (hdim.trans hd)).2
        rw [huy, Set.inter_univ]
        exact hDx
      · obtain ⟨hxg, hxc, hyg, hyc, hqn, hqd, hqe, hqc, hqg, hqp, hrows⟩ :=
          intersection_assign_main x y q hex hey hd h
        refine ⟨fun hq => (by rw [hqe] at hq; cases hq), fun _ => ⟨fun _ _ => ?_, fun hgu hcp => ?_,
          fun hcu => (by rw [hqc] at hcu; cases hcu)⟩⟩
        · rw [hqn, conSem_congr_mem _ _ _ hrows, conSem_append,
            (hDx.2 hex).1 hxc hxg, ← hnnc, (hDy.2 hey).1 hyc hyg]
        · rw [hqp hgu] at hcp; cases hcp
    · -- `y` marked empty
      have hq : q = x.setEmpty := by
        unfold Poly.intersection_assign at h
        rw [hex, hey] at h
        simp only [Bool.false_eq_true, if_false, if_true] at h
        exact (Option.some.inj h).symm
      subst hq
      exact denotes_setEmpty _ _ (by rw [hDy.1 hey, Set.inter_empty])
  · -- `x` marked empty
    have hq : q = x := by
      unfold Poly.intersection_assign at h
      rw [hex] at h
      simp only [if_true] at h
      exact (Option.some.inj h).symm
    subst hq
    exact denotes_of_empty _ _ hex (by rw [hDx.1 hex, Set.empty_inter])

end PPLV.PolyOps
