import PPLV.PolyOps.ProofsGenKit3
import PPLV.PolyOps.ProofsCon2

/-!
# C02 stage 2 — `affine_image` / `affine_preimage`, part 1

* the algebra of the inverse map built by `Polyhedron::affine_image` / `affine_preimage`
  (`inverseMap_spec`: `w = f(x)` iff `x = f⁻¹(w)`, for both signs of the coefficient and of the
  denominator; `inverseMap_wrong_sign_fails`: the one-token mutant is not the inverse);
* the set transformers `imgSet` / `preSet`, their agreement with the reference operators and with
  each other through the inverse map;
* what `gsAffineImage` / `csAffinePreimage` (and their negative-denominator calls) do to the
  generated set / the solution set, and to well-formedness.
-/
namespace PPLV.PolyOps
open PPLV.Lin

/-! ## expressions -/

theorem getD_map_negf (cf : List Int) (i : Nat) : (cf.map (- ·)).getD i 0 = - cf.getD i 0 := by
  induction cf generalizing i with
  | nil => simp
  | cons a as ih =>
    cases i with
    | zero => simp
    | succ i => simpa using ih i

theorem exprNeg_val (e : LinExpr) (w : Val) : (exprNeg e).val w = - e.val w := by
  unfold exprNeg LinExpr.val
  simp only
  rw [dot_map_neg]
  push_cast; ring

theorem exprNeg_length (e : LinExpr) : (exprNeg e).coeffs.length = e.coeffs.length := by
  simp [exprNeg]

theorem exprNeg_getD (e : LinExpr) (v : Nat) :
    (exprNeg e).coeffs.getD v 0 = - e.coeffs.getD v 0 := by
  unfold exprNeg; exact getD_map_negf e.coeffs v

theorem exprSet_length (n : Nat) (e : LinExpr) (v : Nat) (a : Int) :
    (exprSet n e v a).coeffs.length = n := by
  simp [exprSet, padTo_length]

theorem exprSet_val (n v : Nat) (e : LinExpr) (a : Int) (hv : v < n) (he : e.coeffs.length ≤ n)
    (w : Val) :
    (exprSet n e v a).val w = e.val w + ((a : Rat) - ((e.coeffs.getD v 0 : Int) : Rat)) * w v := by
  unfold exprSet LinExpr.val
  simp only
  rw [dot_set _ _ _ _ (by rw [padTo_length]; exact hv), dot_padTo _ _ _ he, getD_padTo _ _ _ he]
  ring

theorem exprSet_getD (n v : Nat) (e : LinExpr) (a : Int) (hv : v < n) :
    (exprSet n e v a).coeffs.getD v 0 = a := by
  unfold exprSet
  exact getD_set_self _ _ _ (by rw [padTo_length]; exact hv)

/-- the value of `e` at `x`, seen from a `w` that agrees with `x` off `v` -/
theorem val_frame (n v : Nat) (e : LinExpr) (he : e.coeffs.length ≤ n) (x w : Val)
    (hframe : ∀ j < n, j ≠ v → w j = x j) :
    e.val x = e.val w + ((e.coeffs.getD v 0 : Int) : Rat) * (x v - w v) := by
  have : dot e.coeffs x = dot e.coeffs (w.update v (x v)) := by
    apply dot_agree
    intro i hi
    by_cases hiv : i = v
    · subst hiv; simp [Val.update]
    · simp only [Val.update, hiv, if_false]
      exact (hframe i (by omega) hiv).symm
  unfold LinExpr.val
  rw [this, dot_update]
  ring

/-! ## the inverse map -/

theorem inverseMap_den_pos (n v : Nat) (e : LinExpr) (den : Int) (hc : e.coeffs.getD v 0 ≠ 0) :
    0 < (inverseMap n v e den).2 := by
  unfold inverseMap
  simp only
  split
  · rename_i h; exact h
  · rename_i h; simp only; omega

theorem inverseMap_length (n v : Nat) (e : LinExpr) (den : Int) :
    (inverseMap n v e den).1.coeffs.length = n := by
  unfold inverseMap
  simp only
  split <;> exact exprSet_length _ _ _ _

/-- the coefficient of `v` in the inverse is `±den`: non-zero, so the inverse is itself invertible -/
theorem inverseMap_getD (n v : Nat) (e : LinExpr) (den : Int) (hv : v < n) (hden : den ≠ 0) :
    (inverseMap n v e den).1.coeffs.getD v 0 ≠ 0 := by
  unfold inverseMap
  simp only
  split
  · simp only; rw [exprSet_getD _ _ _ _ hv]; exact hden
  · simp only; rw [exprSet_getD _ _ _ _ hv]; omega

/-- **`w = f(x)` iff `x = f⁻¹(w)`** for `f : x_v := e(x)/den` and the pair `(inverse, c')` that
    `Polyhedron::affine_image` passes to `Constraint_System::affine_preimage` -/
theorem inverseMap_spec (n v : Nat) (e : LinExpr) (den : Int) (hv : v < n) (he : e.coeffs.length = n)
    (_hden : den ≠ 0) (_hc : e.coeffs.getD v 0 ≠ 0) (x w : Val)
    (hframe : ∀ j < n, j ≠ v → w j = x j) :
    ((den : Rat) * w v = e.val x) ↔
      (((inverseMap n v e den).2 : Rat) * x v = (inverseMap n v e den).1.val w) := by
  have hval := val_frame n v e (le_of_eq he) x w hframe
  unfold inverseMap
  simp only
  split
  · -- c > 0 : inverse = (-e)[v := den], denominator c
    simp only
    rw [exprSet_val n v _ _ hv (by rw [exprNeg_length]; exact le_of_eq he), exprNeg_val,
      exprNeg_getD, hval]
    push_cast
    constructor <;> intro h <;> linarith
  · -- c < 0 : inverse = e[v := -den], denominator -c
    simp only
    rw [exprSet_val n v _ _ hv (le_of_eq he), hval]
    push_cast
    constructor <;> intro h <;> linarith

/-- The one-token mutant of Polyhedron_public.cc:2834 (`inverse.set_coefficient(var, denominator)`
    without the minus, in the branch `c < 0`) is NOT the inverse: for `f : x := -x` (`n = 1`,
    `e = -x`, `den = 1`) the points `x = 1`, `w = f(x) = -1` satisfy `w = f(x)` but not the mutant's
    "`x = f⁻¹(w)`" (which reads `x = w`), while the real `inverseMap` gives `x = -w`. -/
theorem inverseMap_wrong_sign_fails :
    let e : LinExpr := ⟨[-1], 0⟩
    let mutant : LinExpr × Int := (exprSet 1 e 0 1, -(e.coeffs.getD 0 0))
    let x : Val := fun _ => 1
    let w : Val := fun _ => -1
    ((1 : Int) : Rat) * w 0 = e.val x ∧ ¬ ((mutant.2 : Rat) * x 0 = mutant.1.val w) ∧
      (((inverseMap 1 0 e 1).2 : Rat) * x 0 = (inverseMap 1 0 e 1).1.val w) := by
  intro e mutant x w
  refine ⟨?_, ?_, ?_⟩
  · simp [e, x, w, LinExpr.val, dot]
  · simp [e, mutant, x, w, LinExpr.val, dot, exprSet, padTo]
    norm_num
  · simp [e, x, w, LinExpr.val, dot, exprSet, padTo, inverseMap]

/-! ## the two set transformers -/

/-- image of `S` under `x_v := e(x)/den` (relation form, as in `affineImage_spec`) -/
def imgSet (n v : Nat) (e : LinExpr) (den : Int) (S : Set Val) : Set Val :=
  {w | ∃ x ∈ S, (den : Rat) * w v = e.val x ∧ ∀ j < n, j ≠ v → w j = x j}

/-- preimage of `S` under `x_v := e(x)/den` (relation form, as in `affinePreimage_spec`) -/
def preSet (n v : Nat) (e : LinExpr) (den : Int) (S : Set Val) : Set Val :=
  {w | ∃ x' ∈ S, (den : Rat) * x' v = e.val w ∧ ∀ j < n, j ≠ v → x' j = w j}

/-- `S` only looks at the first `n` coordinates -/
def CoordDet (n : Nat) (S : Set Val) : Prop := ∀ x y : Val, (∀ j < n, x j = y j) → (x ∈ S ↔ y ∈ S)

theorem coordDet_sem (n : Nat) (cs : List Con) (hwf : WF n cs) : CoordDet n (sem cs) := by
  intro x y h
  show Sat cs x ↔ Sat cs y
  unfold Sat
  refine forall_congr' fun c => forall_congr' fun hc => sat_agree c x y fun i hi => h i ?_
  have := hwf c hc
  omega

theorem sem_affineImage (ref : RefPoly) (v : Nat) (e : LinExpr) (den : Int) (hwf : WF ref.n ref.cs)
    (hv : v < ref.n) (he : e.coeffs.length ≤ ref.n) :
    sem (ref.affineImage v e den).cs = imgSet ref.n v e den (sem ref.cs) := by
  ext w
  exact affineImage_spec ref v e den hwf hv he w

theorem sem_affinePreimage (ref : RefPoly) (v : Nat) (e : LinExpr) (den : Int)
    (hwf : WF ref.n ref.cs) (hv : v < ref.n) (he : e.coeffs.length ≤ ref.n) :
    sem (ref.affinePreimage v e den).cs = preSet ref.n v e den (sem ref.cs) := by
  ext w
  exact affinePreimage_spec ref v e den hwf hv he w

theorem imgSet_empty (n v : Nat) (e : LinExpr) (den : Int) : imgSet n v e den ∅ = ∅ := by
  ext w; simp [imgSet]

theorem preSet_empty (n v : Nat) (e : LinExpr) (den : Int) : preSet n v e den ∅ = ∅ := by
  ext w; simp [preSet]

/-- negating numerator and denominator together changes nothing -/
theorem imgSet_neg (n v : Nat) (e : LinExpr) (den : Int) (S : Set Val) :
    imgSet n v (exprNeg e) (-den) S = imgSet n v e den S := by
  ext w
  unfold imgSet
  simp only [Set.mem_ofPred_eq, exprNeg_val]
  refine exists_congr fun x => and_congr_right fun _ => and_congr ?_ Iff.rfl
  push_cast
  constructor <;> intro h <;> linarith

/-- substitution form of the preimage -/
theorem preSet_eq_subst (n v : Nat) (e : LinExpr) (den : Int) (hden : den ≠ 0) (S : Set Val)
    (hS : CoordDet n S) :
    {w | (w.update v (e.val w / (den : Rat))) ∈ S} = preSet n v e den S := by
  have hdq : (den : Rat) ≠ 0 := by exact_mod_cast hden
  ext w
  simp only [Set.mem_ofPred_eq, preSet]
  constructor
  · intro h
    refine ⟨_, h, ?_, ?_⟩
    · simp only [Val.update, if_true]
      field_simp
    · intro j _ hjv
      simp [Val.update, hjv]
  · rintro ⟨x', hx', h1, h2⟩
    refine (hS _ _ fun j hj => ?_).mp hx'
    by_cases hjv : j = v
    · subst hjv
      simp only [Val.update, if_true]
      rw [← h1]; field_simp
    · simp only [Val.update, hjv, if_false]
      exact h2 j hj hjv

/-- the constraint side of the invertible case of `affine_image`: substituting the inverse gives
    the image -/
theorem subst_inverse_eq_imgSet (n v : Nat) (e : LinExpr) (den : Int) (hv : v < n)
    (he : e.coeffs.length = n) (hden : den ≠ 0) (hc : e.coeffs.getD v 0 ≠ 0) (S : Set Val)
    (hS : CoordDet n S) :
    {w | (w.update v ((inverseMap n v e den).1.val w / ((inverseMap n v e den).2 : Rat))) ∈ S} =
      imgSet n v e den S := by
  have hpos := inverseMap_den_pos n v e den hc
  have hq : ((inverseMap n v e den).2 : Rat) ≠ 0 := by
    have : (0 : Rat) < ((inverseMap n v e den).2 : Rat) := by exact_mod_cast hpos
    exact ne_of_gt this
  ext w
  simp only [Set.mem_ofPred_eq, imgSet]
  constructor
  · intro h
    refine ⟨_, h, ?_, ?_⟩
    · apply (inverseMap_spec n v e den hv he hden hc _ w ?_).mpr
      · simp only [Val.update, if_true]
        field_simp
      · intro j _ hjv; simp [Val.update, hjv]
    · intro j _ hjv; simp [Val.update, hjv]
  · rintro ⟨x, hx, h1, h2⟩
    have h3 := (inverseMap_spec n v e den hv he hden hc x w h2).mp h1
    refine (hS _ _ fun j hj => ?_).mp hx
    by_cases hjv : j = v
    · subst hjv
      simp only [Val.update, if_true]
      rw [← h3]; field_simp
    · simp only [Val.update, hjv, if_false]
      exact (h2 j hj hjv).symm

/-- the generator side of the invertible case of `affine_preimage`: the image under the inverse
    is the preimage -/
theorem imgSet_inverse_eq_preSet (n v : Nat) (e : LinExpr) (den : Int) (hv : v < n)
    (he : e.coeffs.length = n) (hden : den ≠ 0) (hc : e.coeffs.getD v 0 ≠ 0) (S : Set Val) :
    imgSet n v (inverseMap n v e den).1 (inverseMap n v e den).2 S = preSet n v e den S := by
  ext w
  simp only [imgSet, preSet, Set.mem_ofPred_eq]
  refine exists_congr fun x => and_congr_right fun _ => ?_
  constructor
  · rintro ⟨h1, h2⟩
    exact ⟨(inverseMap_spec n v e den hv he hden hc w x fun j hj hjv => (h2 j hj hjv).symm).mpr h1,
      fun j hj hjv => (h2 j hj hjv).symm⟩
  · rintro ⟨h1, h2⟩
    exact ⟨(inverseMap_spec n v e den hv he hden hc w x h2).mp h1,
      fun j hj hjv => (h2 j hj hjv).symm⟩

/-! ## the systems -/

/-- the call pattern `if (denominator > 0) sys.f(var, expr, denominator) else sys.f(var, -expr, -denominator)` -/
def gsSigned (v : Nat) (e : LinExpr) (den : Int) (s : Sys) : Sys :=
  if den > 0 then gsAffineImage v e den s else gsAffineImage v (exprNeg e) (-den) s

def csSigned (v : Nat) (e : LinExpr) (den : Int) (s : Sys) : Sys :=
  if den > 0 then csAffinePreimage v e den s else csAffinePreimage v (exprNeg e) (-den) s

theorem gsAffineImage_rows (v : Nat) (e : LinExpr) (den : Int) (s : Sys) :
    (gsAffineImage v e den s).rows =
      (if (e.coeffs.getD v 0 == 0) = true then
          (s.rows.map (genRowAffineImage v e den)).filter (fun r => !(r.b == 0 && r.allHomZero))
        else s.rows.map (genRowAffineImage v e den)).map Row.strongNormalize := by
  unfold gsAffineImage removeInvalidLinesAndRays
  simp only
  split <;> rfl

/-- `Generator_System::affine_image(v, e, den)`, `den > 0`: generated set, well-formedness, points -/
theorem gsAffineImage_facts (nnc : Bool) (n v : Nat) (e : LinExpr) (den : Int) (s : Sys)
    (hwf : ∀ r ∈ s.rows, r.genWF nnc n) (hv : v < n) (he : e.coeffs.length ≤ n) (hden : 0 < den) :
    genSem nnc n (gsAffineImage v e den s).rows = imgSet n v e den (genSem nnc n s.rows) ∧
    (∀ r ∈ (gsAffineImage v e den s).rows, r.genWF nnc n) ∧
    ((∃ r ∈ s.rows, r.isPoint nnc) → ∃ r ∈ (gsAffineImage v e den s).rows, r.isPoint nnc) := by
  rw [gsAffineImage_rows]
  set R1 := s.rows.map (genRowAffineImage v e den) with hR1
  have hR1wf : ∀ r ∈ R1, r.genWF nnc n := by
    intro r hr
    obtain ⟨r0, hr0, rfl⟩ := List.mem_map.mp hr
    exact (kit_affineImageWF nnc n v e den r0 (hwf r0 hr0) hv hden).1
  have hR1sem : genSem nnc n R1 = imgSet n v e den (genSem nnc n s.rows) :=
    kit_affineImage nnc n v e den s.rows hwf hv he hden
  have hR1pt : (∃ r ∈ s.rows, r.isPoint nnc) → ∃ r ∈ R1, r.isPoint nnc := by
    rintro ⟨r, hr, hp⟩
    exact ⟨_, List.mem_map.mpr ⟨r, hr, rfl⟩,
      (kit_affineImageWF nnc n v e den r (hwf r hr) hv hden).2 hp⟩
  -- the optional removal of invalid lines and rays
  obtain ⟨R2, hR2def, hR2wf, hR2sem, hR2pt⟩ : ∃ R2 : List Row,
      R2 = (if (e.coeffs.getD v 0 == 0) = true then
          R1.filter (fun r => !(r.b == 0 && r.allHomZero)) else R1) ∧
      (∀ r ∈ R2, r.genWF nnc n) ∧ genSem nnc n R2 = genSem nnc n R1 ∧
      ((∃ r ∈ R1, r.isPoint nnc) → ∃ r ∈ R2, r.isPoint nnc) := by
    refine ⟨_, rfl, ?_⟩
    split
    · refine ⟨fun r hr => hR1wf r (List.mem_filter.mp hr).1, kit_removeInvalid nnc n R1 hR1wf, ?_⟩
      rintro ⟨r, hr, hp⟩
      refine ⟨r, List.mem_filter.mpr ⟨hr, ?_⟩, hp⟩
      have hb : r.b ≠ 0 := ne_of_gt hp.2.1
      simp [hb]
    · exact ⟨hR1wf, rfl, id⟩
  rw [← hR2def]
  refine ⟨?_, ?_, ?_⟩
  · rw [kit_strongNormalize nnc n R2 hR2wf, hR2sem, hR1sem]
  · intro r hr
    obtain ⟨r0, hr0, rfl⟩ := List.mem_map.mp hr
    exact (kit_strongNormalizeWF nnc n r0 (hR2wf r0 hr0)).1
  · intro hpt
    obtain ⟨r, hr, hp⟩ := hR2pt (hR1pt hpt)
    exact ⟨_, List.mem_map.mpr ⟨r, hr, rfl⟩,
      ((kit_strongNormalizeWF nnc n r (hR2wf r hr)).2.2 hp).1⟩

/-- both call patterns of `Polyhedron::affine_image`, any non-zero denominator -/
theorem gsSigned_facts (nnc : Bool) (n v : Nat) (e : LinExpr) (den : Int) (s : Sys)
    (hwf : ∀ r ∈ s.rows, r.genWF nnc n) (hv : v < n) (he : e.coeffs.length ≤ n) (hden : den ≠ 0) :
    genSem nnc n (gsSigned v e den s).rows = imgSet n v e den (genSem nnc n s.rows) ∧
    (∀ r ∈ (gsSigned v e den s).rows, r.genWF nnc n) ∧
    ((∃ r ∈ s.rows, r.isPoint nnc) → ∃ r ∈ (gsSigned v e den s).rows, r.isPoint nnc) := by
  unfold gsSigned
  split
  · rename_i h
    exact gsAffineImage_facts nnc n v e den s hwf hv he h
  · rename_i h
    have h' : 0 < -den := by omega
    have := gsAffineImage_facts nnc n v (exprNeg e) (-den) s hwf hv
      (by rw [exprNeg_length]; exact he) h'
    rw [imgSet_neg] at this
    exact this

theorem csAffinePreimage_rows (v : Nat) (e : LinExpr) (den : Int) (s : Sys) :
    (csAffinePreimage v e den s).rows =
      (s.rows.map (conRowAffinePreimage v e den)).map Row.strongNormalize := rfl

/-- `Constraint_System::affine_preimage(v, e, den)`, `den > 0` -/
theorem csAffinePreimage_facts (nnc : Bool) (n v : Nat) (e : LinExpr) (den : Int) (s : Sys)
    (hlen : ∀ r ∈ s.rows, r.cf.length = n) (hv : v < n) (he : e.coeffs.length = n) (hden : 0 < den) :
    conSem nnc (csAffinePreimage v e den s).rows =
        {w | (w.update v (e.val w / (den : Rat))) ∈ conSem nnc s.rows} ∧
    (∀ r ∈ (csAffinePreimage v e den s).rows, r.cf.length = n) := by
  rw [csAffinePreimage_rows]
  refine ⟨?_, ?_⟩
  · rw [kitC_strongNormalize, kitC_affinePreimage nnc n v e den s.rows hlen hv he hden]
  · intro r hr
    obtain ⟨r1, hr1, rfl⟩ := List.mem_map.mp hr
    obtain ⟨r0, hr0, rfl⟩ := List.mem_map.mp hr1
    rw [strongNormalize_cf_length, conRowAffinePreimage_cf_length, hlen r0 hr0]

theorem csSigned_facts (nnc : Bool) (n v : Nat) (e : LinExpr) (den : Int) (s : Sys)
    (hlen : ∀ r ∈ s.rows, r.cf.length = n) (hv : v < n) (he : e.coeffs.length = n) (hden : den ≠ 0) :
    conSem nnc (csSigned v e den s).rows =
        {w | (w.update v (e.val w / (den : Rat))) ∈ conSem nnc s.rows} ∧
    (∀ r ∈ (csSigned v e den s).rows, r.cf.length = n) := by
  unfold csSigned
  split
  · rename_i h
    exact csAffinePreimage_facts nnc n v e den s hlen hv he h
  · rename_i h
    have h' : 0 < -den := by omega
    have := csAffinePreimage_facts nnc n v (exprNeg e) (-den) s hlen hv
      (by rw [exprNeg_length]; exact he) h'
    have hq : ∀ w : Val, (exprNeg e).val w / ((-den : Int) : Rat) = e.val w / (den : Rat) := by
      intro w
      rw [exprNeg_val]; push_cast
      rw [neg_div_neg_eq]
    simp only [hq] at this
    exact this

end PPLV.PolyOps
