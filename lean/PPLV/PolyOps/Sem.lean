import PPLV.PolyOps.Lattice
import PPLV.Lin.GenSpecs
import PPLV.Lin.OpSpecs
import PPLV.Lin.OpSpecs2

/-!
# C02 stage 2 — what a raw pair (con_sys, gen_sys) with its status word denotes

`conSem` / `genSem`: the point set of a list of raw rows read as constraints / generators (K1's
`sem`, `GenSem`).  `Poly.Denotes p S`: every description the status word declares valid denotes `S`
— the whole constraint system when constraints are up to date and no generators are pending, the
whole generator system when generators are up to date and no constraints are pending (with pending
rows of one kind the OTHER description only covers the non-pending part and nothing is claimed of
it), `S = ∅` when marked empty, `S` = everything when no description is held (zero-dim universe).
`Poly.WF`: the invariants of `Polyhedron::OK()` the proofs use.
-/
namespace PPLV.PolyOps
open PPLV.Lin

def conSem (nnc : Bool) (rows : List Row) : Set Val := sem (consOf nnc rows)
def genSem (nnc : Bool) (n : Nat) (rows : List Row) : Set Val := GenSem n (gensOf nnc rows)

/-- a generator row as `Generator::OK()` wants it (as far as the semantics needs) -/
def Row.genWF (nnc : Bool) (n : Nat) (r : Row) : Prop :=
  r.cf.length = n ∧ 0 ≤ r.b ∧ 0 ≤ r.eps ∧ (r.eq = true → r.b = 0) ∧ (r.b = 0 → r.eps = 0) ∧
    (nnc = false → r.eps = 0)

/-- the row is a point (`Generator::is_point()`) -/
def Row.isPoint (nnc : Bool) (r : Row) : Prop := r.eq = false ∧ 0 < r.b ∧ (nnc = true → 0 < r.eps)

structure Poly.WF (p : Poly) : Prop where
  cs_len : p.st.empty = false → p.st.cUp = true → ∀ r ∈ p.cs.rows, r.cf.length = p.dim
  gs_wf : p.st.empty = false → p.st.gUp = true → ∀ r ∈ p.gs.rows, r.genWF p.nnc p.dim
  gs_pt : p.st.empty = false → p.st.gUp = true → ∃ r ∈ p.gs.rows, r.isPoint p.nnc
  /-- flags only over held descriptions -/
  pend_c : p.st.cPend = true → p.st.cUp = true ∧ p.st.gUp = true
  pend_g : p.st.gPend = true → p.st.cUp = true ∧ p.st.gUp = true
  pend_one : ¬ (p.st.cPend = true ∧ p.st.gPend = true)
  /-- a non-empty polyhedron of positive dimension holds a description -/
  some_up : p.st.empty = false → 0 < p.dim → p.st.cUp = true ∨ p.st.gUp = true
  zero_dim : p.dim = 0 → p.st.cUp = false ∧ p.st.gUp = false

def Poly.Denotes (p : Poly) (S : Set Val) : Prop :=
  (p.st.empty = true → S = ∅) ∧
  (p.st.empty = false →
    (p.st.cUp = true → p.st.gPend = false → conSem p.nnc p.cs.rows = S) ∧
    (p.st.gUp = true → p.st.cPend = false → genSem p.nnc p.dim p.gs.rows = S) ∧
    (p.st.cUp = false → p.st.gUp = false → S = Set.univ))

/-! ## the generator toolkit (statements; proofs in `ProofsGenKit.lean`)

Each `Kit.*` is a closed proposition about K1's `GenSem`; the operator proofs take the ones they use
as hypotheses and `Props/C02Rows.lean` discharges them. -/
namespace Kit

/-- `GenSem` depends only on the SET of generators (order, duplicates irrelevant) -/
def memEquiv : Prop := ∀ (n : Nat) (A B : List Gen), gensWF n A = true → (∀ g, g ∈ A ↔ g ∈ B) →
  GenSem n A = GenSem n B

/-- strong normalisation of generator rows keeps the generated set -/
def strongNormalize : Prop := ∀ (nnc : Bool) (n : Nat) (rows : List Row),
  (∀ r ∈ rows, r.genWF nnc n) → genSem nnc n (rows.map Row.strongNormalize) = genSem nnc n rows

/-- plain normalisation (`expr.normalize()`) as well -/
def normalize : Prop := ∀ (nnc : Bool) (n : Nat) (rows : List Row),
  (∀ r ∈ rows, r.genWF nnc n) → genSem nnc n (rows.map Row.normalize) = genSem nnc n rows

/-- normalisation keeps well-formedness -/
def strongNormalizeWF : Prop := ∀ (nnc : Bool) (n : Nat) (r : Row),
  r.genWF nnc n → r.strongNormalize.genWF nnc n ∧ r.normalize.genWF nnc n ∧
    (r.isPoint nnc → r.strongNormalize.isPoint nnc ∧ r.normalize.isPoint nnc)

/-- the loop of `Generator_System::affine_image`: the image under `x_v := e(x)/den`, `den > 0` -/
def affineImage : Prop := ∀ (nnc : Bool) (n v : Nat) (e : LinExpr) (den : Int) (rows : List Row),
  (∀ r ∈ rows, r.genWF nnc n) → v < n → e.coeffs.length ≤ n → 0 < den →
  genSem nnc n (rows.map (genRowAffineImage v e den)) =
    {w | ∃ x ∈ genSem nnc n rows, (den : Rat) * w v = e.val x ∧ ∀ j < n, j ≠ v → w j = x j}

def affineImageWF : Prop := ∀ (nnc : Bool) (n v : Nat) (e : LinExpr) (den : Int) (r : Row),
  r.genWF nnc n → v < n → 0 < den →
    (genRowAffineImage v e den r).genWF nnc n ∧ (r.isPoint nnc → (genRowAffineImage v e den r).isPoint nnc)

/-- all-zero lines and rays contribute nothing -/
def removeInvalid : Prop := ∀ (nnc : Bool) (n : Nat) (rows : List Row),
  (∀ r ∈ rows, r.genWF nnc n) →
  genSem nnc n (rows.filter fun r => !(r.b == 0 && r.allHomZero)) = genSem nnc n rows

/-- adding the lines of the variables `vars`: cylindrification -/
def addLines : Prop := ∀ (nnc : Bool) (n : Nat) (rows : List Row) (vars : List Nat),
  (∀ r ∈ rows, r.genWF nnc n) → (∀ v ∈ vars, v < n) →
  genSem nnc n (rows ++ vars.map (unitEqRow n)) =
    {w | ∃ x ∈ genSem nnc n rows, ∀ j < n, j ∉ vars → w j = x j}

/-- a coordinate renaming / selection: new column `k` is old column `src[k]` (or `0`) -/
def selectCoords : Prop := ∀ (nnc : Bool) (n n' : Nat) (src : List (Option Nat)) (rows : List Row),
  (∀ r ∈ rows, r.genWF nnc n) → src.length = n' → (∀ k j, src.getD k none = some j → j < n) →
  genSem nnc n' (rows.map fun r =>
      { r with cf := src.map fun o => match o with | some j => r.cf.getD j 0 | none => 0 }) =
    {w | ∃ x ∈ genSem nnc n rows, ∀ k < n',
      w k = match src.getD k none with | some j => x j | none => 0}

/-- a well-formed generator system with a point generates a non-empty set -/
def nonempty : Prop := ∀ (nnc : Bool) (n : Nat) (rows : List Row),
  (∀ r ∈ rows, r.genWF nnc n) → (∃ r ∈ rows, r.isPoint nnc) → (genSem nnc n rows).Nonempty

end Kit

/-! ## the constraint toolkit (statements; proofs in `ProofsCon.lean`) -/
namespace KitC

def strongNormalize : Prop := ∀ (nnc : Bool) (rows : List Row),
  conSem nnc (rows.map Row.strongNormalize) = conSem nnc rows

def normalize : Prop := ∀ (nnc : Bool) (rows : List Row),
  conSem nnc (rows.map Row.normalize) = conSem nnc rows

/-- the loop of `Constraint_System::affine_preimage`: substitution `x_v := e(x)/den`, `den > 0` -/
def affinePreimage : Prop := ∀ (nnc : Bool) (n v : Nat) (e : LinExpr) (den : Int) (rows : List Row),
  (∀ r ∈ rows, r.cf.length = n) → v < n → e.coeffs.length = n → 0 < den →
  conSem nnc (rows.map (conRowAffinePreimage v e den)) =
    {w | (w.update v (e.val w / (den : Rat))) ∈ conSem nnc rows}

def wf : Prop := ∀ (nnc : Bool) (n : Nat) (rows : List Row),
  (∀ r ∈ rows, r.cf.length = n) → WF n (consOf nnc rows)

end KitC

/-- the reference polyhedron of a description -/
def refOfCons (nnc : Bool) (n : Nat) (rows : List Row) : RefPoly := ⟨nnc, n, consOf nnc rows⟩
def refOfGens (nnc : Bool) (n : Nat) (rows : List Row) : RefPoly := ⟨nnc, n, gensToCons n (gensOf nnc rows)⟩

end PPLV.PolyOps
