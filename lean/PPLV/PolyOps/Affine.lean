import PPLV.PolyOps.Rows

/-!
# C02 stage 2 — `affine_image` / `affine_preimage` at row level (code-shaped, no Mathlib)

`Generator_System::affine_image` (Generator_System.cc:743), `Constraint_System::affine_preimage`
(Constraint_System.cc:324), `Polyhedron::affine_image` (Polyhedron_public.cc:2780),
`Polyhedron::affine_preimage` (Polyhedron_public.cc:2868).  A result `none` means: this path calls
the Chernikova conversion (`minimize`, `process_pending_*`), which is not modelled here.
-/
namespace PPLV.PolyOps
open PPLV.Lin

/-- loop body of `Generator_System::affine_image` (Generator_System.cc:757-769):
    `numerator := expr · row` (the inhomogeneous term of `expr` meets the divisor of the row);
    `if (denominator != 1) row.expr *= denominator;  row.expr.set_coefficient(v, numerator)` -/
def genRowAffineImage (v : Nat) (e : LinExpr) (den : Int) (r : Row) : Row :=
  let numerator := e.k * r.b + idot e.coeffs r.cf
  let r1 := if den != 1 then r.scale den else r
  { r1 with cf := r1.cf.set v numerator }

/-- `Generator_System::remove_invalid_lines_and_rays` (Generator_System.cc:815); the rows removed
    among the non-pending ones lower `index_first_pending` (`remove_row`) -/
def removeInvalidLinesAndRays (s : Sys) : Sys :=
  let bad := fun (r : Row) => r.b == 0 && r.allHomZero
  { rows := s.rows.filter (fun r => !bad r),
    firstPending := s.firstPending - ((s.rows.take s.firstPending).filter bad).length,
    sorted := if s.rows.any bad then false else s.sorted }

/-- `Generator_System::affine_image(v, expr, denominator)`, `denominator > 0` -/
def gsAffineImage (v : Nat) (e : LinExpr) (den : Int) (s : Sys) : Sys :=
  let s1 : Sys := { s with rows := s.rows.map (genRowAffineImage v e den), sorted := false }
  let notInvertible := e.coeffs.getD v 0 == 0
  let s2 := if notInvertible then removeInvalidLinesAndRays s1 else s1
  -- `Linear_System::strong_normalize()` ends with `sorted = (nrows <= 1)` (Linear_System_templates.hh:478)
  { s2 with rows := s2.rows.map Row.strongNormalize, sorted := decide (s2.rows.length ≤ 1) }

/-- `a*xs + ys` on the columns of `ys` (`linear_combine(expr, 1, c, 0, sd+1)`): `xs` shorter or equal -/
def addMul (c : Int) : List Int → List Int → List Int
  | [], ys => ys
  | _, [] => []
  | x :: xs, y :: ys => (y + c * x) :: addMul c xs ys

/-- loop body of `Constraint_System::affine_preimage` (Constraint_System.cc:341-357) -/
def conRowAffinePreimage (v : Nat) (e : LinExpr) (den : Int) (r : Row) : Row :=
  let row_v := r.cf.getD v 0
  if row_v != 0 then
    let c := row_v
    let r1 := if den != 1 then r.scale den else r
    let r2 : Row := { r1 with b := r1.b + c * e.k, cf := addMul c e.coeffs r1.cf }
    let expr_v := e.coeffs.getD v 0
    let r3 : Row := { r2 with cf := r2.cf.set v (if expr_v == 0 then 0 else c * expr_v) }
    r3.strongNormalize
  else r

/-- `Constraint_System::affine_preimage(v, expr, denominator)`, `denominator > 0` -/
def csAffinePreimage (v : Nat) (e : LinExpr) (den : Int) (s : Sys) : Sys :=
  { s with rows := (s.rows.map (conRowAffinePreimage v e den)).map Row.strongNormalize,
           sorted := decide (s.rows.length ≤ 1) }

/-- the `inverse` of Polyhedron_public.cc:2820-2836 / 2909-2925 together with the positive third
    argument it is passed with: for `c = expr.coefficient(var) > 0` the pair `(-expr[var := den], c)`,
    otherwise `(expr[var := -den], -c)` -/
def inverseMap (n v : Nat) (e : LinExpr) (den : Int) : LinExpr × Int :=
  let c := e.coeffs.getD v 0
  if c > 0 then (exprSet n (exprNeg e) v den, c) else (exprSet n e v (-den), -c)

/-- `Polyhedron::affine_image(var, expr, denominator)` (after the argument checks) -/
def Poly.affine_image (p : Poly) (v : Nat) (e : LinExpr) (den : Int) : Option Poly :=
  if p.st.empty then some p
  else if e.coeffs.getD v 0 != 0 then
    -- invertible: everything that is up to date is transformed, pending rows included
    let p1 := if p.st.gUp then
        { p with gs := if den > 0 then gsAffineImage v e den p.gs
                       else gsAffineImage v (exprNeg e) (-den) p.gs }
      else p
    let p2 := if p1.st.cUp then
        let inv := inverseMap p.dim v e den
        { p1 with cs := csAffinePreimage v inv.1 inv.2 p1.cs }
      else p1
    some p2
  else
    -- not invertible: generators needed
    let q : Option Poly :=
      if p.st.somethingPending then
        -- remove_pending_to_obtain_generators (Polyhedron_nonpublic.cc:833)
        if p.st.gPend then
          some { p with gs := { p.gs.unsetPending with sorted := false },
                        st := ({ p.st with gPend := false, gMin := false }).clearCUp }
        else none
      else if !p.st.gUp then none else some p
    q.map fun p =>
      let gs' := if den > 0 then gsAffineImage v e den p.gs else gsAffineImage v (exprNeg e) (-den) p.gs
      { p with gs := gs',
               st := { p.st.clearCUp with gMin := false, satC := false, satG := false } }

/-- `Polyhedron::affine_preimage(var, expr, denominator)` -/
def Poly.affine_preimage (p : Poly) (v : Nat) (e : LinExpr) (den : Int) : Option Poly :=
  if p.st.empty then some p
  else if e.coeffs.getD v 0 != 0 then
    let p1 := if p.st.cUp then
        { p with cs := if den > 0 then csAffinePreimage v e den p.cs
                       else csAffinePreimage v (exprNeg e) (-den) p.cs }
      else p
    let p2 := if p1.st.gUp then
        let inv := inverseMap p.dim v e den
        { p1 with gs := gsAffineImage v inv.1 inv.2 p1.gs }
      else p1
    some p2
  else
    let q : Option Poly :=
      if p.st.somethingPending then
        -- remove_pending_to_obtain_constraints (Polyhedron_nonpublic.cc:809)
        if p.st.cPend then
          some { p with cs := { p.cs.unsetPending with sorted := false },
                        st := ({ p.st with cPend := false, cMin := false }).clearGUp }
        else none
      else if !p.st.cUp then none else some p
    q.map fun p =>
      let cs' := if den > 0 then csAffinePreimage v e den p.cs else csAffinePreimage v (exprNeg e) (-den) p.cs
      { p with cs := cs',
               st := { p.st.clearGUp with cMin := false, satC := false, satG := false } }

end PPLV.PolyOps
