import PPLV.PolyOps.Dims

/-!
# C02 stage 2 — `intersection_assign`, `poly_hull_assign`, `time_elapse_assign`,
`topological_closure_assign`, `unconstrain`, `fold_space_dimensions` at row level
(Polyhedron_public.cc, Polyhedron_chdims.cc)
-/
namespace PPLV.PolyOps
open PPLV.Lin

/-- "the constraints (possibly with pending rows) are required": `none` = conversion -/
def Poly.obtainConstraintsNoConv (p : Poly) : Option Poly :=
  if p.st.gPend then none else if !p.st.cUp then none else some p

/-- "the generators (possibly with pending rows) are required": `none` = conversion -/
def Poly.obtainGeneratorsPendingNoConv (p : Poly) : Option Poly :=
  if p.st.cPend then none else if !p.st.gUp then none else some p

/-- `Polyhedron::intersection_assign(y)` (Polyhedron_public.cc:2024) -/
def Poly.intersection_assign (x y : Poly) : Option Poly :=
  if x.st.empty then some x
  else if y.st.empty then some x.setEmpty
  else if x.dim == 0 then some x
  else
    match x.obtainConstraintsNoConv, y.obtainConstraintsNoConv with
    | some x, some y =>
      if x.st.canPend then
        some { x with cs := x.cs.insertPendingSys y.cs.rows, st := { x.st with cPend := true } }
      else
        let cs' := if x.cs.sorted && y.cs.sorted && !y.st.cPend then x.cs.mergeRowsAssign y.cs.rows
                   else x.cs.insertSys y.cs.rows
        some { x with cs := cs', st := ({ x.st with cMin := false }).clearGUp }
    | _, _ => none

/-- `Polyhedron::poly_hull_assign(y)` (Polyhedron_public.cc:2613) -/
def Poly.poly_hull_assign (x y : Poly) : Option Poly :=
  if y.st.empty then some x
  else if x.st.empty then some y
  else if x.dim == 0 then some x
  else
    match x.obtainGeneratorsPendingNoConv, y.obtainGeneratorsPendingNoConv with
    | some x, some y =>
      if x.st.canPend then
        some { x with gs := x.gs.insertPendingSys y.gs.rows, st := { x.st with gPend := true } }
      else
        let gs' := if x.gs.sorted && y.gs.sorted && !y.st.gPend then x.gs.mergeRowsAssign y.gs.rows
                   else x.gs.insertSys y.gs.rows
        some { x with gs := gs', st := ({ x.st with gMin := false }).clearCUp }
    | _, _ => none

/-- the loop of `time_elapse_assign` over a copy of `y.gen_sys` (Polyhedron_public.cc:3684-3737):
    NNC: points erased, closure points that are the origin erased, the others become rays
    (`set_inhomogeneous_term(0); normalize()`); C: the origin erased, points become rays.
    The erased rows are swapped to the end and cut off: the ORDER of the kept rows is not modelled. -/
def timeElapseRows (nnc : Bool) (rows : List Row) : List Row :=
  rows.filterMap fun g =>
    if g.eq || g.b == 0 then some g                      -- LINE, RAY
    else if nnc then
      if g.eps > 0 then none                             -- POINT
      else if g.allHomZero then none                     -- CLOSURE_POINT in the origin
      else some ({ g with b := 0 } : Row).normalize
    else
      if g.allHomZero then none
      else some ({ g with b := 0 } : Row).normalize

/-- `Polyhedron::time_elapse_assign(y)` (Polyhedron_public.cc:3648) -/
def Poly.time_elapse_assign (x y : Poly) : Option Poly :=
  if x.dim == 0 then some (if y.st.empty then x.setEmpty else x)
  else if x.st.empty || y.st.empty then some x.setEmpty
  else
    match x.obtainGeneratorsPendingNoConv, y.obtainGeneratorsPendingNoConv with
    | some x, some y =>
      let gs := timeElapseRows x.nnc y.gs.rows
      if gs.isEmpty then some x
      else if x.st.canPend then
        some { x with gs := x.gs.insertPendingSys gs, st := { x.st with gPend := true } }
      else
        -- sort_rows on both (duplicates removed), then merge_rows_assign
        some { x with gs := x.gs.mergeRowsAssign gs, st := ({ x.st with gMin := false }).clearCUp }
    | _, _ => none

/-- `Constraint::is_tautological()` for an inequality row -/
def Row.isTautological (r : Row) : Bool :=
  if r.cf.all (· == 0) then
    if r.eq then r.b == 0 && r.eps == 0
    else if r.eps == 0 then decide (0 ≤ r.b)
    else if r.eps < 0 then decide (0 < r.b)      -- strict: b > 0
    else decide (0 ≤ r.b)                         -- eps > 0: b ≥ 0
  else false

/-- `Generator_System::add_corresponding_points` (Generator_System.cc:111) -/
def addCorrespondingPoints (rows : List Row) : List Row :=
  rows ++ (rows.filter (fun g => !(g.b == 0) && g.eps == 0)).map fun g => { g with eps := g.b }

/-- `Polyhedron::topological_closure_assign()` (Polyhedron_public.cc:3862).  The emptiness test
    `is_empty()` is an input: `isEmpty` is its answer; it is only asked (and may only be answered
    without conversion) as the code does — `none` when a conversion would run. -/
def Poly.topological_closure_assign (p : Poly) : Option Poly :=
  if !p.nnc then some p
  else if p.st.empty || p.dim == 0 then some p
  else
    -- is_empty(): decided without conversion only when generators are up to date and no
    -- constraints are pending (Polyhedron_inlines.hh is_empty / Polyhedron_public.cc)
    if p.st.cPend || !p.st.gUp then none
    else if !p.st.gPend && p.st.cUp then
      let changed := p.cs.rows.any fun c => decide (c.eps < 0) && !c.isTautological
      let rows := p.cs.rows.map fun c =>
        if decide (c.eps < 0) && !c.isTautological then ({ c with eps := 0 } : Row).normalize else c
      if changed then
        some { p with cs := { rows := rows ++ [⟨false, 1, List.replicate p.dim 0, -1⟩],
                              firstPending := rows.length + 1, sorted := false },
                      st := ({ p.st with cMin := false }).clearGUp }
      else some p
    else
      let rows := addCorrespondingPoints p.gs.rows
      if p.st.canPend then
        some { p with gs := { p.gs with rows := rows }, st := { p.st with gPend := true } }
      else
        some { p with gs := { rows := rows, firstPending := rows.length, sorted := false },
                      st := ({ p.st with gMin := false }).clearCUp }

/-- `Generator::line(Variable(v))` adjusted to the topology and dimension of the system -/
def lineRow (n v : Nat) : Row := unitEqRow n v

/-- `Polyhedron::unconstrain(vars)` (Polyhedron_public.cc:1979; the single-variable version
    :1948 is the case of one variable); `vars` ascending -/
def Poly.unconstrain (p : Poly) (vars : List Nat) : Option Poly :=
  if vars.isEmpty then some p
  else if p.st.empty then some p
  else if p.st.cPend then none
  else if !p.st.gUp then none
  else
    let lines := vars.map (lineRow p.dim)
    if p.st.canPend then
      some { p with gs := p.gs.insertPendingSys lines, st := { p.st with gPend := true } }
    else
      some { p with gs := p.gs.insertSys lines, st := ({ p.st with gMin := false }).clearCUp }

/-- `Polyhedron::fold_space_dimensions(vars, dest)` (Polyhedron_chdims.cc:455): for each `i` in
    `vars` a copy gets `affine_image(dest, Variable(i))` and is joined in; then the variables are
    removed.  `(void) generators()` must not convert. -/
def Poly.fold_space_dimensions (p : Poly) (vars : List Nat) (dest : Nat) : Option Poly :=
  if vars.isEmpty then some p
  else
    let start : Option Poly :=
      if p.st.empty then some p
      else if p.st.cPend || !p.st.gUp then none
      else some p
    let step (acc : Option Poly) (i : Nat) : Option Poly :=
      acc.bind fun x =>
        if x.st.empty then some x
        else (x.affine_image dest ⟨List.replicate i 0 ++ [1], 0⟩ 1).bind fun copy => x.poly_hull_assign copy
    (vars.foldl step start).bind fun x => x.remove_space_dimensions vars

end PPLV.PolyOps
