import PPLV.PolyOps.ProofsLattice7

/-!
# C02 stage 2 — lattice operators at row level: well-formedness of the results

`intersection_assign_rows_wf`, `time_elapse_assign_rows_wf`, `topological_closure_assign_rows_wf`
(`unconstrain_rows_wf` and `poly_hull_assign_rows_wf` are in ProofsLattice2/3).  `Poly.WF` does not
record the invariants of `Polyhedron::OK()` about pending rows (a pair that can have pending rows
has both descriptions up to date; pending rows only occur on such a pair): where the result sets a
pending flag or keeps one they are explicit hypotheses.
-/
namespace PPLV.PolyOps
open PPLV.Lin

theorem wf_setEmpty (x : Poly) (_hx : x.WF) : x.setEmpty.WF :=
  ⟨fun h => (by cases h), fun h => (by cases h), fun h => (by cases h), fun h => (by cases h),
    fun h => (by cases h), fun h => (by cases h.1), fun h => (by cases h), fun _ => ⟨rfl, rfl⟩⟩

/-! ### `intersection_assign` -/

theorem intersection_assign_forms (x y q : Poly) (hex : x.st.empty = false) (hey : y.st.empty = false)
    (hd : x.dim ≠ 0) (h : x.intersection_assign y = some q) :
    (x.st.canPend = true ∧ q = { x with cs := x.cs.insertPendingSys y.cs.rows,
                                        st := { x.st with cPend := true } }) ∨
    (x.st.canPend = false ∧ ∃ cs' : Sys, (∀ r, r ∈ cs'.rows ↔ r ∈ x.cs.rows ++ y.cs.rows) ∧
      q = { x with cs := cs', st := ({ x.st with cMin := false }).clearGUp }) := by
  unfold Poly.intersection_assign at h
  have hd' : ¬ ((x.dim == 0) = true) := by simpa using hd
  rw [hex, hey] at h
  simp only [Bool.false_eq_true, if_false, hd'] at h
  cases hox : x.obtainConstraintsNoConv with
  | none => rw [hox] at h; simp at h
  | some x' =>
    cases hoy : y.obtainConstraintsNoConv with
    | none => rw [hox, hoy] at h; simp at h
    | some y' =>
      obtain ⟨rfl, _, _⟩ := obtainC_some x x' hox
      obtain ⟨rfl, _, _⟩ := obtainC_some y y' hoy
      rw [hox, hoy] at h
      simp only at h
      by_cases hcp : x'.st.canPend = true
      · rw [if_pos hcp] at h
        exact Or.inl ⟨hcp, (Option.some.inj h).symm⟩
      · rw [if_neg hcp] at h
        refine Or.inr ⟨by simpa using hcp, _, fun r => ?_, (Option.some.inj h).symm⟩
        show r ∈ (if (x'.cs.sorted && y'.cs.sorted && !y'.st.cPend) = true then
          x'.cs.mergeRowsAssign y'.cs.rows else x'.cs.insertSys y'.cs.rows).rows ↔ _
        split
        · exact mem_mergeRows _ _ r
        · exact Iff.rfl

theorem intersection_assign_rows_wf (x y q : Poly) (hdim : y.dim = x.dim) (hx : x.WF) (hy : y.WF)
    (hcanG : x.st.canPend = true → x.st.gUp = true)
    (hpendC : x.st.cPend = true → x.st.canPend = true)
    (h : x.intersection_assign y = some q) : q.WF := by
  cases hex : x.st.empty
  · cases hey : y.st.empty
    · by_cases hd : x.dim = 0
      · have hq : q = x := by
          unfold Poly.intersection_assign at h
          rw [hex, hey] at h
          simp only [Bool.false_eq_true, if_false, hd, beq_self_eq_true, if_true] at h
          exact (Option.some.inj h).symm
        rw [hq]; exact hx
      · obtain ⟨hxg, hxc, hyg, hyc, _⟩ := intersection_assign_main x y q hex hey hd h
        have hlen : ∀ r ∈ x.cs.rows ++ y.cs.rows, r.cf.length = x.dim := by
          intro r hr
          rcases List.mem_append.mp hr with hr | hr
          · exact hx.cs_len hex hxc r hr
          · rw [← hdim]; exact hy.cs_len hey hyc r hr
        rcases intersection_assign_forms x y q hex hey hd h with ⟨hc, rfl⟩ | ⟨hc, cs', hrows, rfl⟩
        · exact ⟨fun _ _ => hlen, hx.gs_wf, hx.gs_pt, fun _ => ⟨hxc, hcanG hc⟩,
            fun hh => (by rw [show x.st.gPend = true from hh] at hxg; cases hxg),
            fun hh => (by rw [show x.st.gPend = true from hh.2] at hxg; cases hxg),
            fun _ _ => Or.inl hxc, hx.zero_dim⟩
        · refine ⟨fun _ _ r hr => hlen r ((hrows r).mp hr), fun _ hh => ?_, fun _ hh => ?_,
            fun hh => ?_, fun hh => ?_, fun hh => ?_, fun _ _ => Or.inl ?_, fun hh => absurd hh hd⟩
          · simp [Status.clearGUp] at hh
          · simp [Status.clearGUp] at hh
          · have : x.st.cPend = true := by simpa [Status.clearGUp] using hh
            rw [hpendC this] at hc; cases hc
          · simp [Status.clearGUp] at hh
          · simp [Status.clearGUp] at hh
          · simp [Status.clearGUp, hxc]
    · have hq : q = x.setEmpty := by
        unfold Poly.intersection_assign at h
        rw [hex, hey] at h
        simp only [Bool.false_eq_true, if_false, if_true] at h
        exact (Option.some.inj h).symm
      rw [hq]; exact wf_setEmpty x hx
  · have hq : q = x := by
      unfold Poly.intersection_assign at h
      rw [hex] at h
      simp only [if_true] at h
      exact (Option.some.inj h).symm
    rw [hq]; exact hx

/-! ### `time_elapse_assign` -/

theorem time_elapse_assign_rows_wf (x y q : Poly) (hdim : y.dim = x.dim) (hnnc : y.nnc = x.nnc)
    (hx : x.WF) (hy : y.WF)
    (hcan : x.st.canPend = true → x.st.cUp = true) (hpend : x.st.gPend = true → x.st.canPend = true)
    (h : x.time_elapse_assign y = some q) : q.WF := by
  by_cases hd : x.dim = 0
  · unfold Poly.time_elapse_assign at h
    rw [if_pos (by simp [hd])] at h
    rw [← Option.some.inj h]
    split
    · exact wf_setEmpty x hx
    · exact hx
  · cases hex : x.st.empty
    · cases hey : y.st.empty
      · obtain ⟨hxc, hxg, _, hyg, hq⟩ := time_elapse_assign_main x y q hex hey hd h
        rcases hq with ⟨_, hqx⟩ | ⟨gs', hrows, hq⟩
        · rw [hqx]; exact hx
        · have hwfx := hx.gs_wf hex hxg
          have hwfy := hy.gs_wf hey hyg
          rw [hnnc, hdim] at hwfy
          have hwfT := timeElapseRows_genWF x.nnc x.dim _ hwfy
          have hwf' : ∀ r ∈ gs'.rows, r.genWF x.nnc x.dim := by
            intro r hr
            rcases List.mem_append.mp ((hrows r).mp hr) with hr | hr
            · exact hwfx r hr
            · exact hwfT r hr
          have hpt' : ∃ r ∈ gs'.rows, r.isPoint x.nnc := by
            obtain ⟨r, hr, hp⟩ := hx.gs_pt hex hxg
            exact ⟨r, (hrows r).mpr (List.mem_append_left _ hr), hp⟩
          rcases hq with ⟨hc, rfl⟩ | ⟨hc, rfl⟩
          · exact wf_pendForm x _ hx hex hxg hxc (hcan hc) hwf' hpt'
          · have hgp : x.st.gPend = false := by
              cases hg : x.st.gPend
              · rfl
              · rw [hpend hg] at hc; cases hc
            exact wf_dropForm x _ hx hxg hgp hwf' hpt'
      · unfold Poly.time_elapse_assign at h
        rw [if_neg (by simp [hd]), if_pos (by simp [hey])] at h
        rw [← Option.some.inj h]; exact wf_setEmpty x hx
    · unfold Poly.time_elapse_assign at h
      rw [if_neg (by simp [hd]), if_pos (by simp [hex])] at h
      rw [← Option.some.inj h]; exact wf_setEmpty x hx

/-! ### `topological_closure_assign` -/

theorem closeRow_cf_length (r : Row) : (closeRow r).cf.length = r.cf.length := by
  unfold closeRow
  split
  · exact normalize_cf_length _
  · rfl

theorem topological_closure_assign_rows_wf (p q : Poly) (hp : p.WF)
    (hcan : p.st.canPend = true → p.st.cUp = true) (hpend : p.st.gPend = true → p.st.canPend = true)
    (h : p.topological_closure_assign = some q) : q.WF := by
  by_cases htriv : p.nnc = false ∨ p.st.empty = true ∨ p.dim = 0
  · have hq : q = p := by
      unfold Poly.topological_closure_assign at h
      by_cases hnn : (!p.nnc) = true
      · rw [if_pos hnn] at h; exact (Option.some.inj h).symm
      · rw [if_neg hnn] at h
        have : (p.st.empty || p.dim == 0) = true := by
          rcases htriv with h1 | h1 | h1
          · simp [h1] at hnn
          · simp [h1]
          · simp [h1]
        rw [if_pos this] at h; exact (Option.some.inj h).symm
    rw [hq]; exact hp
  · have hnn : p.nnc = true := by
      cases hh : p.nnc
      · exact absurd (Or.inl hh) htriv
      · rfl
    have he : p.st.empty = false := by
      cases hh : p.st.empty
      · rfl
      · exact absurd (Or.inr (Or.inl hh)) htriv
    have hd : p.dim ≠ 0 := fun hh => htriv (Or.inr (Or.inr hh))
    obtain ⟨hcp, hgu, hq⟩ := topological_closure_assign_main p q hnn he hd h
    rcases hq with ⟨hgp, hcu, hq⟩ | ⟨_, gs', hrows, hq⟩
    · rcases hq with ⟨_, rfl⟩ | ⟨cs', hcs', rfl⟩
      · exact hp
      · refine ⟨fun _ _ r hr => ?_, fun _ hh => ?_, fun _ hh => ?_,
          fun hh => ?_, fun hh => ?_, fun hh => ?_, fun _ _ => Or.inl ?_, fun hh => absurd hh hd⟩
        · rw [hcs'] at hr
          rcases List.mem_append.mp hr with hr | hr
          · obtain ⟨r0, hr0, rfl⟩ := List.mem_map.mp hr
            rw [closeRow_cf_length]; exact hp.cs_len he hcu r0 hr0
          · rw [List.mem_singleton.mp hr]; simp
        · simp [Status.clearGUp] at hh
        · simp [Status.clearGUp] at hh
        · have : p.st.cPend = true := by simpa [Status.clearGUp] using hh
          rw [hcp] at this; cases this
        · simp [Status.clearGUp] at hh
        · simp [Status.clearGUp] at hh
        · simp [Status.clearGUp, hcu]
    · have hwfg := hp.gs_wf he hgu
      have hptg := hp.gs_pt he hgu
      have hwf' : ∀ r ∈ gs'.rows, r.genWF p.nnc p.dim := by
        rw [hrows, addCorrespondingPoints_eq]
        intro r hr
        rcases List.mem_append.mp hr with hr | hr
        · exact hwfg r hr
        · rw [hnn] at hwfg ⊢
          exact (corrPoints_facts p.dim p.gs.rows hwfg r hr).1
      have hpt' : ∃ r ∈ gs'.rows, r.isPoint p.nnc := by
        obtain ⟨r, hr, hpr⟩ := hptg
        exact ⟨r, by rw [hrows, addCorrespondingPoints_eq]; exact List.mem_append_left _ hr, hpr⟩
      rcases hq with ⟨hc, rfl⟩ | ⟨hc, rfl⟩
      · exact wf_pendForm p _ hp he hgu hcp (hcan hc) hwf' hpt'
      · have hgp : p.st.gPend = false := by
          cases hg : p.st.gPend
          · rfl
          · rw [hpend hg] at hc; cases hc
        exact wf_dropForm p _ hp hgu hgp hwf' hpt'

end PPLV.PolyOps
