import PPLV.PolyOps.ProofsDims2

/-!
# C02 stage 2 — `concatenate_assign` at row level
-/
namespace PPLV.PolyOps
open PPLV.Lin

set_option linter.unusedSimpArgs false
set_option linter.unusedVariables false

/-- the concatenation of `Sx ⊆ ℚ^n` and `Sy` (`concat_spec`) -/
def concSet (n : Nat) (Sx Sy : Set Val) : Set Val := {w | w ∈ Sx ∧ (fun j => w (j + n)) ∈ Sy}

theorem sem_concat (refx refy : RefPoly) :
    sem (refx.concat refy).cs = concSet refx.n (sem refx.cs) (sem refy.cs) := by
  ext w
  exact concat_spec refx refy w

theorem concSet_empty_left (n : Nat) (Sy : Set Val) : concSet n ∅ Sy = ∅ := by
  ext w; simp [concSet]

theorem concSet_empty_right (n : Nat) (Sx : Set Val) : concSet n Sx ∅ = ∅ := by
  ext w; simp [concSet]

theorem concSet_univ_right (n : Nat) (Sx : Set Val) : concSet n Sx Set.univ = Sx := by
  ext w; simp [concSet]

theorem concSet_univ_left (Sy : Set Val) : concSet 0 Set.univ Sy = Sy := by
  ext w
  simp only [concSet, Set.mem_ofPred_eq, Set.mem_univ, true_and, Nat.add_zero]

theorem ev_shiftInto (n : Nat) (r : Row) (w : Val) :
    (r.shiftInto n).ev w = r.ev (fun j => w (j + n)) := by
  unfold Row.ev Row.shiftInto
  simp only
  rw [dot_replicate_zero_append]

theorem holds_shiftInto (nnc : Bool) (n : Nat) (r : Row) (w : Val) :
    (r.shiftInto n).Holds nnc w ↔ r.Holds nnc (fun j => w (j + n)) :=
  holds_of_ev nnc r (r.shiftInto n) (fun j => w (j + n)) w 1 (by norm_num) rfl Iff.rfl
    (by rw [ev_shiftInto]; ring)

theorem conSem_concat (nnc : Bool) (n m : Nat) (rx ry : List Row) :
    conSem nnc (rx.map (Row.addZeroCols m) ++ ry.map (Row.shiftInto n)) =
      concSet n (conSem nnc rx) (conSem nnc ry) := by
  ext w
  simp only [concSet, Set.mem_ofPred_eq]
  rw [← conSem_addZeroCols nnc m rx]
  simp only [mem_conSem, List.mem_append]
  constructor
  · intro h
    refine ⟨fun r hr => h r (Or.inl hr), fun r hr => ?_⟩
    exact (holds_shiftInto nnc n r w).mp (h _ (Or.inr (List.mem_map.mpr ⟨r, hr, rfl⟩)))
  · rintro ⟨h1, h2⟩ r (hr | hr)
    · exact h1 r hr
    · obtain ⟨r0, hr0, rfl⟩ := List.mem_map.mp hr
      exact (holds_shiftInto nnc n r0 w).mpr (h2 r0 hr0)

/-- **`Polyhedron::concatenate_assign` at row level.**  `refx`, `refy`: references of `*this` and of
    the argument; `hnncxy`: the two polyhedra have the same topology (checked by the C++). -/
theorem concatenate_assign_rows_correct (p y q : Poly) (refx refy : RefPoly)
    (hnx : refx.n = p.dim) (_hny : refy.n = y.dim)
    (_hnncx : refx.nnc = p.nnc) (_hnncy : refy.nnc = y.nnc)
    (_hwfx : WF refx.n refx.cs) (_hwfy : WF refy.n refy.cs)
    (hp : p.WF) (hy : y.WF) (hnncxy : y.nnc = p.nnc)
    (hDx : p.Denotes (sem refx.cs)) (hDy : y.Denotes (sem refy.cs))
    (h : p.concatenate_assign y = some q) :
    q.Denotes (sem (refx.concat refy).cs) := by
  rw [sem_concat, hnx]
  unfold Poly.concatenate_assign at h
  cases hemx : p.st.empty
  · cases hemy : y.st.empty
    · simp only [hemx, hemy, Bool.or_self, Bool.false_eq_true, if_false] at h
      by_cases hdy : y.dim = 0
      · -- `y` is the zero-dimensional universe
        have hdy0 : (y.dim == 0) = true := by simpa using hdy
        rw [hdy0, if_pos rfl] at h
        have hq := (Option.some.inj h).symm
        obtain ⟨hc0, hg0⟩ := hy.zero_dim hdy
        rw [hq, (hDy.2 hemy).2.2 hc0 hg0, concSet_univ_right]
        exact hDx
      have hdy0 : (y.dim == 0) = false := by simpa using hdy
      rw [hdy0] at h
      simp only [Bool.false_eq_true, if_false] at h
      by_cases hdx : p.dim = 0
      · have hdx0 : (p.dim == 0) = true := by simpa using hdx
        rw [hdx0, if_pos rfl] at h
        have hq := (Option.some.inj h).symm
        obtain ⟨hc0, hg0⟩ := hp.zero_dim hdx
        rw [hq, (hDx.2 hemx).2.2 hc0 hg0, hdx, concSet_univ_left]
        exact hDy
      have hdx0 : (p.dim == 0) = false := by simpa using hdx
      rw [hdx0] at h
      simp only [Bool.false_eq_true, if_false] at h
      cases hycu : y.st.cUp
      · simp [hycu] at h
      cases hygp : y.st.gPend
      swap
      · simp [hygp] at h
      cases hxcu : p.st.cUp
      · simp [hycu, hygp, hxcu] at h
      cases hxgp : p.st.gPend
      swap
      · simp [hycu, hygp, hxgp] at h
      simp only [hycu, hygp, hxcu, hxgp, Bool.not_true, Bool.or_self, Bool.false_eq_true,
        if_false] at h
      have hset : conSem p.nnc (p.cs.rows.map (Row.addZeroCols y.dim) ++
          y.cs.rows.map (Row.shiftInto p.dim)) = concSet p.dim (sem refx.cs) (sem refy.cs) := by
        rw [conSem_concat, (hDx.2 hemx).1 hxcu hxgp, ← hnncxy, (hDy.2 hemy).1 hycu hygp]
      cases hcan : p.st.canPend
      · rw [hcan] at h
        simp only [Bool.false_eq_true, if_false] at h
        have hq := (Option.some.inj h).symm
        rw [hq]
        refine ⟨fun h => (by simp [Status.clearGUp, hemx] at h), fun _ =>
          ⟨fun _ _ => hset, fun h => (by simp [Status.clearGUp] at h),
           fun h => (by simp [Status.clearGUp, hxcu] at h)⟩⟩
      · rw [hcan] at h
        simp only [if_true] at h
        have hq := (Option.some.inj h).symm
        rw [hq]
        refine ⟨fun h => (by simp [hemx] at h), fun _ =>
          ⟨fun _ _ => hset, fun _ h => (by simp at h), fun h => (by simp [hxcu] at h)⟩⟩
    · simp only [hemx, hemy, Bool.or_true, if_true] at h
      have hq := (Option.some.inj h).symm
      rw [hq, hDy.1 hemy, concSet_empty_right]
      exact ⟨fun _ => rfl, fun h => (by simp [Poly.setEmpty, Status.setEmpty] at h)⟩
  · simp only [hemx, Bool.true_or, if_true] at h
    have hq := (Option.some.inj h).symm
    rw [hq, hDx.1 hemx, concSet_empty_left]
    exact ⟨fun _ => rfl, fun h => (by simp [Poly.setEmpty, Status.setEmpty] at h)⟩

end PPLV.PolyOps
