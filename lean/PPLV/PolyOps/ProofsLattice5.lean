import PPLV.PolyOps.ProofsLattice4

/-!
# C02 stage 2 — lattice operators at row level, part 5: `time_elapse_assign`

* `time_elapse_assign_rows_correct`: closed topology, full strength — for arbitrary well-formed
  generator lists `gx`, `gy` (with points) of the two arguments the result denotes the set generated
  by `timeElapseGens gx gy` (characterised by `C02.time_elapse_spec`).
* `time_elapse_assign_rows_correct_nnc_partial`: any topology, under the invariant `NNCInv` of `y`'s
  generator rows (every point has its closure point among the rows) — `Poly.WF` does not record it.
* `time_elapse_assign_rows_empty`: either side marked empty ⇒ the result denotes `∅`.
-/
namespace PPLV.PolyOps
open PPLV.Lin

/-- the shape of the result in the main branch -/
theorem time_elapse_assign_main (x y q : Poly) (hex : x.st.empty = false) (hey : y.st.empty = false)
    (hd : x.dim ≠ 0) (h : x.time_elapse_assign y = some q) :
    x.st.cPend = false ∧ x.st.gUp = true ∧ y.st.cPend = false ∧ y.st.gUp = true ∧
    ((timeElapseRows x.nnc y.gs.rows = [] ∧ q = x) ∨
     ∃ gs' : Sys, (∀ r, r ∈ gs'.rows ↔ r ∈ x.gs.rows ++ timeElapseRows x.nnc y.gs.rows) ∧
      ((x.st.canPend = true ∧ q = pendForm x gs') ∨ (x.st.canPend = false ∧ q = dropForm x gs'))) := by
  unfold Poly.time_elapse_assign at h
  have hd' : ¬ ((x.dim == 0) = true) := by simpa using hd
  rw [if_neg hd', if_neg (by simp [hex, hey])] at h
  cases hox : x.obtainGeneratorsPendingNoConv with
  | none => rw [hox] at h; simp at h
  | some x' =>
    cases hoy : y.obtainGeneratorsPendingNoConv with
    | none => rw [hox, hoy] at h; simp at h
    | some y' =>
      obtain ⟨rfl, hxg, hxc⟩ := obtainG_some x x' hox
      obtain ⟨rfl, hyg, hyc⟩ := obtainG_some y y' hoy
      rw [hox, hoy] at h
      dsimp only at h
      refine ⟨hxg, hxc, hyg, hyc, ?_⟩
      by_cases hem : (timeElapseRows x'.nnc y'.gs.rows).isEmpty = true
      · rw [if_pos hem] at h
        exact Or.inl ⟨List.isEmpty_iff.mp hem, (Option.some.inj h).symm⟩
      · rw [if_neg hem] at h
        right
        by_cases hcp : x'.st.canPend = true
        · rw [if_pos hcp] at h
          exact ⟨_, fun _ => Iff.rfl, Or.inl ⟨hcp, (Option.some.inj h).symm⟩⟩
        · rw [if_neg hcp] at h
          exact ⟨_, fun r => mem_mergeRows _ _ r, Or.inr ⟨by simpa using hcp, (Option.some.inj h).symm⟩⟩

/-- the rows of `x` followed by the rows derived from `y` generate the reference set -/
theorem te_rows_genSem (x y : Poly) (n : Nat) (gx gy : List Gen) (gs' : List Row)
    (hxn : x.dim = n) (hyn : y.dim = n) (hnnc : y.nnc = x.nnc) (hx : x.WF) (hy : y.WF)
    (hwx : gensWF n gx = true) (hwy : gensWF n gy = true)
    (hex : x.st.empty = false) (hey : y.st.empty = false)
    (hxc : x.st.cPend = false) (hxg : x.st.gUp = true) (hyc : y.st.cPend = false)
    (hyg : y.st.gUp = true) (hinv : x.nnc = true → NNCInv y.gs.rows)
    (hDx : x.Denotes (GenSem n gx)) (hDy : y.Denotes (GenSem n gy))
    (hrows : ∀ r, r ∈ gs' ↔ r ∈ x.gs.rows ++ timeElapseRows x.nnc y.gs.rows) :
    genSem x.nnc x.dim gs' = GenSem n (timeElapseGens gx gy) ∧ (∀ r ∈ gs', r.genWF x.nnc x.dim) ∧
      ∃ r ∈ gs', r.isPoint x.nnc := by
  obtain ⟨hgx, hnx⟩ := denotes_gen_nonempty x _ hx hex hxg hxc hDx
  obtain ⟨hgy, hny⟩ := denotes_gen_nonempty y _ hy hey hyg hyc hDy
  have hwfx := hx.gs_wf hex hxg
  have hwfy := hy.gs_wf hey hyg
  rw [hnnc, hyn, ← hxn] at hwfy
  rw [hnnc, hyn] at hgy
  rw [hxn] at hgx
  have hwfT := timeElapseRows_genWF x.nnc x.dim _ hwfy
  have hwfxT : ∀ r ∈ x.gs.rows ++ timeElapseRows x.nnc y.gs.rows, r.genWF x.nnc x.dim := by
    intro r hr
    rcases List.mem_append.mp hr with hr | hr
    · exact hwfx r hr
    · exact hwfT r hr
  have hwf' : ∀ r ∈ gs', r.genWF x.nnc x.dim := fun r hr => hwfxT r ((hrows r).mp hr)
  refine ⟨?_, hwf', ?_⟩
  · rw [genSem_congr_mem x.nnc x.dim gs' _ hwf' hrows]
    unfold genSem
    rw [gensOf_append, hxn]
    rw [hxn] at hwfx hwfy hwfT
    have hptx := (gensOf_pt x.nnc n _ hwfx).mpr (hx.gs_pt hex hxg)
    have hpty := (gensOf_pt x.nnc n _ hwfy).mpr (by
      obtain ⟨r, hr, hp⟩ := hy.gs_pt hey hyg
      exact ⟨r, hr, by rw [← hnnc]; exact hp⟩)
    have hGx := gensWF_gensOf x.nnc n _ hwfx
    have hGy := gensWF_gensOf x.nnc n _ hwfy
    have hGT := gensWF_gensOf x.nnc n _ hwfT
    have step1 : GenSem n (gensOf x.nnc x.gs.rows ++ gensOf x.nnc (timeElapseRows x.nnc y.gs.rows)) =
        GenSem n (timeElapseGens (gensOf x.nnc x.gs.rows) (gensOf x.nnc y.gs.rows)) := by
      apply genSem_congr_admits n _ _ (gensWF_append n _ _ hGx hGT) (gensWF_timeElapse n _ _ hGx hGy)
      · obtain ⟨g, hg, hp⟩ := hptx
        rw [timeElapseGens_eq]
        exact ⟨fun _ => ⟨g, List.mem_append_left _ hg, hp⟩, fun _ => ⟨g, List.mem_append_left _ hg, hp⟩⟩
      · intro c _
        rw [timeElapseGens_eq]
        have := teRows_admits x.nnc n y.gs.rows hwfy hinv c
        simp only [List.mem_append]
        constructor
        · intro h g hg
          rcases hg with hg | hg
          · exact h g (Or.inl hg)
          · exact this.mp (fun g' hg' => h g' (Or.inr hg')) g hg
        · intro h g hg
          rcases hg with hg | hg
          · exact h g (Or.inl hg)
          · exact this.mpr (fun g' hg' => h g' (Or.inr hg')) g hg
    rw [step1]
    exact GenSem_timeElapse_congr n _ _ gx gy hGx hGy hwx hwy hptx hpty
      (pt_of_nonempty n gx hnx) (pt_of_nonempty n gy hny) hgx hgy
  · obtain ⟨r, hr, hp⟩ := hx.gs_pt hex hxg
    exact ⟨r, (hrows r).mpr (List.mem_append_left _ hr), hp⟩

/-- general form: any topology, the NNC invariant of `y`'s rows as a hypothesis -/
theorem time_elapse_assign_rows_correct_nnc_partial (x y q : Poly) (n : Nat) (gx gy : List Gen)
    (hxn : x.dim = n) (hyn : y.dim = n) (hnnc : y.nnc = x.nnc) (hx : x.WF) (hy : y.WF)
    (hwx : gensWF n gx = true) (hwy : gensWF n gy = true)
    (hpx : ∃ g ∈ gx, g.isPt = true) (hpy : ∃ g ∈ gy, g.isPt = true)
    -- what `Poly.WF` does not record: every point of `y` has its closure point among the rows
    (hinv : x.nnc = true → NNCInv y.gs.rows)
    (hDx : x.Denotes (GenSem n gx)) (hDy : y.Denotes (GenSem n gy))
    (h : x.time_elapse_assign y = some q) :
    q.Denotes (GenSem n (timeElapseGens gx gy)) := by
  have hex : x.st.empty = false := by
    cases he : x.st.empty
    · rfl
    · have := nonempty_of_pt n gx hpx
      rw [hDx.1 he] at this
      exact absurd this Set.not_nonempty_empty
  have hey : y.st.empty = false := by
    cases he : y.st.empty
    · rfl
    · have := nonempty_of_pt n gy hpy
      rw [hDy.1 he] at this
      exact absurd this Set.not_nonempty_empty
  by_cases hd : x.dim = 0
  · have hq : q = x := by
      unfold Poly.time_elapse_assign at h
      rw [if_pos (by simp [hd])] at h
      simp only [hey, Bool.false_eq_true, if_false] at h
      exact (Option.some.inj h).symm
    subst hq
    have hn0 : n = 0 := by rw [← hxn]; exact hd
    subst hn0
    have hux := (hDx.2 hex).2.2 (hx.zero_dim hd).1 (hx.zero_dim hd).2
    have : GenSem 0 (timeElapseGens gx gy) = GenSem 0 gx := by
      rw [hux, timeElapseGens_eq]
      obtain ⟨g, hg, hp⟩ := hpx
      exact GenSem_zero_univ _ ⟨g, List.mem_append_left _ hg, hp⟩
    rw [this]; exact hDx
  · obtain ⟨hxc, hxg, hyc, hyg, hq⟩ := time_elapse_assign_main x y q hex hey hd h
    rcases hq with ⟨hnil, hqx⟩ | ⟨gs', hrows, hq⟩
    · -- nothing to add: the polyhedron is unchanged
      rw [hqx]
      obtain ⟨hgen, _, _⟩ := te_rows_genSem x y n gx gy x.gs.rows hxn hyn hnnc hx hy hwx hwy hex hey
        hxc hxg hyc hyg hinv hDx hDy (fun r => by rw [hnil, List.append_nil])
      rw [← hgen, (denotes_gen_nonempty x _ hx hex hxg hxc hDx).1]
      exact hDx
    · obtain ⟨hgen, _, _⟩ := te_rows_genSem x y n gx gy gs'.rows hxn hyn hnnc hx hy hwx hwy hex hey
        hxc hxg hyc hyg hinv hDx hDy hrows
      rcases hq with ⟨_, rfl⟩ | ⟨_, rfl⟩
      · exact denotes_pendForm x _ _ hex hxg hgen
      · exact denotes_dropForm x _ _ hex hxg hgen

/-- **`Polyhedron::time_elapse_assign` at row level, closed topology: the reference time-elapse.** -/
theorem time_elapse_assign_rows_correct (x y q : Poly) (n : Nat) (gx gy : List Gen)
    (hxn : x.dim = n) (hyn : y.dim = n) (hnnc : y.nnc = x.nnc) (hclosed : x.nnc = false)
    (hx : x.WF) (hy : y.WF)
    (hwx : gensWF n gx = true) (hwy : gensWF n gy = true)
    (hpx : ∃ g ∈ gx, g.isPt = true) (hpy : ∃ g ∈ gy, g.isPt = true)
    (hDx : x.Denotes (GenSem n gx)) (hDy : y.Denotes (GenSem n gy))
    (h : x.time_elapse_assign y = some q) :
    q.Denotes (GenSem n (timeElapseGens gx gy)) :=
  time_elapse_assign_rows_correct_nnc_partial x y q n gx gy hxn hyn hnnc hx hy hwx hwy hpx hpy
    (fun hn => by rw [hclosed] at hn; cases hn) hDx hDy h

/-- either argument marked empty: the result denotes the empty set -/
theorem time_elapse_assign_rows_empty (x y q : Poly)
    (he : x.st.empty = true ∨ y.st.empty = true) (h : x.time_elapse_assign y = some q) :
    q.Denotes ∅ := by
  unfold Poly.time_elapse_assign at h
  by_cases hd : (x.dim == 0) = true
  · rw [if_pos hd] at h
    have hq := (Option.some.inj h).symm
    subst hq
    cases hey : y.st.empty
    · rcases he with he | he
      · simp only [Bool.false_eq_true, if_false]
        exact denotes_of_empty _ _ he rfl
      · rw [hey] at he; cases he
    · simp only [if_true]
      exact denotes_setEmpty _ _ rfl
  · rw [if_neg hd, if_pos (by rcases he with he | he <;> simp [he])] at h
    have hq := (Option.some.inj h).symm
    subst hq
    exact denotes_setEmpty _ _ rfl

end PPLV.PolyOps
