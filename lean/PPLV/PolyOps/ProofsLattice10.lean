import PPLV.PolyOps.ProofsLattice9
import PPLV.PolyOps.ProofsAffine2
import PPLV.PolyOps.ProofsDims4

/-!
# C02 stage 2 — `fold_space_dimensions(vars, dest)` at row level

`fold_space_dimensions_rows_correct`: for any generator list `gs` of the input set the result
denotes `RefPoly.foldGens ref vars dest gs` (`C02.fold_space_dimensions_model`, `fold_least`).
Composition of `affine_image` (not invertible: `x_dest := x_i`), `poly_hull_assign_rows_correct` /
`_rows_wf` and `remove_space_dimensions_rows_correct` (ProofsDims4), plus `selSet_foldAcc`.

`Poly.PendOK`: the two invariants of `Polyhedron::OK()` about pending rows that `Poly.WF` does not
record (needed to know that the intermediate results are well formed).
-/
namespace PPLV.PolyOps
open PPLV.Lin

/-- a pair that can have pending rows has its constraints up to date; pending generators only
    occur on such a pair -/
def Poly.PendOK (x : Poly) : Prop :=
  (x.st.canPend = true → x.st.cUp = true) ∧ (x.st.gPend = true → x.st.canPend = true)

theorem pendOK_pendForm (x : Poly) (gs' : Sys) (h : x.PendOK) (hc : x.st.canPend = true) :
    (pendForm x gs').PendOK :=
  ⟨fun _ => h.1 hc, fun _ => hc⟩

theorem pendOK_dropForm (x : Poly) (gs' : Sys) (h : x.PendOK) (hc : x.st.canPend = false) :
    (dropForm x gs').PendOK := by
  constructor
  · intro h'; simp [dropForm, Status.clearCUp, Status.canPend] at h'
  · intro h'
    have : x.st.gPend = true := by simpa [dropForm, Status.clearCUp] using h'
    rw [h.2 this] at hc; cases hc

/-! ### the non-invertible affine image with a short expression -/

theorem affine_image_noninv_facts (x copy : Poly) (v : Nat) (e : LinExpr) (S : Set Val) (hx : x.WF)
    (hem : x.st.empty = false) (hc : e.coeffs.getD v 0 = 0) (hv : v < x.dim)
    (he : e.coeffs.length ≤ x.dim) (hD : x.Denotes S) (h : x.affine_image v e 1 = some copy) :
    copy.WF ∧ copy.dim = x.dim ∧ copy.nnc = x.nnc ∧ copy.st.empty = false ∧
      copy.Denotes (imgSet x.dim v e 1 S) := by
  obtain ⟨hgu, hcp, hqn, hqd, ⟨gs0, hgs0, hqgs⟩, h1, h2, h3, h4, h5⟩ :=
    affine_image_noninv_shape x copy v e 1 hx hem hc h
  have hgen := (hD.2 hem).2.1 hgu hcp
  have hfacts := gsSigned_facts x.nnc x.dim v e 1 gs0
    (by rw [hgs0]; exact hx.gs_wf hem hgu) hv he (by decide)
  refine ⟨?_, hqd, hqn, h1, ?_⟩
  · refine ⟨fun _ hq => (by rw [h2] at hq; cases hq), fun _ _ => ?_, fun _ _ => ?_,
      fun hq => (by rw [h4] at hq; cases hq), fun hq => (by rw [h5] at hq; cases hq),
      fun hq => (by rw [h4] at hq; cases hq.1), fun _ _ => Or.inr h3,
      fun hq => (by rw [hqd] at hq; omega)⟩
    · rw [hqn, hqd, hqgs]; exact hfacts.2.1
    · rw [hqn, hqgs]
      exact hfacts.2.2 (by rw [hgs0]; exact hx.gs_pt hem hgu)
  · refine ⟨fun hq => (by rw [h1] at hq; cases hq), fun _ =>
      ⟨fun hq => (by rw [h2] at hq; cases hq), fun _ _ => ?_,
       fun _ hq => by rw [h3] at hq; cases hq⟩⟩
    rw [hqn, hqd, hqgs, hfacts.1, hgs0, hgen]

/-! ### the loop -/

/-- the step of the loop of `fold_space_dimensions` -/
def foldStep (dest : Nat) (acc : Option Poly) (i : Nat) : Option Poly :=
  acc.bind fun x =>
    if x.st.empty then some x
    else (x.affine_image dest ⟨List.replicate i 0 ++ [1], 0⟩ 1).bind fun copy => x.poly_hull_assign copy

theorem foldl_foldStep_none (dest : Nat) (is : List Nat) : is.foldl (foldStep dest) none = none := by
  induction is with
  | nil => rfl
  | cons i is ih => exact ih

theorem not_empty_of_pt (x : Poly) (n : Nat) (G : List Gen) (hp : ∃ g ∈ G, g.isPt = true)
    (hD : x.Denotes (GenSem n G)) : x.st.empty = false := by
  cases he : x.st.empty
  · rfl
  · have := nonempty_of_pt n G hp
    rw [hD.1 he] at this
    exact absurd this Set.not_nonempty_empty

/-- one iteration -/
theorem foldStep_facts (n dest i : Nat) (x x' : Poly) (G : List Gen) (hdest : dest < n)
    (hi : i ≠ dest ∧ i < n) (hx : x.WF) (hpo : x.PendOK) (hxn : x.dim = n)
    (hw : gensWF n G = true) (hp : ∃ g ∈ G, g.isPt = true) (hD : x.Denotes (GenSem n G))
    (h : foldStep dest (some x) i = some x') :
    x'.WF ∧ x'.PendOK ∧ x'.dim = n ∧ x'.nnc = x.nnc ∧
      x'.Denotes (GenSem n (hullGens [G, imgGens n dest i G])) := by
  have hem := not_empty_of_pt x n G hp hD
  unfold foldStep at h
  simp only [Option.bind_some] at h
  rw [if_neg (by simp [hem])] at h
  cases h1 : x.affine_image dest ⟨List.replicate i 0 ++ [1], 0⟩ 1 with
  | none => rw [h1] at h; cases h
  | some copy =>
    rw [h1] at h
    simp only [Option.bind_some] at h
    obtain ⟨hcw, hcd, hcn, hce, hcD⟩ := affine_image_noninv_facts x copy dest (varExpr i) _ hx hem
      (varExpr_getD i dest hi.1) (by rw [hxn]; exact hdest)
      (by rw [varExpr_length, hxn]; exact hi.2) hD h1
    rw [hxn, ← genSem_imgGens n dest i G hi.2 hdest] at hcD
    have hD' := poly_hull_assign_rows_correct x copy x' n G (imgGens n dest i G) hxn
      (hcd.trans hxn) hcn hx hcw hw (gensWF_imgGens n dest i G hw) (Or.inr hp)
      (Or.inr (imgGens_pt n dest i G hp)) hD hcD h
    have hW' := poly_hull_assign_rows_wf x copy x' hcd hcn hx hcw hpo.1 hpo.2 h
    obtain ⟨_, _, _, _, gs', _, hq⟩ := poly_hull_assign_main x copy x' hem hce
      (by rw [hxn]; omega) h
    rcases hq with ⟨hc, rfl⟩ | ⟨hc, rfl⟩
    · exact ⟨hW', pendOK_pendForm x gs' hpo hc, hxn, rfl, hD'⟩
    · exact ⟨hW', pendOK_dropForm x gs' hpo hc, hxn, rfl, hD'⟩

theorem fold_loop (n dest : Nat) (hdest : dest < n) : ∀ (is : List Nat) (x : Poly) (G : List Gen)
    (q : Poly), x.WF → x.PendOK → x.dim = n → (∀ i ∈ is, i ≠ dest ∧ i < n) → gensWF n G = true →
    (∃ g ∈ G, g.isPt = true) → x.Denotes (GenSem n G) →
    is.foldl (foldStep dest) (some x) = some q →
    q.WF ∧ q.dim = n ∧ q.nnc = x.nnc ∧ q.Denotes (GenSem n (foldAcc n dest is G)) := by
  intro is
  induction is with
  | nil =>
    intro x G q hx _ hxn _ _ _ hD h
    have : x = q := Option.some.inj h
    subst this
    exact ⟨hx, hxn, rfl, hD⟩
  | cons i is ih =>
    intro x G q hx hpo hxn his hw hp hD h
    rw [List.foldl_cons] at h
    cases hs : foldStep dest (some x) i with
    | none => rw [hs, foldl_foldStep_none] at h; cases h
    | some x' =>
      rw [hs] at h
      obtain ⟨hW', hpo', hxn', hnn', hD'⟩ := foldStep_facts n dest i x x' G hdest (his i (by simp))
        hx hpo hxn hw hp hD hs
      obtain ⟨r1, r2, r3, r4⟩ := ih x' _ q hW' hpo' hxn' (fun j hj => his j (by simp [hj]))
        (gensWF_hull2 n _ _ hw (gensWF_imgGens n dest i G hw))
        (by obtain ⟨g, hg, hpt⟩ := hp; exact ⟨g, (mem_hull2 _ _ g).mpr (Or.inl hg), hpt⟩) hD' h
      exact ⟨r1, r2, r3.trans hnn', r4⟩

theorem fold_loop_empty (dest : Nat) (x : Poly) (he : x.st.empty = true) (is : List Nat) :
    is.foldl (foldStep dest) (some x) = some x := by
  induction is with
  | nil => rfl
  | cons i is ih =>
    rw [List.foldl_cons]
    have : foldStep dest (some x) i = some x := by simp [foldStep, he]
    rw [this]; exact ih

/-- the final removal, for a polyhedron given by generators -/
theorem remove_after (x q : Poly) (n : Nat) (vars : List Nat) (G : List Gen) (hx : x.WF)
    (hxn : x.dim = n) (hw : gensWF n G = true) (hnd : vars.Nodup) (hlt : ∀ v ∈ vars, v < n)
    (hD : x.Denotes (GenSem n G)) (h : x.remove_space_dimensions vars = some q) :
    q.Denotes (selSet (otherVars n vars) (GenSem n G)) := by
  have := remove_space_dimensions_rows_correct x q vars (RefPoly.ofGens x.nnc n G) hxn.symm rfl
    (gensToCons_wf n G) hx hnd (by rw [hxn]; exact hlt)
    (by show x.Denotes (sem (gensToCons n G)); rw [sem_gensToCons n G hw]; exact hD) h
  rw [sem_removeDims _ _ (gensToCons_wf n G)] at this
  have hs : sem (RefPoly.ofGens x.nnc n G).cs = GenSem n G := sem_gensToCons n G hw
  rw [hs] at this
  exact this

theorem coordDet_GenSem (n : Nat) (G : List Gen) : CoordDet n (GenSem n G) := by
  intro x y h
  exact ⟨fun hx => GenSem_cylinder n G y x hx h, fun hy => GenSem_cylinder n G x y hy
    (fun i hi => (h i hi).symm)⟩

/-- **`Polyhedron::fold_space_dimensions(vars, dest)` at row level.** -/
theorem fold_space_dimensions_rows_correct (p q : Poly) (vars : List Nat) (dest : Nat)
    (ref : RefPoly) (gs : List Gen)
    (hn : ref.n = p.dim) (hp : p.WF) (hpo : p.PendOK) (hnd : vars.Nodup)
    (hlt : ∀ v ∈ vars, v < p.dim) (hdest : dest < p.dim) (hdv : dest ∉ vars)
    (hw : gensWF p.dim gs = true) (hpt : gs = [] ∨ ∃ g ∈ gs, g.isPt = true)
    (hD : p.Denotes (GenSem p.dim gs)) (h : p.fold_space_dimensions vars dest = some q) :
    q.Denotes (sem (RefPoly.foldGens ref vars dest gs).cs) := by
  rw [(sem_foldGens ref vars dest gs (by rw [hn]; exact hw)).1, hn]
  have hvars : ∀ i ∈ vars, i ≠ dest ∧ i < p.dim :=
    fun i hi => ⟨fun hid => hdv (hid ▸ hi), hlt i hi⟩
  -- the target when the input set is empty
  have hnil : gs = [] → q.Denotes ∅ →
      q.Denotes (GenSem (otherVars p.dim vars).length (hullGens (foldGenss p.dim vars dest gs))) := by
    intro hg hq
    rw [hg, genSem_fold_nil]; exact hq
  by_cases hv : vars = []
  · subst hv
    have hq : p = q := by
      unfold Poly.fold_space_dimensions at h
      simpa using h
    subst hq
    rcases hpt with hg | hpt
    · apply hnil hg
      rw [hg, GenSem_nil] at hD; exact hD
    · rw [← selSet_foldAcc p.dim dest [] gs hw hpt hvars, otherVars_nil,
        selSet_range _ _ (coordDet_GenSem _ _)]
      exact hD
  · have hv' : ¬ (vars.isEmpty = true) := by cases vars <;> simp at hv ⊢
    unfold Poly.fold_space_dimensions at h
    rw [if_neg hv'] at h
    change ((vars.foldl (foldStep dest)
      (if p.st.empty = true then some p else if (p.st.cPend || !p.st.gUp) = true then none else some p)).bind
        fun x => x.remove_space_dimensions vars) = some q at h
    cases he : p.st.empty
    · rw [he] at h
      simp only [Bool.false_eq_true, if_false] at h
      by_cases hc : (p.st.cPend || !p.st.gUp) = true
      · rw [if_pos hc, foldl_foldStep_none] at h; cases h
      · rw [if_neg hc] at h
        have hcp : p.st.cPend = false := by
          cases hh : p.st.cPend
          · rfl
          · simp [hh] at hc
        have hgu : p.st.gUp = true := by
          cases hh : p.st.gUp
          · simp [hh] at hc
          · rfl
        have hpt' : ∃ g ∈ gs, g.isPt = true :=
          pt_of_nonempty p.dim gs (denotes_gen_nonempty p _ hp he hgu hcp hD).2
        cases hl : vars.foldl (foldStep dest) (some p) with
        | none => rw [hl] at h; cases h
        | some x =>
          rw [hl] at h
          simp only [Option.bind_some] at h
          obtain ⟨hxw, hxn, _, hxD⟩ := fold_loop p.dim dest hdest vars p gs x hp hpo rfl hvars hw hpt' hD hl
          have := remove_after x q p.dim vars _ hxw hxn (foldAcc_wf p.dim dest vars gs hw hpt').1 hnd hlt
            hxD h
          rw [selSet_foldAcc p.dim dest vars gs hw hpt' hvars] at this
          exact this
    · rw [he] at h
      simp only [if_true] at h
      rw [fold_loop_empty dest p he vars] at h
      simp only [Option.bind_some] at h
      have hg : gs = [] := nil_of_genSem_empty p.dim gs hpt (hD.1 he)
      apply hnil hg
      have := remove_after p q p.dim vars gs hp rfl hw hnd hlt hD h
      rw [hD.1 he, selSet_empty] at this
      exact this

end PPLV.PolyOps
