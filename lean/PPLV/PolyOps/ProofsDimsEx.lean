import PPLV.PolyOps.ProofsAffineEx
import PPLV.PolyOps.ProofsDims5
import PPLV.PolyOps.ProofsDims6
import PPLV.PolyOps.ProofsDims7
import PPLV.PolyOps.ProofsDims11

/-!
# C02 stage 2 — the dimension-changing operators: the hypotheses of the row-level theorems are
satisfiable

`exP` (ProofsAffineEx): the segment `0 ≤ x ≤ 1` of dimension 1 held with both descriptions.
`exP2 = exP.add_space_dimensions_and_project 1`: the segment `[0,1] × {0}` of dimension 2, again with
both descriptions (constraints `y = 0`, `x ≥ 0`, `1 - x ≥ 0`; generators the points `(0,0)`, `(1,0)`).
Every hypothesis of every operator theorem is proved for these terms and the theorem is applied.
-/
namespace PPLV.PolyOps
open PPLV.Lin

set_option linter.unusedSimpArgs false
set_option linter.unusedVariables false
set_option linter.unnecessarySeqFocus false

/-- `add_space_dimensions_and_embed` -/
example : (exP.add_space_dimensions_and_embed 2).Denotes (sem (exRef.addDimsEmbed 2).cs) :=
  add_space_dimensions_and_embed_rows_correct exP 2 exRef rfl rfl exRef_wf exP_wf exP_denotes

/-- `add_space_dimensions_and_project` -/
example : (exP.add_space_dimensions_and_project 2).Denotes (sem (exRef.addDimsProject 2).cs) :=
  add_space_dimensions_and_project_rows_correct exP 2 exRef rfl rfl exRef_wf exP_wf exP_denotes

/-- the rows computed: the lines of the new variables first, old rows padded -/
example : (exP.add_space_dimensions_and_embed 2).gs.rows =
    [⟨true, 0, [0, 0, 1], 0⟩, ⟨true, 0, [0, 1, 0], 0⟩, ⟨false, 1, [0, 0, 0], 0⟩,
     ⟨false, 1, [1, 0, 0], 0⟩] := by decide

/-! ### a polyhedron of dimension 2 -/

def exP2 : Poly := exP.add_space_dimensions_and_project 1
def exRef2 : RefPoly := exRef.addDimsProject 1

example : exP2.cs.rows = [⟨true, 0, [0, 1], 0⟩, ⟨false, 0, [1, 0], 0⟩, ⟨false, 1, [-1, 0], 0⟩] := by
  decide
example : exP2.gs.rows = [⟨false, 1, [0, 0], 0⟩, ⟨false, 1, [1, 0], 0⟩] := by decide

theorem exP2_denotes : exP2.Denotes (sem exRef2.cs) :=
  add_space_dimensions_and_project_rows_correct exP 1 exRef rfl rfl exRef_wf exP_wf exP_denotes

theorem exRef2_wf : WF exRef2.n exRef2.cs := by
  intro c hc
  have : exRef2.cs = [geRow [1] 0, geRow [-1] 1, ⟨[0, 1], 0, false⟩, ⟨[0, -1], 0, false⟩] := by decide
  rw [this] at hc
  simp only [List.mem_cons, List.not_mem_nil, or_false] at hc
  rcases hc with rfl | rfl | rfl | rfl <;> simp [geRow, exRef2, RefPoly.addDimsProject, exRef]

theorem exP2_wf : exP2.WF := by
  have hcs : exP2.cs.rows = [⟨true, 0, [0, 1], 0⟩, ⟨false, 0, [1, 0], 0⟩, ⟨false, 1, [-1, 0], 0⟩] := by
    decide
  have hgs : exP2.gs.rows = [⟨false, 1, [0, 0], 0⟩, ⟨false, 1, [1, 0], 0⟩] := by decide
  refine ⟨?_, ?_, ?_, ?_, ?_, ?_, ?_, ?_⟩
  · intro _ _ r hr
    rw [hcs] at hr
    simp only [List.mem_cons, List.not_mem_nil, or_false] at hr
    rcases hr with rfl | rfl | rfl <;> rfl
  · intro _ _ r hr
    rw [hgs] at hr
    simp only [List.mem_cons, List.not_mem_nil, or_false] at hr
    rcases hr with rfl | rfl <;> simp [Row.genWF, exP2, exP, Poly.add_space_dimensions_and_project]
  · intro _ _
    refine ⟨⟨false, 1, [0, 0], 0⟩, by rw [hgs]; simp, ?_⟩
    simp [Row.isPoint, exP2, exP, Poly.add_space_dimensions_and_project]
  · intro h; revert h; decide
  · intro h; revert h; decide
  · intro h; revert h; decide
  · intro _ _; exact Or.inl (by decide)
  · intro h; revert h; decide

/-- `remove_space_dimensions {y}` -/
example : ∃ q, exP2.remove_space_dimensions [1] = some q ∧
    q.Denotes (sem (exRef2.removeDims [1]).cs) ∧ q.WF := by
  have h : (exP2.remove_space_dimensions [1]).isSome = true := by decide
  obtain ⟨q, hq⟩ := Option.isSome_iff_exists.mp h
  have hlt : ∀ v ∈ [1], v < exP2.dim := by
    intro v hv; simp at hv; subst hv; decide
  exact ⟨q, hq,
    remove_space_dimensions_rows_correct exP2 q [1] exRef2 rfl rfl exRef2_wf exP2_wf (by decide) hlt
      exP2_denotes hq,
    remove_space_dimensions_rows_wf exP2 q [1] exP2_wf (by decide) hlt
      (fun h => by revert h; decide) hq⟩

/-- all dimensions removed: the zero-dimensional universe -/
example : ∃ q, exP.remove_space_dimensions [0] = some q ∧
    q.Denotes (sem (exRef.removeDims [0]).cs) ∧ q.dim = 0 := by
  have h : (exP.remove_space_dimensions [0]).isSome = true := by decide
  obtain ⟨q, hq⟩ := Option.isSome_iff_exists.mp h
  have hlt : ∀ v ∈ [0], v < exP.dim := by
    intro v hv; simp at hv; subst hv; decide
  refine ⟨q, hq,
    remove_space_dimensions_rows_correct exP q [0] exRef rfl rfl exRef_wf exP_wf (by decide) hlt
      exP_denotes hq, ?_⟩
  have : (exP.remove_space_dimensions [0]).map (·.dim) = some 0 := by decide
  rw [hq] at this
  exact Option.some.inj this

/-- `remove_higher_space_dimensions 1` -/
example : ∃ q, exP2.remove_higher_space_dimensions 1 = some q ∧
    q.Denotes (sem (exRef2.removeHigherDims 1).cs) ∧ q.WF := by
  have h : (exP2.remove_higher_space_dimensions 1).isSome = true := by decide
  obtain ⟨q, hq⟩ := Option.isSome_iff_exists.mp h
  exact ⟨q, hq,
    remove_higher_space_dimensions_rows_correct exP2 q 1 exRef2 rfl rfl exRef2_wf exP2_wf (by decide)
      exP2_denotes hq,
    remove_higher_space_dimensions_rows_wf exP2 q 1 exP2_wf (by decide)
      (fun h => by revert h; decide) hq⟩

/-- `expand_space_dimension x 2` -/
example : ∃ q, exP.expand_space_dimension 0 2 = some q ∧
    q.Denotes (sem (exRef.expandDim 0 2).cs) := by
  have h : (exP.expand_space_dimension 0 2).isSome = true := by decide
  obtain ⟨q, hq⟩ := Option.isSome_iff_exists.mp h
  exact ⟨q, hq,
    expand_space_dimension_rows_correct exP q 0 2 exRef rfl rfl exRef_wf exP_wf (by decide)
      exP_denotes hq⟩

/-- `concatenate_assign`: the square `[0,1]²` (as `[0,1] × {0}` concatenated with `[0,1]`) -/
example : ∃ q, exP2.concatenate_assign exP = some q ∧
    q.Denotes (sem (exRef2.concat exRef).cs) := by
  have h : (exP2.concatenate_assign exP).isSome = true := by decide
  obtain ⟨q, hq⟩ := Option.isSome_iff_exists.mp h
  exact ⟨q, hq,
    concatenate_assign_rows_correct exP2 exP q exRef2 exRef rfl rfl rfl rfl exRef2_wf exRef_wf
      exP2_wf exP_wf rfl exP2_denotes exP_denotes hq⟩

/-! ### `map_space_dimensions` -/

/-- the transposition `x ↔ y` (permutation case: both descriptions renamed) -/
example : ∃ q, exP2.map_space_dimensions [some 1, some 0] = some q ∧
    q.Denotes (sem (exRef2.mapDims 2 (mapPairs [some 1, some 0])).cs) := by
  have h : (exP2.map_space_dimensions [some 1, some 0]).isSome = true := by decide
  obtain ⟨q, hq⟩ := Option.isSome_iff_exists.mp h
  refine ⟨q, hq,
    map_space_dimensions_rows_correct exP2 q [some 1, some 0] 2 exRef2 rfl rfl exRef2_wf exP2_wf rfl
      ?_ ?_ ?_ exP2_denotes hq⟩
  · intro j j' k h1 h2
    rcases j with _ | _ | j <;> rcases j' with _ | _ | j' <;> simp at h1 h2 <;> omega
  · intro j k h1
    rcases j with _ | _ | j <;> simp at h1 <;> omega
  · intro k hk
    rcases k with _ | _ | k
    · exact ⟨1, rfl⟩
    · exact ⟨0, rfl⟩
    · omega

/-- `y` projected away, `x` kept (general case: the generator system is rebuilt) -/
example : ∃ q, exP2.map_space_dimensions [some 0, none] = some q ∧
    q.Denotes (sem (exRef2.mapDims 1 (mapPairs [some 0, none])).cs) := by
  have h : (exP2.map_space_dimensions [some 0, none]).isSome = true := by decide
  obtain ⟨q, hq⟩ := Option.isSome_iff_exists.mp h
  refine ⟨q, hq,
    map_space_dimensions_rows_correct exP2 q [some 0, none] 1 exRef2 rfl rfl exRef2_wf exP2_wf rfl
      ?_ ?_ ?_ exP2_denotes hq⟩
  · intro j j' k h1 h2
    rcases j with _ | _ | j <;> rcases j' with _ | _ | j' <;> simp at h1 h2 <;> omega
  · intro j k h1
    rcases j with _ | _ | j <;> simp at h1 <;> omega
  · intro k hk
    rcases k with _ | k
    · exact ⟨0, rfl⟩
    · omega

end PPLV.PolyOps
