import PPLV.PolyOps.ProofsLattice3
import PPLV.PolyOps.ProofsAffine
import PPLV.PolyOps.ProofsDims3

/-!
# C02 stage 2 — `fold_space_dimensions`, the generator level

The code accumulates: for every `i ∈ vars`, `X := hull(X, X[dest := x_i])`, and removes `vars` at
the end.  The reference (`RefPoly.foldGens`) is the hull of the projections `Q_d`, `d ∈ dest :: vars`
of the ORIGINAL set.  `foldAcc` follows the code on generator lists; `selSet_foldAcc` shows that
after the removal of `vars` both generate the same set (`dest ∉ vars`).
-/
namespace PPLV.PolyOps
open PPLV.Lin

/-- coordinate selection for `x_dest := x_i` in dimension `n` -/
def selImg (n dest i : Nat) : List Nat := (List.range n).map fun k => if k == dest then i else k

/-- generators of the image under `x_dest := x_i` -/
def imgGens (n dest i : Nat) (G : List Gen) : List Gen := G.map (·.select (selImg n dest i))

/-- the accumulation of the loop on generator lists -/
def foldAcc (n dest : Nat) : List Nat → List Gen → List Gen
  | [], G => G
  | i :: is, G => foldAcc n dest is (hullGens [G, imgGens n dest i G])

/-- the expression `Variable(i)` -/
def varExpr (i : Nat) : LinExpr := ⟨List.replicate i 0 ++ [1], 0⟩

theorem selImg_length (n dest i : Nat) : (selImg n dest i).length = n := by simp [selImg]

theorem selImg_lt (n dest i : Nat) (hi : i < n) : ∀ k ∈ selImg n dest i, k < n := by
  intro k hk
  unfold selImg at hk
  obtain ⟨k0, hk0, rfl⟩ := List.mem_map.mp hk
  split
  · exact hi
  · exact List.mem_range.mp hk0

theorem selImg_getD (n dest i k : Nat) (hk : k < n) :
    (selImg n dest i).getD k 0 = if k = dest then i else k := by
  unfold selImg
  simp [List.getD_eq_getElem?_getD, hk]

theorem varExpr_val (i : Nat) (x : Val) : (varExpr i).val x = x i := by
  unfold LinExpr.val varExpr
  have : List.replicate i (0 : Int) ++ [1] = unitRow i 1 := rfl
  simp only [this, dot_unitRow]
  push_cast; ring

theorem varExpr_getD (i dest : Nat) (h : i ≠ dest) : (varExpr i).coeffs.getD dest 0 = 0 := by
  have := getD_unit i 0 dest
  simp only [List.replicate_zero, List.append_nil] at this
  show (List.replicate i (0 : Int) ++ [1]).getD dest 0 = 0
  rw [this, if_neg (Ne.symm h)]

theorem varExpr_length (i : Nat) : (varExpr i).coeffs.length = i + 1 := by simp [varExpr]

/-- `imgGens` generates the affine image under `x_dest := x_i` -/
theorem genSem_imgGens (n dest i : Nat) (G : List Gen) (hi : i < n) (hdest : dest < n) :
    GenSem n (imgGens n dest i G) = imgSet n dest (varExpr i) 1 (GenSem n G) := by
  unfold imgGens
  rw [O2.genSem_select_aux n n G _ (selImg_length n dest i) (selImg_lt n dest i hi)]
  ext w
  unfold imgSet
  show (∃ x ∈ GenSem n G, _) ↔ (∃ x ∈ GenSem n G, _)
  refine exists_congr fun x => and_congr_right fun hx => ?_
  rw [varExpr_val]
  constructor
  · intro h
    refine ⟨?_, fun j hj hjd => ?_⟩
    · rw [h dest hdest, selImg_getD n dest i dest hdest, if_pos rfl]
      simp
    · rw [h j hj, selImg_getD n dest i j hj, if_neg hjd]
  · rintro ⟨h1, h2⟩ k hk
    rw [selImg_getD n dest i k hk]
    by_cases hkd : k = dest
    · rw [if_pos hkd, hkd]
      have : ((1 : Int) : Rat) * w dest = x i := h1
      simpa using this
    · rw [if_neg hkd]; exact h2 k hk hkd


theorem gensWF_imgGens (n dest i : Nat) (G : List Gen) (hw : gensWF n G = true) :
    gensWF n (imgGens n dest i G) = true :=
  O2.gensWF_select_aux n n G _ (selImg_length n dest i) hw

theorem imgGens_pt (n dest i : Nat) (G : List Gen) (hp : ∃ g ∈ G, g.isPt = true) :
    ∃ g ∈ imgGens n dest i G, g.isPt = true := O2.select_hasPoint G _ hp

theorem mem_hull2 (A B : List Gen) (g : Gen) : g ∈ hullGens [A, B] ↔ g ∈ A ∨ g ∈ B := by
  rw [mem_hullGens]
  simp

theorem gensWF_hull2 (n : Nat) (A B : List Gen) (hA : gensWF n A = true) (hB : gensWF n B = true) :
    gensWF n (hullGens [A, B]) = true := by
  apply gensWF_hullGens
  intro gs hgs
  simp only [List.mem_cons, List.not_mem_nil, or_false] at hgs
  rcases hgs with rfl | rfl
  · exact hA
  · exact hB

theorem foldAcc_wf (n dest : Nat) : ∀ (is : List Nat) (G : List Gen), gensWF n G = true →
    (∃ g ∈ G, g.isPt = true) →
    gensWF n (foldAcc n dest is G) = true ∧ ∃ g ∈ foldAcc n dest is G, g.isPt = true := by
  intro is
  induction is with
  | nil => intro G hw hp; exact ⟨hw, hp⟩
  | cons i is ih =>
    intro G hw hp
    apply ih
    · exact gensWF_hull2 n _ _ hw (gensWF_imgGens n dest i G hw)
    · obtain ⟨g, hg, hpt⟩ := hp
      exact ⟨g, (mem_hull2 _ _ g).mpr (Or.inl hg), hpt⟩

/-! ### what the accumulated generators are -/

/-- `g'` is `g` with coordinate `d` in the place of `dest` (on the first `n` coordinates) -/
def FoldRel (n dest : Nat) (g' g : Gen) (d : Nat) : Prop :=
  g'.kind = g.kind ∧ g'.div = g.div ∧
    ∀ k < n, g'.coords.getD k 0 = g.coords.getD (if k = dest then d else k) 0

theorem select_coords_getD (g : Gen) (n dest i k : Nat) (hk : k < n) :
    (g.select (selImg n dest i)).coords.getD k 0 = g.coords.getD (if k = dest then i else k) 0 := by
  show ((selImg n dest i).map fun j => g.coords.getD j 0).getD k 0 = _
  have hlen : k < (selImg n dest i).length := by rw [selImg_length]; exact hk
  have : ((selImg n dest i).map fun j => g.coords.getD j 0).getD k 0
      = g.coords.getD ((selImg n dest i).getD k 0) 0 := by
    simp [List.getD_eq_getElem?_getD, hlen]
  rw [this, selImg_getD n dest i k hk]

theorem foldRel_base (n dest : Nat) (g : Gen) : FoldRel n dest g g dest := by
  refine ⟨rfl, rfl, fun k _ => ?_⟩
  by_cases h : k = dest
  · rw [if_pos h, h]
  · rw [if_neg h]

theorem foldRel_step (n dest : Nat) (g' g : Gen) (d j : Nat) (h : FoldRel n dest g' g d)
    (hj : j ≠ dest) (hjn : j < n) : FoldRel n dest (g'.select (selImg n dest j)) g j := by
  obtain ⟨h1, h2, h3⟩ := h
  refine ⟨h1, h2, fun k hk => ?_⟩
  rw [select_coords_getD g' n dest j k hk]
  by_cases hkd : k = dest
  · rw [if_pos hkd, h3 j hjn, if_neg hj]
  · rw [if_neg hkd, h3 k hk, if_neg hkd]

/-- soundness and completeness of the accumulated list w.r.t. the set `D` of processed variables -/
theorem foldAcc_inv (n dest : Nat) (gs : List Gen) : ∀ (is : List Nat) (G : List Gen) (D : List Nat),
    dest ∈ D → (∀ i ∈ is, i ≠ dest ∧ i < n) →
    (∀ g' ∈ G, ∃ g ∈ gs, ∃ d ∈ D, FoldRel n dest g' g d) →
    (∀ g ∈ gs, ∀ d ∈ D, ∃ g' ∈ G, FoldRel n dest g' g d) →
    (∀ g' ∈ foldAcc n dest is G, ∃ g ∈ gs, ∃ d ∈ D ++ is, FoldRel n dest g' g d) ∧
    (∀ g ∈ gs, ∀ d ∈ D ++ is, ∃ g' ∈ foldAcc n dest is G, FoldRel n dest g' g d) := by
  intro is
  induction is with
  | nil =>
    intro G D _ _ hs hc
    simp only [List.append_nil]
    exact ⟨hs, hc⟩
  | cons i is ih =>
    intro G D hD his hs hc
    have hi := his i (by simp)
    have := ih (hullGens [G, imgGens n dest i G]) (D ++ [i]) (List.mem_append_left _ hD)
      (fun j hj => his j (by simp [hj])) ?_ ?_
    · rw [List.append_assoc] at this
      exact this
    · intro g' hg'
      rcases (mem_hull2 _ _ g').mp hg' with hg' | hg'
      · obtain ⟨g, hg, d, hd, hr⟩ := hs g' hg'
        exact ⟨g, hg, d, List.mem_append_left _ hd, hr⟩
      · unfold imgGens at hg'
        obtain ⟨g0, hg0, rfl⟩ := List.mem_map.mp hg'
        obtain ⟨g, hg, d, _, hr⟩ := hs g0 hg0
        exact ⟨g, hg, i, by simp, foldRel_step n dest g0 g d i hr hi.1 hi.2⟩
    · intro g hg d hd
      rcases List.mem_append.mp hd with hd | hd
      · obtain ⟨g', hg', hr⟩ := hc g hg d hd
        exact ⟨g', (mem_hull2 _ _ g').mpr (Or.inl hg'), hr⟩
      · have hdi : d = i := by simpa using hd
        subst hdi
        obtain ⟨g0, hg0, hr⟩ := hc g hg dest hD
        exact ⟨g0.select (selImg n dest d),
          (mem_hull2 _ _ _).mpr (Or.inr (List.mem_map.mpr ⟨g0, hg0, rfl⟩)),
          foldRel_step n dest g0 g dest d hr hi.1 hi.2⟩

/-- after the removal of `vars` a related generator is the reference's generator -/
theorem foldRel_select (n dest : Nat) (vars : List Nat) (g' g : Gen) (d : Nat)
    (h : FoldRel n dest g' g d) :
    g'.select (otherVars n vars) = g.select (foldSel n vars dest d) := by
  obtain ⟨h1, h2, h3⟩ := h
  obtain ⟨k', c', d'⟩ := g'
  obtain ⟨k, c, dd⟩ := g
  simp only at h1 h2 h3
  subst h1 h2
  unfold Gen.select foldSel
  simp only [List.map_map]
  congr 1
  apply List.map_congr_left
  intro j hj
  have hjn : j < n := ((mem_otherVars n vars j).mp hj).1
  rw [h3 j hjn]
  show _ = c.getD (if (j == dest) = true then d else j) 0
  by_cases hjd : j = dest
  · simp [hjd]
  · simp [hjd]

/-- the generators of the code after the removal and the generators of the reference are the
    same set -/
theorem mem_foldAcc_select (n dest : Nat) (vars : List Nat) (gs : List Gen)
    (hvars : ∀ i ∈ vars, i ≠ dest ∧ i < n) (g'' : Gen) :
    g'' ∈ (foldAcc n dest vars gs).map (·.select (otherVars n vars)) ↔
      g'' ∈ hullGens (foldGenss n vars dest gs) := by
  obtain ⟨hs, hc⟩ := foldAcc_inv n dest gs vars gs [dest] (by simp) hvars
    (fun g hg => ⟨g, hg, dest, by simp, foldRel_base n dest g⟩)
    (fun g hg d hd => by
      have : d = dest := by simpa using hd
      subst this
      exact ⟨g, hg, foldRel_base n d g⟩)
  have hD : ∀ d, d ∈ [dest] ++ vars ↔ d ∈ dest :: vars := by intro d; simp
  rw [mem_hullGens]
  constructor
  · intro h
    obtain ⟨g', hg', rfl⟩ := List.mem_map.mp h
    obtain ⟨g, hg, d, hd, hr⟩ := hs g' hg'
    refine ⟨gs.map (·.select (foldSel n vars dest d)),
      (O2.mem_foldGenss n vars dest gs _).mpr ⟨d, (hD d).mp hd, rfl⟩, ?_⟩
    rw [foldRel_select n dest vars g' g d hr]
    exact List.mem_map.mpr ⟨g, hg, rfl⟩
  · rintro ⟨l, hl, hg''⟩
    obtain ⟨d, hd, rfl⟩ := (O2.mem_foldGenss n vars dest gs l).mp hl
    obtain ⟨g, hg, rfl⟩ := List.mem_map.mp hg''
    obtain ⟨g', hg', hr⟩ := hc g hg d ((hD d).mpr hd)
    exact List.mem_map.mpr ⟨g', hg', foldRel_select n dest vars g' g d hr⟩

/-- **the accumulated hull, with `vars` removed, is the reference fold** -/
theorem selSet_foldAcc (n dest : Nat) (vars : List Nat) (gs : List Gen) (hw : gensWF n gs = true)
    (hp : ∃ g ∈ gs, g.isPt = true) (hvars : ∀ i ∈ vars, i ≠ dest ∧ i < n) :
    selSet (otherVars n vars) (GenSem n (foldAcc n dest vars gs)) =
      GenSem (otherVars n vars).length (hullGens (foldGenss n vars dest gs)) := by
  have hlt : ∀ k ∈ otherVars n vars, k < n := fun k hk => ((mem_otherVars n vars k).mp hk).1
  have hwA := (foldAcc_wf n dest vars gs hw hp).1
  have h1 := genSem_select n (foldAcc n dest vars gs) (otherVars n vars) hlt
  unfold selSet
  rw [← h1]
  exact genSem_congr_of_mem _ _ _ (mem_foldAcc_select n dest vars gs hvars)
    (gensWF_select n _ _ hwA) (gensWF_foldGens n vars dest gs hw)

/-- the fold of the empty set -/
theorem genSem_fold_nil (n dest : Nat) (vars : List Nat) :
    GenSem (otherVars n vars).length (hullGens (foldGenss n vars dest [])) = ∅ := by
  apply GenSem_no_point
  rintro ⟨g, hg, _⟩
  obtain ⟨l, hl, hgl⟩ := (mem_hullGens _ g).mp hg
  obtain ⟨d, _, rfl⟩ := (O2.mem_foldGenss n vars dest [] l).mp hl
  simp at hgl

end PPLV.PolyOps
