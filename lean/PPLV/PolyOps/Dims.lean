import PPLV.PolyOps.Affine

/-!
# C02 stage 2 — the dimension-changing operators at row level (Polyhedron_chdims.cc,
Polyhedron_chdims_templates.hh, Polyhedron_templates.hh `map_space_dimensions`,
Linear_System_templates.hh `add_universe_rows_and_space_dimensions`, `remove_space_dimensions`)
-/
namespace PPLV.PolyOps
open PPLV.Lin

/-- `set_space_dimension(old + m)` on every row: `m` zero columns (the NNC epsilon coefficient is
    moved to the new last column by `Constraint/Generator::set_space_dimension_no_ok`; in `Row` it
    is a field of its own) -/
def Row.addZeroCols (m : Nat) (r : Row) : Row := { r with cf := r.cf ++ List.replicate m 0 }

def Sys.addZeroCols (m : Nat) (s : Sys) : Sys := s.mapRows (Row.addZeroCols m)

/-- the line / equality on `Variable(i)` in a space of `total` dimensions -/
def unitEqRow (total i : Nat) : Row :=
  ⟨true, 0, List.replicate i 0 ++ [1] ++ List.replicate (total - i - 1) 0, 0⟩

/-- `Linear_System::add_universe_rows_and_space_dimensions(m)` (Linear_System_templates.hh:780):
    `m` zero columns, and `m` new rows (lines / equalities on the new variables) BEFORE the old ones.
    Row `i < m` is built on `Variable(c)`, `c = old_space_dim + (m-1-i)` where for NNC rows
    `old_space_dim` counts the epsilon column; the epsilon fix-up at the end (lines 822-845) swaps
    columns so that the new rows are the unit vectors of the new variables: in the order
    `n+m-1, …, n` when the system is closed or sorted, `n, n+m-1, …, n+1` when NNC and not sorted. -/
def Sys.addUniverseRows (nnc : Bool) (n m : Nat) (s : Sys) : Sys :=
  let desc := (List.range m).map fun i => unitEqRow (n + m) (n + (m - 1 - i))
  let newRows :=
    if nnc && !s.sorted then
      unitEqRow (n + m) n :: ((List.range (m - 1)).map fun i => unitEqRow (n + m) (n + (m - 1 - i)))
    else desc
  { rows := newRows ++ s.rows.map (Row.addZeroCols m), firstPending := s.firstPending + m, sorted := s.sorted }

/-- `Polyhedron::add_space_dimensions_and_embed(m)` (Polyhedron_chdims.cc:35) -/
def Poly.add_space_dimensions_and_embed (p : Poly) (m : Nat) : Poly :=
  if m == 0 then p
  else if p.st.empty then { p with dim := p.dim + m, cs := Sys.clear }
  else if p.dim == 0 then
    -- swapped with a fresh universe polyhedron (Polyhedron_nonpublic.cc:52)
    { p with dim := m, st := { Status.zeroDimUniv with cUp := true, cMin := true },
             cs := ⟨lowLevelCons p.nnc m, (lowLevelCons p.nnc m).length, true⟩, gs := Sys.clear }
  else if p.st.cUp then
    if p.st.gUp then
      -- update_sat_c if needed; add_space_dimensions(con_sys, gen_sys, sat_c, sat_g, m)
      { p with dim := p.dim + m, st := { p.st with satC := true },
               cs := p.cs.addZeroCols m, gs := p.gs.addUniverseRows p.nnc p.dim m }
    else { p with dim := p.dim + m, cs := p.cs.addZeroCols m }
  else { p with dim := p.dim + m, gs := p.gs.addUniverseRows p.nnc p.dim m }

/-- `Polyhedron::add_space_dimensions_and_project(m)` (Polyhedron_chdims.cc:107) -/
def Poly.add_space_dimensions_and_project (p : Poly) (m : Nat) : Poly :=
  if m == 0 then p
  else if p.st.empty then { p with dim := p.dim + m, cs := Sys.clear }
  else if p.dim == 0 then
    let rows : List Row :=
      (if p.nnc then [⟨false, 1, List.replicate m 0, 0⟩] else []) ++
        [⟨false, 1, List.replicate m 0, if p.nnc then 1 else 0⟩]
    { p with dim := m, st := { p.st with gUp := true, gMin := true },
             gs := ⟨rows, rows.length, p.gs.sorted⟩ }
  else if p.st.cUp then
    if p.st.gUp then
      { p with dim := p.dim + m, st := { p.st with satG := true },
               gs := p.gs.addZeroCols m, cs := p.cs.addUniverseRows p.nnc p.dim m }
    else { p with dim := p.dim + m, cs := p.cs.addUniverseRows p.nnc p.dim m }
  else { p with dim := p.dim + m, gs := p.gs.addZeroCols m }

/-- drop the coordinates listed in `vars` -/
def dropCoords (vars : List Nat) (l : List Int) : List Int :=
  (l.zipIdx.filter fun (_, i) => !vars.contains i).map Prod.fst

/-- `Generator::remove_space_dimensions(vars)` (Generator.cc:168): `none` = the row is an
    invalid (all-zero) line or ray and is removed by the caller -/
def genRowRemoveDims (vars : List Nat) (r : Row) : Option Row :=
  let r1 : Row := { r with cf := dropCoords vars r.cf }
  if r1.b == 0 && r1.allHomZero then none else some r1.strongNormalize

/-- `Linear_System<Generator>::remove_space_dimensions(vars)` (Linear_System_templates.hh:365),
    called with nothing pending -/
def gsRemoveDims (vars : List Nat) (s : Sys) : Sys :=
  let rows := s.rows.filterMap (genRowRemoveDims vars)
  { rows := rows, firstPending := rows.length, sorted := false }

/-- the common prologue of `remove_space_dimensions` / `remove_higher_space_dimensions`:
    "we need updated generators".  `none` = a conversion is called. -/
def Poly.obtainGeneratorsNoConv (p : Poly) : Option Poly :=
  if p.st.somethingPending then
    if p.st.gPend then
      some { p with gs := { p.gs.unsetPending with sorted := false },
                    st := ({ p.st with gPend := false, gMin := false }).clearCUp }
    else none
  else if !p.st.gUp then none else some p

/-- `Polyhedron::remove_space_dimensions(vars)` (Polyhedron_chdims.cc:301); `vars` ascending -/
def Poly.remove_space_dimensions (p : Poly) (vars : List Nat) : Option Poly :=
  if vars.isEmpty then some p
  else
    let newDim := p.dim - vars.length
    if p.st.empty then some { p with cs := Sys.clear, dim := newDim }
    else p.obtainGeneratorsNoConv.map fun p =>
      if newDim == 0 then p.setZeroDimUniv
      else { p with gs := gsRemoveDims vars p.gs,
                    st := { p.st.clearCUp with gMin := false }, dim := newDim }

/-- `Generator_System::set_space_dimension(new)` with `new < old` (Generator_System_inlines.hh:97):
    every row truncated and strongly normalised, then the invalid lines and rays removed -/
def gsTruncate (newDim : Nat) (s : Sys) : Sys :=
  removeInvalidLinesAndRays
    { s with rows := s.rows.map fun r => ({ r with cf := r.cf.take newDim } : Row).strongNormalize }

/-- `Polyhedron::remove_higher_space_dimensions(new_dimension)` (Polyhedron_chdims.cc:353) -/
def Poly.remove_higher_space_dimensions (p : Poly) (newDim : Nat) : Option Poly :=
  if newDim == p.dim then some p
  else if p.st.empty then some { p with cs := Sys.clear, dim := newDim }
  else p.obtainGeneratorsNoConv.map fun p =>
    if newDim == 0 then p.setZeroDimUniv
    else { p with gs := gsTruncate newDim p.gs,
                  st := { p.st.clearCUp with gMin := false }, dim := newDim }

/-- coefficient list of the renamed row: new column `k` receives old column `j` when `f j = some k` -/
def mapCoords (f : List (Option Nat)) (newDim : Nat) (l : List Int) : List Int :=
  (List.range newDim).map fun k =>
    match (List.range f.length).find? (fun j => f.getD j none == some k) with
    | some j => l.getD j 0
    | none => 0

/-- `permute_space_dimensions(cycle)` on a row, all cycles together: columns renamed, then
    `sign_normalize()` (Generator.cc:192 / Constraint.cc) -/
def Row.permute (f : List (Option Nat)) (r : Row) : Row :=
  ({ r with cf := mapCoords f r.cf.length r.cf } : Row).signNormalize

def isIdentity (f : List (Option Nat)) : Bool :=
  (List.range f.length).all fun j => f.getD j none == some j

/-- one generator of the general case of `map_space_dimensions` (Polyhedron_templates.hh:257-292):
    lines and rays whose image is the origin are dropped; `line()` strongly normalises,
    `ray()`/`point()`/`closure_point()` normalise -/
def genRowMap (f : List (Option Nat)) (newDim : Nat) (r : Row) : Option Row :=
  let cf := mapCoords f newDim r.cf
  if r.b == 0 then
    if cf.all (· == 0) then none
    else some (if r.eq then ({ r with cf := cf } : Row).strongNormalize else ({ r with cf := cf } : Row).normalize)
  else
    -- `point(expr, d)` / `closure_point(expr, d)` build a normalised generator WITHOUT epsilon column;
    -- inserted into an NNC system a point gets `epsilon := divisor` (Generator_System.cc:236-246),
    -- whatever the epsilon coefficient of the old row was
    let r0 := ({ r with cf := cf, eps := 0 } : Row).normalize
    some (if r.eps > 0 then { r0 with eps := r0.b } else r0)

/-- `Generator_System::add_corresponding_closure_points` (Generator_System.cc:85) -/
def addCorrespondingClosurePoints (rows : List Row) : List Row :=
  rows ++ (rows.reverse.filter (fun g => decide (g.eps > 0))).map fun g => ({ g with eps := 0 } : Row).normalize

/-- `Polyhedron::map_space_dimensions(pfunc)` (Polyhedron_templates.hh:153); `f[j] = pfunc(j)` -/
def Poly.map_space_dimensions (p : Poly) (f : List (Option Nat)) : Option Poly :=
  if p.dim == 0 then some p
  else if f.all (· == none) then
    if p.st.empty then some { p with dim := 0, cs := Sys.clear }
    else if p.st.cPend then none
    else if !p.st.gUp then none
    else some p.setZeroDimUniv
  else
    let newDim := (f.foldl (fun m o => match o with | some k => max m (k + 1) | none => m) 0)
    if newDim == p.dim then
      if isIdentity f then some p else
      some { p with cs := if p.st.cUp then { p.cs.mapRows (Row.permute f) with sorted := false } else p.cs,
                    gs := if p.st.gUp then { p.gs.mapRows (Row.permute f) with sorted := false } else p.gs }
    else
      -- `generators()`: conversions not modelled
      if p.st.empty then some { p with dim := newDim, st := Status.setEmpty, cs := Sys.clear, gs := Sys.clear }
      else if p.st.cPend || !p.st.gUp then none
      else
        let rows := p.gs.rows.filterMap (genRowMap f newDim)
        let rows := if p.nnc then addCorrespondingClosurePoints rows else rows
        some { p with dim := newDim, st := { Status.zeroDimUniv with gUp := true },
                      cs := Sys.clear, gs := ⟨rows, rows.length, false⟩ }

/-- the new constraints of `expand_space_dimension` for one row (Polyhedron_chdims.cc:423-443) -/
def expandRow (v oldDim m : Nat) (c : Row) : List Row :=
  let coeff := c.cf.getD v 0
  if coeff == 0 then []
  else
    let tmpl : Row := { c with cf := c.cf.set v 0 }
    (List.range m).map fun j => { tmpl with cf := tmpl.cf.set (oldDim + j) coeff }

/-- `add_recycled_constraints(cs)` restricted to what `expand_space_dimension` needs
    (Polyhedron_public.cc:1560): same topology and dimension, constraints already available -/
def Poly.addRecycledConstraints (p : Poly) (rows : List Row) : Poly :=
  if rows.isEmpty then p
  else if p.st.empty then p
  else if p.st.canPend then
    { p with cs := p.cs.insertPendingSys rows, st := { p.st with cPend := true } }
  else
    { p with cs := p.cs.insertSys rows, st := ({ p.st with cMin := false }).clearGUp }

/-- `Polyhedron::expand_space_dimension(var, m)` (Polyhedron_chdims.cc:401) -/
def Poly.expand_space_dimension (p : Poly) (v m : Nat) : Option Poly :=
  if m == 0 then some p
  else
    let oldDim := p.dim
    let p1 := p.add_space_dimensions_and_embed m
    if p1.st.empty then some p1           -- `constraints()` of an empty polyhedron: no row mentions `var`
    else if p1.st.gPend || !p1.st.cUp then none
    else
      let newCons := p1.cs.rows.flatMap (expandRow v oldDim m)
      some (p1.addRecycledConstraints newCons)

/-- `Constraint::shift_space_dimensions(Variable(0), n)` on a row of `y`, then resized to the
    dimension of the concatenation -/
def Row.shiftInto (n : Nat) (r : Row) : Row := { r with cf := List.replicate n 0 ++ r.cf }

/-- `Polyhedron::concatenate_assign(y)` (Polyhedron_chdims.cc:184).  `ycs` = the rows of
    `y.constraints()` (a copy: pending rows included, order kept); `none` when obtaining them or the
    constraints of `*this` needs a conversion. -/
def Poly.concatenate_assign (p y : Poly) : Option Poly :=
  if p.st.empty || y.st.empty then some ({ p with dim := p.dim + y.dim }).setEmpty
  else if y.dim == 0 then some p
  else if p.dim == 0 then some y
  else if y.st.gPend || !y.st.cUp then none
  else if p.st.gPend || !p.st.cUp then none
  else
    let added := y.cs.rows.map (Row.shiftInto p.dim)
    let cs1 := p.cs.addZeroCols y.dim
    if p.st.canPend then
      some { p with dim := p.dim + y.dim,
                    cs := cs1.insertPendingSys added,
                    gs := p.gs.addUniverseRows p.nnc p.dim y.dim,
                    st := { p.st with satC := true, satG := false, cPend := true } }
    else
      some { p with dim := p.dim + y.dim, cs := cs1.insertSys added,
                    st := ({ p.st with cMin := false }).clearGUp }

end PPLV.PolyOps
