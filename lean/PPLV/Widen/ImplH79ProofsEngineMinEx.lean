import PPLV.Widen.ImplH79ProofsEngineMin

/-!
# C08 stage 2b — `hymin_of_engine`: the hypotheses are satisfiable, and `FacetPoints` cannot be dropped
-/
namespace PPLV.Widen.Impl

theorem sp_pair (c : Vec) (a b : Int) : sp c [a, b] = a * sp c [1, 0] + b * sp c [0, 1] := by
  rcases c with _ | ⟨c0, _ | ⟨c1, cs⟩⟩
  · simp [sp]
  · simp [sp]; ring
  · cases cs <;> simp [sp] <;> ring

/-! ### a non-trivial instance of all hypotheses: `{x ≥ 0}` in dimension one -/

def yGood : YMin :=
  { conSys := [⟨[0, 1], false⟩, ⟨[1, 0], false⟩]
    genSys := [⟨[1, 0], false⟩, ⟨[0, 1], false⟩]
    satG := [⟨[0, 1], false⟩, ⟨[1, 0], false⟩].map fun c => satRow c [⟨[1, 0], false⟩, ⟨[0, 1], false⟩] }

theorem engine_yGood : EngineDD 1 yGood where
  wf := by intro c hc; simp [yGood] at hc; rcases hc with rfl | rfl <;> rfl
  gwf := by intro g hg; simp [yGood] at hg; rcases hg with rfl | rfl <;> rfl
  satG_ok := rfl
  gens_in := by
    intro g hg c hc
    simp [yGood] at hg hc
    rcases hg with rfl | rfl <;> rcases hc with rfl | rfl <;> simp [sp]
  complete := by
    intro v hv hc
    obtain ⟨a, b, rfl⟩ : ∃ a b, v = [a, b] := by
      rcases v with _ | ⟨a, _ | ⟨b, _ | _⟩⟩ <;> simp at hv
      exact ⟨a, b, rfl⟩
    have h1 := hc ⟨[0, 1], false⟩ (by simp [yGood])
    have h2 := hc ⟨[1, 0], false⟩ (by simp [yGood])
    simp [CRow.holdsZ, sp] at h1 h2
    refine ⟨1, [a, b], by omega, rfl, ?_, ?_⟩
    · intro i hi _
      have : i = 0 ∨ i = 1 := by simp [yGood] at hi; omega
      rcases this with rfl | rfl <;> simp <;> assumption
    · intro c
      rw [sp_pair c a b]
      simp [yGood, List.range_succ]
  irred := by
    intro i hi he
    have : i = 0 ∨ i = 1 := by simp [yGood] at hi; omega
    rcases this with rfl | rfl
    · refine ⟨[0, -1], rfl, ?_, by simp [yGood, CRow.holdsZ, sp]⟩
      intro k hk hne
      have : k = 1 := by simp [yGood] at hk; omega
      subst this
      simp [yGood, CRow.holdsZ, sp]
    · refine ⟨[-1, 0], rfl, ?_, by simp [yGood, CRow.holdsZ, sp]⟩
      intro k hk hne
      have : k = 0 := by simp [yGood] at hk; omega
      subst this
      simp [yGood, CRow.holdsZ, sp]
  proper := by
    intro c hc _
    simp [yGood] at hc
    rcases hc with rfl | rfl
    · exact ⟨⟨[0, 1], false⟩, by simp [yGood], by simp [sp]⟩
    · exact ⟨⟨[1, 0], false⟩, by simp [yGood], by simp [sp]⟩
  eqIndep := by
    intro f _ i hi
    simp [yGood] at hi
  hasPoint := ⟨⟨[1, 0], false⟩, by simp [yGood], rfl, by simp⟩

theorem facetPoints_yGood : FacetPoints yGood := by
  intro c hc _ ht
  simp [yGood] at hc
  rcases hc with rfl | rfl
  · exact ⟨⟨[1, 0], false⟩, by simp [yGood], rfl, by simp, by simp [sp]⟩
  · exact absurd ht (by decide)

example : (yGood.conSys.filter (!·.isTautological false)).length = minCons 1 (den false 1 yGood.conSys) :=
  hymin_of_engine 1 yGood engine_yGood facetPoints_yGood

/-! ### `FacetPoints` cannot be dropped: `{x = 0, 1 + x ≥ 0}` -/

def yBad : YMin :=
  { conSys := [⟨[0, 1], true⟩, ⟨[1, 1], false⟩]
    genSys := [⟨[1, 0], false⟩]
    satG := [⟨[0, 1], true⟩, ⟨[1, 1], false⟩].map fun c => satRow c [⟨[1, 0], false⟩] }

theorem engine_yBad : EngineDD 1 yBad where
  wf := by intro c hc; simp [yBad] at hc; rcases hc with rfl | rfl <;> rfl
  gwf := by intro g hg; simp [yBad] at hg; subst hg; rfl
  satG_ok := rfl
  gens_in := by
    intro g hg c hc
    simp [yBad] at hg hc
    subst hg
    rcases hc with rfl | rfl <;> simp [sp]
  complete := by
    intro v hv hc
    obtain ⟨a, b, rfl⟩ : ∃ a b, v = [a, b] := by
      rcases v with _ | ⟨a, _ | ⟨b, _ | _⟩⟩ <;> simp at hv
      exact ⟨a, b, rfl⟩
    have h1 := hc ⟨[0, 1], true⟩ (by simp [yBad])
    have h2 := hc ⟨[1, 1], false⟩ (by simp [yBad])
    simp [CRow.holdsZ, sp] at h1 h2
    subst h1
    refine ⟨1, [a], by omega, rfl, ?_, ?_⟩
    · intro i hi _
      have : i = 0 := by simp [yBad] at hi; omega
      subst this
      simpa using h2
    · intro c
      rw [sp_pair c a 0]
      simp [yBad]
  irred := by
    intro i hi he
    have : i = 0 ∨ i = 1 := by simp [yBad] at hi; omega
    rcases this with rfl | rfl
    · simp [yBad] at he
    · refine ⟨[-1, 0], rfl, ?_, by simp [yBad, CRow.holdsZ, sp]⟩
      intro k hk hne
      have : k = 0 := by simp [yBad] at hk; omega
      subst this
      simp [yBad, CRow.holdsZ, sp]
  proper := by
    intro c hc he
    simp [yBad] at hc
    rcases hc with rfl | rfl
    · simp at he
    · exact ⟨⟨[1, 0], false⟩, by simp [yBad], by simp [sp]⟩
  eqIndep := by
    intro f hf i hi
    have : i = 0 := by simp [yBad] at hi; omega
    subst this
    have := hf 1 (by omega)
    simpa [yBad] using this
  hasPoint := ⟨⟨[1, 0], false⟩, by simp [yBad], rfl, by simp⟩

theorem den_yBad : den false 1 [⟨[0, 1], true⟩] = den false 1 yBad.conSys := by
  ext p
  simp only [mem_den_false, SatRows, yBad, List.mem_cons, List.mem_nil_iff, or_false, forall_eq_or_imp,
    forall_eq, CRow.holds, evalRow, hom]
  simp
  intro h
  rw [h]; norm_num

/-- the conclusion of `hymin_of_engine` fails for `yBad`, which has every `EngineDD` field -/
theorem hymin_fails_without_facetPoints :
    EngineDD 1 yBad ∧
      (yBad.conSys.filter (!·.isTautological false)).length ≠ minCons 1 (den false 1 yBad.conSys) := by
  refine ⟨engine_yBad, ?_⟩
  have h2 : (yBad.conSys.filter (!·.isTautological false)).length = 2 := by decide
  have h1 : minCons 1 (den false 1 yBad.conSys) ≤ 1 :=
    Nat.sInf_le ⟨[⟨[0, 1], true⟩], by intro c hc; simp at hc; subst hc; rfl, rfl, den_yBad⟩
  omega

end PPLV.Widen.Impl
