import PPLV.Widen.ImplH79ProofsEngineBridge2
import PPLV.Widen.ImplH79ProofsEngineBridgeEq
import PPLV.Widen.ImplH79ProofsEngineBridgeLen
import PPLV.Widen.ImplH79ProofsEngineBridgeLen2

/-!
# C08 stage 2b — `EngineDD` is a THEOREM about the conversion engine model

`engineDD_of_minimize`: what `PPLV.Conv.minimize true false (n + 1) source sat0` (closed polyhedra,
constraints to generators; the model tied row for row to `Polyhedron::minimize` by property C01) returns,
read through `ofEngine`, satisfies every field of the contract `EngineDD n` that the H79 convergence
theorems of C08 assume about minimised systems — when it does not report "empty" and the source rows have
`n + 1` columns.  No hypothesis is left about the engine.

Fields and where they come from:
`wf` / `gwf` — `minimize_source_length` / `minimize_dest_length` (`…BridgeLen`, `…BridgeLen2`);
`satG_ok` — definition of `ofEngine`; `gens_in` — `C01.minimize_dest_sound` + `C01.minimize_same_set`;
`complete` — `C01.minimize_same_set` + `C01.conversion_complete`; `irred` — `C01.minimize_minimal_form` +
`minimize_source_le_iff` (`…BridgeEq`); `proper` — `minimize_proper` (`…BridgeEq`: equality detection);
`eqIndep` — `minimize_eq_indep` (`…BridgeIndep`: echelon form of `gauss` kept by `back_substitute`);
`hasPoint` — `minimize_hasPoint` + `LinesFirst` of `C01.conversion_dd_pair`.
-/
namespace PPLV.Widen.Impl
open PPLV.Conv

/-- **`engineDD_of_minimize`** — the contract `EngineDD` holds of the result of the engine's `minimize`. -/
theorem engineDD_of_minimize (n : Nat) (source : List PPLV.Conv.LRow) (sat0 : List PPLV.Conv.BRow)
    (hsz : n + 1 < 2 ^ 64) (hsrc : source.length < 2 ^ 64)
    (hlen : ∀ s ∈ source, s.v.length = n + 1)
    (hne : (PPLV.Conv.minimize true false (n + 1) source sat0).empty = false) :
    EngineDD n (ofEngine (PPLV.Conv.minimize true false (n + 1) source sat0)) :=
  engineDD_of_minimize_core n source sat0 hsz hsrc hne
    (minimize_source_length n source sat0 hlen hne)
    (minimize_dest_length n source sat0 hlen)
    (minimize_source_le_iff (n + 1) source sat0 hsz hsrc hne)
    (minimize_proper (n + 1) source sat0 hsz hsrc hne)

/-- non-vacuity: the segment `0 ≤ x ≤ 3` (`n = 1`; rows `d ≥ 0` is implied): `minimize` does not report
empty, and the hypotheses of `engineDD_of_minimize` hold. -/
example : EngineDD 1 (ofEngine (minimize true false 2 [⟨false, [0, 1]⟩, ⟨false, [3, -1]⟩] [])) :=
  engineDD_of_minimize 1 _ [] (by norm_num) (by simp) (by decide) (by decide)

example : (ofEngine (minimize true false 2 [⟨false, [0, 1]⟩, ⟨false, [3, -1]⟩] [])).conSys.length = 2 ∧
    (ofEngine (minimize true false 2 [⟨false, [0, 1]⟩, ⟨false, [3, -1]⟩] [])).genSys.length = 2 := by
  decide

end PPLV.Widen.Impl
