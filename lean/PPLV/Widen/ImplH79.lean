import PPLV.Widen.Model
/-!
# C08 stage 2 — `Polyhedron::H79_widening_assign` as coded (executable model, no Mathlib)

Code-shaped model of `/repo/src/Polyhedron_widenings.cc`:

* `select_CH78_constraints` (l. 40), `select_H79_constraints` (l. 68) — the selection through the
  saturation-row comparison: for each constraint of `x` the `Bit_Row` of the generators of `y` that do
  **not** saturate it is built and looked up among the rows of `y.sat_g` (tautologies removed by the
  swap-with-last loop, literally, including its quirk);
* `H79_widening_assign` (l. 165): the trivial returns, the topology handling (C: `y.minimize()`,
  NNC: `yy.intersection_assign(x)`), the [CousotH78] shortcut when only the generators of `x` are
  available, the token logic (`tp`), the final `add_recycled_constraints` into a universe polyhedron;
* `limited_H79_extrapolation_assign` (l. 300).

Rows are the raw `Linear_Expression` rows of the library: index `0` = inhomogeneous term (constraints)
resp. divisor (generators), index `i ≥ 1` = coefficient of `Variable(i-1)`, and for NNC polyhedra one
more column `n+1`, the epsilon coefficient.  `Scalar_Products::sign` is the sign of the product over
**all** columns, `reduced_sign` omits the epsilon column.

What the model does not compute itself are the conversions (Chernikova): the states of `y` after
`minimize()` / `intersection_assign` / `strongly_minimize_constraints` + `update_generators` and the
constraint system of `x` after `update_constraints()` / `process_pending_generators()` enter as an
`Oracle`, whose contract (`PPLV/Widen/ImplH79Proofs.lean`: the pair is a double description of the same
set, `sat_g` is the saturation matrix of the pair) is checked on the journalled data of every real
step by the driver.
-/
namespace PPLV.Widen.Impl

abbrev Vec := List Int

/-- `Scalar_Products::assign(z, x, y)`: `Σ x[i] * y[i]` (Scalar_Products.cc:31) -/
def sp : Vec → Vec → Int
  | a :: as, b :: bs => a * b + sp as bs
  | _, _ => 0

/-- `Scalar_Products::reduced_assign(z, x, y)`: the columns `0 .. x.space_dimension()-1`, i.e. all of
    `x` but its last (epsilon) column (Scalar_Products.cc:73) -/
def spReduced (x y : Vec) : Int := sp x.dropLast y

/-- a row of a `Constraint_System`: `expr` and the `is_line_or_equality` flag -/
structure CRow where
  e : Vec
  eq : Bool
deriving DecidableEq, Repr, Inhabited

/-- a row of a `Generator_System` -/
structure GRow where
  e : Vec
  line : Bool
deriving DecidableEq, Repr, Inhabited

/-- `expr.all_homogeneous_terms_are_zero()` (the epsilon column counts as homogeneous) -/
def allHomZero (e : Vec) : Bool := e.tail.all (· == 0)

/-- `epsilon_coefficient()` of an NNC row: the last column -/
def epsCoeff (e : Vec) : Int := e.getLastD 0

/-- `Constraint::is_tautological()` (Constraint.cc:105) -/
def CRow.isTautological (nnc : Bool) (c : CRow) : Bool :=
  if allHomZero c.e then
    (if c.eq then c.e.headD 0 == 0 else decide (c.e.headD 0 ≥ 0))
  else if !nnc then false
  else
    let epsSign := epsCoeff c.e
    if epsSign > 0 then true
    else if epsSign == 0 then false
    else if c.e.headD 0 ≤ 0 then false
    else allHomZero c.e.dropLast      -- `expression()` hides the epsilon column

/-- `Constraint::type()`: 0 equality, 1 non-strict, 2 strict -/
def CRow.type (nnc : Bool) (c : CRow) : Nat :=
  if c.eq then 0 else if !nnc then 1 else if epsCoeff c.e < 0 then 2 else 1

def CRow.isStrict (nnc : Bool) (c : CRow) : Bool := c.type nnc == 2

/-- `Generator::is_point()`: not a line/ray and (NNC) positive epsilon -/
def GRow.isLineOrRay (g : GRow) : Bool := g.e.headD 0 == 0
def GRow.isPoint (nnc : Bool) (g : GRow) : Bool :=
  !g.isLineOrRay && (!nnc || decide (epsCoeff g.e > 0))
def GRow.isClosurePoint (nnc : Bool) (g : GRow) : Bool :=
  nnc && !g.isLineOrRay && epsCoeff g.e == 0
def GRow.isRay (g : GRow) : Bool := g.isLineOrRay && !g.line

/-- `Topology_Adjusted_Scalar_Product_Sign(c)(c, g)` -/
def spsAdj (nnc : Bool) (c : CRow) (g : GRow) : Int := if nnc then spReduced c.e g.e else sp c.e g.e

/-- `Generator_System::satisfied_by_all_generators(c)` (Generator_System.cc:675) -/
def satisfiedByAllGenerators (nnc : Bool) (gs : List GRow) (c : CRow) : Bool :=
  match c.type nnc with
  | 0 => gs.all fun g => spsAdj nnc c g == 0
  | 1 => gs.all fun g => if g.line then spsAdj nnc c g == 0 else decide (spsAdj nnc c g ≥ 0)
  | _ => gs.all fun g =>
      if g.isPoint nnc then decide (spsAdj nnc c g > 0)
      else if g.line then spsAdj nnc c g == 0
      else decide (spsAdj nnc c g ≥ 0)

/-- `select_CH78_constraints(y, cs_selection)` (l. 40): the constraints of `y` satisfied by all the
    generators of `x`, in the order of `y.con_sys` -/
def selectCH78Constraints (nnc : Bool) (xGens : List GRow) (yCons : List CRow) : List CRow :=
  yCons.filter (satisfiedByAllGenerators nnc xGens)

/-! ## saturation rows -/

/-- a `Bit_Row` over the generators of `y`: bit `j` set iff the scalar product with generator `j` is
    positive.  (Represented by the list of booleans of length `y.gen_sys.num_rows()`; `Bit_Row`
    equality ignores trailing zero bits, and all rows here have the same length.) -/
abbrev BitRow := List Bool

/-- the `buffer` of `select_H79_constraints` (l. 141–152): `buffer.set(j)` iff
    `Scalar_Products::sign(ci, y.gen_sys[j]) > 0` -/
def satRow (ci : CRow) (yGens : List GRow) : BitRow := yGens.map fun g => decide (sp ci.e g.e > 0)

/-- `swap(v[i], v[j])` -/
def swapAt {α : Type} [Inhabited α] (v : List α) (i j : Nat) : List α :=
  let a := v.getD i default
  let b := v.getD j default
  (v.set i b).set j a

/-- the loop l. 105–111: `for (i = 0; i < num_rows; ++i) if (y_cs[i].is_tautological())
    { --num_rows; swap(tmp_sat_g[i], tmp_sat_g[num_rows]); }` — state `(tmp_sat_g, num_rows)`;
    `fuel` = `old_num_rows - i`.  Literal: after a swap the row now at `i` is **not** re-examined, and
    `y_cs[i]` is always the constraint of the *original* position `i`. -/
def dropTautLoop (nnc : Bool) (yCs : List CRow) : Nat → Nat → List BitRow × Nat → List BitRow × Nat
  | 0, _, st => st
  | fuel + 1, i, (tmp, numRows) =>
    if i < numRows then
      if (yCs.getD i default).isTautological nnc then
        dropTautLoop nnc yCs fuel (i + 1) (swapAt tmp i (numRows - 1), numRows - 1)
      else dropTautLoop nnc yCs fuel (i + 1) (tmp, numRows)
    else (tmp, numRows)

/-- `tmp_sat_g` after `remove_trailing_rows` (l. 97–112; sorting only serves the lookup) -/
def tmpSatG (nnc : Bool) (yCs : List CRow) (satG : List BitRow) : List BitRow :=
  let r := dropTautLoop nnc yCs yCs.length 0 (satG, yCs.length)
  r.1.take r.2

/-- `tmp_sat_g.sorted_contains(buffer)`: membership (rows compared as bit sets) -/
def sortedContains (m : List BitRow) (b : BitRow) : Bool := m.any (· == b)

/-- `select_H79_constraints(y, cs_selected, cs_not_selected)` (l. 68), given `y` in the state the
    function leaves it in (`yCs`, `yGens`, `ySatG` = `y.sat_g`): the pair
    `(cs_selected, cs_not_selected)`, each in the order of `x.con_sys` -/
def selectH79Constraints (nnc : Bool) (xCs : List CRow) (yCs : List CRow) (yGens : List GRow)
    (ySatG : List BitRow) : List CRow × List CRow :=
  let tmp := tmpSatG nnc yCs ySatG
  xCs.partition fun ci => sortedContains tmp (satRow ci yGens)

/-- the mutant "sat row is a SUBSET of a row of `tmp_sat_g`" (used by the driver's self-test only) -/
def selectH79ConstraintsSubsetMutant (nnc : Bool) (xCs yCs : List CRow) (yGens : List GRow)
    (ySatG : List BitRow) : List CRow × List CRow :=
  let tmp := tmpSatG nnc yCs ySatG
  xCs.partition fun ci => tmp.any fun r => (List.zipWith (fun a b => !a || b) (satRow ci yGens) r).all id

/-! ## the objects -/

/-- the part of the state of a `Polyhedron` the function reads -/
structure Poly where
  nnc : Bool
  n : Nat
  markedEmpty : Bool
  /-- `has_pending_generators()` -/
  pendingGens : Bool
  /-- `constraints_are_up_to_date()` -/
  consUpToDate : Bool
  conSys : List CRow
  genSys : List GRow
deriving Repr, Inhabited

/-- `y` in minimal form, as the function sees it after its own calls -/
structure YMin where
  conSys : List CRow
  genSys : List GRow
  satG : List BitRow
deriving Repr, Inhabited

/-- results of the conversions the function calls (not modelled; contract in `ImplH79Proofs`) -/
structure Oracle where
  /-- C: `y.minimize()`; NNC: `yy.intersection_assign(x); yy.is_empty()` — `none`: `y` found empty -/
  yMin : Option YMin
  /-- `x.con_sys` after `process_pending_generators()` / `update_constraints()` (l. 257–262);
      equal to `x.conSys` when the constraints were already up to date -/
  xConsUpdated : List CRow
  /-- `y` after the NNC workaround inside `select_H79_constraints` (l. 86–91) and `update_sat_g`;
      for C polyhedra the same as `yMin` -/
  ySel : YMin
  /-- `x.contains(P)` for the polyhedron `P` defined by a constraint system -/
  xContains : List CRow → Bool

/-- what the function leaves in `*this` -/
inductive Res where
  | unchanged                    -- `return;`
  | assignY                      -- `x = y;`
  | fresh (cs : List CRow)       -- `Polyhedron(topol, dim, UNIVERSE).add_recycled_constraints(cs); x.m_swap(…)`
deriving Repr, Inhabited

/-- the shared tail (l. 232–243 and l. 284–295): tokens or swap -/
def commit (o : Oracle) (cs : List CRow) (tp : Option Nat) : Res × Option Nat :=
  match tp with
  | some t =>
    if t > 0 then (if !o.xContains cs then (.unchanged, some (t - 1)) else (.unchanged, some t))
    else (.fresh cs, tp)
  | none => (.fresh cs, tp)

/-- number of equalities of a system (`num_equalities()`) -/
def numEqualities (cs : List CRow) : Nat := (cs.filter (·.eq)).length

/-- `Polyhedron::H79_widening_assign(y, tp)` (l. 165).  `tp = none` is the null pointer. -/
def h79WideningAssign (x : Poly) (yMarkedEmpty : Bool) (o : Oracle) (tp : Option Nat) :
    Res × Option Nat :=
  -- l. 181
  if x.n == 0 || x.markedEmpty || yMarkedEmpty then (.unchanged, tp) else
  -- l. 187–207
  match o.yMin with
  | none => (.unchanged, tp)
  | some y =>
    -- l. 213–246: the [CousotH78] shortcut
    let viaCH78 : Option (Res × Option Nat) :=
      if x.pendingGens || !x.consUpToDate then
        let ch78 := selectCH78Constraints x.nnc x.genSys y.conSys
        if ch78.length == y.conSys.length then some (.assignY, tp)
        else if numEqualities ch78 == numEqualities y.conSys then some (commit o ch78 tp)
        else none
      else none
    match viaCH78 with
    | some r => r
    | none =>
      -- l. 257–267
      let sel := selectH79Constraints x.nnc o.xConsUpdated o.ySel.conSys o.ySel.genSys o.ySel.satG
      if sel.2.isEmpty then (.unchanged, tp)        -- l. 269
      else commit o sel.1 tp                        -- l. 274–296

/-- `limited_H79_extrapolation_assign(y, cs, tp)` (l. 300) on the same data: the supplied constraints
    satisfied by all generators of `x` (`xGens` = `x.gen_sys` after the update of l. 370) are added to
    whatever the widening left in `x` -/
def limitedH79 (x : Poly) (yMarkedEmpty : Bool) (o : Oracle) (xGens : List GRow) (cs : List CRow)
    (tp : Option Nat) : Res × List CRow × Option Nat :=
  let newCs := cs.filter (satisfiedByAllGenerators x.nnc xGens)
  let r := h79WideningAssign x yMarkedEmpty o tp
  (r.1, newCs, r.2)

end PPLV.Widen.Impl
