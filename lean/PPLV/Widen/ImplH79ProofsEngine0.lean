import PPLV.Widen.ImplPolySem
import Mathlib.Algebra.BigOperators.Group.Finset.Basic

/-!
# C08 stage 2b — what the conversion engine guarantees about a minimised closed polyhedron, in the
vocabulary of `ImplH79.lean` (interface between the geometric derivations of `MinimalDD.hfacet` /
`MinimalDD.hymin` and the bridge to `PPLV.Conv.minimize`, `Props/C01ConvComplete`, `Props/C01ConvMinimal`)

Everything is stated on INTEGER vectors of the homogeneous space (`n + 1` columns): the cones are
homogeneous, so every "small ε" argument can be done with a large integer multiple instead.
-/
namespace PPLV.Widen.Impl

/-- the row holds at the integer vector `v` of the homogeneous space -/
def CRow.holdsZ (c : CRow) (v : Vec) : Prop := if c.eq then sp c.e v = 0 else 0 ≤ sp c.e v

instance (c : CRow) (v : Vec) : Decidable (c.holdsZ v) := by unfold CRow.holdsZ; infer_instance

/-- what `minimize()` of the engine model guarantees about `(con_sys, gen_sys, sat_g)` of a non-empty
closed polyhedron of dimension `n` -/
structure EngineDD (n : Nat) (y : YMin) : Prop where
  wf : WFRows n y.conSys
  gwf : ∀ g ∈ y.genSys, g.e.length = n + 1
  satG_ok : y.satG = y.conSys.map fun c => satRow c y.genSys
  /-- soundness: every generator satisfies every row (lines and equalities: scalar product zero) -/
  gens_in : ∀ g ∈ y.genSys, ∀ c ∈ y.conSys,
    if c.eq || g.line then sp c.e g.e = 0 else 0 ≤ sp c.e g.e
  /-- completeness (`conversion_complete`): every vector of the cone is a combination of the generators,
      non-negative on rays and points, with a common positive denominator -/
  complete : ∀ v : Vec, v.length = n + 1 → (∀ c ∈ y.conSys, c.holdsZ v) →
    ∃ (den : Int) (coef : List Int), 0 < den ∧ coef.length = y.genSys.length ∧
      (∀ i (h : i < y.genSys.length), y.genSys[i].line = false → 0 ≤ coef.getD i 0) ∧
      ∀ c : Vec, den * sp c v =
        ((List.range y.genSys.length).map fun i => coef.getD i 0 * sp c (y.genSys.getD i default).e).sum
  /-- minimal form (`simplify_result_irredundant`): every inequality has a vector violating only it -/
  irred : ∀ i, i < y.conSys.length → (y.conSys.getD i default).eq = false →
    ∃ v : Vec, v.length = n + 1 ∧
      (∀ k, k < y.conSys.length → k ≠ i → (y.conSys.getD k default).holdsZ v) ∧
      ¬ (y.conSys.getD i default).holdsZ v
  /-- equality detection of `simplify`: no inequality is saturated by every generator -/
  proper : ∀ c ∈ y.conSys, c.eq = false → ∃ g ∈ y.genSys, 0 < sp c.e g.e
  /-- `gauss`: the equalities are linearly independent -/
  eqIndep : ∀ f : Nat → Rat,
    (∀ k, k < n + 1 → ∑ i ∈ Finset.range (y.conSys.filter (·.eq)).length,
        f i * (((y.conSys.filter (·.eq)).getD i default).e.getD k 0 : Rat) = 0) →
    ∀ i, i < (y.conSys.filter (·.eq)).length → f i = 0
  /-- `hasPoint`: the polyhedron is not empty -/
  hasPoint : ∃ g ∈ y.genSys, g.line = false ∧ 0 < g.e.headD 0

end PPLV.Widen.Impl
