import PPLV.Widen.ImplH79ProofsEngineMinG2
import Mathlib.LinearAlgebra.LinearIndependent.Lemmas

/-!
# C08 stage 2b — `hymin` from the engine guarantees: glue 3 (`Abs.Setup`, independence, row count)
-/
namespace PPLV.Widen.Impl

theorem setup_of_engine {n : Nat} {y : YMin} (hy : EngineDD n y) (hfp : FacetPoints y)
    (cs : List CRow) (wf : WFRows n cs) (hden : den false n cs = den false n y.conSys) :
    Abs.Setup x0L (famA y) (famC y) (famD cs) where
  pstar := by
    obtain ⟨p, hp0, hps, hpl⟩ := pstar_aux hy (ineqsOf y)
      (fun c hc => ⟨(mem_ineqsOf.mp hc).1, (mem_ineqsOf.mp hc).2.1⟩)
    refine ⟨p, hp0, ((inK_iff_sat y p hp0).mpr hps).1, ?_⟩
    intro j
    exact hpl _ (List.get_mem (ineqsOf y) j)
  irred := by
    intro j
    have hm := mem_ineqsOf.mp (List.get_mem (ineqsOf y) j)
    obtain ⟨v, hv1, hv2⟩ := irred_row hy hm.1 hm.2.1
    refine ⟨vecQ v, ?_, ?_, ?_⟩
    · intro i
      have hi := mem_eqsOf.mp (List.get_mem (eqsOf y) i)
      have hne : (eqsOf y).get i ≠ (ineqsOf y).get j := by
        intro h; rw [h] at hi; rw [hm.2.1] at hi; exact absurd hi.2 (by simp)
      exact (holds_eq hi.2 _).mp ((holds_vecQ _ v).mpr (hv1 _ hi.1 hne))
    · intro k hkj
      have hk := mem_ineqsOf.mp (List.get_mem (ineqsOf y) k)
      have hne : (ineqsOf y).get k ≠ (ineqsOf y).get j := by
        intro h
        exact hkj ((List.nodup_iff_injective_get.mp (ineqsOf_nodup hy)) h)
      exact (holds_ineq hk.2.1 _).mp ((holds_vecQ _ v).mpr (hv1 _ hk.1 hne))
    · have h := mt (holds_vecQ ((ineqsOf y).get j) v).mp hv2
      rw [holds_ineq hm.2.1] at h
      exact not_le.mp h
  facetPt := by
    intro j
    have hm := mem_ineqsOf.mp (List.get_mem (ineqsOf y) j)
    obtain ⟨g, hg, _, hg0, hsp⟩ := hfp _ hm.1 hm.2.1 hm.2.2
    have h0 : 0 < vecQ g.e 0 := by rw [vecQ_zero]; exact_mod_cast hg0
    refine ⟨vecQ g.e, h0, (inK_iff_sat y _ h0).mpr (gen_holds hy hg), ?_⟩
    simp only [famC, evalL_apply, evalRow_vecQ, hsp]
    simp
  same := by
    intro v hv
    have hv' : 0 < v 0 := hv
    rw [inK_iff_sat y v hv', ← satRows_iff_famD]
    exact satRows_iff_of_den_eq n y.conSys cs hy.wf wf hden v hv'

/-! ### the equalities are linearly independent functionals -/

theorem evalRow_single : ∀ (e : Vec) (k : Nat), evalRow e (Pi.single k 1) = ((e.getD k 0 : Int) : Rat)
  | [], k => by simp [evalRow]
  | a :: as, 0 => by
    have h : (fun i => (Pi.single 0 1 : Nat → Rat) (i + 1)) = fun _ => 0 := by
      funext i; simp
    simp [evalRow, evalRow_zero_funM]
  | a :: as, k + 1 => by
    have h : (fun i => (Pi.single (k + 1) 1 : Nat → Rat) (i + 1)) = Pi.single k 1 := by
      funext i; simp [Pi.single_apply]
    simp [evalRow, h, evalRow_single as k]

theorem famA_indep {n : Nat} {y : YMin} (hy : EngineDD n y) : LinearIndependent ℚ (famA y) := by
  rw [Fintype.linearIndependent_iff]
  intro g hg i
  let f : Nat → Rat := fun i => if h : i < (eqsOf y).length then g ⟨i, h⟩ else 0
  have hf : ∀ i : Fin (eqsOf y).length, f i.val = g i := by
    intro i; simp [f]
  have key := hy.eqIndep f ?_ i.val i.2
  · rw [← hf i]; exact key
  · intro k _
    have h1 := congrArg (fun L : (Nat → Rat) →ₗ[ℚ] ℚ => L (Pi.single k 1)) hg
    simp only [LinearMap.sum_apply, LinearMap.smul_apply, smul_eq_mul,
      LinearMap.zero_apply] at h1
    show ∑ i ∈ Finset.range (eqsOf y).length,
      f i * ((((eqsOf y).getD i default).e.getD k 0 : Int) : Rat) = 0
    rw [Finset.sum_range]
    rw [← h1]
    apply Finset.sum_congr rfl
    intro j _
    rw [hf j]
    congr 1
    simp only [famA, evalL_apply, evalRow_single]
    have : (eqsOf y).getD j.val default = (eqsOf y).get j := by
      rw [List.getD_eq_getElem _ _ j.2]; rfl
    rw [this]

/-- no equality row is a tautology -/
theorem eq_not_taut {n : Nat} {y : YMin} (hy : EngineDD n y) {c : CRow} (hc : c ∈ y.conSys)
    (hce : c.eq = true) : c.isTautological false = false := by
  by_contra ht
  have ht' : c.isTautological false = true := by simpa using ht
  obtain ⟨i, hi⟩ := List.get_of_mem (mem_eqsOf.mpr ⟨hc, hce⟩)
  have hne := (famA_indep hy).ne_zero i
  apply hne
  apply LinearMap.ext
  intro v
  simp only [famA, evalL_apply, hi, LinearMap.zero_apply]
  unfold CRow.isTautological at ht'
  by_cases hz : allHomZero c.e = true
  · rw [if_pos hz, if_pos hce] at ht'
    apply evalRow_all_zero
    rcases c with ⟨e, eq⟩
    cases e with
    | nil => rfl
    | cons a as =>
      simp only [List.headD_cons, beq_iff_eq] at ht'
      simp only [allHomZero, List.tail_cons] at hz
      simp [ht', hz]
  · rw [if_neg hz] at ht'
    simp at ht'

theorem len_split : ∀ (cs : List CRow), (∀ c ∈ cs, c.eq = true → c.isTautological false = false) →
    (cs.filter (!·.isTautological false)).length =
      (cs.filter (·.eq)).length + (cs.filter (fun c => !c.eq && !c.isTautological false)).length
  | [], _ => rfl
  | c :: cs, h => by
    have ih := len_split cs (fun c' hc' => h c' (List.mem_cons_of_mem _ hc'))
    have hc := h c List.mem_cons_self
    cases hce : c.eq <;> cases hct : c.isTautological false <;>
      simp [hce, hct] at hc ⊢ <;> omega

theorem nontaut_length {n : Nat} {y : YMin} (hy : EngineDD n y) :
    (y.conSys.filter (!·.isTautological false)).length = (eqsOf y).length + (ineqsOf y).length :=
  len_split y.conSys (fun _ hc hce => eq_not_taut hy hc hce)

end PPLV.Widen.Impl
