import PPLV.Widen.ImplShapeProofsLimBD3
import PPLV.Widen.ImplShapeProofsLimRange
import PPLV.Widen.ImplShapeProofsLimFails
import Mathlib.Tactic.Linarith
import Mathlib.Tactic.Push
import Mathlib.Algebra.Order.Field.Rat
/-!
# C08 stage 2 — `BD_Shape`: supplied equalities, and what the kept cell means for the supplied constraint itself
when `div_round_up` is exact
-/
namespace PPLV.Widen
open PPLV.WR
open PPLV.WR.ExtRat (fin pinf le_rfl' le_trans' le_total' le_pinf fin_le_fin)

/-! ## equalities along the fold -/

/-- a supplied equality whose two cells in the closed receiver are EXACTLY the two bounds (`x = d`, `y = d1`) is
kept: both limiting cells end up at most their bounds.  (The limiting matrix dominates the receiver, so the
limiting cells are still at or above the bounds when the equality is reached, and the test of `:3209-3210`
either writes both or finds both equal already.) -/
theorem bdLimitFold_keeps_eq (up : Rat → ExtRat) (csd : Nat) (dbm : Mat) (cs : List LimCon) (st : Mat × Bool)
    (hdom : ∀ a b, dbm a b ≤ st.1 a b)
    (c : LimCon) (hc : c ∈ cs) (hsel : bdLimSel csd c = true) (heq : c.isEq = true)
    (hx : dbm (bdLimCell csd c).1 (bdLimCell csd c).2 ≤ bdLimBound up csd c)
    (hy : dbm (bdLimCell csd c).2 (bdLimCell csd c).1 ≤ bdLimBound1 up csd c)
    (hlx : bdLimBound up csd c ≤ dbm (bdLimCell csd c).1 (bdLimCell csd c).2)
    (hly : bdLimBound1 up csd c ≤ dbm (bdLimCell csd c).2 (bdLimCell csd c).1) :
    (cs.foldl (bdLimitStep up csd dbm) st).1 (bdLimCell csd c).1 (bdLimCell csd c).2 ≤ bdLimBound up csd c ∧
    (cs.foldl (bdLimitStep up csd dbm) st).1 (bdLimCell csd c).2 (bdLimCell csd c).1 ≤ bdLimBound1 up csd c := by
  induction cs generalizing st with
  | nil => cases hc
  | cons c' cs ih =>
    rcases List.mem_cons.mp hc with h | h
    · subst h
      obtain ⟨h1, h2⟩ := bdLimitStep_keeps_eq up csd dbm st c hsel (bdLimCell_range csd c hsel).2.2 hx hy
        (le_trans' hlx (hdom _ _)) (le_trans' hly (hdom _ _)) heq
      exact ⟨le_trans' (bdLimitFold_le up csd dbm cs _ _ _) h1, le_trans' (bdLimitFold_le up csd dbm cs _ _ _) h2⟩
    · exact ih _ (bdLimitStep_dom up csd dbm st c' hdom) h

theorem bdGetLimitingShape_keeps_eq (up : Rat → ExtRat) (n csd : Nat) (cs : List LimCon) (x : BDS)
    (c : LimCon) (hc : c ∈ cs) (hsel : bdLimSel csd c = true) (heq : c.isEq = true)
    (hx : (bdClosureAssign up n x).dbm (bdLimCell csd c).1 (bdLimCell csd c).2 ≤ bdLimBound up csd c)
    (hy : (bdClosureAssign up n x).dbm (bdLimCell csd c).2 (bdLimCell csd c).1 ≤ bdLimBound1 up csd c)
    (hlx : bdLimBound up csd c ≤ (bdClosureAssign up n x).dbm (bdLimCell csd c).1 (bdLimCell csd c).2)
    (hly : bdLimBound1 up csd c ≤ (bdClosureAssign up n x).dbm (bdLimCell csd c).2 (bdLimCell csd c).1) :
    (bdGetLimitingShape up n csd cs x BDS.univ).2.dbm (bdLimCell csd c).1 (bdLimCell csd c).2 ≤ bdLimBound up csd c ∧
    (bdGetLimitingShape up n csd cs x BDS.univ).2.dbm (bdLimCell csd c).2 (bdLimCell csd c).1
      ≤ bdLimBound1 up csd c := by
  rw [bdGetLimitingShape_dbm]
  exact bdLimitFold_keeps_eq up csd _ cs _ (fun a b => le_pinf _) c hc hsel heq hx hy hlx hly

/-- on a receiver that has a point, with exact quotients `d = q`, `d1 = -q`, passing both tests `x <= d`,
`y <= d1` forces `x = d` and `y = d1` -/
theorem bd_eq_cells_exact {n : Nat} {s : BDS} {p0 : Nat → Rat} (hp0 : BDS.γ n s p0) {a b : Nat} (ha : a ≤ n)
    (hb : b ≤ n) {q : Rat} (hx : s.dbm a b ≤ fin q) (hy : s.dbm b a ≤ fin (-q)) :
    fin q ≤ s.dbm a b ∧ fin (-q) ≤ s.dbm b a := by
  have h1 := hp0.2 a b ha hb
  have h2 := hp0.2 b a hb ha
  cases hab : s.dbm a b with
  | pinf => rw [hab] at hx; cases hx
  | fin u =>
    cases hba : s.dbm b a with
    | pinf => rw [hba] at hy; cases hy
    | fin v =>
      rw [hab] at hx h1
      rw [hba] at hy h2
      rw [fin_le_fin] at hx hy h1 h2 ⊢
      rw [fin_le_fin]
      constructor <;> linarith

/-! ## from the cell to the points, generically -/

theorem bdLimited_cell_le (n : Nat) (Xc P ls : BDS) (hP : BDS.Dom Xc P) (hls : ls.empty = false)
    (hdom : ∀ a b, Xc.dbm a b ≤ ls.dbm a b) (hn : n ≠ 0) (a b : Nat) (ha : a ≤ n) (hb : b ≤ n) (d : ExtRat)
    (hd : ls.dbm a b ≤ d) (p : Nat → Rat) (hp : BDS.γ n (bdIntersectionAssign n P ls) p) :
    fin (DBM.val p b - DBM.val p a) ≤ d := by
  obtain ⟨h1, _, _, h4⟩ := bdLimited_core n Xc P ls hP hls hdom
  exact le_trans' (hp.2 a b ha hb) (le_trans' (h4 (h1.symm.trans hp.1) hn a b ha hb) hd)

/-! ## exact quotients: the supplied constraint itself -/

theorem bdLimSel_shape (csd : Nat) (c : LimCon) (hsel : bdLimSel csd c = true) :
    BDShape csd c.coeff (extractBoundedDifference csd c.coeff) := by
  unfold bdLimSel at hsel
  simp only [Bool.and_eq_true, bne_iff_ne, ne_eq] at hsel
  rcases extractBoundedDifference_spec csd c.coeff hsel.1 with h | h
  · exact absurd h.1 hsel.2
  · exact h.2

/-- `v_col - v_row ≤ inhomo / |coeff|` is the supplied inequality `cf·v + inhomo ≥ 0` -/
theorem bd_exact_ineq_holds (csd : Nat) (c : LimCon) (hsel : bdLimSel csd c = true) (p : Nat → Rat)
    (h : DBM.val p (bdLimCell csd c).2 - DBM.val p (bdLimCell csd c).1
      ≤ (c.inhomo : Rat) / (bdLimCoeff csd c : Rat)) :
    0 ≤ linEval c.coeff p csd + c.inhomo := by
  have hs := bdLimSel_shape csd c hsel
  rw [hs.hlin]
  unfold bdLimCell bdLimCoeff at h
  by_cases hneg : (extractBoundedDifference csd c.coeff).coeff < 0
  · simp only [hneg, if_true] at h
    have hc : (0 : Rat) < ((-(extractBoundedDifference csd c.coeff).coeff : Int) : Rat) := by
      exact_mod_cast (by omega : 0 < -(extractBoundedDifference csd c.coeff).coeff)
    rw [le_div_iff₀ hc] at h
    push_cast at h
    linarith
  · simp only [hneg, if_false] at h
    have hne := hs.hc
    have hc : (0 : Rat) < ((extractBoundedDifference csd c.coeff).coeff : Rat) := by
      exact_mod_cast (by omega : 0 < (extractBoundedDifference csd c.coeff).coeff)
    rw [le_div_iff₀ hc] at h
    linarith

/-- the other half: `v_row - v_col ≤ -inhomo / |coeff|` is `cf·v + inhomo ≤ 0` -/
theorem bd_exact_ineq_holds1 (csd : Nat) (c : LimCon) (hsel : bdLimSel csd c = true) (p : Nat → Rat)
    (h : DBM.val p (bdLimCell csd c).1 - DBM.val p (bdLimCell csd c).2
      ≤ ((- c.inhomo : Int) : Rat) / (bdLimCoeff csd c : Rat)) :
    linEval c.coeff p csd + c.inhomo ≤ 0 := by
  have hs := bdLimSel_shape csd c hsel
  rw [hs.hlin]
  unfold bdLimCell bdLimCoeff at h
  by_cases hneg : (extractBoundedDifference csd c.coeff).coeff < 0
  · simp only [hneg, if_true] at h
    have hc : (0 : Rat) < ((-(extractBoundedDifference csd c.coeff).coeff : Int) : Rat) := by
      exact_mod_cast (by omega : 0 < -(extractBoundedDifference csd c.coeff).coeff)
    rw [le_div_iff₀ hc] at h
    push_cast at h
    linarith
  · simp only [hneg, if_false] at h
    have hne := hs.hc
    have hc : (0 : Rat) < ((extractBoundedDifference csd c.coeff).coeff : Rat) := by
      exact_mod_cast (by omega : 0 < (extractBoundedDifference csd c.coeff).coeff)
    rw [le_div_iff₀ hc] at h
    push_cast at h
    linarith

/-- generic form: any result `P ⊓ limiting shape` with `P` dominating the closed receiver keeps, at the level of
the supplied constraint, every selected inequality whose quotient `div_round_up` computes exactly -/
theorem bdLimited_keeps_exact (up : Rat → ExtRat) (n csd : Nat) (cs : List LimCon) (X P : BDS)
    (hP : BDS.Dom (bdClosureAssign up n X) P) (hn : n ≠ 0) (hcsd : csd ≤ n)
    (c : LimCon) (hc : c ∈ cs) (hsel : bdLimSel csd c = true) (hineq : c.isEq = false)
    (hex : bdLimBound up csd c = fin ((c.inhomo : Rat) / (bdLimCoeff csd c : Rat)))
    (hsat : (bdClosureAssign up n X).dbm (bdLimCell csd c).1 (bdLimCell csd c).2 ≤ bdLimBound up csd c)
    (p : Nat → Rat)
    (hp : BDS.γ n (bdIntersectionAssign n P (bdGetLimitingShape up n csd cs X BDS.univ).2) p) :
    0 ≤ linEval c.coeff p csd + c.inhomo := by
  obtain ⟨r1, r2, _⟩ := bdLimCell_range csd c hsel
  have := bdLimited_cell_le n _ P _ hP (by rw [bdGetLimitingShape_empty]; rfl)
    (bdGetLimitingShape_dom up n csd cs X) hn _ _ (by omega) (by omega) _
    (bdGetLimitingShape_keeps up n csd cs X _ c hc hsel hineq hsat) p hp
  rw [hex, fin_le_fin] at this
  exact bd_exact_ineq_holds csd c hsel p this

/-- generic form for a supplied EQUALITY: the receiver has a point, both quotients are computed exactly, both
tests `x <= d`, `y <= d1` pass; then the equality holds at every point of the result -/
theorem bdLimited_keeps_eq_exact {up : Rat → ExtRat} (hup : ∀ q, fin q ≤ up q) (n csd : Nat) (cs : List LimCon)
    (X P : BDS) (hWF : BDS.WF n X)
    (hP : BDS.Dom (bdClosureAssign up n X) P) (hn : n ≠ 0) (hcsd : csd ≤ n)
    (c : LimCon) (hc : c ∈ cs) (hsel : bdLimSel csd c = true) (heq : c.isEq = true)
    (hex : bdLimBound up csd c = fin ((c.inhomo : Rat) / (bdLimCoeff csd c : Rat)))
    (hex1 : bdLimBound1 up csd c = fin (((- c.inhomo : Int) : Rat) / (bdLimCoeff csd c : Rat)))
    (hsat : (bdClosureAssign up n X).dbm (bdLimCell csd c).1 (bdLimCell csd c).2 ≤ bdLimBound up csd c)
    (hsat1 : (bdClosureAssign up n X).dbm (bdLimCell csd c).2 (bdLimCell csd c).1 ≤ bdLimBound1 up csd c)
    (p0 : Nat → Rat) (hp0 : BDS.γ n X p0) (p : Nat → Rat)
    (hp : BDS.γ n (bdIntersectionAssign n P (bdGetLimitingShape up n csd cs X BDS.univ).2) p) :
    linEval c.coeff p csd + c.inhomo = 0 := by
  obtain ⟨r1, r2, _⟩ := bdLimCell_range csd c hsel
  have hp0c := bdClosureAssign_γ hup hWF hp0
  have hneg : ((- c.inhomo : Int) : Rat) / (bdLimCoeff csd c : Rat)
      = - ((c.inhomo : Rat) / (bdLimCoeff csd c : Rat)) := by
    push_cast; ring
  have hsat' := hsat; have hsat1' := hsat1
  rw [hex] at hsat'
  rw [hex1, hneg] at hsat1'
  obtain ⟨hlx, hly⟩ := bd_eq_cells_exact hp0c (by omega : (bdLimCell csd c).1 ≤ n)
    (by omega : (bdLimCell csd c).2 ≤ n) hsat' hsat1'
  rw [← hex] at hlx
  rw [← hneg, ← hex1] at hly
  obtain ⟨k1, k2⟩ := bdGetLimitingShape_keeps_eq up n csd cs X c hc hsel heq hsat hsat1 hlx hly
  have a1 := bdLimited_cell_le n _ P _ hP (by rw [bdGetLimitingShape_empty]; rfl)
    (bdGetLimitingShape_dom up n csd cs X) hn _ _ (by omega) (by omega) _ k1 p hp
  have a2 := bdLimited_cell_le n _ P _ hP (by rw [bdGetLimitingShape_empty]; rfl)
    (bdGetLimitingShape_dom up n csd cs X) hn _ _ (by omega) (by omega) _ k2 p hp
  rw [hex, fin_le_fin] at a1
  rw [hex1, fin_le_fin] at a2
  exact le_antisymm (bd_exact_ineq_holds1 csd c hsel p a2) (bd_exact_ineq_holds csd c hsel p a1)

/-! ## the two limited extrapolations with exact quotients (e.g. `up = upId`, rational coefficients) -/

/-- CC76, supplied inequality, exact quotient: the supplied constraint itself holds on the result -/
theorem bd_limited_cc76_keeps_exact {up : Rat → ExtRat} (hup : ∀ q, fin q ≤ up q) (n csd : Nat)
    (cs : List LimCon) (X Y : BDS) (tp : Option Nat) (hn : n ≠ 0) (hx : X.empty = false) (hy : Y.empty = false)
    (hcsd : csd ≤ n) (c : LimCon) (hc : c ∈ cs) (hsel : bdLimSel csd c = true) (hineq : c.isEq = false)
    (hex : bdLimBound up csd c = fin ((c.inhomo : Rat) / (bdLimCoeff csd c : Rat)))
    (hsat : (bdClosureAssign up n X).dbm (bdLimCell csd c).1 (bdLimCell csd c).2 ≤ bdLimBound up csd c)
    (p : Nat → Rat) (hp : BDS.γ n (bdLimitedCC76 up n csd cs X Y tp).1 p) :
    0 ≤ linEval c.coeff p csd + c.inhomo := by
  rw [bdLimitedCC76_eq up n csd cs X Y tp hn hx hy] at hp
  exact bdLimited_keeps_exact up n csd cs X _
    (bdCC76_dom hup n defaultStops _ Y tp (bdClosureAssign_fix up n X)) hn hcsd c hc hsel hineq hex hsat p hp

/-- CC76, supplied equality, exact quotients, receiver with a point -/
theorem bd_limited_cc76_keeps_eq_exact {up : Rat → ExtRat} (hup : ∀ q, fin q ≤ up q) (n csd : Nat)
    (cs : List LimCon) (X Y : BDS) (tp : Option Nat) (hWF : BDS.WF n X)
    (hn : n ≠ 0) (hx : X.empty = false) (hy : Y.empty = false)
    (hcsd : csd ≤ n) (c : LimCon) (hc : c ∈ cs) (hsel : bdLimSel csd c = true) (heq : c.isEq = true)
    (hex : bdLimBound up csd c = fin ((c.inhomo : Rat) / (bdLimCoeff csd c : Rat)))
    (hex1 : bdLimBound1 up csd c = fin (((- c.inhomo : Int) : Rat) / (bdLimCoeff csd c : Rat)))
    (hsat : (bdClosureAssign up n X).dbm (bdLimCell csd c).1 (bdLimCell csd c).2 ≤ bdLimBound up csd c)
    (hsat1 : (bdClosureAssign up n X).dbm (bdLimCell csd c).2 (bdLimCell csd c).1 ≤ bdLimBound1 up csd c)
    (p0 : Nat → Rat) (hp0 : BDS.γ n X p0)
    (p : Nat → Rat) (hp : BDS.γ n (bdLimitedCC76 up n csd cs X Y tp).1 p) :
    linEval c.coeff p csd + c.inhomo = 0 := by
  rw [bdLimitedCC76_eq up n csd cs X Y tp hn hx hy] at hp
  exact bdLimited_keeps_eq_exact hup n csd cs X _ hWF
    (bdCC76_dom hup n defaultStops _ Y tp (bdClosureAssign_fix up n X)) hn hcsd c hc hsel heq hex hex1 hsat hsat1
    p0 hp0 p hp

/-- BHMZ05, supplied inequality, exact quotient -/
theorem bd_limited_bhmz05_keeps_exact (up : Rat → ExtRat) (n csd : Nat)
    (cs : List LimCon) (X Y : BDS) (tp : Option Nat) (hn : n ≠ 0) (hx : X.empty = false) (hy : Y.empty = false)
    (r : BDS × BDS × Option Nat × Mat) (hr : bdLimitedBHMZ05 up n csd cs X Y tp = some r)
    (hcsd : csd ≤ n) (c : LimCon) (hc : c ∈ cs) (hsel : bdLimSel csd c = true) (hineq : c.isEq = false)
    (hex : bdLimBound up csd c = fin ((c.inhomo : Rat) / (bdLimCoeff csd c : Rat)))
    (hsat : (bdClosureAssign up n X).dbm (bdLimCell csd c).1 (bdLimCell csd c).2 ≤ bdLimBound up csd c)
    (p : Nat → Rat) (hp : BDS.γ n r.1 p) :
    0 ≤ linEval c.coeff p csd + c.inhomo := by
  obtain ⟨P, hP, hR⟩ := bdLimitedBHMZ05_eq up n csd cs X Y tp hn hx hy r hr
  rw [hR] at hp
  exact bdLimited_keeps_exact up n csd cs X _
    (bdBHMZ05_dom up n _ Y tp (bdClosureAssign_fix up n X) P hP) hn hcsd c hc hsel hineq hex hsat p hp

/-- BHMZ05, supplied equality, exact quotients, receiver with a point -/
theorem bd_limited_bhmz05_keeps_eq_exact {up : Rat → ExtRat} (hup : ∀ q, fin q ≤ up q) (n csd : Nat)
    (cs : List LimCon) (X Y : BDS) (tp : Option Nat) (hWF : BDS.WF n X)
    (hn : n ≠ 0) (hx : X.empty = false) (hy : Y.empty = false)
    (r : BDS × BDS × Option Nat × Mat) (hr : bdLimitedBHMZ05 up n csd cs X Y tp = some r)
    (hcsd : csd ≤ n) (c : LimCon) (hc : c ∈ cs) (hsel : bdLimSel csd c = true) (heq : c.isEq = true)
    (hex : bdLimBound up csd c = fin ((c.inhomo : Rat) / (bdLimCoeff csd c : Rat)))
    (hex1 : bdLimBound1 up csd c = fin (((- c.inhomo : Int) : Rat) / (bdLimCoeff csd c : Rat)))
    (hsat : (bdClosureAssign up n X).dbm (bdLimCell csd c).1 (bdLimCell csd c).2 ≤ bdLimBound up csd c)
    (hsat1 : (bdClosureAssign up n X).dbm (bdLimCell csd c).2 (bdLimCell csd c).1 ≤ bdLimBound1 up csd c)
    (p0 : Nat → Rat) (hp0 : BDS.γ n X p0) (p : Nat → Rat) (hp : BDS.γ n r.1 p) :
    linEval c.coeff p csd + c.inhomo = 0 := by
  obtain ⟨P, hP, hR⟩ := bdLimitedBHMZ05_eq up n csd cs X Y tp hn hx hy r hr
  rw [hR] at hp
  exact bdLimited_keeps_eq_exact hup n csd cs X _ hWF
    (bdBHMZ05_dom up n _ Y tp (bdClosureAssign_fix up n X) P hP) hn hcsd c hc hsel heq hex hex1 hsat hsat1
    p0 hp0 p hp

/-- with `upId` (exact rational coefficients) both quotients are exact -/
theorem bdLimBound_upId (csd : Nat) (c : LimCon) :
    bdLimBound upId csd c = fin ((c.inhomo : Rat) / (bdLimCoeff csd c : Rat)) ∧
    bdLimBound1 upId csd c = fin (((- c.inhomo : Int) : Rat) / (bdLimCoeff csd c : Rat)) := ⟨rfl, rfl⟩

end PPLV.Widen
