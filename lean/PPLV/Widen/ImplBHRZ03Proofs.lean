import PPLV.Widen.ImplH79ProofsSem
import PPLV.Widen.ProofsCert
import Mathlib.Tactic.Ring
import Mathlib.Tactic.Linarith
import Mathlib.Tactic.SplitIfs

/-!
# C08 stage 2 — `BHRZ03_widening_assign`: the case analysis of the driver, the combining constraints
-/
namespace PPLV.Widen.Impl
open PPLV.Widen

/-! ### the driver, branch by branch -/

theorem combining_some {nnc : Bool} {n : Nat} {o : BOracle} {yGens : List GRow} {xm : List CRow} {c : Cand}
    (h : bhrz03CombiningConstraints nnc n o yGens xm = some c) :
    accept o c = true ∧ c.cs = o.h79.cs ++ combiningNewCs nnc n yGens o.h79.cs xm ∧ c.cert = o.cert1 c.cs := by
  unfold bhrz03CombiningConstraints at h
  by_cases h1 : xm.length ≤ 1
  · rw [if_pos h1] at h; cases h
  · rw [if_neg h1] at h
    dsimp only at h
    by_cases h2 : (!(combiningNewCs nnc n yGens o.h79.cs xm).reverse.any o.strictlyIntersects) = true
    · rw [if_pos h2] at h; cases h
    · rw [if_neg h2] at h
      split_ifs at h with h3
      cases h
      exact ⟨h3, rfl, rfl⟩

/-- the part of the driver after the token test (l. 814–851) -/
def bhrz03Tail (x : Poly) (o : BOracle) (tp : Option Nat) : BRes :=
  match bhrz03CombiningConstraints x.nnc x.n o o.ySel.genSys
      (selectH79Constraints x.nnc o.xCons o.ySel.conSys o.ySel.genSys o.ySel.satG).2 with
  | some c => ⟨.combining, some c.cs, tp⟩
  | none =>
    if accept o o.cand2 then ⟨.points, some o.cand2.cs, tp⟩ else
    match o.cand3 with
    | some c3 => if accept o c3 then ⟨.rays, some c3.cs, tp⟩ else ⟨.h79, some o.h79.cs, tp⟩
    | none => ⟨.h79, some o.h79.cs, tp⟩

theorem bhrz03Tail_cases (x : Poly) (o : BOracle) (tp : Option Nat) :
    (∃ c, bhrz03CombiningConstraints x.nnc x.n o o.ySel.genSys
        (selectH79Constraints x.nnc o.xCons o.ySel.conSys o.ySel.genSys o.ySel.satG).2 = some c ∧
      bhrz03Tail x o tp = ⟨.combining, some c.cs, tp⟩) ∨
    (accept o o.cand2 = true ∧ bhrz03Tail x o tp = ⟨.points, some o.cand2.cs, tp⟩) ∨
    (∃ c3, o.cand3 = some c3 ∧ accept o c3 = true ∧ bhrz03Tail x o tp = ⟨.rays, some c3.cs, tp⟩) ∨
    bhrz03Tail x o tp = ⟨.h79, some o.h79.cs, tp⟩ := by
  unfold bhrz03Tail
  cases hc : bhrz03CombiningConstraints x.nnc x.n o o.ySel.genSys
      (selectH79Constraints x.nnc o.xCons o.ySel.conSys o.ySel.genSys o.ySel.satG).2 with
  | some c => exact Or.inl ⟨c, rfl, rfl⟩
  | none =>
    simp only
    by_cases h2 : accept o o.cand2 = true
    · rw [if_pos h2]; exact Or.inr (Or.inl ⟨h2, rfl⟩)
    · rw [if_neg h2]
      cases h3 : o.cand3 with
      | none => exact Or.inr (Or.inr (Or.inr rfl))
      | some c3 =>
        simp only
        by_cases h4 : accept o c3 = true
        · rw [if_pos h4]; exact Or.inr (Or.inr (Or.inl ⟨c3, rfl, h4, rfl⟩))
        · rw [if_neg h4]; exact Or.inr (Or.inr (Or.inr rfl))

/-- every way out of `BHRZ03_widening_assign` -/
theorem bhrz03_cases (x : Poly) (yEmpty : Bool) (o : BOracle) (tp : Option Nat) :
    bhrz03WideningAssign x yEmpty o tp = ⟨.trivial, none, tp⟩ ∨
    bhrz03WideningAssign x yEmpty o tp = ⟨.yEmpty, none, tp⟩ ∨
    ((o.yCert.isStabilizing o.xCert = true ∨ o.yContainsX = true) ∧
      bhrz03WideningAssign x yEmpty o tp = ⟨.stabilizing, none, tp⟩) ∨
    (∃ t, tp = some (t + 1) ∧ bhrz03WideningAssign x yEmpty o tp = ⟨.token, none, some t⟩) ∨
    bhrz03WideningAssign x yEmpty o tp = bhrz03Tail x o tp := by
  unfold bhrz03WideningAssign
  by_cases h1 : (x.n == 0 || x.markedEmpty || yEmpty) = true
  · rw [if_pos h1]; exact Or.inl rfl
  · rw [if_neg h1]
    cases hy : o.yMin with
    | none => exact Or.inr (Or.inl rfl)
    | some y =>
      simp only
      by_cases h2 : (o.yCert.isStabilizing o.xCert || o.yContainsX) = true
      · rw [if_pos h2]
        exact Or.inr (Or.inr (Or.inl ⟨by simpa using h2, rfl⟩))
      · rw [if_neg h2]
        rcases tp with _ | t
        · exact Or.inr (Or.inr (Or.inr (Or.inr rfl)))
        · cases t with
          | zero => exact Or.inr (Or.inr (Or.inr (Or.inr rfl)))
          | succ t => exact Or.inr (Or.inr (Or.inr (Or.inl ⟨t, rfl, rfl⟩)))

/-! ### the combining constraints hold on `x` (closed polyhedra) -/

theorem evalRow_vadd : ∀ (a b : Vec) (v : Nat → Rat), evalRow (vadd a b) v = evalRow a v + evalRow b v
  | [], b, v => by simp [vadd, evalRow]
  | a :: as, [], v => by simp [vadd, evalRow]
  | a :: as, b :: bs, v => by
    simp only [vadd, evalRow, evalRow_vadd as bs]
    push_cast
    ring

theorem evalRow_replicate_zero : ∀ (k : Nat) (v : Nat → Rat), evalRow (List.replicate k 0) v = 0
  | 0, _ => rfl
  | k + 1, v => by simp [List.replicate_succ, evalRow, evalRow_replicate_zero k]

theorem evalRow_append_zeros : ∀ (e : Vec) (k : Nat) (v : Nat → Rat),
    evalRow (e ++ List.replicate k 0) v = evalRow e v
  | [], k, v => by simp [evalRow, evalRow_replicate_zero]
  | a :: as, k, v => by simp [evalRow, evalRow_append_zeros as k]

theorem evalRow_zero_fun : ∀ (e : Vec) (v : Nat → Rat), (∀ i, v i = 0) → evalRow e v = 0
  | [], _, _ => rfl
  | a :: as, v, h => by simp [evalRow, h 0, evalRow_zero_fun as _ (fun i => h (i + 1))]

theorem evalRow_take : ∀ (e : Vec) (m : Nat) (v : Nat → Rat), (∀ i, m ≤ i → v i = 0) →
    evalRow (e.take m) v = evalRow e v
  | [], m, v, _ => by simp
  | a :: as, 0, v, h => by
    simp only [List.take_zero, evalRow]
    rw [evalRow_zero_fun as _ (fun i => h (i + 1) (Nat.zero_le _)), h 0 (Nat.le_refl _)]
    simp
  | a :: as, m + 1, v, h => by
    simp only [List.take_succ_cons, evalRow]
    rw [evalRow_take as m _ (fun i hi => h (i + 1) (by omega))]

theorem hom_beyond (n : Nat) (p : Pt) {i : Nat} (hi : n + 1 ≤ i) : hom n p 0 i = 0 := by
  unfold hom
  have h1 : i ≠ 0 := by omega
  have h2 : ¬ i ≤ n := by omega
  simp [h1, h2]

/-- `mkIneq` (closed topology) denotes `e ≥ 0` -/
theorem mkIneq_holds (n : Nat) (e : Vec) (s : Bool) (p : Pt) :
    (mkIneq false n e s).holds (hom n p 0) ↔ 0 ≤ evalRow e (hom n p 0) := by
  unfold mkIneq CRow.holds
  simp only [Bool.false_eq_true, if_false]
  rw [evalRow_take _ _ _ (fun i hi => hom_beyond n p hi), evalRow_append_zeros]

theorem nonneg_of_holds {c : CRow} {v : Nat → Rat} (h : c.holds v) : 0 ≤ evalRow c.e v := by
  unfold CRow.holds at h
  split_ifs at h with he
  · rw [h]
  · exact h

theorem evalRow_foldl_nonneg (v : Nat → Rat) : ∀ (l : List CRow) (init : Vec), 0 ≤ evalRow init v →
    (∀ c ∈ l, c.holds v) → 0 ≤ evalRow (l.foldl (fun acc c => vadd acc (c.expression false)) init) v
  | [], init, h, _ => h
  | c :: l, init, h, hl => by
    simp only [List.foldl_cons]
    apply evalRow_foldl_nonneg v l
    · rw [evalRow_vadd]
      have := nonneg_of_holds (hl c (List.mem_cons_self))
      simp only [CRow.expression, Bool.false_eq_true, if_false]
      linarith
    · exact fun c' hc' => hl c' (List.mem_cons_of_mem _ hc')

/-- every constraint `BHRZ03_combining_constraints` adds for one point of `y` is a row of
    `x_minus_H79_cs` or a sum of such rows -/
theorem combiningForPoint_holds (n : Nat) (h79Cs xm : List CRow) (g : GRow) (p : Pt)
    (hxm : ∀ c ∈ xm, c.holds (hom n p 0)) :
    ∀ r ∈ combiningForPoint false n h79Cs xm g, r.holds (hom n p 0) := by
  intro r hr
  unfold combiningForPoint at hr
  by_cases h1 : ((g.isPoint false && !false) || (g.isClosurePoint false && false)) = true
  · rw [if_pos h1] at hr
    dsimp only at hr
    by_cases h2 : (h79Cs.reverse.any fun c => !c.eq && sp c.e g.e == 0) = true
    · rw [if_pos h2] at hr; simp at hr
    · rw [if_neg h2] at hr
      have hcomb : ∀ c ∈ (xm.reverse.filter fun c => sp c.e g.e == 0), c.holds (hom n p 0) := by
        intro c hc
        exact hxm c (List.mem_reverse.mp (List.mem_filter.mp hc).1)
      generalize (xm.reverse.filter fun c => sp c.e g.e == 0) = comb at hcomb hr
      rcases comb with _ | ⟨c1, _ | ⟨c2, rest⟩⟩
      · simp at hr
      · dsimp only at hr
        rw [List.mem_singleton] at hr
        subst hr
        exact hcomb _ (List.mem_singleton.mpr rfl)
      · dsimp only at hr
        split_ifs at hr with h3
        · rw [List.mem_singleton] at hr
          subst hr
          rw [mkIneq_holds]
          apply evalRow_foldl_nonneg
          · simp [evalRow]
          · intro c hc; exact hcomb c (List.mem_reverse.mp hc)
        · simp at hr
  · rw [if_neg h1] at hr; simp at hr

theorem combiningNewCs_holds (n : Nat) (yGens : List GRow) (h79Cs xm : List CRow) (p : Pt)
    (hxm : ∀ c ∈ xm, c.holds (hom n p 0)) :
    SatRows (combiningNewCs false n yGens h79Cs xm) (hom n p 0) := by
  intro r hr
  unfold combiningNewCs at hr
  rw [List.mem_flatMap] at hr
  obtain ⟨g, _, hg⟩ := hr
  exact combiningForPoint_holds n h79Cs xm g p hxm r hg

/-! ### certificates -/

/-- **H79 decrease ⇒ BHRZ03-stabilizing**: no further condition is needed — `compare(ph)` of the BHRZ03
    certificate answers `1` as soon as the affine dimension grew, the lineality grew, or (neither) the
    number of constraints shrank, and the H79 test is the first and third of these. -/
theorem h79_decrease_implies_bhrz03_stabilizing (cy cr : BHRZ03Cert)
    (h : (⟨cy.affineDim, cy.numConstraints⟩ : H79Cert).comparePh ⟨cr.affineDim, cr.numConstraints⟩ = .gt) :
    cy.isStabilizing cr = true := by
  rw [H79Cert.comparePh_gt] at h
  simp only at h
  unfold BHRZ03Cert.isStabilizing
  rw [beq_iff_eq, BHRZ03Cert.comparePh_gt]
  rcases h with h | ⟨h1, h2⟩
  · exact Or.inl h
  · right
    refine ⟨h1, ?_⟩
    by_cases hl : cy.linSpaceDim < cr.linSpaceDim
    · exact Or.inl hl
    · exact Or.inr ⟨hl, Or.inl h2⟩

end PPLV.Widen.Impl
