import PPLV.Widen.ImplShapeProofsContains
/-!
# C08 stage 2 — `BHMZ05_widening_assign` of the shapes returns an object that contains the receiver

`bdBHMZ05` / `octBHMZ05` (`BD_Shape_templates.hh:3272`, `Octagonal_Shape_templates.hh:4055`): every path, the loops
only raise cells (to `+∞`), every point of the receiver is a point of the result, the token protocol.
-/
namespace PPLV.Widen
open PPLV.WR
open PPLV.WR.ExtRat (fin pinf le_rfl' le_trans' le_total' le_pinf)

variable {up : Rat → ExtRat}

/-! ## `BD_Shape::BHMZ05_widening_assign` -/

/-- `affine_dimension()` leaves the object closed, nothing else -/
theorem bdAffineDim_snd (up : Rat → ExtRat) (n : Nat) (s : BDS) :
    (bdAffineDim up n s).2 = bdClosureAssign up n s := by
  unfold bdAffineDim
  by_cases h0 : n = 0
  · subst h0; rw [bdClosureAssign_zero]; rfl
  · rw [if_neg h0]; dsimp only; split <;> rfl

/-- the loops only raise cells -/
theorem bdBHMZ05Loops_ge (n : Nat) (x y : Mat) (r : BMat) : bdLE n x (bdBHMZ05Loops n x y r) := by
  intro i j _ _
  rw [bdBHMZ05Loops_apply]
  split
  · exact le_bhmz05Cell _ _ _
  · exact le_rfl' _

/-- the matrix-widened copy of the closed receiver, `ry` the reduced `y` -/
def bdBHMZ05Widened (up : Rat → ExtRat) (n : Nat) (X ry : BDS) : BDS :=
  { (bdClosureAssign up n X) with
    dbm := bdBHMZ05Loops n (bdClosureAssign up n X).dbm ry.dbm ry.red }.resetClosed

/-- what happens after the reduction of `y`: the token test or the widened copy -/
def bdBHMZ05Tail (up : Rat → ExtRat) (n : Nat) (X ry : BDS) (tp : Option Nat) : BDS × BDS × Option Nat :=
  match tp with
  | some t =>
    if t > 0 then (bdClosureAssign up n X, ry,
      if !bdContains up n (bdClosureAssign up n X) (bdBHMZ05Widened up n X ry) then some (t - 1) else some t)
    else (bdBHMZ05Widened up n X ry, ry, tp)
  | none => (bdBHMZ05Widened up n X ry, ry, tp)

theorem bdBHMZ05_eq (up : Rat → ExtRat) (n : Nat) (X Y : BDS) (tp : Option Nat) :
    bdBHMZ05 up n X Y tp =
      if (bdAffineDim up n Y).1 = 0 then some (X, bdClosureAssign up n Y, tp)
      else if (bdAffineDim up n X).1 ≠ (bdAffineDim up n Y).1 then
        some (bdClosureAssign up n X, bdClosureAssign up n Y, tp)
      else (bdReductionAssign up n (bdClosureAssign up n Y)).map fun ry => bdBHMZ05Tail up n X ry tp := by
  have hsy := bdAffineDim_snd up n Y
  have hsx := bdAffineDim_snd up n X
  unfold bdBHMZ05
  rcases hY : bdAffineDim up n Y with ⟨dy, cy⟩
  rcases hX : bdAffineDim up n X with ⟨dx, cx⟩
  rw [hY] at hsy; rw [hX] at hsx
  dsimp only at hsy hsx ⊢
  subst hsy; subst hsx
  cases tp <;> rfl

/-- every path through `bdBHMZ05` -/
theorem bdBHMZ05_cases (up : Rat → ExtRat) (n : Nat) (X Y : BDS) (tp : Option Nat) :
    ((bdAffineDim up n Y).1 = 0 ∧ bdBHMZ05 up n X Y tp = some (X, bdClosureAssign up n Y, tp))
    ∨ ((bdAffineDim up n Y).1 ≠ 0 ∧ (bdAffineDim up n X).1 ≠ (bdAffineDim up n Y).1
        ∧ bdBHMZ05 up n X Y tp = some (bdClosureAssign up n X, bdClosureAssign up n Y, tp))
    ∨ ((bdAffineDim up n Y).1 ≠ 0 ∧ (bdAffineDim up n X).1 = (bdAffineDim up n Y).1
        ∧ bdReductionAssign up n (bdClosureAssign up n Y) = none ∧ bdBHMZ05 up n X Y tp = none)
    ∨ ((bdAffineDim up n Y).1 ≠ 0 ∧ (bdAffineDim up n X).1 = (bdAffineDim up n Y).1
        ∧ ∃ ry, bdReductionAssign up n (bdClosureAssign up n Y) = some ry
          ∧ ((∃ t, tp = some t ∧ 0 < t ∧ bdBHMZ05 up n X Y tp
                = some (bdClosureAssign up n X, ry,
                    if !bdContains up n (bdClosureAssign up n X) (bdBHMZ05Widened up n X ry)
                    then some (t - 1) else some t))
            ∨ ((tp = none ∨ tp = some 0)
                ∧ bdBHMZ05 up n X Y tp = some (bdBHMZ05Widened up n X ry, ry, tp)))) := by
  rw [bdBHMZ05_eq]
  by_cases hy : (bdAffineDim up n Y).1 = 0
  · left; exact ⟨hy, by rw [if_pos hy]⟩
  · right
    rw [if_neg hy]
    by_cases hxy : (bdAffineDim up n X).1 = (bdAffineDim up n Y).1
    · right
      rw [if_neg (by simpa using hxy)]
      cases hr : bdReductionAssign up n (bdClosureAssign up n Y) with
      | none => left; exact ⟨hy, hxy, rfl, rfl⟩
      | some ry =>
        right
        refine ⟨hy, hxy, ry, rfl, ?_⟩
        cases tp with
        | none => right; exact ⟨Or.inl rfl, rfl⟩
        | some t =>
          by_cases ht : t > 0
          · left; exact ⟨t, rfl, ht, by simp only [Option.map_some, bdBHMZ05Tail, ht, ↓reduceIte]⟩
          · right
            have : t = 0 := by omega
            subst this
            exact ⟨Or.inr rfl, rfl⟩
    · left; exact ⟨hy, hxy, by rw [if_pos hxy]⟩

/-- the receiver returned: `*this` untouched, closed, or closed with the widened matrix -/
theorem bdBHMZ05_fst_cases {n : Nat} {X Y X' Y' : BDS} {tp tp' : Option Nat}
    (h : bdBHMZ05 up n X Y tp = some (X', Y', tp')) :
    X' = X ∨ X' = bdClosureAssign up n X
    ∨ ((tp = none ∨ tp = some 0) ∧ X' = bdBHMZ05Widened up n X Y'
        ∧ bdReductionAssign up n (bdClosureAssign up n Y) = some Y') := by
  rcases bdBHMZ05_cases up n X Y tp with ⟨_, h'⟩ | ⟨_, _, h'⟩ | ⟨_, _, _, h'⟩
    | ⟨_, _, ry, hr, ⟨t, _, _, h'⟩ | ⟨ht, h'⟩⟩
  all_goals rw [h'] at h
  · injection h with h; injection h with h1 h2; left; exact h1.symm
  · injection h with h; injection h with h1 h2; right; left; exact h1.symm
  · cases h
  · injection h with h; injection h with h1 h2; right; left; exact h1.symm
  · injection h with h; injection h with h1 h2; injection h2 with h2 h3
    right; right; subst h2; exact ⟨ht, h1.symm, hr⟩

/-- **the result of the BHMZ05 widening contains the receiver** (`BD_Shape_templates.hh:3272`) -/
theorem bd_bhmz05_contains_x (hup : ∀ q, fin q ≤ up q) (n : Nat) (X Y : BDS) (tp : Option Nat)
    {X' Y' : BDS} {tp' : Option Nat} (h : bdBHMZ05 up n X Y tp = some (X', Y', tp'))
    (hX : BDS.WF n X) (p : Nat → Rat) (hp : BDS.γ n X p) : BDS.γ n X' p := by
  have hc := bdClosureAssign_γ hup hX hp
  rcases bdBHMZ05_fst_cases h with h | h | ⟨_, h, _⟩
  · rw [h]; exact hp
  · rw [h]; exact hc
  · rw [h]
    refine ⟨hc.1, fun i j hi hj => ?_⟩
    exact le_trans' (hc.2 i j hi hj) (bdBHMZ05Loops_ge n _ _ _ i j hi hj)

/-- … hence, under the precondition `y ⊆ x` of the widening, it contains `y` -/
theorem bd_bhmz05_contains_y (hup : ∀ q, fin q ≤ up q) (n : Nat) (X Y : BDS) (tp : Option Nat)
    {X' Y' : BDS} {tp' : Option Nat} (h : bdBHMZ05 up n X Y tp = some (X', Y', tp'))
    (hX : BDS.WF n X) (hyx : ∀ p, BDS.γ n Y p → BDS.γ n X p) (p : Nat → Rat) (hp : BDS.γ n Y p) :
    BDS.γ n X' p :=
  bd_bhmz05_contains_x hup n X Y tp h hX p (hyx p hp)

/-- `shortest_path_reduction_assign()` changes the flags and `redundancy_dbm` only: the same points -/
theorem bdReductionAssign_γ (hup : ∀ q, fin q ≤ up q) {n : Nat} {s r : BDS} (hs : BDS.WF n s)
    (h : bdReductionAssign up n s = some r) (p : Nat → Rat) : BDS.γ n r p ↔ BDS.γ n s p := by
  unfold bdReductionAssign at h
  split at h
  · injection h with h; rw [h]
  · split at h
    · injection h with h; rw [h]
    · dsimp only at h
      split at h
      · injection h with h; rw [← h]; exact bdClosureAssign_γ_iff hup hs p
      · cases hr : bdsShortestPathReduction up n (bdClosureAssign up n s).dbm with
        | none => rw [hr] at h; cases h
        | some b =>
          rw [hr] at h; injection h with h
          rw [← bdClosureAssign_γ_iff hup hs p, ← h]
          exact Iff.rfl

/-- the argument `y` comes back closed and reduced at most: the same points -/
theorem bd_bhmz05_y_γ (hup : ∀ q, fin q ≤ up q) (n : Nat) (X Y : BDS) (tp : Option Nat)
    {X' Y' : BDS} {tp' : Option Nat} (h : bdBHMZ05 up n X Y tp = some (X', Y', tp'))
    (hY : BDS.WF n Y) (p : Nat → Rat) : BDS.γ n Y' p ↔ BDS.γ n Y p := by
  have key : Y' = bdClosureAssign up n Y ∨ bdReductionAssign up n (bdClosureAssign up n Y) = some Y' := by
    rcases bdBHMZ05_cases up n X Y tp with ⟨_, h'⟩ | ⟨_, _, h'⟩ | ⟨_, _, _, h'⟩
      | ⟨_, _, ry, hr, ⟨t, _, _, h'⟩ | ⟨ht, h'⟩⟩
    all_goals rw [h'] at h
    · injection h with h; injection h with h1 h2; injection h2 with h2 h3; left; exact h2.symm
    · injection h with h; injection h with h1 h2; injection h2 with h2 h3; left; exact h2.symm
    · cases h
    · injection h with h; injection h with h1 h2; injection h2 with h2 h3; right; rw [← h2]; exact hr
    · injection h with h; injection h with h1 h2; injection h2 with h2 h3; right; rw [← h2]; exact hr
  rcases key with h | h
  · rw [h]; exact bdClosureAssign_γ_iff hup hY p
  · by_cases he : (bdClosureAssign up n Y).empty = false
    · rw [bdReductionAssign_γ hup (bdClosureAssign_WF hY he) h p]
      exact bdClosureAssign_γ_iff hup hY p
    · have he' : (bdClosureAssign up n Y).empty = true := by
        cases hh : (bdClosureAssign up n Y).empty <;> simp_all
      -- a marked-empty `y`: the reduction returns it as it is (or closed, which is the same)
      have : Y' = bdClosureAssign up n Y := by
        unfold bdReductionAssign at h
        split at h
        · injection h with h; exact h.symm
        · split at h
          · injection h with h; exact h.symm
          · dsimp only at h
            rw [bdClosureAssign_of_empty _ _ _ he'] at h
            simp only [he', ↓reduceIte] at h
            injection h with h; exact h.symm
      rw [this]; exact bdClosureAssign_γ_iff hup hY p

/-- the token protocol (`:3297-3306`): with a positive count the receiver is at most closed (the same points),
and the count stays or drops by one -/
theorem bd_bhmz05_token (up : Rat → ExtRat) (n : Nat) (X Y : BDS) (t : Nat) (ht : 0 < t)
    {X' Y' : BDS} {tp' : Option Nat} (h : bdBHMZ05 up n X Y (some t) = some (X', Y', tp')) :
    (X' = X ∨ X' = bdClosureAssign up n X) ∧ (tp' = some t ∨ tp' = some (t - 1)) := by
  rcases bdBHMZ05_cases up n X Y (some t) with ⟨_, h'⟩ | ⟨_, _, h'⟩ | ⟨_, _, _, h'⟩
    | ⟨_, _, ry, hr, ⟨t', ht', _, h'⟩ | ⟨ht0, h'⟩⟩
  · rw [h'] at h; injection h with h; injection h with h1 h2; injection h2 with h2 h3
    exact ⟨Or.inl h1.symm, Or.inl h3.symm⟩
  · rw [h'] at h; injection h with h; injection h with h1 h2; injection h2 with h2 h3
    exact ⟨Or.inr h1.symm, Or.inl h3.symm⟩
  · rw [h'] at h; cases h
  · rw [h'] at h; injection h with h; injection h with h1 h2; injection h2 with h2 h3
    injection ht' with ht'; subst ht'
    refine ⟨Or.inr h1.symm, ?_⟩
    rw [← h3]
    split
    · right; rfl
    · left; rfl
  · rcases ht0 with h0 | h0
    · cases h0
    · injection h0 with h0; omega

/-- without tokens (`nullptr` or a count of `0`) the count is untouched -/
theorem bd_bhmz05_no_token (up : Rat → ExtRat) (n : Nat) (X Y : BDS) (tp : Option Nat)
    (htp : tp = none ∨ tp = some 0) {X' Y' : BDS} {tp' : Option Nat}
    (h : bdBHMZ05 up n X Y tp = some (X', Y', tp')) : tp' = tp := by
  rcases bdBHMZ05_cases up n X Y tp with ⟨_, h'⟩ | ⟨_, _, h'⟩ | ⟨_, _, _, h'⟩
    | ⟨_, _, ry, hr, ⟨t', ht', ht0, h'⟩ | ⟨_, h'⟩⟩
  · rw [h'] at h; injection h with h; injection h with h1 h2; injection h2 with h2 h3; exact h3.symm
  · rw [h'] at h; injection h with h; injection h with h1 h2; injection h2 with h2 h3; exact h3.symm
  · rw [h'] at h; cases h
  · rcases htp with h0 | h0
    · rw [h0] at ht'; cases ht'
    · rw [h0] at ht'; injection ht' with ht'; omega
  · rw [h'] at h; injection h with h; injection h with h1 h2; injection h2 with h2 h3; exact h3.symm

/-! ## `Octagonal_Shape::BHMZ05_widening_assign` -/

/-- `affine_dimension()` leaves the object closed, nothing else -/
theorem octAffineDim_snd (up : Rat → ExtRat) (n : Nat) (s : OCS) :
    (octAffineDim up n s).2 = octClosureAssign up n s := by
  unfold octAffineDim
  by_cases h0 : n = 0
  · subst h0; rw [octClosureAssign_zero]; rfl
  · rw [if_neg h0]; dsimp only; split <;> rfl

/-- the loops only raise cells -/
theorem octBHMZ05Loops_ge (n : Nat) (x y : Mat) : octLE n x (octBHMZ05Loops n x y) := by
  intro i j _ _
  rw [octBHMZ05Loops_apply]
  split
  · exact le_bhmz05Cell _ _ _
  · exact le_rfl' _

/-- the matrix-widened copy of the closed receiver, `ry` the reduced `y` -/
def octBHMZ05Widened (up : Rat → ExtRat) (n : Nat) (X ry : OCS) : OCS :=
  { (octClosureAssign up n X) with
    mat := octBHMZ05Loops n (octClosureAssign up n X).mat ry.mat }.resetClosed

/-- what happens after the reduction of `y`: the token test or the widened copy -/
def octBHMZ05Tail (up : Rat → ExtRat) (n : Nat) (X ry : OCS) (tp : Option Nat) : OCS × OCS × Option Nat :=
  match tp with
  | some t =>
    if t > 0 then (octClosureAssign up n X, ry,
      if !octContains up n (octClosureAssign up n X) (octBHMZ05Widened up n X ry) then some (t - 1) else some t)
    else (octBHMZ05Widened up n X ry, ry, tp)
  | none => (octBHMZ05Widened up n X ry, ry, tp)

theorem octBHMZ05_eq (up : Rat → ExtRat) (n : Nat) (X Y : OCS) (tp : Option Nat) :
    octBHMZ05 up n X Y tp =
      if (octAffineDim up n Y).1 = 0 then some (X, octClosureAssign up n Y, tp)
      else if (octAffineDim up n X).1 ≠ (octAffineDim up n Y).1 then
        some (octClosureAssign up n X, octClosureAssign up n Y, tp)
      else (octReductionAssign up n (octClosureAssign up n Y)).map fun ry => octBHMZ05Tail up n X ry tp := by
  have hsy := octAffineDim_snd up n Y
  have hsx := octAffineDim_snd up n X
  unfold octBHMZ05
  rcases hY : octAffineDim up n Y with ⟨dy, cy⟩
  rcases hX : octAffineDim up n X with ⟨dx, cx⟩
  rw [hY] at hsy; rw [hX] at hsx
  dsimp only at hsy hsx ⊢
  subst hsy; subst hsx
  cases tp <;> rfl

/-- every path through `octBHMZ05` -/
theorem octBHMZ05_cases (up : Rat → ExtRat) (n : Nat) (X Y : OCS) (tp : Option Nat) :
    ((octAffineDim up n Y).1 = 0 ∧ octBHMZ05 up n X Y tp = some (X, octClosureAssign up n Y, tp))
    ∨ ((octAffineDim up n Y).1 ≠ 0 ∧ (octAffineDim up n X).1 ≠ (octAffineDim up n Y).1
        ∧ octBHMZ05 up n X Y tp = some (octClosureAssign up n X, octClosureAssign up n Y, tp))
    ∨ ((octAffineDim up n Y).1 ≠ 0 ∧ (octAffineDim up n X).1 = (octAffineDim up n Y).1
        ∧ octReductionAssign up n (octClosureAssign up n Y) = none ∧ octBHMZ05 up n X Y tp = none)
    ∨ ((octAffineDim up n Y).1 ≠ 0 ∧ (octAffineDim up n X).1 = (octAffineDim up n Y).1
        ∧ ∃ ry, octReductionAssign up n (octClosureAssign up n Y) = some ry
          ∧ ((∃ t, tp = some t ∧ 0 < t ∧ octBHMZ05 up n X Y tp
                = some (octClosureAssign up n X, ry,
                    if !octContains up n (octClosureAssign up n X) (octBHMZ05Widened up n X ry)
                    then some (t - 1) else some t))
            ∨ ((tp = none ∨ tp = some 0)
                ∧ octBHMZ05 up n X Y tp = some (octBHMZ05Widened up n X ry, ry, tp)))) := by
  rw [octBHMZ05_eq]
  by_cases hy : (octAffineDim up n Y).1 = 0
  · left; exact ⟨hy, by rw [if_pos hy]⟩
  · right
    rw [if_neg hy]
    by_cases hxy : (octAffineDim up n X).1 = (octAffineDim up n Y).1
    · right
      rw [if_neg (by simpa using hxy)]
      cases hr : octReductionAssign up n (octClosureAssign up n Y) with
      | none => left; exact ⟨hy, hxy, rfl, rfl⟩
      | some ry =>
        right
        refine ⟨hy, hxy, ry, rfl, ?_⟩
        cases tp with
        | none => right; exact ⟨Or.inl rfl, rfl⟩
        | some t =>
          by_cases ht : t > 0
          · left; exact ⟨t, rfl, ht, by simp only [Option.map_some, octBHMZ05Tail, ht, ↓reduceIte]⟩
          · right
            have : t = 0 := by omega
            subst this
            exact ⟨Or.inr rfl, rfl⟩
    · left; exact ⟨hy, hxy, by rw [if_pos hxy]⟩

/-- the receiver returned: `*this` untouched, closed, or closed with the widened matrix -/
theorem octBHMZ05_fst_cases {n : Nat} {X Y X' Y' : OCS} {tp tp' : Option Nat}
    (h : octBHMZ05 up n X Y tp = some (X', Y', tp')) :
    X' = X ∨ X' = octClosureAssign up n X
    ∨ ((tp = none ∨ tp = some 0) ∧ X' = octBHMZ05Widened up n X Y'
        ∧ octReductionAssign up n (octClosureAssign up n Y) = some Y') := by
  rcases octBHMZ05_cases up n X Y tp with ⟨_, h'⟩ | ⟨_, _, h'⟩ | ⟨_, _, _, h'⟩
    | ⟨_, _, ry, hr, ⟨t, _, _, h'⟩ | ⟨ht, h'⟩⟩
  all_goals rw [h'] at h
  · injection h with h; injection h with h1 h2; left; exact h1.symm
  · injection h with h; injection h with h1 h2; right; left; exact h1.symm
  · cases h
  · injection h with h; injection h with h1 h2; right; left; exact h1.symm
  · injection h with h; injection h with h1 h2; injection h2 with h2 h3
    right; right; subst h2; exact ⟨ht, h1.symm, hr⟩

/-- **the result of the BHMZ05 widening contains the receiver** (`Octagonal_Shape_templates.hh:4055`) -/
theorem oct_bhmz05_contains_x (hup : ∀ q, fin q ≤ up q) (n : Nat) (X Y : OCS) (tp : Option Nat)
    {X' Y' : OCS} {tp' : Option Nat} (h : octBHMZ05 up n X Y tp = some (X', Y', tp'))
    (hX : OCS.WF n X) (p : Nat → Rat) (hp : OCS.γ n X p) : OCS.γ n X' p := by
  have hc := octClosureAssign_γ hup hX hp
  rcases octBHMZ05_fst_cases h with h | h | ⟨_, h, _⟩
  · rw [h]; exact hp
  · rw [h]; exact hc
  · rw [h]
    refine ⟨hc.1, fun i j hi hj => ?_⟩
    exact le_trans' (hc.2 i j hi hj) (octBHMZ05Loops_ge n _ _ i j hi hj)

/-- … hence, under the precondition `y ⊆ x` of the widening, it contains `y` -/
theorem oct_bhmz05_contains_y (hup : ∀ q, fin q ≤ up q) (n : Nat) (X Y : OCS) (tp : Option Nat)
    {X' Y' : OCS} {tp' : Option Nat} (h : octBHMZ05 up n X Y tp = some (X', Y', tp'))
    (hX : OCS.WF n X) (hyx : ∀ p, OCS.γ n Y p → OCS.γ n X p) (p : Nat → Rat) (hp : OCS.γ n Y p) :
    OCS.γ n X' p :=
  oct_bhmz05_contains_x hup n X Y tp h hX p (hyx p hp)

/-- the token protocol (`:4081-4090`): with a positive count the receiver is at most closed (the same points),
and the count stays or drops by one -/
theorem oct_bhmz05_token (up : Rat → ExtRat) (n : Nat) (X Y : OCS) (t : Nat) (ht : 0 < t)
    {X' Y' : OCS} {tp' : Option Nat} (h : octBHMZ05 up n X Y (some t) = some (X', Y', tp')) :
    (X' = X ∨ X' = octClosureAssign up n X) ∧ (tp' = some t ∨ tp' = some (t - 1)) := by
  rcases octBHMZ05_cases up n X Y (some t) with ⟨_, h'⟩ | ⟨_, _, h'⟩ | ⟨_, _, _, h'⟩
    | ⟨_, _, ry, hr, ⟨t', ht', _, h'⟩ | ⟨ht0, h'⟩⟩
  · rw [h'] at h; injection h with h; injection h with h1 h2; injection h2 with h2 h3
    exact ⟨Or.inl h1.symm, Or.inl h3.symm⟩
  · rw [h'] at h; injection h with h; injection h with h1 h2; injection h2 with h2 h3
    exact ⟨Or.inr h1.symm, Or.inl h3.symm⟩
  · rw [h'] at h; cases h
  · rw [h'] at h; injection h with h; injection h with h1 h2; injection h2 with h2 h3
    injection ht' with ht'; subst ht'
    refine ⟨Or.inr h1.symm, ?_⟩
    rw [← h3]
    split
    · right; rfl
    · left; rfl
  · rcases ht0 with h0 | h0
    · cases h0
    · injection h0 with h0; omega

/-- without tokens (`nullptr` or a count of `0`) the count is untouched -/
theorem oct_bhmz05_no_token (up : Rat → ExtRat) (n : Nat) (X Y : OCS) (tp : Option Nat)
    (htp : tp = none ∨ tp = some 0) {X' Y' : OCS} {tp' : Option Nat}
    (h : octBHMZ05 up n X Y tp = some (X', Y', tp')) : tp' = tp := by
  rcases octBHMZ05_cases up n X Y tp with ⟨_, h'⟩ | ⟨_, _, h'⟩ | ⟨_, _, _, h'⟩
    | ⟨_, _, ry, hr, ⟨t', ht', ht0, h'⟩ | ⟨_, h'⟩⟩
  · rw [h'] at h; injection h with h; injection h with h1 h2; injection h2 with h2 h3; exact h3.symm
  · rw [h'] at h; injection h with h; injection h with h1 h2; injection h2 with h2 h3; exact h3.symm
  · rw [h'] at h; cases h
  · rcases htp with h0 | h0
    · rw [h0] at ht'; cases ht'
    · rw [h0] at ht'; injection ht' with ht'; omega
  · rw [h'] at h; injection h with h; injection h with h1 h2; injection h2 with h2 h3; exact h3.symm


/-! ## concrete instances (dimension 1) for the non-vacuity examples of the property file -/
namespace ContainsEx

/-- `0 ≤ x₀ ≤ 3/2` -/
def bdX : BDS := { dbm := Mat.ofLists [[pinf, fin (3/2)], [fin 0, pinf]] }
/-- `0 ≤ x₀ ≤ 1/2` -/
def bdY : BDS := { dbm := Mat.ofLists [[pinf, fin (1/2)], [fin 0, pinf]] }
/-- the point `x₀ = 1/2` -/
def pt : Nat → Rat := fun _ => 1/2

theorem bdX_WF : BDS.WF 1 bdX := by
  intro i hi
  match i, hi with
  | 0, _ => rfl
  | 1, _ => rfl

theorem bdY_WF : BDS.WF 1 bdY := by
  intro i hi
  match i, hi with
  | 0, _ => rfl
  | 1, _ => rfl

theorem bdX_γ : BDS.γ 1 bdX pt := by
  refine ⟨rfl, fun i j hi hj => ?_⟩
  have h1 : i = 0 ∨ i = 1 := by omega
  have h2 : j = 0 ∨ j = 1 := by omega
  rcases h1 with rfl | rfl <;> rcases h2 with rfl | rfl <;>
    norm_num [bdX, pt, Mat.ofLists, DBM.val]

theorem bdY_γ : BDS.γ 1 bdY pt := by
  refine ⟨rfl, fun i j hi hj => ?_⟩
  have h1 : i = 0 ∨ i = 1 := by omega
  have h2 : j = 0 ∨ j = 1 := by omega
  rcases h1 with rfl | rfl <;> rcases h2 with rfl | rfl <;>
    simp [bdY, pt, Mat.ofLists, DBM.val]

theorem bdY_sub_bdX : ∀ p, BDS.γ 1 bdY p → BDS.γ 1 bdX p := by
  intro p hp
  refine ⟨rfl, fun i j hi hj => le_trans' (hp.2 i j hi hj) ?_⟩
  have h1 : i = 0 ∨ i = 1 := by omega
  have h2 : j = 0 ∨ j = 1 := by omega
  rcases h1 with rfl | rfl <;> rcases h2 with rfl | rfl <;>
    norm_num [bdX, bdY, Mat.ofLists]

/-- `0 ≤ x₀ ≤ 3/2` as an octagon: `matrix[1][0] ≥ 2x₀`, `matrix[0][1] ≥ -2x₀` -/
def octX : OCS := { mat := Mat.ofLists [[pinf, fin 0], [fin 3, pinf]] }
/-- `0 ≤ x₀ ≤ 1/2` -/
def octY : OCS := { mat := Mat.ofLists [[pinf, fin 0], [fin 1, pinf]] }

theorem octX_WF : OCS.WF 1 octX := by
  intro i hi
  match i, hi with
  | 0, _ => rfl
  | 1, _ => rfl

theorem octY_WF : OCS.WF 1 octY := by
  intro i hi
  match i, hi with
  | 0, _ => rfl
  | 1, _ => rfl

theorem rowSize_lt_two {i j : Nat} (hi : i < 2 * 1) (hj : j < rowSize i) : j = 0 ∨ j = 1 := by
  unfold rowSize at hj; omega

theorem octX_γ : OCS.γ 1 octX pt := by
  refine ⟨rfl, fun i j hi hj => ?_⟩
  have h1 : i = 0 ∨ i = 1 := by omega
  have h2 : j = 0 ∨ j = 1 := rowSize_lt_two hi hj
  rcases h1 with rfl | rfl <;> rcases h2 with rfl | rfl <;>
    norm_num [octX, pt, Mat.ofLists, OctM.oval]

theorem octY_γ : OCS.γ 1 octY pt := by
  refine ⟨rfl, fun i j hi hj => ?_⟩
  have h1 : i = 0 ∨ i = 1 := by omega
  have h2 : j = 0 ∨ j = 1 := rowSize_lt_two hi hj
  rcases h1 with rfl | rfl <;> rcases h2 with rfl | rfl <;>
    norm_num [octY, pt, Mat.ofLists, OctM.oval]

theorem octY_sub_octX : ∀ p, OCS.γ 1 octY p → OCS.γ 1 octX p := by
  intro p hp
  refine ⟨rfl, fun i j hi hj => le_trans' (hp.2 i j hi hj) ?_⟩
  have h1 : i = 0 ∨ i = 1 := by omega
  have h2 : j = 0 ∨ j = 1 := rowSize_lt_two hi hj
  rcases h1 with rfl | rfl <;> rcases h2 with rfl | rfl <;>
    simp [octX, octY, Mat.ofLists]

/-- the box `[0, 3/2]` -/
def boxX : BoxS := { seq := [⟨some 0, false, some (3/2), false⟩] }
/-- the box `[0, 1/2]` -/
def boxY : BoxS := { seq := [⟨some 0, false, some (1/2), false⟩] }

theorem boxX_γ : BoxS.γ boxX pt := by
  refine ⟨rfl, fun k hk => ?_⟩
  have : k = 0 := by simp [boxX] at hk; omega
  subst this
  simp [boxX, pt, Itv.mem, loOK, hiOK]; norm_num

theorem boxY_γ : BoxS.γ boxY pt := by
  refine ⟨rfl, fun k hk => ?_⟩
  have : k = 0 := by simp [boxY] at hk; omega
  subst this
  simp [boxY, pt, Itv.mem, loOK, hiOK]

theorem boxY_sub_boxX : ∀ p, BoxS.γ boxY p → BoxS.γ boxX p := by
  intro p hp
  refine ⟨rfl, fun k hk => ?_⟩
  have : k = 0 := by simp [boxX] at hk; omega
  subst this
  have h := hp.2 0 (by simp [boxY])
  simp [boxY, Itv.mem, loOK, hiOK] at h
  simp [boxX, Itv.mem, loOK, hiOK]
  constructor <;> linarith [h.1, h.2]

end ContainsEx


end PPLV.Widen
