import PPLV.Widen.ImplGridProofsCg2
import PPLV.Widen.ProofsCert
import Mathlib.Tactic.Linarith

/-!
# C08, stage 2 — `Grid::select_wider_congruences` on a minimised system: what is selected, counted

Under the triangular form `Grid::simplify` establishes (`Final`): every equality of `x` is selected, the integrality
row (dimension 0) is never visited, so strictly fewer rows than `x` has are selected (the exit "all_selected" of
`congruence_widening_assign` is dead code) and the certificate of the widened grid is the one of `x` or smaller.
-/
namespace PPLV.Widen.ImplGrid
open PPLV.Lattice PPLV.Lattice.Red

/-! ### counting -/

theorem numEqualities_append (a b : List CRow) : numEqualities (a ++ b) = numEqualities a + numEqualities b := by
  simp [numEqualities]

theorem numProperCongruences_append (a b : List CRow) :
    numProperCongruences (a ++ b) = numProperCongruences a + numProperCongruences b := by
  simp [numProperCongruences]

theorem numEqualities_cons (r : CRow) (l : List CRow) :
    numEqualities (r :: l) = (if r.isEquality = true then 1 else 0) + numEqualities l := by
  unfold numEqualities
  rw [List.filter_cons]
  split <;> simp
  omega

theorem numProperCongruences_cons (r : CRow) (l : List CRow) :
    numProperCongruences (r :: l) = (if r.isProperCongruence = true then 1 else 0) + numProperCongruences l := by
  unfold numProperCongruences
  rw [List.filter_cons]
  split <;> simp
  omega

/-! ### `strong_normalize` keeps the kind of a congruence -/

theorem strongNormalizeCg_m_eq_zero (r : CRow) : (strongNormalizeCg r).m = 0 ↔ r.m = 0 := by
  rw [strongNormalizeCg_eq]
  split
  · rename_i hg
    obtain ⟨q, hq⟩ := snDiv_dvd_m r
    show (normalizeCg r).m / snDiv r = 0 ↔ r.m = 0
    rw [hq, Int.mul_ediv_cancel_left _ hg.1]
    rw [normalizeCg_m] at hq
    rw [hq]
    constructor
    · intro h; rw [h]; ring
    · intro h
      rcases Int.mul_eq_zero.mp h with h | h
      · exact absurd h hg.1
      · exact h
  · rw [normalizeCg_m]

theorem strongNormalizeCg_isEquality (r : CRow) : (strongNormalizeCg r).isEquality = r.isEquality := by
  unfold CRow.isEquality
  rw [Bool.eq_iff_iff]
  simp only [beq_iff_eq]
  exact strongNormalizeCg_m_eq_zero r

theorem strongNormalizeCg_isProperCongruence (r : CRow) (hm : 0 ≤ r.m) :
    (strongNormalizeCg r).isProperCongruence = r.isProperCongruence := by
  unfold CRow.isProperCongruence
  rw [Bool.eq_iff_iff]
  simp only [decide_eq_true_eq, gt_iff_lt]
  have h1 := strongNormalizeCg_m_nonneg r hm
  have h2 := strongNormalizeCg_m_eq_zero r
  constructor
  · intro h
    have : r.m ≠ 0 := fun e => by rw [h2.mpr e] at h; exact absurd h (lt_irrefl _)
    omega
  · intro h
    have : (strongNormalizeCg r).m ≠ 0 := fun e => by rw [h2.mp e] at h; exact absurd h (lt_irrefl _)
    omega

/-! ### the loop on a triangular system -/

theorem takeDrop_cons (xs : List CRow) (j : Nat) (h : j + 1 < xs.length) :
    (xs.take (xs.length - 1)).drop j = rowAt xs j :: (xs.take (xs.length - 1)).drop (j + 1) := by
  have hl : j < (xs.take (xs.length - 1)).length := by simp; omega
  rw [List.drop_eq_getElem_cons hl]
  congr 1
  rw [List.getElem_take, rowAt_eq_getElem xs j (by omega)]

/-- the loop of `select_wider_congruences` from dimension `d` down, the row counter standing at the first row whose
    pivot dimension is `≤ d`: with `R` the rows from there to the last but one, every equality of `R` is appended,
    and `dr` proper congruences of `R` are not -/
theorem selectWiderCongruencesLoop_counts (n : Nat) (xs : List CRow) (xdk : List Nat) (ys : List CRow) (ydk : List Nat)
    (p : Nat → Nat) (hI : Inv n xs xdk p xs.length 0) (hlast : p (xs.length - 1) = 0) (hpos : 0 < xs.length) :
    ∀ (d xRow yRow : Nat) (sel : List CRow), d ≤ n → (∀ i, i < xs.length → (i < xRow ↔ d < p i)) →
      ∃ dr : Nat,
        numEqualities (selectWiderCongruencesLoop xs xdk ys ydk d xRow yRow sel) =
          numEqualities sel + numEqualities ((xs.take (xs.length - 1)).drop xRow) ∧
        numProperCongruences (selectWiderCongruencesLoop xs xdk ys ydk d xRow yRow sel) + dr =
          numProperCongruences sel + numProperCongruences ((xs.take (xs.length - 1)).drop xRow) ∧
        (selectWiderCongruencesLoop xs xdk ys ydk d xRow yRow sel).length + dr =
          sel.length + ((xs.take (xs.length - 1)).drop xRow).length := by
  intro d
  induction d with
  | zero =>
    intro xRow yRow sel _ hinv
    have hge : xs.length - 1 ≤ xRow := by
      by_contra hc
      have hx : xRow < xs.length - 1 := by omega
      have := hI.kinv.anti xRow (xs.length - 1) hx (by omega)
      have := (hinv xRow (by omega)).mpr (by omega)
      omega
    have hnil : (xs.take (xs.length - 1)).drop xRow = [] := by
      apply List.drop_eq_nil_of_le; simp; omega
    refine ⟨0, ?_⟩
    rw [hnil]
    simp [selectWiderCongruencesLoop, numEqualities, numProperCongruences]
  | succ d ih =>
    intro xRow yRow sel hd hinv
    by_cases hnv : kind xdk (d + 1) = CON_VIRTUAL
    · -- a virtual dimension: no row
      have hno : ∀ i, i < xs.length → p i ≠ d + 1 := by
        intro i hi e
        exact (hI.kinv.nv (d + 1) (by omega) (by omega)).mpr ⟨i, hi, e⟩ hnv
      have hloop : selectWiderCongruencesLoop xs xdk ys ydk (d + 1) xRow yRow sel =
          selectWiderCongruencesLoop xs xdk ys ydk d xRow
            (if kind ydk (d + 1) ≠ CON_VIRTUAL then yRow + 1 else yRow) sel := by
        rw [selectWiderCongruencesLoop]
        simp [hnv, CON_VIRTUAL, PROPER_CONGRUENCE, EQUALITY]
      rw [hloop]
      exact ih xRow _ sel (by omega) (fun i hi => by
        have := hinv i hi; have := hno i hi; omega)
    · obtain ⟨i, hi, hpi⟩ := (hI.kinv.nv (d + 1) (by omega) (by omega)).mp hnv
      -- the row of dimension `d + 1` is the row the counter stands at
      have hix : i = xRow := by
        have h1 : ¬ i < xRow := fun h => by have := (hinv i hi).mp h; omega
        by_contra hne
        have hlt : xRow < i := by omega
        have := hI.kinv.anti xRow i hlt hi
        have := (hinv xRow (by omega)).mpr (by omega)
        omega
      subst hix
      have hne1 : i ≠ xs.length - 1 := fun e => by rw [e] at hpi; omega
      have hi1 : i + 1 < xs.length := by omega
      have hinv' : ∀ j, j < xs.length → (j < i + 1 ↔ d < p j) := by
        intro j hj
        have := hinv j hj
        by_cases e : j = i
        · subst e; omega
        · by_cases e2 : j < i
          · omega
          · have := hI.kinv.anti i j (by omega) hj
            omega
      have hpiv := hI.piv i hi
      rw [hpi] at hpiv
      have hm0 : 0 ≤ (rowAt xs i).m := (hI.wf i hi).2
      have hR := takeDrop_cons xs i hi1
      rcases hpiv.kindok with ⟨hm, hk⟩ | ⟨hm, hk⟩
      · -- an equality: always selected
        have hloop : selectWiderCongruencesLoop xs xdk ys ydk (d + 1) i yRow sel =
            selectWiderCongruencesLoop xs xdk ys ydk d (i + 1) (yRow + 1) (sel ++ [strongNormalizeCg (rowAt xs i)]) := by
          rw [selectWiderCongruencesLoop]
          simp [hk, PROPER_CONGRUENCE, EQUALITY]
        obtain ⟨dr, e1, e2, e3⟩ := ih (i + 1) (yRow + 1) (sel ++ [strongNormalizeCg (rowAt xs i)]) (by omega) hinv'
        have q1 : (rowAt xs i).isEquality = true := by simp [CRow.isEquality, hm]
        have q2 : (rowAt xs i).isProperCongruence = false := by simp [CRow.isProperCongruence, hm]
        refine ⟨dr, ?_, ?_, ?_⟩
        · rw [hloop, e1, hR, numEqualities_append, numEqualities_cons, numEqualities_cons,
            strongNormalizeCg_isEquality, q1]
          simp [numEqualities]; omega
        · rw [hloop, e2, hR, numProperCongruences_append, numProperCongruences_cons, numProperCongruences_cons,
            strongNormalizeCg_isProperCongruence _ hm0, q2]
          simp [numProperCongruences]
        · rw [hloop, e3, hR]; simp; omega
      · -- a proper congruence: selected iff equal at the dimension
        have q1 : (rowAt xs i).isEquality = false := by
          simp [CRow.isEquality]; omega
        have q2 : (rowAt xs i).isProperCongruence = true := by simp [CRow.isProperCongruence, hm]
        by_cases hsel : cgIsEqualAtDimension (rowAt xs i) (d + 1) (rowAt ys yRow) = true
        · have hloop : selectWiderCongruencesLoop xs xdk ys ydk (d + 1) i yRow sel =
              selectWiderCongruencesLoop xs xdk ys ydk d (i + 1) (yRow + 1) (sel ++ [strongNormalizeCg (rowAt xs i)]) := by
            rw [selectWiderCongruencesLoop]
            simp [hk, hsel]
          obtain ⟨dr, e1, e2, e3⟩ := ih (i + 1) (yRow + 1) (sel ++ [strongNormalizeCg (rowAt xs i)]) (by omega) hinv'
          refine ⟨dr, ?_, ?_, ?_⟩
          · rw [hloop, e1, hR, numEqualities_append, numEqualities_cons, numEqualities_cons,
              strongNormalizeCg_isEquality, q1]
            simp [numEqualities]
          · rw [hloop, e2, hR, numProperCongruences_append, numProperCongruences_cons, numProperCongruences_cons,
              strongNormalizeCg_isProperCongruence _ hm0, q2]
            simp [numProperCongruences]; omega
          · rw [hloop, e3, hR]; simp; omega
        · have hloop : selectWiderCongruencesLoop xs xdk ys ydk (d + 1) i yRow sel =
              selectWiderCongruencesLoop xs xdk ys ydk d (i + 1) (yRow + 1) sel := by
            rw [selectWiderCongruencesLoop]
            simp [hk, hsel]
          obtain ⟨dr, e1, e2, e3⟩ := ih (i + 1) (yRow + 1) sel (by omega) hinv'
          refine ⟨dr + 1, ?_, ?_, ?_⟩
          · rw [hloop, e1, hR, numEqualities_cons, q1]; simp
          · rw [hloop, hR, numProperCongruences_cons, q2, if_pos rfl]; omega
          · rw [hloop, hR, List.length_cons]; omega

/-- the selection on a minimised system, counted: `dr` proper congruences (besides the integrality row) are dropped -/
theorem selectWiderCongruences_counts_dr (n : Nat) (xs : List CRow) (xdk : List Nat) (ys : List CRow) (ydk : List Nat)
    (hfin : Final n xs xdk) :
    ∃ dr : Nat,
      numEqualities (selectWiderCongruences n xs xdk ys ydk) = numEqualities xs ∧
      numProperCongruences (selectWiderCongruences n xs xdk ys ydk) + dr + 1 = numProperCongruences xs ∧
      (selectWiderCongruences n xs xdk ys ydk).length + dr + 1 = xs.length := by
  obtain ⟨p, mm, hI, hmm, hlastrow, hk0⟩ := hfin
  have hcv : kind xdk 0 ≠ CON_VIRTUAL := by rw [hk0]; decide
  obtain ⟨hpos, hp0⟩ := hI.kinv.last0 (by omega) hcv
  obtain ⟨dr, e1, e2, e3⟩ := selectWiderCongruencesLoop_counts n xs xdk ys ydk p hI hp0 hpos n 0 0 [] (le_refl _)
    (fun i hi => by have := (hI.kinv.rng i hi).2; omega)
  -- the system is its first `length - 1` rows and the integrality row
  have hsplit : xs = xs.take (xs.length - 1) ++ [integralityRow n mm] := by
    rw [← hlastrow]
    have h1 : xs = xs.take (xs.length - 1) ++ xs.drop (xs.length - 1) := (List.take_append_drop _ _).symm
    have h2 : xs.drop (xs.length - 1) = [rowAt xs (xs.length - 1)] := by
      rw [List.drop_eq_getElem_cons (by omega), rowAt_eq_getElem xs _ (by omega)]
      congr 1
      apply List.drop_eq_nil_of_le; omega
    rw [← h2]; exact h1
  have c1 : numEqualities xs = numEqualities (xs.take (xs.length - 1)) := by
    conv_lhs => rw [hsplit]
    rw [numEqualities_append]
    have : (integralityRow n mm).isEquality = false := by
      simp [CRow.isEquality, integralityRow]; omega
    simp [numEqualities, this]
  have c2 : numProperCongruences xs = numProperCongruences (xs.take (xs.length - 1)) + 1 := by
    conv_lhs => rw [hsplit]
    rw [numProperCongruences_append]
    have : (integralityRow n mm).isProperCongruence = true := by
      simp [CRow.isProperCongruence, integralityRow, hmm]
    simp [numProperCongruences, this]
  simp only [List.drop_zero, List.length_take] at e1 e2 e3
  refine ⟨dr, ?_, ?_, ?_⟩
  · show numEqualities (selectWiderCongruencesLoop xs xdk ys ydk n 0 0 []) = _
    rw [e1, c1]; simp [numEqualities]
  · show numProperCongruences (selectWiderCongruencesLoop xs xdk ys ydk n 0 0 []) + dr + 1 = _
    rw [e2, c2]; simp [numProperCongruences]
  · show (selectWiderCongruencesLoop xs xdk ys ydk n 0 0 []).length + dr + 1 = _
    rw [e3]; simp; omega

/-- every equality is selected, the integrality row never is, and a shorter selection has lost proper congruences -/
theorem selectWiderCongruences_counts (n : Nat) (xs : List CRow) (xdk : List Nat) (ys : List CRow) (ydk : List Nat)
    (hfin : Final n xs xdk) :
    let sel := selectWiderCongruences n xs xdk ys ydk
    numEqualities sel = numEqualities xs ∧ numProperCongruences sel + 1 ≤ numProperCongruences xs ∧
      sel.length + 1 ≤ xs.length ∧
      (sel.length + 1 < xs.length → numProperCongruences sel + 1 < numProperCongruences xs) := by
  intro sel
  obtain ⟨dr, e1, e2, e3⟩ := selectWiderCongruences_counts_dr n xs xdk ys ydk hfin
  refine ⟨e1, ?_, ?_, ?_⟩
  · show numProperCongruences (selectWiderCongruences n xs xdk ys ydk) + 1 ≤ _; omega
  · show (selectWiderCongruences n xs xdk ys ydk).length + 1 ≤ _; omega
  · show (selectWiderCongruences n xs xdk ys ydk).length + 1 < _ →
      numProperCongruences (selectWiderCongruences n xs xdk ys ydk) + 1 < _
    omega

/-- the test `selected_cgs.num_rows() == x.con_sys.num_rows()` (l.133) is never true on a minimised `x` -/
theorem selectWiderCongruences_length_ne (n : Nat) (xs : List CRow) (xdk : List Nat) (ys : List CRow) (ydk : List Nat)
    (hfin : Final n xs xdk) : (selectWiderCongruences n xs xdk ys ydk).length ≠ xs.length := by
  have := (selectWiderCongruences_counts n xs xdk ys ydk hfin).2.2.1
  omega

/-! ### the exit "all_selected" is dead code -/

/-- the minimisation preamble establishes the triangular form when it has to minimise -/
theorem minimizeCongruences_final (g : GridM) (hup : g.cgUp = true) (hwf : CWf g.n g.con) (hmin : g.cgMin = false)
    (hne : (g.minimizeCongruences).2 = false) :
    Final g.n (g.minimizeCongruences).1.con (g.minimizeCongruences).1.dk := by
  have htri := simplifyCgs_triangular g.n g.con g.dk hwf
  by_cases hf : (simplifyCgs g.n g.con g.dk).2.2 = true
  · have e : g.minimizeCongruences = (g.setEmpty, true) := by
      unfold GridM.minimizeCongruences; simp [hup, hmin, hf]
    rw [e] at hne; cases hne
  · have hf' : (simplifyCgs g.n g.con g.dk).2.2 = false := by simpa using hf
    have e : g.minimizeCongruences =
        (({ g with con := (simplifyCgs g.n g.con g.dk).1, dk := (simplifyCgs g.n g.con g.dk).2.1, cgMin := true } : GridM),
          false) := by
      unfold GridM.minimizeCongruences; simp [hup, hmin, hf']
    rw [e]
    exact htri hf'

theorem congruenceWideningAssign_all_selected_dead (contains : GridM → GridM → Bool) (x y : GridM) (tp : Option Nat)
    (hfin : Final (x.minimizeCongruences).1.n (x.minimizeCongruences).1.con (x.minimizeCongruences).1.dk) :
    (congruenceWideningAssign contains x y tp).2.2.2 ≠ "all_selected" := by
  have hall := selectWiderCongruences_length_ne (x.minimizeCongruences).1.n (x.minimizeCongruences).1.con
    (x.minimizeCongruences).1.dk (y.minimizeCongruences).1.con (y.minimizeCongruences).1.dk hfin
  by_cases h0 : x.n = 0 ∨ x.empty = true ∨ y.empty = true
  · rw [congruenceWideningAssign_trivial _ _ _ _ h0]; simp
  by_cases hx : (x.minimizeCongruences).2 = true
  · rw [congruenceWideningAssign_x_empty _ _ _ _ h0 hx]; simp
  have hx' : (x.minimizeCongruences).2 = false := by simpa using hx
  by_cases hy : (y.minimizeCongruences).2 = true
  · rw [congruenceWideningAssign_y_empty _ _ _ _ h0 hx' hy]; simp
  have hy' : (y.minimizeCongruences).2 = false := by simpa using hy
  by_cases hlt : numEqualities (x.minimizeCongruences).1.con < numEqualities (y.minimizeCongruences).1.con
  · rw [congruenceWideningAssign_fewer_equalities _ _ _ _ h0 hx' hy' hlt]; simp
  rcases tp with _ | _ | t
  · rw [congruenceWideningAssign_widened _ _ _ _ (Or.inl rfl) h0 hx' hy' hlt hall]; simp
  · rw [congruenceWideningAssign_widened _ _ _ _ (Or.inr rfl) h0 hx' hy' hlt hall]; simp
  · rw [congruenceWideningAssign_tokens _ _ _ _ h0 hx' hy' hlt hall]
    split <;> simp

/-! ### the certificate -/

/-- `Grid_Certificate` of a minimised congruence system -/
def certOfRows (rows : List CRow) : GridCert :=
  { numEqualities := numEqualities rows, numProperCongruences := numProperCongruences rows }

theorem certOfRows_result (n : Nat) (cgs : List CRow) :
    certOfRows ((universeGrid n).addRecycledCongruences cgs).con =
      { numEqualities := numEqualities cgs, numProperCongruences := numProperCongruences cgs + 1 } := by
  rw [addRecycledCongruences_universe_con]
  unfold certOfRows
  rw [numEqualities_cons, numProperCongruences_cons]
  have h1 : (integralityRow n 1).isEquality = false := by simp [CRow.isEquality, integralityRow]
  have h2 : (integralityRow n 1).isProperCongruence = true := by simp [CRow.isProperCongruence, integralityRow]
  rw [h1, h2]
  simp; omega

/-- a congruence was dropped: the certificate of `result` is strictly smaller than the one of `x` -/
theorem cgw_certificate_decreases (n : Nat) (xs : List CRow) (xdk : List Nat) (ys : List CRow) (ydk : List Nat)
    (hfin : Final n xs xdk) (hdrop : (selectWiderCongruences n xs xdk ys ydk).length + 1 < xs.length) :
    GridCert.compare (certOfRows ((universeGrid n).addRecycledCongruences (selectWiderCongruences n xs xdk ys ydk)).con)
      (certOfRows xs) = .lt := by
  obtain ⟨dr, e1, e2, e3⟩ := selectWiderCongruences_counts_dr n xs xdk ys ydk hfin
  rw [certOfRows_result, GridCert.compare_lt]
  right
  simp only [certOfRows]
  exact ⟨e1, by omega⟩

/-- nothing was dropped but the integrality row, which the universe brings back: the same certificate -/
theorem cgw_certificate_keeps (n : Nat) (xs : List CRow) (xdk : List Nat) (ys : List CRow) (ydk : List Nat)
    (hfin : Final n xs xdk) (hkeep : (selectWiderCongruences n xs xdk ys ydk).length + 1 = xs.length) :
    certOfRows ((universeGrid n).addRecycledCongruences (selectWiderCongruences n xs xdk ys ydk)).con = certOfRows xs := by
  obtain ⟨dr, e1, e2, e3⟩ := selectWiderCongruences_counts_dr n xs xdk ys ydk hfin
  rw [certOfRows_result]
  simp only [certOfRows]
  rw [e1]
  congr 1
  omega

/-! ### examples -/

/-- the hypothesis `Final` holds of what `Grid::simplify` returns -/
example : Final 2 (simplifyCgs 2 exRows []).1 (simplifyCgs 2 exRows []).2.1 :=
  simplifyCgs_triangular 2 exRows [] (by
    intro r hr
    simp only [exRows, List.mem_cons, List.not_mem_nil, or_false] at hr
    rcases hr with rfl | rfl | rfl <;> exact ⟨rfl, by decide⟩) (by decide +kernel)

/-- `exX` against `exY`: of the two proper congruences besides the integrality row one is dropped -/
example : (selectWiderCongruences 2 exX.con exX.dk exY.con exY.dk).length + 1 < exX.con.length := by decide +kernel
example : GridCert.compare (certOfRows (cgwResult exX exY).con) (certOfRows exX.con) = .lt := by decide +kernel
/-- against itself nothing is dropped: the same certificate -/
example : certOfRows (cgwResult exX exX).con = certOfRows exX.con := by decide +kernel

end PPLV.Widen.ImplGrid
