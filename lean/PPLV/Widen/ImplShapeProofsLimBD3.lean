import PPLV.Widen.ImplShapeProofsLimBD2
import PPLV.Widen.ImplShapeProofsClose
/-!
# C08 stage 2 — the limited extrapolations of `BD_Shape`: between the receiver and the plain widening, and
which of the supplied constraints are kept
-/
namespace PPLV.Widen
open PPLV.WR
open PPLV.WR.ExtRat (fin pinf le_rfl' le_trans' le_total' le_pinf)

theorem BDS.lim_γ_mono {n : Nat} {A B : BDS} (he : B.empty = A.empty) (h : bdLE n A.dbm B.dbm) (p : Nat → Rat)
    (hp : BDS.γ n A p) : BDS.γ n B p :=
  ⟨he.trans hp.1, fun i j hi hj => le_trans' (hp.2 i j hi hj) (h i j hi hj)⟩

/-- `CC76_extrapolation_assign` closes its receiver first, so it does not matter whether `get_limiting_shape`
has closed it already -/
theorem bdCC76_closed_arg (up : Rat → ExtRat) (n : Nat) (stops : List Rat) (X Y : BDS) (tp : Option Nat)
    (hn : n ≠ 0) :
    bdCC76 up n stops (bdClosureAssign up n X) Y tp = bdCC76 up n stops X Y tp := by
  unfold bdCC76
  simp only [hn, if_false, bdClosureAssign_fix]

/-! ## CC76 -/

/-- matrix level, no well-formedness needed -/
theorem bd_limited_cc76_between_cells {up : Rat → ExtRat} (hup : ∀ q, fin q ≤ up q) (n csd : Nat)
    (cs : List LimCon) (X Y : BDS) (tp : Option Nat) (hn : n ≠ 0) (hx : X.empty = false) (hy : Y.empty = false) :
    let Xc := bdClosureAssign up n X
    let P := (bdCC76 up n defaultStops X Y tp).1
    let R := (bdLimitedCC76 up n csd cs X Y tp).1
    R.empty = Xc.empty ∧ P.empty = Xc.empty ∧ (∀ a b, Xc.dbm a b ≤ R.dbm a b) ∧ (∀ a b, R.dbm a b ≤ P.dbm a b) := by
  intro Xc P R
  have hfix : bdClosureAssign up n Xc = Xc := bdClosureAssign_fix up n X
  have hP : BDS.Dom Xc (bdCC76 up n defaultStops Xc Y tp).1 := bdCC76_dom hup n defaultStops Xc Y tp hfix
  have hR : R = bdIntersectionAssign n (bdCC76 up n defaultStops Xc Y tp).1
      (bdGetLimitingShape up n csd cs X BDS.univ).2 := bdLimitedCC76_eq up n csd cs X Y tp hn hx hy
  have hPP : P = (bdCC76 up n defaultStops Xc Y tp).1 := by
    show (bdCC76 up n defaultStops X Y tp).1 = _
    rw [bdCC76_closed_arg up n defaultStops X Y tp hn]
  obtain ⟨h1, h2, h3, _⟩ := bdLimited_core n Xc _ _ hP
    (by rw [bdGetLimitingShape_empty]; rfl) (bdGetLimitingShape_dom up n csd cs X)
  rw [hR, hPP]
  exact ⟨h1, hP.1, h2, h3⟩

/-- `limited_CC76_extrapolation_assign` (`BD_Shape_templates.hh:3225`): the result contains the receiver and is
contained in the plain `CC76_extrapolation_assign` -/
theorem bd_limited_cc76_between {up : Rat → ExtRat} (hup : ∀ q, fin q ≤ up q) (n csd : Nat)
    (cs : List LimCon) (X Y : BDS) (tp : Option Nat) (hWF : BDS.WF n X)
    (hn : n ≠ 0) (hx : X.empty = false) (hy : Y.empty = false) (p : Nat → Rat) :
    (BDS.γ n X p → BDS.γ n (bdLimitedCC76 up n csd cs X Y tp).1 p) ∧
    (BDS.γ n (bdLimitedCC76 up n csd cs X Y tp).1 p → BDS.γ n (bdCC76 up n defaultStops X Y tp).1 p) := by
  obtain ⟨h1, h2, h3, h4⟩ := bd_limited_cc76_between_cells hup n csd cs X Y tp hn hx hy
  constructor
  · intro hp
    exact BDS.lim_γ_mono h1 (fun i j _ _ => h3 i j) p (bdClosureAssign_γ hup hWF hp)
  · intro hp
    exact BDS.lim_γ_mono (h2.trans h1.symm) (fun i j _ _ => h4 i j) p hp

/-- (L4) a supplied inequality that is a bounded difference, whose cell is in range and which the closed receiver
satisfies at matrix level (`x ≤ d`, the test of `:3197`), is a constraint of the result: its cell is at most `d`,
so every point of the result satisfies `v_col - v_row ≤ d` -/
theorem bd_limited_cc76_keeps {up : Rat → ExtRat} (hup : ∀ q, fin q ≤ up q) (n csd : Nat)
    (cs : List LimCon) (X Y : BDS) (tp : Option Nat) (hn : n ≠ 0) (hx : X.empty = false) (hy : Y.empty = false)
    (c : LimCon) (hc : c ∈ cs) (hsel : bdLimSel csd c = true) (hineq : c.isEq = false)
    (hi : (bdLimCell csd c).1 ≤ n) (hj : (bdLimCell csd c).2 ≤ n)
    (hsat : (bdClosureAssign up n X).dbm (bdLimCell csd c).1 (bdLimCell csd c).2 ≤ bdLimBound up csd c) :
    ((bdClosureAssign up n X).empty = false →
      (bdLimitedCC76 up n csd cs X Y tp).1.dbm (bdLimCell csd c).1 (bdLimCell csd c).2 ≤ bdLimBound up csd c) ∧
    ∀ p, BDS.γ n (bdLimitedCC76 up n csd cs X Y tp).1 p →
      fin (DBM.val p (bdLimCell csd c).2 - DBM.val p (bdLimCell csd c).1) ≤ bdLimBound up csd c := by
  have hfix : bdClosureAssign up n (bdClosureAssign up n X) = bdClosureAssign up n X := bdClosureAssign_fix up n X
  have hP := bdCC76_dom hup n defaultStops (bdClosureAssign up n X) Y tp hfix
  have hR := bdLimitedCC76_eq up n csd cs X Y tp hn hx hy
  obtain ⟨h1, _, _, h4⟩ := bdLimited_core n (bdClosureAssign up n X) _ _ hP
    (by rw [bdGetLimitingShape_empty]; rfl) (bdGetLimitingShape_dom up n csd cs X)
  rw [← hR] at h1 h4
  have key : (bdClosureAssign up n X).empty = false →
      (bdLimitedCC76 up n csd cs X Y tp).1.dbm (bdLimCell csd c).1 (bdLimCell csd c).2 ≤ bdLimBound up csd c :=
    fun hne => le_trans' (h4 hne hn _ _ hi hj) (bdGetLimitingShape_keeps up n csd cs X _ c hc hsel hineq hsat)
  refine ⟨key, fun p hp => ?_⟩
  exact le_trans' (hp.2 _ _ hi hj) (key (h1.symm.trans hp.1))

/-! ## BHMZ05 -/

theorem bd_limited_bhmz05_between_cells (up : Rat → ExtRat) (n csd : Nat)
    (cs : List LimCon) (X Y : BDS) (tp : Option Nat) (hn : n ≠ 0) (hx : X.empty = false) (hy : Y.empty = false)
    (r : BDS × BDS × Option Nat × Mat) (hr : bdLimitedBHMZ05 up n csd cs X Y tp = some r) :
    ∃ P, bdBHMZ05 up n (bdClosureAssign up n X) Y tp = some P ∧
      r.1.empty = (bdClosureAssign up n X).empty ∧ P.1.empty = (bdClosureAssign up n X).empty ∧
      (∀ a b, (bdClosureAssign up n X).dbm a b ≤ r.1.dbm a b) ∧ (∀ a b, r.1.dbm a b ≤ P.1.dbm a b) := by
  obtain ⟨P, hP, hR⟩ := bdLimitedBHMZ05_eq up n csd cs X Y tp hn hx hy r hr
  have hdom := bdBHMZ05_dom up n (bdClosureAssign up n X) Y tp (bdClosureAssign_fix up n X) P hP
  obtain ⟨h1, h2, h3, _⟩ := bdLimited_core n (bdClosureAssign up n X) _ _ hdom
    (by rw [bdGetLimitingShape_empty]; rfl) (bdGetLimitingShape_dom up n csd cs X)
  rw [← hR] at h1 h2 h3
  exact ⟨P, hP, h1, hdom.1, h2, h3⟩

/-- `limited_BHMZ05_extrapolation_assign` (`BD_Shape_templates.hh:3338`): the result contains the receiver and is
contained in the plain `BHMZ05_widening_assign` of the closed receiver -/
theorem bd_limited_bhmz05_between {up : Rat → ExtRat} (hup : ∀ q, fin q ≤ up q) (n csd : Nat)
    (cs : List LimCon) (X Y : BDS) (tp : Option Nat) (hWF : BDS.WF n X)
    (hn : n ≠ 0) (hx : X.empty = false) (hy : Y.empty = false)
    (r : BDS × BDS × Option Nat × Mat) (hr : bdLimitedBHMZ05 up n csd cs X Y tp = some r) :
    ∃ P, bdBHMZ05 up n (bdClosureAssign up n X) Y tp = some P ∧
      ∀ p, (BDS.γ n X p → BDS.γ n r.1 p) ∧ (BDS.γ n r.1 p → BDS.γ n P.1 p) := by
  obtain ⟨P, hP, h1, h2, h3, h4⟩ := bd_limited_bhmz05_between_cells up n csd cs X Y tp hn hx hy r hr
  refine ⟨P, hP, fun p => ⟨fun hp => ?_, fun hp => ?_⟩⟩
  · exact BDS.lim_γ_mono h1 (fun i j _ _ => h3 i j) p (bdClosureAssign_γ hup hWF hp)
  · exact BDS.lim_γ_mono (h2.trans h1.symm) (fun i j _ _ => h4 i j) p hp

theorem bd_limited_bhmz05_keeps (up : Rat → ExtRat) (n csd : Nat)
    (cs : List LimCon) (X Y : BDS) (tp : Option Nat) (hn : n ≠ 0) (hx : X.empty = false) (hy : Y.empty = false)
    (r : BDS × BDS × Option Nat × Mat) (hr : bdLimitedBHMZ05 up n csd cs X Y tp = some r)
    (c : LimCon) (hc : c ∈ cs) (hsel : bdLimSel csd c = true) (hineq : c.isEq = false)
    (hi : (bdLimCell csd c).1 ≤ n) (hj : (bdLimCell csd c).2 ≤ n)
    (hsat : (bdClosureAssign up n X).dbm (bdLimCell csd c).1 (bdLimCell csd c).2 ≤ bdLimBound up csd c) :
    ((bdClosureAssign up n X).empty = false →
      r.1.dbm (bdLimCell csd c).1 (bdLimCell csd c).2 ≤ bdLimBound up csd c) ∧
    ∀ p, BDS.γ n r.1 p →
      fin (DBM.val p (bdLimCell csd c).2 - DBM.val p (bdLimCell csd c).1) ≤ bdLimBound up csd c := by
  obtain ⟨P, hP, hR⟩ := bdLimitedBHMZ05_eq up n csd cs X Y tp hn hx hy r hr
  have hdom := bdBHMZ05_dom up n (bdClosureAssign up n X) Y tp (bdClosureAssign_fix up n X) P hP
  obtain ⟨h1, _, _, h4⟩ := bdLimited_core n (bdClosureAssign up n X) _ _ hdom
    (by rw [bdGetLimitingShape_empty]; rfl) (bdGetLimitingShape_dom up n csd cs X)
  rw [← hR] at h1 h4
  have key : (bdClosureAssign up n X).empty = false →
      r.1.dbm (bdLimCell csd c).1 (bdLimCell csd c).2 ≤ bdLimBound up csd c :=
    fun hne => le_trans' (h4 hne hn _ _ hi hj) (bdGetLimitingShape_keeps up n csd cs X _ c hc hsel hineq hsat)
  refine ⟨key, fun p hp => ?_⟩
  exact le_trans' (hp.2 _ _ hi hj) (key (h1.symm.trans hp.1))

end PPLV.Widen
