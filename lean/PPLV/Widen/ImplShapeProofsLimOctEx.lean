import PPLV.Widen.ImplShapeProofsLimOct2
import PPLV.Widen.ImplShapeProofsLimRange
import Mathlib.Tactic.Linarith
import Mathlib.Tactic.Ring
import Mathlib.Tactic.Push
import Mathlib.Algebra.Order.Field.Rat
/-!
# C08 stage 2 — `Octagonal_Shape`: what the kept cell means for the supplied inequality itself when
`div_round_up` is exact
-/
namespace PPLV.Widen
open PPLV.WR
open PPLV.WR.ExtRat (fin pinf le_rfl' le_trans' le_total' le_pinf fin_le_fin)

theorem oval_even (x : Nat → Rat) (f : Nat) : OctM.oval x (f * 2) = x f := by
  unfold OctM.oval
  have h1 : (f * 2) % 2 = 0 := by omega
  have h2 : (f * 2) / 2 = f := by omega
  simp [h1, h2]

theorem oval_odd (x : Nat → Rat) (f : Nat) : OctM.oval x (f * 2 + 1) = - x f := by
  unfold OctM.oval
  have h1 : (f * 2 + 1) % 2 = 1 := by omega
  have h2 : (f * 2 + 1) / 2 = f := by omega
  simp [h1, h2]

/-- the normal form of a proper octagonal difference (`Octagonal_Shape.cc:34`):
`term - |coeff|·(v_j - v_i) = k·(cf·x + inhomo)` with `k = 2` for one variable (`term = 2·inhomo`), `k = 1`
for two -/
theorem extractOctagonalDifference_spec (sd : Nat) (cf : Nat → Int) (inhomo : Int)
    (hok : (extractOctagonalDifference sd cf inhomo).ok = true)
    (hnv : (extractOctagonalDifference sd cf inhomo).numVars ≠ 0) :
    (0 : Int) < (if (extractOctagonalDifference sd cf inhomo).coeff < 0
        then - (extractOctagonalDifference sd cf inhomo).coeff else (extractOctagonalDifference sd cf inhomo).coeff) ∧
    ∃ k : Rat, 0 < k ∧ ∀ x : Nat → Rat,
      ((extractOctagonalDifference sd cf inhomo).term : Rat)
        - (((if (extractOctagonalDifference sd cf inhomo).coeff < 0
              then - (extractOctagonalDifference sd cf inhomo).coeff
              else (extractOctagonalDifference sd cf inhomo).coeff : Int)) : Rat)
          * (OctM.oval x (extractOctagonalDifference sd cf inhomo).j
              - OctM.oval x (extractOctagonalDifference sd cf inhomo).i)
        = k * (linEval cf x sd + inhomo) := by
  obtain ⟨f1, f2, f3, f4⟩ := firstNonzero_spec cf (show 1 ≤ sd + 1 by omega)
  unfold extractOctagonalDifference at hok hnv ⊢
  dsimp only at hok hnv ⊢
  generalize firstNonzero cf 1 (sd + 1) = i at *
  by_cases h1 : i = sd + 1
  · rw [if_pos h1] at hnv; simp at hnv
  · rw [if_neg h1] at hok hnv ⊢
    obtain ⟨i', rfl⟩ : ∃ i', i = i' + 1 := ⟨i - 1, by omega⟩
    simp only [Nat.add_sub_cancel] at hok hnv ⊢
    obtain ⟨s1, s2, s3, s4⟩ := firstNonzero_spec cf (show i' + 2 ≤ sd + 1 by omega)
    generalize firstNonzero cf (i' + 2) (sd + 1) = j at *
    have hci : cf i' ≠ 0 := by simpa using f4 (by omega)
    have zlo : ∀ t, t < i' → cf t = 0 := by
      intro t ht
      have := f3 (t + 1) (by omega) (by omega)
      simpa using this
    have zmid : ∀ t, i' < t → t + 1 < j → cf t = 0 := by
      intro t ht1 ht2
      have := s3 (t + 1) (by omega) (by omega)
      simpa using this
    by_cases h2 : j = sd + 1
    · rw [if_pos h2]
      have hlin : ∀ x : Nat → Rat, linEval cf x sd = (cf i' : Rat) * x i' := by
        intro x
        refine linEval_support1 cf x (a := i') (by omega) (fun t ht hta => ?_)
        rcases Nat.lt_or_gt_of_ne hta with hlt | hgt
        · exact zlo t hlt
        · exact zmid t hgt (by omega)
      by_cases hneg : cf i' < 0
      · simp only [hneg, if_true]
        refine ⟨by omega, 2, by norm_num, fun x => ?_⟩
        rw [hlin, oval_even, oval_odd]
        push_cast
        ring
      · simp only [hneg, if_false]
        refine ⟨by omega, 2, by norm_num, fun x => ?_⟩
        rw [hlin, oval_even, oval_odd]
        push_cast
        ring
    · rw [if_neg h2] at hok hnv ⊢
      obtain ⟨j', rfl⟩ : ∃ j', j = j' + 1 := ⟨j - 1, by omega⟩
      simp only [Nat.add_sub_cancel] at hok hnv ⊢
      have hcj : cf j' ≠ 0 := by simpa using s4 (by omega)
      by_cases h3 : (!allZeroes cf (j' + 2) (sd + 1)) = true
      · rw [if_pos h3] at hok; simp at hok
      · rw [if_neg h3] at hok hnv ⊢
        by_cases h4 : cf j' ≠ cf i' ∧ cf j' ≠ - cf i'
        · rw [if_pos h4] at hok; simp at hok
        · rw [if_neg h4]
          have hall : firstNonzero cf (j' + 2) (sd + 1) = sd + 1 := by
            simpa [allZeroes] using h3
          obtain ⟨u1, u2, u3, u4⟩ := firstNonzero_spec cf (show j' + 2 ≤ sd + 1 by omega)
          rw [hall] at u3
          have zhi : ∀ t, j' < t → t < sd → cf t = 0 := by
            intro t ht1 ht2
            have := u3 (t + 1) (by omega) (by omega)
            simpa using this
          have hlin : ∀ x : Nat → Rat, linEval cf x sd = (cf i' : Rat) * x i' + (cf j' : Rat) * x j' := by
            intro x
            refine linEval_support2 cf x (a := i') (b := j') (by omega) (by omega) (by omega)
              (fun t ht hta htb => ?_)
            rcases Nat.lt_or_gt_of_ne hta with hlt | hgt
            · exact zlo t hlt
            · rcases Nat.lt_or_gt_of_ne htb with hlt' | hgt'
              · exact zmid t hgt (by omega)
              · exact zhi t hgt' ht
          have h4' : cf j' = cf i' ∨ cf j' = - cf i' := by
            by_contra hc
            exact h4 ⟨fun e => hc (Or.inl e), fun e => hc (Or.inr e)⟩
          dsimp only
          by_cases hn0 : cf j' < 0
          · by_cases hp1 : cf i' > 0
            · have e : cf i' = - cf j' := by omega
              have e' : (cf i' : Rat) = - (cf j' : Rat) := by exact_mod_cast e
              simp only [hn0, hp1, if_true]
              refine ⟨by omega, 1, by norm_num, fun x => ?_⟩
              rw [hlin, oval_odd, oval_odd, e']
              push_cast
              ring
            · have e : cf i' = cf j' := by omega
              have e' : (cf i' : Rat) = (cf j' : Rat) := by exact_mod_cast e
              simp only [hn0, hp1, if_true, if_false]
              refine ⟨by omega, 1, by norm_num, fun x => ?_⟩
              rw [hlin, oval_odd, oval_even, e']
              push_cast
              ring
          · by_cases hp1 : cf i' > 0
            · have e : cf i' = cf j' := by omega
              have e' : (cf i' : Rat) = (cf j' : Rat) := by exact_mod_cast e
              simp only [hn0, hp1, if_true, if_false]
              refine ⟨by omega, 1, by norm_num, fun x => ?_⟩
              rw [hlin, oval_even, oval_odd, e']
              ring
            · have e : cf i' = - cf j' := by omega
              have e' : (cf i' : Rat) = - (cf j' : Rat) := by exact_mod_cast e
              simp only [hn0, hp1, if_false]
              refine ⟨by omega, 1, by norm_num, fun x => ?_⟩
              rw [hlin, oval_even, oval_even, e']
              ring

/-- `v_j - v_i ≤ term / |coeff|` is the supplied inequality `cf·v + inhomo ≥ 0` -/
theorem oct_exact_ineq_holds (csd : Nat) (c : LimCon) (hsel : octLimSel csd c = true) (p : Nat → Rat)
    (h : OctM.oval p (octLimCell csd c).2 - OctM.oval p (octLimCell csd c).1
      ≤ ((extractOctagonalDifference csd c.coeff c.inhomo).term : Rat) / (octLimCoeff csd c : Rat)) :
    0 ≤ linEval c.coeff p csd + c.inhomo := by
  unfold octLimSel at hsel
  simp only [Bool.and_eq_true, bne_iff_ne, ne_eq] at hsel
  obtain ⟨hpos, k, hk, hlin⟩ := extractOctagonalDifference_spec csd c.coeff c.inhomo hsel.1 hsel.2
  unfold octLimCell octLimCoeff at h
  simp only at h
  have hc : (0 : Rat) < (((if (extractOctagonalDifference csd c.coeff c.inhomo).coeff < 0
      then - (extractOctagonalDifference csd c.coeff c.inhomo).coeff
      else (extractOctagonalDifference csd c.coeff c.inhomo).coeff : Int)) : Rat) := by exact_mod_cast hpos
  rw [le_div_iff₀ hc] at h
  have := hlin p
  have hk' : 0 ≤ k * (linEval c.coeff p csd + c.inhomo) := by linarith
  exact nonneg_of_mul_nonneg_right hk' hk

/-- any result `P ⊓ limiting octagon` with `P` dominating the closed receiver keeps, at the level of the supplied
constraint, every selected inequality whose quotient `div_round_up` computes exactly -/
theorem octLimited_keeps_exact (up : Rat → ExtRat) (n csd : Nat) (cs : List LimCon) (X P : OCS)
    (hP : OCS.Dom (octClosureAssign up n X) P) (hn : n ≠ 0) (hcsd : csd ≤ n)
    (c : LimCon) (hc : c ∈ cs) (hsel : octLimSel csd c = true) (hineq : c.isEq = false)
    (hex : octLimBound up csd c
      = fin (((extractOctagonalDifference csd c.coeff c.inhomo).term : Rat) / (octLimCoeff csd c : Rat)))
    (hsat : (octClosureAssign up n X).mat (octLimCell csd c).1 (octLimCell csd c).2 ≤ octLimBound up csd c)
    (p : Nat → Rat)
    (hp : OCS.γ n (octIntersectionAssign n P (octGetLimitingOctagon up n csd cs X OCS.univ).2) p) :
    0 ≤ linEval c.coeff p csd + c.inhomo := by
  obtain ⟨r1, r2⟩ := octLimCell_range csd c hsel
  have r1' : (octLimCell csd c).1 < 2 * n := by omega
  obtain ⟨h1, _, _, h4⟩ := octLimited_core n _ P _ hP (by rw [octGetLimitingOctagon_empty]; rfl)
    (octGetLimitingOctagon_dom up n csd cs X)
  have := le_trans' (hp.2 _ _ r1' r2) (le_trans' (h4 (h1.symm.trans hp.1) hn _ _ r1' r2)
    (octGetLimitingOctagon_keeps up n csd cs X _ c hc hsel hineq hsat))
  rw [hex, fin_le_fin] at this
  exact oct_exact_ineq_holds csd c hsel p this

theorem oct_limited_cc76_keeps_exact {up : Rat → ExtRat} (hup : ∀ q, fin q ≤ up q) (n csd : Nat)
    (cs : List LimCon) (X Y : OCS) (tp : Option Nat) (hn : n ≠ 0) (hx : X.empty = false) (hy : Y.empty = false)
    (hcsd : csd ≤ n) (c : LimCon) (hc : c ∈ cs) (hsel : octLimSel csd c = true) (hineq : c.isEq = false)
    (hex : octLimBound up csd c
      = fin (((extractOctagonalDifference csd c.coeff c.inhomo).term : Rat) / (octLimCoeff csd c : Rat)))
    (hsat : (octClosureAssign up n X).mat (octLimCell csd c).1 (octLimCell csd c).2 ≤ octLimBound up csd c)
    (p : Nat → Rat) (hp : OCS.γ n (octLimitedCC76 up n csd cs X Y tp).1 p) :
    0 ≤ linEval c.coeff p csd + c.inhomo := by
  rw [octLimitedCC76_eq up n csd cs X Y tp hn hx hy] at hp
  exact octLimited_keeps_exact up n csd cs X _
    (octCC76_dom hup n defaultStops _ Y tp (octClosureAssign_fix up n X)) hn hcsd c hc hsel hineq hex hsat p hp

theorem oct_limited_bhmz05_keeps_exact (up : Rat → ExtRat) (n csd : Nat)
    (cs : List LimCon) (X Y : OCS) (tp : Option Nat) (hn : n ≠ 0) (hx : X.empty = false) (hy : Y.empty = false)
    (r : OCS × OCS × Option Nat × Mat) (hr : octLimitedBHMZ05 up n csd cs X Y tp = some r)
    (hcsd : csd ≤ n) (c : LimCon) (hc : c ∈ cs) (hsel : octLimSel csd c = true) (hineq : c.isEq = false)
    (hex : octLimBound up csd c
      = fin (((extractOctagonalDifference csd c.coeff c.inhomo).term : Rat) / (octLimCoeff csd c : Rat)))
    (hsat : (octClosureAssign up n X).mat (octLimCell csd c).1 (octLimCell csd c).2 ≤ octLimBound up csd c)
    (p : Nat → Rat) (hp : OCS.γ n r.1 p) :
    0 ≤ linEval c.coeff p csd + c.inhomo := by
  obtain ⟨P, hP, hR⟩ := octLimitedBHMZ05_eq up n csd cs X Y tp hn hx hy r hr
  rw [hR] at hp
  exact octLimited_keeps_exact up n csd cs X _
    (octBHMZ05_dom up n _ Y tp (octClosureAssign_fix up n X) P hP) hn hcsd c hc hsel hineq hex hsat p hp

theorem octLimBound_upId (csd : Nat) (c : LimCon) :
    octLimBound upId csd c
      = fin (((extractOctagonalDifference csd c.coeff c.inhomo).term : Rat) / (octLimCoeff csd c : Rat)) := rfl

end PPLV.Widen
