import PPLV.Conv.ProofsCompleteK1a
/-!
# exact row lengths through `conversion` / `minimize` (dest side)

The `≤` lemmas of `PPLV/Conv/ProofsCompleteK1a.lean`, with `=`: the identity matrix has rows of exactly `ncols`
coefficients, a combination of two rows of equal length keeps it, normalisation keeps it.
-/
namespace PPLV.Widen.Impl
open PPLV.Conv

theorem lengthEq_combRow (n : Nat) (pr : LRow) (psp : Int) (r : LRow) (sp : Int)
    (h1 : pr.v.length = n) (h2 : r.v.length = n) : (combRow pr psp r sp).v.length = n := by
  unfold combRow combineWithNle
  simp only
  rw [length_strongNormalize]
  simp only [length_linearCombine]
  omega

theorem lengthEq_newRay (n : Nat) (ri rj : DRow) (s : BRow)
    (h1 : ri.row.v.length = n) (h2 : rj.row.v.length = n) : (newRay ri rj s).row.v.length = n := by
  unfold newRay
  simp only
  rw [length_strongNormalize]
  simp only [length_linearCombine]
  omega

/-- one iteration of the main loop does not lengthen the rows. -/
theorem conversionStep_lengthEq (ncols n : Nat) (srcK : LRow) (st : CState)
    (hn : st.nle ≤ st.rows.length) (hlen : ∀ d ∈ st.rows, d.row.v.length = n) :
    ∀ d ∈ (conversionStep ncols srcK st).rows, d.row.v.length = n := by
  let rows1 := st.rows.map fun d => { d with sp := scalarProduct srcK.v d.row.v }
  let st1 : CState := { st with rows := rows1 }
  have hlen1 : ∀ d ∈ st1.rows, d.row.v.length = n := by
    intro d hd
    obtain ⟨d0, hd0, rfl⟩ := List.mem_map.mp hd
    exact hlen d0 hd0
  have hn1 : st1.nle ≤ st1.rows.length := by
    show st.nle ≤ rows1.length
    simp only [rows1, List.length_map]; exact hn
  have hbefore : ∀ m d, m < indexNonZero rows1 → st1.rows[m]? = some d → d.sp = 0 :=
    fun m d hm hd => indexNonZero_before rows1 m d hm hd
  by_cases hc : indexNonZero rows1 < st.nle
  · have e : conversionStep ncols srcK st
        = lineCase srcK (st.k - st.redundant.length) st1 (indexNonZero rows1) := by
      show (if indexNonZero rows1 < st.nle then lineCase srcK (st.k - st.redundant.length) st1 (indexNonZero rows1)
            else rayCase ncols srcK (st.k - st.redundant.length) st1) = _
      rw [if_pos hc]
    rw [e]
    have hlt : indexNonZero rows1 < st1.rows.length := by
      have : st1.nle = st.nle := rfl
      omega
    intro d hd
    have hr : st1.rows[indexNonZero rows1]? = some (st1.rows[indexNonZero rows1]'hlt) :=
      List.getElem?_eq_getElem hlt
    have hp : (linePivot (st1.rows[indexNonZero rows1]'hlt)).row.v.length = n := by
      rw [length_linePivot]; exact hlen1 _ (List.getElem_mem hlt)
    rcases lineCase_row_cases srcK _ st1 _ hc hn1 _ hr d hd with h | ⟨d0, hd0, h | h⟩
    · rw [h]; exact hp
    · rw [h]; exact hlen1 d0 hd0
    · rw [h]; exact lengthEq_combRow n _ _ _ _ hp (hlen1 d0 hd0)
  · have e : conversionStep ncols srcK st = rayCase ncols srcK (st.k - st.redundant.length) st1 := by
      show (if indexNonZero rows1 < st.nle then lineCase srcK (st.k - st.redundant.length) st1 (indexNonZero rows1)
            else rayCase ncols srcK (st.k - st.redundant.length) st1) = _
      rw [if_neg hc]
    rw [e]
    have hz : ∀ d ∈ st1.rows.take st1.nle, d.sp = 0 := by
      intro d hd
      obtain ⟨m, hm⟩ := List.mem_iff_getElem?.mp hd
      rw [List.getElem?_take] at hm
      by_cases hlt : m < st1.nle
      · simp only [hlt, if_true] at hm
        have : m < indexNonZero rows1 := by
          have : st1.nle = st.nle := rfl
          omega
        exact hbefore m d this hm
      · simp [hlt] at hm
    obtain ⟨_, _, _, tail, hrows, htail, _⟩ := rayCase_rows ncols srcK (st.k - st.redundant.length) st1 hn1 hz
    intro d hd
    rw [hrows] at hd
    rcases List.mem_append.mp hd with h | h
    · exact hlen1 d (List.mem_of_mem_take h)
    · rcases htail d h with ⟨d0, hd0, _, rfl⟩ | ⟨ri, hri, rj, hrj, _, _, rfl⟩
      · rw [keepImage_row]; exact hlen1 d0 (List.mem_of_mem_drop hd0)
      · exact lengthEq_newRay n ri rj _ (hlen1 ri (List.mem_of_mem_drop hri)) (hlen1 rj (List.mem_of_mem_drop hrj))

/-- the main loop does not lengthen the rows. -/
theorem conversionLoop_lengthEq (ncols n : Nat) (rest : List LRow) (st : CState)
    (hl : ∀ m d, st.rows[m]? = some d → d.row.le = decide (m < st.nle)) (hn : st.nle ≤ st.rows.length)
    (hlen : ∀ d ∈ st.rows, d.row.v.length = n) :
    ∀ d ∈ (conversionLoop ncols rest st).rows, d.row.v.length = n := by
  induction rest generalizing st with
  | nil => simpa only [conversionLoop] using hlen
  | cons s rest ih =>
    obtain ⟨_, h2, h3⟩ := conversionStep_sound ncols s st [] (fun _ _ _ hs => by cases hs) hl hn
    simp only [conversionLoop]
    exact ih { conversionStep ncols s st with k := st.k + 1 } h2 h3 (conversionStep_lengthEq ncols n s st hn hlen)

/-- **no returned row is longer than the longest row of `dest`.** -/
theorem conversion_lengthEq (ncols n : Nat) (source : List LRow) (start : Nat) (dest : List LRow) (sat : List BRow)
    (nle : Nat) (hl : LinesFirst dest nle) (hn : nle ≤ dest.length) (hsat : sat.length = dest.length)
    (hlen : ∀ g ∈ dest, g.v.length = n) :
    ∀ g ∈ (conversion ncols source start dest sat nle).dest, g.v.length = n := by
  have hrow := initRows_row dest sat hsat
  let st0 : CState := { rows := initRows dest sat, nle := nle, k := start, redundant := [] }
  have hmem : ∀ d ∈ st0.rows, d.row ∈ dest := by
    intro d hd
    rw [← hrow]; exact List.mem_map_of_mem hd
  have hl0 : ∀ m d, st0.rows[m]? = some d → d.row.le = decide (m < st0.nle) := by
    have : LinesFirst (st0.rows.map (·.row)) nle := by
      show LinesFirst ((initRows dest sat).map (·.row)) nle; rw [hrow]; exact hl
    exact (linesFirst_iff st0.rows nle).mp this
  have hn0 : st0.nle ≤ st0.rows.length := by
    show nle ≤ (initRows dest sat).length
    have : (initRows dest sat).length = dest.length := by
      have := congrArg List.length hrow
      simpa using this
    omega
  have h := conversionLoop_lengthEq ncols n (source.drop start) st0 hl0 hn0 (fun d hd => hlen d.row (hmem d hd))
  intro g hg
  obtain ⟨d, hd, rfl⟩ := List.mem_map.mp hg
  exact h d hd

/-- **the conversion run by `minimize`** returns rows with at most `ncols` coefficients. -/
theorem conversion_identity_lengthEq (ncols : Nat) (source : List LRow) :
    ∀ g ∈ (conversion ncols source 0 (identityLines ncols)
      (List.replicate ncols (List.replicate source.length false)) ncols).dest, g.v.length = ncols := by
  apply conversion_lengthEq ncols ncols source 0 (identityLines ncols) _ ncols (linesFirst_identity' ncols)
  · simp [identityLines]
  · simp [identityLines]
  · intro g hg
    rw [identityLines_eq] at hg
    obtain ⟨i, _, rfl⟩ := List.mem_map.mp hg
    simp [unitV_length]


set_option linter.unusedVariables false in
/-- **the generator system `minimize` leaves has rows of exactly `n + 1` coefficients**
(`hlen` is not needed: the rows come from the identity matrix). -/
theorem minimize_dest_length (n : Nat) (source : List PPLV.Conv.LRow) (sat0 : List PPLV.Conv.BRow)
    (hlen : ∀ s ∈ source, s.v.length = n + 1) :
    ∀ g ∈ (PPLV.Conv.minimize true false (n + 1) source sat0).dest, g.v.length = n + 1 := by
  have hd : (PPLV.Conv.minimize true false (n + 1) source sat0).dest
      = (conversion (n + 1) source 0 (identityLines (n + 1))
          (List.replicate (n + 1) (List.replicate source.length false)) (n + 1)).dest := by
    unfold minimize
    simp only
    split <;> rfl
  rw [hd]
  exact conversion_identity_lengthEq (n + 1) source

end PPLV.Widen.Impl
