import PPLV.Widen.ImplH79
import Mathlib.Data.List.Basic
import Mathlib.Data.List.GetD
import Mathlib.Order.Basic

/-!
# C08 stage 2 — list-level facts about `select_H79_constraints` (the swap-with-last loop, the lookup)
-/
namespace PPLV.Widen.Impl

theorem selectH79_fst (nnc : Bool) (xCs yCs : List CRow) (yGens : List GRow) (satG : List BitRow) :
    (selectH79Constraints nnc xCs yCs yGens satG).1 =
      xCs.filter fun ci => sortedContains (tmpSatG nnc yCs satG) (satRow ci yGens) := by
  simp [selectH79Constraints, List.partition_eq_filter_filter]

theorem selectH79_snd (nnc : Bool) (xCs yCs : List CRow) (yGens : List GRow) (satG : List BitRow) :
    (selectH79Constraints nnc xCs yCs yGens satG).2 =
      xCs.filter fun ci => !sortedContains (tmpSatG nnc yCs satG) (satRow ci yGens) := by
  simp only [selectH79Constraints, List.partition_eq_filter_filter]
  congr 1

/-- `cs_not_selected` empty: every constraint of `x` was selected -/
theorem selectH79_fst_of_snd_empty (nnc : Bool) (xCs yCs : List CRow) (yGens : List GRow)
    (satG : List BitRow) (h : (selectH79Constraints nnc xCs yCs yGens satG).2.isEmpty = true) :
    (selectH79Constraints nnc xCs yCs yGens satG).1 = xCs := by
  rw [selectH79_snd, List.isEmpty_iff, List.filter_eq_nil_iff] at h
  rw [selectH79_fst, List.filter_eq_self]
  intro a ha
  have := h a ha
  simpa using this

theorem mem_selectH79_fst {nnc : Bool} {xCs yCs : List CRow} {yGens : List GRow} {satG : List BitRow}
    {ci : CRow} (h : ci ∈ (selectH79Constraints nnc xCs yCs yGens satG).1) :
    ci ∈ xCs ∧ ∃ b ∈ tmpSatG nnc yCs satG, b = satRow ci yGens := by
  rw [selectH79_fst, List.mem_filter] at h
  refine ⟨h.1, ?_⟩
  have h2 := h.2
  simp only [sortedContains, List.any_eq_true, beq_iff_eq] at h2
  exact h2

/-! ### `swap` -/

theorem length_swapAt {α : Type} [Inhabited α] (v : List α) (i j : Nat) :
    (swapAt v i j).length = v.length := by
  simp [swapAt]

theorem mem_swapAt {α : Type} [Inhabited α] {v : List α} {i j : Nat} (hi : i < v.length)
    (hj : j < v.length) {r : α} (h : r ∈ swapAt v i j) : r ∈ v := by
  unfold swapAt at h
  rcases List.mem_or_eq_of_mem_set h with h | h
  · rcases List.mem_or_eq_of_mem_set h with h | h
    · exact h
    · rw [h, List.getD_eq_getElem _ _ hj]; exact List.getElem_mem hj
  · rw [h, List.getD_eq_getElem _ _ hi]; exact List.getElem_mem hi

/-- entry `k` of `swap(v[i], v[j])`, `k ≠ j` -/
theorem getD_swapAt_ne {α : Type} [Inhabited α] (v : List α) (i j k : Nat) (hk : k ≠ j)
    (hkl : k < v.length) :
    (swapAt v i j).getD k default = if k = i then v.getD j default else v.getD k default := by
  unfold swapAt
  have h1 : k < ((v.set i (v.getD j default)).set j (v.getD i default)).length := by simpa using hkl
  rw [List.getD_eq_getElem _ _ h1, List.getElem_set_ne (Ne.symm hk)]
  by_cases hki : k = i
  · subst hki; simp
  · rw [List.getElem_set_ne (Ne.symm hki), if_neg hki, List.getD_eq_getElem _ _ hkl]

/-! ### the loop l. 105–111 -/

/-- the loop only permutes rows: every row of the result is a row of the input -/
theorem dropTautLoop_mem (nnc : Bool) (yCs : List CRow) :
    ∀ (fuel i : Nat) (tmp : List BitRow) (numRows : Nat), numRows ≤ tmp.length →
      (dropTautLoop nnc yCs fuel i (tmp, numRows)).2 ≤ (dropTautLoop nnc yCs fuel i (tmp, numRows)).1.length ∧
      ∀ b ∈ (dropTautLoop nnc yCs fuel i (tmp, numRows)).1, b ∈ tmp := by
  intro fuel
  induction fuel with
  | zero => intro i tmp numRows h; exact ⟨h, fun b hb => hb⟩
  | succ fuel ih =>
    intro i tmp numRows h
    unfold dropTautLoop
    by_cases hi : i < numRows
    · rw [if_pos hi]
      by_cases ht : (yCs.getD i default).isTautological nnc = true
      · rw [if_pos ht]
        have hl : numRows - 1 ≤ (swapAt tmp i (numRows - 1)).length := by
          rw [length_swapAt]; omega
        obtain ⟨h1, h2⟩ := ih (i + 1) (swapAt tmp i (numRows - 1)) (numRows - 1) hl
        refine ⟨h1, fun b hb => ?_⟩
        exact mem_swapAt (by omega) (by omega) (h2 b hb)
      · rw [if_neg ht]
        exact ih (i + 1) tmp numRows h
    · rw [if_neg hi]
      exact ⟨h, fun b hb => hb⟩

theorem mem_tmpSatG {nnc : Bool} {yCs : List CRow} {satG : List BitRow} (hl : satG.length = yCs.length)
    {b : BitRow} (h : b ∈ tmpSatG nnc yCs satG) : b ∈ satG := by
  unfold tmpSatG at h
  exact (dropTautLoop_mem nnc yCs yCs.length 0 satG yCs.length (by omega)).2 b (List.mem_of_mem_take h)

/-- no tautology among the rows still to be examined: nothing happens -/
theorem dropTautLoop_noTaut (nnc : Bool) (yCs : List CRow) :
    ∀ (fuel i : Nat) (tmp : List BitRow) (numRows : Nat),
      (∀ k, i ≤ k → k < numRows → (yCs.getD k default).isTautological nnc = false) →
      dropTautLoop nnc yCs fuel i (tmp, numRows) = (tmp, numRows) := by
  intro fuel
  induction fuel with
  | zero => intro i tmp numRows _; rfl
  | succ fuel ih =>
    intro i tmp numRows h
    unfold dropTautLoop
    by_cases hi : i < numRows
    · rw [if_pos hi, h i (Nat.le_refl _) hi]
      simp only [Bool.false_eq_true, if_false]
      exact ih (i + 1) tmp numRows fun k hk hk2 => h k (by omega) hk2
    · rw [if_neg hi]

/-- exactly one tautology (at `i0`) among the rows still to be examined: it is swapped with the last row -/
theorem dropTautLoop_oneTaut (nnc : Bool) (yCs : List CRow) (i0 : Nat)
    (ht : (yCs.getD i0 default).isTautological nnc = true) :
    ∀ (fuel i : Nat) (tmp : List BitRow) (numRows : Nat), i ≤ i0 → i0 < numRows → i0 - i < fuel →
      (∀ k, i ≤ k → k < numRows → k ≠ i0 → (yCs.getD k default).isTautological nnc = false) →
      dropTautLoop nnc yCs fuel i (tmp, numRows) = (swapAt tmp i0 (numRows - 1), numRows - 1) := by
  intro fuel
  induction fuel with
  | zero => intro i tmp numRows _ _ h; omega
  | succ fuel ih =>
    intro i tmp numRows h1 h2 h3 h
    unfold dropTautLoop
    have hi : i < numRows := by omega
    rw [if_pos hi]
    by_cases hii : i = i0
    · subst hii
      rw [if_pos ht]
      exact dropTautLoop_noTaut nnc yCs fuel (i + 1) _ _ fun k hk hk2 => h k (by omega) (by omega) (by omega)
    · rw [h i (Nat.le_refl _) hi hii]
      simp only [Bool.false_eq_true, if_false]
      exact ih (i + 1) tmp numRows (by omega) h2 (by omega) fun k hk hk2 hk3 => h k (by omega) hk2 hk3

/-- at most one element satisfies `p`: either none, or exactly one position -/
theorem atMostOne_cases {α : Type} [Inhabited α] (p : α → Bool) (l : List α)
    (h : (l.filter p).length ≤ 1) :
    (∀ k, k < l.length → p (l.getD k default) = false) ∨
    ∃ i0, i0 < l.length ∧ p (l.getD i0 default) = true ∧
      ∀ k, k < l.length → k ≠ i0 → p (l.getD k default) = false := by
  by_cases hex : ∃ c ∈ l, p c = true
  · right
    obtain ⟨c, hc, hpc⟩ := hex
    obtain ⟨s, t, rfl⟩ := List.append_of_mem hc
    simp only [List.filter_append, List.filter_cons, hpc, if_true, List.length_append,
      List.length_cons] at h
    have hs : s.filter p = [] := List.eq_nil_of_length_eq_zero (by omega)
    have ht : t.filter p = [] := List.eq_nil_of_length_eq_zero (by omega)
    rw [List.filter_eq_nil_iff] at hs ht
    refine ⟨s.length, by simp, by simp [hpc], ?_⟩
    intro k hk hne
    rw [List.getD_eq_getElem _ _ hk]
    by_cases hks : k < s.length
    · rw [List.getElem_append_left hks]
      have := hs _ (List.getElem_mem hks)
      simpa using this
    · have hk' : s.length ≤ k := by omega
      rw [List.getElem_append_right hk']
      have hpos : 0 < k - s.length := by omega
      obtain ⟨m, hm⟩ : ∃ m, k - s.length = m + 1 := ⟨k - s.length - 1, by omega⟩
      simp only [hm, List.getElem_cons_succ]
      have := ht _ (List.getElem_mem (l := t) (n := m) (by
        simp only [List.length_append, List.length_cons] at hk; omega))
      simpa using this
  · left
    intro k hk
    rw [List.getD_eq_getElem _ _ hk]
    by_contra hp
    exact hex ⟨_, List.getElem_mem hk, by simpa using hp⟩

/-- with at most one tautology in `y.con_sys` the rows of `tmp_sat_g` are exactly the rows of `sat_g` at
    the non-tautological positions -/
theorem mem_tmpSatG_nontaut {nnc : Bool} {yCs : List CRow} {satG : List BitRow}
    (hl : satG.length = yCs.length)
    (h1 : (yCs.filter (·.isTautological nnc)).length ≤ 1)
    {b : BitRow} (h : b ∈ tmpSatG nnc yCs satG) :
    ∃ j, j < yCs.length ∧ (yCs.getD j default).isTautological nnc = false ∧ satG.getD j default = b := by
  unfold tmpSatG at h
  rcases atMostOne_cases (·.isTautological nnc) yCs h1 with h0 | ⟨i0, hi0, ht, hrest⟩
  · rw [dropTautLoop_noTaut nnc yCs _ 0 satG yCs.length (fun k _ hk => h0 k hk)] at h
    simp only at h
    obtain ⟨k, hk, rfl⟩ := List.mem_iff_getElem.mp (List.mem_of_mem_take h)
    exact ⟨k, by omega, h0 k (by omega), List.getD_eq_getElem _ _ hk⟩
  · rw [dropTautLoop_oneTaut nnc yCs i0 ht yCs.length 0 satG yCs.length (by omega) hi0 (by omega)
      (fun k _ hk hne => hrest k hk hne)] at h
    simp only at h
    obtain ⟨k, hk, rfl⟩ := List.mem_iff_getElem.mp h
    rw [List.getElem_take]
    rw [List.length_take, length_swapAt] at hk
    have hk1 : k < yCs.length - 1 := by omega
    have hk2 : k < satG.length := by omega
    have hkl : k < (swapAt satG i0 (yCs.length - 1)).length := by rw [length_swapAt]; exact hk2
    have e := getD_swapAt_ne satG i0 (yCs.length - 1) k (by omega) hk2
    rw [List.getD_eq_getElem _ _ hkl] at e
    rw [e]
    by_cases hki : k = i0
    · rw [if_pos hki]
      exact ⟨yCs.length - 1, by omega, hrest _ (by omega) (by omega), rfl⟩
    · rw [if_neg hki]
      exact ⟨k, by omega, hrest k (by omega) hki, rfl⟩

end PPLV.Widen.Impl
