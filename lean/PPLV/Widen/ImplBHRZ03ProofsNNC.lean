import PPLV.Widen.ImplBHRZ03
import Mathlib.Data.List.Basic

/-!
# C08 stage 2 — `BHRZ03_combining_constraints` on NNC polyhedra never produces a constraint

`H79.con_sys` of an NNC polyhedron always holds the row `ε ≥ 0`; every closure point has `ε = 0`, so it
saturates that row and `lies_on_the_boundary_of_H79` (l. 459–470) is true for every generator the loop of
l. 453 considers.
-/
namespace PPLV.Widen.Impl

/-- the raw row `ε ≥ 0` of an NNC system of dimension `n` (`n + 2` columns) -/
def epsGeZero (n : Nat) : CRow := { e := List.replicate (n + 1) 0 ++ [1], eq := false }

theorem sp_eps_row : ∀ (as : Vec) (b : Int), sp (List.replicate as.length 0 ++ [1]) (as ++ [b]) = b
  | [], b => by simp [sp]
  | a :: as, b => by
    simp only [List.length_cons, List.replicate_succ, List.cons_append, sp]
    rw [sp_eps_row as b]
    simp

theorem epsCoeff_concat (as : Vec) (b : Int) : epsCoeff (as ++ [b]) = b := by
  simp [epsCoeff]

/-- the scalar product of `ε ≥ 0` with a generator row of `n + 2` columns is its epsilon coefficient -/
theorem sp_epsGeZero (n : Nat) (e : Vec) (hlen : e.length = n + 2) : sp (epsGeZero n).e e = epsCoeff e := by
  have hne : e ≠ [] := by intro h; rw [h] at hlen; simp at hlen
  have hd : e = e.dropLast ++ [e.getLast hne] := (List.dropLast_append_getLast hne).symm
  have hl : e.dropLast.length = n + 1 := by simp [hlen]
  rw [hd, epsCoeff_concat]
  unfold epsGeZero
  simp only
  rw [← hl]
  exact sp_eps_row _ _

theorem epsCoeff_of_closurePoint {g : GRow} (h : g.isClosurePoint true = true) : epsCoeff g.e = 0 := by
  unfold GRow.isClosurePoint at h
  simp only [Bool.true_and, Bool.and_eq_true, beq_iff_eq] at h
  exact h.2

theorem combiningForPoint_nnc_nil (n : Nat) (h79Cs xm : List CRow) (g : GRow) (hlen : g.e.length = n + 2)
    (hmem : epsGeZero n ∈ h79Cs) : combiningForPoint true n h79Cs xm g = [] := by
  unfold combiningForPoint
  by_cases h1 : ((g.isPoint true && !true) || (g.isClosurePoint true && true)) = true
  · rw [if_pos h1]
    have hcp : g.isClosurePoint true = true := by simpa using h1
    have hb : (h79Cs.reverse.any fun c => !c.eq && sp c.e g.e == 0) = true := by
      rw [List.any_eq_true]
      refine ⟨epsGeZero n, List.mem_reverse.mpr hmem, ?_⟩
      rw [sp_epsGeZero n g.e hlen, epsCoeff_of_closurePoint hcp]
      rfl
    dsimp only
    rw [if_pos hb]
  · rw [if_neg h1]

theorem combiningNewCs_nnc_nil (n : Nat) (yGens : List GRow) (h79Cs xMinusH79 : List CRow)
    (hlen : ∀ g ∈ yGens, g.e.length = n + 2) (hmem : epsGeZero n ∈ h79Cs) :
    combiningNewCs true n yGens h79Cs xMinusH79 = [] := by
  unfold combiningNewCs
  rw [List.flatMap_eq_nil_iff]
  intro g hg
  exact combiningForPoint_nnc_nil n h79Cs xMinusH79 g (hlen g (List.mem_reverse.mp hg)) hmem

theorem bhrz03CombiningConstraints_nnc_none (n : Nat) (o : BOracle) (yGens : List GRow) (xMinusH79 : List CRow)
    (hlen : ∀ g ∈ yGens, g.e.length = n + 2) (hmem : epsGeZero n ∈ o.h79.cs) :
    bhrz03CombiningConstraints true n o yGens xMinusH79 = none := by
  unfold bhrz03CombiningConstraints
  by_cases h1 : xMinusH79.length ≤ 1
  · rw [if_pos h1]
  · rw [if_neg h1]
    dsimp only
    rw [combiningNewCs_nnc_nil n yGens o.h79.cs xMinusH79 hlen hmem]
    rfl

end PPLV.Widen.Impl
