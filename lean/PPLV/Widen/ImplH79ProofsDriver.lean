import PPLV.Widen.ImplH79Proofs
import Mathlib.Tactic.SplitIfs

/-!
# C08 stage 2 — `H79_widening_assign`: the ways out of the driver
-/
namespace PPLV.Widen.Impl

theorem commit_cases (o : Oracle) (cs : List CRow) (tp : Option Nat) :
    (commit o cs tp).1 = .unchanged ∨ (commit o cs tp).1 = .fresh cs := by
  unfold commit
  rcases tp with _ | t
  · exact Or.inr rfl
  · dsimp only
    split_ifs <;> first | exact Or.inl rfl | exact Or.inr rfl

theorem commit_token (o : Oracle) (cs : List CRow) (t : Nat) (ht : 0 < t) :
    (commit o cs (some t)).1 = .unchanged := by
  unfold commit
  dsimp only
  rw [if_pos ht]
  split_ifs <;> rfl

/-- every way out of `H79_widening_assign` -/
theorem h79_cases (x : Poly) (yEmpty : Bool) (o : Oracle) (tp : Option Nat) :
    (h79WideningAssign x yEmpty o tp).1 = .unchanged ∨
    (∃ y, o.yMin = some y ∧ (x.pendingGens || !x.consUpToDate) = true ∧
      (selectCH78Constraints x.nnc x.genSys y.conSys).length = y.conSys.length ∧
      (h79WideningAssign x yEmpty o tp).1 = .assignY) ∨
    (∃ y, o.yMin = some y ∧ (x.pendingGens || !x.consUpToDate) = true ∧
      (h79WideningAssign x yEmpty o tp).1 = .fresh (selectCH78Constraints x.nnc x.genSys y.conSys)) ∨
    (h79WideningAssign x yEmpty o tp).1 =
      .fresh (selectH79Constraints x.nnc o.xConsUpdated o.ySel.conSys o.ySel.genSys o.ySel.satG).1 := by
  unfold h79WideningAssign
  by_cases h1 : (x.n == 0 || x.markedEmpty || yEmpty) = true
  · rw [if_pos h1]; exact Or.inl rfl
  · rw [if_neg h1]
    cases hy : o.yMin with
    | none => exact Or.inl rfl
    | some y =>
      dsimp only
      have tail : ((if (selectH79Constraints x.nnc o.xConsUpdated o.ySel.conSys o.ySel.genSys
              o.ySel.satG).2.isEmpty = true then ((Res.unchanged, tp) : Res × Option Nat)
            else commit o (selectH79Constraints x.nnc o.xConsUpdated o.ySel.conSys o.ySel.genSys
              o.ySel.satG).1 tp).1 = .unchanged) ∨
          ((if (selectH79Constraints x.nnc o.xConsUpdated o.ySel.conSys o.ySel.genSys
              o.ySel.satG).2.isEmpty = true then ((Res.unchanged, tp) : Res × Option Nat)
            else commit o (selectH79Constraints x.nnc o.xConsUpdated o.ySel.conSys o.ySel.genSys
              o.ySel.satG).1 tp).1 =
            .fresh (selectH79Constraints x.nnc o.xConsUpdated o.ySel.conSys o.ySel.genSys o.ySel.satG).1) := by
        split_ifs
        · exact Or.inl rfl
        · exact commit_cases _ _ _
      by_cases hp : (x.pendingGens || !x.consUpToDate) = true
      · rw [if_pos hp]
        by_cases hl : ((selectCH78Constraints x.nnc x.genSys y.conSys).length == y.conSys.length) = true
        · rw [if_pos hl]
          exact Or.inr (Or.inl ⟨y, rfl, hp, by simpa using hl, rfl⟩)
        · rw [if_neg hl]
          by_cases he : (numEqualities (selectCH78Constraints x.nnc x.genSys y.conSys) ==
              numEqualities y.conSys) = true
          · rw [if_pos he]
            dsimp only
            rcases commit_cases o (selectCH78Constraints x.nnc x.genSys y.conSys) tp with h | h
            · exact Or.inl h
            · exact Or.inr (Or.inr (Or.inl ⟨y, rfl, hp, h⟩))
          · rw [if_neg he]
            dsimp only
            rcases tail with h | h
            · exact Or.inl h
            · exact Or.inr (Or.inr (Or.inr h))
      · rw [if_neg hp]
        dsimp only
        rcases tail with h | h
        · exact Or.inl h
        · exact Or.inr (Or.inr (Or.inr h))

/-- the ways out of a non-trivial call without tokens -/
theorem h79_cases_notoken (x : Poly) (yEmpty : Bool) (o : Oracle) (y : YMin)
    (h1 : (x.n == 0 || x.markedEmpty || yEmpty) = false) (hy : o.yMin = some y) :
    ((h79WideningAssign x yEmpty o none).1 = .unchanged ∧
      (selectH79Constraints x.nnc o.xConsUpdated o.ySel.conSys o.ySel.genSys o.ySel.satG).2.isEmpty = true) ∨
    (h79WideningAssign x yEmpty o none).1 = .assignY ∨
    (h79WideningAssign x yEmpty o none).1 = .fresh (selectCH78Constraints x.nnc x.genSys y.conSys) ∨
    (h79WideningAssign x yEmpty o none).1 =
      .fresh (selectH79Constraints x.nnc o.xConsUpdated o.ySel.conSys o.ySel.genSys o.ySel.satG).1 := by
  unfold h79WideningAssign
  rw [h1, hy]
  simp only [Bool.false_eq_true, if_false]
  have tail : ((if (selectH79Constraints x.nnc o.xConsUpdated o.ySel.conSys o.ySel.genSys
            o.ySel.satG).2.isEmpty = true then ((Res.unchanged, none) : Res × Option Nat)
          else commit o (selectH79Constraints x.nnc o.xConsUpdated o.ySel.conSys o.ySel.genSys
            o.ySel.satG).1 none).1 = .unchanged ∧
        (selectH79Constraints x.nnc o.xConsUpdated o.ySel.conSys o.ySel.genSys o.ySel.satG).2.isEmpty = true) ∨
        ((if (selectH79Constraints x.nnc o.xConsUpdated o.ySel.conSys o.ySel.genSys
            o.ySel.satG).2.isEmpty = true then ((Res.unchanged, none) : Res × Option Nat)
          else commit o (selectH79Constraints x.nnc o.xConsUpdated o.ySel.conSys o.ySel.genSys
            o.ySel.satG).1 none).1 =
          .fresh (selectH79Constraints x.nnc o.xConsUpdated o.ySel.conSys o.ySel.genSys o.ySel.satG).1) := by
    split_ifs with h
    · exact Or.inl ⟨rfl, h⟩
    · exact Or.inr rfl
  by_cases hp : (x.pendingGens || !x.consUpToDate) = true
  · rw [if_pos hp]
    by_cases hl : ((selectCH78Constraints x.nnc x.genSys y.conSys).length == y.conSys.length) = true
    · rw [if_pos hl]
      exact Or.inr (Or.inl rfl)
    · rw [if_neg hl]
      by_cases he : (numEqualities (selectCH78Constraints x.nnc x.genSys y.conSys) ==
          numEqualities y.conSys) = true
      · rw [if_pos he]
        exact Or.inr (Or.inr (Or.inl rfl))
      · rw [if_neg he]
        dsimp only
        rcases tail with h | h
        · exact Or.inl h
        · exact Or.inr (Or.inr (Or.inr h))
  · rw [if_neg hp]
    dsimp only
    rcases tail with h | h
    · exact Or.inl h
    · exact Or.inr (Or.inr (Or.inr h))

/-- on the constraint path (`x` has up-to-date constraints and no pending generators) -/
theorem h79_cases_conspath (x : Poly) (yEmpty : Bool) (o : Oracle) (tp : Option Nat)
    (hpath : x.pendingGens = false ∧ x.consUpToDate = true) :
    (h79WideningAssign x yEmpty o tp).1 = .unchanged ∨
    (h79WideningAssign x yEmpty o tp).1 =
      .fresh (selectH79Constraints x.nnc o.xConsUpdated o.ySel.conSys o.ySel.genSys o.ySel.satG).1 := by
  rcases h79_cases x yEmpty o tp with h | ⟨y, _, hp, _⟩ | ⟨y, _, hp, _⟩ | h
  · exact Or.inl h
  · simp [hpath.1, hpath.2] at hp
  · simp [hpath.1, hpath.2] at hp
  · exact Or.inr h

theorem h79_token (x : Poly) (yEmpty : Bool) (o : Oracle) (t : Nat) (ht : 0 < t) :
    (h79WideningAssign x yEmpty o (some t)).1 = .unchanged ∨
    (h79WideningAssign x yEmpty o (some t)).1 = .assignY := by
  unfold h79WideningAssign
  by_cases h1 : (x.n == 0 || x.markedEmpty || yEmpty) = true
  · rw [if_pos h1]; exact Or.inl rfl
  · rw [if_neg h1]
    cases hy : o.yMin with
    | none => exact Or.inl rfl
    | some y =>
      dsimp only
      split_ifs <;> first | exact Or.inl rfl | exact Or.inr rfl | exact Or.inl (commit_token _ _ _ ht)

end PPLV.Widen.Impl
