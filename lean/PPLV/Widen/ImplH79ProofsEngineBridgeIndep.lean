import PPLV.Conv.ProofsCompleteGauss4
import Mathlib.Algebra.BigOperators.Group.Finset.Basic
import Mathlib.Algebra.Order.Field.Rat
import Mathlib.Tactic.Linarith

/-!
# C08 bridge — the equalities returned by `minimize` are linearly independent

The first `rank` rows of the system `PPLV.Conv.minimize` leaves (the equalities) are linearly independent
over `ℚ`, reading only the first `ncols` columns.

* `tri_indep`: rows with a pivot column each (`R p (piv p) ≠ 0`, `piv p < ncols`) such that the rows after
  row `p` are zero at `piv p` are linearly independent (strong induction: at column `piv i` only the rows
  `≤ i` contribute, and the rows `< i` already have a zero coefficient).
* `backSub_bsinv`: `back_substitute` keeps `BSInv` (row `p` non-zero at `piv p`, later equality rows zero
  there) — every step does (`backSubstituteStep_bsinv`).
* `simplify_bsinv`: the echelon form of `gauss` (`gauss_echelon`) gives `BSInv` on the first `rank` rows of
  the list handed to `back_substitute` (`simpT_take`), hence on the output of `simplify`.
-/
namespace PPLV.Widen.Impl
open PPLV.Conv

/-- triangular shape ⇒ linear independence. -/
theorem tri_indep (rank ncols : Nat) (R : Nat → Nat → Rat) (piv : Nat → Nat)
    (hpiv : ∀ p, p < rank → piv p < ncols)
    (hnz : ∀ p, p < rank → R p (piv p) ≠ 0)
    (hzp : ∀ p m, p < m → m < rank → R m (piv p) = 0)
    (f : Nat → Rat)
    (h : ∀ k, k < ncols → ∑ i ∈ Finset.range rank, f i * R i k = 0) :
    ∀ i, i < rank → f i = 0 := by
  intro i
  induction i using Nat.strong_induction_on with
  | _ i ih =>
    intro hi
    have hs := h (piv i) (hpiv i hi)
    rw [Finset.sum_eq_single i] at hs
    · exact (mul_eq_zero.mp hs).resolve_right (hnz i hi)
    · intro b hb hbi
      rw [Finset.mem_range] at hb
      rcases Nat.lt_or_gt_of_ne hbi with h1 | h1
      · rw [ih b h1 hb, zero_mul]
      · rw [hzp i b h1 hb, mul_zero]
    · intro hni
      exact absurd (Finset.mem_range.mpr hi) hni

/-- any sequence of steps of `back_substitute` keeps `GInv` and `BSInv`. -/
theorem backSub_bsinv (nle : Nat) (piv : Nat → Nat) : ∀ (ks : List Nat) (rows : List SRow), GInv nle rows →
    (∀ k ∈ ks, k < nle) → BSInv nle rows piv →
    GInv nle (ks.foldl (backSubstituteStep nle) rows) ∧ BSInv nle (ks.foldl (backSubstituteStep nle) rows) piv
  | [], _, hI, _, hB => ⟨hI, hB⟩
  | k :: ks, rows, hI, hks, hB => by
    obtain ⟨_, h2⟩ := backSubstituteStep_bsinv nle rows piv k hI (hks k List.mem_cons_self) hB
    exact backSub_bsinv nle piv ks _
      (backSubstituteStep_keeps nle rows k hI (hks k List.mem_cons_self)).2.1
      (fun k' hk' => hks k' (List.mem_cons_of_mem _ hk')) h2

/-- the output of `simplify`: its first `rank` rows have a pivot column `< ncols` each, and the later ones
among them are zero there. -/
theorem simplify_bsinv (ncols numColsSat : Nat) (sys : List SRow) :
    ∃ piv : Nat → Nat,
      (∀ p, p < (simplify ncols numColsSat sys).2 → piv p < ncols) ∧
      GInv (simplify ncols numColsSat sys).2 (simplify ncols numColsSat sys).1 ∧
      BSInv (simplify ncols numColsSat sys).2 (simplify ncols numColsSat sys).1 piv := by
  rw [simplify_eq']
  obtain ⟨tI, tT⟩ := simpT_take ncols numColsSat sys
  obtain ⟨_, eI⟩ := simpE_ginv sys
  obtain ⟨piv, hE⟩ := gauss_echelon ncols (simpE sys).2 (simpE sys).1 eI
  have hn : (simpP ncols sys).2 = (gauss ncols (simpE sys).2 (simpE sys).1).2 := simpP_snd ncols sys
  have hrk := hE.rk
  refine ⟨piv, fun p hp => (hE.rng p (by simpa [hn] using hp)).2, ?_⟩
  show GInv (simpP ncols sys).2 (backSubstitute (simpP ncols sys).2 (simpT ncols numColsSat sys)) ∧
    BSInv (simpP ncols sys).2 (backSubstitute (simpP ncols sys).2 (simpT ncols numColsSat sys)) piv
  unfold backSubstitute
  apply backSub_bsinv _ piv _ _ tI (range_reverse_lt _)
  constructor
  · intro p hp
    rw [getD_of_take_eq _ _ _ p tT hp]
    exact hE.nz p (by omega)
  · intro p m hpm hm
    rw [getD_of_take_eq _ _ _ m tT hm]
    exact hE.zp p m (by omega) hpm (by omega)

/-- **the equalities `minimize` returns are linearly independent** (over `ℚ`, on the first `ncols`
columns). -/
theorem minimize_eq_indep (ncols : Nat) (source : List PPLV.Conv.LRow) (sat0 : List PPLV.Conv.BRow)
    (hsz : ncols < 2 ^ 64) (hsrc : source.length < 2 ^ 64)
    (hne : (PPLV.Conv.minimize true false ncols source sat0).empty = false) :
    let m := PPLV.Conv.minimize true false ncols source sat0
    ∀ f : Nat → Rat,
      (∀ k, k < ncols → ∑ i ∈ Finset.range m.rank,
        f i * (((m.source.getD i default).v.getD k 0 : Int) : Rat) = 0) →
      ∀ i, i < m.rank → f i = 0 := by
  intro m
  set r := conversion ncols source 0 (identityLines ncols)
    (List.replicate ncols (List.replicate source.length false)) ncols with hr
  have hp : hasPoint false ncols r.nle r.dest = true := minimize_hasPoint false ncols source sat0 hne
  have hm : m = { empty := false,
                  source := (simplify ncols r.dest.length (zipSys r.source (transpose r.source.length r.sat))).1.map (·.row),
                  dest := r.dest,
                  sat := (simplify ncols r.dest.length (zipSys r.source (transpose r.source.length r.sat))).1.map (·.sat),
                  rank := (simplify ncols r.dest.length (zipSys r.source (transpose r.source.length r.sat))).2 } := by
    show minimize true false ncols source sat0 = _
    unfold minimize
    simp only
    rw [← hr, if_neg (by simp [hp])]
    rfl
  rw [hm]
  dsimp only
  obtain ⟨piv, hpv, hG, hB⟩ := simplify_bsinv ncols r.dest.length
    (zipSys r.source (transpose r.source.length r.sat))
  set S := simplify ncols r.dest.length (zipSys r.source (transpose r.source.length r.sat)) with hS
  have hget : ∀ k, k < S.2 → (S.1.map (·.row)).getD k default = (S.1.getD k default).row := by
    intro k hk
    have hk' : k < S.1.length := by have := hG.1; omega
    rw [List.getD_eq_getElem?_getD, List.getElem?_map, List.getElem?_eq_getElem hk',
      List.getD_eq_getElem?_getD, List.getElem?_eq_getElem hk']
    rfl
  intro f hf
  refine tri_indep S.2 ncols (fun i k => (((S.1.getD i default).row.v.getD k 0 : Int) : Rat)) piv hpv
    (fun p hp' => by
      have := hB.nz p hp'
      exact_mod_cast this)
    (fun p q hpq hq => by
      have := hB.zp p q hpq hq
      simp only [this, Int.cast_zero]) f ?_
  intro k hk
  rw [← hf k hk]
  apply Finset.sum_congr rfl
  intro i hi
  rw [Finset.mem_range] at hi
  rw [hget i hi]

end PPLV.Widen.Impl
