import PPLV.Widen.ImplH79ProofsEngineFacet1
import PPLV.Widen.ImplH79ProofsEngineFacetC

/-!
# C08 stage 2b — `hfacet`: the two cases (`cj` an equality, `cj` a facet), on integer vectors
-/
namespace PPLV.Widen.Impl

/-- case `cj` equality: both forms vanish wherever the equalities vanish -/
theorem facet_eq_case {n : Nat} {y : YMin} (hy : EngineDD n y) (ci cj : CRow) (hcj : cj ∈ y.conSys)
    (ha : ValidG y ci.e) (hsat : ∀ g ∈ y.genSys, (0 < sp ci.e g.e ↔ 0 < sp cj.e g.e))
    (hjeq : cj.eq = true) (v : Vec) (hv : InE n y v) : sp ci.e v = 0 ∧ sp cj.e v = 0 := by
  have hb0 : ∀ g ∈ y.genSys, sp cj.e g.e = 0 := fun g hg => (gen_inK hy hg).eqz hcj hjeq
  have ha0 : ∀ g ∈ y.genSys, sp ci.e g.e = 0 := by
    intro g hg
    have h1 : ¬ 0 < sp ci.e g.e := fun h => by
      have := (hsat g hg).mp h
      rw [hb0 g hg] at this
      exact lt_irrefl _ this
    have h2 := ha g hg
    split_ifs at h2
    · exact h2
    · omega
  obtain ⟨z, hz, hzpos⟩ := exists_interior hy
  obtain ⟨N, _, hNK⟩ := absorb z v hz hv (fun c hc he => Or.inl (hzpos c hc he))
  have h1 := complete_zero hy ci.e ha0 _ hNK
  have h2 := complete_zero hy ci.e ha0 _ hz
  rw [sp_zadd _ _ _ (by rw [length_zsmul, hz.1, hv.1]), sp_zsmul, h2] at h1
  exact ⟨by linarith, hv.2 cj hcj hjeq⟩

/-- case `cj` inequality: the two forms are proportional on the space where the equalities vanish -/
theorem facet_ineq_key {n : Nat} {y : YMin} (hy : EngineDD n y) (ci cj : CRow) (hcj : cj ∈ y.conSys)
    (ha : ValidG y ci.e) (hsat : ∀ g ∈ y.genSys, (0 < sp ci.e g.e ↔ 0 < sp cj.e g.e))
    (hjeq : cj.eq = false) :
    ∃ z, InK n y z ∧ 0 < sp cj.e z ∧
      ∀ v, InE n y v → sp cj.e z * sp ci.e v = sp cj.e v * sp ci.e z := by
  have hb := cj_validG hy hcj
  obtain ⟨z, hz, hzpos⟩ := exists_interior hy
  have hbz := hzpos cj hcj hjeq
  -- the vector violating only row `cj`
  obtain ⟨j, hj, hjc⟩ := List.getElem_of_mem hcj
  have hgetj : y.conSys.getD j default = cj := by rw [List.getD_eq_getElem _ _ hj]; exact hjc
  obtain ⟨x, hxl, hxo, hxn⟩ := hy.irred j hj (by rw [hgetj]; exact hjeq)
  rw [hgetj, holdsZ_ineq hjeq] at hxn
  have hbx : sp cj.e x < 0 := not_le.mp hxn
  have hxother : ∀ c ∈ y.conSys, c ≠ cj → c.holdsZ x := by
    intro c hc hne
    obtain ⟨k, hk, hkc⟩ := List.getElem_of_mem hc
    have hgetk : y.conSys.getD k default = c := by rw [List.getD_eq_getElem _ _ hk]; exact hkc
    have hkj : k ≠ j := by
      rintro rfl
      exact hne (hkc.symm.trans hjc)
    have := hxo k hk hkj
    rwa [hgetk] at this
  -- `w` on the facet, strictly inside every other inequality
  have hapos : 0 < - sp cj.e x := by linarith
  have hlw : (zsmul (- sp cj.e x) z).length = (zsmul (sp cj.e z) x).length := by
    rw [length_zsmul, length_zsmul, hz.1, hxl]
  have hspw : ∀ c : Vec, sp c (zadd (zsmul (- sp cj.e x) z) (zsmul (sp cj.e z) x)) =
      (- sp cj.e x) * sp c z + sp cj.e z * sp c x := by
    intro c
    rw [sp_zadd _ _ _ hlw, sp_zsmul, sp_zsmul]
  have hbw : sp cj.e (zadd (zsmul (- sp cj.e x) z) (zsmul (sp cj.e z) x)) = 0 := by
    rw [hspw]; ring
  have hwK : InK n y (zadd (zsmul (- sp cj.e x) z) (zsmul (sp cj.e z) x)) := by
    refine ⟨by rw [length_zadd _ _ hlw, length_zsmul, hz.1], fun c hc => ?_⟩
    by_cases hcc : c = cj
    · rw [hcc, holdsZ_ineq hjeq, hbw]
    · exact holdsZ_zadd c _ _ hlw (holdsZ_zsmul c _ (le_of_lt hapos) z (hz.2 c hc))
        (holdsZ_zsmul c _ (le_of_lt hbz) x (hxother c hc hcc))
  have hwpos : ∀ c ∈ y.conSys, c.eq = false → c ≠ cj →
      0 < sp c.e (zadd (zsmul (- sp cj.e x) z) (zsmul (sp cj.e z) x)) := by
    intro c hc he hne
    rw [hspw]
    have h1 := hzpos c hc he
    have h2 : 0 ≤ sp c.e x := (holdsZ_ineq he x).mp (hxother c hc hne)
    have h3 := mul_pos hapos h1
    have h4 := mul_nonneg (le_of_lt hbz) h2
    linarith
  have haw : sp ci.e (zadd (zsmul (- sp cj.e x) z) (zsmul (sp cj.e z) x)) = 0 :=
    complete_sat hy ci.e cj.e ha hb (fun g hg => (hsat g hg).mp) _ hwK hbw
  -- forms vanishing with `cj`
  have half : ∀ v, InE n y v → sp cj.e v = 0 → 0 ≤ sp ci.e v := by
    intro v hv hbv
    obtain ⟨N, _, hNK⟩ := absorb _ v hwK hv (fun c hc he => by
      by_cases hcc : c = cj
      · right; rw [hcc, hbv]
      · left; exact hwpos c hc he hcc)
    have h1 := complete_nonneg hy ci.e ha _ hNK
    rw [sp_zadd _ _ _ (by rw [length_zsmul, hwK.1, hv.1]), sp_zsmul, haw] at h1
    linarith
  have hvan : ∀ v, InE n y v → sp cj.e v = 0 → sp ci.e v = 0 := by
    intro v hv hbv
    have h1 := half v hv hbv
    have h2 := half (zsmul (-1) v) (hv.zsmul (-1)) (by rw [sp_zsmul, hbv]; ring)
    rw [sp_zsmul] at h2
    linarith
  refine ⟨z, hz, hbz, fun v hv => ?_⟩
  have hl : (zsmul (sp cj.e z) v).length = (zsmul (- sp cj.e v) z).length := by
    rw [length_zsmul, length_zsmul, hv.1, hz.1]
  have h := hvan (zadd (zsmul (sp cj.e z) v) (zsmul (- sp cj.e v) z))
    ((hv.zsmul _).zadd (hz.inE.zsmul _))
    (by rw [sp_zadd _ _ _ hl, sp_zsmul, sp_zsmul]; ring)
  rw [sp_zadd _ _ _ hl, sp_zsmul, sp_zsmul] at h
  linarith

/-- the two rows agree wherever the equalities vanish -/
theorem facet_core {n : Nat} {y : YMin} (hy : EngineDD n y) (ci cj : CRow) (hcj : cj ∈ y.conSys)
    (ha : ValidG y ci.e) (haeq : ci.eq = true → ∀ g ∈ y.genSys, sp ci.e g.e = 0)
    (hsat : ∀ g ∈ y.genSys, (0 < sp ci.e g.e ↔ 0 < sp cj.e g.e))
    (v : Vec) (hv : InE n y v) : ci.holdsZ v ↔ cj.holdsZ v := by
  cases hjeq : cj.eq
  · obtain ⟨z, hz, hbz, hprop⟩ := facet_ineq_key hy ci cj hcj ha hsat hjeq
    have haz0 : 0 ≤ sp ci.e z := complete_nonneg hy ci.e ha z hz
    have haz : 0 < sp ci.e z := by
      rcases lt_or_eq_of_le haz0 with h | h
      · exact h
      · exfalso
        obtain ⟨g, hg, hgpos⟩ := hy.proper cj hcj hjeq
        have h1 := hprop g.e (gen_inK hy hg).inE
        rw [← h, mul_zero] at h1
        have h2 : sp ci.e g.e = 0 := by
          rcases mul_eq_zero.mp h1 with h3 | h3
          · omega
          · exact h3
        have h3 := (hsat g hg).mpr hgpos
        omega
    cases hieq : ci.eq
    · rw [holdsZ_ineq hieq, holdsZ_ineq hjeq]
      have h := hprop v hv
      constructor
      · intro h1
        have h2 : 0 ≤ sp cj.e v * sp ci.e z := by rw [← h]; exact mul_nonneg (le_of_lt hbz) h1
        exact nonneg_of_mul_nonneg_left h2 haz
      · intro h1
        have h2 : 0 ≤ sp ci.e v * sp cj.e z := by
          rw [mul_comm, h]; exact mul_nonneg h1 (le_of_lt haz)
        exact nonneg_of_mul_nonneg_left h2 hbz
    · exfalso
      have := complete_zero hy ci.e (haeq hieq) z hz
      omega
  · obtain ⟨h1, h2⟩ := facet_eq_case hy ci cj hcj ha hsat hjeq v hv
    rw [holdsZ_eq hjeq]
    unfold CRow.holdsZ
    split_ifs
    · exact ⟨fun _ => h2, fun _ => h1⟩
    · exact ⟨fun _ => h2, fun _ => le_of_eq h1.symm⟩

end PPLV.Widen.Impl
