import PPLV.Widen.ImplH79ProofsEngineMinG1
import Mathlib.Data.List.NodupEquivFin
import Mathlib.Data.List.Duplicate
import Mathlib.Data.List.GetD
import Mathlib.Tactic.Positivity

/-!
# C08 stage 2b — `hymin` from the engine guarantees: glue 2 (the engine guarantees give `Abs.Setup`)
-/
namespace PPLV.Widen.Impl

/-- the equality rows -/
def eqsOf (y : YMin) : List CRow := y.conSys.filter (·.eq)
/-- the non-tautological inequality rows -/
def ineqsOf (y : YMin) : List CRow := y.conSys.filter (fun c => !c.eq && !c.isTautological false)

def famA (y : YMin) : Fin (eqsOf y).length → (Nat → Rat) →ₗ[ℚ] ℚ := fun i => evalL ((eqsOf y).get i).e
def famC (y : YMin) : Fin (ineqsOf y).length → (Nat → Rat) →ₗ[ℚ] ℚ := fun i => evalL ((ineqsOf y).get i).e
def famD (cs : List CRow) : Fin cs.length → Bool × ((Nat → Rat) →ₗ[ℚ] ℚ) :=
  fun i => ((cs.get i).eq, evalL (cs.get i).e)

/-- EXTRA HYPOTHESIS (not a consequence of `EngineDD`, see the counterexample in `ImplH79ProofsEngineMin`):
every non-tautological inequality is saturated by a point of the generator system (every facet of the
homogeneous cone other than the facet at infinity holds a point of the polyhedron) -/
def FacetPoints (y : YMin) : Prop :=
  ∀ c ∈ y.conSys, c.eq = false → c.isTautological false = false →
    ∃ g ∈ y.genSys, g.line = false ∧ 0 < g.e.headD 0 ∧ sp c.e g.e = 0

theorem mem_eqsOf {y : YMin} {c : CRow} : c ∈ eqsOf y ↔ c ∈ y.conSys ∧ c.eq = true := by
  simp [eqsOf]

theorem mem_ineqsOf {y : YMin} {c : CRow} :
    c ∈ ineqsOf y ↔ c ∈ y.conSys ∧ c.eq = false ∧ c.isTautological false = false := by
  simp [ineqsOf]

theorem holds_eq {c : CRow} (h : c.eq = true) (v : Nat → Rat) : c.holds v ↔ evalRow c.e v = 0 := by
  unfold CRow.holds; simp [h]

theorem holds_ineq {c : CRow} (h : c.eq = false) (v : Nat → Rat) : c.holds v ↔ 0 ≤ evalRow c.e v := by
  unfold CRow.holds; simp [h]

/-- the generators belong to the cone -/
theorem gen_holds {n : Nat} {y : YMin} (hy : EngineDD n y) {g : GRow} (hg : g ∈ y.genSys) :
    SatRows y.conSys (vecQ g.e) := by
  intro c hc
  rw [holds_vecQ]
  have h := hy.gens_in g hg c hc
  unfold CRow.holdsZ
  cases hce : c.eq <;> cases hgl : g.line <;> simp [hce, hgl] at h ⊢ <;> omega

/-- inside the open half space the cone of the system is the cone of `famA`, `famC` -/
theorem inK_iff_sat (y : YMin) (v : Nat → Rat) (hv : 0 < v 0) :
    Abs.InK (famA y) (famC y) v ↔ SatRows y.conSys v := by
  constructor
  · rintro ⟨hA, hC⟩ c hc
    by_cases ht : c.isTautological false = true
    · rw [← holds_smul_iff (inv_pos.mpr hv)]
      apply holds_of_taut ht
      simp [hv.ne']
    · cases hce : c.eq
      · obtain ⟨j, hj⟩ := List.get_of_mem (mem_ineqsOf.mpr ⟨hc, hce, by simpa using ht⟩)
        have := hC j
        simp only [famC, evalL_apply, hj] at this
        exact (holds_ineq hce v).mpr this
      · obtain ⟨j, hj⟩ := List.get_of_mem (mem_eqsOf.mpr ⟨hc, hce⟩)
        have := hA j
        simp only [famA, evalL_apply, hj] at this
        exact (holds_eq hce v).mpr this
  · intro hs
    constructor
    · intro i
      have hm := mem_eqsOf.mp (List.get_mem (eqsOf y) i)
      exact (holds_eq hm.2 v).mp (hs _ hm.1)
    · intro j
      have hm := mem_ineqsOf.mp (List.get_mem (ineqsOf y) j)
      exact (holds_ineq hm.2.1 v).mp (hs _ hm.1)

theorem satRows_iff_famD (cs : List CRow) (v : Nat → Rat) :
    SatRows cs v ↔ ∀ i, Abs.Holds (famD cs i) v := by
  constructor
  · intro h i
    exact h _ (List.get_mem cs i)
  · intro h c hc
    obtain ⟨i, rfl⟩ := List.get_of_mem hc
    exact h i

/-! ### step (2): the interior vector -/

theorem pstar_aux {n : Nat} {y : YMin} (hy : EngineDD n y) :
    ∀ l : List CRow, (∀ c ∈ l, c ∈ y.conSys ∧ c.eq = false) →
      ∃ p : Nat → Rat, 0 < p 0 ∧ SatRows y.conSys p ∧ ∀ c ∈ l, 0 < evalRow c.e p
  | [], _ => by
    obtain ⟨g, hg, _, h0⟩ := hy.hasPoint
    refine ⟨vecQ g.e, ?_, gen_holds hy hg, by simp⟩
    rw [vecQ_zero]; exact_mod_cast h0
  | c :: l, hl => by
    obtain ⟨p, hp0, hps, hpl⟩ := pstar_aux hy l (fun c' hc' => hl c' (List.mem_cons_of_mem _ hc'))
    obtain ⟨hc, hce⟩ := hl c List.mem_cons_self
    obtain ⟨g, hg, hgp⟩ := hy.proper c hc hce
    have hgs := gen_holds hy hg
    set M : Rat := (|vecQ g.e 0| + 1) / p 0 with hM
    have hMpos : 0 < M := by positivity
    have hMp : M * p 0 = |vecQ g.e 0| + 1 := by rw [hM]; field_simp
    refine ⟨M • p + vecQ g.e, ?_, ?_, ?_⟩
    · simp only [Pi.add_apply, Pi.smul_apply, smul_eq_mul, hMp]
      have := neg_abs_le (vecQ g.e 0)
      linarith
    · intro c' hc'
      exact holds_add (holds_smul hMpos.le (hps c' hc')) (hgs c' hc')
    · intro c' hc'
      have hce' : c'.eq = false := (hl c' hc').2
      have hin : c' ∈ y.conSys := (hl c' hc').1
      have h1 : 0 ≤ evalRow c'.e p := (holds_ineq hce' p).mp (hps c' hin)
      have h2 : 0 ≤ evalRow c'.e (vecQ g.e) := (holds_ineq hce' _).mp (hgs c' hin)
      rw [evalRow_add, evalRow_smul]
      rcases List.mem_cons.mp hc' with rfl | hc''
      · have h3 : 0 < evalRow c'.e (vecQ g.e) := by rw [evalRow_vecQ]; exact_mod_cast hgp
        have := mul_nonneg hMpos.le h1
        linarith
      · have := mul_pos hMpos (hpl c' hc'')
        linarith

/-! ### irredundancy, row-wise -/

theorem irred_row {n : Nat} {y : YMin} (hy : EngineDD n y) {c : CRow} (hc : c ∈ y.conSys)
    (hce : c.eq = false) :
    ∃ v : Vec, (∀ c' ∈ y.conSys, c' ≠ c → c'.holdsZ v) ∧ ¬ c.holdsZ v := by
  obtain ⟨i, hi, rfl⟩ := List.getElem_of_mem hc
  obtain ⟨v, _, hv1, hv2⟩ := hy.irred i hi (by rw [List.getD_eq_getElem _ _ hi]; exact hce)
  rw [List.getD_eq_getElem _ _ hi] at hv2
  refine ⟨v, ?_, hv2⟩
  intro c' hc' hne
  obtain ⟨k, hk, rfl⟩ := List.getElem_of_mem hc'
  have hki : k ≠ i := by rintro rfl; exact hne rfl
  have := hv1 k hk hki
  rwa [List.getD_eq_getElem _ _ hk] at this

theorem count_ineq_le_one {n : Nat} {y : YMin} (hy : EngineDD n y) (c : CRow) (hce : c.eq = false) :
    y.conSys.count c ≤ 1 := by
  by_contra hcon
  have h2 : 2 ≤ y.conSys.count c := by omega
  obtain ⟨a, b, hab, ha, hb⟩ :=
    List.duplicate_iff_exists_distinct_get.mp (List.duplicate_iff_two_le_count.mpr h2)
  have hai : a.val < y.conSys.length := a.2
  have hbi : b.val < y.conSys.length := b.2
  have hga : y.conSys.getD a.val default = c := by
    rw [List.getD_eq_getElem _ _ hai]; exact ha.symm
  have hgb : y.conSys.getD b.val default = c := by
    rw [List.getD_eq_getElem _ _ hbi]; exact hb.symm
  obtain ⟨v, _, hv1, hv2⟩ := hy.irred a.val hai (by rw [hga]; exact hce)
  have hne : b.val ≠ a.val := by
    have : a.val < b.val := hab
    omega
  have := hv1 b.val hbi hne
  rw [hgb] at this
  rw [hga] at hv2
  exact hv2 this

theorem ineqsOf_nodup {n : Nat} {y : YMin} (hy : EngineDD n y) : (ineqsOf y).Nodup := by
  rw [List.nodup_iff_count_le_one]
  intro c
  by_cases hm : c ∈ ineqsOf y
  · have hm' := mem_ineqsOf.mp hm
    unfold ineqsOf
    rw [List.count_filter (by simp [hm'.2.1, hm'.2.2])]
    exact count_ineq_le_one hy c hm'.2.1
  · rw [List.count_eq_zero_of_not_mem hm]; omega

end PPLV.Widen.Impl
