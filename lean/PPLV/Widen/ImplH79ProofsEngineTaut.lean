import PPLV.Widen.ImplH79ProofsEngine0
import PPLV.Widen.ImplH79Proofs

/-!
# C08 stage 2b — an engine-minimised closed system holds at most one tautology

From `EngineDD.irred` (every inequality has a vector violating only it) and `EngineDD.eqIndep` (no zero
equality row): two tautological inequalities `(c, 0 … 0)`, `(c', 0 … 0)` cannot both be irredundant, and the
row `0 = 0` is linearly dependent.
-/
namespace PPLV.Widen.Impl

theorem sp_zeros_left (e v : Vec) (h : e.all (· == 0) = true) : sp e v = 0 := by
  induction e generalizing v with
  | nil => cases v <;> simp [sp]
  | cons a as ih =>
    simp only [List.all_cons, Bool.and_eq_true, beq_iff_eq] at h
    cases v with
    | nil => simp [sp]
    | cons b bs => simp [sp, h.1, ih bs h.2]

theorem sp_allHomZero (e v : Vec) (h : allHomZero e = true) : sp e v = e.headD 0 * v.headD 0 := by
  cases e with
  | nil => cases v <;> simp [sp]
  | cons a as =>
    cases v with
    | nil => simp [sp]
    | cons b bs =>
      simp only [allHomZero, List.tail_cons] at h
      simp [sp, sp_zeros_left as bs h]

theorem exists_of_filter_pos {α : Type} [Inhabited α] (p : α → Bool) (l : List α)
    (h : 1 ≤ (l.filter p).length) : ∃ i, i < l.length ∧ p (l.getD i default) = true := by
  have hne : l.filter p ≠ [] := by intro h0; rw [h0] at h; simp at h
  obtain ⟨c, hc⟩ := List.exists_mem_of_ne_nil _ hne
  obtain ⟨hcl, hpc⟩ := List.mem_filter.mp hc
  obtain ⟨i, hi, rfl⟩ := List.getElem_of_mem hcl
  exact ⟨i, hi, by rw [List.getD_eq_getElem _ _ hi]; exact hpc⟩

/-- two positions of a list whose filter has at least two elements -/
theorem two_of_filter {α : Type} [Inhabited α] (p : α → Bool) (l : List α) (h : 2 ≤ (l.filter p).length) :
    ∃ i k, i < l.length ∧ k < l.length ∧ i ≠ k ∧ p (l.getD i default) = true ∧ p (l.getD k default) = true := by
  induction l with
  | nil => simp at h
  | cons a t ih =>
    by_cases hpa : p a = true
    · rw [List.filter_cons_of_pos hpa, List.length_cons] at h
      obtain ⟨k, hk, hpk⟩ := exists_of_filter_pos p t (by omega)
      exact ⟨0, k + 1, by simp, by simp; omega, by omega, by simpa using hpa, by simpa using hpk⟩
    · rw [List.filter_cons_of_neg hpa] at h
      obtain ⟨i, k, hi, hk, hik, hpi, hpk⟩ := ih h
      exact ⟨i + 1, k + 1, by simp; omega, by simp; omega, by omega, by simpa using hpi, by simpa using hpk⟩

/-- **at most one tautology** in an engine-minimised closed system -/
theorem oneTaut_of_engine (n : Nat) (y : YMin) (hy : EngineDD n y) :
    (y.conSys.filter (·.isTautological false)).length ≤ 1 := by
  by_contra hcon
  obtain ⟨i, k, hi, hk, hik, hti, htk⟩ := two_of_filter (·.isTautological false) y.conSys (by omega)
  -- a tautological row is not an equality (the zero equality is linearly dependent)
  have noEq : ∀ j, j < y.conSys.length → (y.conSys.getD j default).isTautological false = true →
      (y.conSys.getD j default).eq = false := by
    intro j hj ht
    by_contra he
    have he : (y.conSys.getD j default).eq = true := by simpa using he
    set c := y.conSys.getD j default with hc
    have hcm : c ∈ y.conSys.filter (·.eq) := by
      refine List.mem_filter.mpr ⟨?_, he⟩
      rw [hc, List.getD_eq_getElem _ _ hj]; exact List.getElem_mem hj
    obtain ⟨m, hm, hmc⟩ := List.getElem_of_mem hcm
    have hz : ∀ t, c.e.getD t 0 = 0 := by
      intro t
      unfold CRow.isTautological at ht
      by_cases hh : allHomZero c.e = true
      · simp only [hh, if_true, he] at ht
        have h0 : c.e.headD 0 = 0 := by simpa using ht
        cases hce : c.e with
        | nil => simp
        | cons a as =>
          rw [hce] at hh h0
          simp only [allHomZero, List.tail_cons] at hh
          simp only [List.headD_cons] at h0
          cases t with
          | zero => simpa using h0
          | succ t =>
            simp only [List.getD_cons_succ]
            rw [List.getD_eq_getElem?_getD]
            cases hg : as[t]? with
            | none => simp
            | some b =>
              have hb : b ∈ as := List.mem_of_getElem? hg
              have := (List.all_eq_true.mp hh) b hb
              simpa using this
      · simp [hh] at ht
    have := hy.eqIndep (fun t => if t = m then 1 else 0) (by
      intro col _
      rw [Finset.sum_eq_single m]
      · have : (y.conSys.filter (·.eq)).getD m default = c := by
          rw [List.getD_eq_getElem _ _ hm]; exact hmc
        simp only [this, hz col, Int.cast_zero, mul_zero]
      · intro b _ hb; simp [hb]
      · intro hnm; exact absurd (Finset.mem_range.mpr hm) hnm) m hm
    simp at this
  have hei := noEq i hi hti
  have hek := noEq k hk htk
  -- shape of a tautological inequality: all homogeneous terms zero, head ≥ 0
  have shape : ∀ j, (y.conSys.getD j default).isTautological false = true → (y.conSys.getD j default).eq = false →
      allHomZero (y.conSys.getD j default).e = true ∧ 0 ≤ (y.conSys.getD j default).e.headD 0 := by
    intro j ht he
    unfold CRow.isTautological at ht
    by_cases hh : allHomZero (y.conSys.getD j default).e = true
    · simp only [hh, if_true, he] at ht
      exact ⟨hh, by simpa using ht⟩
    · rw [if_neg hh] at ht
      simp at ht
  obtain ⟨hzi, hci⟩ := shape i hti hei
  obtain ⟨hzk, hck⟩ := shape k htk hek
  obtain ⟨v, _, hothers, hviol⟩ := hy.irred i hi hei
  have hkv := hothers k hk (Ne.symm hik)
  unfold CRow.holdsZ at hviol hkv
  rw [hei] at hviol; rw [hek] at hkv
  simp only [Bool.false_eq_true, if_false, sp_allHomZero _ _ hzi, not_le] at hviol
  simp only [Bool.false_eq_true, if_false, sp_allHomZero _ _ hzk] at hkv
  -- c_i * v0 < 0 with c_i ≥ 0 gives v0 < 0 and c_i > 0; then c_k * v0 ≥ 0 with c_k ≥ 0 gives c_k = 0
  have hv0 : v.headD 0 < 0 := by
    by_contra h
    have h1 := Int.mul_nonneg hci (not_lt.mp h)
    exact absurd h1 (not_le.mpr hviol)
  have hck0 : (y.conSys.getD k default).e.headD 0 = 0 := by
    by_contra h
    have hpos : 0 < (y.conSys.getD k default).e.headD 0 := by omega
    have := Int.mul_neg_of_pos_of_neg hpos hv0
    omega
  -- but then row k is `0 ≥ 0`, which no vector violates
  obtain ⟨w, _, _, hviolk⟩ := hy.irred k hk hek
  unfold CRow.holdsZ at hviolk
  rw [hek] at hviolk
  simp only [Bool.false_eq_true, if_false, not_le] at hviolk
  rw [sp_allHomZero _ _ hzk, hck0] at hviolk
  simp at hviolk

end PPLV.Widen.Impl
