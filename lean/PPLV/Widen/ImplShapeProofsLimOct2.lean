import PPLV.Widen.ImplShapeProofsLimOct
import PPLV.Widen.ImplShapeProofsClose
/-!
# C08 stage 2 — the limited extrapolations of `Octagonal_Shape`: between the receiver and the plain widening,
and which of the supplied constraints are kept (inequalities: yes; equalities: no)
-/
namespace PPLV.Widen
open PPLV.WR
open PPLV.WR.ExtRat (fin pinf le_rfl' le_trans' le_total' le_pinf)

theorem OCS.lim_γ_mono {n : Nat} {A B : OCS} (he : B.empty = A.empty) (h : octLE n A.mat B.mat) (p : Nat → Rat)
    (hp : OCS.γ n A p) : OCS.γ n B p :=
  ⟨he.trans hp.1, fun i j hi hj => le_trans' (hp.2 i j hi hj) (h i j hi hj)⟩

theorem octCC76_closed_arg (up : Rat → ExtRat) (n : Nat) (stops : List Rat) (X Y : OCS) (tp : Option Nat)
    (hn : n ≠ 0) :
    octCC76 up n stops (octClosureAssign up n X) Y tp = octCC76 up n stops X Y tp := by
  unfold octCC76
  simp only [hn, if_false, octClosureAssign_fix]

/-! ## CC76 -/

theorem oct_limited_cc76_between_cells {up : Rat → ExtRat} (hup : ∀ q, fin q ≤ up q) (n csd : Nat)
    (cs : List LimCon) (X Y : OCS) (tp : Option Nat) (hn : n ≠ 0) (hx : X.empty = false) (hy : Y.empty = false) :
    let Xc := octClosureAssign up n X
    let P := (octCC76 up n defaultStops X Y tp).1
    let R := (octLimitedCC76 up n csd cs X Y tp).1
    R.empty = Xc.empty ∧ P.empty = Xc.empty ∧ (∀ a b, Xc.mat a b ≤ R.mat a b) ∧ (∀ a b, R.mat a b ≤ P.mat a b) := by
  intro Xc P R
  have hfix : octClosureAssign up n Xc = Xc := octClosureAssign_fix up n X
  have hP : OCS.Dom Xc (octCC76 up n defaultStops Xc Y tp).1 := octCC76_dom hup n defaultStops Xc Y tp hfix
  have hR : R = octIntersectionAssign n (octCC76 up n defaultStops Xc Y tp).1
      (octGetLimitingOctagon up n csd cs X OCS.univ).2 := octLimitedCC76_eq up n csd cs X Y tp hn hx hy
  have hPP : P = (octCC76 up n defaultStops Xc Y tp).1 := by
    show (octCC76 up n defaultStops X Y tp).1 = _
    rw [octCC76_closed_arg up n defaultStops X Y tp hn]
  obtain ⟨h1, h2, h3, _⟩ := octLimited_core n Xc _ _ hP
    (by rw [octGetLimitingOctagon_empty]; rfl) (octGetLimitingOctagon_dom up n csd cs X)
  rw [hR, hPP]
  exact ⟨h1, hP.1, h2, h3⟩

/-- `limited_CC76_extrapolation_assign` (`Octagonal_Shape_templates.hh:4007`): the result contains the receiver
and is contained in the plain `CC76_extrapolation_assign` -/
theorem oct_limited_cc76_between {up : Rat → ExtRat} (hup : ∀ q, fin q ≤ up q) (n csd : Nat)
    (cs : List LimCon) (X Y : OCS) (tp : Option Nat) (hWF : OCS.WF n X)
    (hn : n ≠ 0) (hx : X.empty = false) (hy : Y.empty = false) (p : Nat → Rat) :
    (OCS.γ n X p → OCS.γ n (octLimitedCC76 up n csd cs X Y tp).1 p) ∧
    (OCS.γ n (octLimitedCC76 up n csd cs X Y tp).1 p → OCS.γ n (octCC76 up n defaultStops X Y tp).1 p) := by
  obtain ⟨h1, h2, h3, h4⟩ := oct_limited_cc76_between_cells hup n csd cs X Y tp hn hx hy
  constructor
  · intro hp
    exact OCS.lim_γ_mono h1 (fun i j _ _ => h3 i j) p (octClosureAssign_γ hup hWF hp)
  · intro hp
    exact OCS.lim_γ_mono (h2.trans h1.symm) (fun i j _ _ => h4 i j) p hp

/-- (L4) a supplied INEQUALITY that is an octagonal difference, whose cell is stored and which the closed receiver
satisfies at matrix level (`m_i_j <= d`, `:3957`), is a constraint of the result -/
theorem oct_limited_cc76_keeps {up : Rat → ExtRat} (hup : ∀ q, fin q ≤ up q) (n csd : Nat)
    (cs : List LimCon) (X Y : OCS) (tp : Option Nat) (hn : n ≠ 0) (hx : X.empty = false) (hy : Y.empty = false)
    (c : LimCon) (hc : c ∈ cs) (hsel : octLimSel csd c = true) (hineq : c.isEq = false)
    (hi : (octLimCell csd c).1 < 2 * n) (hj : (octLimCell csd c).2 < rowSize (octLimCell csd c).1)
    (hsat : (octClosureAssign up n X).mat (octLimCell csd c).1 (octLimCell csd c).2 ≤ octLimBound up csd c) :
    ((octClosureAssign up n X).empty = false →
      (octLimitedCC76 up n csd cs X Y tp).1.mat (octLimCell csd c).1 (octLimCell csd c).2 ≤ octLimBound up csd c) ∧
    ∀ p, OCS.γ n (octLimitedCC76 up n csd cs X Y tp).1 p →
      fin (OctM.oval p (octLimCell csd c).2 - OctM.oval p (octLimCell csd c).1) ≤ octLimBound up csd c := by
  have hfix := octClosureAssign_fix up n X
  have hP := octCC76_dom hup n defaultStops (octClosureAssign up n X) Y tp hfix
  have hR := octLimitedCC76_eq up n csd cs X Y tp hn hx hy
  obtain ⟨h1, _, _, h4⟩ := octLimited_core n (octClosureAssign up n X) _ _ hP
    (by rw [octGetLimitingOctagon_empty]; rfl) (octGetLimitingOctagon_dom up n csd cs X)
  rw [← hR] at h1 h4
  have key : (octClosureAssign up n X).empty = false →
      (octLimitedCC76 up n csd cs X Y tp).1.mat (octLimCell csd c).1 (octLimCell csd c).2 ≤ octLimBound up csd c :=
    fun hne => le_trans' (h4 hne hn _ _ hi hj) (octGetLimitingOctagon_keeps up n csd cs X _ c hc hsel hineq hsat)
  refine ⟨key, fun p hp => ?_⟩
  exact le_trans' (hp.2 _ _ hi hj) (key (h1.symm.trans hp.1))

/-! ## BHMZ05 -/

theorem oct_limited_bhmz05_between_cells (up : Rat → ExtRat) (n csd : Nat)
    (cs : List LimCon) (X Y : OCS) (tp : Option Nat) (hn : n ≠ 0) (hx : X.empty = false) (hy : Y.empty = false)
    (r : OCS × OCS × Option Nat × Mat) (hr : octLimitedBHMZ05 up n csd cs X Y tp = some r) :
    ∃ P, octBHMZ05 up n (octClosureAssign up n X) Y tp = some P ∧
      r.1.empty = (octClosureAssign up n X).empty ∧ P.1.empty = (octClosureAssign up n X).empty ∧
      (∀ a b, (octClosureAssign up n X).mat a b ≤ r.1.mat a b) ∧ (∀ a b, r.1.mat a b ≤ P.1.mat a b) := by
  obtain ⟨P, hP, hR⟩ := octLimitedBHMZ05_eq up n csd cs X Y tp hn hx hy r hr
  have hdom := octBHMZ05_dom up n (octClosureAssign up n X) Y tp (octClosureAssign_fix up n X) P hP
  obtain ⟨h1, h2, h3, _⟩ := octLimited_core n (octClosureAssign up n X) _ _ hdom
    (by rw [octGetLimitingOctagon_empty]; rfl) (octGetLimitingOctagon_dom up n csd cs X)
  rw [← hR] at h1 h2 h3
  exact ⟨P, hP, h1, hdom.1, h2, h3⟩

/-- `limited_BHMZ05_extrapolation_assign` (`Octagonal_Shape_templates.hh:4118`) -/
theorem oct_limited_bhmz05_between {up : Rat → ExtRat} (hup : ∀ q, fin q ≤ up q) (n csd : Nat)
    (cs : List LimCon) (X Y : OCS) (tp : Option Nat) (hWF : OCS.WF n X)
    (hn : n ≠ 0) (hx : X.empty = false) (hy : Y.empty = false)
    (r : OCS × OCS × Option Nat × Mat) (hr : octLimitedBHMZ05 up n csd cs X Y tp = some r) :
    ∃ P, octBHMZ05 up n (octClosureAssign up n X) Y tp = some P ∧
      ∀ p, (OCS.γ n X p → OCS.γ n r.1 p) ∧ (OCS.γ n r.1 p → OCS.γ n P.1 p) := by
  obtain ⟨P, hP, h1, h2, h3, h4⟩ := oct_limited_bhmz05_between_cells up n csd cs X Y tp hn hx hy r hr
  refine ⟨P, hP, fun p => ⟨fun hp => ?_, fun hp => ?_⟩⟩
  · exact OCS.lim_γ_mono h1 (fun i j _ _ => h3 i j) p (octClosureAssign_γ hup hWF hp)
  · exact OCS.lim_γ_mono (h2.trans h1.symm) (fun i j _ _ => h4 i j) p hp

theorem oct_limited_bhmz05_keeps (up : Rat → ExtRat) (n csd : Nat)
    (cs : List LimCon) (X Y : OCS) (tp : Option Nat) (hn : n ≠ 0) (hx : X.empty = false) (hy : Y.empty = false)
    (r : OCS × OCS × Option Nat × Mat) (hr : octLimitedBHMZ05 up n csd cs X Y tp = some r)
    (c : LimCon) (hc : c ∈ cs) (hsel : octLimSel csd c = true) (hineq : c.isEq = false)
    (hi : (octLimCell csd c).1 < 2 * n) (hj : (octLimCell csd c).2 < rowSize (octLimCell csd c).1)
    (hsat : (octClosureAssign up n X).mat (octLimCell csd c).1 (octLimCell csd c).2 ≤ octLimBound up csd c) :
    ((octClosureAssign up n X).empty = false →
      r.1.mat (octLimCell csd c).1 (octLimCell csd c).2 ≤ octLimBound up csd c) ∧
    ∀ p, OCS.γ n r.1 p →
      fin (OctM.oval p (octLimCell csd c).2 - OctM.oval p (octLimCell csd c).1) ≤ octLimBound up csd c := by
  obtain ⟨P, hP, hR⟩ := octLimitedBHMZ05_eq up n csd cs X Y tp hn hx hy r hr
  have hdom := octBHMZ05_dom up n (octClosureAssign up n X) Y tp (octClosureAssign_fix up n X) P hP
  obtain ⟨h1, _, _, h4⟩ := octLimited_core n (octClosureAssign up n X) _ _ hdom
    (by rw [octGetLimitingOctagon_empty]; rfl) (octGetLimitingOctagon_dom up n csd cs X)
  rw [← hR] at h1 h4
  have key : (octClosureAssign up n X).empty = false →
      r.1.mat (octLimCell csd c).1 (octLimCell csd c).2 ≤ octLimBound up csd c :=
    fun hne => le_trans' (h4 hne hn _ _ hi hj) (octGetLimitingOctagon_keeps up n csd cs X _ c hc hsel hineq hsat)
  refine ⟨key, fun p hp => ?_⟩
  exact le_trans' (hp.2 _ _ hi hj) (key (h1.symm.trans hp.1))

end PPLV.Widen
