/-!
# C08 — widenings: executable, code-shaped models (no Mathlib)

* the three convergence certificates of PPL and their `compare` methods, transliterated from
  `BHRZ03_Certificate.cc`, `H79_Certificate.cc`, `Grid_Certificate.cc` (the C++ result `1 / 0 / -1`
  is `Ordering.gt / eq / lt`);
* `collect_certificates` / `is_cert_multiset_stabilizing` of `Pointset_Powerset_templates.hh`
  (a `std::map<Cert, size_type, Cert::Compare>` is an association list sorted by `Compare`);
* the token protocol (`widenTok`), limited / bounded extrapolation (`limited`, `bounded`) and the
  widening iteration (`iterW`) over an abstract domain interface;
* `Interval::CC76_widening_assign(y, first, last)` and the two `Box::CC76_widening_assign`
  overloads over bounds in `ℚ ∪ {±∞}` with open/closed flags.
-/
namespace PPLV.Widen

/-! ## 1. Certificates -/

/-- one step of the C++ idiom `if (a != b) return (a > b) ? 1 : -1;` followed by `k` -/
def cmpStep (a b : Nat) (k : Ordering) : Ordering :=
  if a ≠ b then (if a > b then .gt else .lt) else k

/-- the loop `for (i = 0; i < space_dim; ++i) if (v[i] != w[i]) return (v[i] > w[i]) ? 1 : -1;` -/
def cmpVec : List Nat → List Nat → Ordering
  | a :: as, b :: bs => cmpStep a b (cmpVec as bs)
  | _, _ => .eq

/-- `BHRZ03_Certificate`: the five data members -/
structure BHRZ03Cert where
  affineDim : Nat
  linSpaceDim : Nat
  numConstraints : Nat
  numPoints : Nat
  /-- `num_rays_null_coord[j]` = number of rays with exactly `j` null coordinates; size = space dimension -/
  numRaysNullCoord : List Nat
deriving DecidableEq, Repr, Inhabited

/-- `int BHRZ03_Certificate::compare(const BHRZ03_Certificate& y) const` -/
def BHRZ03Cert.compare (x y : BHRZ03Cert) : Ordering :=
  cmpStep x.affineDim y.affineDim <|
  cmpStep x.linSpaceDim y.linSpaceDim <|
  cmpStep x.numConstraints y.numConstraints <|
  cmpStep x.numPoints y.numPoints <|
  cmpVec x.numRaysNullCoord y.numRaysNullCoord

/-- the final loop of `compare(const Polyhedron&)`:
    `if (ph_v[i] != v[i]) return (ph_v[i] < v[i]) ? 1 : -1;` -/
def cmpVecPh : (ph this : List Nat) → Ordering
  | a :: as, b :: bs => if a ≠ b then (if a < b then .gt else .lt) else cmpVecPh as bs
  | _, _ => .eq

/-- `int BHRZ03_Certificate::compare(const Polyhedron& ph) const`; `p` holds the quantities the
    method computes from `ph` (they are the members of `BHRZ03_Certificate(ph)`).  Literal
    transliteration: the two `PPL_ASSERT(ph_… == …)` lines are *not* tested by the code. -/
def BHRZ03Cert.comparePh (c p : BHRZ03Cert) : Ordering :=
  if p.affineDim > c.affineDim then .gt else
  if p.linSpaceDim > c.linSpaceDim then .gt else
  if p.numConstraints ≠ c.numConstraints then
    (if p.numConstraints < c.numConstraints then .gt else .lt) else
  if p.numPoints ≠ c.numPoints then
    (if p.numPoints < c.numPoints then .gt else .lt) else
  cmpVecPh p.numRaysNullCoord c.numRaysNullCoord

/-- `is_stabilizing(ph)` -/
def BHRZ03Cert.isStabilizing (c p : BHRZ03Cert) : Bool := c.comparePh p == .gt

/-- `BHRZ03_Certificate::OK()` for space dimension `n` -/
def BHRZ03Cert.ok (n : Nat) (c : BHRZ03Cert) : Bool :=
  c.numRaysNullCoord.length == n && decide (c.affineDim ≤ n) && decide (c.linSpaceDim ≤ c.affineDim)
    && decide (n - c.affineDim ≤ c.numConstraints) && decide (c.numPoints ≠ 0)
    && (c.linSpaceDim != n || (c.numConstraints == 0 && c.numPoints == 1))

/-- `H79_Certificate` -/
structure H79Cert where
  affineDim : Nat
  numConstraints : Nat
deriving DecidableEq, Repr, Inhabited

/-- `int H79_Certificate::compare(const H79_Certificate& y) const` -/
def H79Cert.compare (x y : H79Cert) : Ordering :=
  cmpStep x.affineDim y.affineDim <| cmpStep x.numConstraints y.numConstraints .eq

/-- `int H79_Certificate::compare(const Polyhedron& ph) const` (template for every `PH`) -/
def H79Cert.comparePh (c p : H79Cert) : Ordering :=
  if p.affineDim > c.affineDim then .gt else
  if p.numConstraints ≠ c.numConstraints then
    (if p.numConstraints < c.numConstraints then .gt else .lt) else
  .eq

/-- `Grid_Certificate` -/
structure GridCert where
  numEqualities : Nat
  numProperCongruences : Nat
deriving DecidableEq, Repr, Inhabited

/-- `int Grid_Certificate::compare(const Grid_Certificate& y) const` -/
def GridCert.compare (x y : GridCert) : Ordering :=
  if x.numEqualities = y.numEqualities then
    (if x.numProperCongruences = y.numProperCongruences then .eq
     else if x.numProperCongruences > y.numProperCongruences then .gt else .lt)
  else if x.numEqualities > y.numEqualities then .gt else .lt

/-- `int Grid_Certificate::compare(const Grid& gr) const { Grid_Certificate gc(gr); return compare(gc); }` -/
def GridCert.comparePh (c p : GridCert) : Ordering := c.compare p

/-! ### building the certificates from minimized descriptions (used by the driver) -/

/-- number of zero entries among the first `n` coordinates -/
def numZeroes (n : Nat) (v : List Int) : Nat :=
  ((List.range n).filter fun i => v.getD i 0 == 0).length

/-- `num_rays_null_coord` of a list of rays in dimension `n` -/
def raysNullCoord (n : Nat) (rays : List (List Int)) : List Nat :=
  (List.range n).map fun j => (rays.filter fun r => numZeroes n r == j).length

/-- `BHRZ03_Certificate(ph)` from the counts of the minimized systems -/
def mkBHRZ03 (n nCons nEq nPtsAndClosurePts nLines : Nat) (rays : List (List Int)) : BHRZ03Cert :=
  { affineDim := n - nEq, linSpaceDim := nLines, numConstraints := nCons,
    numPoints := nPtsAndClosurePts, numRaysNullCoord := raysNullCoord n rays }

def mkH79 (n nCons nEq : Nat) : H79Cert := { affineDim := n - nEq, numConstraints := nCons }

/-! ## 2. Certificate multisets (`std::map<Cert, size_type, Cert::Compare>`) -/

section Multiset
variable {α : Type} (cmp : α → α → Ordering)

/-- `++cert_ms[c]` on a map ordered by `Compare(x, y) = (x.compare(y) == 1)`: larger keys first,
    keys neither of which is `Compare`-before the other share one entry -/
def insertCert (c : α) : List (α × Nat) → List (α × Nat)
  | [] => [(c, 1)]
  | (d, k) :: rest =>
    if cmp c d = .gt then (c, 1) :: (d, k) :: rest
    else if cmp d c = .gt then (d, k) :: insertCert c rest
    else (d, k + 1) :: rest

/-- `collect_certificates` (from the list of the disjuncts' certificates) -/
def collectCertificates (cs : List α) : List (α × Nat) :=
  cs.foldl (fun m c => insertCert cmp c m) []

/-- the `while` loop of `is_cert_multiset_stabilizing`: `xs` is the map of `*this`, `ys` is `y_cert_ms` -/
def msStabilizing : List (α × Nat) → List (α × Nat) → Bool
  | (xc, xk) :: xs, (yc, yk) :: ys =>
    match cmp xc yc with
    | .eq => if xk = yk then msStabilizing xs ys else decide (xk < yk)
    | .gt => false
    | .lt => true
  | [], _ :: _ => true      -- `return yi != y_cert_ms_end;`
  | _, [] => false

/-- `x.is_cert_multiset_stabilizing(y_cert_ms)` with both multisets given by the certificates of the disjuncts -/
def isCertMultisetStabilizing (xCerts yCerts : List α) : Bool :=
  msStabilizing cmp (collectCertificates cmp xCerts) (collectCertificates cmp yCerts)

end Multiset

/-- the certificate relation that `BHZ03_widening_assign<Cert>` tests on a candidate `x` against the
    previous iterate `y`: hull certificate through `compare(ph)`, then (only if `y` has more than one
    disjunct) the multiset through `compare(cert)`. -/
def bhz03Accepts {α : Type} (cmpPh cmp : α → α → Ordering)
    (yHull xHull : α) (yCerts xCerts : List α) : Bool :=
  match cmpPh yHull xHull with
  | .gt => true
  | .eq => decide (yCerts.length > 1) && isCertMultisetStabilizing cmp xCerts yCerts
  | .lt => false

/-! ## 3. Abstract domain interface: tokens, limited / bounded extrapolation, iteration -/

/-- what the generic statements need of a domain: a carrier, a concretisation, constraints with a
    satisfaction predicate -/
structure WDom (Pt : Type) where
  D : Type
  C : Type
  γ : D → Pt → Prop
  csat : C → Pt → Prop

section Generic
variable {D C : Type}

/-- widening with tokens, the shape shared by every `*_widening_assign(y, tp)`:
    `if (tp && *tp > 0) { tmp = x; tmp.widen(y); if (!x.contains(tmp)) --*tp; return; }  x.widen(y);` -/
def widenTok (contains : D → D → Bool) (w : D → D → D) (x y : D) (tp : Nat) : D × Nat :=
  if tp > 0 then
    (if !contains x (w x y) then (x, tp - 1) else (x, tp))
  else (w x y, tp)

/-- `limited_*_extrapolation_assign(y, cs)`: select from `cs` what the larger argument `x` satisfies,
    widen, then add the selected constraints -/
def limited (sat : D → C → Bool) (refine : D → List C → D) (w : D → D → D)
    (x y : D) (cs : List C) : D :=
  refine (w x y) (cs.filter (sat x))

/-- `bounded_*_extrapolation_assign(y, cs)`: the limited extrapolation, refined with the constraints
    `bx` of the CC76-widened bounding box of `x` (computed before `x` is changed) -/
def bounded (sat : D → C → Bool) (refine : D → List C → D) (w : D → D → D)
    (boxCons : D → D → List C) (x y : D) (cs : List C) : D :=
  let bx := boxCons x y
  refine (limited sat refine w x y cs) bx

/-- the widened sequence along a chain: `x₀ = c₀`, `xᵢ₊₁ = (xᵢ ⊔ cᵢ₊₁) ∇ xᵢ`
    (in PPL's argument order the *larger* argument is the receiver) -/
def iterW (join w : D → D → D) (chain : Nat → D) : Nat → D
  | 0 => chain 0
  | i + 1 => w (join (iterW join w chain i) (chain (i + 1))) (iterW join w chain i)

/-- the widened sequence against an arbitrary adversary: `z i` is the larger argument of step `i` -/
def advSeq (w : D → D → D) (x0 : D) (z : Nat → D → D) : Nat → D
  | 0 => x0
  | i + 1 => w (z i (advSeq w x0 z i)) (advSeq w x0 z i)

end Generic

/-! ## 4. `Interval::CC76_widening_assign` and `Box::CC76_widening_assign` -/

/-- an interval with rational or infinite boundaries; `lo = none` is `-∞`, `hi = none` is `+∞`;
    the open flags are meaningful for finite boundaries only -/
structure Itv where
  lo : Option Rat
  loOpen : Bool
  hi : Option Rat
  hiOpen : Bool
deriving DecidableEq, Repr, Inhabited

/-- `q` respects the lower boundary `l` (open flag `o`) -/
def loOK (l : Option Rat) (o : Bool) (q : Rat) : Prop :=
  match l with | none => True | some l => if o then l < q else l ≤ q

/-- `q` respects the upper boundary `u` (open flag `o`) -/
def hiOK (u : Option Rat) (o : Bool) (q : Rat) : Prop :=
  match u with | none => True | some u => if o then q < u else q ≤ u

def Itv.mem (I : Itv) (q : Rat) : Prop := loOK I.lo I.loOpen q ∧ hiOK I.hi I.hiOpen q

def Itv.isEmpty (I : Itv) : Bool :=
  match I.lo, I.hi with
  | some l, some u => decide (u < l) || (decide (l = u) && (I.loOpen || I.hiOpen))
  | _, _ => false

/-- `std::lower_bound(first, last, v)` as an index: the number of leading stop points `< v`
    (on a sorted range this is the position the binary search returns) -/
def lowerBound (stops : List Rat) (v : Rat) : Nat := (stops.takeWhile (· < v)).length

/-- the "Upper bound." block -/
def cc76Hi (stops : List Rat) (xHi yHi : Option Rat) : Option Rat :=
  match xHi with
  | none => none                                   -- `if (!x.upper_is_boundary_infinity())`
  | some xu =>
    match yHi with
    | none => some xu                              -- excluded by `PPL_ASSERT`; nothing to extrapolate
    | some yu =>
      if yu < xu then
        let k := lowerBound stops xu
        if h : k < stops.length then               -- `k != last`
          (if xu < stops[k] then some stops[k] else some xu)
        else none                                  -- `x.upper_extend()`
      else some xu

/-- the "Lower bound." block -/
def cc76Lo (stops : List Rat) (xLo yLo : Option Rat) : Option Rat :=
  match xLo with
  | none => none
  | some xl =>
    match yLo with
    | none => some xl
    | some yl =>
      if yl > xl then
        let k := lowerBound stops xl
        if h : k < stops.length then
          (if xl < stops[k] then
             (if k ≠ 0 then stops[k - 1]? else none)   -- `x_lb = *--k` / `x.lower_extend()`
           else some xl)
        else
          (if k ≠ 0 then stops[k - 1]? else none)
      else some xl

/-- `x.CC76_widening_assign(y, first, last)` on intervals; the open flags of `x` are not touched -/
def Itv.cc76 (stops : List Rat) (x y : Itv) : Itv :=
  { lo := cc76Lo stops x.lo y.lo, loOpen := x.loOpen,
    hi := cc76Hi stops x.hi y.hi, hiOpen := x.hiOpen }

/-- boxes: a list of intervals (an empty box has an empty component) -/
abbrev BoxM := List Itv

def BoxM.isEmpty (b : BoxM) : Bool := b.any Itv.isEmpty

/-- `Box::CC76_widening_assign(y, first, last)` -/
def BoxM.cc76 (stops : List Rat) (x y : BoxM) : BoxM :=
  if BoxM.isEmpty y then x else List.zipWith (Itv.cc76 stops) x y

/-- the static stop points of `Box::CC76_widening_assign(y, tp)` -/
def defaultStops : List Rat := [-2, -1, 0, 1, 2]

/-- interval hull of two intervals (the exact join of the interval domain) -/
def hullHi (a : Option Rat × Bool) (b : Option Rat × Bool) : Option Rat × Bool :=
  match a.1, b.1 with
  | some u, some v => if u < v then b else if v < u then a else (some u, a.2 && b.2)
  | _, _ => (none, true)

def hullLo (a : Option Rat × Bool) (b : Option Rat × Bool) : Option Rat × Bool :=
  match a.1, b.1 with
  | some u, some v => if u < v then a else if v < u then b else (some u, a.2 && b.2)
  | _, _ => (none, true)

def Itv.join (a b : Itv) : Itv :=
  if a.isEmpty then b else if b.isEmpty then a else
  let l := hullLo (a.lo, a.loOpen) (b.lo, b.loOpen)
  let h := hullHi (a.hi, a.hiOpen) (b.hi, b.hiOpen)
  { lo := l.1, loOpen := l.2, hi := h.1, hiOpen := h.2 }

/-- interval-level widening with the box-level guard (`if (y.is_empty()) return;`) -/
def Itv.widen (stops : List Rat) (x y : Itv) : Itv := if y.isEmpty then x else x.cc76 stops y

/-- the convergence measure of the interval widening: per boundary, `0` at infinity, otherwise
    `2 * (1 + number of stop points strictly beyond the boundary) + (1 if open)` -/
def rankHi (stops : List Rat) (h : Option Rat) (isOpen : Bool) : Nat :=
  match h with
  | none => 0
  | some u => 2 * (1 + (stops.filter (fun s => decide (u < s))).length) + (if isOpen then 1 else 0)

def rankLo (stops : List Rat) (l : Option Rat) (isOpen : Bool) : Nat :=
  match l with
  | none => 0
  | some v => 2 * (1 + (stops.filter (fun s => decide (s < v))).length) + (if isOpen then 1 else 0)

def Itv.rank (stops : List Rat) (I : Itv) : Nat :=
  rankLo stops I.lo I.loOpen + rankHi stops I.hi I.hiOpen

end PPLV.Widen
