import PPLV.Props.C01ConvMinimal
/-!
# C08 stage 2b — bridge facts about the constraint system `minimize(true, cs, gs, sat)` leaves

With `m := PPLV.Conv.minimize true false ncols source sat0`, when `m.empty = false`:

* `minimize_source_eq_of_lt` / `minimize_source_ineq_of_ge` / `minimize_source_le_iff` — the first
  `m.rank` rows of `m.source` are equalities and ALL the others are inequalities (an equality of the
  input is saturated by every generator, its exact saturation row is empty, so the equality detection
  of `simplify` finds it wherever it stands);
* `minimize_proper` — an inequality of `m.source` is not saturated by every generator of `m.dest`.

All of it is `PPLV.Conv.simplify_result_core` (`Conv/ProofsCompleteMinimal4.lean`) with the pivots of
`back_substitute` from `simplify_backSubPivots` (`Conv/ProofsCompleteGauss3.lean`).
-/
namespace PPLV.Widen.Impl
open PPLV.Conv

/-- the facts of `simplify_result_core` on the result of `minimize`. -/
theorem minimize_result_core (ncols : Nat) (source : List LRow) (sat0 : List BRow)
    (hsz : ncols < 2 ^ 64) (hsrc : source.length < 2 ^ 64)
    (hne : (minimize true false ncols source sat0).empty = false) :
    ∃ F : List SRow,
      (minimize true false ncols source sat0).source = F.map (·.row) ∧
      (∀ k, k < F.length → ∀ g ∈ (minimize true false ncols source sat0).dest,
        satisfies (F.getD k default).row g) ∧
      (∀ k, k < (minimize true false ncols source sat0).rank → (F.getD k default).row.le = true) ∧
      (∀ k, (minimize true false ncols source sat0).rank ≤ k → k < F.length →
        (F.getD k default).row.le = false ∧ bitsEmpty (F.getD k default).sat = false ∧
        ExactBits (minimize true false ncols source sat0).dest (F.getD k default)) := by
  set r := conversion ncols source 0 (identityLines ncols)
    (List.replicate ncols (List.replicate source.length false)) ncols with hr
  have hp : hasPoint false ncols r.nle r.dest = true := minimize_hasPoint false ncols source sat0 hne
  have hm : minimize true false ncols source sat0 =
                { empty := false,
                  source := (simplify ncols r.dest.length (zipSys r.source (transpose r.source.length r.sat))).1.map (·.row),
                  dest := r.dest,
                  sat := (simplify ncols r.dest.length (zipSys r.source (transpose r.source.length r.sat))).1.map (·.sat),
                  rank := (simplify ncols r.dest.length (zipSys r.source (transpose r.source.length r.sat))).2 } := by
    unfold minimize
    simp only
    rw [← hr, if_neg (by simp [hp])]
    rfl
  obtain ⟨hs, _, _, _, hsatc, _⟩ := C01.conversion_dd_pair ncols source hsz hsrc
  have hcore := simplify_result_core ncols r.dest.length
    (zipSys r.source (transpose r.source.length r.sat)) r.dest
    (zipSys_rowOK r.source (transpose r.source.length r.sat) r.dest
      (satCorrect_transpose r.source r.dest r.sat hsatc)
      (fun d hd s hs' => hs d hd s (conversion_source_subset _ _ _ _ _ _ s hs')))
    (simplify_backSubPivots ncols r.dest.length (zipSys r.source (transpose r.source.length r.sat)))
  rw [hm]
  exact ⟨_, rfl, hcore.1, hcore.2.1, hcore.2.2.1⟩

theorem getD_map_row (F : List SRow) (k : Nat) (hk : k < F.length) :
    (F.map (·.row)).getD k default = (F.getD k default).row := by
  rw [List.getD_eq_getElem?_getD, List.getElem?_map, List.getElem?_eq_getElem hk,
    List.getD_eq_getElem?_getD, List.getElem?_eq_getElem hk]
  rfl

/-- the first `rank` rows are equalities. -/
theorem minimize_source_eq_of_lt (ncols : Nat) (source : List LRow) (sat0 : List BRow)
    (hsz : ncols < 2 ^ 64) (hsrc : source.length < 2 ^ 64)
    (hne : (minimize true false ncols source sat0).empty = false) :
    ∀ i, i < (minimize true false ncols source sat0).source.length →
      i < (minimize true false ncols source sat0).rank →
      ((minimize true false ncols source sat0).source.getD i default).le = true := by
  obtain ⟨F, hF, _, he, _⟩ := minimize_result_core ncols source sat0 hsz hsrc hne
  intro i hi hlt
  rw [hF, List.length_map] at hi
  rw [hF, getD_map_row F i hi]
  exact he i hlt

/-- all the rows from `rank` on are inequalities. -/
theorem minimize_source_ineq_of_ge (ncols : Nat) (source : List LRow) (sat0 : List BRow)
    (hsz : ncols < 2 ^ 64) (hsrc : source.length < 2 ^ 64)
    (hne : (minimize true false ncols source sat0).empty = false) :
    ∀ i, (minimize true false ncols source sat0).rank ≤ i →
      i < (minimize true false ncols source sat0).source.length →
      ((minimize true false ncols source sat0).source.getD i default).le = false := by
  obtain ⟨F, hF, _, _, hb⟩ := minimize_result_core ncols source sat0 hsz hsrc hne
  intro i hge hi
  rw [hF, List.length_map] at hi
  rw [hF, getD_map_row F i hi]
  exact (hb i hge hi).1

/-- **the equalities of the result are exactly its first `rank` rows.** -/
theorem minimize_source_le_iff (ncols : Nat) (source : List LRow) (sat0 : List BRow)
    (hsz : ncols < 2 ^ 64) (hsrc : source.length < 2 ^ 64)
    (hne : (minimize true false ncols source sat0).empty = false) :
    ∀ i, i < (minimize true false ncols source sat0).source.length →
      (((minimize true false ncols source sat0).source.getD i default).le = true ↔
        i < (minimize true false ncols source sat0).rank) := by
  intro i hi
  constructor
  · intro hle
    by_contra hc
    have := minimize_source_ineq_of_ge ncols source sat0 hsz hsrc hne i (Nat.le_of_not_lt hc) hi
    rw [this] at hle
    cases hle
  · exact minimize_source_eq_of_lt ncols source sat0 hsz hsrc hne i hi

/-- **an inequality of the result is not saturated by every generator.** -/
theorem minimize_proper (ncols : Nat) (source : List LRow) (sat0 : List BRow)
    (hsz : ncols < 2 ^ 64) (hsrc : source.length < 2 ^ 64)
    (hne : (minimize true false ncols source sat0).empty = false) :
    ∀ c ∈ (minimize true false ncols source sat0).source, c.le = false →
      ∃ g ∈ (minimize true false ncols source sat0).dest, scalarProduct c.v g.v ≠ 0 := by
  obtain ⟨F, hF, ha, he, hb⟩ := minimize_result_core ncols source sat0 hsz hsrc hne
  intro c hc hle
  rw [hF] at hc
  obtain ⟨s, hs, rfl⟩ := List.mem_map.1 hc
  obtain ⟨k, hk, rfl⟩ := List.mem_iff_getElem.1 hs
  have hgk : F.getD k default = F[k] := by
    rw [List.getD_eq_getElem?_getD, List.getElem?_eq_getElem hk]; rfl
  have hge : (minimize true false ncols source sat0).rank ≤ k := by
    by_contra hlt
    have := he k (Nat.lt_of_not_le hlt)
    rw [hgk] at this
    change F[k].row.le = false at hle
    rw [this] at hle
    cases hle
  obtain ⟨_, hne', hex⟩ := hb k hge hk
  rw [hgk] at hne' hex
  have hj : ∃ j, bit F[k].sat j = true := by
    by_contra hall
    have : bitsEmpty F[k].sat = true := (bitsEmpty_iff _).2 (fun j => by
      cases hbj : bit F[k].sat j
      · rfl
      · exact absurd ⟨j, hbj⟩ hall)
    rw [this] at hne'
    cases hne'
  obtain ⟨j, hbj⟩ := hj
  obtain ⟨hjl, hpos⟩ := pos_of_bit hex (fun g hg => by have := ha k hk g hg; rwa [hgk] at this) j hbj
  exact ⟨_, List.getElem_mem hjl, ne_of_gt hpos⟩

end PPLV.Widen.Impl
