import PPLV.Widen.ImplH79ProofsEngine0

/-!
# C08 stage 2b — `MinimalDD.hfacet` from the engine contract `EngineDD`: vocabulary
-/
namespace PPLV.Widen.Impl

/-- the integer vector `v` (of `n + 1` columns) is `d · (1, p_0 … p_{n-1})`, `d > 0` -/
def RepZ (n : Nat) (d : Int) (v : Vec) (p : Pt) : Prop :=
  0 < d ∧ v.length = n + 1 ∧ ∀ i, i ≤ n → ((v.getD i 0 : Int) : Rat) = (d : Rat) * hom n p 0 i

/-- `v` belongs to the homogeneous cone of the constraint rows -/
def InK (n : Nat) (y : YMin) (v : Vec) : Prop := v.length = n + 1 ∧ ∀ c ∈ y.conSys, c.holdsZ v

/-- the linear form `a` is non-negative on the rays/points and vanishes on the lines of `y` -/
def ValidG (y : YMin) (a : Vec) : Prop :=
  ∀ g ∈ y.genSys, if g.line then sp a g.e = 0 else 0 ≤ sp a g.e

def zadd (a b : Vec) : Vec := List.zipWith (· + ·) a b
def zsmul (k : Int) (a : Vec) : Vec := a.map (k * ·)

end PPLV.Widen.Impl
