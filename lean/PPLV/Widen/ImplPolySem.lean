import PPLV.Widen.ImplBHRZ03
import Mathlib.LinearAlgebra.FiniteDimensional.Defs
import Mathlib.Data.Set.Basic

/-!
# C08 stage 2 — what the raw rows of `ImplH79.lean` denote, and the contract of the conversions

* `evalRow`, `CRow.holds`, `SatRows`, `den`: the point set of a constraint system given by raw rows
  (closed polyhedra: the rows hold at `(1, p)`; NNC polyhedra: at `(1, p, ε)` for some `ε > 0`);
* the set-level H79 certificate `setCert S = (eqRank S, minCons S)`: the dimension of the space of affine
  forms vanishing on `S` (`= n - affine dimension` for a non-empty `S`) and the least number of rows of a
  constraint system denoting `S`.  Both are functions of the point set by construction;
* `MinimalDD`: what `Polyhedron::minimize()` guarantees about the triple `(con_sys, gen_sys, sat_g)` as far
  as the H79 selection uses it.  `hymin` and `hfacet` are facts of polyhedral theory about minimal
  double descriptions that are NOT proved here (the conversion is not part of this model, cf. C01); the
  driver checks `satG_ok`, `oneTaut`, `hfacet` (with the verified K1 deciders) and irredundancy on every
  journalled real step.
-/
namespace PPLV.Widen.Impl
open PPLV.Widen

abbrev Pt := Nat → Rat

/-- `Σ e[i] * v i` -/
def evalRow : Vec → (Nat → Rat) → Rat
  | [], _ => 0
  | a :: as, v => (a : Rat) * v 0 + evalRow as (fun i => v (i + 1))

def CRow.holds (c : CRow) (v : Nat → Rat) : Prop :=
  if c.eq then evalRow c.e v = 0 else 0 ≤ evalRow c.e v

def SatRows (cs : List CRow) (v : Nat → Rat) : Prop := ∀ c ∈ cs, c.holds v

/-- the homogeneous vector `(1, p_0 … p_{n-1}, ε, 0 …)` -/
def hom (n : Nat) (p : Pt) (ε : Rat) : Nat → Rat :=
  fun i => if i = 0 then 1 else if i ≤ n then p (i - 1) else if i = n + 1 then ε else 0

/-- the point set of a constraint system of dimension `n` (a cylinder in `ℕ → ℚ`) -/
def den (nnc : Bool) (n : Nat) (cs : List CRow) : Set Pt :=
  if nnc then {p | ∃ ε : Rat, 0 < ε ∧ SatRows cs (hom n p ε)} else {p | SatRows cs (hom n p 0)}

/-- the homogeneous vector of a generator row -/
def GRow.vec (g : GRow) : Nat → Rat := fun i => ((g.e.getD i 0 : Int) : Rat)

/-! ### the set-level H79 certificate (closed polyhedra) -/

/-- the affine forms `a 0 + Σ a (i+1) * p i` vanishing on `S` -/
def annih (n : Nat) (S : Set Pt) : Submodule ℚ (Fin (n + 1) → ℚ) where
  carrier := {a | ∀ p ∈ S, a 0 + ∑ i : Fin n, a i.succ * p i = 0}
  zero_mem' := by intro p _; simp
  add_mem' := by
    intro a b ha hb p hp
    have h1 := ha p hp
    have h2 := hb p hp
    simp only [Pi.add_apply, add_mul, Finset.sum_add_distrib]
    linarith
  smul_mem' := by
    intro c a ha p hp
    have h1 := ha p hp
    simp only [Pi.smul_apply, smul_eq_mul, mul_assoc, ← Finset.mul_sum]
    rw [← mul_add, h1, mul_zero]

/-- number of independent equalities valid on `S` -/
noncomputable def eqRank (n : Nat) (S : Set Pt) : Nat := Module.finrank ℚ (annih n S)

/-- a constraint system of dimension `n`: rows of `n + 1` columns -/
def WFRows (n : Nat) (cs : List CRow) : Prop := ∀ c ∈ cs, c.e.length = n + 1

/-- least number of rows of a (closed) constraint system denoting `S` (`0` if there is none) -/
noncomputable def minCons (n : Nat) (S : Set Pt) : Nat :=
  sInf {k | ∃ cs : List CRow, WFRows n cs ∧ cs.length = k ∧ den false n cs = S}

/-- the H79 certificate of a point set, and its order: "strictly smaller" = more valid equalities lost
    (affine dimension grew), or as many and fewer constraints (`H79_Certificate::compare(ph) == 1`) -/
noncomputable def setCert (n : Nat) (S : Set Pt) : Nat × Nat := (eqRank n S, minCons n S)

def certLess : Nat × Nat → Nat × Nat → Prop := Prod.Lex (· < ·) (· < ·)

/-- the corresponding `H79Cert` (for a non-empty set the affine dimension is `n - eqRank`) -/
noncomputable def setH79Cert (n : Nat) (S : Set Pt) : H79Cert :=
  { affineDim := n - eqRank n S, numConstraints := minCons n S }

/-! ### contract of `minimize()` as far as the selection uses it (closed polyhedra) -/

structure MinimalDD (n : Nat) (y : YMin) : Prop where
  wf : WFRows n y.conSys
  /-- `sat_g[i][j]` iff `sp(con_sys[i], gen_sys[j]) > 0` -/
  satG_ok : y.satG = y.conSys.map fun c => satRow c y.genSys
  /-- a minimised system of a closed polyhedron holds at most one tautology (the positivity constraint) -/
  oneTaut : (y.conSys.filter (·.isTautological false)).length ≤ 1
  /-- the generators belong to the homogenised cone of the constraints -/
  gens_in : ∀ g ∈ y.genSys, ∀ c ∈ y.conSys,
    if c.eq || g.line then sp c.e g.e = 0 else 0 ≤ sp c.e g.e
  /-- minimised: no system with fewer rows denotes the same set -/
  hymin : (y.conSys.filter (!·.isTautological false)).length = minCons n (den false n y.conSys)
  /-- a valid constraint saturated by exactly the generators that saturate a row `cj` of the minimal system
      coincides with `cj` on the affine hull (`cj` is an equality or defines a facet) -/
  hfacet : ∀ ci : CRow, ci.e.length = n + 1 →
    (∀ p ∈ den false n y.conSys, ci.holds (hom n p 0)) →
    ∀ cj ∈ y.conSys, cj.isTautological false = false → satRow ci y.genSys = satRow cj y.genSys →
    ∀ p : Pt, SatRows (y.conSys.filter (·.eq)) (hom n p 0) → (ci.holds (hom n p 0) ↔ cj.holds (hom n p 0))

/-- the model's H79 widening on minimised closed polyhedra: the selected rows of `x` (constraint path of
    `h79WideningAssign`; `.unchanged` when every row is selected) -/
def h79Rows (x y : YMin) : List CRow :=
  let sel := selectH79Constraints false x.conSys y.conSys y.genSys y.satG
  if sel.2.isEmpty then x.conSys else sel.1

/-! ### the point set of a generator system (closed polyhedra) -/

/-- `Σ_k t k * gs[k].vec i` -/
def genComb : List GRow → (Nat → Rat) → Nat → Rat
  | [], _, _ => 0
  | g :: gs, t, i => t 0 * g.vec i + genComb gs (fun k => t (k + 1)) i

/-- the coefficients of points and rays are non-negative (lines: free) -/
def CoefOK : List GRow → (Nat → Rat) → Prop
  | [], _ => True
  | g :: gs, t => (g.line = false → 0 ≤ t 0) ∧ CoefOK gs (fun k => t (k + 1))

/-- `p` is generated by `gs`: its homogeneous vector `(1, p)` is a combination of the generator rows (column
    `0` = divisor) with non-negative coefficients on points and rays — for a closed polyhedron given by
    `gen_sys` this is `p ∈ γ`: the divisor column forces the point coefficients to sum to `1` -/
def GenComb (n : Nat) (gs : List GRow) (p : Pt) : Prop :=
  ∃ t : Nat → Rat, CoefOK gs t ∧ ∀ i, i ≤ n → hom n p 0 i = genComb gs t i

end PPLV.Widen.Impl
