import PPLV.Widen.ImplShapeProofsLimBD
/-!
# C08 stage 2 — `limited_CC76_extrapolation_assign` / `limited_BHMZ05_extrapolation_assign` of `BD_Shape`

Object level, relative to the closed receiver `Xc := bdClosureAssign up n X` (the `*this` that
`get_limiting_shape` leaves behind, `BD_Shape_templates.hh:3164`).
-/
namespace PPLV.Widen
open PPLV.WR
open PPLV.WR.ExtRat (fin pinf le_rfl' le_trans' le_total' le_pinf)

/-- `P` has the emptiness flag of `Xc` and every cell at or above that of `Xc` -/
def BDS.Dom (Xc P : BDS) : Prop := P.empty = Xc.empty ∧ ∀ a b, Xc.dbm a b ≤ P.dbm a b

theorem BDS.Dom.refl (s : BDS) : BDS.Dom s s := ⟨rfl, fun _ _ => le_rfl' _⟩

/-! ## the plain widenings dominate the closed receiver -/

theorem bdCC76_dom {up : Rat → ExtRat} (hup : ∀ q, fin q ≤ up q) (n : Nat) (stops : List Rat) (Xc Y : BDS)
    (tp : Option Nat) (hfix : bdClosureAssign up n Xc = Xc) : BDS.Dom Xc (bdCC76 up n stops Xc Y tp).1 := by
  have hw : ∀ ym : Mat, BDS.Dom Xc ({ Xc with dbm := bdCC76Loops up stops n Xc.dbm ym }.resetClosed) := by
    intro ym
    refine ⟨rfl, fun a b => ?_⟩
    show Xc.dbm a b ≤ bdCC76Loops up stops n Xc.dbm ym a b
    rw [bdCC76Loops_apply]
    split
    · exact le_cc76Cell hup _ _ _
    · exact le_rfl' _
  unfold bdCC76
  by_cases h0 : n = 0
  · simp only [h0, if_true]; exact BDS.Dom.refl _
  · simp only [h0, if_false, hfix]
    split
    · exact BDS.Dom.refl _
    · split
      · exact BDS.Dom.refl _
      · cases tp with
        | none => exact hw _
        | some t =>
          simp only
          split
          · exact BDS.Dom.refl _
          · exact hw _

theorem lim_bdAffineDim_snd (up : Rat → ExtRat) (n : Nat) (s : BDS) (hfix : bdClosureAssign up n s = s) :
    (bdAffineDim up n s).2 = s := by
  unfold bdAffineDim
  by_cases h0 : n = 0
  · simp [h0]
  · simp only [h0, if_false, hfix]
    split <;> rfl

theorem bdBHMZ05_dom (up : Rat → ExtRat) (n : Nat) (Xc Y : BDS) (tp : Option Nat)
    (hfix : bdClosureAssign up n Xc = Xc) (P : BDS × BDS × Option Nat) (hP : bdBHMZ05 up n Xc Y tp = some P) :
    BDS.Dom Xc P.1 := by
  have hw : ∀ (ym : Mat) (r : BMat), BDS.Dom Xc ({ Xc with dbm := bdBHMZ05Loops n Xc.dbm ym r }.resetClosed) := by
    intro ym r
    refine ⟨rfl, fun a b => ?_⟩
    show Xc.dbm a b ≤ bdBHMZ05Loops n Xc.dbm ym r a b
    rw [bdBHMZ05Loops_apply]
    split
    · exact le_bhmz05Cell _ _ _
    · exact le_rfl' _
  have hx2 := lim_bdAffineDim_snd up n Xc hfix
  unfold bdBHMZ05 at hP
  generalize bdAffineDim up n Y = ay at hP
  obtain ⟨yd, y⟩ := ay
  generalize bdAffineDim up n Xc = ax at hP hx2
  obtain ⟨xd, x⟩ := ax
  simp only at hx2
  subst hx2
  simp only at hP
  split at hP
  · injection hP with hP; subst hP; exact BDS.Dom.refl _
  · split at hP
    · injection hP with hP; subst hP; exact BDS.Dom.refl _
    · cases hr : bdReductionAssign up n y with
      | none => rw [hr] at hP; simp at hP
      | some y' =>
        rw [hr] at hP
        simp only [Option.map_some] at hP
        injection hP with hP
        subst hP
        cases tp with
        | none => exact hw _ _
        | some t =>
          simp only
          split
          · exact BDS.Dom.refl _
          · exact hw _ _

/-! ## `intersection_assign` -/

theorem bdIntersectionAssign_spec (n : Nat) (P ls : BDS) (hls : ls.empty = false) :
    (bdIntersectionAssign n P ls).empty = P.empty ∧
    ∀ a b, (bdIntersectionAssign n P ls).dbm a b
      = if P.empty = false ∧ n ≠ 0 ∧ a < n + 1 ∧ b < n + 1 then minCell (P.dbm a b) (ls.dbm a b) else P.dbm a b := by
  unfold bdIntersectionAssign
  by_cases h1 : P.empty = true
  · simp [h1]
  · have h1' : P.empty = false := by cases h : P.empty <;> simp_all
    by_cases h0 : n = 0
    · simp [h1', hls, h0]
    · simp only [h1', hls, h0, if_false, Bool.false_eq_true]
      constructor
      · split <;> simp [BDS.resetClosed]
      · intro a b
        have := bdIntersection_loops_apply n P.dbm ls.dbm a b
        split
        · simp only [BDS.resetClosed]
          rw [this]; simp [h0]
        · simp only
          rw [this]; simp [h0]

/-- the core of both limited extrapolations: intersecting something that dominates `Xc` with a limiting shape
that dominates `Xc` -/
theorem bdLimited_core (n : Nat) (Xc P ls : BDS) (hP : BDS.Dom Xc P) (hls : ls.empty = false)
    (hdom : ∀ a b, Xc.dbm a b ≤ ls.dbm a b) :
    (bdIntersectionAssign n P ls).empty = Xc.empty ∧
    (∀ a b, Xc.dbm a b ≤ (bdIntersectionAssign n P ls).dbm a b) ∧
    (∀ a b, (bdIntersectionAssign n P ls).dbm a b ≤ P.dbm a b) ∧
    (Xc.empty = false → n ≠ 0 → ∀ a b, a ≤ n → b ≤ n → (bdIntersectionAssign n P ls).dbm a b ≤ ls.dbm a b) := by
  obtain ⟨he, hc⟩ := bdIntersectionAssign_spec n P ls hls
  refine ⟨he.trans hP.1, fun a b => ?_, fun a b => ?_, fun hne h0 a b ha hb => ?_⟩
  · rw [hc]; split
    · exact le_minCell (hP.2 a b) (hdom a b)
    · exact hP.2 a b
  · rw [hc]; split
    · exact minCell_le_left _ _
    · exact le_rfl' _
  · rw [hc, if_pos ⟨hP.1.trans hne, h0, by omega, by omega⟩]
    exact minCell_le_right _ _

/-! ## `get_limiting_shape` -/

theorem bdGetLimitingShape_fst (up : Rat → ExtRat) (n csd : Nat) (cs : List LimCon) (x ls : BDS) :
    (bdGetLimitingShape up n csd cs x ls).1 = bdClosureAssign up n x := rfl

theorem bdGetLimitingShape_empty (up : Rat → ExtRat) (n csd : Nat) (cs : List LimCon) (x ls : BDS) :
    (bdGetLimitingShape up n csd cs x ls).2.empty = ls.empty := by
  unfold bdGetLimitingShape; simp only; split <;> rfl

theorem bdGetLimitingShape_dbm (up : Rat → ExtRat) (n csd : Nat) (cs : List LimCon) (x ls : BDS) :
    (bdGetLimitingShape up n csd cs x ls).2.dbm
      = (cs.foldl (bdLimitStep up csd (bdClosureAssign up n x).dbm) (ls.dbm, false)).1 := by
  unfold bdGetLimitingShape; simp only; split <;> rfl

/-- (L1) the limiting shape built from the universe dominates the closed receiver, cell by cell -/
theorem bdGetLimitingShape_dom (up : Rat → ExtRat) (n csd : Nat) (cs : List LimCon) (x : BDS) :
    ∀ a b, (bdClosureAssign up n x).dbm a b ≤ (bdGetLimitingShape up n csd cs x BDS.univ).2.dbm a b := by
  rw [bdGetLimitingShape_dbm]
  exact bdLimitFold_dom up csd _ cs _ (fun a b => le_pinf _)

/-- (L4, matrix level) the limiting shape keeps every selected inequality that the closed receiver satisfies -/
theorem bdGetLimitingShape_keeps (up : Rat → ExtRat) (n csd : Nat) (cs : List LimCon) (x ls : BDS)
    (c : LimCon) (hc : c ∈ cs) (hsel : bdLimSel csd c = true) (hineq : c.isEq = false)
    (hx : (bdClosureAssign up n x).dbm (bdLimCell csd c).1 (bdLimCell csd c).2 ≤ bdLimBound up csd c) :
    (bdGetLimitingShape up n csd cs x ls).2.dbm (bdLimCell csd c).1 (bdLimCell csd c).2 ≤ bdLimBound up csd c := by
  rw [bdGetLimitingShape_dbm]
  exact bdLimitFold_keeps_ineq up csd _ cs _ c hc hsel hineq hx

/-! ## the limited extrapolations, unfolded -/

theorem bdLimitedCC76_early (up : Rat → ExtRat) (n csd : Nat) (cs : List LimCon) (X Y : BDS) (tp : Option Nat)
    (h : n = 0 ∨ X.empty = true ∨ Y.empty = true) :
    (bdLimitedCC76 up n csd cs X Y tp).1 = X := by
  unfold bdLimitedCC76
  rcases h with h | h | h
  · simp [h]
  · split; rfl; simp
  · split; rfl; split; rfl; simp

theorem bdLimitedCC76_eq (up : Rat → ExtRat) (n csd : Nat) (cs : List LimCon) (X Y : BDS) (tp : Option Nat)
    (hn : n ≠ 0) (hx : X.empty = false) (hy : Y.empty = false) :
    (bdLimitedCC76 up n csd cs X Y tp).1 =
      bdIntersectionAssign n (bdCC76 up n defaultStops (bdClosureAssign up n X) Y tp).1
        (bdGetLimitingShape up n csd cs X BDS.univ).2 := by
  unfold bdLimitedCC76
  simp only [hn, hx, hy, if_false, Bool.false_eq_true]
  rfl

theorem bdLimitedBHMZ05_early (up : Rat → ExtRat) (n csd : Nat) (cs : List LimCon) (X Y : BDS) (tp : Option Nat)
    (h : n = 0 ∨ X.empty = true ∨ Y.empty = true) :
    ∃ r, bdLimitedBHMZ05 up n csd cs X Y tp = some r ∧ r.1 = X := by
  unfold bdLimitedBHMZ05
  rcases h with h | h | h
  · simp [h]
  · split; exact ⟨_, rfl, rfl⟩; simp
  · split; exact ⟨_, rfl, rfl⟩; split; exact ⟨_, rfl, rfl⟩; simp

theorem bdLimitedBHMZ05_eq (up : Rat → ExtRat) (n csd : Nat) (cs : List LimCon) (X Y : BDS) (tp : Option Nat)
    (hn : n ≠ 0) (hx : X.empty = false) (hy : Y.empty = false) (r : BDS × BDS × Option Nat × Mat)
    (hr : bdLimitedBHMZ05 up n csd cs X Y tp = some r) :
    ∃ P, bdBHMZ05 up n (bdClosureAssign up n X) Y tp = some P ∧
      r.1 = bdIntersectionAssign n P.1 (bdGetLimitingShape up n csd cs X BDS.univ).2 := by
  unfold bdLimitedBHMZ05 at hr
  simp only [hn, hx, hy, if_false, Bool.false_eq_true] at hr
  change Option.map _ (bdBHMZ05 up n (bdClosureAssign up n X) Y tp) = some r at hr
  cases hP : bdBHMZ05 up n (bdClosureAssign up n X) Y tp with
  | none => rw [hP] at hr; simp at hr
  | some P =>
    rw [hP] at hr
    simp only [Option.map_some] at hr
    injection hr with hr
    subst hr
    exact ⟨P, rfl, rfl⟩

end PPLV.Widen
