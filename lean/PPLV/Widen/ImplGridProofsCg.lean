import PPLV.Widen.ImplGrid
import PPLV.Lattice.ProofsRedCgTail
import Mathlib.Tactic.Ring
import Mathlib.Tactic.Linarith

/-!
# C08, stage 2 — the grid widenings, congruence path: row normalisation and `select_wider_congruences`

* `Congruence::normalize` / `strong_normalize` keep the meaning of a row (`rsem_normalizeCg`,
  `rsem_strongNormalizeCg`), its size and the sign of the modulus;
* every row `select_wider_congruences` selects is the strongly normalised copy of a row of `x`
  (`selectWiderCongruences_mem`);
* the grid built from the selected rows contains `x` (`cgw_result_contains`).
-/
namespace PPLV.Widen.ImplGrid
open PPLV.Lattice PPLV.Lattice.Red

/-! ### entries of mapped rows -/

theorem get_map0 (e : Row) (f : Int → Int) (hf : f 0 = 0) (i : Nat) : get (e.map f) i = f (get e i) := by
  unfold Red.get
  by_cases h : i < e.length
  · simp [h]
  · simp [h, hf]

theorem evalRow_map_neg (e : Row) (x : Pt) : evalRow (e.map (fun z => -z)) x = - evalRow e x := by
  have := evalRow_smul (e.map (fun z => -z)) e (-1) x (by simp) (fun i => by
    rw [get_map0 _ _ (by simp)]; ring)
  rw [this]; push_cast; ring

/-! ### `sign_normalize` -/

theorem signNormalize_cases (e : Row) : signNormalize e = e ∨ signNormalize e = e.map (fun z => -z) := by
  unfold signNormalize
  split
  · split
    · right; rfl
    · left; rfl
  · left; rfl

@[simp] theorem length_signNormalize (e : Row) : (signNormalize e).length = e.length := by
  rcases signNormalize_cases e with h | h <;> simp [h]

theorem rsem_signNormalize (e : Row) (m : Int) (x : Pt) :
    rsem { e := signNormalize e, m := m } x ↔ rsem { e := e, m := m } x := by
  rcases signNormalize_cases e with h | h
  · rw [h]
  · rw [h]
    exact rsem_neg { e := e, m := m } { e := e.map (fun z => -z), m := m } x (evalRow_map_neg e x) rfl

/-! ### `Congruence::normalize` -/

/-- replacing the inhomogeneous term shifts the value by the difference -/
theorem evalRow_set0 (e : Row) (c : Int) (x : Pt) (h : 0 < e.length) :
    evalRow (e.set 0 c) x = evalRow e x + ((c : ℚ) - (get e 0 : ℚ)) := by
  cases e with
  | nil => simp at h
  | cons a l =>
    rw [evalRow_eq, evalRow_eq]
    simp only [List.set_cons_zero, get_cons_zero, ratRow, List.map_cons, List.tail_cons]
    ring

/-- the inhomogeneous term changed by a multiple of the modulus -/
theorem rsem_set0 (e : Row) (m c q : Int) (x : Pt) (hc : c = get e 0 - q * m) :
    rsem { e := e.set 0 c, m := m } x ↔ rsem { e := e, m := m } x := by
  by_cases h : 0 < e.length
  · unfold rsem
    simp only
    rw [evalRow_set0 e c x h, hc]
    constructor
    · rintro ⟨t, ht⟩
      exact ⟨t + q, by push_cast at ht ⊢; linarith⟩
    · rintro ⟨t, ht⟩
      exact ⟨t - q, by push_cast; linarith⟩
  · have : e = [] := by
      cases e with
      | nil => rfl
      | cons a l => simp at h
    subst this
    simp

theorem normalizeCg_m (r : CRow) : (normalizeCg r).m = r.m := by
  unfold normalizeCg
  simp only
  split <;> rfl

@[simp] theorem length_normalizeCg (r : CRow) : (normalizeCg r).e.length = r.e.length := by
  unfold normalizeCg
  simp only
  split <;> simp

/-- `Congruence::normalize()` keeps the meaning of the row (any modulus) -/
theorem rsem_normalizeCg' (r : CRow) (x : Pt) : rsem (normalizeCg r) x ↔ rsem r x := by
  have hs := rsem_signNormalize r.e r.m x
  unfold normalizeCg
  simp only
  split
  · exact hs
  · refine Iff.trans ?_ hs
    have hdm := Int.mul_tdiv_add_tmod (get (signNormalize r.e) 0) r.m
    split
    · exact rsem_set0 _ _ _ ((get (signNormalize r.e) 0).tdiv r.m - 1) x (by linarith)
    · exact rsem_set0 _ _ _ ((get (signNormalize r.e) 0).tdiv r.m) x (by linarith)

set_option linter.unusedVariables false in
/-- `Congruence::normalize()` keeps the meaning of the row -/
theorem rsem_normalizeCg (r : CRow) (hm : 0 ≤ r.m) (x : Pt) : rsem (normalizeCg r) x ↔ rsem r x :=
  rsem_normalizeCg' r x

/-! ### `expr.gcd(...)` -/

theorem foldl_gcdI_dvd (e : Row) : ∀ g : Int, e.foldl (fun g z => gcdI g z) g ∣ g ∧
    ∀ z ∈ e, e.foldl (fun g z => gcdI g z) g ∣ z := by
  induction e with
  | nil => intro g; simp
  | cons a l ih =>
    intro g
    obtain ⟨h1, h2⟩ := ih (gcdI g a)
    simp only [List.foldl_cons, List.mem_cons]
    refine ⟨h1.trans (Int.gcd_dvd_left g a), ?_⟩
    rintro z (rfl | hz)
    · exact h1.trans (Int.gcd_dvd_right g z)
    · exact h2 z hz

theorem foldl_gcdI_nonneg (e : Row) : ∀ g : Int, 0 ≤ g → 0 ≤ e.foldl (fun g z => gcdI g z) g := by
  induction e with
  | nil => intro g hg; simpa using hg
  | cons a l ih =>
    intro g _
    simp only [List.foldl_cons]
    exact ih _ (Int.natCast_nonneg _)

theorem rowGcd_nonneg (e : Row) : 0 ≤ rowGcd e := foldl_gcdI_nonneg e 0 (le_refl _)

theorem rowGcd_dvd_get (e : Row) (i : Nat) : rowGcd e ∣ get e i := by
  by_cases h : i < e.length
  · have : get e i = e[i] := by simp [Red.get, h]
    rw [this]
    exact (foldl_gcdI_dvd e 0).2 _ (List.getElem_mem h)
  · rw [get_of_length_le e i (by omega)]; exact dvd_zero _

/-! ### `Congruence::strong_normalize` -/

/-- the divisor `strong_normalize` uses -/
def snDiv (r : CRow) : Int :=
  if rowGcd (normalizeCg r).e = 0 then (normalizeCg r).m else gcdI (normalizeCg r).m (rowGcd (normalizeCg r).e)

theorem strongNormalizeCg_eq (r : CRow) : strongNormalizeCg r =
    if snDiv r ≠ 0 ∧ snDiv r ≠ 1 then
      { e := (normalizeCg r).e.map (fun z => z / snDiv r), m := (normalizeCg r).m / snDiv r }
    else normalizeCg r := rfl

theorem snDiv_dvd_m (r : CRow) : snDiv r ∣ (normalizeCg r).m := by
  unfold snDiv
  split
  · exact dvd_refl _
  · exact Int.gcd_dvd_left _ _

theorem snDiv_dvd_get (r : CRow) (i : Nat) : snDiv r ∣ get (normalizeCg r).e i := by
  unfold snDiv
  split
  · rename_i h0
    have := rowGcd_dvd_get (normalizeCg r).e i
    rw [h0] at this
    rw [Int.zero_dvd.mp this]; exact dvd_zero _
  · exact (Int.gcd_dvd_right _ _).trans (rowGcd_dvd_get _ i)

theorem snDiv_nonneg (r : CRow) (hm : 0 ≤ r.m) : 0 ≤ snDiv r := by
  unfold snDiv
  split
  · rw [normalizeCg_m]; exact hm
  · exact Int.natCast_nonneg _

@[simp] theorem length_strongNormalizeCg (r : CRow) : (strongNormalizeCg r).e.length = r.e.length := by
  rw [strongNormalizeCg_eq]
  split <;> simp

theorem strongNormalizeCg_m_nonneg (r : CRow) (hm : 0 ≤ r.m) : 0 ≤ (strongNormalizeCg r).m := by
  rw [strongNormalizeCg_eq]
  split
  · exact Int.ediv_nonneg (by rw [normalizeCg_m]; exact hm) (snDiv_nonneg r hm)
  · rw [normalizeCg_m]; exact hm

/-- `Congruence::strong_normalize()` keeps the meaning of the row (any modulus) -/
theorem rsem_strongNormalizeCg' (r : CRow) (x : Pt) : rsem (strongNormalizeCg r) x ↔ rsem r x := by
  refine Iff.trans ?_ (rsem_normalizeCg' r x)
  rw [strongNormalizeCg_eq]
  split
  · rename_i hg
    symm
    apply rsem_scaled _ (normalizeCg r) (snDiv r) x hg.1
    · apply evalRow_smul _ _ (snDiv r) x (by simp)
      intro i
      rw [get_map0 _ _ (by simp)]
      exact (Int.mul_ediv_cancel' (snDiv_dvd_get r i)).symm
    · exact (Int.ediv_mul_cancel (snDiv_dvd_m r)).symm
  · rfl

set_option linter.unusedVariables false in
/-- `Congruence::strong_normalize()` keeps the meaning of the row -/
theorem rsem_strongNormalizeCg (r : CRow) (hm : 0 ≤ r.m) (x : Pt) : rsem (strongNormalizeCg r) x ↔ rsem r x :=
  rsem_strongNormalizeCg' r x

example : strongNormalizeCg ⟨[7, -2, 4], 6⟩ = ⟨[5, 2, -4], 6⟩ := by decide
example : strongNormalizeCg ⟨[-6, 0, -4], 8⟩ = ⟨[3, 0, 2], 4⟩ := by decide
example : strongNormalizeCg ⟨[-6, 0, -4], 0⟩ = ⟨[3, 0, 2], 0⟩ := by decide

/-! ### `Grid::select_wider_congruences` -/

theorem selectWiderCongruencesLoop_mem (xs : List CRow) (xdk : List Nat) (ys : List CRow) (ydk : List Nat) :
    ∀ (dim xRow yRow : Nat) (sel : List CRow),
      ∀ r ∈ selectWiderCongruencesLoop xs xdk ys ydk dim xRow yRow sel,
        r ∈ sel ∨ ∃ i, r = strongNormalizeCg (rowAt xs i) := by
  intro dim
  induction dim with
  | zero => intro xRow yRow sel r hr; left; simpa [selectWiderCongruencesLoop] using hr
  | succ dim ih =>
    intro xRow yRow sel r hr
    unfold selectWiderCongruencesLoop at hr
    split at hr
    · simp only at hr
      rcases ih _ _ _ r hr with h | h
      · split at h
        · rcases List.mem_append.mp h with h | h
          · left; exact h
          · right; exact ⟨xRow, by simpa using h⟩
        · left; exact h
      · right; exact h
    · split at hr
      · rcases ih _ _ _ r hr with h | h
        · rcases List.mem_append.mp h with h | h
          · left; exact h
          · right; exact ⟨xRow, by simpa using h⟩
        · right; exact h
      · split at hr
        · exact ih _ _ _ r hr
        · exact ih _ _ _ r hr

/-- every selected row is the strongly normalised copy of a row of `x` -/
theorem selectWiderCongruences_mem (n : Nat) (xs : List CRow) (xdk : List Nat) (ys : List CRow) (ydk : List Nat) :
    ∀ r ∈ selectWiderCongruences n xs xdk ys ydk, ∃ i, r = strongNormalizeCg (rowAt xs i) := by
  intro r hr
  rcases selectWiderCongruencesLoop_mem xs xdk ys ydk n 0 0 [] r hr with h | h
  · simp at h
  · exact h

theorem rowAt_default_of_le {R : Type} [Inhabited R] (rows : List R) (i : Nat) (h : rows.length ≤ i) :
    rowAt rows i = default := by
  simp [rowAt, List.getElem?_eq_none h]

/-- … of a member of `xs`, or of the row `0 = 0` an out-of-range read gives -/
theorem selectWiderCongruences_mem' (n : Nat) (xs : List CRow) (xdk : List Nat) (ys : List CRow) (ydk : List Nat) :
    ∀ r ∈ selectWiderCongruences n xs xdk ys ydk,
      (∃ r0 ∈ xs, r = strongNormalizeCg r0) ∨ r = strongNormalizeCg (default : CRow) := by
  intro r hr
  obtain ⟨i, rfl⟩ := selectWiderCongruences_mem n xs xdk ys ydk r hr
  by_cases h : i < xs.length
  · left; exact ⟨_, rowAt_mem xs i h, rfl⟩
  · right; rw [rowAt_default_of_le xs i (by omega)]

theorem rsem_default (x : Pt) : rsem (default : CRow) x :=
  rsem_zero_row _ x (fun j => by show get ([] : Row) j = 0; simp [Red.get])

/-- every selected row holds wherever `x` holds -/
theorem selectWiderCongruences_rsem (n : Nat) (xs : List CRow) (xdk : List Nat) (ys : List CRow) (ydk : List Nat)
    (p : Pt) (h : Sol xs p) : ∀ r ∈ selectWiderCongruences n xs xdk ys ydk, rsem r p := by
  intro r hr
  rcases selectWiderCongruences_mem' n xs xdk ys ydk r hr with ⟨r0, hr0, rfl⟩ | rfl
  · exact (rsem_strongNormalizeCg' r0 p).mpr ((Sol_iff_mem xs p).mp h r0 hr0)
  · exact (rsem_strongNormalizeCg' _ p).mpr (rsem_default p)

/-- the selected rows have the size and modulus sign of the rows of `x` -/
theorem selectWiderCongruences_cwf (n : Nat) (xs : List CRow) (xdk : List Nat) (ys : List CRow) (ydk : List Nat)
    (hwf : CWf n xs) : ∀ r ∈ selectWiderCongruences n xs xdk ys ydk,
      (r.e.length = n + 1 ∨ r.e.length = 0) ∧ 0 ≤ r.m := by
  intro r hr
  rcases selectWiderCongruences_mem' n xs xdk ys ydk r hr with ⟨r0, hr0, rfl⟩ | rfl
  · exact ⟨Or.inl (by rw [length_strongNormalizeCg]; exact (hwf r0 hr0).1),
      strongNormalizeCg_m_nonneg r0 (hwf r0 hr0).2⟩
  · exact ⟨Or.inr (by rw [length_strongNormalizeCg]; rfl), strongNormalizeCg_m_nonneg _ (le_refl _)⟩

/-! ### the widened grid contains `x` -/

theorem addRecycledCongruences_universe_con (n : Nat) (cgs : List CRow) :
    ((universeGrid n).addRecycledCongruences cgs).con = integralityRow n 1 :: cgs := by
  unfold GridM.addRecycledCongruences
  cases cgs with
  | nil => simp [universeGrid]
  | cons a l => simp [universeGrid]

set_option linter.unusedVariables false in
/-- `result`, the universe with the selected congruences added, contains `x` -/
theorem cgw_result_contains (n : Nat) (xs : List CRow) (xdk : List Nat) (ys : List CRow) (ydk : List Nat)
    (hwf : CWf n xs) (p : Pt) (h : cgsSem n xs p) :
    cgsSem n ((universeGrid n).addRecycledCongruences (selectWiderCongruences n xs xdk ys ydk)).con p := by
  rw [addRecycledCongruences_universe_con, cgsSem_iff]
  obtain ⟨hs, hsol⟩ := (cgsSem_iff n xs p).mp h
  refine ⟨hs, (Sol_iff_mem _ p).mpr ?_⟩
  intro r hr
  rcases List.mem_cons.mp hr with rfl | hr
  · exact rsem_integralityRow n 1 p
  · exact selectWiderCongruences_rsem n xs xdk ys ydk p hsol r hr

example : selectWiderCongruences 2 [⟨[0, 0, 1], 3⟩, ⟨[0, 2, 0], 4⟩, ⟨[1, 0, 0], 1⟩] [0, 0, 0]
    [⟨[0, 0, 1], 3⟩, ⟨[0, 1, 0], 4⟩, ⟨[1, 0, 0], 1⟩] [0, 0, 0] = [⟨[0, 0, 1], 3⟩] := by decide

end PPLV.Widen.ImplGrid
