import PPLV.Widen.ImplH79ProofsEngineFacet0
import Mathlib.Tactic.Ring
import Mathlib.Tactic.Linarith
import Mathlib.Algebra.Order.Group.Abs

/-!
# C08 stage 2b — integer vectors of the homogeneous space: `sp` is linear, the cone is a cone,
interior vectors, absorption (`N·u + v` is in the cone for `N` large)
-/
namespace PPLV.Widen.Impl

theorem sp_nilL (a : Vec) : sp [] a = 0 := by cases a <;> rfl
theorem sp_nilR (a : Vec) : sp a [] = 0 := by cases a <;> rfl

theorem length_zadd (a b : Vec) (h : a.length = b.length) : (zadd a b).length = a.length := by
  simp [zadd, h]

theorem length_zsmul (k : Int) (a : Vec) : (zsmul k a).length = a.length := by simp [zsmul]

theorem sp_zadd : ∀ (c a b : Vec), a.length = b.length → sp c (zadd a b) = sp c a + sp c b
  | [], a, b, _ => by simp [sp_nilL]
  | c :: cs, [], [], _ => by simp [sp_nilR, zadd]
  | c :: cs, [], b :: bs, h => by simp at h
  | c :: cs, a :: as, [], h => by simp at h
  | c :: cs, a :: as, b :: bs, h => by
    have ih := sp_zadd cs as bs (by simpa using h)
    simp only [zadd, List.zipWith_cons_cons, sp] at ih ⊢
    rw [ih]; ring

theorem sp_zsmul : ∀ (c : Vec) (k : Int) (a : Vec), sp c (zsmul k a) = k * sp c a
  | [], k, a => by simp [sp_nilL]
  | c :: cs, k, [] => by simp [sp_nilR, zsmul]
  | c :: cs, k, a :: as => by
    have ih := sp_zsmul cs k as
    simp only [zsmul, List.map_cons, sp] at ih ⊢
    rw [ih]; ring

/-- the equalities vanish at `v` -/
def InE (n : Nat) (y : YMin) (v : Vec) : Prop :=
  v.length = n + 1 ∧ ∀ c ∈ y.conSys, c.eq = true → sp c.e v = 0

theorem InK.nonneg {n : Nat} {y : YMin} {v : Vec} (hv : InK n y v) {c : CRow} (hc : c ∈ y.conSys)
    (he : c.eq = false) : 0 ≤ sp c.e v := by
  have := hv.2 c hc
  unfold CRow.holdsZ at this
  simpa [he] using this

theorem InK.eqz {n : Nat} {y : YMin} {v : Vec} (hv : InK n y v) {c : CRow} (hc : c ∈ y.conSys)
    (he : c.eq = true) : sp c.e v = 0 := by
  have := hv.2 c hc
  unfold CRow.holdsZ at this
  simpa [he] using this

theorem InK.inE {n : Nat} {y : YMin} {v : Vec} (hv : InK n y v) : InE n y v :=
  ⟨hv.1, fun _ hc he => hv.eqz hc he⟩

theorem InE.zadd {n : Nat} {y : YMin} {a b : Vec} (ha : InE n y a) (hb : InE n y b) :
    InE n y (zadd a b) := by
  have hl : a.length = b.length := by rw [ha.1, hb.1]
  refine ⟨by rw [length_zadd _ _ hl, ha.1], fun c hc he => ?_⟩
  rw [sp_zadd _ _ _ hl, ha.2 c hc he, hb.2 c hc he]; rfl

theorem InE.zsmul {n : Nat} {y : YMin} {a : Vec} (k : Int) (ha : InE n y a) :
    InE n y (zsmul k a) := by
  refine ⟨by rw [length_zsmul, ha.1], fun c hc he => ?_⟩
  rw [sp_zsmul, ha.2 c hc he]; ring

theorem InK.zadd {n : Nat} {y : YMin} {a b : Vec} (ha : InK n y a) (hb : InK n y b) :
    InK n y (zadd a b) := by
  have hl : a.length = b.length := by rw [ha.1, hb.1]
  refine ⟨by rw [length_zadd _ _ hl, ha.1], fun c hc => ?_⟩
  unfold CRow.holdsZ
  rw [sp_zadd _ _ _ hl]
  cases he : c.eq
  · have h1 := ha.nonneg hc he
    have h2 := hb.nonneg hc he
    simp only [Bool.false_eq_true, if_false]
    linarith
  · have h1 := ha.eqz hc he
    have h2 := hb.eqz hc he
    simp only [if_true]
    rw [h1, h2]; rfl

theorem InK.zsmul {n : Nat} {y : YMin} {a : Vec} (k : Int) (hk : 0 ≤ k) (ha : InK n y a) :
    InK n y (zsmul k a) := by
  refine ⟨by rw [length_zsmul, ha.1], fun c hc => ?_⟩
  unfold CRow.holdsZ
  rw [sp_zsmul]
  cases he : c.eq
  · have h1 := ha.nonneg hc he
    simp only [Bool.false_eq_true, if_false]
    exact mul_nonneg hk h1
  · have h1 := ha.eqz hc he
    simp only [if_true]
    rw [h1]; ring

/-- every generator is in the cone -/
theorem gen_inK {n : Nat} {y : YMin} (hy : EngineDD n y) {g : GRow} (hg : g ∈ y.genSys) :
    InK n y g.e := by
  refine ⟨hy.gwf g hg, fun c hc => ?_⟩
  have := hy.gens_in g hg c hc
  unfold CRow.holdsZ
  cases he : c.eq <;> cases hl : g.line <;> simp [he, hl] at this ⊢ <;> omega

/-- lines: also the opposite vector is in the cone -/
theorem line_neg_inK {n : Nat} {y : YMin} (hy : EngineDD n y) {g : GRow} (hg : g ∈ y.genSys)
    (hl : g.line = true) (k : Int) : InK n y (zsmul k g.e) := by
  refine ⟨by rw [length_zsmul, hy.gwf g hg], fun c hc => ?_⟩
  have := hy.gens_in g hg c hc
  simp only [hl, Bool.or_true, if_true] at this
  unfold CRow.holdsZ
  rw [sp_zsmul, this]
  split_ifs <;> simp

theorem exists_interior_aux {n : Nat} {y : YMin} (hy : EngineDD n y) :
    ∀ L : List CRow, (∀ c ∈ L, c ∈ y.conSys) →
      ∃ z, InK n y z ∧ ∀ c ∈ L, c.eq = false → 0 < sp c.e z
  | [], _ => by
    obtain ⟨g, hg, _, _⟩ := hy.hasPoint
    refine ⟨zsmul 0 g.e, (gen_inK hy hg).zsmul 0 (le_refl _), ?_⟩
    intro c hc; simp at hc
  | c :: L, hL => by
    obtain ⟨z', hz', hpos⟩ := exists_interior_aux hy L (fun c' hc' => hL c' (List.mem_cons_of_mem _ hc'))
    have hcm : c ∈ y.conSys := hL c List.mem_cons_self
    cases he : c.eq
    · obtain ⟨g, hg, hgpos⟩ := hy.proper c hcm he
      have hgK := gen_inK hy hg
      have hl : z'.length = g.e.length := by rw [hz'.1, hgK.1]
      refine ⟨zadd z' g.e, hz'.zadd hgK, ?_⟩
      intro c' hc' he'
      rw [sp_zadd _ _ _ hl]
      rcases List.mem_cons.mp hc' with rfl | hc''
      · have := hz'.nonneg hcm he
        linarith
      · have h1 := hpos c' hc'' he'
        have h2 := hgK.nonneg (hL c' hc') he'
        linarith
    · refine ⟨z', hz', ?_⟩
      intro c' hc' he'
      rcases List.mem_cons.mp hc' with rfl | hc''
      · rw [he] at he'; cases he'
      · exact hpos c' hc'' he'

/-- an interior vector of the cone: all inequalities strictly positive -/
theorem exists_interior {n : Nat} {y : YMin} (hy : EngineDD n y) :
    ∃ z, InK n y z ∧ ∀ c ∈ y.conSys, c.eq = false → 0 < sp c.e z :=
  exists_interior_aux hy y.conSys (fun _ h => h)

theorem absorb_aux {n : Nat} {y : YMin} (u v : Vec) (hu : InK n y u) (hv : InE n y v) :
    ∀ L : List CRow, (∀ c ∈ L, c ∈ y.conSys) →
      (∀ c ∈ L, c.eq = false → 0 < sp c.e u ∨ 0 ≤ sp c.e v) →
      ∃ N : Int, 0 ≤ N ∧ ∀ M, N ≤ M → ∀ c ∈ L, c.holdsZ (zadd (zsmul M u) v)
  | [], _, _ => ⟨0, le_refl _, fun _ _ c hc => by simp at hc⟩
  | c :: L, hL, hcond => by
    obtain ⟨N', hN', hall⟩ := absorb_aux u v hu hv L
      (fun c' hc' => hL c' (List.mem_cons_of_mem _ hc'))
      (fun c' hc' => hcond c' (List.mem_cons_of_mem _ hc'))
    have hcm : c ∈ y.conSys := hL c List.mem_cons_self
    refine ⟨N' + |sp c.e v|, by have := abs_nonneg (sp c.e v); linarith, ?_⟩
    intro M hM c' hc'
    have habs := abs_nonneg (sp c.e v)
    rcases List.mem_cons.mp hc' with rfl | hc''
    · have hl : (zsmul M u).length = v.length := by rw [length_zsmul, hu.1, hv.1]
      unfold CRow.holdsZ
      rw [sp_zadd _ _ _ hl, sp_zsmul]
      cases he : c'.eq
      · simp only [Bool.false_eq_true, if_false]
        have hM0 : 0 ≤ M := by linarith
        rcases hcond c' List.mem_cons_self he with h | h
        · have h1 : M ≤ M * sp c'.e u := by nlinarith
          have h2 := neg_abs_le (sp c'.e v)
          linarith
        · have h1 := mul_nonneg hM0 (hu.nonneg hcm he)
          linarith
      · simp only [if_true]
        rw [hu.eqz hcm he, hv.2 c' hcm he]; ring
    · exact hall M (by linarith) c' hc''

/-- absorption: `N·u + v` is in the cone for some `N ≥ 0` when `u` is in the cone, the equalities
    vanish at `v`, and every inequality is strict at `u` or holds at `v` -/
theorem absorb {n : Nat} {y : YMin} (u v : Vec) (hu : InK n y u) (hv : InE n y v)
    (hcond : ∀ c ∈ y.conSys, c.eq = false → 0 < sp c.e u ∨ 0 ≤ sp c.e v) :
    ∃ N : Int, 0 ≤ N ∧ InK n y (zadd (zsmul N u) v) := by
  obtain ⟨N, hN, hall⟩ := absorb_aux u v hu hv y.conSys (fun _ h => h) hcond
  refine ⟨N, hN, ?_, hall N (le_refl _)⟩
  rw [length_zadd _ _ (by rw [length_zsmul, hu.1, hv.1]), length_zsmul, hu.1]

end PPLV.Widen.Impl
