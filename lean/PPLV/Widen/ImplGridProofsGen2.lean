import PPLV.Widen.ImplGridProofsGen
import PPLV.Lattice.ProofsRedGenBase

/-!
# C08, stage 2 — `Grid::select_wider_generators`: structure of the selection and the counting behind the certificate

* `selectWiderGenerators_spec`: the selection emits one row per non-virtual dimension of `x`; the `i`-th emitted row
  is the `i`-th row of `x` or `grid_line` of it;
* `numLines_le_of_rel`, `numParameters_le_of_rel`, `numParameters_lt_of_rel`: turning rows into lines can only raise
  the number of lines and lower the number of parameters.
-/
namespace PPLV.Widen.ImplGrid
open PPLV.Lattice PPLV.Lattice.Red

/-! ### rows of a list -/

theorem rowAt_cons_zero {R : Type} [Inhabited R] (a : R) (l : List R) : rowAt (a :: l) 0 = a := by
  simp [rowAt]

theorem rowAt_cons_succ {R : Type} [Inhabited R] (a : R) (l : List R) (i : Nat) :
    rowAt (a :: l) (i + 1) = rowAt l i := by
  simp [rowAt]

/-! ### the number of rows the selection emits -/

/-- number of non-virtual dimensions (`PARAMETER` or `LINE`) among `dim, …, dim + fuel - 1` -/
def selCount (xdk : List Nat) : Nat → Nat → Nat
  | 0, _ => 0
  | fuel + 1, dim =>
    (if kind xdk dim = PARAMETER ∨ kind xdk dim = LINE then 1 else 0) + selCount xdk fuel (dim + 1)

theorem selCount_eq_filter (xdk : List Nat) : ∀ fuel dim : Nat, selCount xdk fuel dim =
    ((List.range fuel).filter fun j => kind xdk (dim + j) == PARAMETER || kind xdk (dim + j) == LINE).length := by
  intro fuel
  induction fuel with
  | zero => intro dim; simp [selCount]
  | succ fuel ih =>
    intro dim
    rw [selCount, ih, List.range_succ_eq_map, List.filter_cons, List.filter_map]
    have e : ((fun j => kind xdk (dim + j) == PARAMETER || kind xdk (dim + j) == LINE) ∘ Nat.succ)
        = fun j => kind xdk (dim + 1 + j) == PARAMETER || kind xdk (dim + 1 + j) == LINE := by
      funext j
      simp only [Function.comp, Nat.succ_eq_add_one]
      rw [show dim + (j + 1) = dim + 1 + j by omega]
    rw [e]
    by_cases h : kind xdk dim = PARAMETER ∨ kind xdk dim = LINE
    · have : (kind xdk (dim + 0) == PARAMETER || kind xdk (dim + 0) == LINE) = true := by
        simpa using h
      rw [if_pos h, if_pos this]; simp [Nat.add_comm]
    · have : ¬ (kind xdk (dim + 0) == PARAMETER || kind xdk (dim + 0) == LINE) = true := by
        simpa using h
      rw [if_neg h, if_neg this]; simp

/-- the number of `d ≤ n` with `dim_kinds[d]` a parameter or a line -/
def numNonVirtual (n : Nat) (xdk : List Nat) : Nat :=
  ((List.range (n + 1)).filter fun d => kind xdk d == PARAMETER || kind xdk d == LINE).length

theorem selCount_zero (n : Nat) (xdk : List Nat) : selCount xdk (n + 1) 0 = numNonVirtual n xdk := by
  rw [selCount_eq_filter]
  unfold numNonVirtual
  simp

/-! ### `Grid::select_wider_generators` -/

/-- the loop appends one row per non-virtual dimension left; the `i`-th appended row is row `xRow + i` of `x`
    or `grid_line` of it -/
theorem selectWiderGeneratorsLoop_spec (xs : List GRow) (xdk : List Nat) (ys : List GRow) (ydk : List Nat) :
    ∀ (fuel dim xRow yRow : Nat) (w : List GRow),
      ∃ ext, selectWiderGeneratorsLoop xs xdk ys ydk fuel dim xRow yRow w = w ++ ext ∧
        ext.length = selCount xdk fuel dim ∧
        ∀ i, i < ext.length →
          rowAt ext i = rowAt xs (xRow + i) ∨ rowAt ext i = gridLine (rowAt xs (xRow + i)) := by
  intro fuel
  induction fuel with
  | zero =>
    intro dim xRow yRow w
    exact ⟨[], by simp [selectWiderGeneratorsLoop], by simp [selCount], by simp⟩
  | succ fuel ih =>
    intro dim xRow yRow w
    have key : ∀ r' : GRow, (r' = rowAt xs xRow ∨ r' = gridLine (rowAt xs xRow)) →
        (kind xdk dim = PARAMETER ∨ kind xdk dim = LINE) →
        ∃ ext, selectWiderGeneratorsLoop xs xdk ys ydk fuel (dim + 1) (xRow + 1) (yRow + 1) (w ++ [r']) = w ++ ext ∧
          ext.length = selCount xdk (fuel + 1) dim ∧
          ∀ i, i < ext.length →
            rowAt ext i = rowAt xs (xRow + i) ∨ rowAt ext i = gridLine (rowAt xs (xRow + i)) := by
      intro r' hr' hkd
      obtain ⟨ext, h1, h2, h3⟩ := ih (dim + 1) (xRow + 1) (yRow + 1) (w ++ [r'])
      refine ⟨r' :: ext, by rw [h1]; simp, by rw [selCount, if_pos hkd, List.length_cons, h2]; omega, ?_⟩
      intro i hi
      cases i with
      | zero => rw [rowAt_cons_zero]; exact hr'
      | succ i =>
        rw [rowAt_cons_succ, show xRow + (i + 1) = xRow + 1 + i by omega]
        exact h3 i (by simpa using hi)
    have skip : ¬ (kind xdk dim = PARAMETER ∨ kind xdk dim = LINE) → ∀ yRow' : Nat,
        ∃ ext, selectWiderGeneratorsLoop xs xdk ys ydk fuel (dim + 1) xRow yRow' w = w ++ ext ∧
          ext.length = selCount xdk (fuel + 1) dim ∧
          ∀ i, i < ext.length →
            rowAt ext i = rowAt xs (xRow + i) ∨ rowAt ext i = gridLine (rowAt xs (xRow + i)) := by
      intro hkd yRow'
      obtain ⟨ext, h1, h2, h3⟩ := ih (dim + 1) xRow yRow' w
      exact ⟨ext, h1, by rw [selCount, if_neg hkd, h2]; omega, h3⟩
    unfold selectWiderGeneratorsLoop
    split
    · rename_i hk
      simp only
      by_cases hc : genIsEqualAtDimension (rowAt xs xRow) dim (rowAt ys yRow) = true
      · rw [if_pos hc]; exact key _ (Or.inl rfl) (Or.inl hk)
      · rw [if_neg hc]; exact key _ (Or.inr rfl) (Or.inl hk)
    · rename_i hk
      split
      · rename_i hl
        exact key _ (Or.inl rfl) (Or.inr hl)
      · rename_i hl
        split
        · exact skip (by rintro (h | h) <;> contradiction) _
        · exact skip (by rintro (h | h) <;> contradiction) _

/-- (1) `select_wider_generators` emits one row per non-virtual dimension of `x`, in the order of the rows of `x`:
    the `i`-th emitted row is the `i`-th row of `x`, or `grid_line` of it -/
theorem selectWiderGenerators_spec (n : Nat) (xs : List GRow) (xdk : List Nat) (ys : List GRow) (ydk : List Nat) :
    (selectWiderGenerators n xs xdk ys ydk).length = numNonVirtual n xdk ∧
    ∀ i, i < numNonVirtual n xdk →
      rowAt (selectWiderGenerators n xs xdk ys ydk) i = rowAt xs i ∨
      rowAt (selectWiderGenerators n xs xdk ys ydk) i = gridLine (rowAt xs i) := by
  obtain ⟨ext, h1, h2, h3⟩ := selectWiderGeneratorsLoop_spec xs xdk ys ydk (n + 1) 0 0 0 []
  have e : selectWiderGenerators n xs xdk ys ydk = ext := by
    unfold selectWiderGenerators; rw [h1]; simp
  rw [e, h2, selCount_zero]
  refine ⟨rfl, fun i hi => ?_⟩
  have := h3 i (by rw [h2, selCount_zero]; exact hi)
  simpa using this

/-- the membership form: every emitted row is a row of `x` (or the default row of an out-of-range read) or
    `grid_line` of one -/
theorem selectWiderGenerators_mem (n : Nat) (xs : List GRow) (xdk : List Nat) (ys : List GRow) (ydk : List Nat) :
    ∀ r ∈ selectWiderGenerators n xs xdk ys ydk, ∃ i, r = rowAt xs i ∨ r = gridLine (rowAt xs i) := by
  intro r hr
  obtain ⟨hlen, hrows⟩ := selectWiderGenerators_spec n xs xdk ys ydk
  obtain ⟨i, hi, rfl⟩ := (mem_iff_rowAt _ r).mp hr
  exact ⟨i, hrows i (by rw [← hlen]; exact hi)⟩

/-- the first iteration when dimension `dim` is a parameter of `x` that agrees with `y`: the row is emitted unchanged -/
theorem selectWiderGeneratorsLoop_head (xs : List GRow) (xdk : List Nat) (ys : List GRow) (ydk : List Nat)
    (fuel dim xRow yRow : Nat) (w : List GRow) (hk : kind xdk dim = PARAMETER)
    (he : genIsEqualAtDimension (rowAt xs xRow) dim (rowAt ys yRow) = true) :
    selectWiderGeneratorsLoop xs xdk ys ydk (fuel + 1) dim xRow yRow w =
      selectWiderGeneratorsLoop xs xdk ys ydk fuel (dim + 1) (xRow + 1) (yRow + 1) (w ++ [rowAt xs xRow]) := by
  rw [selectWiderGeneratorsLoop]
  simp only [hk, if_true, he]

/-- two points (non-zero inhomogeneous terms) always agree at dimension 0: `x₀·y₀ = y₀·x₀` -/
theorem genIsEqualAtDimension_points (x y : GRow) (hx : get x.e 0 ≠ 0) (hy : get y.e 0 ≠ 0) :
    genIsEqualAtDimension x 0 y = true := by
  have h1 : x.isLineOrParameter = false := by simp [GRow.isLineOrParameter, hx]
  have h2 : y.isLineOrParameter = false := by simp [GRow.isLineOrParameter, hy]
  unfold genIsEqualAtDimension GRow.divisor
  rw [h1, h2]
  simp [Int.mul_comm]

/-- the point row of `x` (row 0, at the parameter dimension 0) is emitted unchanged when row 0 of `y` is a point -/
theorem selectWiderGenerators_row0 (n : Nat) (xs : List GRow) (xdk : List Nat) (ys : List GRow) (ydk : List Nat)
    (hk : kind xdk 0 = PARAMETER) (he : genIsEqualAtDimension (rowAt xs 0) 0 (rowAt ys 0) = true) :
    rowAt (selectWiderGenerators n xs xdk ys ydk) 0 = rowAt xs 0 := by
  unfold selectWiderGenerators
  rw [selectWiderGeneratorsLoop_head xs xdk ys ydk n 0 0 0 [] hk he]
  obtain ⟨ext, h1, _, _⟩ := selectWiderGeneratorsLoop_spec xs xdk ys ydk n 1 1 1 ([] ++ [rowAt xs 0])
  rw [h1]
  simp [rowAt]

example : selectWiderGenerators 2
    [⟨false, [1, 0, 0, 0]⟩, ⟨false, [0, 2, 1, 1]⟩, ⟨true, [0, 0, 1, 0]⟩] [0, 0, 1]
    [⟨false, [1, 0, 0, 0]⟩, ⟨false, [0, 4, 0, 1]⟩, ⟨false, [0, 0, 3, 1]⟩] [0, 0, 0]
    = [⟨false, [1, 0, 0, 0]⟩, ⟨true, [0, 2, 1, 0]⟩, ⟨true, [0, 0, 1, 0]⟩] := by decide
example : numNonVirtual 2 [0, 0, 1] = 3 := by decide
example : numNonVirtual 2 [0, 2, 1] = 2 := by decide

/-! ### counting: lines and parameters -/

theorem gridLine_line (r : GRow) : (gridLine r).line = true := rfl

theorem gridLine_isLine (r : GRow) : (gridLine r).isLine = true := rfl

/-- the relation between a row of `x` and the row `select_wider_generators` emits for it -/
def SelRel (a b : GRow) : Prop := b = a ∨ b = gridLine a

theorem forall₂_of_rowAt (R : GRow → GRow → Prop) : ∀ (xs out : List GRow), out.length = xs.length →
    (∀ i, i < xs.length → R (rowAt xs i) (rowAt out i)) → List.Forall₂ R xs out := by
  intro xs
  induction xs with
  | nil =>
    intro out hlen _
    have : out = [] := List.length_eq_zero_iff.mp (by simpa using hlen)
    subst this; exact List.Forall₂.nil
  | cons a l ih =>
    intro out hlen h
    cases out with
    | nil => simp at hlen
    | cons b m =>
      refine List.Forall₂.cons ?_ (ih m (by simpa using hlen) fun i hi => ?_)
      · have := h 0 (by simp)
        rwa [rowAt_cons_zero, rowAt_cons_zero] at this
      · have := h (i + 1) (by simpa using hi)
        rwa [rowAt_cons_succ, rowAt_cons_succ] at this

theorem selRel_of_rowAt (xs out : List GRow) (hlen : out.length = xs.length)
    (h : ∀ i, i < xs.length → rowAt out i = rowAt xs i ∨ rowAt out i = gridLine (rowAt xs i)) :
    List.Forall₂ SelRel xs out := forall₂_of_rowAt SelRel xs out hlen h

theorem numLines_cons (a : GRow) (l : List GRow) :
    numLines (a :: l) = (if a.isLine = true then 1 else 0) + numLines l := by
  unfold numLines
  cases h : a.isLine <;> simp only [List.filter_cons, h] <;> simp [Nat.add_comm]

theorem numParameters_cons (a : GRow) (l : List GRow) :
    numParameters (a :: l) = (if (!a.isLine && a.isLineOrParameter) = true then 1 else 0) + numParameters l := by
  unfold numParameters
  cases h : (!a.isLine && a.isLineOrParameter) <;> simp only [List.filter_cons, h] <;> simp [Nat.add_comm]

/-- turning rows into lines: at least as many lines, at most as many parameters -/
theorem counts_of_selRel {xs out : List GRow} (h : List.Forall₂ SelRel xs out) :
    numLines xs ≤ numLines out ∧ numParameters out ≤ numParameters xs := by
  induction h with
  | nil => simp [numLines, numParameters]
  | @cons a b l m hab _ ih =>
    obtain ⟨ih1, ih2⟩ := ih
    rw [numLines_cons, numLines_cons, numParameters_cons, numParameters_cons]
    rcases hab with rfl | rfl
    · exact ⟨by omega, by omega⟩
    · rw [gridLine_isLine]
      simp only [Bool.not_true, Bool.false_and, if_true, Bool.false_eq_true, if_false]
      constructor
      · split <;> omega
      · split <;> omega

/-- (2) the number of lines does not decrease -/
theorem numLines_le_of_rel (xs out : List GRow) (hlen : out.length = xs.length)
    (h : ∀ i, i < xs.length → rowAt out i = rowAt xs i ∨ rowAt out i = gridLine (rowAt xs i)) :
    numLines xs ≤ numLines out := (counts_of_selRel (selRel_of_rowAt xs out hlen h)).1

/-- (2) the number of parameters does not increase -/
theorem numParameters_le_of_rel (xs out : List GRow) (hlen : out.length = xs.length)
    (h : ∀ i, i < xs.length → rowAt out i = rowAt xs i ∨ rowAt out i = gridLine (rowAt xs i)) :
    numParameters out ≤ numParameters xs := (counts_of_selRel (selRel_of_rowAt xs out hlen h)).2

/-- (2) … and when it differs it is strictly smaller (what `Grid_Certificate` compares after the equalities) -/
theorem numParameters_lt_of_rel (xs out : List GRow) (hlen : out.length = xs.length)
    (h : ∀ i, i < xs.length → rowAt out i = rowAt xs i ∨ rowAt out i = gridLine (rowAt xs i))
    (hne : numParameters out ≠ numParameters xs) : numParameters out < numParameters xs := by
  have := numParameters_le_of_rel xs out hlen h
  omega

/-- the counting for `select_wider_generators` when `dim_kinds` of `x` names as many non-virtual dimensions as
    `x` has rows -/
theorem selectWiderGenerators_counts (n : Nat) (xs : List GRow) (xdk : List Nat) (ys : List GRow) (ydk : List Nat)
    (hk : numNonVirtual n xdk = xs.length) :
    (selectWiderGenerators n xs xdk ys ydk).length = xs.length ∧
    numLines xs ≤ numLines (selectWiderGenerators n xs xdk ys ydk) ∧
    numParameters (selectWiderGenerators n xs xdk ys ydk) ≤ numParameters xs ∧
    (numParameters (selectWiderGenerators n xs xdk ys ydk) ≠ numParameters xs →
      numParameters (selectWiderGenerators n xs xdk ys ydk) < numParameters xs) := by
  obtain ⟨hlen, hrows⟩ := selectWiderGenerators_spec n xs xdk ys ydk
  rw [hk] at hlen hrows
  exact ⟨hlen, numLines_le_of_rel _ _ hlen hrows, numParameters_le_of_rel _ _ hlen hrows,
    numParameters_lt_of_rel _ _ hlen hrows⟩

example : numLines [⟨false, [1, 0, 0, 0]⟩, ⟨false, [0, 2, 1, 1]⟩, ⟨true, [0, 0, 1, 0]⟩] = 1 ∧
    numLines [⟨false, [1, 0, 0, 0]⟩, ⟨true, [0, 2, 1, 0]⟩, ⟨true, [0, 0, 1, 0]⟩] = 2 ∧
    numParameters [⟨false, [1, 0, 0, 0]⟩, ⟨false, [0, 2, 1, 1]⟩, ⟨true, [0, 0, 1, 0]⟩] = 1 ∧
    numParameters [⟨false, [1, 0, 0, 0]⟩, ⟨true, [0, 2, 1, 0]⟩, ⟨true, [0, 0, 1, 0]⟩] = 0 := by decide

end PPLV.Widen.ImplGrid
