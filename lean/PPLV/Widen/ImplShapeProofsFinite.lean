import PPLV.Widen.ImplShapeProofsRank
/-!
# C08 stage 2 — the BHMZ05 loops of the shapes: the finite entries only ever disappear

One cell of the BHMZ05 loops (`bhmz05Cell`) returns `+∞` unless the cell of `y` is non-redundant and equal to the
cell of `x`.  Hence the result of the loops is, cell by cell, `+∞` or the cell of the *reduced* previous iterate,
and the number of finite cells (`bdFinCount` / `octFinCount`) of the result is at most that of the reduced
previous iterate, strictly less unless the loops return the reduced previous iterate.

The chain theorems are `_partial`: between two steps the real iteration closes the result and reduces it again
(`shortest_path_closure_assign` + `shortest_path_reduction_assign`, `strong_closure_assign` +
`strong_reduction_assign`); that the reduction of the closure of a matrix has no more finite non-redundant cells
than the matrix has finite cells (minimality of the shortest-path reduction, Larsen et al.) is NOT proved here: it
is the named hypothesis `hLarsen`, which the native driver checks on every real step.
-/
namespace PPLV.Widen
open PPLV.WR
open PPLV.WR.ExtRat (fin pinf le_rfl' le_trans' le_total' le_pinf)

/-- `1` for a finite bound, `0` for `+∞` -/
def cellFin : ExtRat → Nat
  | .pinf => 0
  | .fin _ => 1

/-- the number of cells of a `BD_Shape` matrix of dimension `n` that are not `+∞` -/
def bdFinCount (n : Nat) (m : Mat) : Nat := matSum (bdCells n) cellFin m
/-- the number of stored cells of an `Octagonal_Shape` matrix of dimension `n` that are not `+∞` -/
def octFinCount (n : Nat) (m : Mat) : Nat := matSum (octCells n) cellFin m

theorem cellFin_pinf_or {a b : ExtRat} (h : a = pinf ∨ a = b) :
    cellFin a ≤ cellFin b ∧ (a ≠ b → cellFin a < cellFin b) := by
  rcases h with h | h
  · subst h
    cases b with
    | pinf => exact ⟨Nat.le_refl _, fun hne => absurd rfl hne⟩
    | fin q => exact ⟨by simp [cellFin], fun _ => by simp [cellFin]⟩
  · subst h; exact ⟨Nat.le_refl _, fun hne => absurd rfl hne⟩

/-- one cell: finite only when `y`'s cell is non-redundant and equal to `x`'s -/
theorem bhmz05Cell_finite {x y : ExtRat} {r : Bool} (h : bhmz05Cell x y r ≠ pinf) :
    r = false ∧ y = x ∧ bhmz05Cell x y r = y := by
  unfold bhmz05Cell at h ⊢
  by_cases hc : (r || y != x) = true
  · rw [if_pos hc] at h; exact absurd rfl h
  · rw [if_neg hc]
    simp only [Bool.or_eq_true, bne_iff_ne, ne_eq, not_or, Bool.not_eq_true, not_not] at hc
    exact ⟨hc.1, hc.2, hc.2.symm⟩

/-- generic counting step over a list of cells -/
theorem finCount_step (cells : List (Nat × Nat)) (R yr : Mat)
    (h : ∀ p, p ∈ cells → R p.1 p.2 = pinf ∨ R p.1 p.2 = yr p.1 p.2) :
    matSum cells cellFin R ≤ matSum cells cellFin yr ∧
    ((∃ p, p ∈ cells ∧ R p.1 p.2 ≠ yr p.1 p.2) → matSum cells cellFin R < matSum cells cellFin yr) := by
  refine ⟨(sum_map_le cells _ _ (fun p hp => (cellFin_pinf_or (h p hp)).1)).1, ?_⟩
  rintro ⟨p, hp, hne⟩
  exact sum_map_lt cells _ _ (fun p hp => (cellFin_pinf_or (h p hp)).1) p hp ((cellFin_pinf_or (h p hp)).2 hne)

/-- **`BD_Shape::BHMZ05_widening_assign`, the loops**: with `R` the result and `yr` the reduced `y`
(`bdsReducedMat`: redundant cells replaced by `+∞`),
(1) a finite cell of `R` is a non-redundant cell of `y` equal to the cell of `x`;
(2) every cell of `R` is `+∞` or the cell of `yr`;
(3) `R` has at most as many finite cells as `yr`, strictly fewer if it differs from `yr` on some cell. -/
theorem bd_bhmz05_finite_entries_decrease (n : Nat) (x y : Mat) (red : BMat) :
    (∀ i j, i ≤ n → j ≤ n → bdBHMZ05Loops n x y red i j ≠ pinf →
        red i j = false ∧ y i j = x i j ∧ bdBHMZ05Loops n x y red i j = y i j) ∧
    (∀ i j, i ≤ n → j ≤ n →
        bdBHMZ05Loops n x y red i j = pinf ∨ bdBHMZ05Loops n x y red i j = bdsReducedMat y red i j) ∧
    bdFinCount n (bdBHMZ05Loops n x y red) ≤ bdFinCount n (bdsReducedMat y red) ∧
    ((∃ i j, i ≤ n ∧ j ≤ n ∧ bdBHMZ05Loops n x y red i j ≠ bdsReducedMat y red i j) →
        bdFinCount n (bdBHMZ05Loops n x y red) < bdFinCount n (bdsReducedMat y red)) := by
  have h1 : ∀ i j, i ≤ n → j ≤ n → bdBHMZ05Loops n x y red i j ≠ pinf →
      red i j = false ∧ y i j = x i j ∧ bdBHMZ05Loops n x y red i j = y i j := by
    intro i j hi hj
    rw [bdBHMZ05Loops_apply, if_pos (by omega)]
    exact bhmz05Cell_finite
  have h2 : ∀ i j, i ≤ n → j ≤ n →
      bdBHMZ05Loops n x y red i j = pinf ∨ bdBHMZ05Loops n x y red i j = bdsReducedMat y red i j := by
    intro i j hi hj
    by_cases hp : bdBHMZ05Loops n x y red i j = pinf
    · exact Or.inl hp
    · obtain ⟨a, _, c⟩ := h1 i j hi hj hp
      refine Or.inr ?_
      rw [c]
      simp [bdsReducedMat, a]
  obtain ⟨c1, c2⟩ := finCount_step (bdCells n) (bdBHMZ05Loops n x y red) (bdsReducedMat y red)
    (fun p hp => by
      obtain ⟨i, j⟩ := p
      rw [mem_bdCells] at hp
      exact h2 i j hp.1 hp.2)
  refine ⟨h1, h2, c1, ?_⟩
  rintro ⟨i, j, hi, hj, hne⟩
  exact c2 ⟨(i, j), (mem_bdCells n i j).2 ⟨hi, hj⟩, hne⟩

/-- **`Octagonal_Shape::BHMZ05_widening_assign`, the loop** (`y` is already the strongly reduced matrix, its
redundant cells hold `+∞`): a finite cell of the result is the cell of `y` and of `x`; every stored cell of the
result is `+∞` or the cell of `y`; the finite stored cells can only disappear. -/
theorem oct_bhmz05_finite_entries_decrease (n : Nat) (x y : Mat) :
    (∀ i j, i < 2 * n → j < rowSize i → octBHMZ05Loops n x y i j ≠ pinf →
        y i j = x i j ∧ octBHMZ05Loops n x y i j = y i j) ∧
    (∀ i j, i < 2 * n → j < rowSize i → octBHMZ05Loops n x y i j = pinf ∨ octBHMZ05Loops n x y i j = y i j) ∧
    octFinCount n (octBHMZ05Loops n x y) ≤ octFinCount n y ∧
    ((∃ i j, i < 2 * n ∧ j < rowSize i ∧ octBHMZ05Loops n x y i j ≠ y i j) →
        octFinCount n (octBHMZ05Loops n x y) < octFinCount n y) := by
  have h1 : ∀ i j, i < 2 * n → j < rowSize i → octBHMZ05Loops n x y i j ≠ pinf →
      y i j = x i j ∧ octBHMZ05Loops n x y i j = y i j := by
    intro i j hi hj
    rw [octBHMZ05Loops_apply, if_pos ⟨hi, hj⟩]
    exact fun h => (bhmz05Cell_finite h).2
  have h2 : ∀ i j, i < 2 * n → j < rowSize i →
      octBHMZ05Loops n x y i j = pinf ∨ octBHMZ05Loops n x y i j = y i j := by
    intro i j hi hj
    by_cases hp : octBHMZ05Loops n x y i j = pinf
    · exact Or.inl hp
    · exact Or.inr (h1 i j hi hj hp).2
  obtain ⟨c1, c2⟩ := finCount_step (octCells n) (octBHMZ05Loops n x y) y
    (fun p hp => by
      obtain ⟨i, j⟩ := p
      rw [mem_octCells] at hp
      exact h2 i j hp.1 hp.2)
  refine ⟨h1, h2, c1, ?_⟩
  rintro ⟨i, j, hi, hj, hne⟩
  exact c2 ⟨(i, j), (mem_octCells n i j).2 ⟨hi, hj⟩, hne⟩

/-- **The BHMZ05 iteration on `BD_Shape` is eventually stationary — PARTIAL.**  `Y k` is the closed previous
iterate of step `k`, `Red k` its redundancy bits, `X k` the (arbitrary) larger argument,
`R k = bdBHMZ05Loops n (X k) (Y k) (Red k)` the result, from which the real iteration obtains `Y (k+1)`,
`Red (k+1)` by closure + reduction.  EXTRA HYPOTHESIS `hLarsen` (not proved: minimality of the shortest-path
reduction; the native driver checks it on every real step): closing and reducing `R k` leaves at most as many
finite non-redundant cells as `R k` has finite cells.  Conclusion: from some step on the loops return the
reduced previous iterate on every cell, i.e. the iteration is stationary as sets. -/
theorem bd_bhmz05_chain_stabilises_partial (n : Nat) (X Y : Nat → Mat) (Red : Nat → BMat) (R : Nat → Mat)
    (hR : ∀ k, R k = bdBHMZ05Loops n (X k) (Y k) (Red k))
    (hLarsen : ∀ k, bdFinCount n (bdsReducedMat (Y (k + 1)) (Red (k + 1))) ≤ bdFinCount n (R k)) :
    ∃ N, ∀ k, k ≥ N → ∀ i j, i ≤ n → j ≤ n → R k i j = bdsReducedMat (Y k) (Red k) i j := by
  have st : ∀ k, bdFinCount n (R k) ≤ bdFinCount n (bdsReducedMat (Y k) (Red k)) ∧
      ((∃ i j, i ≤ n ∧ j ≤ n ∧ R k i j ≠ bdsReducedMat (Y k) (Red k) i j) →
        bdFinCount n (R k) < bdFinCount n (bdsReducedMat (Y k) (Red k))) := by
    intro k
    rw [hR k]
    exact (bd_bhmz05_finite_entries_decrease n (X k) (Y k) (Red k)).2.2
  obtain ⟨N, hN⟩ := nat_antitone_eventually_const (fun k => bdFinCount n (bdsReducedMat (Y k) (Red k)))
    (fun k => Nat.le_trans (hLarsen k) (st k).1)
  refine ⟨N, fun k hk i j hi hj => ?_⟩
  by_contra hne
  have h1 := (st k).2 ⟨i, j, hi, hj, hne⟩
  have h2 := hLarsen k
  have h3 := hN k hk
  omega

/-- **The BHMZ05 iteration on `Octagonal_Shape` is eventually stationary — PARTIAL.**  `Y k` is the strongly
reduced previous iterate, `X k` arbitrary, `R k = octBHMZ05Loops n (X k) (Y k)`; `Y (k+1)` comes from `R k` by
strong closure + strong reduction.  EXTRA HYPOTHESIS `hLarsen` (not proved; checked by the native driver on every
real step): `Y (k+1)` has at most as many finite stored cells as `R k`. -/
theorem oct_bhmz05_chain_stabilises_partial (n : Nat) (X Y : Nat → Mat) (R : Nat → Mat)
    (hR : ∀ k, R k = octBHMZ05Loops n (X k) (Y k))
    (hLarsen : ∀ k, octFinCount n (Y (k + 1)) ≤ octFinCount n (R k)) :
    ∃ N, ∀ k, k ≥ N → ∀ i j, i < 2 * n → j < rowSize i → R k i j = Y k i j := by
  have st : ∀ k, octFinCount n (R k) ≤ octFinCount n (Y k) ∧
      ((∃ i j, i < 2 * n ∧ j < rowSize i ∧ R k i j ≠ Y k i j) → octFinCount n (R k) < octFinCount n (Y k)) := by
    intro k
    rw [hR k]
    exact (oct_bhmz05_finite_entries_decrease n (X k) (Y k)).2.2
  obtain ⟨N, hN⟩ := nat_antitone_eventually_const (fun k => octFinCount n (Y k))
    (fun k => Nat.le_trans (hLarsen k) (st k).1)
  refine ⟨N, fun k hk i j hi hj => ?_⟩
  by_contra hne
  have h1 := (st k).2 ⟨i, j, hi, hj, hne⟩
  have h2 := hLarsen k
  have h3 := hN k hk
  omega

/-! ## instances for the non-vacuity examples -/

/-- what the loops leave of `exY1` (`x₀ ≤ 0`, `-x₀ ≤ 0`) against `exX1` (`x₀ ≤ 1/2`, `-x₀ ≤ 0`): `-x₀ ≤ 0` -/
def exR1 : Mat := Mat.ofLists [[pinf, pinf], [fin 0, pinf]]
/-- previous iterates: `exY1`, then the result `exR1` for ever -/
def exYs (k : Nat) : Mat := if k = 0 then exY1 else exR1
/-- larger arguments: `exX1`, then `exR1` for ever -/
def exXs (k : Nat) : Mat := if k = 0 then exX1 else exR1

theorem exR1_larsen : ∀ k, bdFinCount 1 (bdsReducedMat (exYs (k + 1)) (BMat.const false))
    ≤ bdFinCount 1 (bdBHMZ05Loops 1 (exXs k) (exYs k) (BMat.const false)) := by
  intro k
  cases k with
  | zero => decide +kernel
  | succ k =>
    have e1 : exYs (k + 1 + 1) = exR1 := rfl
    have e2 : exYs (k + 1) = exR1 := rfl
    have e3 : exXs (k + 1) = exR1 := rfl
    rw [e1, e2, e3]
    decide +kernel

theorem exR1_larsen_oct : ∀ k, octFinCount 1 (exYs (k + 1)) ≤ octFinCount 1 (octBHMZ05Loops 1 (exXs k) (exYs k)) := by
  intro k
  cases k with
  | zero => decide +kernel
  | succ k =>
    have e1 : exYs (k + 1 + 1) = exR1 := rfl
    have e2 : exYs (k + 1) = exR1 := rfl
    have e3 : exXs (k + 1) = exR1 := rfl
    rw [e1, e2, e3]
    decide +kernel

end PPLV.Widen
