import PPLV.Widen.ImplH79ProofsSem
import PPLV.Widen.ImplH79ProofsEngine0
import PPLV.Widen.ImplH79ProofsEngineMinAbs0
import Mathlib.Tactic.FieldSimp

/-!
# C08 stage 2b — `hymin` from the engine guarantees: glue 1 (rows as linear functionals on `ℕ → ℚ`)
-/
namespace PPLV.Widen.Impl

/-! ### step (1): the easy direction -/

theorem minCons_le_nontaut (n : Nat) (cs : List CRow) (wf : WFRows n cs) :
    minCons n (den false n cs) ≤ (cs.filter (!·.isTautological false)).length :=
  Nat.sInf_le ⟨_, wfRows_sublist List.filter_sublist wf, rfl, den_filter_nontaut n cs⟩

/-! ### `evalRow` is linear -/

theorem evalRow_add : ∀ (e : Vec) (u v : Nat → Rat), evalRow e (u + v) = evalRow e u + evalRow e v
  | [], _, _ => by simp [evalRow]
  | a :: as, u, v => by
    have h : (fun i => (u + v) (i + 1)) = (fun i => u (i + 1)) + (fun i => v (i + 1)) := rfl
    show (a : ℚ) * (u + v) 0 + evalRow as (fun i => (u + v) (i + 1)) = _
    rw [h, evalRow_add as]
    simp only [evalRow, Pi.add_apply]
    ring

theorem evalRow_smul : ∀ (e : Vec) (k : Rat) (u : Nat → Rat), evalRow e (k • u) = k * evalRow e u
  | [], _, _ => by simp [evalRow]
  | a :: as, k, u => by
    have h : (fun i => (k • u) (i + 1)) = k • (fun i => u (i + 1)) := rfl
    show (a : ℚ) * (k • u) 0 + evalRow as (fun i => (k • u) (i + 1)) = _
    rw [h, evalRow_smul as]
    simp only [evalRow, Pi.smul_apply, smul_eq_mul]
    ring

/-- the row as a linear functional -/
def evalL (e : Vec) : (Nat → Rat) →ₗ[ℚ] ℚ where
  toFun := evalRow e
  map_add' := evalRow_add e
  map_smul' := by intro k u; simpa using evalRow_smul e k u

@[simp] theorem evalL_apply (e : Vec) (v : Nat → Rat) : evalL e v = evalRow e v := rfl

/-- the first coordinate -/
def x0L : (Nat → Rat) →ₗ[ℚ] ℚ := LinearMap.proj 0

@[simp] theorem x0L_apply (v : Nat → Rat) : x0L v = v 0 := rfl

/-! ### integer vectors -/

def vecQ (v : Vec) : Nat → Rat := fun i => ((v.getD i 0 : Int) : Rat)

theorem evalRow_zero_funM : ∀ (e : Vec), evalRow e (fun _ => 0) = 0
  | [] => rfl
  | a :: as => by simp [evalRow, evalRow_zero_funM as]

theorem evalRow_vecQ : ∀ (e v : Vec), evalRow e (vecQ v) = ((sp e v : Int) : Rat)
  | [], v => by simp [evalRow, sp]
  | a :: as, [] => by
    have h : vecQ [] = fun _ => 0 := by funext i; simp [vecQ]
    rw [h, evalRow_zero_funM]; simp [sp]
  | a :: as, b :: bs => by
    have h : (fun i => vecQ (b :: bs) (i + 1)) = vecQ bs := by funext i; simp [vecQ]
    simp only [evalRow, h, evalRow_vecQ as bs, sp]
    simp [vecQ]

theorem vecQ_zero (v : Vec) : vecQ v 0 = ((v.headD 0 : Int) : Rat) := by
  cases v <;> simp [vecQ]

theorem holds_vecQ (c : CRow) (v : Vec) : c.holds (vecQ v) ↔ c.holdsZ v := by
  unfold CRow.holds CRow.holdsZ
  rw [evalRow_vecQ]
  cases c.eq <;> simp

/-! ### the cone is closed under sums and non-negative multiples -/

theorem holds_add {c : CRow} {u v : Nat → Rat} (hu : c.holds u) (hv : c.holds v) : c.holds (u + v) := by
  unfold CRow.holds at *
  rw [evalRow_add]
  split_ifs at * with h
  · rw [hu, hv]; simp
  · exact add_nonneg hu hv

theorem holds_smul {c : CRow} {k : Rat} (hk : 0 ≤ k) {u : Nat → Rat} (hu : c.holds u) :
    c.holds (k • u) := by
  unfold CRow.holds at *
  rw [evalRow_smul]
  split_ifs at * with h
  · rw [hu]; simp
  · exact mul_nonneg hk hu

theorem holds_smul_iff {c : CRow} {k : Rat} (hk : 0 < k) {u : Nat → Rat} :
    c.holds (k • u) ↔ c.holds u := by
  constructor
  · intro h
    have := holds_smul (inv_nonneg.mpr hk.le) h
    rwa [smul_smul, inv_mul_cancel₀ hk.ne', one_smul] at this
  · exact holds_smul hk.le

/-! ### the slice `x_0 = 1` -/

/-- the point of the slice below a vector with positive first coordinate -/
def ptOf (v : Nat → Rat) : Pt := fun i => v (i + 1) / v 0

theorem evalRow_congrM (e : Vec) (m : Nat) (h : e.length ≤ m) (u v : Nat → Rat)
    (huv : ∀ i, i < m → u i = v i) : evalRow e u = evalRow e v := by
  rw [evalRow_eq_sum e u m h, evalRow_eq_sum e v m h]
  apply Finset.sum_congr rfl
  intro i hi
  rw [huv i (Finset.mem_range.mp hi)]

theorem evalRow_hom_ptOf (n : Nat) (e : Vec) (h : e.length ≤ n + 1) (v : Nat → Rat) (hv : 0 < v 0) :
    evalRow e (hom n (ptOf v) 0) = evalRow e ((v 0)⁻¹ • v) := by
  apply evalRow_congrM e (n + 1) h
  intro i hi
  by_cases h0 : i = 0
  · subst h0
    simp [hom, hv.ne']
  · have h1 : i ≤ n := by omega
    have h2 : i - 1 + 1 = i := by omega
    simp [hom, h0, h1, ptOf, h2, div_eq_inv_mul]

theorem holds_hom_ptOf (n : Nat) (c : CRow) (h : c.e.length ≤ n + 1) (v : Nat → Rat) (hv : 0 < v 0) :
    c.holds (hom n (ptOf v) 0) ↔ c.holds v := by
  rw [← holds_smul_iff (inv_pos.mpr hv) (c := c) (u := v)]
  unfold CRow.holds
  rw [evalRow_hom_ptOf n c.e h v hv]

theorem satRows_hom_ptOf (n : Nat) (cs : List CRow) (wf : WFRows n cs) (v : Nat → Rat) (hv : 0 < v 0) :
    ptOf v ∈ den false n cs ↔ SatRows cs v := by
  rw [mem_den_false]
  constructor
  · intro hs c hc
    exact (holds_hom_ptOf n c (by rw [wf c hc]) v hv).mp (hs c hc)
  · intro hs c hc
    exact (holds_hom_ptOf n c (by rw [wf c hc]) v hv).mpr (hs c hc)

/-- two systems with the same point set have the same cone inside the open half space -/
theorem satRows_iff_of_den_eq (n : Nat) (cs ds : List CRow) (wc : WFRows n cs) (wd : WFRows n ds)
    (hden : den false n ds = den false n cs) (v : Nat → Rat) (hv : 0 < v 0) :
    SatRows cs v ↔ SatRows ds v := by
  rw [← satRows_hom_ptOf n cs wc v hv, ← satRows_hom_ptOf n ds wd v hv, hden]

end PPLV.Widen.Impl
