import PPLV.Widen.ImplH79ProofsEngineFacetPoints
import PPLV.Widen.ImplH79ProofsEngineFacetQ
import PPLV.Widen.ImplH79ProofsSem

/-!
# C08 stage 2b — the engine's `minimize` as the minimisation step of the H79 chain

`engineMini n cs`: the rows `cs` of a closed constraint system of dimension `n`, with the positivity row in
front, minimised by the conversion engine model (`PPLV.Conv.minimize`) and read back through `ofEngine`.
For a non-empty `cs` the result satisfies the whole contract `MinimalDD` and denotes the same point set
(`engineMini_spec`); in particular after an H79 widening step (`engineMini_step`).
-/
namespace PPLV.Widen.Impl
open PPLV.Conv

/-- the rows handed to the engine: the positivity constraint, then `cs` -/
def toSource (n : Nat) (cs : List CRow) : List PPLV.Conv.LRow :=
  ⟨false, 1 :: List.replicate n 0⟩ :: cs.map fun c => (⟨c.eq, c.e⟩ : PPLV.Conv.LRow)

/-- `minimize()` of the engine model on `cs` (closed polyhedron of dimension `n`) -/
def engineMini (n : Nat) (cs : List CRow) : YMin :=
  ofEngine (PPLV.Conv.minimize true false (n + 1) (toSource n cs) [])

theorem ech_evalRow_replicate_zero : ∀ (k : Nat) (v : Nat → Rat), evalRow (List.replicate k 0) v = 0
  | 0, _ => rfl
  | k + 1, v => by simp [List.replicate_succ, evalRow, ech_evalRow_replicate_zero k]

theorem ech_getD0 {n : Nat} {d : Int} {v : Vec} {p : Pt} (h : RepZ n d v p) : v.getD 0 0 = d := by
  have h0 := h.2.2 0 (Nat.zero_le _)
  have h1 : hom n p 0 0 = 1 := by simp [hom]
  rw [h1, mul_one] at h0
  exact_mod_cast h0

theorem ech_toSource_length (n : Nat) (cs : List CRow) : (toSource n cs).length = cs.length + 1 := by
  simp [toSource]

theorem ech_toSource_rowlen (n : Nat) (cs : List CRow) (hwf : WFRows n cs) :
    ∀ s ∈ toSource n cs, s.v.length = n + 1 := by
  intro s hs
  unfold toSource at hs
  rcases List.mem_cons.mp hs with rfl | hs
  · simp
  · obtain ⟨c, hc, rfl⟩ := List.mem_map.mp hs
    exact hwf c hc

theorem ech_map_toC_toSource (n : Nat) (cs : List CRow) :
    (toSource n cs).map toC = (⟨1 :: List.replicate n 0, false⟩ : CRow) :: cs := by
  unfold toSource
  rw [List.map_cons, List.map_map]
  have h : (toC ∘ fun c : CRow => (⟨c.eq, c.e⟩ : PPLV.Conv.LRow)) = id := funext fun c => rfl
  rw [h, List.map_id]
  rfl

/-- a rational point against rows of the engine, through an integer representative -/
theorem ech_den_map_toC {n : Nat} {d : Int} {v : Vec} {p : Pt} (h : RepZ n d v p)
    (rows : List PPLV.Conv.LRow) (hlen : ∀ r ∈ rows, r.v.length ≤ n + 1) :
    p ∈ den false n (rows.map toC) ↔ holdsAll rows v := by
  rw [mem_den_false]
  constructor
  · intro hs r hr
    have h1 := hs (toC r) (List.mem_map_of_mem hr)
    rw [holds_iff_holdsZ h (toC r) (hlen r hr), holdsZ_toC] at h1
    exact h1
  · intro ha c hc
    obtain ⟨r, hr, rfl⟩ := List.mem_map.mp hc
    rw [holds_iff_holdsZ h (toC r) (hlen r hr), holdsZ_toC]
    exact ha r hr

/-- the positivity row does not change the point set -/
theorem ech_den_toSource (n : Nat) (cs : List CRow) :
    den false n ((toSource n cs).map toC) = den false n cs := by
  rw [ech_map_toC_toSource]
  ext p
  rw [mem_den_false, mem_den_false]
  unfold SatRows
  rw [List.forall_mem_cons]
  constructor
  · exact fun h => h.2
  · intro h
    refine ⟨?_, h⟩
    unfold CRow.holds
    simp [evalRow, ech_evalRow_replicate_zero, hom]

theorem ech_mem_den_iff_holdsAll {n : Nat} {d : Int} {v : Vec} {p : Pt} (h : RepZ n d v p)
    (cs : List CRow) (hwf : WFRows n cs) :
    p ∈ den false n cs ↔ holdsAll (toSource n cs) v := by
  rw [← ech_den_toSource n cs]
  exact ech_den_map_toC h _ fun r hr => le_of_eq (ech_toSource_rowlen n cs hwf r hr)

/-- step (1): a non-empty system is not reported empty -/
theorem ech_not_empty (n : Nat) (cs : List CRow) (hwf : WFRows n cs) (hsz : n + 1 < 2 ^ 64)
    (hlen : cs.length + 1 < 2 ^ 64) (hne : (den false n cs).Nonempty) :
    (PPLV.Conv.minimize true false (n + 1) (toSource n cs) []).empty = false := by
  obtain ⟨p, hp⟩ := hne
  obtain ⟨d, v, hrep⟩ := exists_repZ_of_pt n p
  have hall := (ech_mem_den_iff_holdsAll hrep cs hwf).mp hp
  cases hE : (PPLV.Conv.minimize true false (n + 1) (toSource n cs) []).empty with
  | false => rfl
  | true =>
    exfalso
    have hposx : ∀ x : Vec, x.length ≤ n + 1 → holdsAll (toSource n cs) x →
        0 ≤ x.getD (if false = true then n + 1 - 1 else 0) 0 := by
      intro x _ hx
      have h1 := hx _ (List.mem_cons_self (a := (⟨false, 1 :: List.replicate n 0⟩ : PPLV.Conv.LRow))
        (l := cs.map fun c => (⟨c.eq, c.e⟩ : PPLV.Conv.LRow)))
      unfold holds at h1
      simp only [Bool.false_eq_true, if_false] at h1
      rw [scalarProduct_unit0, headD_eq_getD] at h1
      simpa using h1
    have h2 := C01.minimize_empty_report_correct false (n + 1) (toSource n cs) [] hsz
      (by rw [ech_toSource_length]; exact hlen) hposx hE v (le_of_eq hrep.2.1) hall
    apply h2
    simp only [Bool.false_eq_true, if_false]
    rw [ech_getD0 hrep]
    exact hrep.1

/-- **`engineMini_spec`** — for a non-empty closed system the engine's `minimize` returns a triple that
satisfies `MinimalDD` and denotes the same point set. -/
theorem engineMini_spec (n : Nat) (cs : List CRow) (hwf : WFRows n cs) (hsz : n + 1 < 2 ^ 64)
    (hlen : cs.length + 1 < 2 ^ 64) (hne : (den false n cs).Nonempty) :
    MinimalDD n (engineMini n cs) ∧ den false n (engineMini n cs).conSys = den false n cs := by
  have hE := ech_not_empty n cs hwf hsz hlen hne
  have hsrc : (toSource n cs).length < 2 ^ 64 := by rw [ech_toSource_length]; exact hlen
  have hrow := ech_toSource_rowlen n cs hwf
  refine ⟨minimalDD_of_minimize n (toSource n cs) [] hsz hsrc hrow hE (List.mem_cons_self ..), ?_⟩
  ext p
  obtain ⟨d, v, hrep⟩ := exists_repZ_of_pt n p
  unfold engineMini
  rw [ofEngine_conSys,
    ech_den_map_toC hrep _ fun r hr => le_of_eq (minimize_source_length n _ [] hrow hE r hr),
    C01.minimize_same_set false (n + 1) (toSource n cs) [] hsz hsrc hE v (le_of_eq hrep.2.1),
    ← ech_mem_den_iff_holdsAll hrep cs hwf]

/-- **`engineMini_step`** — the minimisation after an H79 widening step: `h79Rows x y` are rows of `x`, and
their point set contains the non-empty `y`. -/
theorem engineMini_step (n : Nat) (x y : YMin) (hx : WFRows n x.conSys)
    (hyx : den false n y.conSys ⊆ den false n x.conSys)
    (hyne : (den false n y.conSys).Nonempty) (hsz : n + 1 < 2 ^ 64)
    (hlen : x.conSys.length + 1 < 2 ^ 64) :
    MinimalDD n (engineMini n (h79Rows x y)) ∧
    den false n (engineMini n (h79Rows x y)).conSys = den false n (h79Rows x y) := by
  have hsub := h79Rows_sublist x y
  apply engineMini_spec n (h79Rows x y) (wfRows_sublist hsub hx) hsz
  · have := hsub.length_le
    omega
  · obtain ⟨p, hp⟩ := hyne
    exact ⟨p, den_mono_sublist false n hsub (hyx hp)⟩

/-- non-vacuity: the segment `0 ≤ x ≤ 3`; the engine returns the two facets (positivity is redundant) -/
example : (engineMini 1 [⟨[0, 1], false⟩, ⟨[3, -1], false⟩]).conSys.length = 2 := by decide

example : MinimalDD 1 (engineMini 1 [⟨[0, 1], false⟩, ⟨[3, -1], false⟩]) ∧
    den false 1 (engineMini 1 [⟨[0, 1], false⟩, ⟨[3, -1], false⟩]).conSys
      = den false 1 [⟨[0, 1], false⟩, ⟨[3, -1], false⟩] :=
  engineMini_spec 1 _ (by intro c hc; simp at hc; rcases hc with rfl | rfl <;> rfl) (by norm_num)
    (by simp) ⟨fun _ => 1, by
      rw [mem_den_false]
      intro c hc
      simp at hc
      rcases hc with rfl | rfl <;> (unfold CRow.holds; simp [evalRow, hom]; try norm_num)⟩

end PPLV.Widen.Impl
