import PPLV.Widen.ImplShapeProofsBase
import PPLV.Widen.ProofsItv
/-!
# C08 stage 2 — the CC76 loops of the shapes stabilise at the matrix level (full proofs, no certificate hypothesis)

`cellRank stops v` is `0` for `+∞`, else one plus the number of stop points strictly greater than `v`.  One cell
of the CC76 loops (`cc76Cell`) never increases the rank of the *smaller* argument, and leaves the rank unchanged
only if it returns that argument (`cc76Cell_rank_step`); the list of stop points need not be sorted (the model's
`lower_bound` is `takeWhile`).  The sum of the cell ranks over the finitely many cells is therefore a measure for
the matrix-level operators `bdCC76Loops` / `octCC76Loops` against any adversary that supplies larger arguments
that are cellwise at least the previous iterate.

HONEST SCOPE.  This is the matrix-level operator.  The real functions `BD_Shape::CC76_extrapolation_assign` /
`Octagonal_Shape::CC76_extrapolation_assign` re-close both arguments (`shortest_path_closure_assign` /
`strong_closure_assign`) before the loops, so the iterates of the real function are
`cc76(closure(x_k), closure(y_k))`: closure can lower cells again (`bd_cc76_closure_undoes_progress`), which is
why PPL calls CC76 on shapes an *extrapolation*, not a widening.
-/
namespace PPLV.Widen
open PPLV.WR
open PPLV.WR.ExtRat (fin pinf le_rfl' le_trans' le_total' le_pinf)

theorem extRat_le_antisymm {a b : ExtRat} (h1 : a ≤ b) (h2 : b ≤ a) : a = b := by
  cases a <;> cases b
  · rw [ExtRat.fin_le_fin] at h1 h2; rw [le_antisymm h1 h2]
  · exact absurd h2 (ExtRat.not_pinf_le_fin _)
  · exact absurd h1 (ExtRat.not_pinf_le_fin _)
  · rfl

/-! ## sums of termwise comparable naturals -/

theorem sum_map_le {α : Type} (l : List α) (f g : α → Nat) (h : ∀ a, a ∈ l → f a ≤ g a) :
    (l.map f).sum ≤ (l.map g).sum ∧ ((l.map f).sum = (l.map g).sum → ∀ a, a ∈ l → f a = g a) := by
  induction l with
  | nil => simp
  | cons b r ih =>
    have hb := h b (List.mem_cons_self ..)
    obtain ⟨i1, i2⟩ := ih (fun a ha => h a (List.mem_cons_of_mem _ ha))
    simp only [List.map_cons, List.sum_cons]
    refine ⟨by omega, fun he a ha => ?_⟩
    rcases List.mem_cons.1 ha with rfl | ha
    · omega
    · exact i2 (by omega) a ha

theorem sum_map_lt {α : Type} (l : List α) (f g : α → Nat) (h : ∀ a, a ∈ l → f a ≤ g a)
    (b : α) (hb : b ∈ l) (hlt : f b < g b) : (l.map f).sum < (l.map g).sum := by
  obtain ⟨i1, i2⟩ := sum_map_le l f g h
  rcases Nat.lt_or_ge (l.map f).sum (l.map g).sum with h1 | h1
  · exact h1
  · have := i2 (by omega) b hb; omega

/-- the sum of a cell measure over a list of cells -/
def matSum (cells : List (Nat × Nat)) (μ : ExtRat → Nat) (m : Mat) : Nat :=
  (cells.map fun p => μ (m p.1 p.2)).sum

/-- the cells of a `BD_Shape` of dimension `n` -/
def bdCells (n : Nat) : List (Nat × Nat) :=
  (List.range (n + 1)).flatMap fun i => (List.range (n + 1)).map fun j => (i, j)

theorem mem_bdCells (n i j : Nat) : (i, j) ∈ bdCells n ↔ i ≤ n ∧ j ≤ n := by
  simp only [bdCells, List.mem_flatMap, List.mem_range, List.mem_map, Prod.mk.injEq]
  constructor
  · rintro ⟨a, ha, b, hb, rfl, rfl⟩; omega
  · rintro ⟨h1, h2⟩; exact ⟨i, by omega, j, by omega, rfl, rfl⟩

theorem mem_octCells (n i j : Nat) : (i, j) ∈ octCells n ↔ i < 2 * n ∧ j < rowSize i := by
  simp only [octCells, List.mem_flatMap, List.mem_range, List.mem_map, Prod.mk.injEq]
  constructor
  · rintro ⟨a, ha, b, hb, rfl, rfl⟩; exact ⟨ha, hb⟩
  · rintro ⟨h1, h2⟩; exact ⟨i, h1, j, h2, rfl, rfl⟩

/-! ## the rank of one cell -/

/-- `0` at `+∞`, else one plus the number of stop points strictly greater than the value -/
def cellRank (stops : List Rat) : ExtRat → Nat
  | .pinf => 0
  | .fin q => 1 + (stops.filter (fun s => decide (q < s))).length

theorem cellRank_lt_of_stop (stops : List Rat) (yq u s : Rat) (hs : s ∈ stops) (h1 : yq < s) (h2 : s ≤ u) :
    cellRank stops (fin u) < cellRank stops (fin yq) := by
  have := filter_length_lt stops (fun t => decide (u < t)) (fun t => decide (yq < t))
    (fun a ha => by simp only [decide_eq_true_eq] at ha ⊢; linarith) s hs (by simpa using h1)
    (by simpa using h2)
  simp only [cellRank]; omega

theorem cc76Cell_fin_lt (up : Rat → ExtRat) (stops : List Rat) (xq : Rat) (y : ExtRat)
    (hlt : ExtRat.ltB y (fin xq) = true) (hk : lowerBound stops xq < stops.length) :
    cc76Cell up stops (fin xq) y
      = if xq < stops[lowerBound stops xq] then up stops[lowerBound stops xq] else fin xq := by
  simp [cc76Cell, hlt, lowerBoundE, hk, ltB_iff]

theorem cc76Cell_beyond (up : Rat → ExtRat) (stops : List Rat) (x y : ExtRat)
    (hlt : ExtRat.ltB y x = true) (hk : ¬ lowerBoundE stops x < stops.length) :
    cc76Cell up stops x y = pinf := by
  simp [cc76Cell, hlt, hk]

/-- when it extrapolates (`y_elem < elem`), the cell returns `+∞` or a value at or above a stop point that is
strictly above `y_elem` -/
theorem cc76Cell_widened {up : Rat → ExtRat} (hup : ∀ q, fin q ≤ up q) (stops : List Rat) (x : ExtRat) (yq : Rat)
    (h : ¬ x ≤ fin yq) :
    cc76Cell up stops x (fin yq) = pinf ∨
    ∃ u s, cc76Cell up stops x (fin yq) = fin u ∧ s ∈ stops ∧ yq < s ∧ s ≤ u := by
  have hlt : ExtRat.ltB (fin yq) x = true := (ltB_iff _ _).2 h
  by_cases hk : lowerBoundE stops x < stops.length
  · cases x with
    | pinf => exfalso; simp [lowerBoundE] at hk
    | fin xq =>
      have hyx : yq < xq := by simpa using h
      simp only [lowerBoundE] at hk
      have hsp := (lowerBound_spec stops xq).2 _ (List.getElem?_eq_getElem hk)
      rw [cc76Cell_fin_lt up stops xq _ hlt hk]
      by_cases h2 : xq < stops[lowerBound stops xq]
      · rw [if_pos h2]
        cases hu : up stops[lowerBound stops xq] with
        | pinf => exact Or.inl rfl
        | fin u =>
          refine Or.inr ⟨u, stops[lowerBound stops xq], rfl, List.getElem_mem hk, lt_trans hyx h2, ?_⟩
          have := hup stops[lowerBound stops xq]
          rw [hu] at this
          simpa using this
      · rw [if_neg h2]
        refine Or.inr ⟨xq, stops[lowerBound stops xq], rfl, List.getElem_mem hk, ?_, not_lt.mp h2⟩
        exact lt_of_lt_of_le hyx (not_lt.mp hsp)
  · exact Or.inl (cc76Cell_beyond up stops x _ hlt hk)

theorem cc76Cell_same (up : Rat → ExtRat) (stops : List Rat) (x y : ExtRat) (h : x ≤ y) :
    cc76Cell up stops x y = x := by
  unfold cc76Cell
  rw [if_neg]
  rw [ltB_iff]; exact not_not.mpr h

/-- **one cell of the CC76 loops**: with `y_elem ≤ elem`, the rank of the result is at most the rank of `y_elem`,
and equal only if the result is `y_elem`.  No hypothesis on the stop points. -/
theorem cc76Cell_rank_step {up : Rat → ExtRat} (hup : ∀ q, fin q ≤ up q) (stops : List Rat) (x y : ExtRat)
    (hyx : y ≤ x) :
    cellRank stops (cc76Cell up stops x y) ≤ cellRank stops y ∧
    (cellRank stops (cc76Cell up stops x y) = cellRank stops y → cc76Cell up stops x y = y) := by
  by_cases hxy : x ≤ y
  · have e : x = y := extRat_le_antisymm hxy hyx
    rw [cc76Cell_same up stops x y hxy, e]
    exact ⟨Nat.le_refl _, fun _ => rfl⟩
  · cases y with
    | pinf => exact absurd (le_pinf x) hxy
    | fin yq =>
      have strict : cellRank stops (cc76Cell up stops x (fin yq)) < cellRank stops (fin yq) := by
        rcases cc76Cell_widened hup stops x yq hxy with h1 | ⟨u, s, h1, hs, h2, h3⟩
        · rw [h1]; simp only [cellRank]; omega
        · rw [h1]; exact cellRank_lt_of_stop stops yq u s hs h2 h3
      exact ⟨Nat.le_of_lt strict, fun h => absurd h (Nat.ne_of_lt strict)⟩

/-! ## any operator that is `cc76Cell` on a list of cells stabilises on those cells -/

theorem cc76_cells_chain_stabilises {up : Rat → ExtRat} (hup : ∀ q, fin q ≤ up q) (stops : List Rat)
    (cells : List (Nat × Nat)) (W : Mat → Mat → Mat)
    (hW : ∀ x y p, p ∈ cells → W x y p.1 p.2 = cc76Cell up stops (x p.1 p.2) (y p.1 p.2))
    (y0 : Mat) (z : Nat → Mat → Mat) (hz : ∀ k m p, p ∈ cells → m p.1 p.2 ≤ z k m p.1 p.2) :
    ∃ N, ∀ k, k ≥ N → ∀ p, p ∈ cells → advSeq W y0 z (k + 1) p.1 p.2 = advSeq W y0 z k p.1 p.2 := by
  have step : ∀ k p, p ∈ cells →
      cellRank stops (advSeq W y0 z (k + 1) p.1 p.2) ≤ cellRank stops (advSeq W y0 z k p.1 p.2) ∧
      (cellRank stops (advSeq W y0 z (k + 1) p.1 p.2) = cellRank stops (advSeq W y0 z k p.1 p.2) →
        advSeq W y0 z (k + 1) p.1 p.2 = advSeq W y0 z k p.1 p.2) := by
    intro k p hp
    have e : advSeq W y0 z (k + 1) = W (z k (advSeq W y0 z k)) (advSeq W y0 z k) := rfl
    rw [e, hW _ _ p hp]
    exact cc76Cell_rank_step hup stops _ _ (hz k _ p hp)
  obtain ⟨N, hN⟩ := nat_antitone_eventually_const (fun k => matSum cells (cellRank stops) (advSeq W y0 z k))
    (fun k => (sum_map_le cells _ _ (fun p hp => (step k p hp).1)).1)
  refine ⟨N, fun k hk p hp => ?_⟩
  exact (step k p hp).2 ((sum_map_le cells _ _ (fun p hp => (step k p hp).1)).2 (hN k hk) p hp)

/-- the rank of a `BD_Shape` matrix of dimension `n` -/
def bdRank (stops : List Rat) (n : Nat) (m : Mat) : Nat := matSum (bdCells n) (cellRank stops) m
/-- the rank of an `Octagonal_Shape` matrix of dimension `n` (stored cells) -/
def octRank (stops : List Rat) (n : Nat) (m : Mat) : Nat := matSum (octCells n) (cellRank stops) m

/-- one step of the BD loops: the matrix rank does not increase; if it stays, the step returns `y` on the cells -/
theorem bd_cc76_rank_step {up : Rat → ExtRat} (hup : ∀ q, fin q ≤ up q) (stops : List Rat) (n : Nat) (x y : Mat)
    (hyx : bdLE n y x) :
    bdRank stops n (bdCC76Loops up stops n x y) ≤ bdRank stops n y ∧
    (bdRank stops n (bdCC76Loops up stops n x y) = bdRank stops n y →
      ∀ i j, i ≤ n → j ≤ n → bdCC76Loops up stops n x y i j = y i j) := by
  have step : ∀ p, p ∈ bdCells n →
      cellRank stops (bdCC76Loops up stops n x y p.1 p.2) ≤ cellRank stops (y p.1 p.2) ∧
      (cellRank stops (bdCC76Loops up stops n x y p.1 p.2) = cellRank stops (y p.1 p.2) →
        bdCC76Loops up stops n x y p.1 p.2 = y p.1 p.2) := by
    rintro ⟨i, j⟩ hp
    rw [mem_bdCells] at hp
    rw [bdCC76Loops_apply, if_pos (by simp only; omega)]
    exact cc76Cell_rank_step hup stops _ _ (hyx i j hp.1 hp.2)
  obtain ⟨i1, i2⟩ := sum_map_le (bdCells n) _ _ (fun p hp => (step p hp).1)
  refine ⟨i1, fun he i j hi hj => ?_⟩
  have hp : (i, j) ∈ bdCells n := (mem_bdCells n i j).2 ⟨hi, hj⟩
  exact (step (i, j) hp).2 (i2 he (i, j) hp)

theorem oct_cc76_rank_step {up : Rat → ExtRat} (hup : ∀ q, fin q ≤ up q) (stops : List Rat) (n : Nat) (x y : Mat)
    (hyx : octLE n y x) :
    octRank stops n (octCC76Loops up stops n x y) ≤ octRank stops n y ∧
    (octRank stops n (octCC76Loops up stops n x y) = octRank stops n y →
      ∀ i j, i < 2 * n → j < rowSize i → octCC76Loops up stops n x y i j = y i j) := by
  have step : ∀ p, p ∈ octCells n →
      cellRank stops (octCC76Loops up stops n x y p.1 p.2) ≤ cellRank stops (y p.1 p.2) ∧
      (cellRank stops (octCC76Loops up stops n x y p.1 p.2) = cellRank stops (y p.1 p.2) →
        octCC76Loops up stops n x y p.1 p.2 = y p.1 p.2) := by
    rintro ⟨i, j⟩ hp
    rw [mem_octCells] at hp
    rw [octCC76Loops_apply, if_pos hp]
    exact cc76Cell_rank_step hup stops _ _ (hyx i j hp.1 hp.2)
  obtain ⟨i1, i2⟩ := sum_map_le (octCells n) _ _ (fun p hp => (step p hp).1)
  refine ⟨i1, fun he i j hi hj => ?_⟩
  have hp : (i, j) ∈ octCells n := (mem_octCells n i j).2 ⟨hi, hj⟩
  exact (step (i, j) hp).2 (i2 he (i, j) hp)

/-- **The two loops of `BD_Shape::CC76_extrapolation_assign` stabilise**: for every list of stop points (sorted or
not), every start matrix and every adversary whose larger argument is cellwise at least the previous iterate,
the iterated matrix-level operator is eventually stationary on the cells.  (Matrix level: the real function
re-closes its arguments first; see the header.) -/
theorem bd_cc76_chain_stabilises {up : Rat → ExtRat} (hup : ∀ q, fin q ≤ up q) (stops : List Rat) (n : Nat)
    (y0 : Mat) (z : Nat → Mat → Mat) (hz : ∀ k m, bdLE n m (z k m)) :
    ∃ N, ∀ k, k ≥ N → ∀ i j, i ≤ n → j ≤ n →
      advSeq (fun x y => bdCC76Loops up stops n x y) y0 z (k + 1) i j
        = advSeq (fun x y => bdCC76Loops up stops n x y) y0 z k i j := by
  obtain ⟨N, hN⟩ := cc76_cells_chain_stabilises hup stops (bdCells n) (fun x y => bdCC76Loops up stops n x y)
    (fun x y p hp => by
      obtain ⟨i, j⟩ := p
      rw [mem_bdCells] at hp
      simp only
      rw [bdCC76Loops_apply, if_pos (by omega)])
    y0 z (fun k m p hp => by
      obtain ⟨i, j⟩ := p
      rw [mem_bdCells] at hp
      exact hz k m i j hp.1 hp.2)
  exact ⟨N, fun k hk i j hi hj => hN k hk (i, j) ((mem_bdCells n i j).2 ⟨hi, hj⟩)⟩

/-- **The element loop of `Octagonal_Shape::CC76_extrapolation_assign` stabilises** (matrix level, stored cells). -/
theorem oct_cc76_chain_stabilises {up : Rat → ExtRat} (hup : ∀ q, fin q ≤ up q) (stops : List Rat) (n : Nat)
    (y0 : Mat) (z : Nat → Mat → Mat) (hz : ∀ k m, octLE n m (z k m)) :
    ∃ N, ∀ k, k ≥ N → ∀ i j, i < 2 * n → j < rowSize i →
      advSeq (fun x y => octCC76Loops up stops n x y) y0 z (k + 1) i j
        = advSeq (fun x y => octCC76Loops up stops n x y) y0 z k i j := by
  obtain ⟨N, hN⟩ := cc76_cells_chain_stabilises hup stops (octCells n) (fun x y => octCC76Loops up stops n x y)
    (fun x y p hp => by
      obtain ⟨i, j⟩ := p
      rw [mem_octCells] at hp
      simp only
      rw [octCC76Loops_apply, if_pos hp])
    y0 z (fun k m p hp => by
      obtain ⟨i, j⟩ := p
      rw [mem_octCells] at hp
      exact hz k m i j hp.1 hp.2)
  exact ⟨N, fun k hk i j hi hj => hN k hk (i, j) ((mem_octCells n i j).2 ⟨hi, hj⟩)⟩

/-! ## boxes: the product of the interval result -/

/-- the rank of a box: the sum of the interval ranks -/
def boxRank (stops : List Rat) (b : BoxM) : Nat := (b.map (Itv.rank stops)).sum

theorem box_cc76_rank_step (stops : List Rat) (b zb : BoxM) (h : List.Forall₂ Itv.LE b zb) :
    boxRank stops (List.zipWith (Itv.cc76 stops) zb b) ≤ boxRank stops b ∧
    (boxRank stops (List.zipWith (Itv.cc76 stops) zb b) = boxRank stops b →
      List.Forall₂ Itv.Same (List.zipWith (Itv.cc76 stops) zb b) b) := by
  induction h with
  | nil => exact ⟨Nat.le_refl _, fun _ => List.Forall₂.nil⟩
  | @cons a c l1 l2 hab _ ih =>
    obtain ⟨s1, s2⟩ := cc76_rank_step stops a c hab
    obtain ⟨i1, i2⟩ := ih
    simp only [boxRank, List.zipWith_cons_cons, List.map_cons, List.sum_cons] at i1 i2 ⊢
    refine ⟨by omega, fun he => List.Forall₂.cons (s2 (by omega)) (i2 (by omega))⟩

/-- **`Box::CC76_widening_assign(y, first, last)` stabilises** (componentwise; the boxes keep their length):
against every adversary that supplies a larger argument containing the previous iterate on the boundaries
(`contains(y)`, the precondition of the method), the iterated `zipWith (Itv.cc76 stops)` eventually returns the
boundaries of the previous iterate. -/
theorem box_cc76_chain_stabilises (stops : List Rat) (b0 : BoxM) (z : Nat → BoxM → BoxM)
    (hz : ∀ k b, List.Forall₂ Itv.LE b (z k b)) :
    ∃ N, ∀ k, k ≥ N →
      List.Forall₂ Itv.Same (advSeq (fun x y => List.zipWith (Itv.cc76 stops) x y) b0 z (k + 1))
        (advSeq (fun x y => List.zipWith (Itv.cc76 stops) x y) b0 z k) := by
  obtain ⟨N, hN⟩ := nat_antitone_eventually_const
    (fun k => boxRank stops (advSeq (fun x y => List.zipWith (Itv.cc76 stops) x y) b0 z k))
    (fun k => (box_cc76_rank_step stops _ _ (hz k _)).1)
  exact ⟨N, fun k hk => (box_cc76_rank_step stops _ _ (hz k _)).2 (hN k hk)⟩

/-- stationary boundaries are the same points, component by component -/
theorem forall₂_same_mem_iff {a b : BoxM} (h : List.Forall₂ Itv.Same a b) :
    a.length = b.length ∧ ∀ i (h1 : i < a.length) (h2 : i < b.length) q, (a[i]).mem q ↔ (b[i]).mem q := by
  induction h with
  | nil => exact ⟨rfl, fun i h1 => by simp at h1⟩
  | cons hab _ ih =>
    obtain ⟨l, f⟩ := ih
    refine ⟨by simp [l], fun i h1 h2 q => ?_⟩
    cases i with
    | zero => exact hab.mem_iff q
    | succ i => simpa using f i (by simpa using h1) (by simpa using h2) q

/-! ## instances for the non-vacuity examples, and what closure does to the measure -/

/-- an adversary that really forces extrapolation: every finite cell grows by one -/
def matBump (m : Mat) : Mat :=
  { f := fun i j => match m i j with | .fin q => fin (q + 1) | .pinf => pinf }

theorem le_matBump (m : Mat) (i j : Nat) : m i j ≤ matBump m i j := by
  show m.f i j ≤ (match m.f i j with | .fin q => fin (q + 1) | .pinf => pinf)
  cases m.f i j with
  | pinf => exact le_pinf _
  | fin q => simp

theorem bdLE_matBump (n : Nat) (m : Mat) : bdLE n m (matBump m) := fun i j _ _ => le_matBump m i j
theorem octLE_matBump (n : Nat) (m : Mat) : octLE n m (matBump m) := fun i j _ _ => le_matBump m i j

/-- an adversary for boxes: every finite upper boundary grows by one -/
def boxBump (b : BoxM) : BoxM := b.map fun I => { I with hi := I.hi.map (· + 1) }

theorem forall₂_LE_boxBump (b : BoxM) : List.Forall₂ Itv.LE b (boxBump b) := by
  induction b with
  | nil => exact List.Forall₂.nil
  | cons I r ih =>
    refine List.Forall₂.cons ⟨(Itv.LE.refl I).1, ?_⟩ ih
    simp only [HiLE]
    cases I.hi with
    | none => trivial
    | some u => exact Or.inl (by show u < u + 1; linarith)

/-- dimension 1: `x₀ ≤ 0`, `-x₀ ≤ 0` -/
def exY1 : Mat := Mat.ofLists [[pinf, fin 0], [fin 0, pinf]]
/-- dimension 1: `x₀ ≤ 1/2`, `-x₀ ≤ 0` -/
def exX1 : Mat := Mat.ofLists [[pinf, fin (1/2)], [fin 0, pinf]]

/-- dimension 2, closed: `x₀ ≤ 1/4`, `x₁ - x₀ ≤ 1/4`, `x₁ ≤ 0` -/
def exY2 : Mat := Mat.ofLists [[pinf, fin (1/4), fin 0], [pinf, pinf, fin (1/4)], [pinf, pinf, pinf]]
/-- dimension 2, closed, cellwise above `exY2`: `x₀ ≤ 1/4`, `x₁ - x₀ ≤ 1/4`, `x₁ ≤ 1/2` -/
def exX2 : Mat := Mat.ofLists [[pinf, fin (1/4), fin (1/2)], [pinf, pinf, fin (1/4)], [pinf, pinf, pinf]]
/-- the result of the CC76 loops on `exX2`, `exY2` -/
def exW2 : Mat := bdCC76Loops upId defaultStops 2 exX2 exY2
/-- `shortest_path_closure_assign` of that result -/
def exC2 : Mat := (bdClosureAssign upId 2 { dbm := exW2 }).dbm

/-- **Closure undoes the progress of a CC76 step** (why the real function is an *extrapolation*): both arguments
are closed and `exY2 ≤ exX2` cellwise; the loops raise the cell `x₁ ≤ 1/2` to the stop point `1` (cell rank
`3 → 2`); re-closing the result, as the next call of the real function does, brings the cell back to `1/2`
through `x₀ ≤ 1/4`, `x₁ - x₀ ≤ 1/4`: the rank is `3` again although the cell is not the one of `exY2`.  So the
measure of `bd_cc76_chain_stabilises` does not survive the closure between two steps. -/
theorem bd_cc76_closure_undoes_progress :
    ((List.range 3).all fun i => (List.range 3).all fun j =>
        decide ((bdClosureAssign upId 2 { dbm := exX2 }).dbm i j = exX2 i j) &&
        decide ((bdClosureAssign upId 2 { dbm := exY2 }).dbm i j = exY2 i j) &&
        decide (exY2 i j ≤ exX2 i j)) = true ∧
    exY2 0 2 = fin 0 ∧ exX2 0 2 = fin (1/2) ∧ exW2 0 2 = fin 1 ∧ exC2 0 2 = fin (1/2) ∧
    cellRank defaultStops (exW2 0 2) < cellRank defaultStops (exY2 0 2) ∧
    cellRank defaultStops (exC2 0 2) = cellRank defaultStops (exY2 0 2) ∧ exC2 0 2 ≠ exY2 0 2 := by
  decide +kernel

end PPLV.Widen
