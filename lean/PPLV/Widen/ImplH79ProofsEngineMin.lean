import PPLV.Widen.ImplH79ProofsEngineMinG3
import PPLV.Widen.ImplH79ProofsEngineMinAbs1
import PPLV.Widen.ImplH79ProofsEngineMinAbs2

/-!
# C08 stage 2b — `MinimalDD.hymin` from the engine guarantees

`hymin_of_engine`: for a `YMin` with the engine guarantees `EngineDD n y` AND `FacetPoints y` (every
non-tautological inequality is saturated by a point of `gen_sys`), the number of non-tautological rows of
`y.conSys` is the least number of rows of a constraint system denoting the same set.

`FacetPoints` is NOT a consequence of `EngineDD` and the statement is false without it
(`ImplH79ProofsEngineMinEx.hymin_fails_without_facetPoints`): `n = 1`, `con_sys = {x = 0, 1 + x ≥ 0}`,
`gen_sys = {point 0}` has every `EngineDD` field, two non-tautological rows, and `{x = 0}` denotes the same
set.  (The real `simplify` back-substitutes the equalities into the inequalities, which turns `1 + x ≥ 0`
into the positivity constraint; `EngineDD` does not record that.)

Structure of the proof (`ImplH79ProofsEngineMinAbs0/1/2`: pure linear algebra over `ℚ`, rows as linear
functionals on `ℕ → ℚ`, everything homogeneous — "small ε" is replaced by "large multiple"):
* `Abs.facets_inj`: an injection of the inequalities of `y` into the rows of `D` that do not vanish on the
  polyhedron (interior vector, facet vectors `w_j`, a failing row of `D` at `M • w_j + x_j`);
* `Abs.eqs_count`: at least `e` rows of `D` vanish on the polyhedron (`mem_span_of_iInf_ker_le_ker`);
* `Abs.count_total`: `e + f ≤ m`.
-/
namespace PPLV.Widen.Impl

/-- every constraint system denoting the set of `y.conSys` has at least as many rows as `y.conSys` has
non-tautological ones -/
theorem nontaut_le_of_den_eq {n : Nat} {y : YMin} (hy : EngineDD n y) (hfp : FacetPoints y)
    (cs : List CRow) (wf : WFRows n cs) (hden : den false n cs = den false n y.conSys) :
    (y.conSys.filter (!·.isTautological false)).length ≤ cs.length := by
  rw [nontaut_length hy]
  have hs := setup_of_engine hy hfp cs wf hden
  exact Abs.count_total hs (famA_indep hy) (Abs.facets_inj hs)

theorem hymin_of_engine (n : Nat) (y : YMin) (hy : EngineDD n y) (hfp : FacetPoints y) :
    (y.conSys.filter (!·.isTautological false)).length = minCons n (den false n y.conSys) := by
  apply le_antisymm
  · apply le_csInf
    · exact ⟨_, _, wfRows_sublist List.filter_sublist hy.wf, rfl, den_filter_nontaut n y.conSys⟩
    · rintro k ⟨cs, wf, rfl, hden⟩
      exact nontaut_le_of_den_eq hy hfp cs wf hden
  · exact minCons_le_nontaut n y.conSys hy.wf

end PPLV.Widen.Impl
