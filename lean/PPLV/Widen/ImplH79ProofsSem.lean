import PPLV.Widen.ImplPolySem
import PPLV.Widen.ImplH79Proofs
import Mathlib.Algebra.BigOperators.Fin
import Mathlib.Tactic.Linarith

/-!
# C08 stage 2 — semantic lemmas about raw rows: `evalRow`, `den`, tautologies, affine forms
-/
namespace PPLV.Widen.Impl

theorem mem_den_false {n : Nat} {cs : List CRow} {p : Pt} :
    p ∈ den false n cs ↔ SatRows cs (hom n p 0) := Iff.rfl

theorem mem_den_true {n : Nat} {cs : List CRow} {p : Pt} :
    p ∈ den true n cs ↔ ∃ ε : Rat, 0 < ε ∧ SatRows cs (hom n p ε) := Iff.rfl

theorem SatRows.sublist {a b : List CRow} (h : a.Sublist b) {v : Nat → Rat} (hb : SatRows b v) :
    SatRows a v := fun c hc => hb c (h.subset hc)

theorem satRows_append {a b : List CRow} {v : Nat → Rat} :
    SatRows (a ++ b) v ↔ SatRows a v ∧ SatRows b v := by
  unfold SatRows
  simp only [List.mem_append]
  constructor
  · intro h; exact ⟨fun c hc => h c (Or.inl hc), fun c hc => h c (Or.inr hc)⟩
  · rintro ⟨h1, h2⟩ c (hc | hc)
    · exact h1 c hc
    · exact h2 c hc

/-- fewer constraints, more points (both topologies) -/
theorem den_mono_sublist (nnc : Bool) (n : Nat) {a b : List CRow} (h : a.Sublist b) :
    den nnc n b ⊆ den nnc n a := by
  intro p hp
  cases nnc
  · exact SatRows.sublist h hp
  · obtain ⟨ε, he, hs⟩ := hp
    exact ⟨ε, he, SatRows.sublist h hs⟩

theorem wfRows_sublist {n : Nat} {a b : List CRow} (h : a.Sublist b) (hb : WFRows n b) : WFRows n a :=
  fun c hc => hb c (h.subset hc)

/-! ### `evalRow` -/

theorem evalRow_eq_sum : ∀ (e : Vec) (v : Nat → Rat) (m : Nat), e.length ≤ m →
    evalRow e v = ∑ i ∈ Finset.range m, ((e.getD i 0 : Int) : Rat) * v i
  | [], v, m, _ => by simp [evalRow]
  | a :: as, v, m, h => by
    obtain ⟨m', rfl⟩ : ∃ m', m = m' + 1 := ⟨m - 1, by simp at h; omega⟩
    rw [Finset.sum_range_succ', evalRow, evalRow_eq_sum as _ m' (by simpa using h)]
    simp [add_comm]

theorem evalRow_all_zero : ∀ (e : Vec) (v : Nat → Rat), e.all (· == 0) = true → evalRow e v = 0
  | [], _, _ => rfl
  | a :: as, v, h => by
    simp only [List.all_cons, Bool.and_eq_true, beq_iff_eq] at h
    rw [evalRow, evalRow_all_zero as _ h.2, h.1]
    simp

/-- the affine form of a raw row -/
def affOf (n : Nat) (e : Vec) : Fin (n + 1) → ℚ := fun i => ((e.getD i.val 0 : Int) : ℚ)

/-- glue between `evalRow` at the homogeneous vector and the affine forms of `annih` -/
theorem evalRow_hom (n : Nat) (e : Vec) (h : e.length ≤ n + 1) (p : Pt) (ε : Rat) :
    evalRow e (hom n p ε) = affOf n e 0 + ∑ i : Fin n, affOf n e i.succ * p i := by
  have e2 : ∑ i : Fin n, affOf n e i.succ * p i =
      ∑ i ∈ Finset.range n, ((e.getD (i + 1) 0 : Int) : ℚ) * p i := by
    rw [Finset.sum_range]
    rfl
  rw [evalRow_eq_sum e _ (n + 1) h, Finset.sum_range_succ', e2]
  rw [add_comm]
  congr 1
  · simp [hom, affOf]
  · apply Finset.sum_congr rfl
    intro i hi
    have hi' : i < n := Finset.mem_range.mp hi
    have h1 : i + 1 ≤ n := hi'
    simp [hom, h1]

theorem affOf_mem_annih {n : Nat} {e : Vec} (h : e.length ≤ n + 1) {S : Set Pt} :
    affOf n e ∈ annih n S ↔ ∀ p ∈ S, evalRow e (hom n p 0) = 0 := by
  constructor
  · intro ha p hp
    rw [evalRow_hom n e h]
    exact ha p hp
  · intro ha p hp
    have := ha p hp
    rw [evalRow_hom n e h] at this
    exact this

theorem annih_anti {n : Nat} {S T : Set Pt} (h : S ⊆ T) : annih n T ≤ annih n S :=
  fun _ ha p hp => ha p (h hp)

/-! ### tautologies of a closed system hold everywhere -/

theorem holds_of_taut {c : CRow} (h : c.isTautological false = true) (v : Nat → Rat) (hv : v 0 = 1) :
    c.holds v := by
  unfold CRow.isTautological at h
  by_cases hz : allHomZero c.e = true
  · rw [if_pos hz] at h
    rcases c with ⟨e, eq⟩
    cases e with
    | nil =>
      unfold CRow.holds
      simp [evalRow]
    | cons a as =>
      have h0 : evalRow (a :: as) v = (a : ℚ) := by
        rw [evalRow, evalRow_all_zero as _ (by simpa [allHomZero] using hz), hv]; simp
      unfold CRow.holds
      cases eq
      · simp only [Bool.false_eq_true, if_false, List.headD_cons] at h
        have h' : 0 ≤ a := of_decide_eq_true h
        simp only [Bool.false_eq_true, if_false, h0]
        exact_mod_cast h'
      · simp only [if_true, List.headD_cons, beq_iff_eq] at h
        simp only [if_true, h0]
        exact_mod_cast h
  · rw [if_neg hz] at h
    simp at h

theorem hom_zero (n : Nat) (p : Pt) (ε : Rat) : hom n p ε 0 = 1 := by simp [hom]

/-- dropping the tautologies does not change the set -/
theorem den_filter_nontaut (n : Nat) (cs : List CRow) :
    den false n (cs.filter (!·.isTautological false)) = den false n cs := by
  apply Set.Subset.antisymm
  · intro p hp c hc
    by_cases ht : c.isTautological false = true
    · exact holds_of_taut ht _ (hom_zero n p 0)
    · exact hp c (List.mem_filter.mpr ⟨hc, by simpa using ht⟩)
  · exact den_mono_sublist false n List.filter_sublist

/-! ### `h79Rows` -/

theorem h79Rows_eq (x y : YMin) :
    h79Rows x y = (selectH79Constraints false x.conSys y.conSys y.genSys y.satG).1 := by
  unfold h79Rows
  by_cases h : (selectH79Constraints false x.conSys y.conSys y.genSys y.satG).2.isEmpty = true
  · simp only [h, if_true]
    exact (selectH79_fst_of_snd_empty _ _ _ _ _ h).symm
  · simp only [h]
    rfl

theorem h79Rows_sublist (x y : YMin) : (h79Rows x y).Sublist x.conSys := by
  rw [h79Rows_eq, selectH79_fst]
  exact List.filter_sublist

end PPLV.Widen.Impl
