import PPLV.Widen.ProofsConv
import Mathlib.Algebra.Order.Field.Rat
import Mathlib.Tactic.Linarith

/-!
# C08 — `Interval::CC76_widening_assign` converges outright

The interval widening with an arbitrary finite list of stop points: soundness (`cc76_sup`) and
convergence (`cc76_converges_adv`, `cc76_converges_chain`) with no hypothesis about certificates:
the measure `Itv.rank` (per boundary: `0` at infinity, else twice one plus the number of stop points
strictly beyond the boundary, plus one if open) strictly decreases at every non-stationary step.
-/
namespace PPLV.Widen

/-! ### `lower_bound` -/

theorem lowerBound_spec (stops : List Rat) (v : Rat) :
    (∀ i, i < lowerBound stops v → ∀ t, stops[i]? = some t → t < v) ∧
    (∀ t, stops[lowerBound stops v]? = some t → ¬ t < v) := by
  induction stops with
  | nil => simp [lowerBound]
  | cons s rest ih =>
    unfold lowerBound at *
    by_cases hs : s < v
    · simp only [List.takeWhile_cons, hs, decide_true, ↓reduceIte, List.length_cons]
      constructor
      · intro i hi t ht
        cases i with
        | zero => simp at ht; rw [← ht]; exact hs
        | succ i => exact ih.1 i (by omega) t (by simpa using ht)
      · intro t ht
        exact ih.2 t (by simpa using ht)
    · simp only [List.takeWhile_cons, hs, decide_false, Bool.false_eq_true, ↓reduceIte, List.length_nil]
      constructor
      · intro i hi; omega
      · intro t ht
        simp at ht; rw [← ht]; exact hs

theorem lowerBound_le (stops : List Rat) (v : Rat) : lowerBound stops v ≤ stops.length := by
  unfold lowerBound
  exact (List.takeWhile_sublist _).length_le

theorem filter_length_le {α : Type} (l : List α) (p q : α → Bool)
    (hpq : ∀ a, p a = true → q a = true) : (l.filter p).length ≤ (l.filter q).length := by
  induction l with
  | nil => simp
  | cons b r ihr =>
    by_cases hb : p b = true
    · rw [List.filter_cons_of_pos hb, List.filter_cons_of_pos (hpq b hb)]
      simp only [List.length_cons]; omega
    · rw [List.filter_cons_of_neg hb]
      by_cases hq : q b = true
      · rw [List.filter_cons_of_pos hq]; simp only [List.length_cons]; omega
      · rw [List.filter_cons_of_neg hq]; exact ihr

theorem filter_length_lt {α : Type} (l : List α) (p q : α → Bool)
    (hpq : ∀ a, p a = true → q a = true) (t : α) (ht : t ∈ l) (hq : q t = true) (hp : p t = false) :
    (l.filter p).length < (l.filter q).length := by
  induction l with
  | nil => simp at ht
  | cons a rest ih =>
    simp only [List.mem_cons] at ht
    rcases ht with rfl | ht
    · have hp' : ¬ p t = true := by simp [hp]
      rw [List.filter_cons_of_neg hp', List.filter_cons_of_pos hq]
      have := filter_length_le rest p q hpq
      simp only [List.length_cons]; omega
    · have := ih ht
      by_cases hb : p a = true
      · rw [List.filter_cons_of_pos hb, List.filter_cons_of_pos (hpq a hb)]
        simp only [List.length_cons]; omega
      · rw [List.filter_cons_of_neg hb]
        by_cases hq' : q a = true
        · rw [List.filter_cons_of_pos hq']; simp only [List.length_cons]; omega
        · rw [List.filter_cons_of_neg hq']; exact this

/-! ### what the two blocks return -/

/-- the upper block, when it extrapolates (`y_ub < x_ub`), returns `+∞` or a stop point `≥ x_ub` -/
theorem cc76Hi_widened (stops : List Rat) (xu yu : Rat) (h : yu < xu) :
    cc76Hi stops (some xu) (some yu) = none ∨
    ∃ t, cc76Hi stops (some xu) (some yu) = some t ∧ t ∈ stops ∧ xu ≤ t := by
  simp only [cc76Hi, h, ↓reduceIte]
  split_ifs with hk hlt
  · exact Or.inr ⟨_, rfl, List.getElem_mem hk, le_of_lt hlt⟩
  · refine Or.inr ⟨stops[lowerBound stops xu], ?_, List.getElem_mem hk, ?_⟩
    · have h2 := (lowerBound_spec stops xu).2 _ (List.getElem?_eq_getElem hk)
      have : xu = stops[lowerBound stops xu] := le_antisymm (not_lt.mp h2) (not_lt.mp hlt)
      rw [← this]
    · exact not_lt.mp ((lowerBound_spec stops xu).2 _ (List.getElem?_eq_getElem hk))
  · exact Or.inl rfl

theorem cc76Hi_same (stops : List Rat) (xu yu : Rat) (h : ¬ yu < xu) :
    cc76Hi stops (some xu) (some yu) = some xu := by
  simp [cc76Hi, h]

/-- the lower block, when it extrapolates (`y_lb > x_lb`), returns `-∞` or a stop point `≤ x_lb` -/
theorem cc76Lo_widened (stops : List Rat) (xl yl : Rat) (h : xl < yl) :
    cc76Lo stops (some xl) (some yl) = none ∨
    ∃ t, cc76Lo stops (some xl) (some yl) = some t ∧ t ∈ stops ∧ t ≤ xl := by
  have prev : ∀ k, k = lowerBound stops xl → k ≠ 0 →
      (stops[k - 1]? = none ∨ ∃ t, stops[k - 1]? = some t ∧ t ∈ stops ∧ t ≤ xl) := by
    intro k hk hk0
    cases hg : stops[k - 1]? with
    | none => exact Or.inl rfl
    | some t =>
      refine Or.inr ⟨t, rfl, List.mem_of_getElem? hg, le_of_lt ?_⟩
      exact (lowerBound_spec stops xl).1 (k - 1) (by omega) t hg
  simp only [cc76Lo, gt_iff_lt, h, ↓reduceIte]
  split_ifs with hk hlt hk0 hk0'
  · exact prev _ rfl hk0
  · exact Or.inl rfl
  · refine Or.inr ⟨xl, rfl, ?_, le_refl _⟩
    have h2 := (lowerBound_spec stops xl).2 _ (List.getElem?_eq_getElem hk)
    have : xl = stops[lowerBound stops xl] := le_antisymm (not_lt.mp h2) (not_lt.mp hlt)
    rw [this]; exact List.getElem_mem hk
  · exact prev _ rfl hk0'
  · exact Or.inl rfl

theorem cc76Lo_same (stops : List Rat) (xl yl : Rat) (h : ¬ xl < yl) :
    cc76Lo stops (some xl) (some yl) = some xl := by
  simp [cc76Lo, h]

/-! ### soundness: the result contains the larger argument (no precondition at all) -/

theorem cc76Hi_ge (stops : List Rat) (xh yh : Option Rat) :
    cc76Hi stops xh yh = none ∨ ∃ xu t, xh = some xu ∧ cc76Hi stops xh yh = some t ∧ xu ≤ t := by
  cases xh with
  | none => exact Or.inl rfl
  | some xu =>
    cases yh with
    | none => exact Or.inr ⟨xu, xu, rfl, rfl, le_refl _⟩
    | some yu =>
      by_cases h : yu < xu
      · rcases cc76Hi_widened stops xu yu h with h1 | ⟨t, h1, _, h3⟩
        · exact Or.inl h1
        · exact Or.inr ⟨xu, t, rfl, h1, h3⟩
      · exact Or.inr ⟨xu, xu, rfl, cc76Hi_same stops xu yu h, le_refl _⟩

theorem cc76Lo_le (stops : List Rat) (xl yl : Option Rat) :
    cc76Lo stops xl yl = none ∨ ∃ xv t, xl = some xv ∧ cc76Lo stops xl yl = some t ∧ t ≤ xv := by
  cases xl with
  | none => exact Or.inl rfl
  | some xv =>
    cases yl with
    | none => exact Or.inr ⟨xv, xv, rfl, rfl, le_refl _⟩
    | some yv =>
      by_cases h : xv < yv
      · rcases cc76Lo_widened stops xv yv h with h1 | ⟨t, h1, _, h3⟩
        · exact Or.inl h1
        · exact Or.inr ⟨xv, t, rfl, h1, h3⟩
      · exact Or.inr ⟨xv, xv, rfl, cc76Lo_same stops xv yv h, le_refl _⟩

/-- **The CC76 interval widening returns a superset of its larger argument** (for every list of stop
    points, sorted or not, and every `y`). -/
theorem loOK_mono (o : Bool) (t xv q : Rat) (h : t ≤ xv) (hq : loOK (some xv) o q) : loOK (some t) o q := by
  cases o <;> simp only [loOK] at hq ⊢
  · simp at hq ⊢; linarith
  · simp at hq ⊢; linarith

theorem hiOK_mono (o : Bool) (t xu q : Rat) (h : xu ≤ t) (hq : hiOK (some xu) o q) : hiOK (some t) o q := by
  cases o <;> simp only [hiOK] at hq ⊢
  · simp at hq ⊢; linarith
  · simp at hq ⊢; linarith

theorem cc76_sup (stops : List Rat) (x y : Itv) (q : Rat) (h : x.mem q) : (x.cc76 stops y).mem q := by
  obtain ⟨hl, hh⟩ := h
  refine ⟨?_, ?_⟩
  · simp only [Itv.cc76]
    rcases cc76Lo_le stops x.lo y.lo with h1 | ⟨xv, t, e, h1, h2⟩
    · rw [h1]; trivial
    · rw [h1]; rw [e] at hl
      exact loOK_mono _ _ _ _ h2 hl
  · simp only [Itv.cc76]
    rcases cc76Hi_ge stops x.hi y.hi with h1 | ⟨xu, t, e, h1, h2⟩
    · rw [h1]; trivial
    · rw [h1]; rw [e] at hh
      exact hiOK_mono _ _ _ _ h2 hh

/-! ### the structural order on boundaries (what `PPL_ASSERT(contains(y))` says about them) -/

/-- upper boundary `a` is at or below upper boundary `b` -/
def HiLE (a b : Option Rat × Bool) : Prop :=
  match a.1, b.1 with
  | _, none => True
  | none, some _ => False
  | some u, some v => u < v ∨ (u = v ∧ (a.2 = true ∨ b.2 = false))

/-- lower boundary `b` is at or below lower boundary `a` -/
def LoGE (a b : Option Rat × Bool) : Prop :=
  match a.1, b.1 with
  | _, none => True
  | none, some _ => False
  | some u, some v => v < u ∨ (u = v ∧ (a.2 = true ∨ b.2 = false))

/-- `y ⊆ x` on the boundaries -/
def Itv.LE (y x : Itv) : Prop :=
  LoGE (y.lo, y.loOpen) (x.lo, x.loOpen) ∧ HiLE (y.hi, y.hiOpen) (x.hi, x.hiOpen)

/-- same boundaries (flags of infinite boundaries are irrelevant) -/
def Itv.Same (a b : Itv) : Prop :=
  a.lo = b.lo ∧ (a.lo = none ∨ a.loOpen = b.loOpen) ∧ a.hi = b.hi ∧ (a.hi = none ∨ a.hiOpen = b.hiOpen)

theorem Itv.Same.mem_iff {a b : Itv} (h : a.Same b) (q : Rat) : a.mem q ↔ b.mem q := by
  obtain ⟨h1, h2, h3, h4⟩ := h
  unfold Itv.mem
  rw [← h1, ← h3]
  have e1 : loOK a.lo a.loOpen q ↔ loOK a.lo b.loOpen q := by
    rcases h2 with h2 | h2
    · rw [h2]; simp [loOK]
    · rw [h2]
  have e2 : hiOK a.hi a.hiOpen q ↔ hiOK a.hi b.hiOpen q := by
    rcases h4 with h4 | h4
    · rw [h4]; simp [hiOK]
    · rw [h4]
  rw [e1, e2]

/-! ### the measure decreases -/

theorem rankHi_step (stops : List Rat) (yh zh : Option Rat) (yo zo : Bool)
    (hle : HiLE (yh, yo) (zh, zo)) :
    rankHi stops (cc76Hi stops zh yh) zo ≤ rankHi stops yh yo ∧
    (rankHi stops (cc76Hi stops zh yh) zo = rankHi stops yh yo →
      cc76Hi stops zh yh = yh ∧ (yh = none ∨ zo = yo)) := by
  cases zh with
  | none =>
    simp only [cc76Hi, rankHi]
    refine ⟨Nat.zero_le _, fun h => ?_⟩
    cases yh with
    | none => exact ⟨rfl, Or.inl rfl⟩
    | some yu => simp [rankHi] at h; omega
  | some zu =>
    cases yh with
    | none => simp [HiLE] at hle
    | some yu =>
      simp only [HiLE] at hle
      by_cases hlt : yu < zu
      · -- extrapolation: strictly smaller rank
        have strict : rankHi stops (cc76Hi stops (some zu) (some yu)) zo < rankHi stops (some yu) yo := by
          rcases cc76Hi_widened stops zu yu hlt with h1 | ⟨t, h1, h2, h3⟩
          · rw [h1]; simp [rankHi]
          · rw [h1]
            have hty : yu < t := lt_of_lt_of_le hlt h3
            have := filter_length_lt stops (fun s => decide (t < s)) (fun s => decide (yu < s))
              (fun a ha => by simp at ha ⊢; exact lt_trans hty ha) t h2 (by simpa using hty) (by simp)
            simp only [rankHi]
            split_ifs <;> omega
        exact ⟨le_of_lt strict, fun h => absurd h (ne_of_lt strict)⟩
      · have hs := cc76Hi_same stops zu yu hlt
        rw [hs]
        rcases hle with hle | ⟨e, hle⟩
        · exact absurd hle hlt
        · subst e
          refine ⟨?_, fun h => ⟨rfl, Or.inr ?_⟩⟩
          · simp only [rankHi]
            cases zo <;> cases yo <;> simp_all
          · simp only [rankHi] at h
            cases zo <;> cases yo <;> simp_all

theorem rankLo_step (stops : List Rat) (yl zl : Option Rat) (yo zo : Bool)
    (hle : LoGE (yl, yo) (zl, zo)) :
    rankLo stops (cc76Lo stops zl yl) zo ≤ rankLo stops yl yo ∧
    (rankLo stops (cc76Lo stops zl yl) zo = rankLo stops yl yo →
      cc76Lo stops zl yl = yl ∧ (yl = none ∨ zo = yo)) := by
  cases zl with
  | none =>
    simp only [cc76Lo, rankLo]
    refine ⟨Nat.zero_le _, fun h => ?_⟩
    cases yl with
    | none => exact ⟨rfl, Or.inl rfl⟩
    | some yu => simp [rankLo] at h; omega
  | some zv =>
    cases yl with
    | none => simp [LoGE] at hle
    | some yv =>
      simp only [LoGE] at hle
      by_cases hlt : zv < yv
      · have strict : rankLo stops (cc76Lo stops (some zv) (some yv)) zo < rankLo stops (some yv) yo := by
          rcases cc76Lo_widened stops zv yv hlt with h1 | ⟨t, h1, h2, h3⟩
          · rw [h1]; simp [rankLo]
          · rw [h1]
            have hty : t < yv := lt_of_le_of_lt h3 hlt
            have := filter_length_lt stops (fun s => decide (s < t)) (fun s => decide (s < yv))
              (fun a ha => by simp at ha ⊢; exact lt_trans ha hty) t h2 (by simpa using hty) (by simp)
            simp only [rankLo]
            split_ifs <;> omega
        exact ⟨le_of_lt strict, fun h => absurd h (ne_of_lt strict)⟩
      · have hs := cc76Lo_same stops zv yv hlt
        rw [hs]
        rcases hle with hle | ⟨e, hle⟩
        · exact absurd hle hlt
        · subst e
          refine ⟨?_, fun h => ⟨rfl, Or.inr ?_⟩⟩
          · simp only [rankLo]
            cases zo <;> cases yo <;> simp_all
          · simp only [rankLo] at h
            cases zo <;> cases yo <;> simp_all

/-- one application: the rank does not increase, and if it stays the boundaries stay -/
theorem cc76_rank_step (stops : List Rat) (y z : Itv) (hle : y.LE z) :
    (z.cc76 stops y).rank stops ≤ y.rank stops ∧
    ((z.cc76 stops y).rank stops = y.rank stops → (z.cc76 stops y).Same y) := by
  obtain ⟨hl, hh⟩ := hle
  obtain ⟨l1, l2⟩ := rankLo_step stops y.lo z.lo y.loOpen z.loOpen hl
  obtain ⟨h1, h2⟩ := rankHi_step stops y.hi z.hi y.hiOpen z.hiOpen hh
  simp only [Itv.rank, Itv.cc76]
  refine ⟨by omega, fun h => ?_⟩
  obtain ⟨a1, a2⟩ := l2 (by omega)
  obtain ⟨b1, b2⟩ := h2 (by omega)
  refine ⟨a1, ?_, b1, ?_⟩
  · rcases a2 with a2 | a2
    · exact Or.inl (by rw [a1, a2])
    · exact Or.inr a2
  · rcases b2 with b2 | b2
    · exact Or.inl (by rw [b1, b2])
    · exact Or.inr b2

/-- a non-increasing sequence of naturals is eventually constant -/
theorem nat_antitone_eventually_const (f : Nat → Nat) (h : ∀ i, f (i + 1) ≤ f i) :
    ∃ N, ∀ i ≥ N, f (i + 1) = f i := by
  have := eventually_const_of_wf (· < · : Nat → Nat → Prop) Nat.lt_wfRel.wf f
    (fun i => by have := h i; omega)
  exact this

/-- **`Interval::CC76_widening_assign` converges, outright**: for every list of stop points and every
    environment that supplies larger arguments respecting the method's precondition
    (`contains(y)`, on the boundaries), the iterated widening is eventually stationary. -/
theorem cc76_converges_adv (stops : List Rat) (x0 : Itv) (z : Nat → Itv → Itv)
    (hz : ∀ (i : Nat) (x : Itv), x.LE (z i x)) :
    ∃ N, ∀ i ≥ N, ∀ q, (advSeq (Itv.cc76 stops) x0 z (i + 1)).mem q ↔ (advSeq (Itv.cc76 stops) x0 z i).mem q := by
  obtain ⟨N, hN⟩ := nat_antitone_eventually_const (fun i => (advSeq (Itv.cc76 stops) x0 z i).rank stops)
    (fun i => (cc76_rank_step stops _ _ (hz i _)).1)
  refine ⟨N, fun i hi q => ?_⟩
  exact ((cc76_rank_step stops _ _ (hz i _)).2 (hN i hi)).mem_iff q

/-! ### the chain form: joins of non-empty intervals respect the precondition -/

theorem hullHi_ge_left (a b : Option Rat × Bool) : HiLE a (hullHi a b) := by
  obtain ⟨a1, a2⟩ := a; obtain ⟨b1, b2⟩ := b
  cases a1 <;> cases b1 <;> simp only [hullHi, HiLE]
  rename_i u v
  split_ifs with h1 h2
  · exact Or.inl h1
  · exact Or.inr ⟨rfl, by cases a2 <;> simp⟩
  · exact Or.inr ⟨rfl, by cases a2 <;> cases b2 <;> simp⟩

theorem hullLo_le_left (a b : Option Rat × Bool) : LoGE a (hullLo a b) := by
  obtain ⟨a1, a2⟩ := a; obtain ⟨b1, b2⟩ := b
  cases a1 <;> cases b1 <;> simp only [hullLo, LoGE]
  rename_i u v
  split_ifs with h1 h2
  · exact Or.inr ⟨rfl, by cases a2 <;> simp⟩
  · exact Or.inl h2
  · exact Or.inr ⟨rfl, by cases a2 <;> cases b2 <;> simp⟩

theorem Itv.LE.refl (a : Itv) : a.LE a := by
  constructor
  · simp only [LoGE]; cases a.lo <;> cases a.loOpen <;> simp
  · simp only [HiLE]; cases a.hi <;> cases a.hiOpen <;> simp

theorem Itv.join_ge_left (a b : Itv) (ha : a.isEmpty = false) : a.LE (a.join b) := by
  unfold Itv.join
  rw [ha]
  by_cases hb : b.isEmpty = true
  · simp only [Bool.false_eq_true, ↓reduceIte, hb]
    exact Itv.LE.refl a
  · simp only [Bool.false_eq_true, ↓reduceIte, hb]
    exact ⟨hullLo_le_left _ _, hullHi_ge_left _ _⟩

theorem Itv.nonempty_of_LE {y x : Itv} (h : y.LE x) (hy : y.isEmpty = false) : x.isEmpty = false := by
  obtain ⟨hl, hh⟩ := h
  unfold Itv.isEmpty at hy ⊢
  cases hxl : x.lo with
  | none => simp
  | some xl =>
    cases hxh : x.hi with
    | none => simp
    | some xu =>
      rw [hxl] at hl; rw [hxh] at hh
      cases hyl : y.lo with
      | none => rw [hyl] at hl; simp [LoGE] at hl
      | some yl =>
        cases hyh : y.hi with
        | none => rw [hyh] at hh; simp [HiLE] at hh
        | some yu =>
          rw [hyl] at hl; rw [hyh] at hh
          simp only [hyl, hyh, Bool.or_eq_false_iff, decide_eq_false_iff_not, Bool.and_eq_false_imp,
            decide_eq_true_eq] at hy
          simp only [LoGE] at hl
          simp only [HiLE] at hh
          simp only [Bool.or_eq_false_iff, decide_eq_false_iff_not, Bool.and_eq_false_imp,
            decide_eq_true_eq]
          obtain ⟨hy1, hy2⟩ := hy
          have hy1' : yl ≤ yu := not_lt.mp hy1
          refine ⟨?_, ?_⟩
          · rcases hl with hl | ⟨e, _⟩ <;> rcases hh with hh | ⟨e', _⟩ <;> intro hc <;> linarith
          · intro e
            subst e
            rcases hl with hl | ⟨e1, hl⟩
            · rcases hh with hh | ⟨e', _⟩ <;> linarith
            · rcases hh with hh | ⟨e2, hh⟩
              · linarith
              · subst e1; subst e2
                have := hy2 rfl
                cases h1 : y.loOpen <;> cases h2 : y.hiOpen <;> cases h3 : x.loOpen <;>
                  cases h4 : x.hiOpen <;> simp_all

theorem cc76_LE (stops : List Rat) (x y : Itv) : x.LE (x.cc76 stops y) := by
  constructor
  · simp only [LoGE, Itv.cc76]
    rcases cc76Lo_le stops x.lo y.lo with h1 | ⟨xv, t, e, h1, h2⟩
    · rw [h1]; cases x.lo <;> trivial
    · rw [h1, e]
      simp only
      rcases lt_or_eq_of_le h2 with h | h
      · exact Or.inl h
      · exact Or.inr ⟨h.symm, by cases x.loOpen <;> simp⟩
  · simp only [HiLE, Itv.cc76]
    rcases cc76Hi_ge stops x.hi y.hi with h1 | ⟨xu, t, e, h1, h2⟩
    · rw [h1]; cases x.hi <;> trivial
    · rw [h1, e]
      simp only
      rcases lt_or_eq_of_le h2 with h | h
      · exact Or.inl h
      · exact Or.inr ⟨h, by cases x.hiOpen <;> simp⟩

theorem iter_nonempty (stops : List Rat) (chain : Nat → Itv) (h0 : (chain 0).isEmpty = false) (i : Nat) :
    (iterW Itv.join (Itv.widen stops) chain i).isEmpty = false := by
  induction i with
  | zero => exact h0
  | succ i ih =>
    simp only [iterW, Itv.widen, ih]
    exact Itv.nonempty_of_LE (cc76_LE stops _ _) (Itv.nonempty_of_LE (Itv.join_ge_left _ _ ih) ih)

/-- **Chain form**: along any sequence of intervals (not even required to be ascending) starting from a
    non-empty one, `xᵢ₊₁ = (xᵢ ⊔ cᵢ₊₁).CC76_widening_assign(xᵢ)` is eventually stationary. -/
theorem cc76_converges_chain (stops : List Rat) (chain : Nat → Itv) (h0 : (chain 0).isEmpty = false) :
    ∃ N, ∀ i ≥ N, ∀ q, (iterW Itv.join (Itv.widen stops) chain (i + 1)).mem q ↔
      (iterW Itv.join (Itv.widen stops) chain i).mem q := by
  obtain ⟨N, hN⟩ := nat_antitone_eventually_const
    (fun i => (iterW Itv.join (Itv.widen stops) chain i).rank stops)
    (fun i => by
      have hne := iter_nonempty stops chain h0 i
      simp only [iterW, Itv.widen, hne]
      exact (cc76_rank_step stops _ _ (Itv.join_ge_left _ _ hne)).1)
  refine ⟨N, fun i hi q => ?_⟩
  have hne := iter_nonempty stops chain h0 i
  have h := hN i hi
  simp only [iterW, Itv.widen, hne] at h ⊢
  exact ((cc76_rank_step stops _ _ (Itv.join_ge_left _ _ hne)).2 h).mem_iff q

end PPLV.Widen
