import PPLV.Widen.ImplGridProofsCg2

/-!
# C08, stage 2 — `limited_congruence_extrapolation_assign`, congruence path

`limitedBody` with a null token pointer adds to the widened grid the supplied congruences that `x` satisfies
(strongly normalised); the result lies between `x` and the plain widening and satisfies every added congruence.
With a positive token count the body is the widening itself.
-/
namespace PPLV.Widen.ImplGrid
open PPLV.Lattice PPLV.Lattice.Red

/-! ### unfolding `limitedBody` -/

/-- with tokens the limited extrapolation is the widening (l.206: `if (tp != NULL && *tp > 0) widening_assign(y, tp)`) -/
theorem limitedBody_tokens (w : GridM → GridM → Option Nat → GridM × GridM × Option Nat × String)
    (sat : GridM → CRow → Bool) (x y : GridM) (cgs : List CRow) (t : Nat)
    (hc : cgs ≠ []) (hy : y.empty = false) (hx : x.empty = false) (hn : x.n ≠ 0) (hg : x.genUp = true) :
    limitedBody w sat x y cgs (some (t + 1)) = w x y (some (t + 1)) := by
  have hce : cgs.isEmpty = false := by cases cgs <;> simp_all
  unfold limitedBody
  simp [hce, hy, hx, hn, hg]

/-- the congruences `limitedBody` adds -/
def limitedNewCgs (sat : GridM → CRow → Bool) (x : GridM) (cgs : List CRow) : List CRow :=
  (cgs.filter (relationIsIncluded sat x)).map strongNormalizeCg

/-- without tokens: the widening, then `add_recycled_congruences(new_cgs)` -/
theorem limitedBody_none (w : GridM → GridM → Option Nat → GridM × GridM × Option Nat × String)
    (sat : GridM → CRow → Bool) (x y : GridM) (cgs : List CRow) (tp : Option Nat) (htp : tp = none ∨ tp = some 0)
    (hc : cgs ≠ []) (hy : y.empty = false) (hx : x.empty = false) (hn : x.n ≠ 0) (hg : x.genUp = true) :
    limitedBody w sat x y cgs tp =
      ((w x y tp).1.addRecycledCongruences (limitedNewCgs sat x cgs), (w x y tp).2.1, (w x y tp).2.2.1, (w x y tp).2.2.2) := by
  have hce : cgs.isEmpty = false := by cases cgs <;> simp_all
  unfold limitedBody limitedNewCgs
  rcases htp with rfl | rfl <;> simp [hce, hy, hx, hn, hg]

/-! ### `add_recycled_congruences` -/

theorem addRecycledCongruences_of_empty (g : GridM) (cgs : List CRow) (he : g.empty = true) :
    g.addRecycledCongruences cgs = g := by
  unfold GridM.addRecycledCongruences
  simp [he]

theorem addRecycledCongruences_con (g : GridM) (cgs : List CRow) (he : g.empty = false) (hup : g.cgUp = true) :
    (g.addRecycledCongruences cgs).con = g.con ++ cgs := by
  unfold GridM.addRecycledCongruences
  cases cgs with
  | nil => simp
  | cons a l => simp [he, hup]

theorem cgsSem_append (n : Nat) (a b : List CRow) (p : Pt) :
    cgsSem n (a ++ b) p ↔ cgsSem n a p ∧ ∀ r ∈ b, rsem r p := by
  rw [cgsSem_iff, cgsSem_iff, Sol_iff_mem, Sol_iff_mem]
  constructor
  · rintro ⟨hs, h⟩
    exact ⟨⟨hs, fun r hr => h r (List.mem_append_left _ hr)⟩, fun r hr => h r (List.mem_append_right _ hr)⟩
  · rintro ⟨⟨hs, h1⟩, h2⟩
    refine ⟨hs, fun r hr => ?_⟩
    rcases List.mem_append.mp hr with h | h
    · exact h1 r h
    · exact h2 r h

/-- the false congruence has no solution -/
theorem not_rsem_falseRow (n : Nat) (p : Pt) : ¬ rsem (falseRow n) p := by
  rintro ⟨t, ht⟩
  have hc : evalRow (falseRow n).e p = ((get (falseRow n).e 0 : Int) : ℚ) :=
    evalRow_const _ p (fun i hi => by
      cases i with
      | zero => omega
      | succ j => show get (1 :: List.replicate n 0) (j + 1) = 0
                  rw [get_cons_succ]; exact get_replicate_zero n j)
  rw [hc] at ht
  have : get (falseRow n).e 0 = 1 := rfl
  rw [this] at ht
  simp [falseRow] at ht

theorem not_cgsSem_setEmpty (g : GridM) (n : Nat) (p : Pt) : ¬ cgsSem n g.setEmpty.con p := by
  intro h
  have := ((cgsSem_iff _ _ _).mp h).2
  rw [Sol_iff_mem] at this
  exact not_rsem_falseRow g.n p (this _ (by simp [GridM.setEmpty]))

/-- "found empty" is `set_empty()` -/
theorem minimizeCongruences_of_true (g : GridM) (h : (g.minimizeCongruences).2 = true) :
    (g.minimizeCongruences).1 = g.setEmpty := by
  by_cases hup : g.cgUp = true
  · by_cases hmin : g.cgMin = true
    · have e : g.minimizeCongruences = (g, false) := by
        unfold GridM.minimizeCongruences; simp [hup, hmin]
      rw [e] at h; cases h
    · have hmin' : g.cgMin = false := by simpa using hmin
      by_cases hf : (simplifyCgs g.n g.con g.dk).2.2 = true
      · have e : g.minimizeCongruences = (g.setEmpty, true) := by
          unfold GridM.minimizeCongruences; simp [hup, hmin', hf]
        rw [e]
      · have hf' : (simplifyCgs g.n g.con g.dk).2.2 = false := by simpa using hf
        have e : (g.minimizeCongruences).2 = false := by
          unfold GridM.minimizeCongruences; simp [hup, hmin', hf']
        rw [e] at h; cases h
  · have e : (g.minimizeCongruences).2 = false := by
      unfold GridM.minimizeCongruences; simp [hup]
    rw [e] at h; cases h

/-! ### flags of the grid the plain widening assigns -/

theorem congruenceWideningAssign_fst_flags (contains : GridM → GridM → Bool) (x y : GridM)
    (hxup : x.cgUp = true) (hxwf : CWf x.n x.con) (hxe : x.empty = false) (hye : y.empty = false) (hn : x.n ≠ 0)
    (hne : (x.minimizeCongruences).2 = false) :
    (congruenceWideningAssign contains x y none).1.empty = false ∧
      (congruenceWideningAssign contains x y none).1.cgUp = true := by
  have h0 : ¬ (x.n = 0 ∨ x.empty = true ∨ y.empty = true) := by
    rw [hxe, hye]; simp; exact hn
  obtain ⟨_, hme, hmup, _, _⟩ := (minimizeCongruences_spec x hxup hxwf).1 hne
  have keep : (x.minimizeCongruences).1.empty = false ∧ (x.minimizeCongruences).1.cgUp = true :=
    ⟨by rw [hme, hxe], hmup⟩
  by_cases hy : (y.minimizeCongruences).2 = true
  · rw [congruenceWideningAssign_y_empty _ _ _ _ h0 hne hy]; exact keep
  have hy' : (y.minimizeCongruences).2 = false := by simpa using hy
  by_cases hlt : numEqualities (x.minimizeCongruences).1.con < numEqualities (y.minimizeCongruences).1.con
  · rw [congruenceWideningAssign_fewer_equalities _ _ _ _ h0 hne hy' hlt]; exact keep
  by_cases hall : (selectWiderCongruences (x.minimizeCongruences).1.n (x.minimizeCongruences).1.con
      (x.minimizeCongruences).1.dk (y.minimizeCongruences).1.con (y.minimizeCongruences).1.dk).length
        = (x.minimizeCongruences).1.con.length
  · rw [congruenceWideningAssign_all_selected _ _ _ _ h0 hne hy' hlt hall]; exact keep
  · rw [congruenceWideningAssign_widened _ _ _ _ (Or.inl rfl) h0 hne hy' hlt hall]
    obtain ⟨f1, f2, _⟩ := addRecycledCongruences_universe_flags (x.minimizeCongruences).1.n
      (selectWiderCongruences (x.minimizeCongruences).1.n (x.minimizeCongruences).1.con
        (x.minimizeCongruences).1.dk (y.minimizeCongruences).1.con (y.minimizeCongruences).1.dk)
    exact ⟨f1, f2⟩

/-- the grid the limited extrapolation assigns: the plain one (found empty), or the plain one with the new rows -/
theorem limitedBody_cg_con (contains : GridM → GridM → Bool) (sat : GridM → CRow → Bool) (x y : GridM)
    (cgs : List CRow) (hxup : x.cgUp = true) (hxg : x.genUp = true) (hxwf : CWf x.n x.con)
    (hxe : x.empty = false) (hye : y.empty = false) (hn : x.n ≠ 0) (hc : cgs ≠ []) :
    ((x.minimizeCongruences).2 = true ∧
      (limitedBody (congruenceWideningAssign contains) sat x y cgs none).1 = x.setEmpty ∧
      (congruenceWideningAssign contains x y none).1 = x.setEmpty) ∨
    ((x.minimizeCongruences).2 = false ∧
      (limitedBody (congruenceWideningAssign contains) sat x y cgs none).1.con =
        (congruenceWideningAssign contains x y none).1.con ++ limitedNewCgs sat x cgs) := by
  rw [limitedBody_none _ sat x y cgs none (Or.inl rfl) hc hye hxe hn hxg]
  by_cases hne : (x.minimizeCongruences).2 = true
  · left
    have h0 : ¬ (x.n = 0 ∨ x.empty = true ∨ y.empty = true) := by
      rw [hxe, hye]; simp; exact hn
    have e : (congruenceWideningAssign contains x y none).1 = x.setEmpty := by
      rw [congruenceWideningAssign_x_empty _ _ _ _ h0 hne]
      exact minimizeCongruences_of_true x hne
    refine ⟨hne, ?_, e⟩
    show (congruenceWideningAssign contains x y none).1.addRecycledCongruences _ = _
    rw [e]
    exact addRecycledCongruences_of_empty _ _ rfl
  · right
    have hne' : (x.minimizeCongruences).2 = false := by simpa using hne
    obtain ⟨f1, f2⟩ := congruenceWideningAssign_fst_flags contains x y hxup hxwf hxe hye hn hne'
    exact ⟨hne', addRecycledCongruences_con _ _ f1 f2⟩

/-! ### between `x` and the plain widening -/

/-- `x.limited_congruence_extrapolation_assign(y, cgs)` (null token pointer, non-empty `cgs`): the result contains
    `x`, is contained in the plain congruence widening, and satisfies every supplied congruence that was selected -/
theorem limitedBody_cg_between (contains : GridM → GridM → Bool) (sat : GridM → CRow → Bool) (n : Nat) (x y : GridM)
    (cgs : List CRow)
    (hxup : x.cgUp = true) (hxg : x.genUp = true) (hyup : y.cgUp = true) (hxn : x.n = n) (hyn : y.n = n)
    (hxwf : CWf n x.con) (hywf : CWf n y.con) (hxe : x.empty = false) (hye : y.empty = false) (hn : 0 < n)
    (hc : cgs ≠ [])
    (hsat : ∀ c, sat x c = true → ∀ p, cgsSem n x.con p → rsem c p) :
    let plain := congruenceWideningAssign contains x y none
    let r := limitedBody (congruenceWideningAssign contains) sat x y cgs none
    (∀ p, cgsSem n x.con p → cgsSem n r.1.con p) ∧
    (∀ p, cgsSem n r.1.con p → cgsSem n plain.1.con p) ∧
    (∀ c ∈ cgs, relationIsIncluded sat x c = true → ∀ p, cgsSem n r.1.con p → rsem c p) := by
  intro plain r
  have hn' : x.n ≠ 0 := by omega
  have hxwf' : CWf x.n x.con := by rw [hxn]; exact hxwf
  have hcon := limitedBody_cg_con contains sat x y cgs hxup hxg hxwf' hxe hye hn' hc
  refine ⟨fun p hp => ?_, fun p hp => ?_, fun c hc' hrel p hp => ?_⟩
  · obtain ⟨_, _, hpl⟩ := congruenceWideningAssign_contains_x contains n x y hxup hyup hxn hyn hxwf hywf hxe hye hn p hp
    rcases hcon with ⟨hemp, _, _⟩ | ⟨_, e⟩
    · have := (minimizeCongruences_spec x hxup hxwf').2 hemp p
      rw [hxn] at this
      exact absurd hp this
    · show cgsSem n (limitedBody (congruenceWideningAssign contains) sat x y cgs none).1.con p
      rw [e, cgsSem_append]
      refine ⟨hpl, fun c' hc' => ?_⟩
      unfold limitedNewCgs at hc'
      obtain ⟨c, hcm, rfl⟩ := List.mem_map.mp hc'
      have hrel := (List.mem_filter.mp hcm).2
      rw [rsem_strongNormalizeCg']
      have hs : sat x c = true := by
        unfold relationIsIncluded at hrel
        simp only [Bool.and_eq_true] at hrel
        exact hrel.2
      exact hsat c hs p hp
  · rcases hcon with ⟨_, e1, e2⟩ | ⟨_, e⟩
    · show cgsSem n (congruenceWideningAssign contains x y none).1.con p
      have hp' : cgsSem n (limitedBody (congruenceWideningAssign contains) sat x y cgs none).1.con p := hp
      rw [e1] at hp'; rw [e2]; exact hp'
    · have hp' : cgsSem n (limitedBody (congruenceWideningAssign contains) sat x y cgs none).1.con p := hp
      rw [e, cgsSem_append] at hp'
      exact hp'.1
  · have hp' : cgsSem n (limitedBody (congruenceWideningAssign contains) sat x y cgs none).1.con p := hp
    rcases hcon with ⟨_, e1, _⟩ | ⟨_, e⟩
    · rw [e1] at hp'
      exact absurd hp' (not_cgsSem_setEmpty x n p)
    · rw [e, cgsSem_append] at hp'
      have := hp'.2 (strongNormalizeCg c) (by
        unfold limitedNewCgs
        exact List.mem_map.mpr ⟨c, List.mem_filter.mpr ⟨hc', hrel⟩, rfl⟩)
      exact (rsem_strongNormalizeCg' c p).mp this

/-- `limited_congruence_extrapolation_assign` with a non-empty `cgs` is `limitedBody` on the congruence widening -/
theorem limitedCongruenceExtrapolationAssign_eq (contains : GridM → GridM → Bool) (sat : GridM → CRow → Bool)
    (x y : GridM) (cgs : List CRow) (tp : Option Nat) (hc : cgs ≠ []) :
    limitedCongruenceExtrapolationAssign contains sat x y cgs tp =
      limitedBody (congruenceWideningAssign contains) sat x y cgs tp := by
  have hce : cgs.isEmpty = false := by cases cgs <;> simp_all
  unfold limitedCongruenceExtrapolationAssign
  simp [hce]

/-! ### example: `exX`, `exY` of `ImplGridProofsCg2`, the supplied congruence `A ≡ 0 (mod 2)` holds of `exX` -/

def exXg : GridM := { exX with genUp := true }

/-- the plain widening drops the congruence on `A`; the limited one gets `A ≡ 0 (mod 2)` back -/
example : (limitedBody (congruenceWideningAssign fun _ _ => false) (fun _ _ => true) exXg exY [⟨[0, 1, 0], 2⟩] none).1.con =
    (congruenceWideningAssign (fun _ _ => false) exXg exY none).1.con ++ [⟨[0, 1, 0], 2⟩] := by
  decide +kernel
example : (limitedBody (congruenceWideningAssign fun _ _ => false) (fun _ _ => true) exXg exY [⟨[0, 1, 0], 2⟩] none).1.con =
    [⟨[1, 0, 0], 1⟩, ⟨[0, 0, 1], 1⟩, ⟨[0, 1, 0], 2⟩] := by
  decide +kernel

end PPLV.Widen.ImplGrid
