import PPLV.Widen.ImplH79ProofsEngineMinAbs0
import Mathlib.LinearAlgebra.Dimension.Constructions
import Mathlib.LinearAlgebra.Dimension.Finite
import Mathlib.SetTheory.Cardinal.Finite
import Mathlib.Data.Fintype.Card

/-!
# C08 stage 2b — the abstract counting argument: the equalities (`e ≤ #vanishing rows`) and the assembly
-/
namespace PPLV.Widen.Impl.Abs

open Classical

variable {V : Type*} [AddCommGroup V] [Module ℚ V]

/-! ## small facts on `Holds` and `InK` -/

theorem holds_nonneg {d : Bool × (V →ₗ[ℚ] ℚ)} {v : V} (h : Holds d v) : 0 ≤ d.2 v := by
  unfold Holds at h
  cases hb : d.1 <;> simp [hb] at h
  · exact h
  · exact h.ge

theorem holds_of_zero {d : Bool × (V →ₗ[ℚ] ℚ)} {v : V} (h : d.2 v = 0) : Holds d v := by
  unfold Holds
  cases hb : d.1 <;> simp [h]

theorem holds_of_false {d : Bool × (V →ₗ[ℚ] ℚ)} {v : V} (hb : d.1 = false) (h : 0 ≤ d.2 v) :
    Holds d v := by
  unfold Holds
  simp [hb, h]

theorem eq_zero_of_holds_true {d : Bool × (V →ₗ[ℚ] ℚ)} {v : V} (hb : d.1 = true) (h : Holds d v) :
    d.2 v = 0 := by
  unfold Holds at h
  simpa [hb] using h

theorem inK_add {e f : ℕ} {A : Fin e → V →ₗ[ℚ] ℚ} {C : Fin f → V →ₗ[ℚ] ℚ} {u v : V}
    (hu : InK A C u) (hv : InK A C v) : InK A C (u + v) := by
  refine ⟨fun i => ?_, fun j => ?_⟩
  · rw [map_add, hu.1 i, hv.1 i, add_zero]
  · rw [map_add]; exact add_nonneg (hu.2 j) (hv.2 j)

/-! ## S1: the threshold lemma -/

theorem threshold {ι : Type*} (S : Finset ι) (s t : ι → ℚ) (hs : ∀ i ∈ S, 0 < s i) (M0 : ℚ) :
    ∃ M : ℚ, 0 < M ∧ M0 ≤ M ∧ ∀ i ∈ S, 0 ≤ M * s i + t i := by
  induction S using Finset.induction_on with
  | empty =>
    refine ⟨max M0 1, ?_, le_max_left _ _, ?_⟩
    · exact lt_of_lt_of_le one_pos (le_max_right _ _)
    · intro i hi; simp at hi
  | insert a S ha ih =>
    obtain ⟨M, hM, hM0, hall⟩ := ih (fun i hi => hs i (Finset.mem_insert_of_mem hi))
    have hsa : 0 < s a := hs a (Finset.mem_insert_self a S)
    refine ⟨max M (-(t a) / s a), lt_of_lt_of_le hM (le_max_left _ _),
      le_trans hM0 (le_max_left _ _), ?_⟩
    intro i hi
    rcases Finset.mem_insert.1 hi with rfl | hi
    · have h1 : -(t i) / s i * s i = -(t i) := div_mul_cancel₀ _ hsa.ne'
      have h2 : -(t i) / s i * s i ≤ max M (-(t i) / s i) * s i :=
        mul_le_mul_of_nonneg_right (le_max_right _ _) hsa.le
      linarith
    · have hsi : 0 < s i := hs i (Finset.mem_insert_of_mem hi)
      have h2 : M * s i ≤ max M (-(t a) / s a) * s i :=
        mul_le_mul_of_nonneg_right (le_max_left _ _) hsi.le
      have := hall i hi
      linarith

theorem threshold_strict (s t : ℚ) (hs : 0 < s) : ∃ M0 : ℚ, ∀ M, M0 ≤ M → 0 < M * s + t := by
  refine ⟨(1 - t) / s, fun M hM => ?_⟩
  have h1 : (1 - t) / s * s = 1 - t := div_mul_cancel₀ _ hs.ne'
  have h2 : (1 - t) / s * s ≤ M * s := mul_le_mul_of_nonneg_right hM hs.le
  linarith

section
variable {x0 : V →ₗ[ℚ] ℚ} {e f m : ℕ}
  {A : Fin e → V →ₗ[ℚ] ℚ} {C : Fin f → V →ₗ[ℚ] ℚ} {D : Fin m → Bool × (V →ₗ[ℚ] ℚ)}

/-! ## S2: a non-vanishing row is an inequality row, strict somewhere in the cone -/

theorem nonvanish_witness (h : Setup x0 A C D) {i : Fin m} (hi : ¬ Vanish x0 A C (D i).2) :
    (D i).1 = false ∧ ∃ p, 0 < x0 p ∧ InK A C p ∧ 0 < (D i).2 p := by
  unfold Vanish at hi
  push Not at hi
  obtain ⟨v, hv, hK, hne⟩ := hi
  have hH : Holds (D i) v := (h.same v hv).1 hK i
  have hb : (D i).1 = false := by
    cases hb : (D i).1
    · rfl
    · exact absurd (eq_zero_of_holds_true hb hH) hne
  exact ⟨hb, v, hv, hK, lt_of_le_of_ne (holds_nonneg hH) (Ne.symm hne)⟩

/-- every row is nonnegative on the cone inside the half space -/
theorem row_nonneg (h : Setup x0 A C D) {v : V} (hv : 0 < x0 v) (hK : InK A C v) (i : Fin m) :
    0 ≤ (D i).2 v :=
  holds_nonneg ((h.same v hv).1 hK i)

/-! ## S3: a vector of the cone at which every non-vanishing row is strict -/

theorem exists_strict_on (h : Setup x0 A C D) (S : Finset (Fin m)) :
    ∃ p, 0 < x0 p ∧ InK A C p ∧ ∀ i ∈ S, ¬ Vanish x0 A C (D i).2 → 0 < (D i).2 p := by
  induction S using Finset.induction_on with
  | empty =>
    obtain ⟨p, hp, hA, hC⟩ := h.pstar
    exact ⟨p, hp, ⟨hA, fun j => (hC j).le⟩, fun i hi => by simp at hi⟩
  | insert a S ha ih =>
    obtain ⟨p, hp, hK, hall⟩ := ih
    by_cases hva : Vanish x0 A C (D a).2
    · refine ⟨p, hp, hK, fun i hi hnv => ?_⟩
      rcases Finset.mem_insert.1 hi with rfl | hi
      · exact absurd hva hnv
      · exact hall i hi hnv
    · obtain ⟨_, q, hq, hqK, hqa⟩ := nonvanish_witness h hva
      refine ⟨p + q, ?_, inK_add hK hqK, fun i hi hnv => ?_⟩
      · rw [map_add]; exact add_pos hp hq
      · rw [map_add]
        rcases Finset.mem_insert.1 hi with rfl | hi
        · exact add_pos_of_nonneg_of_pos (row_nonneg h hp hK i) hqa
        · exact add_pos_of_pos_of_nonneg (hall i hi hnv) (row_nonneg h hq hqK i)

theorem exists_pcirc (h : Setup x0 A C D) :
    ∃ p, 0 < x0 p ∧ InK A C p ∧ (∀ i, ¬ Vanish x0 A C (D i).2 → 0 < (D i).2 p) ∧
      ∀ i, Vanish x0 A C (D i).2 → (D i).2 p = 0 := by
  obtain ⟨p, hp, hK, hall⟩ := exists_strict_on h Finset.univ
  exact ⟨p, hp, hK, fun i hnv => hall i (Finset.mem_univ i) hnv, fun i hv => hv p hp hK⟩

/-! ## S4: the vanishing rows cut out (a subspace of) the kernel of every equality -/

theorem eq_zero_of_vanishing_rows (h : Setup x0 A C D) {l : V}
    (hl : ∀ i, Vanish x0 A C (D i).2 → (D i).2 l = 0) (a : Fin e) : A a l = 0 := by
  obtain ⟨p, hp, hK, hpos, hzero⟩ := exists_pcirc h
  obtain ⟨M0, hM0⟩ := threshold_strict (x0 p) (x0 l) hp
  obtain ⟨M, hM, hMM0, hall⟩ := threshold (Finset.univ : Finset (Fin m))
    (fun i => if Vanish x0 A C (D i).2 then 1 else (D i).2 p)
    (fun i => if Vanish x0 A C (D i).2 then 0 else (D i).2 l)
    (fun i _ => by
      by_cases hv : Vanish x0 A C (D i).2
      · simp only [if_pos hv]; exact one_pos
      · simp only [if_neg hv]; exact hpos i hv) M0
  have hx : 0 < x0 (M • p + l) := by
    rw [map_add, map_smul, smul_eq_mul]; exact hM0 M hMM0
  have hrows : ∀ i, Holds (D i) (M • p + l) := by
    intro i
    by_cases hv : Vanish x0 A C (D i).2
    · apply holds_of_zero
      rw [map_add, map_smul, smul_eq_mul, hzero i hv, hl i hv, mul_zero, add_zero]
    · apply holds_of_false (nonvanish_witness h hv).1
      have := hall i (Finset.mem_univ i)
      simp only [if_neg hv] at this
      rw [map_add, map_smul, smul_eq_mul]; exact this
  have hKv : InK A C (M • p + l) := (h.same _ hx).2 hrows
  have h1 := hKv.1 a
  rw [map_add, map_smul, smul_eq_mul, hK.1 a, mul_zero, zero_add] at h1
  exact h1

/-! ## S5: every equality is in the span of the vanishing rows; the count -/

theorem A_mem_span (h : Setup x0 A C D) (a : Fin e) :
    A a ∈ Submodule.span ℚ
      (Set.range fun i : {i : Fin m // Vanish x0 A C (D i).2} => (D i.1).2) := by
  apply mem_span_of_iInf_ker_le_ker
  intro l hl
  rw [Submodule.mem_iInf] at hl
  rw [LinearMap.mem_ker]
  exact eq_zero_of_vanishing_rows h (fun i hv => LinearMap.mem_ker.1 (hl ⟨i, hv⟩)) a

theorem span_A_le (h : Setup x0 A C D) :
    Submodule.span ℚ (Set.range A) ≤ Submodule.span ℚ
      (Set.range fun i : {i : Fin m // Vanish x0 A C (D i).2} => (D i.1).2) := by
  rw [Submodule.span_le]
  rintro _ ⟨a, rfl⟩
  exact A_mem_span h a

theorem eqs_count_fintype (h : Setup x0 A C D) (hA : LinearIndependent ℚ A) :
    e ≤ Fintype.card {i : Fin m // Vanish x0 A C (D i).2} := by
  have h1 : Module.finrank ℚ (Submodule.span ℚ (Set.range A)) = e := by
    rw [finrank_span_eq_card hA, Fintype.card_fin]
  have hfin : Module.Finite ℚ (Submodule.span ℚ
      (Set.range fun i : {i : Fin m // Vanish x0 A C (D i).2} => (D i.1).2)) :=
    Module.Finite.span_of_finite ℚ (Set.finite_range _)
  have h2 := Submodule.finrank_mono (span_A_le h)
  have h3 : Module.finrank ℚ (Submodule.span ℚ
      (Set.range fun i : {i : Fin m // Vanish x0 A C (D i).2} => (D i.1).2)) ≤
      Fintype.card {i : Fin m // Vanish x0 A C (D i).2} :=
    finrank_range_le_card (R := ℚ) _
  omega

theorem eqs_count (h : Setup x0 A C D) (hA : LinearIndependent ℚ A) :
    e ≤ Nat.card {i : Fin m // Vanish x0 A C (D i).2} := by
  rw [Nat.card_eq_fintype_card]
  exact eqs_count_fintype h hA

/-! ## the assembly -/

theorem facets_count
    (hσ : ∃ σ : Fin f → Fin m, Function.Injective σ ∧ ∀ j, ¬ Vanish x0 A C (D (σ j)).2) :
    f ≤ Fintype.card {i : Fin m // ¬ Vanish x0 A C (D i).2} := by
  obtain ⟨σ, hinj, hnv⟩ := hσ
  have := Fintype.card_le_of_injective
    (fun j : Fin f => (⟨σ j, hnv j⟩ : {i : Fin m // ¬ Vanish x0 A C (D i).2}))
    (fun j k hjk => hinj (congrArg Subtype.val hjk))
  rwa [Fintype.card_fin] at this

theorem count_total (h : Setup x0 A C D) (hA : LinearIndependent ℚ A)
    (hσ : ∃ σ : Fin f → Fin m, Function.Injective σ ∧ ∀ j, ¬ Vanish x0 A C (D (σ j)).2) :
    e + f ≤ m := by
  have h1 := eqs_count_fintype h hA
  have h2 := facets_count (x0 := x0) (A := A) (C := C) (D := D) hσ
  have h3 := Fintype.card_subtype_compl (fun i : Fin m => Vanish x0 A C (D i).2)
  have h4 := Fintype.card_subtype_le (fun i : Fin m => Vanish x0 A C (D i).2)
  rw [Fintype.card_fin] at h3 h4
  omega

end

end PPLV.Widen.Impl.Abs
