import PPLV.Widen.ImplShapeProofsLimBox3
/-!
# C08 stage 2 — `Box::limited_CC76_extrapolation_assign`: the constraints that `get_limiting_box` does not select
(equalities, inequalities saturated by a singleton component) are harmless under the precondition `y ⊆ x`
-/
namespace PPLV.Widen
open PPLV.WR

/-- a singleton component is left alone by `CC76_widening_assign` as soon as the component of `y` shares a point
with it (in particular when `y ⊆ x` and `y` is not empty) -/
theorem Itv.cc76_singleton (stops : List Rat) (x y : Itv) (hs : x.isSingleton = true) (q : Rat)
    (hy : y.mem q) (hx : x.mem q) : Itv.cc76 stops x y = x := by
  obtain ⟨xl, xlo, xh, xho⟩ := x
  unfold Itv.isSingleton at hs
  cases xl with
  | none => simp at hs
  | some a =>
    cases xh with
    | none => simp at hs
    | some b =>
      simp only [Bool.and_eq_true, decide_eq_true_eq, Bool.not_eq_true'] at hs
      obtain ⟨⟨hab, h1⟩, h2⟩ := hs
      subst hab
      subst h1; subst h2
      have hqa : q = a := by
        have l1 : a ≤ q := hx.1
        have l2 : q ≤ a := hx.2
        exact le_antisymm l2 l1
      subst hqa
      unfold Itv.cc76
      have e1 : cc76Lo stops (some q) y.lo = some q := by
        unfold cc76Lo
        cases hyl : y.lo with
        | none => rfl
        | some yl =>
          have : ¬ yl > q := by
            have := hy.1
            rw [hyl] at this
            simp only [loOK] at this
            split at this <;> linarith
          simp only [this, if_false]
      have e2 : cc76Hi stops (some q) y.hi = some q := by
        unfold cc76Hi
        cases hyu : y.hi with
        | none => rfl
        | some yu =>
          have : ¬ yu < q := by
            have := hy.2
            rw [hyu] at this
            simp only [hiOK] at this
            split at this <;> linarith
          simp only [this, if_false]
      simp only [e1, e2]

/-- hence the plain widening leaves that component alone … -/
theorem boxCC76_singleton_component (x y : BoxS) (tp : Option Nat) (k : Nat) (hkx : k < x.seq.length)
    (hky : k < y.seq.length) (hs : (x.seq[k]).isSingleton = true) (q : Rat) (hy : (y.seq[k]).mem q)
    (hx : (x.seq[k]).mem q) (hk : k < (boxCC76 x y tp).1.seq.length) :
    (boxCC76 x y tp).1.seq[k] = x.seq[k] := by
  have hstops : ∀ (hk' : k < (boxCC76Stops defaultStops x y).seq.length),
      (boxCC76Stops defaultStops x y).seq[k] = x.seq[k] := by
    intro hk'
    unfold boxCC76Stops at hk' ⊢
    split
    · rfl
    · show (List.zipWith (Itv.cc76 defaultStops) x.seq y.seq)[k]'(by
        rw [List.length_zipWith]; omega) = _
      rw [List.getElem_zipWith]
      exact Itv.cc76_singleton defaultStops _ _ hs q hy hx
  revert hk
  unfold boxCC76
  cases tp with
  | none => exact fun hk => hstops hk
  | some t =>
    simp only
    split
    · intro _; rfl
    · exact fun hk => hstops hk

/-- … and every point of the result of `limited_CC76_extrapolation_assign` has its `k`-th coordinate in the
receiver's (singleton) component: whatever constraint on variable `k` the receiver satisfies — an equality, or an
inequality that the singleton saturates, neither of which `get_limiting_box` selects — is satisfied by the result -/
theorem box_limited_cc76_singleton_harmless (sd : Nat) (cs : List LimCon) (x y : BoxS) (tp : Option Nat)
    (hl : x.seq.length ≠ 0) (hxe : x.markedEmpty = false) (hye : y.markedEmpty = false)
    (k : Nat) (hkx : k < x.seq.length) (hky : k < y.seq.length) (hs : (x.seq[k]).isSingleton = true) (q : Rat)
    (hy : (y.seq[k]).mem q) (hx : (x.seq[k]).mem q) (hk : k < (boxCC76 x y tp).1.seq.length)
    (p : Nat → Rat) (hp : BoxS.γ (boxLimitedCC76 sd cs x y tp).1 p) : (x.seq[k]).mem (p k) := by
  have h1 := (box_limited_cc76_between sd cs x y tp hl hxe hye p).2 hp
  have h2 := h1.2 k hk
  rw [boxCC76_singleton_component x y tp k hkx hky hs q hy hx hk] at h2
  exact h2

end PPLV.Widen
