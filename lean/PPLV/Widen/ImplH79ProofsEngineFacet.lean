import PPLV.Widen.ImplH79ProofsEngineFacet2

/-!
# C08 stage 2b — `MinimalDD.hfacet` derived from the engine contract `EngineDD`

`hfacet_of_engine`: a constraint valid on the point set and saturated by exactly the generators that
saturate a non-tautological row `cj` of the minimised system coincides with `cj` wherever the
equalities of the system hold.  Besides `EngineDD` the derivation uses `GPos`: column 0 of a generator
row is `0` for a line and `≥ 0` for rays and points (true of every `Generator_System` of a closed
polyhedron: divisor of a point `> 0`, rays and lines `0`); `EngineDD` itself does not say it.
-/
namespace PPLV.Widen.Impl

theorem hfacet_of_engine (n : Nat) (y : YMin) (hy : EngineDD n y) (hgp : GPos y) :
    ∀ ci : CRow, ci.e.length = n + 1 →
    (∀ p ∈ den false n y.conSys, ci.holds (hom n p 0)) →
    ∀ cj ∈ y.conSys, cj.isTautological false = false → satRow ci y.genSys = satRow cj y.genSys →
    ∀ p : Pt, SatRows (y.conSys.filter (·.eq)) (hom n p 0) →
      (ci.holds (hom n p 0) ↔ cj.holds (hom n p 0)) := by
  intro ci hci hval cj hcj _ hsatrow p hpE
  obtain ⟨d, v, hrep⟩ := exists_repZ_of_pt n p
  have hvE : InE n y v := by
    refine ⟨hrep.2.1, fun c hc he => ?_⟩
    have h1 := (holds_iff_holdsZ hrep c (le_of_eq (hy.wf c hc))).mp
      (hpE c (List.mem_filter.mpr ⟨hc, he⟩))
    exact (holdsZ_eq he v).mp h1
  obtain ⟨ha, haeq⟩ := ci_validG hy hgp ci hci hval
  rw [holds_iff_holdsZ hrep ci (le_of_eq hci), holds_iff_holdsZ hrep cj (le_of_eq (hy.wf cj hcj))]
  exact facet_core hy ci cj hcj ha haeq (sat_iff hsatrow) v hvE

end PPLV.Widen.Impl
