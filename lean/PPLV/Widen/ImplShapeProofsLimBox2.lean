import PPLV.Widen.ImplShapeProofsLimBox
/-!
# C08 stage 2 — `Box::get_limiting_box`, `Box::limited_CC76_extrapolation_assign`: the limiting box, the result
-/
namespace PPLV.Widen
open PPLV.WR

/-! ## (B2) `refine_interval_no_check` is the intersection with the half-line -/

def refLower (q0 : Rat) (I : Itv) (o : Bool) : Itv :=
  if loLE I.lo I.loOpen (some q0) o && !(I.lo == some q0 && I.loOpen == o) then { I with lo := some q0, loOpen := o }
  else I

def refUpper (q0 : Rat) (I : Itv) (o : Bool) : Itv :=
  if hiGE I.hi I.hiOpen (some q0) o && !(I.hi == some q0 && I.hiOpen == o) then { I with hi := some q0, hiOpen := o }
  else I

theorem refineIntervalNoCheck_eq (I : Itv) (c : LimCon) (numer denom : Int) :
    refineIntervalNoCheck I c numer denom =
      if c.isEq then refUpper (-((numer : Rat) / denom)) (refLower (-((numer : Rat) / denom)) I false) false
      else if denom > 0 then refLower (-((numer : Rat) / denom)) I c.strict
      else refUpper (-((numer : Rat) / denom)) I c.strict := rfl

theorem refLower_mem (q0 : Rat) (I : Itv) (o : Bool) (q : Rat) :
    (refLower q0 I o).mem q ↔ I.mem q ∧ loOK (some q0) o q := by
  unfold refLower
  by_cases h1 : loLE I.lo I.loOpen (some q0) o = true
  · by_cases h2 : (I.lo == some q0 && I.loOpen == o) = true
    · simp only [h1, h2, Bool.not_true, Bool.and_false, Bool.false_eq_true, if_false]
      simp only [Bool.and_eq_true, beq_iff_eq] at h2
      refine ⟨fun h => ⟨h, ?_⟩, fun h => h.1⟩
      have := h.1
      rw [h2.1, h2.2] at this
      exact this
    · have h2' : (I.lo == some q0 && I.loOpen == o) = false := by simpa using h2
      simp only [h1, h2', Bool.not_false, Bool.and_true, if_true]
      unfold Itv.mem
      exact ⟨fun h => ⟨⟨loLE_imp h1 h.1, h.2⟩, h.1⟩, fun h => ⟨h.2, h.1.2⟩⟩
  · have h1' : loLE I.lo I.loOpen (some q0) o = false := by simpa using h1
    simp only [h1', Bool.false_and, Bool.false_eq_true, if_false]
    exact ⟨fun h => ⟨h, not_loLE_imp h1' h.1⟩, fun h => h.1⟩

theorem refUpper_mem (q0 : Rat) (I : Itv) (o : Bool) (q : Rat) :
    (refUpper q0 I o).mem q ↔ I.mem q ∧ hiOK (some q0) o q := by
  unfold refUpper
  by_cases h1 : hiGE I.hi I.hiOpen (some q0) o = true
  · by_cases h2 : (I.hi == some q0 && I.hiOpen == o) = true
    · simp only [h1, h2, Bool.not_true, Bool.and_false, Bool.false_eq_true, if_false]
      simp only [Bool.and_eq_true, beq_iff_eq] at h2
      refine ⟨fun h => ⟨h, ?_⟩, fun h => h.1⟩
      have := h.2
      rw [h2.1, h2.2] at this
      exact this
    · have h2' : (I.hi == some q0 && I.hiOpen == o) = false := by simpa using h2
      simp only [h1, h2', Bool.not_false, Bool.and_true, if_true]
      unfold Itv.mem
      exact ⟨fun h => ⟨⟨h.1, hiGE_imp h1 h.2⟩, h.2⟩, fun h => ⟨h.1.1, h.2⟩⟩
  · have h1' : hiGE I.hi I.hiOpen (some q0) o = false := by simpa using h1
    simp only [h1', Bool.false_and, Bool.false_eq_true, if_false]
    exact ⟨fun h => ⟨h, not_hiGE_imp h1' h.2⟩, fun h => h.1⟩

/-- (B2) the refined interval is exactly the part of `J` that satisfies the constraint -/
theorem refineIntervalNoCheck_mem (J : Itv) (c : LimCon) (numer denom : Int) (hd : denom ≠ 0) (q : Rat) :
    (refineIntervalNoCheck J c numer denom).mem q ↔ J.mem q ∧ conHolds1 c numer denom q := by
  have hdq : (denom : Rat) ≠ 0 := by exact_mod_cast hd
  have hexp := lim_expr_eq (numer : Rat) (denom : Rat) q hdq
  rw [refineIntervalNoCheck_eq]
  unfold conHolds1
  rw [hexp]
  by_cases he : c.isEq = true
  · simp only [he, if_true]
    rw [refUpper_mem, refLower_mem, and_assoc]
    apply and_congr_right
    intro _
    simp only [loOK, hiOK, Bool.false_eq_true, if_false]
    constructor
    · intro h
      have : q = -((numer : Rat) / denom) := le_antisymm h.2 h.1
      rw [this]; ring
    · intro h
      have : q - -((numer : Rat) / denom) = 0 := by
        rcases mul_eq_zero.mp h with h | h
        · exact absurd h hdq
        · exact h
      constructor <;> linarith
  · have he' : c.isEq = false := by simpa using he
    simp only [he', Bool.false_eq_true, if_false]
    by_cases hpos : denom > 0
    · have hpos' : (0 : Rat) < denom := by exact_mod_cast hpos
      simp only [hpos, if_true]
      rw [refLower_mem]
      apply and_congr_right
      intro _
      simp only [loOK]
      by_cases hs : c.strict = true
      · simp only [hs, if_true]
        constructor
        · intro h; exact mul_pos hpos' (by linarith)
        · intro h
          have := (mul_pos_iff_of_pos_left hpos').mp h
          linarith
      · have hs' : c.strict = false := by simpa using hs
        simp only [hs', Bool.false_eq_true, if_false]
        constructor
        · intro h; exact mul_nonneg (le_of_lt hpos') (by linarith)
        · intro h
          have := nonneg_of_mul_nonneg_right h hpos'
          linarith
    · have hneg' : (denom : Rat) < 0 := by
        have : denom < 0 := by omega
        exact_mod_cast this
      simp only [hpos, if_false]
      rw [refUpper_mem]
      apply and_congr_right
      intro _
      simp only [hiOK]
      by_cases hs : c.strict = true
      · simp only [hs, if_true]
        constructor
        · intro h; exact mul_pos_of_neg_of_neg hneg' (by linarith)
        · intro h
          by_contra hc
          have : (denom : Rat) * (q - -((numer : Rat) / denom)) ≤ 0 :=
            mul_nonpos_of_nonpos_of_nonneg (le_of_lt hneg') (by linarith)
          linarith
      · have hs' : c.strict = false := by simpa using hs
        simp only [hs', Bool.false_eq_true, if_false]
        constructor
        · intro h; exact mul_nonneg_of_nonpos_of_nonpos (le_of_lt hneg') (by linarith)
        · intro h
          by_contra hc
          have : (denom : Rat) * (q - -((numer : Rat) / denom)) < 0 :=
            mul_neg_of_neg_of_pos hneg' (by linarith)
          linarith

/-! ## one constraint of `get_limiting_box` -/

theorem lim_getD_eq {α : Type} (l : List α) (d : α) {k : Nat} (h : k < l.length) : l.getD k d = l[k] := by
  rw [List.getD_eq_getElem?_getD, List.getElem?_eq_getElem h]; rfl

theorem extractIntervalConstraint_coeff_ne (sd : Nat) (c : LimCon) (nv ov : Nat)
    (h : extractIntervalConstraint sd c = some (nv, ov)) (hnv : nv ≠ 0) : c.coeff ov ≠ 0 := by
  unfold extractIntervalConstraint at h
  simp only at h
  obtain ⟨_, h2, _, h4⟩ := firstNonzero_spec c.coeff (lo := 1) (hi := sd + 1) (by omega)
  split at h
  · injection h with h; injection h with h1 h2; exact absurd h1.symm hnv
  · rename_i hne
    split at h
    · injection h with h; injection h with h1 h2
      rw [← h2]
      exact h4 (by omega)
    · cases h

/-- the constraint is selected by `get_limiting_box` for the receiver `x`: an interval constraint on variable `ov`
whose relation with `x[ov]` is exactly `is_included()` -/
def boxLimSel (sd : Nat) (x : BoxM) (c : LimCon) (ov : Nat) : Prop :=
  ∃ nv, extractIntervalConstraint sd c = some (nv, ov) ∧ nv ≠ 0 ∧
    intervalRelationIsIncluded (x.getD ov default) c c.inhomo (c.coeff ov) = true

theorem boxLimitStep_cases (sd : Nat) (x lb : BoxM) (c : LimCon) :
    boxLimitStep sd x lb c = lb ∨
    ∃ ov, boxLimSel sd x c ov ∧
      boxLimitStep sd x lb c = lb.set ov (refineIntervalNoCheck (lb.getD ov default) c c.inhomo (c.coeff ov)) := by
  unfold boxLimitStep
  cases h : extractIntervalConstraint sd c with
  | none => left; rfl
  | some pr =>
    obtain ⟨nv, ov⟩ := pr
    by_cases hnv : nv ≠ 0
    · by_cases hi : intervalRelationIsIncluded (x.getD ov default) c c.inhomo (c.coeff ov) = true
      · right
        refine ⟨ov, ⟨nv, h, hnv, hi⟩, ?_⟩
        simp only [hi, if_true]
        rw [if_pos hnv]
      · left; simp only [hi, if_false, Bool.false_eq_true]
        rw [if_pos hnv]
    · left; show (if nv ≠ 0 then _ else lb) = lb; rw [if_neg hnv]

theorem boxLimitStep_of_sel (sd : Nat) (x lb : BoxM) (c : LimCon) (ov : Nat) (h : boxLimSel sd x c ov) :
    boxLimitStep sd x lb c = lb.set ov (refineIntervalNoCheck (lb.getD ov default) c c.inhomo (c.coeff ov)) := by
  obtain ⟨nv, h1, h2, h3⟩ := h
  unfold boxLimitStep
  rw [h1]
  simp only [h2, h3, if_true, ne_eq, not_false_eq_true]

theorem boxLimSel_coeff_ne {sd : Nat} {x : BoxM} {c : LimCon} {ov : Nat} (h : boxLimSel sd x c ov) :
    c.coeff ov ≠ 0 := by
  obtain ⟨nv, h1, h2, _⟩ := h
  exact extractIntervalConstraint_coeff_ne sd c nv ov h1 h2

theorem boxLimitStep_length (sd : Nat) (x lb : BoxM) (c : LimCon) :
    (boxLimitStep sd x lb c).length = lb.length := by
  rcases boxLimitStep_cases sd x lb c with h | ⟨ov, _, h⟩ <;> rw [h]
  exact List.length_set

/-- the step only shrinks components -/
theorem boxLimitStep_sub (sd : Nat) (x lb : BoxM) (c : LimCon) (k : Nat) (h1 : k < (boxLimitStep sd x lb c).length)
    (h2 : k < lb.length) (q : Rat) (hq : ((boxLimitStep sd x lb c)[k]).mem q) : (lb[k]).mem q := by
  rcases boxLimitStep_cases sd x lb c with h | ⟨ov, hsel, h⟩
  · simp only [h] at hq; exact hq
  · simp only [h, List.getElem_set] at hq
    split at hq
    · rename_i hov
      subst hov
      rw [refineIntervalNoCheck_mem _ _ _ _ (boxLimSel_coeff_ne hsel)] at hq
      have := hq.1
      rw [lim_getD_eq _ _ h2] at this
      exact this
    · exact hq

/-- the step keeps every point of the receiver -/
theorem boxLimitStep_dom (sd : Nat) (x lb : BoxM) (c : LimCon) (hlen : lb.length = x.length)
    (hdom : ∀ k (h1 : k < x.length) (h2 : k < lb.length) q, (x[k]).mem q → (lb[k]).mem q)
    (k : Nat) (h1 : k < x.length) (h2 : k < (boxLimitStep sd x lb c).length) (q : Rat) (hq : (x[k]).mem q) :
    ((boxLimitStep sd x lb c)[k]).mem q := by
  have h2' : k < lb.length := by omega
  rcases boxLimitStep_cases sd x lb c with h | ⟨ov, hsel, h⟩
  · simp only [h]; exact hdom k h1 h2' q hq
  · simp only [h, List.getElem_set]
    split
    · rename_i hov
      subst hov
      have hne := boxLimSel_coeff_ne hsel
      rw [refineIntervalNoCheck_mem _ _ _ _ hne]
      rw [lim_getD_eq _ _ h2']
      refine ⟨hdom _ h1 h2' q hq, ?_⟩
      obtain ⟨nv, _, _, hi⟩ := hsel
      rw [lim_getD_eq _ _ h1] at hi
      exact intervalRelationIsIncluded_sound _ c _ _ hne hi q hq
    · exact hdom k h1 h2' q hq

/-- after a selected constraint has been processed, its component satisfies it -/
theorem boxLimitStep_keeps (sd : Nat) (x lb : BoxM) (c : LimCon) (ov : Nat) (hsel : boxLimSel sd x c ov)
    (h1 : ov < (boxLimitStep sd x lb c).length) (q : Rat) (hq : ((boxLimitStep sd x lb c)[ov]).mem q) :
    conHolds1 c c.inhomo (c.coeff ov) q := by
  have h := boxLimitStep_of_sel sd x lb c ov hsel
  simp only [h, List.getElem_set, if_true] at hq
  rw [refineIntervalNoCheck_mem _ _ _ _ (boxLimSel_coeff_ne hsel)] at hq
  exact hq.2

/-! ## the fold -/

theorem boxGetLimitingBox_length (sd : Nat) (cs : List LimCon) (x lb : BoxM) :
    (boxGetLimitingBox sd cs x lb).length = lb.length := by
  unfold boxGetLimitingBox
  induction cs generalizing lb with
  | nil => rfl
  | cons c cs ih => simp only [List.foldl_cons]; rw [ih, boxLimitStep_length]

theorem boxGetLimitingBox_sub (sd : Nat) (cs : List LimCon) (x lb : BoxM) (k : Nat)
    (h1 : k < (boxGetLimitingBox sd cs x lb).length) (h2 : k < lb.length) (q : Rat)
    (hq : ((boxGetLimitingBox sd cs x lb)[k]).mem q) : (lb[k]).mem q := by
  induction cs generalizing lb with
  | nil => exact hq
  | cons c cs ih =>
    have hl : k < (boxLimitStep sd x lb c).length := by rw [boxLimitStep_length]; exact h2
    exact boxLimitStep_sub sd x lb c k hl h2 q (ih (boxLimitStep sd x lb c) h1 hl hq)

theorem boxGetLimitingBox_dom (sd : Nat) (cs : List LimCon) (x lb : BoxM) (hlen : lb.length = x.length)
    (hdom : ∀ k (h1 : k < x.length) (h2 : k < lb.length) q, (x[k]).mem q → (lb[k]).mem q)
    (k : Nat) (h1 : k < x.length) (h2 : k < (boxGetLimitingBox sd cs x lb).length) (q : Rat) (hq : (x[k]).mem q) :
    ((boxGetLimitingBox sd cs x lb)[k]).mem q := by
  induction cs generalizing lb with
  | nil => exact hdom k h1 h2 q hq
  | cons c cs ih =>
    exact ih (boxLimitStep sd x lb c) (by rw [boxLimitStep_length]; exact hlen)
      (fun k' h1' h2' q' hq' => boxLimitStep_dom sd x lb c hlen hdom k' h1' h2' q' hq') h2

theorem boxGetLimitingBox_keeps (sd : Nat) (cs : List LimCon) (x lb : BoxM) (c : LimCon) (hc : c ∈ cs)
    (ov : Nat) (hsel : boxLimSel sd x c ov) (h1 : ov < (boxGetLimitingBox sd cs x lb).length) (q : Rat)
    (hq : ((boxGetLimitingBox sd cs x lb)[ov]).mem q) : conHolds1 c c.inhomo (c.coeff ov) q := by
  induction cs generalizing lb with
  | nil => cases hc
  | cons c' cs ih =>
    rcases List.mem_cons.mp hc with h | h
    · subst h
      have hl : ov < (boxLimitStep sd x lb c).length := by
        have := boxGetLimitingBox_length sd cs x (boxLimitStep sd x lb c)
        have h1' : ov < (boxGetLimitingBox sd cs x (boxLimitStep sd x lb c)).length := h1
        omega
      exact boxLimitStep_keeps sd x lb c ov hsel hl q
        (boxGetLimitingBox_sub sd cs x (boxLimitStep sd x lb c) ov h1 hl q hq)
    · exact ih (boxLimitStep sd x lb c') h h1 hq

end PPLV.Widen
