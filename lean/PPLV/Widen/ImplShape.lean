import PPLV.Widen.Model
import PPLV.WR.ReduceOct
import PPLV.WR.Trans
/-!
# C08 stage 2 — the widenings of the weakly-relational domains as coded (executable model, no Mathlib)

Code-shaped models of the CURRENT source of

* `BD_Shape<T>::CC76_extrapolation_assign(y, first, last, tp)` (`/repo/src/BD_Shape_templates.hh:3086`; the
  overload with the static stop points `-2 … 2` is `BD_Shape_inlines.hh:832`), `get_limiting_shape` (`:3157`),
  `limited_CC76_extrapolation_assign` (`:3225`), `BHMZ05_widening_assign` (`:3272`),
  `limited_BHMZ05_extrapolation_assign` (`:3338`), with `contains` (`:633`), `intersection_assign` (`:3038`),
  `affine_dimension` (`:331`), `shortest_path_closure_assign` (`:1900`), `shortest_path_reduction_assign` (`:2072`)
  as the callers see them;
* `Octagonal_Shape<T>::CC76_extrapolation_assign` (`/repo/src/Octagonal_Shape_templates.hh:3842`),
  `get_limiting_octagon` (`:3916`), `limited_CC76_extrapolation_assign` (`:4007`), `BHMZ05_widening_assign`
  (`:4055`), `limited_BHMZ05_extrapolation_assign` (`:4118`), `contains` (`:1201`), `intersection_assign`
  (`:3795`), `affine_dimension` (`:1017`), `strong_reduction_assign` (`:3046`),
  `Octagonal_Shape_Helper::extract_octagonal_difference` (`Octagonal_Shape.cc:34`);
* `Box<ITV>::CC76_widening_assign` (both overloads, `/repo/src/Box_templates.hh:4186`, `:4207`),
  `get_limiting_box` (`:4239`), `limited_CC76_extrapolation_assign` (`:4270`), `interval_relation` (`:645`),
  `Box::contains` (`:1312`), `Box::intersection_assign` (`:1929`) for rational boundaries.

The matrices, closures and reductions are those of `PPLV/WR/Closure.lean`, `Reduce.lean`, `ReduceOct.lean`
(`Mat`, `bdsCore`, `octCore`, `strongCoherenceM`, `bdsShortestPathReduction`, `octStrongReduction`, …); an object
is its raw matrix together with the status flags the functions test (`marked_empty`, `marked_…_closed`,
`marked_shortest_path_reduced`) and, for `BD_Shape`, `redundancy_dbm`.  A `const` argument `y` that the code
modifies through `const_cast` (closure, reduction) is returned together with the receiver.
`unsigned* tp` is `Option Nat` (`none` = `nullptr`).  Every rounded operation is `up` of the exact result.
-/
namespace PPLV.Widen
open PPLV.WR
open PPLV.WR.ExtRat (fin pinf)

/-! ## one cell of the two CC76 loops -/

/-- `std::lower_bound(first, last, elem)` for a matrix element: `+∞` is beyond every stop point -/
def lowerBoundE (stops : List Rat) : ExtRat → Nat
  | .fin q => lowerBound stops q
  | .pinf => stops.length

/-- `if (y_elem < elem) { k = std::lower_bound(first, last, elem);
      if (k != last) { if (elem < *k) assign_r(elem, *k, ROUND_UP); } else assign_r(elem, PLUS_INFINITY, …); }`
(`BD_Shape_templates.hh:3139-3150`, `Octagonal_Shape_templates.hh:3896-3907`) -/
def cc76Cell (up : Rat → ExtRat) (stops : List Rat) (elem y_elem : ExtRat) : ExtRat :=
  if ExtRat.ltB y_elem elem then
    let k := lowerBoundE stops elem
    if h : k < stops.length then
      (if ExtRat.ltB elem (fin stops[k]) then up stops[k] else elem)
    else pinf
  else elem

/-- `if (y_redundancy_i[j] || y_dbm_i[j] != dbm_ij) assign_r(dbm_ij, PLUS_INFINITY, …)`
(`BD_Shape_templates.hh:3322`); for octagons the redundant cells of `y` already hold `+∞` (`:4101`) -/
def bhmz05Cell (elem y_elem : ExtRat) (y_redundant : Bool) : ExtRat :=
  if y_redundant || y_elem != elem then pinf else elem

/-- `div_round_up(to, x, y)` (`math_utilities_inlines.hh:65`) -/
def divUp (up : Rat → ExtRat) (x y : Int) : ExtRat := up ((x : Rat) / (y : Rat))

/-- a row of the supplied `Constraint_System`: `cf·x + inhomo (= | ≥ | >) 0` -/
structure LimCon where
  isEq : Bool
  cf : List Int
  inhomo : Int
  strict : Bool := false
  deriving Repr, DecidableEq, Inhabited

def LimCon.coeff (c : LimCon) (k : Nat) : Int := c.cf.getD k 0

/-! ## `BD_Shape<T>` -/

/-- a `BD_Shape` object: `dbm`, the status flags, `redundancy_dbm` -/
structure BDS where
  dbm : Mat
  empty : Bool := false
  closed : Bool := false
  reduced : Bool := false
  red : BMat := BMat.const false

namespace BDS
/-- `set_empty()`: `flags = EMPTY` -/
def setEmpty (s : BDS) : BDS := { s with empty := true, closed := false, reduced := false }
/-- `reset_shortest_path_closed()`: clears `SHORTEST_PATH_CLOSED | SHORTEST_PATH_REDUCED` -/
def resetClosed (s : BDS) : BDS := { s with closed := false, reduced := false }
/-- `BD_Shape(space_dim, UNIVERSE)` -/
def univ : BDS := { dbm := { f := fun _ _ => pinf }, closed := true }
end BDS

/-- `shortest_path_closure_assign()` (`:1900`); when emptiness is found the matrix is not used any more -/
def bdClosureAssign (up : Rat → ExtRat) (n : Nat) (s : BDS) : BDS :=
  if s.empty || s.closed then s
  else if n = 0 then s
  else
    let core := bdsCore up (n+1) s.dbm
    if core.negDiag (n+1) then { s.setEmpty with dbm := core }
    else { s with dbm := Mat.diagDown (n+1) pinf core, closed := true }

/-- `x.contains(y)` (`:633`); both closures are done in place in the code, the callers below only use the answer -/
def bdContains (up : Rat → ExtRat) (n : Nat) (x y : BDS) : Bool :=
  if n = 0 then (if x.empty then y.empty else true)
  else
    let y := bdClosureAssign up n y
    if y.empty then true
    else
      let x := bdClosureAssign up n x                          -- `x.is_empty()`
      if x.empty then false
      else (List.range (n+1)).all fun i => (List.range (n+1)).all fun j => !(ExtRat.ltB (x.dbm i j) (y.dbm i j))

/-- the two loops of `CC76_extrapolation_assign` (`:3133-3153`) -/
def bdCC76Loops (up : Rat → ExtRat) (stops : List Rat) (n : Nat) (x y : Mat) : Mat :=
  loopDown (n+1) (fun i m =>
    loopDown (n+1) (fun j m => m.set i j (cc76Cell up stops (m i j) (y i j))) m) x

/-- `x.CC76_extrapolation_assign(y, first, last, tp)` (`:3086`).  The recursive call on `x_tmp` (a copy of the
closed, non-empty `*this`, with `tp = nullptr`) reaches the loops directly: it is `widened`. -/
def bdCC76 (up : Rat → ExtRat) (n : Nat) (stops : List Rat) (x y : BDS) (tp : Option Nat) :
    BDS × BDS × Option Nat :=
  if n = 0 then (x, y, tp)
  else
    let x := bdClosureAssign up n x
    if x.empty then (x, y, tp)
    else
      let y := bdClosureAssign up n y
      if y.empty then (x, y, tp)
      else
        let widened : BDS := { x with dbm := bdCC76Loops up stops n x.dbm y.dbm }.resetClosed
        match tp with
        | some t =>
          if t > 0 then (x, y, if !bdContains up n x widened then some (t - 1) else some t)
          else (widened, y, tp)
        | none => (widened, y, tp)

/-- one constraint of the loop of `get_limiting_shape` (`:3170-3218`): `dbm` is the closed matrix of `*this`,
the state is `limiting_shape.dbm` and `changed` -/
def bdLimitStep (up : Rat → ExtRat) (csd : Nat) (dbm : Mat) (st : Mat × Bool) (c : LimCon) : Mat × Bool :=
  let X := extractBoundedDifference csd c.coeff
  if X.ok && X.numVars != 0 then
    let i := X.i
    let j := X.j
    let negative := decide (X.coeff < 0)
    let x := if negative then dbm i j else dbm j i
    let y := if negative then dbm j i else dbm i j
    let ls := st.1
    let coeff := if negative then - X.coeff else X.coeff
    let d := divUp up c.inhomo coeff
    if x ≤ d then
      if !c.isEq then
        let ls_x := if negative then ls i j else ls j i
        if ExtRat.ltB d ls_x then ((if negative then ls.set i j d else ls.set j i d), true) else st
      else
        let minus_c_term := - c.inhomo
        let d1 := divUp up minus_c_term coeff
        if y ≤ d1 then
          let ls_x := if negative then ls i j else ls j i
          let ls_y := if negative then ls j i else ls i j
          if (decide (d ≤ ls_x) && ExtRat.ltB d1 ls_y) || (ExtRat.ltB d ls_x && decide (d1 ≤ ls_y)) then
            let ls := if negative then ls.set i j d else ls.set j i d
            let ls := if negative then ls.set j i d1 else ls.set i j d1
            (ls, true)
          else st
        else st
    else st
  else st

/-- `x.get_limiting_shape(cs, limiting_shape)` (`:3157`): the closed `*this` and the limiting shape -/
def bdGetLimitingShape (up : Rat → ExtRat) (n csd : Nat) (cs : List LimCon) (x ls : BDS) : BDS × BDS :=
  let x := bdClosureAssign up n x
  let r := cs.foldl (bdLimitStep up csd x.dbm) (ls.dbm, false)
  let ls := { ls with dbm := r.1 }
  (x, if r.2 && ls.closed then ls.resetClosed else ls)

/-- `x.intersection_assign(y)` (`:3038`) -/
def bdIntersectionAssign (n : Nat) (x y : BDS) : BDS :=
  if x.empty then x
  else if y.empty then x.setEmpty
  else if n = 0 then x
  else
    let r := loopDown (n+1) (fun i (st : Mat × Bool) =>
      loopDown (n+1) (fun j (st : Mat × Bool) =>
        if ExtRat.ltB (y.dbm i j) (st.1 i j) then (st.1.set i j (y.dbm i j), true) else st) st) (x.dbm, false)
    let x := { x with dbm := r.1 }
    if r.2 && x.closed then x.resetClosed else x

/-- `x.limited_CC76_extrapolation_assign(y, cs, tp)` (`:3225`); the plain extrapolation is the overload with the
static stop points.  Third component: the limiting shape (journalled by the harness through the private
`get_limiting_shape`). -/
def bdLimitedCC76 (up : Rat → ExtRat) (n csd : Nat) (cs : List LimCon) (x y : BDS) (tp : Option Nat) :
    BDS × BDS × Option Nat × Mat :=
  if n = 0 then (x, y, tp, BDS.univ.dbm)
  else if x.empty then (x, y, tp, BDS.univ.dbm)
  else if y.empty then (x, y, tp, BDS.univ.dbm)
  else
    let (x, limiting_shape) := bdGetLimitingShape up n csd cs x BDS.univ
    let (x, y, tp) := bdCC76 up n defaultStops x y tp
    (bdIntersectionAssign n x limiting_shape, y, tp, limiting_shape.dbm)

/-- `affine_dimension()` (`:331`) -/
def bdAffineDim (up : Rat → ExtRat) (n : Nat) (s : BDS) : Nat × BDS :=
  if n = 0 then (0, s)
  else
    let s := bdClosureAssign up n s
    if s.empty then (0, s) else (bdsAffineDimension n s.dbm, s)

/-- `shortest_path_reduction_assign()` (`:2072`); `none` only if a predecessor walk runs out of fuel -/
def bdReductionAssign (up : Rat → ExtRat) (n : Nat) (s : BDS) : Option BDS :=
  if s.reduced then some s
  else if n = 0 then some s
  else
    let s := bdClosureAssign up n s
    if s.empty then some s
    else (bdsShortestPathReduction up n s.dbm).map fun r => { s with red := r, reduced := true }

/-- the two loops of `BHMZ05_widening_assign` (`:3312-3326`) -/
def bdBHMZ05Loops (n : Nat) (x y : Mat) (y_redundancy : BMat) : Mat :=
  loopDown (n+1) (fun i m =>
    loopDown (n+1) (fun j m =>
      if y_redundancy i j || y i j != m i j then m.set i j pinf else m) m) x

/-- `x.BHMZ05_widening_assign(y, tp)` (`:3272`).  In the token branch the recursive call on the copy `x_tmp`
repeats the two (now idle) affine-dimension computations, reduces the shared `y` and runs the loops. -/
def bdBHMZ05 (up : Rat → ExtRat) (n : Nat) (x y : BDS) (tp : Option Nat) : Option (BDS × BDS × Option Nat) :=
  let (y_affine_dim, y) := bdAffineDim up n y
  if y_affine_dim = 0 then some (x, y, tp)
  else
    let (x_affine_dim, x) := bdAffineDim up n x
    if x_affine_dim ≠ y_affine_dim then some (x, y, tp)
    else
      -- `PPL_ASSERT(marked_shortest_path_closed() && y.marked_shortest_path_closed())`: both were closed above
      (bdReductionAssign up n y).map fun y =>
        let widened : BDS := { x with dbm := bdBHMZ05Loops n x.dbm y.dbm y.red }.resetClosed
        match tp with
        | some t =>
          if t > 0 then (x, y, if !bdContains up n x widened then some (t - 1) else some t)
          else (widened, y, tp)
        | none => (widened, y, tp)

/-- `x.limited_BHMZ05_extrapolation_assign(y, cs, tp)` (`:3338`) -/
def bdLimitedBHMZ05 (up : Rat → ExtRat) (n csd : Nat) (cs : List LimCon) (x y : BDS) (tp : Option Nat) :
    Option (BDS × BDS × Option Nat × Mat) :=
  if n = 0 then some (x, y, tp, BDS.univ.dbm)
  else if x.empty then some (x, y, tp, BDS.univ.dbm)
  else if y.empty then some (x, y, tp, BDS.univ.dbm)
  else
    let (x, limiting_shape) := bdGetLimitingShape up n csd cs x BDS.univ
    (bdBHMZ05 up n x y tp).map fun (x, y, tp) =>
      (bdIntersectionAssign n x limiting_shape, y, tp, limiting_shape.dbm)

/-! ## `Octagonal_Shape<T>` -/

/-- an `Octagonal_Shape` object: the pseudo-triangular `matrix` and the status flags -/
structure OCS where
  mat : Mat
  empty : Bool := false
  closed : Bool := false

namespace OCS
def setEmpty (s : OCS) : OCS := { s with empty := true, closed := false }
def resetClosed (s : OCS) : OCS := { s with closed := false }
def univ : OCS := { mat := { f := fun _ _ => pinf }, closed := true }
end OCS

/-- `strong_closure_assign()` (`:2574`) -/
def octClosureAssign (up : Rat → ExtRat) (n : Nat) (s : OCS) : OCS :=
  if s.empty || s.closed || n = 0 then s
  else
    let core := octCore up n s.mat
    if core.negDiag (2 * n) then { s.setEmpty with mat := core }
    else { s with mat := strongCoherenceM up n (Mat.diagUp (2 * n) pinf core), closed := true }

/-- every stored element, in the order of `element_begin() … element_end()` (row-major) -/
def octCells (n : Nat) : List (Nat × Nat) :=
  (List.range (2 * n)).flatMap fun i => (List.range (rowSize i)).map fun j => (i, j)

/-- `x.contains(y)` (`:1201`) -/
def octContains (up : Rat → ExtRat) (n : Nat) (x y : OCS) : Bool :=
  if n = 0 then (if x.empty then y.empty else true)
  else
    let y := octClosureAssign up n y
    if y.empty then true
    else
      let x := octClosureAssign up n x                         -- `is_empty()`
      if x.empty then false
      else (octCells n).all fun (i, j) => !(ExtRat.ltB (x.mat i j) (y.mat i j))

/-- the element loop of `CC76_extrapolation_assign` (`:3890-3909`) -/
def octCC76Loops (up : Rat → ExtRat) (stops : List Rat) (n : Nat) (x y : Mat) : Mat :=
  loopUp (2 * n) (fun i m =>
    loopUp (rowSize i) (fun j m => m.set i j (cc76Cell up stops (m i j) (y i j))) m) x

/-- `x.CC76_extrapolation_assign(y, first, last, tp)` (`:3842`) -/
def octCC76 (up : Rat → ExtRat) (n : Nat) (stops : List Rat) (x y : OCS) (tp : Option Nat) :
    OCS × OCS × Option Nat :=
  if n = 0 then (x, y, tp)
  else
    let x := octClosureAssign up n x
    if x.empty then (x, y, tp)
    else
      let y := octClosureAssign up n y
      if y.empty then (x, y, tp)
      else
        let widened : OCS := { x with mat := octCC76Loops up stops n x.mat y.mat }.resetClosed
        match tp with
        | some t =>
          if t > 0 then (x, y, if !octContains up n x widened then some (t - 1) else some t)
          else (widened, y, tp)
        | none => (widened, y, tp)

/-- the outputs of `extract_octagonal_difference` -/
structure OctX where
  ok : Bool
  numVars : Nat
  i : Nat
  j : Nat
  coeff : Int
  term : Int
  deriving Repr, DecidableEq, Inhabited

/-- `Octagonal_Shape_Helper::extract_octagonal_difference(c, c_space_dim, num_vars, i, j, coeff, term)`
(`Octagonal_Shape.cc:34`) -/
def extractOctagonalDifference (csd : Nat) (cf : Nat → Int) (inhomo : Int) : OctX :=
  let first := firstNonzero cf 1 (csd + 1)
  if first = csd + 1 then ⟨true, 0, first, 0, 0, inhomo⟩
  else
    let first := first - 1
    let second := firstNonzero cf (first + 2) (csd + 1)
    if second = csd + 1 then
      let c0 := cf first
      let term := inhomo * 2
      let f := first * 2
      if c0 < 0 then ⟨true, 1, f + 1, f, c0, term⟩ else ⟨true, 1, f, f + 1, c0, term⟩
    else
      let second := second - 1
      if !allZeroes cf (second + 2) (csd + 1) then ⟨false, 2, first, second, 0, 0⟩
      else
        -- `swap(c_first_var, c_second_var)`
        let fv := second
        let sv := first
        let c0 := cf fv
        let c1 := cf sv
        if c0 ≠ c1 ∧ c0 ≠ - c1 then ⟨false, 2, fv, sv, 0, inhomo⟩
        else
          let fi := if c0 < 0 then fv * 2 + 1 else fv * 2
          let sj := if c1 > 0 then sv * 2 + 1 else sv * 2
          ⟨true, 2, fi, sj, c0, inhomo⟩

/-- one constraint of the loop of `get_limiting_octagon` (`:3931-3995`), nesting as written: the "other half"
is the `else` of `if (lo_m_i_j > d)` inside `if (c.is_inequality())`; an equality contributes nothing -/
def octLimitStep (up : Rat → ExtRat) (csd : Nat) (m : Mat) (st : Mat × Bool) (c : LimCon) : Mat × Bool :=
  let X := extractOctagonalDifference csd c.coeff c.inhomo
  if !X.ok then st
  else if X.numVars = 0 then st
  else
    let i := X.i
    let j := X.j
    let lo := st.1
    let coeff := if X.coeff < 0 then - X.coeff else X.coeff
    let d := divUp up X.term coeff
    if m i j ≤ d then
      if !c.isEq then
        if ExtRat.ltB d (lo i j) then (lo.set i j d, true)
        else
          let ci := if i % 2 = 0 then i + 1 else i - 1
          let cj := cidx j
          let term := - X.term
          let d := divUp up term coeff
          if decide (m ci cj ≤ d) && ExtRat.ltB d (lo ci cj) then (lo.set ci cj d, true) else st
      else st
    else st

/-- `x.get_limiting_octagon(cs, limiting_octagon)` (`:3916`) -/
def octGetLimitingOctagon (up : Rat → ExtRat) (n csd : Nat) (cs : List LimCon) (x lo : OCS) : OCS × OCS :=
  let x := octClosureAssign up n x
  let r := cs.foldl (octLimitStep up csd x.mat) (lo.mat, false)
  let lo := { lo with mat := r.1 }
  (x, if r.2 && lo.closed then lo.resetClosed else lo)

/-- `x.intersection_assign(y)` (`:3795`) -/
def octIntersectionAssign (n : Nat) (x y : OCS) : OCS :=
  if x.empty then x
  else if y.empty then x.setEmpty
  else if n = 0 then x
  else
    let r := loopUp (2 * n) (fun i (st : Mat × Bool) =>
      loopUp (rowSize i) (fun j (st : Mat × Bool) =>
        if ExtRat.ltB (y.mat i j) (st.1 i j) then (st.1.set i j (y.mat i j), true) else st) st) (x.mat, false)
    let x := { x with mat := r.1 }
    if r.2 && x.closed then x.resetClosed else x

/-- `x.limited_CC76_extrapolation_assign(y, cs, tp)` (`:4007`) -/
def octLimitedCC76 (up : Rat → ExtRat) (n csd : Nat) (cs : List LimCon) (x y : OCS) (tp : Option Nat) :
    OCS × OCS × Option Nat × Mat :=
  if n = 0 then (x, y, tp, OCS.univ.mat)
  else if x.empty then (x, y, tp, OCS.univ.mat)
  else if y.empty then (x, y, tp, OCS.univ.mat)
  else
    let (x, limiting_octagon) := octGetLimitingOctagon up n csd cs x OCS.univ
    let (x, y, tp) := octCC76 up n defaultStops x y tp
    (octIntersectionAssign n x limiting_octagon, y, tp, limiting_octagon.mat)

/-- `affine_dimension()` (`:1017`) -/
def octAffineDim (up : Rat → ExtRat) (n : Nat) (s : OCS) : Nat × OCS :=
  if n = 0 then (0, s)
  else
    let s := octClosureAssign up n s
    if s.empty then (0, s) else (octAffineDimension n s.mat, s)

/-- `strong_reduction_assign()` (`:3046`): the redundant cells become `+∞`, the closure flag is reset -/
def octReductionAssign (up : Rat → ExtRat) (n : Nat) (s : OCS) : Option OCS :=
  if n = 0 then some s
  else
    let s := octClosureAssign up n s
    if s.empty then some s
    else (octStrongReduction up n s.mat).map fun m => { s with mat := m }.resetClosed

/-- the element loop of `BHMZ05_widening_assign` (`:4092-4104`) -/
def octBHMZ05Loops (n : Nat) (x y : Mat) : Mat :=
  loopUp (2 * n) (fun i m =>
    loopUp (rowSize i) (fun j m => if y i j != m i j then m.set i j pinf else m) m) x

/-- `x.BHMZ05_widening_assign(y, tp)` (`:4055`) -/
def octBHMZ05 (up : Rat → ExtRat) (n : Nat) (x y : OCS) (tp : Option Nat) : Option (OCS × OCS × Option Nat) :=
  let (y_affine_dim, y) := octAffineDim up n y
  if y_affine_dim = 0 then some (x, y, tp)
  else
    let (x_affine_dim, x) := octAffineDim up n x
    if x_affine_dim ≠ y_affine_dim then some (x, y, tp)
    else
      (octReductionAssign up n y).map fun y =>
        let widened : OCS := { x with mat := octBHMZ05Loops n x.mat y.mat }.resetClosed
        match tp with
        | some t =>
          if t > 0 then (x, y, if !octContains up n x widened then some (t - 1) else some t)
          else (widened, y, tp)
        | none => (widened, y, tp)

/-- `x.limited_BHMZ05_extrapolation_assign(y, cs, tp)` (`:4118`) -/
def octLimitedBHMZ05 (up : Rat → ExtRat) (n csd : Nat) (cs : List LimCon) (x y : OCS) (tp : Option Nat) :
    Option (OCS × OCS × Option Nat × Mat) :=
  if n = 0 then some (x, y, tp, OCS.univ.mat)
  else if x.empty then some (x, y, tp, OCS.univ.mat)
  else if y.empty then some (x, y, tp, OCS.univ.mat)
  else
    let (x, limiting_octagon) := octGetLimitingOctagon up n csd cs x OCS.univ
    (octBHMZ05 up n x y tp).map fun (x, y, tp) =>
      (octIntersectionAssign n x limiting_octagon, y, tp, limiting_octagon.mat)

/-! ## `Box<ITV>` with rational boundaries -/

/-- a `Box` object: the intervals and `marked_empty()` -/
structure BoxS where
  seq : BoxM
  markedEmpty : Bool := false
  deriving Repr, DecidableEq, Inhabited

/-- `is_empty()` -/
def BoxS.isEmpty (b : BoxS) : Bool := b.markedEmpty || BoxM.isEmpty b.seq

/-- `le(LOWER, x.lower, LOWER, y.lower)`: the lower boundary of `x` is at or below that of `y` -/
def loLE (xl : Option Rat) (xo : Bool) (yl : Option Rat) (yo : Bool) : Bool :=
  match xl, yl with
  | none, _ => true
  | some _, none => false
  | some a, some b => decide (a < b) || (decide (a = b) && (!xo || yo))

/-- `ge(UPPER, x.upper, UPPER, y.upper)` -/
def hiGE (xu : Option Rat) (xo : Bool) (yu : Option Rat) (yo : Bool) : Bool :=
  match xu, yu with
  | none, _ => true
  | some _, none => false
  | some a, some b => decide (b < a) || (decide (a = b) && (!xo || yo))

/-- `Interval::contains(y)` (`Interval_inlines.hh:193`) -/
def Itv.containsB (x y : Itv) : Bool :=
  if y.isEmpty then true else if x.isEmpty then false
  else loLE x.lo x.loOpen y.lo y.loOpen && hiGE x.hi x.hiOpen y.hi y.hiOpen

/-- `Box::contains(y)` (`:1312`) -/
def boxContains (x y : BoxS) : Bool :=
  if y.isEmpty then true else if x.isEmpty then false
  else (List.zipWith Itv.containsB x.seq y.seq).all id

/-- `x.CC76_widening_assign(y, first, last)` (`:4186`): `BoxM.cc76` of `Widen/Model.lean` on the intervals -/
def boxCC76Stops (stops : List Rat) (x y : BoxS) : BoxS :=
  if y.isEmpty then x else { x with seq := List.zipWith (Itv.cc76 stops) x.seq y.seq }

/-- `x.CC76_widening_assign(y, tp)` (`:4207`) -/
def boxCC76 (x y : BoxS) (tp : Option Nat) : BoxS × Option Nat :=
  match tp with
  | some t =>
    if t > 0 then (x, if !boxContains x (boxCC76Stops defaultStops x y) then some (t - 1) else some t)
    else (boxCC76Stops defaultStops x y, tp)
  | none => (boxCC76Stops defaultStops x y, tp)

/-- `is_singleton()` -/
def Itv.isSingleton (I : Itv) : Bool :=
  match I.lo, I.hi with
  | some l, some u => decide (l = u) && !I.loOpen && !I.hiOpen
  | _, _ => false

/-- `interval_relation(i, type, numer, denom) == Poly_Con_Relation::is_included()` (`:645`, compared as in
`get_limiting_box`): an equality never answers exactly `is_included()` (a singleton answers
`is_included() && saturates()`), and neither does an inequality that a singleton saturates -/
def intervalRelationIsIncluded (I : Itv) (c : LimCon) (numer denom : Int) : Bool :=
  if I.lo.isNone && I.hi.isNone then false                        -- `i.is_universe()`
  else
    let bound : Rat := - ((numer : Rat) / (denom : Rat))
    if c.isEq then false
    else if denom > 0 then
      match I.lo with
      | none => false
      | some l =>
        if l > bound then true
        else if l = bound then (if !c.strict || I.loOpen then !I.isSingleton else false)
        else false
    else
      match I.hi with
      | none => false
      | some u =>
        if u < bound then true
        else if u = bound then (if !c.strict || I.hiOpen then !I.isSingleton else false)
        else false

/-- `refine_interval_no_check(itv, type, numer, denom)` for rational boundaries: intersection with the half-line -/
def refineIntervalNoCheck (I : Itv) (c : LimCon) (numer denom : Int) : Itv :=
  let q : Rat := - ((numer : Rat) / (denom : Rat))
  let lower (I : Itv) (o : Bool) : Itv :=
    if loLE I.lo I.loOpen (some q) o && !(I.lo == some q && I.loOpen == o) then { I with lo := some q, loOpen := o } else I
  let upper (I : Itv) (o : Bool) : Itv :=
    if hiGE I.hi I.hiOpen (some q) o && !(I.hi == some q && I.hiOpen == o) then { I with hi := some q, hiOpen := o } else I
  if c.isEq then upper (lower I false) false
  else if denom > 0 then lower I c.strict
  else upper I c.strict

/-- `Box_Helpers::extract_interval_constraint(c, num_vars, only_var)`: `none` = not an interval constraint -/
def extractIntervalConstraint (sd : Nat) (c : LimCon) : Option (Nat × Nat) :=
  let first := firstNonzero c.coeff 1 (sd + 1)
  if first = sd + 1 then some (0, 0)
  else if allZeroes c.coeff (first + 1) (sd + 1) then some (1, first - 1) else none

/-- one constraint of the loop of `get_limiting_box` (`:4245-4266`) -/
def boxLimitStep (sd : Nat) (x : BoxM) (lb : BoxM) (c : LimCon) : BoxM :=
  match extractIntervalConstraint sd c with
  | none => lb
  | some (num_vars, only_var) =>
    if num_vars ≠ 0 then
      let n := c.inhomo
      let d := c.coeff only_var
      if intervalRelationIsIncluded (x.getD only_var default) c n d then
        lb.set only_var (refineIntervalNoCheck (lb.getD only_var default) c n d)
      else lb
    else lb

def Itv.univ : Itv := ⟨none, false, none, false⟩

/-- `x.get_limiting_box(cs, limiting_box)` (`:4239`) -/
def boxGetLimitingBox (sd : Nat) (cs : List LimCon) (x : BoxM) (lb : BoxM) : BoxM :=
  cs.foldl (boxLimitStep sd x) lb

/-- `Interval::intersect_assign(y)` -/
def Itv.intersect (x y : Itv) : Itv :=
  let (lo, lopen) := if loLE x.lo x.loOpen y.lo y.loOpen then (y.lo, y.loOpen) else (x.lo, x.loOpen)
  let (hi, hopen) := if hiGE x.hi x.hiOpen y.hi y.hiOpen then (y.hi, y.hiOpen) else (x.hi, x.hiOpen)
  ⟨lo, lopen, hi, hopen⟩

/-- `x.intersection_assign(y)` (`:1929`); `reset_empty_up_to_date()` clears `marked_empty()` -/
def boxIntersectionAssign (x y : BoxS) : BoxS :=
  if x.markedEmpty then x
  else if y.markedEmpty then { x with markedEmpty := true }
  else if x.seq.length = 0 then x
  else { seq := List.zipWith Itv.intersect x.seq y.seq, markedEmpty := false }

/-- `x.limited_CC76_extrapolation_assign(y, cs, tp)` (`:4270`) -/
def boxLimitedCC76 (sd : Nat) (cs : List LimCon) (x y : BoxS) (tp : Option Nat) : BoxS × Option Nat × BoxM :=
  let univ : BoxM := List.replicate x.seq.length Itv.univ
  if x.seq.length = 0 then (x, tp, univ)
  else if x.markedEmpty then (x, tp, univ)
  else if y.markedEmpty then (x, tp, univ)
  else
    let limiting_box := boxGetLimitingBox sd cs x.seq univ
    let (x, tp) := boxCC76 x y tp
    (boxIntersectionAssign x { seq := limiting_box }, tp, limiting_box)

end PPLV.Widen
