import PPLV.Conv.ProofsCompleteSimp8
import PPLV.Conv.ProofsCompleteMin2
import PPLV.Conv.ProofsCompleteMain
import PPLV.Conv.ProofsCompleteK1a
/-!
# exact row lengths through `simplify` / `minimize` (source side)

Every phase of `simplify` permutes / removes rows, or replaces a row by a combination of two rows of the
same list, by its sign-normalised form or by its negation: "every row has exactly `L` coefficients" is an
invariant.  Hence `minimize_source_length`.
-/
namespace PPLV.Widen.Impl
open PPLV.Conv

/-- every row has exactly `L` coefficients. -/
def SLen (L : Nat) (rows : List SRow) : Prop := ∀ r ∈ rows, r.row.v.length = L

theorem length_rowSignNormalize (r : LRow) : (rowSignNormalize r).v.length = r.v.length := by
  unfold rowSignNormalize
  simp only
  split
  · rw [length_signNormalize]
  · rfl

theorem length_rowLinearCombine (x y : LRow) (j L : Nat) (hx : x.v.length = L) (hy : y.v.length ≤ L) :
    (rowLinearCombine x y j).v.length = L := by
  unfold rowLinearCombine
  simp only
  rw [length_strongNormalize]
  simp only [length_linearCombine]
  omega

theorem SLen_getD {L : Nat} {rows : List SRow} (h : SLen L rows) (k : Nat) :
    (rows.getD k default).row.v.length ≤ L := by
  by_cases hk : k < rows.length
  · rw [List.getD_eq_getElem?_getD, List.getElem?_eq_getElem hk]
    exact Nat.le_of_eq (h _ (List.getElem_mem hk))
  · rw [List.getD_eq_getElem?_getD, List.getElem?_eq_none (by omega)]; exact Nat.zero_le _

theorem SLen_set {L : Nat} {rows : List SRow} (h : SLen L rows) (i : Nat) (a : SRow)
    (ha : a.row.v.length = L) : SLen L (rows.set i a) := by
  intro x hx
  rcases List.mem_or_eq_of_mem_set hx with h1 | h1
  · exact h x h1
  · rw [h1]; exact ha

theorem SLen_swapAt {L : Nat} {rows : List SRow} (h : SLen L rows) (i j : Nat) :
    SLen L (swapAt rows i j) := fun x hx => h x ((mem_swapAt rows i j x).mp hx)

theorem SLen_removeRowAt {L : Nat} {rows : List SRow} (h : SLen L rows) (i : Nat) :
    SLen L (removeRowAt rows i) := fun x hx => h x (mem_removeRowAt rows i x hx)

theorem SLen_take {L : Nat} {rows : List SRow} (h : SLen L rows) (n : Nat) :
    SLen L (rows.take n) := fun x hx => h x (List.mem_of_mem_take hx)

theorem SLen_swapRowOnly {L : Nat} {rows : List SRow} (h : SLen L rows) (i j : Nat) :
    SLen L (swapRowOnly rows i j) := by
  unfold swapRowOnly
  split
  · rename_i a b ha hb
    have h1 := h a (List.mem_of_getElem? ha)
    have h2 := h b (List.mem_of_getElem? hb)
    exact SLen_set (SLen_set h _ _ (by exact h2)) _ _ (by exact h1)
  · exact h

theorem SLen_mapIdx {L : Nat} {rows : List SRow} (f : Nat → SRow → SRow) (h : SLen L rows)
    (hf : ∀ i r, r.row.v.length = L → (f i r).row.v.length = L) : SLen L (rows.mapIdx f) := by
  intro x hx
  rw [List.mem_mapIdx] at hx
  obtain ⟨i, hi, rfl⟩ := hx
  exact hf _ _ (h _ (List.getElem_mem hi))

theorem SLen_eqDetectLoop {L : Nat} : ∀ (n : Nat) (rows : List SRow) (nle i : Nat), SLen L rows →
    SLen L (eqDetectLoop n rows nle i).1
  | 0, rows, nle, i, h => by simpa only [eqDetectLoop] using h
  | n + 1, rows, nle, i, h => by
    simp only [eqDetectLoop]
    split
    · apply SLen_eqDetectLoop
      have h1 : SLen L (rows.set i { rows.getD i default with
          row := rowSignNormalize { (rows.getD i default).row with le := true } }) := by
        by_cases hi : i < rows.length
        · apply SLen_set h
          rw [length_rowSignNormalize]
          rw [List.getD_eq_getElem?_getD, List.getElem?_eq_getElem hi]
          exact h _ (List.getElem_mem hi)
        · rw [List.set_eq_of_length_le (by omega)]; exact h
      split
      · exact SLen_swapAt h1 _ _
      · exact h1
    · exact SLen_eqDetectLoop n rows nle (i + 1) h

theorem SLen_gaussColumn {L : Nat} (nle j : Nat) (st : List SRow × Nat) (h : SLen L st.1) :
    SLen L (gaussColumn nle j st).1 := by
  obtain ⟨rows, rank⟩ := st
  unfold gaussColumn
  simp only
  split
  · exact h
  · rename_i i _
    have h1 : SLen L (if i > rank then swapRowOnly rows i rank else rows) := by
      split
      · exact SLen_swapRowOnly h _ _
      · exact h
    apply SLen_mapIdx _ h1
    intro k r hr
    split
    · exact length_rowLinearCombine _ _ _ _ hr (SLen_getD h1 _)
    · exact hr

theorem SLen_gauss {L : Nat} (ncols nle : Nat) (rows : List SRow) (h : SLen L rows) :
    SLen L (gauss ncols nle rows).1 := by
  unfold gauss
  have : ∀ (cols : List Nat) (st : List SRow × Nat), SLen L st.1 →
      SLen L (cols.foldl (fun st j => gaussColumn nle j st) st).1 := by
    intro cols
    induction cols with
    | nil => intro st h; exact h
    | cons c cs ih => intro st h; exact ih _ (SLen_gaussColumn nle c st h)
  exact this _ _ h

theorem SLen_dropRedundantEqLoop {L : Nat} : ∀ (n : Nat) (rows : List SRow) (nle red er : Nat), SLen L rows →
    SLen L (dropRedundantEqLoop n rows nle red er)
  | 0, rows, _, _, _, h => by simpa only [dropRedundantEqLoop] using h
  | n + 1, rows, nle, red, er, h => by
    simp only [dropRedundantEqLoop]
    split
    · exact SLen_dropRedundantEqLoop n _ _ _ _ (SLen_removeRowAt h _)
    · exact h

theorem SLen_satRuleLoop {L : Nat} : ∀ (n ncs ms : Nat) (rows : List SRow) (i : Nat), SLen L rows →
    SLen L (satRuleLoop n ncs ms rows i)
  | 0, _, _, rows, _, h => by simpa only [satRuleLoop] using h
  | n + 1, ncs, ms, rows, i, h => by
    simp only [satRuleLoop]
    split
    · split
      · exact SLen_satRuleLoop n _ _ _ _ (SLen_removeRowAt h _)
      · exact SLen_satRuleLoop n _ _ _ _ h
    · exact h

theorem SLen_indepInner {L : Nat} : ∀ (n : Nat) (rows : List SRow) (i j : Nat), SLen L rows →
    SLen L (indepInner n rows i j).1
  | 0, rows, _, _, h => by simpa only [indepInner] using h
  | n + 1, rows, i, j, h => by
    simp only [indepInner, subsetOrEqualStrict]
    split
    · split
      · exact SLen_indepInner n _ _ _ h
      · by_cases c1 : subsetOrEqual (rows.getD j default).sat (rows.getD i default).sat = true
        · simp only [c1, ↓reduceIte]
          split
          · exact h
          · exact SLen_indepInner n _ _ _ (SLen_removeRowAt h _)
        · simp only [c1]; exact SLen_indepInner n _ _ _ h
    · exact h

theorem SLen_indepLoop {L : Nat} : ∀ (n nle : Nat) (rows : List SRow) (i : Nat), SLen L rows →
    SLen L (indepLoop n nle rows i)
  | 0, _, rows, _, h => by simpa only [indepLoop] using h
  | n + 1, nle, rows, i, h => by
    simp only [indepLoop]
    split
    · have h1 := SLen_indepInner (rows.length - nle + 1) rows i nle h
      generalize indepInner (rows.length - nle + 1) rows i nle = p at h1
      obtain ⟨rows', red⟩ := p
      simp only
      split
      · exact SLen_indepLoop n _ _ _ (SLen_removeRowAt h1 _)
      · exact SLen_indepLoop n _ _ _ h1
    · exact h

theorem SLen_backSubstituteStep {L : Nat} (nle : Nat) (rows : List SRow) (k : Nat) (h : SLen L rows) :
    SLen L (backSubstituteStep nle rows k) := by
  unfold backSubstituteStep
  simp only
  have hk := SLen_getD h k
  apply SLen_mapIdx
  · apply SLen_mapIdx _ h
    intro i r hr
    split
    · exact length_rowLinearCombine _ _ _ _ hr hk
    · exact hr
  · intro i r hr
    split
    · apply length_rowLinearCombine _ _ _ _ hr
      split
      · simpa using hk
      · exact hk
    · exact hr

theorem SLen_backSubstitute {L : Nat} (nle : Nat) (rows : List SRow) (h : SLen L rows) :
    SLen L (backSubstitute nle rows) := by
  unfold backSubstitute
  have : ∀ (ks : List Nat) (rows : List SRow), SLen L rows →
      SLen L (ks.foldl (backSubstituteStep nle) rows) := by
    intro ks
    induction ks with
    | nil => intro rows h; exact h
    | cons c cs ih => intro rows h; exact ih _ (SLen_backSubstituteStep nle rows c h)
  exact this _ _ h

/-- **`simplify` keeps the exact row length.** -/
theorem SLen_simplify {L : Nat} (ncols numColsSat : Nat) (sys : List SRow) (h : SLen L sys) :
    SLen L (simplify ncols numColsSat sys).1 := by
  rw [simplify_eq']
  apply SLen_backSubstitute
  have hE : SLen L (simpE sys).1 := SLen_eqDetectLoop _ _ _ _ h
  have hG : SLen L (simpG ncols sys).1 := SLen_gauss _ _ _ hE
  have hP : SLen L (simpP ncols sys).1 := by
    unfold simpP dropPhase
    split
    · exact SLen_take (SLen_dropRedundantEqLoop _ _ _ _ _ hG) _
    · exact hG
  have hS : SLen L (simpS ncols numColsSat sys) := SLen_satRuleLoop _ _ _ _ _ hP
  exact SLen_indepLoop _ _ _ _ hS

theorem SLen_zipWith {L : Nat} : ∀ (a : List LRow) (b : List BRow), (∀ s ∈ a, s.v.length = L) →
    SLen L (List.zipWith (fun a s => ({ row := a, sat := s } : SRow)) a b)
  | [], _, _ => by intro x hx; simp at hx
  | _ :: _, [], _ => by intro x hx; simp at hx
  | a :: as, b :: bs, h => by
    intro x hx
    simp only [List.zipWith_cons_cons, List.mem_cons] at hx
    rcases hx with rfl | hx
    · exact h a (by simp)
    · exact SLen_zipWith as bs (fun s hs => h s (by simp [hs])) x hx

/-- **the constraint system `minimize` leaves has rows of exactly `n + 1` coefficients.** -/
theorem minimize_source_length (n : Nat) (source : List PPLV.Conv.LRow) (sat0 : List PPLV.Conv.BRow)
    (hlen : ∀ s ∈ source, s.v.length = n + 1)
    (hne : (PPLV.Conv.minimize true false (n + 1) source sat0).empty = false) :
    ∀ c ∈ (PPLV.Conv.minimize true false (n + 1) source sat0).source, c.v.length = n + 1 := by
  rw [minimize_source_eq false (n + 1) source sat0 hne]
  intro c hc
  obtain ⟨r, hr, rfl⟩ := List.mem_map.mp hc
  refine SLen_simplify (n + 1) _ _ ?_ r hr
  apply SLen_zipWith
  intro s hs
  exact hlen s (conversion_source_subset _ _ _ _ _ _ s hs)

end PPLV.Widen.Impl
