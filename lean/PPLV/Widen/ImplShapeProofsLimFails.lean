import PPLV.Widen.ImplShapeProofsLimBD3
import PPLV.Widen.ImplShapeProofsLimOct2
import Mathlib.Tactic.Linarith
/-!
# C08 stage 2 — what `get_limiting_shape` / `get_limiting_octagon` do NOT guarantee: concrete witnesses
-/
namespace PPLV.Widen
open PPLV.WR
open PPLV.WR.ExtRat (fin pinf le_rfl' le_trans' le_total' le_pinf fin_le_fin)

/-- the points that satisfy a row of the supplied `Constraint_System` (space dimension `csd`) -/
def LimCon.holds (c : LimCon) (csd : Nat) (p : Nat → Rat) : Prop :=
  if c.isEq then linEval c.coeff p csd + c.inhomo = 0
  else if c.strict then 0 < linEval c.coeff p csd + c.inhomo
  else 0 ≤ linEval c.coeff p csd + c.inhomo

/-! ## rounding: with an inexact `div_round_up` only the ROUNDED constraint is kept -/

/-- `2*A ≤ 5` -/
def limExC : LimCon := ⟨false, [-2], 5, false⟩
/-- `A ≤ 2`, closed -/
def limExX : BDS := { dbm := Mat.ofLists [[pinf, fin 2], [pinf, pinf]], closed := true }
/-- `A ≤ 1`, closed -/
def limExY : BDS := { dbm := Mat.ofLists [[pinf, fin 1], [pinf, pinf]], closed := true }

/-- the limiting shape of `A ≤ 2` for `2A ≤ 5` with integer coefficients is `A ≤ 3` (`div_round_up(5, 2) = 3`) -/
theorem bd_limiting_rounded_cell :
    (bdGetLimitingShape upCeil 1 1 [limExC] limExX BDS.univ).2.dbm 0 1 = fin 3 := by decide +kernel

theorem limExX_holds (p : Nat → Rat) (hp : BDS.γ 1 limExX p) : limExC.holds 1 p := by
  have h := hp.2 0 1 (by omega) (by omega)
  have h2 : p 0 ≤ 2 := by
    have : fin (p 0 - 0) ≤ fin 2 := h
    rw [fin_le_fin] at this; linarith
  simp only [LimCon.holds, limExC, linEval, LimCon.coeff]
  norm_num
  linarith

/-- **rounding** (`BD_Shape_templates.hh:3195`, `div_round_up`): every point of the receiver `A ≤ 2` satisfies the
supplied `2A ≤ 5`, `y` is `A ≤ 1`, yet the result of `limited_BHMZ05_extrapolation_assign` over an integer
coefficient type is `A ≤ 3`, which contains `A = 3`. -/
theorem bd_limited_keeps_rounded_fails :
    ¬ ∀ (n csd : Nat) (cs : List LimCon) (X Y : BDS) (r : BDS × BDS × Option Nat × Mat),
        bdLimitedBHMZ05 upCeil n csd cs X Y none = some r →
        ∀ c ∈ cs, c.isEq = false → (∀ p, BDS.γ n X p → c.holds csd p) → ∀ p, BDS.γ n r.1 p → c.holds csd p := by
  intro h
  have hv : (bdLimitedBHMZ05 upCeil 1 1 [limExC] limExX limExY none).map
      (fun r => (r.1.dbm 0 1, r.1.dbm 0 0, r.1.dbm 1 0, r.1.dbm 1 1, r.1.empty))
      = some (fin 3, pinf, pinf, pinf, false) := by decide +kernel
  cases hr : bdLimitedBHMZ05 upCeil 1 1 [limExC] limExX limExY none with
  | none => rw [hr] at hv; simp at hv
  | some r =>
    rw [hr] at hv
    simp only [Option.map_some, Option.some.injEq, Prod.mk.injEq] at hv
    obtain ⟨h01, h00, h10, h11, he⟩ := hv
    have hγ : BDS.γ 1 r.1 (fun _ => 3) := by
      refine ⟨he, fun i j hi hj => ?_⟩
      have hi' : i = 0 ∨ i = 1 := by omega
      have hj' : j = 0 ∨ j = 1 := by omega
      rcases hi' with rfl | rfl <;> rcases hj' with rfl | rfl
      · rw [h00]; exact le_pinf _
      · rw [h01, fin_le_fin]; simp [DBM.val]
      · rw [h10]; exact le_pinf _
      · rw [h11]; exact le_pinf _
    have := h 1 1 [limExC] limExX limExY r hr limExC (List.mem_singleton.2 rfl) rfl limExX_holds _ hγ
    simp only [LimCon.holds, limExC, linEval, LimCon.coeff] at this
    norm_num at this

/-- the same with CC76 and the default stop points: `2A ≤ 7`, receiver `A ≤ 3`, `y`: `A ≤ 2`; the result is
`A ≤ 4` -/
theorem bd_limited_cc76_keeps_rounded_witness :
    (bdLimitedCC76 upCeil 1 1 [⟨false, [-2], 7, false⟩]
        { dbm := Mat.ofLists [[pinf, fin 3], [pinf, pinf]], closed := true }
        { dbm := Mat.ofLists [[pinf, fin 2], [pinf, pinf]], closed := true } none).1.dbm 0 1 = fin 4 := by
  decide +kernel

/-! ## equalities in `get_limiting_shape`: a half can be dropped -/

/-- `A ≥ 1`, then `2A = 1` -/
def limExEqCs : List LimCon := [⟨false, [1], -1, false⟩, ⟨true, [2], -1, false⟩]
/-- the closed matrix of `A = 1` -/
def limExEqM : Mat := Mat.ofLists [[pinf, fin 1], [fin (-1), pinf]]

/-- **equalities** (`BD_Shape_templates.hh:3204-3216`): both halves of an equality are written only when
`(ls_x >= d && ls_y > d1) || (ls_x > d && ls_y >= d1)`.  Over an integer coefficient type the receiver `A = 1`
passes both tests `x <= d`, `y <= d1` for `2A = 1` (`d = ⌈-1/2⌉ = 0`, `d1 = ⌈1/2⌉ = 1`), but the earlier `A ≥ 1`
has already put `-1 < d` into the limiting cell, so neither disjunct holds and the half `A ≤ 1` is dropped. -/
theorem bd_limiting_equality_half_dropped_fails :
    ¬ ∀ (up : Rat → ExtRat) (csd : Nat) (dbm : Mat) (cs : List LimCon) (c : LimCon),
        c ∈ cs → bdLimSel csd c = true → c.isEq = true →
        dbm (bdLimCell csd c).1 (bdLimCell csd c).2 ≤ bdLimBound up csd c →
        dbm (bdLimCell csd c).2 (bdLimCell csd c).1 ≤ bdLimBound1 up csd c →
        (cs.foldl (bdLimitStep up csd dbm) (BDS.univ.dbm, false)).1 (bdLimCell csd c).1 (bdLimCell csd c).2
            ≤ bdLimBound up csd c ∧
        (cs.foldl (bdLimitStep up csd dbm) (BDS.univ.dbm, false)).1 (bdLimCell csd c).2 (bdLimCell csd c).1
            ≤ bdLimBound1 up csd c := by
  intro h
  have := h upCeil 1 limExEqM limExEqCs ⟨true, [2], -1, false⟩ (by decide) (by decide +kernel) rfl
    (by decide +kernel) (by decide +kernel)
  revert this
  decide +kernel

/-! ## equalities in `get_limiting_octagon`: nothing is kept -/

/-- `A = 1` -/
def limExOctC : LimCon := ⟨true, [1], -1, false⟩
/-- the strongly closed matrix of `A = 1`: `-2A ≤ -2`, `2A ≤ 2` -/
def limExOctM : Mat := Mat.ofLists [[pinf, fin (-2)], [fin 2, pinf]]

/-- **equalities** (`Octagonal_Shape_templates.hh:3958-3993`): the whole body of the loop, "other half" included,
sits inside `if (c.is_inequality())`, so a supplied equality leaves the limiting octagon untouched even though the
receiver satisfies both halves. -/
theorem oct_limiting_drops_equality_fails :
    ¬ ∀ (up : Rat → ExtRat) (csd : Nat) (m : Mat) (cs : List LimCon) (c : LimCon),
        c ∈ cs → octLimSel csd c = true → c.isEq = true →
        m (octLimCell csd c).1 (octLimCell csd c).2 ≤ octLimBound up csd c →
        m (octLimCell2 csd c).1 (octLimCell2 csd c).2 ≤ octLimBound2 up csd c →
        (cs.foldl (octLimitStep up csd m) (OCS.univ.mat, false)).1 (octLimCell csd c).1 (octLimCell csd c).2
            ≤ octLimBound up csd c ∧
        (cs.foldl (octLimitStep up csd m) (OCS.univ.mat, false)).1 (octLimCell2 csd c).1 (octLimCell2 csd c).2
            ≤ octLimBound2 up csd c := by
  intro h
  have := h upId 1 limExOctM [limExOctC] limExOctC (by decide) (by decide +kernel) rfl
    (by decide +kernel) (by decide +kernel)
  revert this
  decide +kernel

/-- the misplaced `else` (`:3966`): the "other half" runs for an INEQUALITY whose first half is already in the
limiting octagon; supplying `A ≥ 1` twice on the receiver `A = 1` adds `A ≤ 1` (cell `(1,0)`, value `2`), which
nobody supplied.  It is still dominated by the receiver (`octGetLimitingOctagon_dom`). -/
theorem oct_limiting_misplaced_else_witness :
    (([⟨false, [1], -1, false⟩] : List LimCon).foldl (octLimitStep upId 1 limExOctM) (OCS.univ.mat, false)).1 1 0
      = pinf ∧
    (([⟨false, [1], -1, false⟩, ⟨false, [1], -1, false⟩] : List LimCon).foldl
      (octLimitStep upId 1 limExOctM) (OCS.univ.mat, false)).1 1 0 = fin 2 := by
  decide +kernel

end PPLV.Widen
