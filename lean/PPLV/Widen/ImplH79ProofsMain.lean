import PPLV.Widen.ImplH79ProofsSem
import PPLV.Widen.ProofsCert
import Mathlib.LinearAlgebra.FiniteDimensional.Basic
import Mathlib.LinearAlgebra.FiniteDimensional.Lemmas
import Mathlib.LinearAlgebra.Dimension.Constructions

/-!
# C08 stage 2 — the H79 widening on minimised closed polyhedra: the certificate decreases
-/
namespace PPLV.Widen.Impl
open PPLV.Widen

/-- what the selection gives for a row of `h79Rows x y` when `y` is minimised -/
theorem h79Rows_matched {n : Nat} {x y : YMin} (hy : MinimalDD n y) {ci : CRow} (hci : ci ∈ h79Rows x y) :
    ci ∈ x.conSys ∧ ∃ cj ∈ y.conSys, cj.isTautological false = false ∧
      satRow ci y.genSys = satRow cj y.genSys := by
  rw [h79Rows_eq] at hci
  obtain ⟨hx, b, hb, hbe⟩ := mem_selectH79_fst hci
  refine ⟨hx, ?_⟩
  have hl : y.satG.length = y.conSys.length := by rw [hy.satG_ok]; simp
  obtain ⟨j, hj, hnt, hsj⟩ := mem_tmpSatG_nontaut hl hy.oneTaut hb
  refine ⟨y.conSys.getD j default, ?_, hnt, ?_⟩
  · rw [List.getD_eq_getElem _ _ hj]; exact List.getElem_mem hj
  · rw [← hbe, ← hsj]
    have hj' : j < y.satG.length := by omega
    rw [List.getD_eq_getElem _ _ hj', List.getD_eq_getElem _ _ hj]
    simp [hy.satG_ok]

/-- the sub-system of `y` describing the widened polyhedron -/
def h79Sub (x y : YMin) : List CRow :=
  (y.conSys.filter (!·.isTautological false)).filter fun c =>
    c.eq || (h79Rows x y).any fun ci => satRow ci y.genSys == satRow c y.genSys

theorem h79Sub_sublist (x y : YMin) : (h79Sub x y).Sublist (y.conSys.filter (!·.isTautological false)) :=
  List.filter_sublist

theorem h79Sub_den (n : Nat) (x y : YMin) (hy : MinimalDD n y) (hxwf : WFRows n x.conSys)
    (hyx : den false n y.conSys ⊆ den false n x.conSys)
    (hdim : annih n (den false n (h79Rows x y)) = annih n (den false n y.conSys)) :
    den false n (h79Sub x y) = den false n (h79Rows x y) := by
  -- the equality rows of `y` hold on the result
  have heqs : ∀ p ∈ den false n (h79Rows x y), SatRows (y.conSys.filter (·.eq)) (hom n p 0) := by
    intro p hp c hc
    obtain ⟨hcy, hceq⟩ := List.mem_filter.mp hc
    have hlen : c.e.length ≤ n + 1 := le_of_eq (hy.wf c hcy)
    have hmem : affOf n c.e ∈ annih n (den false n y.conSys) := by
      rw [affOf_mem_annih hlen]
      intro q hq
      have := hq c hcy
      unfold CRow.holds at this
      rw [if_pos hceq] at this
      exact this
    rw [← hdim, affOf_mem_annih hlen] at hmem
    unfold CRow.holds
    rw [if_pos hceq]
    exact hmem p hp
  -- a row of the result and its matched row of `y` agree where the equalities of `y` hold
  have hagree : ∀ ci ∈ h79Rows x y, ∀ cj ∈ y.conSys, cj.isTautological false = false →
      satRow ci y.genSys = satRow cj y.genSys → ∀ p : Pt,
      SatRows (y.conSys.filter (·.eq)) (hom n p 0) → (ci.holds (hom n p 0) ↔ cj.holds (hom n p 0)) := by
    intro ci hci cj hcj hnt hs p hp
    have hcix : ci ∈ x.conSys := (h79Rows_sublist x y).subset hci
    exact hy.hfacet ci (hxwf ci hcix) (fun q hq => hyx hq ci hcix) cj hcj hnt hs p hp
  apply Set.Subset.antisymm
  · intro p hp
    -- all equality rows of `y` hold at `p`
    have hpe : SatRows (y.conSys.filter (·.eq)) (hom n p 0) := by
      intro c hc
      obtain ⟨hcy, hceq⟩ := List.mem_filter.mp hc
      by_cases ht : c.isTautological false = true
      · exact holds_of_taut ht _ (hom_zero n p 0)
      · apply hp c
        unfold h79Sub
        rw [List.mem_filter, List.mem_filter]
        exact ⟨⟨hcy, by simpa using ht⟩, by simp [hceq]⟩
    intro ci hci
    obtain ⟨_, cj, hcj, hnt, hs⟩ := h79Rows_matched hy hci
    rw [hagree ci hci cj hcj hnt hs p hpe]
    apply hp cj
    unfold h79Sub
    rw [List.mem_filter, List.mem_filter]
    refine ⟨⟨hcj, by simp [hnt]⟩, ?_⟩
    rw [Bool.or_eq_true]
    right
    rw [List.any_eq_true]
    exact ⟨ci, hci, by simpa using hs⟩
  · intro p hp c hc
    unfold h79Sub at hc
    rw [List.mem_filter, List.mem_filter] at hc
    obtain ⟨⟨hcy, hnt⟩, hsel⟩ := hc
    have hpe := heqs p hp
    rw [Bool.or_eq_true] at hsel
    rcases hsel with hceq | hany
    · exact hpe c (List.mem_filter.mpr ⟨hcy, hceq⟩)
    · rw [List.any_eq_true] at hany
      obtain ⟨ci, hci, hs⟩ := hany
      rw [← hagree ci hci c hcy (by simpa using hnt) (by simpa using hs) p hpe]
      exact hp ci hci

/-- `den y ⊆ den (h79Rows x y)` -/
theorem h79Rows_contains_y (n : Nat) (x y : YMin)
    (hyx : den false n y.conSys ⊆ den false n x.conSys) :
    den false n y.conSys ⊆ den false n (h79Rows x y) :=
  hyx.trans (den_mono_sublist false n (h79Rows_sublist x y))

theorem minCons_le {n : Nat} {cs : List CRow} (h : WFRows n cs) :
    minCons n (den false n cs) ≤ cs.length :=
  Nat.sInf_le ⟨cs, h, rfl, rfl⟩

theorem eqRank_anti {n : Nat} {S T : Set Pt} (h : S ⊆ T) : eqRank n T ≤ eqRank n S :=
  Submodule.finrank_mono (annih_anti h)

theorem h79_certificate_decreases (n : Nat) (x y : YMin) (hy : MinimalDD n y) (hxwf : WFRows n x.conSys)
    (hyx : den false n y.conSys ⊆ den false n x.conSys)
    (hne : den false n (h79Rows x y) ≠ den false n y.conSys) :
    certLess (setCert n (den false n (h79Rows x y))) (setCert n (den false n y.conSys)) := by
  have hsub := h79Rows_contains_y n x y hyx
  have hle : annih n (den false n (h79Rows x y)) ≤ annih n (den false n y.conSys) := annih_anti hsub
  have hfr : eqRank n (den false n (h79Rows x y)) ≤ eqRank n (den false n y.conSys) := eqRank_anti hsub
  unfold certLess setCert
  apply lex_mk
  rcases Nat.lt_or_ge (eqRank n (den false n (h79Rows x y))) (eqRank n (den false n y.conSys)) with hlt | hge
  · exact Or.inl hlt
  · right
    have hfe : eqRank n (den false n (h79Rows x y)) = eqRank n (den false n y.conSys) := le_antisymm hfr hge
    refine ⟨hfe, ?_⟩
    have hdim : annih n (den false n (h79Rows x y)) = annih n (den false n y.conSys) :=
      Submodule.eq_of_le_of_finrank_eq hle hfe
    have hden := h79Sub_den n x y hy hxwf hyx hdim
    have hsl := h79Sub_sublist x y
    have hwf : WFRows n (h79Sub x y) :=
      wfRows_sublist (hsl.trans List.filter_sublist) hy.wf
    have hlen : (h79Sub x y).length < (y.conSys.filter (!·.isTautological false)).length := by
      rcases Nat.lt_or_ge (h79Sub x y).length (y.conSys.filter (!·.isTautological false)).length with h | h
      · exact h
      · exfalso
        have he := hsl.eq_of_length_le h
        apply hne
        rw [← hden, he, den_filter_nontaut]
    rw [← hy.hymin, ← hden]
    exact lt_of_le_of_lt (minCons_le hwf) hlen

/-! ### a result described by a sub-system of `y`'s rows ([CousotH78] shortcut, `x = y`) -/

/-- dropping rows of a minimised system: either the set is the same or the certificate decreases
    (uses `hymin` only) -/
theorem subsystem_certLess (n : Nat) (y : YMin) (hy : MinimalDD n y) (sub : List CRow)
    (hsub : sub.Sublist y.conSys)
    (hne : den false n sub ≠ den false n y.conSys) :
    certLess (setCert n (den false n sub)) (setCert n (den false n y.conSys)) := by
  have hsup : den false n y.conSys ⊆ den false n sub := den_mono_sublist false n hsub
  have hfr := eqRank_anti (n := n) hsup
  unfold certLess setCert
  apply lex_mk
  rcases Nat.lt_or_ge (eqRank n (den false n sub)) (eqRank n (den false n y.conSys)) with hlt | hge
  · exact Or.inl hlt
  · right
    refine ⟨le_antisymm hfr hge, ?_⟩
    have hsl : (sub.filter (!·.isTautological false)).Sublist (y.conSys.filter (!·.isTautological false)) :=
      hsub.filter _
    have hwf : WFRows n (sub.filter (!·.isTautological false)) :=
      wfRows_sublist (hsl.trans List.filter_sublist) hy.wf
    have hlen : (sub.filter (!·.isTautological false)).length <
        (y.conSys.filter (!·.isTautological false)).length := by
      rcases Nat.lt_or_ge (sub.filter (!·.isTautological false)).length
        (y.conSys.filter (!·.isTautological false)).length with h | h
      · exact h
      · exfalso
        have he := hsl.eq_of_length_le h
        apply hne
        rw [← den_filter_nontaut n sub, he, den_filter_nontaut]
    rw [← hy.hymin, ← den_filter_nontaut n sub]
    exact lt_of_le_of_lt (minCons_le hwf) hlen

theorem selectCH78_sublist (nnc : Bool) (xGens : List GRow) (yCons : List CRow) :
    (selectCH78Constraints nnc xGens yCons).Sublist yCons := List.filter_sublist

/-! ### the same in the order `H79Cert.LessPh` -/

/-- a non-empty set satisfies at most `n` independent equalities: the constant form `1` vanishes nowhere -/
theorem eqRank_le {n : Nat} {S : Set Pt} (hS : S.Nonempty) : eqRank n S ≤ n := by
  obtain ⟨p, hp⟩ := hS
  have hne : annih n S ≠ ⊤ := by
    intro htop
    have hmem : (fun i : Fin (n + 1) => if i = 0 then (1 : ℚ) else 0) ∈ annih n S := by
      rw [htop]; exact Submodule.mem_top
    have := hmem p hp
    simp [Fin.succ_ne_zero] at this
  have hlt := Submodule.finrank_lt hne
  rw [Module.finrank_fin_fun] at hlt
  exact Nat.lt_succ_iff.mp hlt

theorem h79_certificate_decreases_lessPh (n : Nat) (x y : YMin) (hy : MinimalDD n y)
    (hxwf : WFRows n x.conSys)
    (hyx : den false n y.conSys ⊆ den false n x.conSys)
    (hyne : (den false n y.conSys).Nonempty)
    (hne : den false n (h79Rows x y) ≠ den false n y.conSys) :
    H79Cert.LessPh n (setH79Cert n (den false n (h79Rows x y))) (setH79Cert n (den false n y.conSys)) := by
  have hsub := h79Rows_contains_y n x y hyx
  have hfr : eqRank n (den false n (h79Rows x y)) ≤ eqRank n (den false n y.conSys) := eqRank_anti hsub
  have hyn : eqRank n (den false n y.conSys) ≤ n := eqRank_le hyne
  have hdec := h79_certificate_decreases n x y hy hxwf hyx hne
  unfold certLess setCert at hdec
  unfold H79Cert.LessPh setH79Cert
  refine ⟨?_, by simp only; omega, by simp only; omega⟩
  rw [H79Cert.comparePh_gt]
  simp only
  rcases (Prod.lex_def).mp hdec with h | ⟨h1, h2⟩
  · left; simp only at h; omega
  · right; simp only at h1 h2; exact ⟨by omega, h2⟩

theorem certLess_wf : WellFounded certLess :=
  WellFounded.prod_lex Nat.lt_wfRel.wf Nat.lt_wfRel.wf


end PPLV.Widen.Impl
